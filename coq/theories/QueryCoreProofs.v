(** C01 — the query core: well-formedness of query trees, the token-level round trip
    [query_roundtrip], and the evaluator of one correspondence case. *)
From SqlV Require Import Base PrecSpec Pratt PrattProofs SetOps PrinterCore PrinterCoreProofs QueryCore.
From Coq Require Import ZifyBool ZifyN ZifyNat.

(** * Well-formed trees (decidable) *)

(** an expression the round trip of the operator core applies to, in canonical spelling *)
Definition ewf (d : dialect) (e : expr) : bool :=
  shapeb d e && wfb (lvl d) (flags_of d) e && lspine_gtb (lvl d) (lvl d K_UNKNOWN) e && canonical e.

Definition optb {A} (f : A -> bool) (x : option A) : bool :=
  match x with Some a => f a | None => true end.

Definition item_wf (d : dialect) (i : item) : bool :=
  match i with
  | IWild => true
  | IExpr e => ewf d e
  | IAlias e w => ewf d e && is_word w
  end.

(** a table name: any word, except UNNEST where FROM UNNEST(..) is a construct of its own *)
Definition name_ok (d : qdialect) (w : qtok) : bool :=
  is_word w && negb (unnest_table d && qtok_eqb w (QE (TKw KUnnest))).

Definition tail_wf (d : dialect) (ob : list (expr * option bool)) (lim off : option expr) : bool :=
  forallb (fun x => ewf d (fst x)) ob && optb (ewf d) lim && optb (ewf d) off.

Fixpoint blspine_gtb (p : N) (b : setexpr) : bool :=
  match b with
  | BSetOp o _ l _ => (p <? sp_pinned o) && blspine_gtb p l
  | _ => true
  end.
Fixpoint brspine_geb (p : N) (b : setexpr) : bool :=
  match b with
  | BSetOp o _ _ r => (p <=? sp_pinned o) && brspine_geb p r
  | _ => true
  end.

(** with trailing commas on, a comma followed by a reserved word ends a list: the elements after
    the first one do not start with such a word (tables of FROM, columns of USING (..) and of a CTE,
    names of CTEs) *)
Definition later_ok (d : qdialect) (w : qtok) : bool := negb (trailing d && mem w (res_col d)).

Definition twj_head_ok (d : qdialect) (t : twj) : bool :=
  match t with Twj (TTable n _) _ => later_ok d n | _ => true end.
Definition later_names_ok (d : qdialect) (from : list twj) : bool :=
  match from with [] => true | _ :: r => forallb (twj_head_ok d) r end.

(** a column list: at least one column, words *)
Definition cols_wf (d : qdialect) (cols : list qtok) : bool :=
  match cols with
  | [] => false
  | _ :: r => forallb is_word cols && forallb (later_ok d) r
  end.
Definition ccols_wf (d : qdialect) (cols : list qtok) : bool :=
  match cols with [] => true | _ => cols_wf d cols end.

Definition jop_wf (d : qdialect) (o : jop) : bool :=
  match o with
  | JOp _ (JOn e) => ewf (base d) e
  | JOp _ (JUsing cols) => cols_wf d cols
  | _ => true
  end.

(** a parenthesised join: what [parse_table_factor] builds a NestedJoin from (a table with at least
    one join, or a nested join), and its first table is not named by a word that starts a query
    (the parser tries a derived table first) *)
Definition nested_ok (t : twj) : bool := nested_shape t && first_ok (first_of t).

Definition cte_name (c : cte) : qtok := match c with Cte n _ _ => n end.
(** WITH without RECURSIVE: the first CTE is not named RECURSIVE *)
Definition with_names_ok (d : qdialect) (rc : bool) (ctes : list cte) : bool :=
  match ctes with
  | [] => false
  | c :: r => (rc || negb (qtok_eqb (cte_name c) (QK KRecursive))) &&
              forallb (fun c => later_ok d (cte_name c)) r
  end.

Fixpoint bwf (d : qdialect) (b : setexpr) {struct b} : bool :=
  match b with
  | BSelect _ items from wh gb hv =>
      match items with [] => false | _ => true end &&
      forallb (item_wf (base d)) items &&
      forallb (twj_wf d) from && later_names_ok d from &&
      optb (ewf (base d)) wh && forallb (ewf (base d)) gb && optb (ewf (base d)) hv
  | BSetOp o _ l r =>
      blspine_gtb (sp_pinned o) r && brspine_geb (sp_pinned o) l && bwf d l && bwf d r
  | BNested q => qwf d q
  end
with qwf (d : qdialect) (q : query) {struct q} : bool :=
  match q with
  | Query w b ob lim off =>
      match w with Some x => with_wf d x | None => true end && bwf d b && tail_wf (base d) ob lim off
  end
with tref_wf (d : qdialect) (t : tref) {struct t} : bool :=
  match t with
  | TTable n a => name_ok d n && optb is_word a
  | TDerived q a => qwf d q && optb is_word a
  | TNested x a => twj_wf d x && nested_ok x && optb is_word a
  end
with twj_wf (d : qdialect) (t : twj) {struct t} : bool :=
  match t with Twj r js => tref_wf d r && forallb (join_wf d) js end
with join_wf (d : qdialect) (j : join) {struct j} : bool :=
  match j with Join o r => jop_wf d o && tref_wf d r end
with with_wf (d : qdialect) (w : withc) {struct w} : bool :=
  match w with With rc ctes => with_names_ok d rc ctes && forallb (cte_wf d) ctes end
with cte_wf (d : qdialect) (c : cte) {struct c} : bool :=
  match c with Cte n cols q => is_word n && ccols_wf d cols && qwf d q end.

Definition wwf (d : qdialect) (w : option withc) : bool :=
  match w with Some x => with_wf d x | None => true end.

(** * The syntactic fragment test on the printed tokens (conservative, decidable): at every
    position where an expression can start the expression parser's view passes [frag_ok] (a position
    is skipped when its token starts no expression, or when it is a name followed by [(]: the head of
    a CTE with a column list - no expression of the fragment looks like that); with trailing commas
    on no [, )]; no [* EXCEPT] / [* ILIKE] where these start a wildcard option *)
Definition exempt (l : list qtok) : bool :=
  match l with
  | QE t :: r =>
      negb (starts t) ||
      match t, r with
      | TAtom false _, QE TLParen :: _ => true
      | _, _ => false
      end
  | _ => true
  end.

Fixpoint sfrag (d : dialect) (l : list qtok) : bool :=
  (exempt l || frag_ok d (cut l)) && match l with [] => true | _ :: r => sfrag d r end.

Fixpoint star_ok (d : qdialect) (l : list qtok) : bool :=
  match l with
  | [] => true
  | t :: r =>
      match t, r with
      | QE (TOp k), QK KExcept :: _ => negb ((k =? K_Mul) && wild_except d)
      | QE (TOp k), QE (TKw KILike) :: _ => negb ((k =? K_Mul) && wild_ilike d)
      | _, _ => true
      end && star_ok d r
  end.

Definition qfrag (d : qdialect) (l : list qtok) : bool :=
  sfrag (base d) l && negb ((trailing d || proj_trailing d) && comma_rparen l) && star_ok d l.

(** what may follow a query: end of input, [)] or [;] *)
Definition ender (rest : list qtok) : bool :=
  match rest with
  | [] => true
  | QE TRParen :: _ | QSemi :: _ => true
  | _ => false
  end.

(** * Evaluation of one correspondence case (adds to [qcase_core]): 16 = the implementation accepted
    the input but its tree (in canonical spelling) is not [qwf]; 32 = the printed tokens fail the
    syntactic fragment test [qfrag] (counted, not an error: the theorem says nothing then) *)
Definition lastn {A} (n : nat) (l : list A) : list A := skipn (length l - n) l.

Definition qcase_full (d : qdialect) (ts : list qtok) (i : qires) : N :=
  let c := qcase_core d ts i in
  if c =? 8 then 8 else
  match i with
  | QIOk q n _ =>
      c + (if qwf d (qnorm q) then 0 else 16) +
      (if qfrag d (qtoks (qnorm q) ++ lastn n ts) && ender (lastn n ts) then 0 else 32)
  | _ => c
  end.

(** * Basic facts *)
(** a token list with balanced parentheses: the expression parser's view passes over it *)
Definition balanced (ts : list tok) : Prop :=
  forall k post, cutd k (qe ts ++ post) = ts ++ cutd k post /\
                 has_stopd k (qe ts ++ post) = has_stopd k post.

Lemma bal_nil : balanced [].
Proof. intros k post. split; reflexivity. Qed.
Lemma bal_app a b : balanced a -> balanced b -> balanced (a ++ b).
Proof.
  intros Ha Hb k post. unfold qe. rewrite map_app, <- !app_assoc. fold (qe a) (qe b).
  destruct (Ha k (qe b ++ post)) as [A1 A2]. destruct (Hb k post) as [B1 B2].
  rewrite A1, A2, B1, B2. split; reflexivity.
Qed.
Lemma bal_cons t a : t <> TLParen -> t <> TRParen -> balanced a -> balanced (t :: a).
Proof.
  intros H1 H2 Ha k post. destruct (Ha k post) as [A1 A2]. cbn [qe map app].
  destruct t; try congruence; cbn [cutd has_stopd]; fold (qe a); rewrite A1, A2; split; reflexivity.
Qed.
Lemma bal_paren a : balanced a -> balanced (TLParen :: a ++ [TRParen]).
Proof.
  intros Ha k post. cbn [qe map app cutd has_stopd]. unfold qe. rewrite map_app, <- app_assoc. fold (qe a).
  destruct (Ha (S k) (QE TRParen :: post)) as [A1 A2]. cbn [map app]. rewrite A1, A2.
  cbn [cutd has_stopd]. rewrite <- app_assoc. split; reflexivity.
Qed.

Ltac bal :=
  repeat first [ assumption | apply bal_nil | apply bal_paren
               | apply bal_cons; [discriminate|discriminate|] | apply bal_app ].

Lemma commas_balanced l : Forall (fun e => balanced (yield e)) l -> balanced (commas l).
Proof.
  induction 1 as [|x r Hx Hr IH]; [apply bal_nil|].
  destruct r as [|y r']; [exact Hx|]. change (commas (x :: y :: r')) with (yield x ++ TComma :: commas (y :: r')). bal.
Qed.

Lemma yield_balanced e : balanced (yield e).
Proof.
  induction e using expr_rect'.
  all: try (rewrite yield_tuple); try (rewrite yield_inlist); cbn [yield].
  all: try match goal with H : Forall _ _ |- _ => apply commas_balanced in H end.
  all: try match goal with |- context [not_toks ?n] => destruct n end.
  all: try match goal with |- context [like_toks ?k] => destruct k end.
  all: try match goal with |- context [any_toks ?a] => destruct a end.
  all: try match goal with |- context [match ?esc with Some _ => _ | None => _ end] => destruct esc as [[? ?]|] end.
  all: try match goal with |- context [if ?c then TOp _ else TPre _] => destruct c end.
  all: cbn [not_toks like_toks any_toks app]; bal.
Qed.

Lemma cut_yield e r : cut (qe (yield e) ++ r) = yield e ++ cut r.
Proof. apply (yield_balanced e O r). Qed.
Lemma has_stop_yield e r : has_stop (qe (yield e) ++ r) = has_stop r.
Proof. apply (yield_balanced e O r). Qed.
Lemma skipn_qe a r : skipn (length a) (qe a ++ r) = r.
Proof. induction a as [|t a IH]; [reflexivity|]. exact IH. Qed.
Lemma cut_nil_inv l : cut l = [] -> l = [].
Proof. destruct l as [|[t| | |] r]; cbn [cut cutd]; intro H; try discriminate; try reflexivity. destruct t; discriminate. Qed.

(** the token after a leading atom of a printed expression is not an opening parenthesis *)
Lemma yield_atom_next e : forall s n x tl, yield e = TAtom s n :: x :: tl -> x <> TLParen.
Proof.
  assert (G : forall e' m rest s n x tl, m <> TLParen ->
            (forall s n x tl, yield e' = TAtom s n :: x :: tl -> x <> TLParen) ->
            yield e' ++ m :: rest = TAtom s n :: x :: tl -> x <> TLParen).
  { intros e' m rest s n x tl Hm IH E. destruct (yield_starts e') as (t & tl0 & E0 & _). rewrite E0 in E.
    cbn [app] in E. inversion E; subst t. destruct tl0 as [|y tl1].
    - cbn [app] in H1. inversion H1; subst. exact Hm.
    - cbn [app] in H1. inversion H1; subst. eapply IH. exact E0. }
  induction e using expr_rect'; intros s0 n0 x0 tl0 E.
  all: try (rewrite yield_tuple in E); try (rewrite yield_inlist in E); cbn [yield] in E.
  all: try match type of E with context [not_toks ?n] => destruct n end.
  all: try match type of E with context [like_toks ?k] => destruct k end.
  all: try match type of E with context [if ?c then TOp _ else TPre _] => destruct c end.
  all: cbn [not_toks like_toks app] in E.
  all: try discriminate E.
  all: refine (G _ _ _ _ _ _ _ _ _ E); [discriminate|assumption].
Qed.

Lemma ewf_parts d e : ewf d e = true ->
  shape d e /\ wf (flags_of d) (lvl d) e /\ lspine_gt (lvl d) (lvl d K_UNKNOWN) e /\ canonical e = true.
Proof.
  unfold ewf. intro H. repeat (apply andb_true_iff in H; destruct H as [H ?]).
  repeat split; [apply shapeb_iff|apply wfb_iff|apply lspine_gtb_iff|]; assumption.
Qed.
Lemma ewf_ptoks d e : ewf d e = true -> ptoks e = yield e.
Proof. intro H. apply ewf_parts in H. unfold ptoks. rewrite norm_canonical; tauto. Qed.

(** what may follow an expression in the printed text: a token outside the expression alphabet,
    [,], [)], FROM, or the end *)
Definition estop (post : list qtok) : bool :=
  match post with
  | [] => true
  | QE TComma :: _ | QE TRParen :: _ | QE (TKw KFrom) :: _ => true
  | QE _ :: _ => false
  | _ :: _ => true
  end.

Lemma estop_np d post : estop post = true ->
  np d (cut post) = lvl d K_UNKNOWN /\ is_escape_head (cut post) = false.
Proof.
  destruct post as [|[t|k| |] r]; cbn [estop cut]; intro H; try (split; reflexivity).
  destruct t; try discriminate H; try (split; reflexivity).
  destruct k; try discriminate H. split; reflexivity.
Qed.

(** the start of a printed expression is a position the fragment test looks at *)
Lemma exempt_yield e post : estop post = true -> exempt (qe (yield e) ++ post) = false.
Proof.
  intro Hs. destruct (yield_starts e) as (t & tl & E & St). rewrite E. cbn [qe map app exempt]. rewrite St.
  cbn [negb orb]. destruct t; try reflexivity. destruct s; [reflexivity|].
  destruct tl as [|x tl'].
  - cbn [map app]. destruct post as [|[[]| | |] ?]; try reflexivity. discriminate Hs.
  - pose proof (yield_atom_next e _ _ _ _ E) as Hx. cbn [map app]. destruct x; try reflexivity. congruence.
Qed.

Section Expr.
  Variable bd : dialect.
  Hypothesis U0 : lvl bd K_UNKNOWN = 0.
  Hypothesis Hand : lvl bd K_AND <= lvl bd C_Between.

  Lemma pexpr_rt e post :
    ewf bd e = true -> frag_ok bd (yield e ++ cut post) = true -> estop post = true ->
    pexpr bd (qe (yield e) ++ post) = Ok (e, post).
  Proof.
    intros He Hf Hs. destruct (ewf_parts _ _ He) as (Hsh & Hw & Hl & _).
    destruct (estop_np bd _ Hs) as [Hn Hesc].
    unfold pexpr. rewrite cut_yield.
    rewrite (parse_expr_roundtrip bd U0 Hand e (cut post)); auto.
    - cbn [bind]. rewrite has_stop_yield.
      assert (Hc : has_stop post && Nat.eqb (length (cut post)) 0 = false).
      { destruct (cut post) as [|c cr] eqn:E; [|cbn [length Nat.eqb]; apply andb_false_r].
        apply cut_nil_inv in E. subst post. reflexivity. }
      rewrite Hc. rewrite app_length.
      replace (length (yield e) + length (cut post) - length (cut post))%nat with (length (yield e)) by lia.
      rewrite skipn_qe. reflexivity.
    - rewrite Hn, U0. apply rspine_ge_zero; assumption.
    - rewrite Hn. lia.
    - intros _. exact Hesc.
  Qed.
End Expr.

(** * The fragment test is closed under suffixes *)
Lemma comma_rparen_cons t r : comma_rparen (t :: r) = false -> comma_rparen r = false.
Proof.
  cbn [comma_rparen]. destruct t as [x| | |]; auto. destruct x; auto.
  destruct r as [|[y| | |] r']; auto. destruct y; auto. discriminate.
Qed.

Lemma qfrag_cons d t r : qfrag d (t :: r) = true -> qfrag d r = true.
Proof.
  unfold qfrag. intro H. apply andb_true_iff in H. destruct H as [H H3].
  apply andb_true_iff in H. destruct H as [H1 H2].
  cbn [sfrag] in H1. apply andb_true_iff in H1. destruct H1 as [_ H1].
  cbn [star_ok] in H3. apply andb_true_iff in H3. destruct H3 as [_ H3].
  rewrite H1, H3. cbn [andb]. rewrite andb_true_r.
  destruct (trailing d || proj_trailing d); [|reflexivity]. cbn [andb negb] in *.
  apply negb_true_iff in H2. apply comma_rparen_cons in H2. rewrite H2. reflexivity.
Qed.

Lemma qfrag_app d a b : qfrag d (a ++ b) = true -> qfrag d b = true.
Proof. induction a as [|t a IH]; [auto|]. intro H. apply IH. eapply qfrag_cons. exact H. Qed.

Lemma qfrag_frag d l : qfrag d l = true -> exempt l = false -> frag_ok (base d) (cut l) = true.
Proof.
  unfold qfrag. intros H Hx. apply andb_true_iff in H. destruct H as [H _].
  apply andb_true_iff in H. destruct H as [H _]. destruct l; cbn [sfrag] in H.
  - apply andb_true_iff in H. destruct H as [H _]. rewrite Hx in H. exact H.
  - apply andb_true_iff in H. destruct H as [H _]. rewrite Hx in H. exact H.
Qed.

Lemma qfrag_trail d l : qfrag d l = true -> trailing d = true \/ proj_trailing d = true -> comma_rparen l = false.
Proof.
  unfold qfrag. intros H Ht. apply andb_true_iff in H. destruct H as [H _].
  apply andb_true_iff in H. destruct H as [_ H]. apply negb_true_iff in H.
  destruct Ht as [Ht|Ht]; rewrite Ht in H; cbn [orb andb] in H; [exact H|].
  rewrite orb_true_r in H. exact H.
Qed.

(** * Side conditions on the generated dialect record (decidable; discharged by [vm_compute] on
    coq/gen/QueryTables.v) *)
Definition kw_only (w : qtok) : bool :=
  match w with
  | QK _ => true
  | QE (TKw k) => negb (kwd_beq k KNot)
  | _ => false
  end.

Definition clause_words : list qtok :=
  [QK KWhere; QK KGroup; QK KHaving; QK KUnion; QK KExcept; QK KIntersect; QK KOrder; QK KLimit; QK KOffset].

(** the keywords that may follow a table of a join in the printed text *)
Definition join_words : list qtok :=
  [QK KJoin; QK KInner; QK KLeft; QK KRight; QK KFull; QK KCross; QK KNatural; QK KOn; QK KUsing].

Definition dialect_ok (d : qdialect) : bool :=
  (lvl (base d) K_UNKNOWN =? 0) && (lvl (base d) K_AND <=? lvl (base d) C_Between) &&
  forallb (fun w => mem w (res_col d)) (QE (TKw KFrom) :: clause_words) &&
  forallb (fun w => mem w (res_tab d)) (clause_words ++ join_words) &&
  forallb kw_only (res_col d).

(** * Followers: the head of what comes after a clause of a printed query *)
Definition hrank (post : list qtok) : nat :=
  match post with
  | [] => 9
  | QE TRParen :: _ | QSemi :: _ => 9
  | QE (TKw KFrom) :: _ => 1
  | QK KWhere :: _ => 2
  | QK KGroup :: _ => 3
  | QK KHaving :: _ => 4
  | QK KUnion :: _ | QK KExcept :: _ | QK KIntersect :: _ => 5
  | QK KOrder :: _ => 6
  | QK KLimit :: _ => 7
  | QK KOffset :: _ => 8
  | _ => 0
  end%nat.

Ltac head_cases post :=
  destruct post as [|[[]|[]| |] ?];
  repeat match goal with k : kwd |- _ => destruct k end.

Lemma hrank_estop post : (1 <= hrank post)%nat -> estop post = true.
Proof. head_cases post; cbn [hrank estop]; intro; try reflexivity; lia. Qed.

Lemma ender_hrank post : ender post = true -> hrank post = 9%nat.
Proof. head_cases post; cbn [ender hrank]; intro; try reflexivity; discriminate. Qed.

(** [fol post]: [post] starts with a comma or with something that ends the list *)
Definition is_comma (post : list qtok) : bool :=
  match post with QE TComma :: _ => true | _ => false end.

(** the join keywords the printer writes at the start of a join / what may follow the table of a join *)
Definition jstart (post : list qtok) : bool :=
  match post with
  | QK KJoin :: _ | QK KLeft :: _ | QK KRight :: _ | QK KFull :: _ | QK KCross :: _ | QK KNatural :: _ => true
  | _ => false
  end.
Definition jhead (post : list qtok) : bool :=
  match post with
  | QK KOn :: _ | QK KUsing :: _ => true
  | _ => jstart post
  end.

Ltac qhead post := destruct post as [|[?|[]| |] ?].

Lemma jstart_jhead post : jstart post = true -> jhead post = true.
Proof. qhead post; cbn [jstart jhead]; intro H; try discriminate H; reflexivity. Qed.
Lemma jhead_estop post : jhead post = true -> estop post = true.
Proof. qhead post; cbn [jhead jstart]; intro H; try discriminate H; reflexivity. Qed.
Lemma jhead_hrank post : jhead post = true -> hrank post = 0%nat.
Proof. qhead post; cbn [jhead jstart]; intro H; try discriminate H; reflexivity. Qed.

(** * Aliases *)
Definition noalias (res : list qtok) (post : list qtok) : bool :=
  match post with
  | [] => true
  | QK KAs :: _ => false
  | w :: _ =>
      (negb (is_word w) || mem w res) &&
      match w with QE (TAtom true _) | QOther | QE TOther => false | _ => true end
  end.

Lemma parse_alias_none res post : noalias res post = true -> parse_alias res post = Ok (None, post).
Proof.
  unfold parse_alias, noalias. destruct post as [|w r]; [reflexivity|].
  destruct w as [t|k| |].
  - intro H. apply andb_true_iff in H. destruct H as [H1 H2]. cbn [orb].
    destruct (is_word (QE t)) eqn:W.
    + cbn [negb orb] in H1. rewrite H1. cbn [negb andb].
      destruct t; try discriminate H2; try reflexivity. destruct s; [discriminate H2|reflexivity].
    + cbn [andb]. destruct t; try discriminate H2; try reflexivity. destruct s; [discriminate H2|reflexivity].
  - destruct k; try discriminate.
    all: intro H; apply andb_true_iff in H; destruct H as [H1 _]; cbn [is_word negb orb] in H1 |- *;
      rewrite H1; reflexivity.
  - reflexivity.
  - discriminate.
Qed.

Lemma parse_alias_some res w post : is_word w = true -> parse_alias res (QK KAs :: w :: post) = Ok (Some w, post).
Proof. intro H. unfold parse_alias. rewrite H. reflexivity. Qed.

Lemma parse_alias_rt res a post :
  optb is_word a = true -> noalias res post = true ->
  parse_alias res (alias_toks a ++ post) = Ok (a, post).
Proof.
  destruct a as [w|]; cbn [optb alias_toks app]; intros Hw Hn.
  - apply parse_alias_some. exact Hw.
  - apply parse_alias_none. exact Hn.
Qed.

Definition not_lparen (post : list qtok) : bool :=
  match post with QE TLParen :: _ => false | _ => true end.

Lemma parse_talias_rt res a post :
  optb is_word a = true -> noalias res post = true -> not_lparen post = true ->
  parse_talias res (alias_toks a ++ post) = Ok (a, post).
Proof.
  intros Hw Hn Hl. unfold parse_talias. rewrite parse_alias_rt by assumption. cbn [bind].
  destruct a; [|reflexivity]. destruct post as [|[[]| | |] r]; try reflexivity. discriminate Hl.
Qed.

Lemma noalias_comma res post : is_comma post = true -> noalias res post = true.
Proof. head_cases post; cbn [is_comma]; intro H; try discriminate. reflexivity. Qed.
Lemma not_lparen_hrank post : (1 <= hrank post)%nat -> not_lparen post = true.
Proof. head_cases post; cbn [hrank]; intro H; try lia; reflexivity. Qed.
Lemma not_lparen_comma post : is_comma post = true -> not_lparen post = true.
Proof. head_cases post; cbn [is_comma]; intro H; try discriminate. reflexivity. Qed.

Section Followers.
  Variable d : qdialect.
  Hypothesis Hd : dialect_ok d = true.

  Lemma d_parts :
    lvl (base d) K_UNKNOWN = 0 /\ lvl (base d) K_AND <= lvl (base d) C_Between /\
    forallb (fun w => mem w (res_col d)) (QE (TKw KFrom) :: clause_words) = true /\
    forallb (fun w => mem w (res_tab d)) (clause_words ++ join_words) = true /\ forallb kw_only (res_col d) = true.
  Proof.
    pose proof Hd as H. unfold dialect_ok in H.
    apply andb_true_iff in H. destruct H as [H H5]. apply andb_true_iff in H. destruct H as [H H4].
    apply andb_true_iff in H. destruct H as [H H3]. apply andb_true_iff in H. destruct H as [H1 H2].
    apply N.eqb_eq in H1. apply N.leb_le in H2. tauto.
  Qed.
  Lemma d_U0 : lvl (base d) K_UNKNOWN = 0.  Proof. apply d_parts. Qed.
  Lemma d_Hand : lvl (base d) K_AND <= lvl (base d) C_Between.  Proof. apply d_parts. Qed.
  Lemma d_col w : In w (QE (TKw KFrom) :: clause_words) -> mem w (res_col d) = true.
  Proof. destruct d_parts as (_ & _ & H & _). rewrite forallb_forall in H. apply H. Qed.
  Lemma d_tab w : In w (clause_words ++ join_words) -> mem w (res_tab d) = true.
  Proof. destruct d_parts as (_ & _ & _ & H & _). rewrite forallb_forall in H. apply H. Qed.
  Lemma d_kw w : mem w (res_col d) = true -> kw_only w = true.
  Proof.
    destruct d_parts as (_ & _ & _ & _ & H). rewrite forallb_forall in H.
    unfold mem. rewrite existsb_exists. intros (x & Hin & He).
    assert (x = w); [|subst; auto].
    destruct w as [t| k| |], x as [t'|k'| |]; cbn [qtok_eqb] in He; try discriminate; try reflexivity.
    - apply tok_eqb_eq in He. congruence.
    - f_equal. symmetry. apply internal_qkw_dec_bl. exact He.
  Qed.

  Lemma noalias_col post : (1 <= hrank post)%nat -> noalias (res_col d) post = true.
  Proof.
    head_cases post; cbn [hrank]; intro H; try lia; try reflexivity; cbn [noalias is_word negb orb andb];
      rewrite d_col; try reflexivity; cbn; tauto.
  Qed.
  Lemma noalias_tab post : (2 <= hrank post)%nat -> noalias (res_tab d) post = true.
  Proof.
    head_cases post; cbn [hrank]; intro H; try lia; try reflexivity; cbn [noalias is_word negb orb andb];
      rewrite d_tab; try reflexivity; cbn; tauto.
  Qed.
  Lemma noalias_jhead post : jhead post = true -> noalias (res_tab d) post = true.
  Proof.
    qhead post; cbn [jhead jstart]; intro H; try discriminate H; cbn [noalias is_word negb orb andb];
      rewrite d_tab; try reflexivity; cbn; tauto.
  Qed.
End Followers.

(** * Comma-separated lists *)
Lemma sepc_cons (x : list qtok) (y : list qtok) (l : list (list qtok)) :
  sepc (x :: y :: l) = x ++ QE TComma :: sepc (y :: l).
Proof. reflexivity. Qed.

Lemma sepc_length_ge (l : list (list qtok)) : (length l <= S (length (sepc l)))%nat.
Proof.
  induction l as [|x [|y l] IH]; cbn [length]; try lia.
  rewrite sepc_cons, app_length. cbn [length] in *. lia.
Qed.

Section CommaRT.
  Context {A : Type}.
  Variable elem : list qtok -> res (A * list qtok).
  Variable trail : option (list qtok).
  Variable toks : A -> list qtok.

  (** what follows an element: the rest of the list, then [post] *)
  Definition follow (suf : list A) (post : list qtok) : list qtok :=
    match suf with [] => post | _ => QE TComma :: sepc (map toks suf) ++ post end.

  Lemma sepc_follow x suf post : sepc (map toks (x :: suf)) ++ post = toks x ++ follow suf post.
  Proof.
    destruct suf as [|y suf]; [reflexivity|]. cbn [map]. rewrite sepc_cons. unfold follow.
    rewrite <- app_assoc. reflexivity.
  Qed.

  Definition notrail (ts : list qtok) : Prop :=
    match trail with Some reserved => comma_end reserved ts = false | None => True end.

  Fixpoint elems_ok (l : list A) (post : list qtok) : Prop :=
    match l with
    | [] => True
    | x :: suf =>
        elem (toks x ++ follow suf post) = Ok (x, follow suf post) /\
        (suf <> [] -> notrail (sepc (map toks suf) ++ post)) /\
        elems_ok suf post
    end.

  Lemma comma_list_rt l : forall post g,
    l <> [] -> elems_ok l post -> is_comma post = false -> (length l <= g)%nat ->
    comma_list elem trail g (sepc (map toks l) ++ post) = Ok (l, post).
  Proof.
    induction l as [|x suf IH]; intros post g Hne Hok Hc Hg; [congruence|].
    destruct g as [|g]; [cbn [length] in Hg; lia|].
    rewrite sepc_follow. cbn [comma_list]. destruct Hok as (He & Ht & Hrest). rewrite He. cbn [bind].
    destruct suf as [|y suf'].
    - cbn [follow]. destruct post as [|[[]| | |] r]; try reflexivity. discriminate Hc.
    - cbn [follow]. specialize (Ht ltac:(discriminate)). unfold notrail in Ht.
      assert (Hb : match trail with Some reserved => comma_end reserved (sepc (map toks (y :: suf')) ++ post) | None => false end = false).
      { destruct trail; [exact Ht|reflexivity]. }
      rewrite Hb. rewrite IH; [reflexivity|discriminate|exact Hrest|exact Hc|cbn [length] in *; lia].
  Qed.
End CommaRT.

Lemma fuel_commas {A} (toks : A -> list qtok) (l : list A) post :
  (length l <= S (length (sepc (map toks l) ++ post)))%nat.
Proof. pose proof (sepc_length_ge (map toks l)). rewrite map_length in H. rewrite app_length. lia. Qed.

(** * Heads of printed expressions *)
Lemma starts_facts t : starts t = true ->
  t <> TKw KAll /\ t <> TKw KDistinct /\ t <> TKw KFrom /\ t <> TRParen /\ t <> TComma /\ t <> TOp K_Mul /\
  t <> TRBracket /\ kw_only (QE t) = false.
Proof.
  intro H. repeat split; try (intro E; subst t; cbn in H; discriminate H).
  destruct t; cbn [starts] in H; try discriminate H; try reflexivity.
  destruct k; try discriminate H; reflexivity.
Qed.

Lemma yield_head e : exists t tl, yield e = t :: tl /\ starts t = true.
Proof. apply yield_starts. Qed.

(** a printed expression never starts with [( )] *)
Lemma yield_no_unit d e : shape d e ->
  exists t tl, yield e = t :: tl /\ starts t = true /\ (t = TLParen -> exists t2 tl2, tl = t2 :: tl2 /\ t2 <> TRParen).
Proof.
  induction e using expr_rect'; intro Hs.
  all: try (destruct Hs as [Hn Hs]).
  all: try (cbv zeta in Hs).
  all: try (cbn [yield]; eexists; eexists; split; [reflexivity|split; [reflexivity|intro; discriminate]]; fail).
  all: try (match goal with
       | IH : shape _ ?x -> _, Hs : shape _ ?x |- _ => destruct (IH Hs) as (t0 & tl0 & E & St & Hp)
       | IH : shape _ ?x -> _, Hs : shape _ ?x /\ _ |- _ => destruct (IH (proj1 Hs)) as (t0 & tl0 & E & St & Hp)
       end;
       cbn [yield]; rewrite E; cbn [app]; eexists; eexists; split; [reflexivity|split; [exact St|]];
       intro Et; destruct (Hp Et) as (t2 & tl2 & E2 & N2); rewrite E2; cbn [app]; eauto; fail).
  - (* nested *)
    destruct (yield_head e) as (t & tl & E & St). cbn [yield]. rewrite E. cbn [app].
    eexists; eexists; split; [reflexivity|split; [reflexivity|]]. intros _. eexists; eexists; split; [reflexivity|].
    apply starts_facts in St. tauto.
  - (* tuple *)
    cbn [node_ok] in Hn. destruct l as [|x [|y l']]; cbn [length] in Hn; try discriminate.
    destruct (yield_head x) as (t & tl & E & St). rewrite yield_tuple. cbn [commas]. rewrite E. cbn [app].
    eexists; eexists; split; [reflexivity|split; [reflexivity|]]. intros _. eexists; eexists; split; [reflexivity|].
    apply starts_facts in St. tauto.
  - (* prefix *)
    cbn [yield]. destruct ((k =? K_Plus) || (k =? K_Minus) || (k =? K_Tilde)) eqn:K;
      eexists; eexists; (split; [reflexivity|split; [cbn [starts]; auto|intro; discriminate]]).
Qed.

(** * Unfolding lemmas *)
Lemma btoks_select dist items from wh gb hv :
  btoks (BSelect dist items from wh gb hv) =
  QK KSelect :: dist_toks dist ++ sepc (map item_toks items) ++ from_toks (map twj_toks from) ++
  clause_toks (QK KWhere) wh ++ group_toks gb ++ clause_toks (QK KHaving) hv.
Proof. reflexivity. Qed.
Lemma btoks_nested q : btoks (BNested q) = QE TLParen :: qtoks q ++ [QE TRParen].
Proof. reflexivity. Qed.
Lemma btoks_setop o q l r : btoks (BSetOp o q l r) = btoks l ++ setop_kw o :: quant_toks q ++ btoks r.
Proof. reflexivity. Qed.
Lemma qtoks_query w b ob lim off :
  qtoks (Query w b ob lim off) =
  wtoks w ++ btoks b ++ order_toks ob ++ clause_toks (QK KLimit) lim ++ clause_toks (QK KOffset) off.
Proof. reflexivity. Qed.

Lemma bwf_select d dist items from wh gb hv :
  bwf d (BSelect dist items from wh gb hv) =
  match items with [] => false | _ => true end && forallb (item_wf (base d)) items &&
  forallb (twj_wf d) from && later_names_ok d from &&
  optb (ewf (base d)) wh && forallb (ewf (base d)) gb && optb (ewf (base d)) hv.
Proof. reflexivity. Qed.
Lemma bwf_nested d q : bwf d (BNested q) = qwf d q.
Proof. reflexivity. Qed.
Lemma qwf_query d w b ob lim off :
  qwf d (Query w b ob lim off) = wwf d w && bwf d b && tail_wf (base d) ob lim off.
Proof. reflexivity. Qed.

Lemma blevel_select dist items from wh gb hv :
  blevel (BSelect dist items from wh gb hv) = S (maxl (map twjlevel from)).
Proof. reflexivity. Qed.
Lemma blevel_nested q : blevel (BNested q) = S (qlevel q).
Proof. reflexivity. Qed.

Lemma maxl_le l n : (maxl l <= n)%nat -> Forall (fun x => (x <= n)%nat) l.
Proof. induction l as [|x l IH]; cbn [maxl fold_right]; intro H; constructor; [lia|apply IH; unfold maxl; lia]. Qed.

Lemma maxl_map_le {A} (g : A -> nat) (l : list A) n : (maxl (map g l) <= n)%nat -> Forall (fun x => (g x <= n)%nat) l.
Proof.
  intro H. apply maxl_le in H. rewrite Forall_forall in *. intros x Hin. apply H. apply in_map. exact Hin.
Qed.

(** the head of a printed body is SELECT or an opening parenthesis *)
Definition bstart (post : list qtok) : bool :=
  match post with QK KSelect :: _ | QE TLParen :: _ => true | _ => false end.

Lemma btoks_head b : exists h r, btoks b = h :: r /\ (h = QK KSelect \/ h = QE TLParen).
Proof.
  induction b as [dist items from wh gb hv|o q l IHl r IHr|q].
  - rewrite btoks_select. eauto.
  - destruct IHl as (h & r' & E & H). rewrite btoks_setop, E. cbn [app]. eauto.
  - rewrite btoks_nested. eauto.
Qed.
Lemma btoks_bstart b X : bstart (btoks b ++ X) = true.
Proof. destruct (btoks_head b) as (h & r & E & [H|H]); rewrite E; subst h; reflexivity. Qed.

Definition headpow (post : list qtok) : N :=
  match set_op_of post with Some (o, _) => sp_pinned o | None => 0 end.

Lemma set_op_of_kw o r : set_op_of (setop_kw o :: r) = Some (o, r).
Proof. destruct o; reflexivity. Qed.

Lemma blspine_gtb_0 b : blspine_gtb 0 b = true.
Proof. induction b; cbn [blspine_gtb]; auto. rewrite IHb1. destruct o; reflexivity. Qed.
Lemma brspine_geb_0 b : brspine_geb 0 b = true.
Proof. induction b; cbn [brspine_geb]; auto. rewrite IHb2. destruct o; reflexivity. Qed.

(** [parse_query] did not find a query followed by a closing parenthesis *)
Definition notq {A} (x : res (A * list qtok)) : Prop :=
  match x with
  | Err => True
  | Ok (_, QE TRParen :: _) => False
  | Ok _ => True
  | _ => False
  end.

Definition bare_derived (t : tref) : bool :=
  match t with TDerived _ None => true | _ => false end.

(** what the tail of [parse_query] does not look at *)
Definition inert (post : list qtok) : bool :=
  match post with QK KAs :: _ => true | _ => jstart post end.

Lemma jstart_joins js post : js <> [] -> jstart (concat (map join_toks js) ++ post) = true.
Proof.
  destruct js as [|[o r] js']; [congruence|]. intros _. cbn [map concat join_toks]. rewrite <- !app_assoc.
  destruct o as [|k c]; [reflexivity|]. destruct c; destruct k; reflexivity.
Qed.

Lemma join_toks_length j : (1 <= length (join_toks j))%nat.
Proof. destruct j as [o r]. cbn [join_toks]. destruct o as [|k c]; [cbn; lia|]. destruct c; destruct k; cbn; lia. Qed.
Lemma joins_length js post : (length js <= length (concat (map join_toks js) ++ post))%nat.
Proof.
  induction js as [|j js IH]; [cbn; lia|]. cbn [map concat length]. rewrite <- app_assoc, app_length.
  pose proof (join_toks_length j). lia.
Qed.

Lemma comma_end_word res w r : is_word w = true -> comma_end res (w :: r) = mem w res.
Proof. destruct w as [[]| | |]; cbn [is_word]; intro H; try discriminate H; reflexivity. Qed.

(** * The round trip, one nesting level at a time *)
Section RoundTrip.
  Variable d : qdialect.
  Hypothesis Hd : dialect_ok d = true.
  Notation bd := (base d).

  (** after a list element: a comma, or the end of the clause *)
  Definition fol (n : nat) (post : list qtok) : Prop := is_comma post = true \/ (n <= hrank post)%nat.

  Lemma fol_comma n r : fol n (QE TComma :: r).
  Proof. left. reflexivity. Qed.

  Lemma fol_estop n post : (1 <= n)%nat -> fol n post -> estop post = true.
  Proof.
    intros Hn [H|H]; [|apply hrank_estop; lia].
    destruct post as [|[[]| | |] r]; try discriminate H; reflexivity.
  Qed.

  Lemma pex_rt e post :
    ewf bd e = true -> qfrag d (qe (yield e) ++ post) = true -> estop post = true ->
    pex d (qe (yield e) ++ post) = Ok (e, post).
  Proof.
    intros He Hf Hs. unfold pex.
    assert (Ht : trailing d && comma_rparen (qe (yield e) ++ post) = false).
    { destruct (trailing d) eqn:T; [|reflexivity]. cbn [andb]. eapply qfrag_trail; eauto. }
    rewrite Ht. apply pexpr_rt; auto using (d_U0 d Hd), (d_Hand d Hd).
    rewrite <- cut_yield. apply qfrag_frag; [exact Hf|apply exempt_yield; exact Hs].
  Qed.

  Lemma parse_item_expr_eq t r : starts t = true -> parse_item d (QE t :: r) = parse_item_expr d (QE t :: r).
  Proof.
    destruct t; cbn [starts]; intro H; try discriminate; try reflexivity.
    cbn [parse_item]. destruct (k =? K_Mul) eqn:E; [|reflexivity].
    apply N.eqb_eq in E. subst k. vm_compute in H. discriminate.
  Qed.

  Lemma parse_item_yield e post :
    parse_item d (qe (yield e) ++ post) = parse_item_expr d (qe (yield e) ++ post).
  Proof. destruct (yield_head e) as (t & tl & E & St). rewrite E. apply parse_item_expr_eq. exact St. Qed.

  Lemma item_rt i post :
    item_wf bd i = true -> qfrag d (item_toks i ++ post) = true -> fol 1 post ->
    parse_item d (item_toks i ++ post) = Ok (i, post).
  Proof.
    intros Hw Hf Hp. destruct i as [|e|e w]; cbn [item_toks item_wf] in *.
    - (* wildcard *)
      cbn [app parse_item]. rewrite N.eqb_refl.
      assert (Hs : star_ok d (QE (TOp K_Mul) :: post) = true).
      { unfold qfrag in Hf. apply andb_true_iff in Hf. tauto. }
      cbn [app star_ok] in Hs. apply andb_true_iff in Hs. destruct Hs as [Hs _].
      destruct Hp as [Hp|Hp]; head_cases post; cbn [is_comma hrank] in Hp; try discriminate Hp; try lia; try reflexivity.
      all: rewrite N.eqb_refl in Hs; cbn [andb] in Hs; apply negb_true_iff in Hs; rewrite Hs; reflexivity.
    - rewrite (ewf_ptoks _ _ Hw) in *. rewrite parse_item_yield. unfold parse_item_expr.
      rewrite pex_rt; auto; [|eapply fol_estop; eauto]. cbn [bind].
      rewrite parse_alias_none; [reflexivity|].
      destruct Hp as [Hp|Hp]; [apply noalias_comma; exact Hp|apply noalias_col; assumption].
    - apply andb_true_iff in Hw. destruct Hw as [He Hw].
      rewrite (ewf_ptoks _ _ He) in *. rewrite <- app_assoc in *. rewrite parse_item_yield. unfold parse_item_expr.
      rewrite pex_rt; auto. cbn [bind app]. rewrite parse_alias_some by exact Hw. reflexivity.
  Qed.

  Lemma order_elem_rt x post :
    ewf bd (fst x) = true -> qfrag d (order_elem_toks x ++ post) = true ->
    (is_comma post = true \/ (7 <= hrank post)%nat) ->
    parse_order_elem d (order_elem_toks x ++ post) = Ok (x, post).
  Proof.
    destruct x as [e ad]. cbn [fst]. intros He Hf Hp. unfold order_elem_toks in *. cbn [fst snd] in *.
    rewrite (ewf_ptoks _ _ He) in *. rewrite <- app_assoc in *. unfold parse_order_elem.
    rewrite pex_rt; auto.
    - cbn [bind]. destruct ad as [[|]|]; try reflexivity. cbn [app].
      destruct Hp as [Hp|Hp]; head_cases post; cbn [is_comma hrank] in Hp; try discriminate Hp; try lia; reflexivity.
    - destruct ad as [[|]|]; try reflexivity. cbn [app].
      destruct Hp as [Hp|Hp]; [eapply (fol_estop 1); [lia|left; exact Hp]|apply hrank_estop; lia].
  Qed.

  Lemma group_elem_rt e post :
    ewf bd e = true -> qfrag d (qe (ptoks e) ++ post) = true -> fol 4 post ->
    parse_group_elem d (qe (ptoks e) ++ post) = Ok (e, post).
  Proof.
    intros He Hf Hp. rewrite (ewf_ptoks _ _ He) in *.
    assert (Hx : parse_group_elem d (qe (yield e) ++ post) = pex d (qe (yield e) ++ post)).
    { destruct (ewf_parts _ _ He) as (Hsh & _).
      destruct (yield_no_unit _ _ Hsh) as (t & tl & E & St & Hu). rewrite E. cbn [qe map app].
      destruct t; try reflexivity. destruct (Hu eq_refl) as (t2 & tl2 & E2 & N2). subst tl. cbn [map app].
      destruct t2; try reflexivity. congruence. }
    rewrite Hx. apply pex_rt; auto. destruct Hp as [Hp|Hp]; [eapply (fol_estop 1); [lia|left; exact Hp]|apply hrank_estop; lia].
  Qed.

  (** ** lists *)
  Lemma hrank_not_comma n post : (1 <= n)%nat -> (n <= hrank post)%nat -> is_comma post = false.
  Proof. intros Hn H. head_cases post; cbn [hrank] in H; try lia; reflexivity. Qed.

  (** [F]: what may follow an element of the list (a comma always may) *)
  Lemma elems_ok_build {A} (elem : list qtok -> res (A * list qtok)) (trail : option (list qtok))
        (toks : A -> list qtok) (P : A -> bool) (F : list qtok -> Prop) :
    (forall r, F (QE TComma :: r)) ->
    (forall x post', P x = true -> qfrag d (toks x ++ post') = true -> F post' ->
                     elem (toks x ++ post') = Ok (x, post')) ->
    forall l post, forallb P l = true ->
      Forall (fun x => forall r, notrail trail (toks x ++ r)) (tl l) ->
      qfrag d (sepc (map toks l) ++ post) = true -> F post ->
      elems_ok elem trail toks l post.
  Proof.
    intros HFc Hel. induction l as [|x suf IH]; intros post HP Hnt Hf Hr; [exact I|].
    cbn [forallb] in HP. apply andb_true_iff in HP. destruct HP as [Hx HP]. cbn [tl] in Hnt.
    rewrite sepc_follow in Hf. cbn [elems_ok]. split; [|split].
    - apply Hel; auto. destruct suf; [exact Hr|apply HFc].
    - intro Hne. destruct suf as [|y suf']; [congruence|]. rewrite sepc_follow. inversion Hnt; subst. auto.
    - destruct suf as [|y suf']; [exact I|]. apply IH; auto.
      + inversion Hnt; subst. destruct suf'; [constructor|]. cbn [tl]. assumption.
      + cbn [follow] in Hf. apply qfrag_app in Hf. eapply qfrag_cons. exact Hf.
  Qed.

  Lemma comma_end_safe t r :
    starts t = true \/ t = TOp K_Mul -> comma_end (res_col d) (QE t :: r) = false.
  Proof.
    intro H. assert (Hk : kw_only (QE t) = false).
    { destruct H as [H|H]; [apply starts_facts in H; tauto|subst; reflexivity]. }
    assert (Hm : mem (QE t) (res_col d) = false).
    { destruct (mem (QE t) (res_col d)) eqn:M; [|reflexivity]. apply (d_kw d Hd) in M. congruence. }
    destruct H as [H|H].
    - destruct t; cbn [starts] in H; try discriminate H; exact Hm.
    - subst. exact Hm.
  Qed.

  Lemma notrail_yield trail e r :
    (forall res, trail = Some res -> res = res_col d) -> notrail trail (qe (yield e) ++ r).
  Proof.
    intro Ht. unfold notrail. destruct trail as [res|]; [|exact I]. rewrite (Ht res eq_refl).
    destruct (yield_head e) as (t & tl & E & St). rewrite E. apply comma_end_safe. auto.
  Qed.

  Lemma trail_proj_col res : trail_proj d = Some res -> res = res_col d.
  Proof. unfold trail_proj. destruct (trailing d || proj_trailing d); congruence. Qed.
  Lemma trail_all_col res : trail_all d = Some res -> res = res_col d.
  Proof. unfold trail_all. destruct (trailing d); congruence. Qed.

  (** an element that starts with a word which does not end a list *)
  Lemma notrail_word w r : is_word w = true -> later_ok d w = true -> notrail (trail_all d) (w :: r).
  Proof.
    intros Hw Hl. unfold notrail. destruct (trail_all d) as [res|] eqn:T; [|exact I].
    rewrite (trail_all_col _ T). unfold trail_all in T. destruct (trailing d) eqn:Tr; [|discriminate].
    rewrite comma_end_word by exact Hw. unfold later_ok in Hl. rewrite Tr in Hl. cbn [andb] in Hl.
    apply negb_true_iff in Hl. exact Hl.
  Qed.
  Lemma notrail_lparen r : notrail (trail_all d) (QE TLParen :: r).
  Proof.
    unfold notrail. destruct (trail_all d) as [res|] eqn:T; [|exact I]. rewrite (trail_all_col _ T).
    apply comma_end_safe. left. reflexivity.
  Qed.

  Lemma notrail_item i r : item_wf bd i = true -> notrail (trail_proj d) (item_toks i ++ r).
  Proof.
    intro Hw. destruct i as [|e|e w]; cbn [item_toks item_wf] in *.
    - unfold notrail. destruct (trail_proj d) as [res|] eqn:T; [|exact I]. rewrite (trail_proj_col _ T).
      apply comma_end_safe. auto.
    - rewrite (ewf_ptoks _ _ Hw). apply notrail_yield. apply trail_proj_col.
    - apply andb_true_iff in Hw. destruct Hw as [He _]. rewrite (ewf_ptoks _ _ He), <- app_assoc.
      apply notrail_yield. apply trail_proj_col.
  Qed.

  Lemma items_rt items post g :
    items <> [] -> forallb (item_wf bd) items = true ->
    qfrag d (sepc (map item_toks items) ++ post) = true -> (1 <= hrank post)%nat -> (length items <= g)%nat ->
    comma_list (parse_item d) (trail_proj d) g (sepc (map item_toks items) ++ post) = Ok (items, post).
  Proof.
    intros Hne Hw Hf Hr Hg. apply comma_list_rt; auto.
    - eapply (elems_ok_build _ _ _ (item_wf bd) (fol 1)); eauto using fol_comma.
      + intros; apply item_rt; auto.
      + rewrite forallb_forall in Hw. apply Forall_forall. intros x Hin r. apply notrail_item. apply Hw.
        destruct items; [contradiction|right; exact Hin].
      + right; exact Hr.
    - eapply hrank_not_comma; [|exact Hr]. lia.
  Qed.

  Lemma exprs_rt (l : list expr) post g :
    l <> [] -> forallb (ewf bd) l = true ->
    qfrag d (sepc (map (fun e => qe (ptoks e)) l) ++ post) = true -> (4 <= hrank post)%nat -> (length l <= g)%nat ->
    comma_list (parse_group_elem d) (trail_all d) g (sepc (map (fun e => qe (ptoks e)) l) ++ post) = Ok (l, post).
  Proof.
    intros Hne Hw Hf Hr Hg. apply comma_list_rt; auto.
    - eapply (elems_ok_build _ _ _ (ewf bd) (fol 4)); eauto using fol_comma.
      + intros; apply group_elem_rt; auto.
      + rewrite forallb_forall in Hw. apply Forall_forall. intros x Hin r. cbv beta.
        rewrite (ewf_ptoks bd x). { apply notrail_yield. apply trail_all_col. }
        apply Hw. destruct l; [contradiction|right; exact Hin].
      + right; exact Hr.
    - eapply hrank_not_comma; [|exact Hr]. lia.
  Qed.

  Lemma orders_rt (l : list (expr * option bool)) post g :
    l <> [] -> forallb (fun x => ewf bd (fst x)) l = true ->
    qfrag d (sepc (map order_elem_toks l) ++ post) = true -> (7 <= hrank post)%nat -> (length l <= g)%nat ->
    comma_list (parse_order_elem d) (trail_all d) g (sepc (map order_elem_toks l) ++ post) = Ok (l, post).
  Proof.
    intros Hne Hw Hf Hr Hg. apply comma_list_rt; auto.
    - eapply (elems_ok_build _ _ _ (fun x => ewf bd (fst x)) (fol 7)); eauto using fol_comma.
      + intros x post' Hx Hq [Hp|Hp]; apply order_elem_rt; auto.
      + rewrite forallb_forall in Hw. apply Forall_forall. intros x Hin r. unfold order_elem_toks.
        rewrite (ewf_ptoks bd (fst x)), <- app_assoc. { apply notrail_yield. apply trail_all_col. }
        apply Hw. destruct l; [contradiction|right; exact Hin].
      + right; exact Hr.
    - eapply hrank_not_comma; [|exact Hr]. lia.
  Qed.

  (** ** keyword look-ahead on followers *)
  Lemma opt_tok_hit k r : qtok_eqb k k = true -> opt_tok k (k :: r) = (true, r).
  Proof. intro H. cbn [opt_tok]. rewrite H. reflexivity. Qed.

  Lemma opt_from_miss ts : (2 <= hrank ts)%nat -> opt_tok (QE (TKw KFrom)) ts = (false, ts).
  Proof. intro H. head_cases ts; cbn [hrank] in H; try lia; reflexivity. Qed.
  Lemma opt_where_miss ts : (3 <= hrank ts)%nat -> opt_clause d (QK KWhere) ts = Ok (None, ts).
  Proof. intro H. head_cases ts; cbn [hrank] in H; try lia; reflexivity. Qed.
  Lemma opt_group_miss ts : (4 <= hrank ts)%nat -> opt_tok2 (QK KGroup) (QK KBy) ts = (false, ts).
  Proof. intro H. head_cases ts; cbn [hrank] in H; try lia; try reflexivity; destruct ts; reflexivity. Qed.
  Lemma opt_having_miss ts : (5 <= hrank ts)%nat -> opt_clause d (QK KHaving) ts = Ok (None, ts).
  Proof. intro H. head_cases ts; cbn [hrank] in H; try lia; reflexivity. Qed.
  Lemma opt_order_miss ts : (7 <= hrank ts)%nat -> opt_tok2 (QK KOrder) (QK KBy) ts = (false, ts).
  Proof. intro H. head_cases ts; cbn [hrank] in H; try lia; try reflexivity; destruct ts; reflexivity. Qed.
  Lemma opt_limit_miss ts : (8 <= hrank ts)%nat -> opt_tok (QK KLimit) ts = (false, ts).
  Proof. intro H. head_cases ts; cbn [hrank] in H; try lia; reflexivity. Qed.
  Lemma opt_offset_miss ts : (9 <= hrank ts)%nat -> opt_tok (QK KOffset) ts = (false, ts).
  Proof. intro H. head_cases ts; cbn [hrank] in H; try lia; reflexivity. Qed.
  Lemma opt_comma_miss ts : (1 <= hrank ts)%nat -> opt_tok (QE TComma) ts = (false, ts).
  Proof. intro H. head_cases ts; cbn [hrank] in H; try lia; reflexivity. Qed.
  Lemma opt_by_miss ts : (1 <= hrank ts)%nat -> opt_tok (QK KBy) ts = (false, ts).
  Proof. intro H. head_cases ts; cbn [hrank] in H; try lia; reflexivity. Qed.
  Lemma opt_with_miss ts : (1 <= hrank ts)%nat -> opt_tok (QK KWith) ts = (false, ts).
  Proof. intro H. head_cases ts; cbn [hrank] in H; try lia; reflexivity. Qed.
  Lemma set_op_miss ts : (6 <= hrank ts)%nat -> set_op_of ts = None.
  Proof. intro H. head_cases ts; cbn [hrank] in H; try lia; reflexivity. Qed.

  Lemma opt_start_miss k t r :
    k = QK KAs \/ k = QE (TKw KAll) \/ k = QE (TKw KDistinct) \/ k = QK KOn ->
    starts t = true \/ t = TOp K_Mul -> opt_tok k (QE t :: r) = (false, QE t :: r).
  Proof.
    intros Hk [H|H].
    - destruct t; cbn [starts] in H; try discriminate H; destruct Hk as [->|[->|[->| ->]]]; try reflexivity;
        destruct k0; try discriminate H; reflexivity.
    - subst t. destruct Hk as [->|[->|[->| ->]]]; reflexivity.
  Qed.

  Lemma items_head items rest :
    items <> [] -> forallb (item_wf bd) items = true ->
    exists t r, sepc (map item_toks items) ++ rest = QE t :: r /\ (starts t = true \/ t = TOp K_Mul).
  Proof.
    destruct items as [|i suf]; [congruence|]. intros _ Hw. cbn [forallb] in Hw. apply andb_true_iff in Hw.
    destruct Hw as [Hw _]. rewrite sepc_follow.
    destruct i as [|e|e w]; cbn [item_toks item_wf] in *.
    - eexists; eexists; split; [reflexivity|auto].
    - rewrite (ewf_ptoks _ _ Hw). destruct (yield_head e) as (t & tl & E & St). rewrite E. eexists; eexists; split; [reflexivity|auto].
    - apply andb_true_iff in Hw. destruct Hw as [He _]. rewrite (ewf_ptoks _ _ He).
      destruct (yield_head e) as (t & tl & E & St). rewrite E. eexists; eexists; split; [reflexivity|auto].
  Qed.

  Lemma exprs_head (l : list expr) rest :
    l <> [] -> forallb (ewf bd) l = true ->
    exists t r, sepc (map (fun e => qe (ptoks e)) l) ++ rest = QE t :: r /\ starts t = true.
  Proof.
    destruct l as [|e suf]; [congruence|]. intros _ Hw. cbn [forallb] in Hw. apply andb_true_iff in Hw.
    destruct Hw as [Hw _]. rewrite sepc_follow. rewrite (ewf_ptoks _ _ Hw).
    destruct (yield_head e) as (t & tl & E & St). rewrite E. eexists; eexists; split; [reflexivity|auto].
  Qed.

  (** ** followers of a table inside FROM: the end of the FROM element, or more of a join *)
  Definition tfol (post : list qtok) : Prop := fol 2 post \/ jhead post = true.
  (** ... of a join: the end of the FROM element, or the next join *)
  Definition jfol (post : list qtok) : Prop := fol 2 post \/ jstart post = true.

  Lemma jfol_tfol post : jfol post -> tfol post.
  Proof. intros [H|H]; [left; exact H|right; apply jstart_jhead; exact H]. Qed.
  Lemma jfol_estop post : jfol post -> estop post = true.
  Proof. intros [H|H]; [eapply (fol_estop 2); [lia|exact H]|apply jhead_estop, jstart_jhead; exact H]. Qed.
  Lemma joins_jfol js post : fol 2 post -> jfol (concat (map join_toks js) ++ post).
  Proof. intro H. destruct js as [|j js']; [left; exact H|right; apply jstart_joins; discriminate]. Qed.

  Lemma fol_noalias_tab post : tfol post -> noalias (res_tab d) post = true /\ not_lparen post = true.
  Proof.
    intros [[Hp|Hp]|Hp].
    - split; [apply noalias_comma|apply not_lparen_comma]; exact Hp.
    - split; [apply noalias_tab; auto|apply not_lparen_hrank; lia].
    - split; [apply noalias_jhead; auto|]. qhead post; cbn [jhead jstart] in Hp; try discriminate Hp; reflexivity.
  Qed.

  Lemma table_follow_ok a post : tfol post -> table_follow d (alias_toks a ++ post) = Ok tt.
  Proof.
    intro Hp. destruct a; [reflexivity|]. cbn [alias_toks app].
    destruct Hp as [[Hp|Hp]|Hp].
    - head_cases post; cbn [is_comma] in Hp; try discriminate Hp; reflexivity.
    - head_cases post; cbn [hrank] in Hp; try lia; reflexivity.
    - qhead post; cbn [jhead jstart] in Hp; try discriminate Hp; reflexivity.
  Qed.

  Lemma hint_miss {B} post (X Y : res B) :
    tfol post -> match post with QK KWith :: QE TLParen :: _ => X | _ => Y end = Y.
  Proof.
    intros [[Hp|Hp]|Hp].
    - head_cases post; cbn [is_comma] in Hp; try discriminate Hp; reflexivity.
    - head_cases post; cbn [hrank] in Hp; try lia; reflexivity.
    - qhead post; cbn [jhead jstart] in Hp; try discriminate Hp; reflexivity.
  Qed.

  Lemma parse_tref_word n r rq rt : is_word n = true ->
    parse_tref d rq rt (n :: r) =
    if unnest_table d && qtok_eqb n (QE (TKw KUnnest)) then OutOfFragment
    else bind (table_follow d r) (fun _ =>
           bind (parse_talias (res_tab d) r) (fun '(a, r1) =>
             match r1 with
             | QK KWith :: QE TLParen :: _ => OutOfFragment
             | _ => Ok (TTable n a, r1)
             end)).
  Proof.
    intro H. destruct n as [t|k| |]; try discriminate H; [destruct t; try discriminate H|].
    all: cbn [parse_tref]; rewrite ?H; try reflexivity.
  Qed.

  (** ** column lists *)
  Lemma cols_elems cols post :
    forallb is_word cols = true -> forallb (later_ok d) (tl cols) = true ->
    elems_ok (parse_ident) (trail_all d) (fun c => [c]) cols post.
  Proof.
    induction cols as [|c r IH]; [intros; exact I|]. cbn [forallb tl]. intros Hw Hl.
    apply andb_true_iff in Hw. destruct Hw as [Hc Hw]. cbn [elems_ok]. split; [|split].
    - cbn [app]. unfold parse_ident. rewrite Hc. reflexivity.
    - intro Hne. destruct r as [|c2 r']; [congruence|].
      rewrite sepc_follow. cbn [app]. cbn [forallb] in Hl, Hw.
      apply andb_true_iff in Hl. destruct Hl as [Hl _]. apply andb_true_iff in Hw. destruct Hw as [Hw _].
      apply notrail_word; assumption.
    - apply IH; [exact Hw|]. destruct r as [|c2 r']; [reflexivity|]. cbn [tl forallb] in *.
      apply andb_true_iff in Hl. tauto.
  Qed.

  Lemma cols_rt cols post :
    cols_wf d cols = true ->
    parse_cols d (sepc (map (fun c => [c]) cols) ++ QE TRParen :: post) = Ok (cols, post).
  Proof.
    intro Hw. unfold cols_wf in Hw. destruct cols as [|c0 r0]; [discriminate|].
    apply andb_true_iff in Hw. destruct Hw as [Hw Hl]. unfold parse_cols.
    rewrite comma_list_rt; [reflexivity|discriminate|apply cols_elems; assumption|reflexivity|].
    apply fuel_commas.
  Qed.

  (** ** one level: the recursive calls are correct one level down *)
  Variable f : nat.
  Variable recq : list qtok -> res (query * list qtok).
  Variable recb : N -> list qtok -> res (setexpr * list qtok).
  Variable rect : list qtok -> res (twj * list qtok).
  Hypothesis Hq : forall q post,
    qwf d q = true -> (qlevel q <= f)%nat -> ender post = true -> qfrag d (qtoks q ++ post) = true ->
    recq (qtoks q ++ post) = Ok (q, post).
  Hypothesis Hb : forall b p post,
    bwf d b = true -> (blevel b <= f)%nat -> blspine_gtb p b = true -> headpow post <= p ->
    brspine_geb (headpow post) b = true -> (5 <= hrank post)%nat -> qfrag d (btoks b ++ post) = true ->
    recb p (btoks b ++ post) = Ok (b, post).
  Hypothesis Ht : forall t post,
    twj_wf d t = true -> (S (twjlevel t) <= f)%nat -> qfrag d (twj_toks t ++ post) = true -> fol 2 post ->
    rect (twj_toks t ++ post) = Ok (t, post).
  Hypothesis Hn : forall r post,
    tref_wf d r = true -> first_ok r = true -> (S (tlevel r) <= f)%nat ->
    (bare_derived r = true -> jstart post = true) -> qfrag d (tref_toks r ++ post) = true ->
    notq (recq (tref_toks r ++ post)).

  Lemma parse_derived_err r : notq (recq r) -> parse_derived d recq r = Err.
  Proof.
    unfold parse_derived. destruct (recq r) as [[q0 [|[[]| | |] r0]]| | |]; cbn [notq]; intro H; try reflexivity; contradiction.
  Qed.

  Lemma tref_rt t post :
    tref_wf d t = true -> (tlevel t <= f)%nat -> qfrag d (tref_toks t ++ post) = true -> tfol post ->
    parse_tref d recq rect (tref_toks t ++ post) = Ok (t, post).
  Proof.
    intros Hw Hl Hf Hp. destruct (fol_noalias_tab _ Hp) as [Hna Hnl].
    destruct t as [n a|q a|x a]; cbn [tref_wf tref_toks tlevel] in *.
    - apply andb_true_iff in Hw. destruct Hw as [Hn' Ha]. unfold name_ok in Hn'.
      apply andb_true_iff in Hn'. destruct Hn' as [Hn' Hu]. apply negb_true_iff in Hu.
      cbn [app]. rewrite parse_tref_word by exact Hn'. rewrite Hu.
      rewrite table_follow_ok by exact Hp. cbn [bind].
      rewrite parse_talias_rt by assumption. cbn [bind]. apply hint_miss. exact Hp.
    - apply andb_true_iff in Hw. destruct Hw as [Hqw Ha].
      cbn [app parse_tref]. rewrite <- app_assoc. cbn [app]. unfold parse_derived.
      rewrite Hq; auto.
      + rewrite parse_talias_rt by assumption. reflexivity.
      + cbn [app] in Hf. apply qfrag_cons in Hf. rewrite <- app_assoc in Hf. exact Hf.
    - apply andb_true_iff in Hw. destruct Hw as [Hw Ha]. apply andb_true_iff in Hw. destruct Hw as [Hxw Hno].
      unfold nested_ok in Hno. apply andb_true_iff in Hno. destruct Hno as [Hsh Hfi].
      cbn [app parse_tref]. rewrite <- app_assoc. cbn [app].
      cbn [app] in Hf. apply qfrag_cons in Hf. rewrite <- app_assoc in Hf. cbn [app] in Hf.
      rewrite parse_derived_err.
      + rewrite Ht; [|exact Hxw|exact Hl|exact Hf|right; cbn [hrank]; lia]. cbn [bind]. rewrite Hsh.
        rewrite Hfi. cbn [negb]. rewrite parse_talias_rt by assumption. reflexivity.
      + destruct x as [r js]. cbn [twj_toks twj_wf twjlevel first_of] in *. rewrite <- app_assoc in *.
        apply andb_true_iff in Hxw. destruct Hxw as [Hrw _].
        apply Hn; [exact Hrw|exact Hfi|lia| |exact Hf].
        intro Hbd. apply jstart_joins. destruct r as [| q0 [a0|]|]; try discriminate Hbd.
        destruct js; [discriminate Hsh|discriminate].
  Qed.

  (** ** joins *)
  Lemma jkind_rt k X : parse_jkind (jkind_toks k ++ X) = Ok (Some (k, X)).
  Proof. destruct k; reflexivity. Qed.

  Lemma jcons_none rest : jfol rest -> parse_jcons d false rest = Ok (JNone, rest).
  Proof.
    intros [[Hp|Hp]|Hp].
    - head_cases rest; cbn [is_comma] in Hp; try discriminate Hp; reflexivity.
    - head_cases rest; cbn [hrank] in Hp; try lia; reflexivity.
    - qhead rest; cbn [jstart] in Hp; try discriminate Hp; reflexivity.
  Qed.

  Lemma jcons_rt k c rest :
    jop_wf d (JOp k c) = true -> jfol rest -> qfrag d (jop_suf (JOp k c) ++ rest) = true ->
    parse_jcons d (match c with JNatural => true | _ => false end) (jop_suf (JOp k c) ++ rest) = Ok (c, rest).
  Proof.
    intros Hw Hp Hf. destruct c as [e|cols| |]; cbn [jop_suf jop_wf app] in *.
    - rewrite (ewf_ptoks _ _ Hw) in *. cbn [parse_jcons].
      rewrite pex_rt; [reflexivity|exact Hw|eapply qfrag_cons; exact Hf|apply jfol_estop; exact Hp].
    - cbn [parse_jcons]. unfold cols_toks. cbn [app]. rewrite <- app_assoc. cbn [app].
      rewrite cols_rt by exact Hw. reflexivity.
    - reflexivity.
    - apply jcons_none. exact Hp.
  Qed.

  Lemma join_loop_end g post : (0 < g)%nat -> fol 2 post -> join_loop d recq rect g post = Ok ([], post).
  Proof.
    intros Hg Hp. destruct g as [|g]; [lia|]. cbn [join_loop].
    destruct Hp as [Hp|Hp]; head_cases post; cbn [is_comma hrank] in Hp; try discriminate Hp; try lia; reflexivity.
  Qed.

  Lemma join_rt o r rest g :
    jop_wf d o = true -> tref_wf d r = true -> (tlevel r <= f)%nat -> jfol rest ->
    qfrag d (join_toks (Join o r) ++ rest) = true ->
    join_loop d recq rect (S g) (join_toks (Join o r) ++ rest) =
    bind (join_loop d recq rect g rest) (fun '(js, r4) => Ok (Join o r :: js, r4)).
  Proof.
    intros Hw Hrw Hl Hp Hf. cbn [join_toks] in *. rewrite <- !app_assoc in *.
    destruct o as [|k c].
    - cbn [jop_pre jop_suf app] in *. cbn [join_loop].
      rewrite tref_rt; [reflexivity|exact Hrw|exact Hl| |apply jfol_tfol; exact Hp].
      do 2 apply qfrag_cons in Hf. exact Hf.
    - assert (Hpre : jop_pre (JOp k c) = (match c with JNatural => [QK KNatural] | _ => [] end) ++ jkind_toks k)
        by (destruct c; reflexivity).
      rewrite Hpre in *. rewrite <- !app_assoc in *.
      assert (Htf : tfol (jop_suf (JOp k c) ++ rest)).
      { destruct c; cbn [jop_suf app]; try (apply jfol_tfol; exact Hp); right; reflexivity. }
      assert (Hf2 : qfrag d (tref_toks r ++ jop_suf (JOp k c) ++ rest) = true).
      { apply qfrag_app in Hf. apply qfrag_app in Hf. exact Hf. }
      assert (Hf3 : qfrag d (jop_suf (JOp k c) ++ rest) = true) by (apply qfrag_app in Hf2; exact Hf2).
      pose proof (jcons_rt k c rest Hw Hp Hf3) as Hc.
      destruct c as [e|cols| |]; destruct k;
        cbn [app jkind_toks join_loop opt_tok qtok_eqb qkw_beq parse_jkind expect_join bind];
        (rewrite tref_rt by assumption); cbn [bind]; rewrite Hc; reflexivity.
  Qed.

  Lemma joins_rt js : forall post g,
    forallb (join_wf d) js = true -> Forall (fun j => (jlevel j <= f)%nat) js ->
    qfrag d (concat (map join_toks js) ++ post) = true -> fol 2 post -> (length js < g)%nat ->
    join_loop d recq rect g (concat (map join_toks js) ++ post) = Ok (js, post).
  Proof.
    induction js as [|[o r] js IH]; intros post g Hw Hl Hf Hp Hg.
    - apply join_loop_end; [lia|exact Hp].
    - destruct g as [|g]; [lia|]. cbn [map concat] in *. rewrite <- app_assoc in *.
      cbn [forallb join_wf] in Hw. apply andb_true_iff in Hw. destruct Hw as [Hw Hws].
      apply andb_true_iff in Hw. destruct Hw as [How Hrw]. inversion Hl as [|? ? Hl1 Hl2]; subst. cbn [jlevel] in Hl1.
      rewrite join_rt; [|exact How|exact Hrw|exact Hl1|apply joins_jfol; exact Hp|exact Hf].
      rewrite IH; [reflexivity|exact Hws|exact Hl2|eapply qfrag_app; exact Hf|exact Hp|cbn [length] in Hg; lia].
  Qed.

  Lemma twj_rt t post :
    twj_wf d t = true -> (twjlevel t <= f)%nat -> qfrag d (twj_toks t ++ post) = true -> fol 2 post ->
    twj_step d recq rect (twj_toks t ++ post) = Ok (t, post).
  Proof.
    destruct t as [r js]. cbn [twj_wf twjlevel twj_toks]. intros Hw Hl Hf Hp.
    apply andb_true_iff in Hw. destruct Hw as [Hrw Hjw]. rewrite <- app_assoc in *. unfold twj_step.
    rewrite tref_rt; [|exact Hrw|lia|exact Hf|apply jfol_tfol, joins_jfol; exact Hp]. cbn [bind].
    rewrite joins_rt; [reflexivity|exact Hjw| |eapply qfrag_app; exact Hf|exact Hp|].
    - apply maxl_map_le. lia.
    - pose proof (joins_length js post). lia.
  Qed.

  Lemma notrail_twj t r :
    twj_wf d t = true -> twj_head_ok d t = true -> notrail (trail_all d) (twj_toks t ++ r).
  Proof.
    destruct t as [[n a|q a|x a] js]; cbn [twj_wf tref_wf twj_head_ok twj_toks tref_toks]; intros Hw Hl;
      rewrite <- ?app_assoc; cbn [app].
    - apply notrail_word; [|exact Hl]. apply andb_true_iff in Hw. destruct Hw as [Hw _].
      apply andb_true_iff in Hw. destruct Hw as [Hw _]. unfold name_ok in Hw. apply andb_true_iff in Hw. tauto.
    - apply notrail_lparen.
    - apply notrail_lparen.
  Qed.

  Lemma twjs_rt from post g :
    from <> [] -> forallb (twj_wf d) from = true -> later_names_ok d from = true ->
    Forall (fun t => (twjlevel t <= f)%nat) from ->
    qfrag d (sepc (map twj_toks from) ++ post) = true -> (2 <= hrank post)%nat -> (length from <= g)%nat ->
    comma_list (twj_step d recq rect) (trail_all d) g (sepc (map twj_toks from) ++ post) = Ok (from, post).
  Proof.
    intros Hne Hw Hln Hlv Hf Hr Hg. apply comma_list_rt; auto.
    - eapply (elems_ok_build _ _ _ (fun t => twj_wf d t && Nat.leb (twjlevel t) f) (fol 2)); eauto using fol_comma.
      + intros x post' Hx Hqf Hp. apply andb_true_iff in Hx. destruct Hx as [Hx1 Hx2]. apply PeanoNat.Nat.leb_le in Hx2.
        apply twj_rt; auto.
      + rewrite forallb_forall in *. intros x Hin. rewrite (Hw x Hin). rewrite Forall_forall in Hlv.
        apply PeanoNat.Nat.leb_le. auto.
      + destruct from as [|t0 r0]; [constructor|]. cbn [tl later_names_ok] in *.
        apply Forall_forall. intros x Hin r. rewrite forallb_forall in Hw, Hln.
        apply notrail_twj; [apply Hw; right; exact Hin|apply Hln; exact Hin].
      + right; exact Hr.
    - eapply hrank_not_comma; [|exact Hr]. lia.
  Qed.

  (** ** clauses *)
  Lemma clause_rt k n x post :
    hrank [k] = n -> (1 <= n)%nat -> (k = QK KWhere \/ k = QK KHaving) ->
    optb (ewf bd) x = true -> qfrag d (clause_toks k x ++ post) = true -> (S n <= hrank post)%nat ->
    opt_clause d k (clause_toks k x ++ post) = Ok (x, post).
  Proof.
    intros Hk Hn' Hkk Hw Hf Hr. destruct x as [e|]; cbn [clause_toks optb app] in *.
    - rewrite (ewf_ptoks _ _ Hw) in *. cbn [opt_clause].
      assert (Hkk' : qtok_eqb k k = true) by (destruct Hkk; subst; reflexivity). rewrite Hkk'.
      rewrite pex_rt; [reflexivity|assumption|eapply qfrag_cons; eauto|apply hrank_estop; lia].
    - destruct Hkk; subst k; cbn [hrank] in Hk; subst n; [apply opt_where_miss|apply opt_having_miss]; lia.
  Qed.

  Lemma from_rt from post :
    forallb (twj_wf d) from = true -> later_names_ok d from = true ->
    Forall (fun t => (twjlevel t <= f)%nat) from ->
    qfrag d (from_toks (map twj_toks from) ++ post) = true -> (2 <= hrank post)%nat ->
    parse_from d recq rect (from_toks (map twj_toks from) ++ post) = Ok (from, post).
  Proof.
    intros Hw Hl Hlv Hf Hr. unfold parse_from. destruct from as [|t0 r0].
    - cbn [map from_toks app]. rewrite opt_from_miss by assumption. reflexivity.
    - change (from_toks (map twj_toks (t0 :: r0)) ++ post)
        with (QE (TKw KFrom) :: sepc (map twj_toks (t0 :: r0)) ++ post) in *.
      rewrite opt_tok_hit by reflexivity.
      apply twjs_rt; [discriminate|exact Hw|exact Hl|exact Hlv|eapply qfrag_cons; eauto|exact Hr|apply fuel_commas].
  Qed.

  Lemma group_rt gb post :
    forallb (ewf bd) gb = true -> qfrag d (group_toks gb ++ post) = true -> (4 <= hrank post)%nat ->
    parse_group_by d (group_toks gb ++ post) = Ok (gb, post).
  Proof.
    intros Hw Hf Hr. unfold parse_group_by. destruct gb as [|e0 r0].
    - cbn [group_toks app]. rewrite opt_group_miss by assumption. reflexivity.
    - change (group_toks (e0 :: r0) ++ post)
        with (QK KGroup :: QK KBy :: sepc (map (fun e => qe (ptoks e)) (e0 :: r0)) ++ post) in *.
      change (opt_tok2 (QK KGroup) (QK KBy) (QK KGroup :: QK KBy :: sepc (map (fun e => qe (ptoks e)) (e0 :: r0)) ++ post))
        with (true, sepc (map (fun e => qe (ptoks e)) (e0 :: r0)) ++ post).
      destruct (exprs_head (e0 :: r0) post ltac:(discriminate) Hw) as (t & r & E & St).
      rewrite E at 1. rewrite opt_start_miss by auto. cbn [fst].
      rewrite exprs_rt; [|discriminate|exact Hw|do 2 (eapply qfrag_cons in Hf); exact Hf|exact Hr|apply fuel_commas].
      cbn [bind]. rewrite opt_with_miss by lia. cbn [fst]. rewrite andb_false_r. reflexivity.
  Qed.

  Lemma order_rt ob post :
    forallb (fun x => ewf bd (fst x)) ob = true -> qfrag d (order_toks ob ++ post) = true -> (7 <= hrank post)%nat ->
    parse_order_by d (order_toks ob ++ post) = Ok (ob, post).
  Proof.
    intros Hw Hf Hr. unfold parse_order_by. destruct ob as [|e0 r0].
    - cbn [order_toks app]. rewrite opt_order_miss by assumption. reflexivity.
    - change (order_toks (e0 :: r0) ++ post)
        with (QK KOrder :: QK KBy :: sepc (map order_elem_toks (e0 :: r0)) ++ post) in *.
      change (opt_tok2 (QK KOrder) (QK KBy) (QK KOrder :: QK KBy :: sepc (map order_elem_toks (e0 :: r0)) ++ post))
        with (true, sepc (map order_elem_toks (e0 :: r0)) ++ post).
      apply orders_rt; [discriminate|exact Hw|do 2 (eapply qfrag_cons in Hf); exact Hf|exact Hr|apply fuel_commas].
  Qed.

  (** ** SELECT *)
  Lemma select_prefix dist ts2 :
    (exists t r, ts2 = QE t :: r /\ (starts t = true \/ t = TOp K_Mul)) ->
    fst (opt_tok (QK KAs) (dist_toks dist ++ ts2)) = false /\
    opt_tok (QE (TKw KAll)) (dist_toks dist ++ ts2) = (false, dist_toks dist ++ ts2) /\
    opt_tok (QE (TKw KDistinct)) (dist_toks dist ++ ts2) = (dist, ts2) /\
    fst (opt_tok (QK KOn) ts2) = false.
  Proof.
    intros (t & r & E & St). subst ts2. rewrite (opt_start_miss (QK KOn)) by auto.
    destruct dist; cbn [dist_toks app].
    - repeat split; reflexivity.
    - rewrite !opt_start_miss by auto. repeat split; reflexivity.
  Qed.

  Lemma hrank_clause k x post n :
    (n <= hrank [k])%nat -> (n <= hrank post)%nat -> (n <= hrank (clause_toks k x ++ post))%nat.
  Proof. destruct x; cbn [clause_toks app]; auto. Qed.

  Lemma select_ranks (from : list twj) wh gb hv post :
    (5 <= hrank post)%nat ->
    (4 <= hrank (clause_toks (QK KHaving) hv ++ post))%nat /\
    (3 <= hrank (group_toks gb ++ clause_toks (QK KHaving) hv ++ post))%nat /\
    (2 <= hrank (clause_toks (QK KWhere) wh ++ group_toks gb ++ clause_toks (QK KHaving) hv ++ post))%nat /\
    (1 <= hrank (from_toks (map twj_toks from) ++ clause_toks (QK KWhere) wh ++ group_toks gb ++
                 clause_toks (QK KHaving) hv ++ post))%nat.
  Proof.
    intro Hr.
    assert (R6 : (4 <= hrank (clause_toks (QK KHaving) hv ++ post))%nat) by (apply hrank_clause; cbn [hrank]; lia).
    assert (R5 : (3 <= hrank (group_toks gb ++ clause_toks (QK KHaving) hv ++ post))%nat)
      by (destruct gb; cbn [group_toks app hrank]; lia).
    assert (R4 : (2 <= hrank (clause_toks (QK KWhere) wh ++ group_toks gb ++ clause_toks (QK KHaving) hv ++ post))%nat)
      by (apply hrank_clause; cbn [hrank]; lia).
    repeat split; auto. destruct from; cbn [map from_toks app hrank]; lia.
  Qed.

  Lemma tail_ranks ob lim off post :
    hrank post = 9%nat ->
    (8 <= hrank (clause_toks (QK KOffset) off ++ post))%nat /\
    (7 <= hrank (clause_toks (QK KLimit) lim ++ clause_toks (QK KOffset) off ++ post))%nat /\
    (6 <= hrank (order_toks ob ++ clause_toks (QK KLimit) lim ++ clause_toks (QK KOffset) off ++ post))%nat.
  Proof.
    intro Hr.
    assert (R3 : (8 <= hrank (clause_toks (QK KOffset) off ++ post))%nat) by (apply hrank_clause; cbn [hrank]; lia).
    assert (R2 : (7 <= hrank (clause_toks (QK KLimit) lim ++ clause_toks (QK KOffset) off ++ post))%nat)
      by (apply hrank_clause; cbn [hrank]; lia).
    repeat split; auto. destruct ob; cbn [order_toks app hrank]; lia.
  Qed.

  Lemma select_rt dist items from wh gb hv post :
    bwf d (BSelect dist items from wh gb hv) = true ->
    (blevel (BSelect dist items from wh gb hv) <= S f)%nat ->
    (5 <= hrank post)%nat -> qfrag d (btoks (BSelect dist items from wh gb hv) ++ post) = true ->
    parse_operand d recq rect (btoks (BSelect dist items from wh gb hv) ++ post) = Ok (BSelect dist items from wh gb hv, post).
  Proof.
    intros Hw Hl Hr Hf. rewrite bwf_select in Hw. rewrite blevel_select in Hl. rewrite btoks_select in *.
    repeat (apply andb_true_iff in Hw; destruct Hw as [Hw ?]).
    assert (Hlv : Forall (fun t => (twjlevel t <= f)%nat) from) by (apply maxl_map_le; lia).
    cbn [app parse_operand]. cbn [app] in Hf. apply qfrag_cons in Hf.
    repeat rewrite <- app_assoc in *.
    set (T6 := clause_toks (QK KHaving) hv ++ post) in *.
    set (T5 := group_toks gb ++ T6) in *.
    set (T4 := clause_toks (QK KWhere) wh ++ T5) in *.
    set (T3 := from_toks (map twj_toks from) ++ T4) in *.
    set (ts2 := sepc (map item_toks items) ++ T3) in *.
    destruct (select_ranks from wh gb hv post Hr) as (R6 & R5 & R4 & R3).
    change (4 <= hrank T6)%nat in R6. change (3 <= hrank T5)%nat in R5. change (2 <= hrank T4)%nat in R4. change (1 <= hrank T3)%nat in R3.
    assert (Hne : items <> []) by (destruct items; [discriminate|discriminate]).
    assert (F2 : qfrag d ts2 = true) by (eapply qfrag_app; exact Hf).
    assert (F3 : qfrag d T3 = true) by (eapply qfrag_app; exact F2).
    assert (F4 : qfrag d T4 = true) by (eapply qfrag_app; exact F3).
    assert (F5 : qfrag d T5 = true) by (eapply qfrag_app; exact F4).
    assert (F6 : qfrag d T6 = true) by (eapply qfrag_app; exact F5).
    destruct (select_prefix dist ts2 (items_head items T3 Hne ltac:(assumption))) as (P1 & P2 & P3 & P4).
    unfold parse_select. rewrite P1, P2, P3, P4. cbn [andb]. rewrite andb_false_r.
    assert (Hpt : proj_trailing d && comma_rparen ts2 = false).
    { destruct (proj_trailing d) eqn:T; [|reflexivity]. cbn [andb]. eapply qfrag_trail; eauto. }
    rewrite Hpt.
    unfold ts2 at 2. rewrite items_rt; [|exact Hne|assumption|exact F2|exact R3|apply fuel_commas]. cbn [bind].
    unfold T3. rewrite from_rt; [|assumption|assumption|exact Hlv|exact F3|exact R4]. cbn [bind].
    assert (Hwh : optb (ewf bd) wh = true) by assumption.
    assert (Hhv : optb (ewf bd) hv = true) by assumption.
    unfold T4. rewrite (clause_rt (QK KWhere) 2 wh T5 eq_refl (le_S _ _ (le_n 1)) (or_introl eq_refl) Hwh F4 R5). cbn [bind].
    unfold T5. rewrite group_rt; [|assumption|exact F5|exact R6]. cbn [bind].
    unfold T6. rewrite (clause_rt (QK KHaving) 4 hv post eq_refl (le_S _ _ (le_S _ _ (le_S _ _ (le_n 1)))) (or_intror eq_refl) Hhv F6 Hr). reflexivity.
  Qed.

  Lemma nested_rt q post :
    qwf d q = true -> (qlevel q <= f)%nat -> qfrag d (btoks (BNested q) ++ post) = true ->
    parse_operand d recq rect (btoks (BNested q) ++ post) = Ok (BNested q, post).
  Proof.
    intros Hw Hl Hf. rewrite btoks_nested in *. cbn [app parse_operand] in *. rewrite <- app_assoc in *. cbn [app] in *.
    rewrite Hq; auto. eapply qfrag_cons; eauto.
  Qed.

  (** ** the set-operation loop *)
  Lemma bloop_stop g p e post :
    (0 < g)%nat -> headpow post <= p -> bloop recb g p e post = Ok (e, post).
  Proof.
    intros Hg Hp. destruct g as [|g]; [lia|]. cbn [bloop]. unfold headpow in Hp.
    destruct (set_op_of post) as [[o ts1]|]; [|reflexivity].
    destruct (N.leb_spec (sp_pinned o) p); [reflexivity|lia].
  Qed.

  Lemma parse_quant_rt q b post : parse_quant (quant_toks q ++ btoks b ++ post) = (q, btoks b ++ post).
  Proof.
    destruct q; cbn [quant_toks app parse_quant]; try reflexivity.
    destruct (btoks_head b) as (h & r & E & [H|H]); rewrite E; subst h; reflexivity.
  Qed.

  Lemma headpow_kw o r : headpow (setop_kw o :: r) = sp_pinned o.
  Proof. unfold headpow. rewrite set_op_of_kw. reflexivity. Qed.

  Lemma body_as_loop b : forall p post,
    bwf d b = true -> (blevel b <= S f)%nat -> blspine_gtb p b = true ->
    brspine_geb (headpow post) b = true -> (5 <= hrank post)%nat -> qfrag d (btoks b ++ post) = true ->
    exists g, (length post < g)%nat /\
      body_step d recq recb rect p (btoks b ++ post) = bloop recb g p b post.
  Proof.
    induction b as [dist items from wh gb hv|o q l IHl r IHr|q]; intros p post Hw Hl Hls Hrs Hr Hf.
    - exists (S (length post)). split; [lia|]. unfold body_step. rewrite select_rt; auto.
    - cbn [bwf] in Hw. repeat (apply andb_true_iff in Hw; destruct Hw as [Hw ?]).
      cbn [blevel] in Hl.
      assert (Hll : (blevel l <= S f)%nat) by (clear - Hl; lia).
      assert (Hlr : (blevel r <= f)%nat) by (clear - Hl; lia).
      cbn [blspine_gtb] in Hls. apply andb_true_iff in Hls. destruct Hls as [Hpo Hls].
      apply N.ltb_lt in Hpo. cbn [brspine_geb] in Hrs. apply andb_true_iff in Hrs. destruct Hrs as [Hho Hrs].
      apply N.leb_le in Hho. rewrite btoks_setop in *. rewrite <- app_assoc in *. cbn [app] in *. rewrite <- app_assoc in *.
      assert (Hk5 : (5 <= hrank (setop_kw o :: quant_toks q ++ btoks r ++ post))%nat)
        by (destruct o; cbn [setop_kw hrank]; repeat constructor).
      destruct (IHl p (setop_kw o :: quant_toks q ++ btoks r ++ post)) as (g & Hg & E);
        [assumption|exact Hll|exact Hls|rewrite headpow_kw; assumption|exact Hk5|exact Hf|].
      destruct g as [|g]; [clear - Hg; lia|]. exists g. split.
      { cbn [length] in Hg. rewrite !app_length in Hg. clear - Hg. lia. }
      rewrite E. cbn [bloop]. rewrite set_op_of_kw.
      destruct (N.leb_spec (sp_pinned o) p) as [Hc|Hc]; [clear - Hc Hpo; lia|]. rewrite parse_quant_rt.
      rewrite Hb; [reflexivity|assumption|exact Hlr|assumption|exact Hho|exact Hrs|exact Hr|].
      apply qfrag_app in Hf. apply qfrag_cons in Hf. apply qfrag_app in Hf. exact Hf.
    - rewrite bwf_nested in Hw. rewrite blevel_nested in Hl.
      exists (S (length post)). split; [lia|]. unfold body_step. rewrite nested_rt; auto. lia.
  Qed.

  Lemma body_rt b p post :
    bwf d b = true -> (blevel b <= S f)%nat -> blspine_gtb p b = true -> headpow post <= p ->
    brspine_geb (headpow post) b = true -> (5 <= hrank post)%nat -> qfrag d (btoks b ++ post) = true ->
    body_step d recq recb rect p (btoks b ++ post) = Ok (b, post).
  Proof.
    intros Hw Hl Hls Hp Hrs Hr Hf.
    destruct (body_as_loop b p post Hw Hl Hls Hrs Hr Hf) as (g & Hg & E). rewrite E.
    apply bloop_stop; [lia|exact Hp].
  Qed.

  (** ** LIMIT / OFFSET *)
  Lemma opt_all_yield e r : opt_tok (QE (TKw KAll)) (qe (yield e) ++ r) = (false, qe (yield e) ++ r).
  Proof. destruct (yield_head e) as (t & tl & E & St). rewrite E. apply opt_start_miss; auto. Qed.

  Lemma limit_iter_first lim off post :
    optb (ewf bd) lim = true -> optb (ewf bd) off = true -> ender post = true ->
    qfrag d (clause_toks (QK KLimit) lim ++ clause_toks (QK KOffset) off ++ post) = true ->
    limit_iter d (None, None) (clause_toks (QK KLimit) lim ++ clause_toks (QK KOffset) off ++ post) = Ok ((lim, off), post).
  Proof.
    intros Hl Ho He Hf. pose proof (ender_hrank _ He) as Hr.
    assert (R3 : (8 <= hrank (clause_toks (QK KOffset) off ++ post))%nat) by (apply hrank_clause; cbn [hrank]; lia).
    assert (F3 : qfrag d (clause_toks (QK KOffset) off ++ post) = true) by (eapply qfrag_app; exact Hf).
    unfold limit_iter. destruct lim as [e|]; cbn [clause_toks optb app] in *.
    - rewrite (ewf_ptoks _ _ Hl) in *. rewrite opt_tok_hit by reflexivity. rewrite opt_all_yield.
      rewrite pex_rt; [|assumption|eapply qfrag_cons; eauto|apply hrank_estop; lia]. cbn [bind].
      destruct off as [e2|]; cbn [clause_toks optb app] in *.
      + rewrite (ewf_ptoks _ _ Ho) in *. rewrite opt_tok_hit by reflexivity.
        rewrite pex_rt; [|assumption|eapply qfrag_cons; eauto|apply hrank_estop; lia]. reflexivity.
      + rewrite opt_offset_miss by lia. cbn [bind]. rewrite opt_comma_miss by lia. rewrite andb_false_r. reflexivity.
    - rewrite opt_limit_miss by lia. cbn [bind].
      destruct off as [e2|]; cbn [clause_toks optb app] in *.
      + rewrite (ewf_ptoks _ _ Ho) in *. rewrite opt_tok_hit by reflexivity.
        rewrite pex_rt; [|assumption|eapply qfrag_cons; eauto|apply hrank_estop; lia]. reflexivity.
      + rewrite opt_offset_miss by lia. reflexivity.
  Qed.

  Lemma limit_iter_again lim off post :
    ender post = true -> limit_iter d (lim, off) post = Ok ((lim, off), post).
  Proof.
    intro He. pose proof (ender_hrank _ He) as Hr. unfold limit_iter.
    destruct lim as [l|]; [|rewrite opt_limit_miss by lia]; cbn [bind];
      (destruct off as [o|]; [|rewrite opt_offset_miss by lia]); cbn [bind]; try reflexivity.
    rewrite opt_comma_miss by lia. rewrite andb_false_r. reflexivity.
  Qed.

  (** ** WITH *)
  (** what follows a CTE: a comma or the query body *)
  Definition cfol (post : list qtok) : Prop := is_comma post = true \/ bstart post = true.

  Lemma cfol_from {B} post (X Y : res B) :
    cfol post -> match post with QE (TKw KFrom) :: _ => X | _ => Y end = Y.
  Proof.
    intros [Hp|Hp]; destruct post as [|[[]| | |] ?]; cbn [is_comma bstart] in Hp; try discriminate Hp; reflexivity.
  Qed.

  Lemma cte_body_rt n cs q post :
    qwf d q = true -> (qlevel q <= f)%nat -> cfol post ->
    qfrag d (QE TLParen :: qtoks q ++ QE TRParen :: post) = true ->
    parse_cte_body recq n cs (QE TLParen :: qtoks q ++ QE TRParen :: post) = Ok (Cte n cs q, post).
  Proof.
    intros Hqw Hl Hp Hf. unfold parse_cte_body. rewrite Hq; [|exact Hqw|exact Hl|reflexivity|eapply qfrag_cons; exact Hf].
    cbn [bind]. apply cfol_from. exact Hp.
  Qed.

  Lemma cte_rt c post :
    cte_wf d c = true -> (clevel c <= f)%nat -> qfrag d (cte_toks c ++ post) = true -> cfol post ->
    parse_cte d recq (cte_toks c ++ post) = Ok (c, post).
  Proof.
    destruct c as [n cols q]. cbn [cte_wf clevel cte_toks]. intros Hw Hl Hf Hp.
    apply andb_true_iff in Hw. destruct Hw as [Hw Hqw]. apply andb_true_iff in Hw. destruct Hw as [Hn' Hc].
    unfold parse_cte. cbn [app]. unfold parse_ident at 1. rewrite Hn'. cbn [bind].
    cbn [app] in Hf. apply qfrag_cons in Hf.
    destruct cols as [|c0 cr].
    - cbn [ccols_toks app] in *. rewrite <- app_assoc in *. cbn [app] in *.
      apply cte_body_rt; [exact Hqw|exact Hl|exact Hp|]. eapply qfrag_cons; exact Hf.
    - cbn [ccols_toks ccols_wf] in *. unfold cols_toks in *. cbn [app] in *. rewrite <- !app_assoc in *. cbn [app] in *.
      rewrite cols_rt by exact Hc. cbn [bind].
      replace ((qtoks q ++ [QE TRParen]) ++ post) with (qtoks q ++ QE TRParen :: post) in * by (rewrite <- app_assoc; reflexivity).
      apply cte_body_rt; [exact Hqw|exact Hl|exact Hp|].
      apply qfrag_cons in Hf. apply qfrag_app in Hf. do 2 apply qfrag_cons in Hf. exact Hf.
  Qed.

  Lemma notrail_cte c r : cte_wf d c = true -> later_ok d (cte_name c) = true -> notrail (trail_all d) (cte_toks c ++ r).
  Proof.
    destruct c as [n cols q]. cbn [cte_wf cte_name cte_toks app]. intros Hw Hl.
    apply andb_true_iff in Hw. destruct Hw as [Hw _]. apply andb_true_iff in Hw. destruct Hw as [Hn' _].
    apply notrail_word; assumption.
  Qed.

  Lemma with_rt w X :
    wwf d w = true -> (match w with Some x => (wlevel x <= f)%nat | None => True end) ->
    qfrag d (wtoks w ++ X) = true -> bstart X = true ->
    parse_with d recq (wtoks w ++ X) = Ok (w, X).
  Proof.
    intros Hw Hl Hf Hx. destruct w as [[rc ctes]|]; cbn [wwf wtoks with_toks with_wf wlevel] in *.
    - apply andb_true_iff in Hw. destruct Hw as [Hnm Hcw]. unfold with_names_ok in Hnm.
      destruct ctes as [|c0 cr]; [discriminate|]. apply andb_true_iff in Hnm. destruct Hnm as [Hrec Hlater].
      cbn [app parse_with]. rewrite <- app_assoc. cbn [app] in Hf. apply qfrag_cons in Hf. rewrite <- app_assoc in Hf.
      assert (Hopt : opt_tok (QK KRecursive) (rec_toks rc ++ sepc (map cte_toks (c0 :: cr)) ++ X)
                     = (rc, sepc (map cte_toks (c0 :: cr)) ++ X)).
      { destruct rc; cbn [rec_toks app]; [reflexivity|]. cbn [orb negb] in Hrec. apply negb_true_iff in Hrec.
        rewrite sepc_follow. destruct c0 as [n cols q]. cbn [cte_toks app cte_name] in *. cbn [opt_tok]. rewrite Hrec. reflexivity. }
      rewrite Hopt.
      rewrite comma_list_rt; [reflexivity|discriminate| | |apply fuel_commas].
      + eapply (elems_ok_build _ _ _ (fun c => cte_wf d c && Nat.leb (clevel c) f) cfol).
        * intro r. left. reflexivity.
        * intros x post' Hx' Hqf Hp. apply andb_true_iff in Hx'. destruct Hx' as [Hx1 Hx2]. apply PeanoNat.Nat.leb_le in Hx2.
          apply cte_rt; auto.
        * apply maxl_map_le in Hl. rewrite forallb_forall in *. intros x Hin. rewrite (Hcw x Hin).
          rewrite Forall_forall in Hl. apply PeanoNat.Nat.leb_le. auto.
        * cbn [tl]. apply Forall_forall. intros x Hin r. rewrite forallb_forall in Hcw, Hlater.
          apply notrail_cte; [apply Hcw; right; exact Hin|apply Hlater; exact Hin].
        * apply qfrag_app in Hf. exact Hf.
        * right. exact Hx.
      + destruct X as [|[[]|[]| |] ?]; try discriminate Hx; reflexivity.
    - cbn [app]. destruct X as [|[[]|[]| |] ?]; try discriminate Hx; reflexivity.
  Qed.

  (** ** the query *)
  Lemma query_rt q post :
    qwf d q = true -> (qlevel q <= S f)%nat -> ender post = true -> qfrag d (qtoks q ++ post) = true ->
    query_step d recq recb rect (qtoks q ++ post) = Ok (q, post).
  Proof.
    destruct q as [w b ob lim off]. rewrite qwf_query, qtoks_query. cbn [qlevel]. intros Hw Hl He Hf.
    apply andb_true_iff in Hw. destruct Hw as [Hw Ht']. apply andb_true_iff in Hw. destruct Hw as [Hww Hbw].
    unfold tail_wf in Ht'.
    apply andb_true_iff in Ht'. destruct Ht' as [Ht' Hoff]. apply andb_true_iff in Ht'. destruct Ht' as [Hob Hlim].
    pose proof (ender_hrank _ He) as Hr. repeat rewrite <- app_assoc in *.
    set (T3 := clause_toks (QK KOffset) off ++ post) in *.
    set (T2 := clause_toks (QK KLimit) lim ++ T3) in *.
    set (T1 := order_toks ob ++ T2) in *.
    destruct (tail_ranks ob lim off post Hr) as (R3 & R2 & R1).
    change (8 <= hrank T3)%nat in R3. change (7 <= hrank T2)%nat in R2. change (6 <= hrank T1)%nat in R1.
    assert (F0 : qfrag d (btoks b ++ T1) = true) by (eapply qfrag_app; exact Hf).
    assert (F1 : qfrag d T1 = true) by (eapply qfrag_app; exact F0).
    assert (F2 : qfrag d T2 = true) by (eapply qfrag_app; exact F1).
    assert (H0 : headpow T1 = 0) by (unfold headpow; rewrite set_op_miss by exact R1; reflexivity).
    unfold query_step.
    rewrite with_rt; [|exact Hww|destruct w; [lia|exact I]|exact Hf|apply btoks_bstart]. cbn [bind].
    rewrite (d_U0 d Hd).
    rewrite body_rt; [|assumption|lia|apply blspine_gtb_0|rewrite H0; apply N.le_refl|rewrite H0; apply brspine_geb_0|
                      apply (PeanoNat.Nat.le_trans _ 6); [repeat constructor|exact R1]|exact F0].
    cbn [bind]. unfold T1. rewrite order_rt; [|assumption|exact F1|exact R2]. cbn [bind].
    unfold T2, T3. rewrite limit_iter_first; [|assumption|assumption|exact He|exact F2]. cbn [bind].
    rewrite limit_iter_again by exact He. cbn [bind fst snd].
    rewrite opt_by_miss; [|rewrite Hr; repeat constructor]. cbn [fst]. rewrite !andb_false_r. reflexivity.
  Qed.

  (** ** what [parse_query] makes of the tokens of a parenthesised join: no query followed by [)] *)
  Lemma query_step_word n X : is_word n = true -> starter n = false -> query_step d recq recb rect (n :: X) = Err.
  Proof. destruct n as [[]|[]| |]; cbn [is_word]; intros H1 H2; try discriminate H1; try discriminate H2; reflexivity. Qed.

  Lemma inert_misses rest : inert rest = true ->
    opt_tok2 (QK KOrder) (QK KBy) rest = (false, rest) /\ opt_tok (QK KLimit) rest = (false, rest) /\
    opt_tok (QK KOffset) rest = (false, rest) /\ opt_tok (QK KBy) rest = (false, rest).
  Proof.
    intro H. qhead rest; cbn [inert jstart] in H; try discriminate H; repeat split; try reflexivity.
    all: match goal with |- opt_tok2 _ _ (_ :: ?l) = _ => destruct l; reflexivity end.
  Qed.

  Lemma inert_tail w b rest :
    inert rest = true ->
    bind (parse_order_by d rest) (fun '(ob, ts2) =>
    bind (limit_iter d (None, None) ts2) (fun '(st1, ts3) =>
    bind (limit_iter d st1 ts3) (fun '(st2, ts4) =>
      if limit_by d && (is_some (fst st2) && fst (opt_tok (QK KBy) ts4)) then OutOfFragment
      else Ok (Query w b ob (fst st2) (snd st2), ts4)))) = Ok (Query w b [] None None, rest).
  Proof.
    intro H. destruct (inert_misses rest H) as (M1 & M2 & M3 & M4).
    unfold parse_order_by. rewrite M1. cbn [bind].
    unfold limit_iter. rewrite M2. cbn [bind]. rewrite M3. cbn [bind]. rewrite M2. cbn [bind]. rewrite M3. cbn [bind].
    rewrite M4. cbn [fst snd is_some andb]. rewrite andb_false_r. reflexivity.
  Qed.

  Lemma bloop_inert g p e rest : inert rest = true -> (0 < g)%nat -> bloop recb g p e rest = Ok (e, rest).
  Proof.
    intros H Hg. apply bloop_stop; [exact Hg|]. unfold headpow.
    qhead rest; cbn [inert jstart] in H; try discriminate H; cbn [set_op_of]; lia.
  Qed.

  Lemma notq_nested (x : res (query * list qtok)) :
    notq x ->
    bind x (fun '(q, r1) => match r1 with QE TRParen :: r2 => Ok (BNested q, r2) | _ => Err end) = Err.
  Proof. destruct x as [[q0 [|[[]| | |] r0]]| | |]; cbn [notq bind]; intro H; try reflexivity; contradiction. Qed.

  Lemma notq_step r post :
    tref_wf d r = true -> first_ok r = true -> (tlevel r <= f)%nat ->
    (bare_derived r = true -> jstart post = true) -> qfrag d (tref_toks r ++ post) = true ->
    notq (query_step d recq recb rect (tref_toks r ++ post)).
  Proof.
    intros Hw Hfi Hl Hbd Hf. destruct r as [n a|q a|x a]; cbn [tref_wf tref_toks tlevel first_ok] in *.
    - apply andb_true_iff in Hw. destruct Hw as [Hw _]. unfold name_ok in Hw. apply andb_true_iff in Hw. destruct Hw as [Hw _].
      apply negb_true_iff in Hfi. cbn [app]. rewrite query_step_word by assumption. exact I.
    - apply andb_true_iff in Hw. destruct Hw as [Hqw Ha]. cbn [app] in *. rewrite <- app_assoc in *. cbn [app] in *.
      assert (Hin : inert (alias_toks a ++ post) = true).
      { destruct a; [reflexivity|]. cbn [alias_toks app]. pose proof (Hbd eq_refl) as Hj.
        qhead post; cbn [jstart] in Hj; try discriminate Hj; reflexivity. }
      unfold query_step. cbn [parse_with bind]. unfold body_step. cbn [parse_operand].
      rewrite Hq; [|exact Hqw|exact Hl|reflexivity|eapply qfrag_cons; exact Hf]. cbn [bind].
      rewrite bloop_inert; [|exact Hin|lia]. cbn [bind]. rewrite inert_tail by exact Hin.
      cbn [notq]. destruct (alias_toks a ++ post) as [|[[]| | |] ?]; try exact I. discriminate Hin.
    - apply andb_true_iff in Hw. destruct Hw as [Hw Ha]. apply andb_true_iff in Hw. destruct Hw as [Hxw Hno].
      unfold nested_ok in Hno. apply andb_true_iff in Hno. destruct Hno as [Hsh Hfi'].
      destruct x as [r' js]. cbn [twj_toks twj_wf twjlevel first_of] in *. cbn [app] in *. rewrite <- !app_assoc in *.
      apply andb_true_iff in Hxw. destruct Hxw as [Hrw _].
      unfold query_step. cbn [parse_with bind]. unfold body_step. cbn [parse_operand].
      rewrite notq_nested; [exact I|].
      apply Hn; [exact Hrw|exact Hfi'|lia| |eapply qfrag_cons; exact Hf].
      intro Hb'. apply jstart_joins. destruct r' as [| q0 [a0|]|]; try discriminate Hb'.
      destruct js; [discriminate Hsh|discriminate].
  Qed.
End RoundTrip.

(** * Tying the knot: all nesting levels *)
Lemma blevel_pos b : (1 <= blevel b)%nat.
Proof. induction b as [dist items from wh gb hv|o q l IHl r IHr|q]; [rewrite blevel_select|cbn [blevel]|rewrite blevel_nested]; lia. Qed.
Lemma qlevel_pos q : (1 <= qlevel q)%nat.
Proof. destruct q as [w b ob lim off]. cbn [qlevel]. pose proof (blevel_pos b). lia. Qed.

Section Knot.
  Variable d : qdialect.
  Hypothesis Hd : dialect_ok d = true.

  Lemma parse_lvl_rt f :
    (forall q post, qwf d q = true -> (qlevel q <= f)%nat -> ender post = true -> qfrag d (qtoks q ++ post) = true ->
       parse_query d f (qtoks q ++ post) = Ok (q, post)) /\
    (forall b p post, bwf d b = true -> (blevel b <= f)%nat -> blspine_gtb p b = true -> headpow post <= p ->
       brspine_geb (headpow post) b = true -> (5 <= hrank post)%nat -> qfrag d (btoks b ++ post) = true ->
       parse_body d f p (btoks b ++ post) = Ok (b, post)) /\
    (forall t post, twj_wf d t = true -> (S (twjlevel t) <= f)%nat -> qfrag d (twj_toks t ++ post) = true ->
       fol 2 post -> parse_twj d f (twj_toks t ++ post) = Ok (t, post)) /\
    (forall r post, tref_wf d r = true -> first_ok r = true -> (S (tlevel r) <= f)%nat ->
       (bare_derived r = true -> jstart post = true) -> qfrag d (tref_toks r ++ post) = true ->
       notq (parse_query d f (tref_toks r ++ post))).
  Proof.
    induction f as [|f (IHq & IHb & IHt & IHn)].
    - repeat split.
      + intros q post _ Hl. pose proof (qlevel_pos q). lia.
      + intros b p post _ Hl. pose proof (blevel_pos b). lia.
      + intros t post _ Hl. lia.
      + intros r post _ _ Hl. lia.
    - repeat split.
      + intros q post Hw Hl He Hf. unfold parse_query. cbn [parse_lvl pq].
        apply (query_rt d Hd f); auto.
      + intros b p post Hw Hl Hls Hp Hrs Hr Hf. unfold parse_body. cbn [parse_lvl pb].
        apply (body_rt d Hd f); auto.
      + intros t post Hw Hl Hf Hp. unfold parse_twj. cbn [parse_lvl pt].
        apply (twj_rt d Hd f (pq (parse_lvl d f)) (pb (parse_lvl d f)) (pt (parse_lvl d f))); auto. lia.
      + intros r post Hw Hfi Hl Hbd Hf. unfold parse_query. cbn [parse_lvl pq].
        apply (notq_step d Hd f (pq (parse_lvl d f)) (pb (parse_lvl d f)) (pt (parse_lvl d f))); auto. lia.
  Qed.

  (** The round trip of the query core: for every well-formed query tree [q] whose printed tokens
      pass the syntactic fragment test, whatever follows (end of input, [)] or [;]): parsing the
      printed tokens gives [q] back and leaves the rest, for every fuel from the nesting level up. *)
  Theorem query_roundtrip q rest fuel :
    qwf d q = true -> qfrag d (qtoks q ++ rest) = true -> ender rest = true -> (qlevel q <= fuel)%nat ->
    parse_query d fuel (qtoks q ++ rest) = Ok (q, rest).
  Proof. intros Hw Hf He Hl. apply (proj1 (parse_lvl_rt fuel)); assumption. Qed.

  (** the same for a query body (set-operation operand) at binding power [p] *)
  Theorem body_roundtrip b p rest fuel :
    bwf d b = true -> blspine_gtb p b = true -> headpow rest <= p -> brspine_geb (headpow rest) b = true ->
    (5 <= hrank rest)%nat -> qfrag d (btoks b ++ rest) = true -> (blevel b <= fuel)%nat ->
    parse_body d fuel p (btoks b ++ rest) = Ok (b, rest).
  Proof. intros. apply (proj1 (proj2 (parse_lvl_rt fuel))); assumption. Qed.

  (** the same for one element of FROM (a table with its joins); what follows is a comma or the end
      of the FROM clause (WHERE GROUP HAVING, a set operator, ORDER LIMIT OFFSET, [)] [;] or the end) *)
  Theorem twj_roundtrip t rest fuel :
    twj_wf d t = true -> qfrag d (twj_toks t ++ rest) = true ->
    (is_comma rest = true \/ (2 <= hrank rest)%nat) -> (S (twjlevel t) <= fuel)%nat ->
    parse_twj d fuel (twj_toks t ++ rest) = Ok (t, rest).
  Proof. intros. apply (proj1 (proj2 (proj2 (parse_lvl_rt fuel)))); assumption. Qed.

  (** printing is injective on well-formed queries *)
  Theorem qtoks_injective q1 q2 :
    qwf d q1 = true -> qwf d q2 = true -> qfrag d (qtoks q1) = true -> qtoks q1 = qtoks q2 -> q1 = q2.
  Proof.
    intros H1 H2 Hf E. set (m := Nat.max (qlevel q1) (qlevel q2)).
    assert (R1 : parse_query d m (qtoks q1 ++ []) = Ok (q1, [])).
    { apply query_roundtrip; auto; [rewrite app_nil_r; exact Hf|subst m; lia]. }
    assert (R2 : parse_query d m (qtoks q2 ++ []) = Ok (q2, [])).
    { apply query_roundtrip; auto; [rewrite app_nil_r, <- E; exact Hf|subst m; lia]. }
    rewrite <- E in R2. rewrite R1 in R2. inversion R2. reflexivity.
  Qed.
End Knot.
