(** Proofs about the visitor model (C16): balanced, exactly-once (membership, uniqueness,
    document order), Break = prefix, the mutating walk that changes nothing, and coverage of
    the node kinds / relation positions under the boolean checker [wf_visit].  All theorems
    hold for every environment and every value tree; no axioms. *)
From SqlV Require Import Base Univ Visit.
From Coq Require Import Arith.

(* ------------------------------------------------------------------ induction on values *)

Section SvalInd.
  Variable P : sval -> Prop.
  Hypothesis Hbool : forall b, P (VBool b).
  Hypothesis Hnum : forall z, P (VNum z).
  Hypothesis Hchar : forall c, P (VChar c).
  Hypothesis Hstr : forall s, P (VStr s).
  Hypothesis Hunit : P VUnit.
  Hypothesis Hnone : P VNone.
  Hypothesis Hsome : forall v, P v -> P (VSome v).
  Hypothesis Hseq : forall vs, Forall P vs -> P (VSeq vs).
  Hypothesis Htuple : forall vs, Forall P vs -> P (VTuple vs).
  Hypothesis Hstruct : forall tn sh args, Forall (fun kv => P (snd kv)) args -> P (VStruct tn sh args).
  Hypothesis Henum : forall tn vn sh args, Forall (fun kv => P (snd kv)) args -> P (VEnum tn vn sh args).
  Hypothesis Hopaque : forall s, P (VOpaque s).

  Fixpoint sval_ind' (v : sval) : P v :=
    match v with
    | VBool b => Hbool b
    | VNum z => Hnum z
    | VChar c => Hchar c
    | VStr s => Hstr s
    | VUnit => Hunit
    | VNone => Hnone
    | VSome v' => Hsome v' (sval_ind' v')
    | VSeq vs => Hseq vs ((fix go l : Forall P l := match l with [] => Forall_nil _ | x :: r => Forall_cons x (sval_ind' x) (go r) end) vs)
    | VTuple vs => Htuple vs ((fix go l : Forall P l := match l with [] => Forall_nil _ | x :: r => Forall_cons x (sval_ind' x) (go r) end) vs)
    | VStruct tn sh args =>
        Hstruct tn sh args
          ((fix go l : Forall (fun kv => P (snd kv)) l :=
              match l with [] => Forall_nil _ | (k, x) :: r => Forall_cons (k, x) (sval_ind' x) (go r) end) args)
    | VEnum tn vn sh args =>
        Henum tn vn sh args
          ((fix go l : Forall (fun kv => P (snd kv)) l :=
              match l with [] => Forall_nil _ | (k, x) :: r => Forall_cons (k, x) (sval_ind' x) (go r) end) args)
    | VOpaque s => Hopaque s
    end.
End SvalInd.

Lemma children_kids E v : map snd (kids E v) = children v.
Proof.
  destruct v; cbn [kids children]; try reflexivity.
  - rewrite map_map. cbn. apply map_id.
  - rewrite map_map. cbn. apply map_id.
  - generalize 0%nat. induction args as [|[k c] r IH]; intro i; cbn; [reflexivity|]. rewrite IH. reflexivity.
  - generalize 0%nat. induction args as [|[k c] r IH]; intro i; cbn; [reflexivity|]. rewrite IH. reflexivity.
Qed.

(** Induction with the hypothesis on all children (as listed by [kids]). *)
Lemma sval_kids_ind E (P : sval -> Prop) :
  (forall v, Forall (fun hc => P (snd hc)) (kids E v) -> P v) -> forall v, P v.
Proof.
  intros H. induction v using sval_ind'; apply H; cbn [kids]; try constructor; auto.
  - apply Forall_map. cbn. assumption.
  - apply Forall_map. cbn. assumption.
  - generalize 0%nat. induction H0 as [|[k c] r Hc _ IH]; intro i; cbn; constructor; auto.
  - generalize 0%nat. induction H0 as [|[k c] r Hc _ IH]; intro i; cbn; constructor; auto.
Qed.

(* ------------------------------------------------------------------ the traversal equation *)

Section TravEq.
  Variable E : env.
  Variable R : Type.
  Variable unitR : R.
  Variable seqR : R -> R -> R.
  Variable emitR : event -> R.
  Variable shiftR : nat -> R -> R.
  Notation trav' := (trav E R unitR seqR emitR shiftR).
  Notation trav_kids' := (trav_kids E R unitR seqR emitR shiftR).

  Lemma trav_eq v :
    trav' v = wrapR R seqR emitR (type_hook E v) [] (trav_kids' 0 (kids E v)).
  Proof.
    destruct v; cbn [trav kids trav_kids]; try reflexivity.
    - f_equal. generalize 0%nat. induction vs as [|c r IH]; intro i; cbn; [reflexivity|]. rewrite IH. reflexivity.
    - f_equal. generalize 0%nat. induction vs as [|c r IH]; intro i; cbn; [reflexivity|]. rewrite IH. reflexivity.
    - f_equal. generalize 0%nat. induction args as [|[k c] r IH]; intro i; cbn; [reflexivity|]. rewrite IH. reflexivity.
    - f_equal. generalize 0%nat. induction args as [|[k c] r IH]; intro i; cbn; [reflexivity|]. rewrite IH. reflexivity.
  Qed.
End TravEq.

Lemma walk_eq E v : walk E v = wrap (type_hook E v) [] (walk_kids E 0 (kids E v)).
Proof. unfold walk, wrap, walk_kids. apply trav_eq. Qed.

Lemma walk_kids_cons E i h c r :
  walk_kids E i ((h, c) :: r) = wrap h [i] (map (shift i) (walk E c)) ++ walk_kids E (S i) r.
Proof. reflexivity. Qed.

(* ------------------------------------------------------------------ balance *)

Inductive dyck : list event -> Prop :=
| D_nil : dyck []
| D_app a b : dyck a -> dyck b -> dyck (a ++ b)
| D_wrap h p a : dyck a -> dyck ((Pre, h, p) :: a ++ [(Post, h, p)]).

Lemma dyck_shift i a : dyck a -> dyck (map (shift i) a).
Proof.
  induction 1; cbn [map].
  - constructor.
  - rewrite map_app. constructor; assumption.
  - rewrite map_app. cbn. apply (D_wrap h (i :: p)). assumption.
Qed.

Lemma wrap_some h p a : wrap (Some h) p a = (Pre, h, p) :: a ++ [(Post, h, p)].
Proof. reflexivity. Qed.
Lemma wrap_none p a : wrap None p a = a.
Proof. reflexivity. Qed.

Lemma dyck_wrap h p a : dyck a -> dyck (wrap h p a).
Proof. intro H. destruct h; [rewrite wrap_some; constructor; exact H|exact H]. Qed.

Lemma dyck_walk E : forall v, dyck (walk E v).
Proof.
  apply (sval_kids_ind E). intros v IH. rewrite walk_eq. apply dyck_wrap.
  generalize 0%nat. induction IH as [|[h c] r Hc _ IHr]; intro i.
  - constructor.
  - rewrite walk_kids_cons. constructor; [|apply IHr].
    apply dyck_wrap, dyck_shift. exact Hc.
Qed.

Lemma path_eqb_refl p : path_eqb p p = true.
Proof. induction p as [|x r IH]; cbn; [reflexivity|]. rewrite Nat.eqb_refl. exact IH. Qed.

Lemma path_eqb_eq p q : path_eqb p q = true -> p = q.
Proof.
  revert q; induction p as [|x r IH]; intros [|y s]; cbn; intro H; try discriminate; [reflexivity|].
  apply andb_true_iff in H as [H1 H2]. apply Nat.eqb_eq in H1. apply IH in H2. congruence.
Qed.

Lemma run_stack_app a : forall st b,
  run_stack st (a ++ b) = match run_stack st a with Some st' => run_stack st' b | None => None end.
Proof.
  induction a as [|[[ph h] p] r IH]; intros st b; cbn [app run_stack]; [reflexivity|].
  destruct ph.
  - apply IH.
  - destruct st as [|[h' p'] st']; [reflexivity|].
    destruct (str_eqb h' h && path_eqb p' p); [apply IH|reflexivity].
Qed.

Lemma dyck_run a : dyck a -> forall st, run_stack st a = Some st.
Proof.
  induction 1; intro st.
  - reflexivity.
  - rewrite run_stack_app, IHdyck1. apply IHdyck2.
  - cbn [run_stack]. rewrite run_stack_app, IHdyck. cbn [run_stack].
    rewrite str_eqb_refl, path_eqb_refl. reflexivity.
Qed.

(** C16 balanced: the trace of any walk is accepted by the stack automaton — callbacks are
    properly nested and every [post] closes the matching [pre] on the same node. *)
Theorem walk_balanced E v : balanced (walk E v).
Proof. apply dyck_run, dyck_walk. Qed.

(* ------------------------------------------------------------------ which nodes are entered *)

Definition optl (h : option str) (p : path) : list (str * path) :=
  match h with Some h => [(h, p)] | None => [] end.
Definition lift (i : nat) (hp : str * path) : str * path := (fst hp, i :: snd hp).

Lemma pres_app a b : pres (a ++ b) = pres a ++ pres b.
Proof. unfold pres. apply flat_map_app. Qed.

Lemma pres_wrap h p a : pres (wrap h p a) = optl h p ++ pres a.
Proof.
  destruct h as [h|]; [|reflexivity]. rewrite wrap_some. cbn [optl app].
  change ((Pre, h, p) :: a ++ [(Post, h, p)]) with ([(Pre, h, p)] ++ a ++ [(Post, h, p)]).
  rewrite !pres_app. cbn. rewrite app_nil_r. reflexivity.
Qed.

Lemma pres_shift i a : pres (map (shift i) a) = map (lift i) (pres a).
Proof.
  induction a as [|[[ph h] p] r IH]; [reflexivity|].
  cbn [map]. change ((ph, h, p) :: r) with ([(ph, h, p)] ++ r).
  change (shift i (ph, h, p) :: map (shift i) r) with ([shift i (ph, h, p)] ++ map (shift i) r).
  rewrite !pres_app, map_app, IH. f_equal. destruct ph; reflexivity.
Qed.

Fixpoint pres_kids (E : env) (i : nat) (l : list (option str * sval)) : list (str * path) :=
  match l with
  | [] => []
  | (h, c) :: r => optl h [i] ++ map (lift i) (pres (walk E c)) ++ pres_kids E (S i) r
  end.

Lemma pres_walk_kids E : forall l i, pres (walk_kids E i l) = pres_kids E i l.
Proof.
  induction l as [|[h c] r IH]; intro i; [reflexivity|].
  rewrite walk_kids_cons, pres_app, pres_wrap, pres_shift, IH. cbn [pres_kids].
  rewrite <- app_assoc. reflexivity.
Qed.

Lemma pres_walk E v : pres (walk E v) = optl (type_hook E v) [] ++ pres_kids E 0 (kids E v).
Proof. rewrite walk_eq, pres_wrap, pres_walk_kids. reflexivity. Qed.

Lemma in_pres_kids E h p : forall l i,
  In (h, p) (pres_kids E i l) <->
  exists j hc c, nth_error l j = Some (hc, c) /\
    ((hc = Some h /\ p = [(i + j)%nat]) \/ (exists p', p = (i + j)%nat :: p' /\ In (h, p') (pres (walk E c)))).
Proof.
  induction l as [|[hc c] r IH]; intro i; cbn [pres_kids].
  - split; [intros []|]. intros (j & ? & ? & Hn & _). destruct j; discriminate.
  - rewrite !in_app_iff, IH. split.
    + intros [H|[H|H]].
      * exists 0%nat, hc, c. split; [reflexivity|]. left.
        destruct hc as [h'|]; cbn in H; [|contradiction]. destruct H as [H|[]]. inversion H; subst.
        rewrite Nat.add_0_r. auto.
      * apply in_map_iff in H as ([h' p'] & Heq & Hin). unfold lift in Heq. cbn in Heq. inversion Heq; subst.
        exists 0%nat, hc, c. split; [reflexivity|]. right. exists p'. rewrite Nat.add_0_r. auto.
      * destruct H as (j & hc' & c' & Hn & Hc). exists (S j), hc', c'. split; [exact Hn|].
        replace (i + S j)%nat with (S i + j)%nat by lia. exact Hc.
    + intros (j & hc' & c' & Hn & Hc). destruct j as [|j].
      * cbn in Hn. inversion Hn; subst. rewrite Nat.add_0_r in Hc. destruct Hc as [[Hh Hp]|(p' & Hp & Hin)]; subst.
        -- left. cbn. auto.
        -- right; left. apply in_map_iff. exists (h, p'). split; [reflexivity|exact Hin].
      * right; right. exists j, hc', c'. split; [exact Hn|].
        replace (S i + j)%nat with (i + S j)%nat by lia. exact Hc.
Qed.

Lemma sub_cons E v j p c hc :
  nth_error (kids E v) j = Some (hc, c) -> sub v (j :: p) = sub c p.
Proof.
  intro H. cbn [sub]. rewrite <- (children_kids E v), nth_error_map, H. reflexivity.
Qed.

Lemma sub_cons_inv E v j p n :
  sub v (j :: p) = Some n -> exists hc c, nth_error (kids E v) j = Some (hc, c) /\ sub c p = Some n.
Proof.
  cbn [sub]. rewrite <- (children_kids E v), nth_error_map.
  destruct (nth_error (kids E v) j) as [[hc c]|]; cbn; [|discriminate]. intro H. eauto.
Qed.

(** C16 exactly_once, membership: a [pre] callback is made for (hook, node) exactly when the
    declarations say the node is hooked — nothing is skipped and nothing else is entered. *)
Theorem walk_pre_spec E : forall v h p, In (h, p) (pres (walk E v)) <-> hooked_at E v p h.
Proof.
  apply (sval_kids_ind E (fun v => forall h p, In (h, p) (pres (walk E v)) <-> hooked_at E v p h)).
  intros v IH h p. rewrite Forall_forall in IH. rewrite pres_walk, in_app_iff, in_pres_kids. split.
  - intros [H|(j & hc & c & Hn & Hc)].
    + destruct (type_hook E v) as [h'|] eqn:Eh; cbn in H; [|contradiction].
      destruct H as [H|[]]. inversion H; subst. left. exists v. auto.
    + cbn [Nat.add] in Hc. destruct Hc as [[Hh Hp]|(p' & Hp & Hin)]; subst.
      * right. exists [], j, v, c. auto.
      * apply (IH (hc, c) (nth_error_In _ _ Hn)) in Hin. cbn [snd] in Hin.
        destruct Hin as [(n & Hs & Ht)|(q & i & par & c' & Hp & Hs & Hk)].
        -- left. exists n. split; [|exact Ht]. rewrite (sub_cons E v j p' c hc Hn). exact Hs.
        -- right. exists (j :: q), i, par, c'. subst p'. split; [reflexivity|]. split; [|exact Hk].
           rewrite (sub_cons E v j q c hc Hn). exact Hs.
  - intros [(n & Hs & Ht)|(q & i & par & c' & Hp & Hs & Hk)].
    + destruct p as [|j p'].
      * cbn in Hs. inversion Hs; subst. left. rewrite Ht. left. reflexivity.
      * right. destruct (sub_cons_inv E v j p' n Hs) as (hc & c & Hn & Hs').
        exists j, hc, c. split; [exact Hn|]. right. exists p'. split; [reflexivity|].
        apply (IH (hc, c) (nth_error_In _ _ Hn)). left. exists n. auto.
    + subst p. destruct q as [|j q'].
      * cbn in Hs. inversion Hs; subst. right. exists i, (Some h), c'. split; [exact Hk|]. left. auto.
      * right. destruct (sub_cons_inv E v j q' par Hs) as (hc & c & Hn & Hs').
        exists j, hc, c. split; [exact Hn|]. right. exists (q' ++ [i]). split; [reflexivity|].
        apply (IH (hc, c) (nth_error_In _ _ Hn)). right. exists q', i, par, c'. auto.
Qed.

(* ------------------------------------------------------------------ order and uniqueness *)
From Coq Require Import Sorted.

Lemma SS_app {A} (R : A -> A -> Prop) (a b : list A) :
  StronglySorted R a -> StronglySorted R b -> (forall x y, In x a -> In y b -> R x y) ->
  StronglySorted R (a ++ b).
Proof.
  induction a as [|x r IH]; intros Ha Hb Hab; [exact Hb|].
  cbn [app]. inversion Ha; subst. constructor.
  - apply IH; [assumption|assumption|]. intros; apply Hab; [right|]; assumption.
  - apply Forall_app. split; [assumption|].
    apply Forall_forall. intros y Hy. apply Hab; [left; reflexivity|exact Hy].
Qed.

Lemma SS_map {A} (R : A -> A -> Prop) (f : A -> A) (l : list A) :
  (forall x y, R x y -> R (f x) (f y)) -> StronglySorted R l -> StronglySorted R (map f l).
Proof.
  intros Hf. induction 1; cbn [map]; constructor; [assumption|].
  apply Forall_map. eapply Forall_impl; [|eassumption]. cbn. intros; apply Hf; assumption.
Qed.

Lemma SS_irrefl_NoDup {A} (R : A -> A -> Prop) (l : list A) :
  (forall x, ~ R x x) -> StronglySorted R l -> NoDup l.
Proof.
  intros Hir. induction 1; constructor; [|assumption].
  intro Hin. rewrite Forall_forall in H0. exact (Hir a (H0 a Hin)).
Qed.

Lemma lex_lt_irrefl p : ~ lex_lt p p.
Proof. induction p as [|x r IH]; cbn; [tauto|]. intros [H|[_ H]]; [lia|auto]. Qed.

Lemma lex_lt_app_l p : forall q, ~ lex_lt (p ++ q) p.
Proof.
  induction p as [|x r IH]; intro q; cbn.
  - destruct q; cbn; tauto.
  - intros [H|[_ H]]; [lia|]. exact (IH q H).
Qed.

Lemma lookup_name_In E tn d : lookup_name E tn = Some d -> exists k, In (k, d) E.
Proof.
  induction E as [|[k d0] r IH]; cbn [lookup_name]; [discriminate|].
  destruct (str_eqb (d_name d0) tn); intro H.
  - inversion H; subst. exists k. left; reflexivity.
  - destruct (IH H) as [k' Hk]. exists k'. right; exact Hk.
Qed.

Lemma find_variant_In' vs vn var : find_variant vs vn = Some var -> In var vs.
Proof.
  induction vs as [|a r IH]; cbn [find_variant]; [discriminate|].
  destruct (str_eqb (v_name a) vn); intro H.
  - inversion H; subst. left; reflexivity.
  - right. apply IH, H.
Qed.

Lemma find_field_In fl k f : find_field fl k = Some f -> In f fl.
Proof.
  induction fl as [|a r IH]; cbn [find_field]; [discriminate|].
  destruct (str_eqb (f_name a) k); intro H.
  - inversion H; subst. left; reflexivity.
  - right. apply IH, H.
Qed.

Lemma type_hook_in E v h : type_hook E v = Some h -> In h (type_hooks E).
Proof.
  assert (forall tn, match lookup_name E tn with Some d => d_visit d | None => None end = Some h ->
                     In h (type_hooks E)) as H.
  { intros tn Hd. destruct (lookup_name E tn) as [d|] eqn:El; [|discriminate].
    destruct (lookup_name_In _ _ _ El) as [k Hk]. unfold type_hooks. apply in_flat_map.
    exists (k, d). split; [exact Hk|]. cbn. rewrite Hd. left; reflexivity. }
  destruct v; cbn [type_hook]; try discriminate; apply H.
Qed.

Lemma decl_fields_In E tn vn f :
  In f (decl_fields E tn vn) -> exists kd, In kd E /\ In f (body_fields (d_body (snd kd))).
Proof.
  unfold decl_fields. destruct (lookup_name E tn) as [d|] eqn:El; [|intros []].
  destruct (lookup_name_In _ _ _ El) as [k Hk]. intro Hin. exists (k, d). split; [exact Hk|]. cbn [snd].
  destruct (d_body d) as [fs|vs], vn as [n|]; cbn in Hin; try contradiction.
  - exact Hin.
  - destruct (find_variant vs n) as [var|] eqn:Ev; [|contradiction].
    cbn [body_fields]. apply in_flat_map. exists var. split; [eapply find_variant_In'; eassumption|exact Hin].
Qed.

Lemma arg_hook_in E tn vn sh i k h :
  arg_hook (decl_fields E tn vn) sh i k = Some h -> In h (field_hooks E).
Proof.
  unfold arg_hook. intro H.
  assert (exists f, In f (decl_fields E tn vn) /\ f_visit f = Some h) as (f & Hf & Hv).
  { destruct sh.
    1-3: destruct (nth_error (decl_fields E tn vn) i) as [f|] eqn:En; [|discriminate];
      exists f; split; [eapply nth_error_In; eassumption|exact H].
    destruct (find_field (decl_fields E tn vn) k) as [f|] eqn:En; [|discriminate].
    exists f; split; [eapply find_field_In; eassumption|exact H]. }
  destruct (decl_fields_In _ _ _ _ Hf) as (kd & Hkd & Hb).
  unfold field_hooks. apply in_flat_map. exists kd. split; [exact Hkd|].
  apply in_flat_map. exists f. split; [exact Hb|]. rewrite Hv. left; reflexivity.
Qed.

Lemma kids_from_hook_in E tn vn sh h c : forall args i,
  In (Some h, c) (kids_from (decl_fields E tn vn) sh i args) -> In h (field_hooks E).
Proof.
  induction args as [|[k x] r IH]; intros i; cbn [kids_from]; [intros []|].
  intros [H|H]; [|eapply IH; eassumption].
  inversion H. eapply arg_hook_in; eassumption.
Qed.

Lemma kids_hook_in E v h c : In (Some h, c) (kids E v) -> In h (field_hooks E).
Proof.
  destruct v; cbn [kids]; try (intros []; fail).
  - intros [H|[]]. discriminate.
  - intro H. apply in_map_iff in H as (? & H & _). discriminate.
  - intro H. apply in_map_iff in H as (? & H & _). discriminate.
  - apply kids_from_hook_in.
  - apply kids_from_hook_in.
Qed.

Lemma pre_lt_lift E i x y : pre_lt E x y -> pre_lt E (lift i x) (lift i y).
Proof.
  unfold pre_lt, lift. cbn [fst snd]. intros [H|(He & H1 & H2)].
  - left. cbn. right. auto.
  - right. rewrite He. auto.
Qed.

Section Order.
  Variable E : env.

  Let Good (v : sval) : Prop :=
    StronglySorted (pre_lt E) (pres (walk E v)) /\
    (forall h, In (h, []) (pres (walk E v)) -> In h (type_hooks E)).

  Lemma pres_kids_order : forall l i,
    Forall (fun hc => Good (snd hc)) l ->
    (forall h c, In (Some h, c) l -> In h (field_hooks E)) ->
    StronglySorted (pre_lt E) (pres_kids E i l) /\
    (forall y, In y (pres_kids E i l) -> exists j p', snd y = j :: p' /\ (i <= j)%nat).
  Proof.
    induction l as [|[hc c] r IH]; intros i HF Hfh.
    - cbn. split; [constructor|intros y []].
    - inversion HF as [|? ? [Hss Hroot] HFr]; subst. cbn [snd] in Hss, Hroot.
      destruct (IH (S i) HFr) as [IHs IHb]. { intros h c' Hin. apply (Hfh h c'). right; exact Hin. }
      cbn [pres_kids]. split.
      + apply SS_app; [|apply SS_app|].
        * destruct hc; cbn; repeat constructor.
        * apply SS_map; [apply pre_lt_lift|exact Hss].
        * exact IHs.
        * intros x y Hx Hy. apply in_map_iff in Hx as ([h' p'] & Hx & _). subst x.
          destruct (IHb y Hy) as (j & p'' & Hp & Hle). left. unfold lift. cbn [snd fst]. rewrite Hp. cbn. left. lia.
        * intros x y Hx Hy. destruct hc as [h|]; cbn in Hx; [|contradiction]. destruct Hx as [Hx|[]]. subst x.
          apply in_app_iff in Hy as [Hy|Hy].
          -- apply in_map_iff in Hy as ([h' p'] & Hy & Hin). subst y. unfold lift. cbn [fst snd].
             destruct p' as [|a p''].
             ++ right. cbn [fst snd]. split; [reflexivity|]. split; [apply (Hfh h c); left; reflexivity|apply Hroot, Hin].
             ++ left. cbn. right. split; [reflexivity|exact I].
          -- destruct (IHb y Hy) as (j & p'' & Hp & Hle). left. cbn [snd]. rewrite Hp. cbn. left. lia.
      + intros y Hy. apply in_app_iff in Hy as [Hy|Hy].
        * destruct hc as [h|]; cbn in Hy; [|contradiction]. destruct Hy as [Hy|[]]. subst y. exists i, []. auto.
        * apply in_app_iff in Hy as [Hy|Hy].
          -- apply in_map_iff in Hy as ([h' p'] & Hy & _). subst y. exists i, p'. auto.
          -- destruct (IHb y Hy) as (j & p'' & Hp & Hle). exists j, p''. split; [exact Hp|lia].
  Qed.

  Lemma walk_good : forall v, Good v.
  Proof.
    apply (sval_kids_ind E). intros v IH.
    destruct (pres_kids_order (kids E v) 0 IH) as [Hs Hb]. { intros h c. apply kids_hook_in. }
    unfold Good. rewrite pres_walk. split.
    - apply SS_app; [destruct (type_hook E v); cbn; repeat constructor|exact Hs|].
      intros x y Hx Hy. destruct (type_hook E v) as [h|]; cbn in Hx; [|contradiction]. destruct Hx as [Hx|[]]. subst x.
      destruct (Hb y Hy) as (j & p' & Hp & _). left. cbn [snd]. rewrite Hp. exact I.
    - intros h Hin. apply in_app_iff in Hin as [Hin|Hin].
      + destruct (type_hook E v) as [h'|] eqn:Eh; cbn in Hin; [|contradiction]. destruct Hin as [Hin|[]].
        inversion Hin; subst. eapply type_hook_in; eassumption.
      + destruct (Hb _ Hin) as (j & p' & Hp & _). discriminate.
  Qed.

  (** C16 pre-order: the [pre] callbacks come in document order of the nodes (field-level hook
      before type-level hook on the same node). *)
  Theorem walk_pre_order v : StronglySorted (pre_lt E) (pres (walk E v)).
  Proof. exact (proj1 (walk_good v)). Qed.

  Hypothesis Hdis : hooks_disjoint E = true.

  Lemma pre_lt_irrefl x : ~ pre_lt E x x.
  Proof.
    intros [H|(_ & H1 & H2)]; [exact (lex_lt_irrefl _ H)|].
    unfold hooks_disjoint in Hdis. rewrite forallb_forall in Hdis. specialize (Hdis _ H1).
    apply negb_true_iff in Hdis. unfold mem in Hdis.
    assert (existsb (str_eqb (fst x)) (type_hooks E) = true) as Ht.
    { apply existsb_exists. exists (fst x). split; [exact H2|apply str_eqb_refl]. }
    congruence.
  Qed.

  (** C16 exactly_once, uniqueness: no (hook, node) pair is entered twice. *)
  Theorem walk_pre_nodup v : NoDup (pres (walk E v)).
  Proof. eapply SS_irrefl_NoDup; [exact pre_lt_irrefl|apply walk_pre_order]. Qed.

  (** Parents before children: a node is never entered after one of its descendants. *)
  Theorem parents_before_children v l1 l2 h1 h2 p q :
    pres (walk E v) = l1 ++ (h2, p ++ q) :: l2 -> q <> [] -> ~ In (h1, p) l2.
  Proof.
    intros Heq Hq Hin. pose proof (walk_pre_order v) as Hs. rewrite Heq in Hs.
    assert (StronglySorted (pre_lt E) ((h2, p ++ q) :: l2)) as Hs2.
    { clear -Hs. induction l1 as [|a r IH]; [exact Hs|]. cbn in Hs. inversion Hs; subst. apply IH. assumption. }
    inversion Hs2 as [|? ? _ Hall]; subst. rewrite Forall_forall in Hall. specialize (Hall _ Hin).
    destruct Hall as [H|(He & _)]; cbn [snd] in *.
    - exact (lex_lt_app_l p q H).
    - apply Hq. rewrite <- (app_nil_r p) in He at 2. apply app_inv_head in He. exact He.
  Qed.
End Order.

(* ------------------------------------------------------------------ Break *)

Section Break.
  Variable S : Type.
  Notation run := (run_until S).

  Lemma run_until_app cb a : forall b s,
    run cb (a ++ b) s = let (s', br) := run cb a s in if br then (s', true) else run cb b s'.
  Proof.
    induction a as [|e r IH]; intros b s; cbn [app run_until]; [reflexivity|].
    destruct (cb e s) as [s1 [|]]; [reflexivity|]. apply IH.
  Qed.

  Lemma run_until_shift cb i a : forall s,
    run cb (map (shift i) a) s = run (fun e => cb (shift i e)) a s.
  Proof.
    induction a as [|e r IH]; intro s; cbn [map run_until]; [reflexivity|].
    destruct (cb (shift i e) s) as [s1 [|]]; [reflexivity|]. apply IH.
  Qed.

  Lemma run_until_ext cb1 cb2 a : (forall e s, cb1 e s = cb2 e s) -> forall s, run cb1 a s = run cb2 a s.
  Proof.
    intro H. induction a as [|e r IH]; intro s; cbn [run_until]; [reflexivity|].
    rewrite H. destruct (cb2 e s) as [s1 [|]]; [reflexivity|]. apply IH.
  Qed.

  Lemma wrapB_run (h : option str) (p : path) (m : actB S) (tr : list event) :
    (forall cb s, m cb s = run cb tr s) ->
    forall cb s, wrapR (actB S) (bindB S) (emitB S) h p m cb s = run cb (wrap h p tr) s.
  Proof.
    intros Hm cb s. destruct h as [h|]; [|apply Hm].
    rewrite wrap_some. cbn [wrapR]. unfold bindB, emitB. cbn [run_until].
    destruct (cb (Pre, h, p) s) as [s1 [|]]; [reflexivity|].
    rewrite run_until_app, Hm. destruct (run cb tr s1) as [s2 [|]]; [reflexivity|].
    cbn [run_until]. destruct (cb (Post, h, p) s2) as [s3 [|]]; reflexivity.
  Qed.

  (** C16 break_prefix: the walk the generated code performs with a visitor equals feeding
      the full trace to the visitor callback by callback and stopping at the first Break. *)
  Theorem walkB_run_until E : forall v cb s, walkB S E v cb s = run cb (walk E v) s.
  Proof.
    apply (sval_kids_ind E (fun v => forall cb s, walkB S E v cb s = run cb (walk E v) s)).
    intros v IH cb s. unfold walkB. rewrite trav_eq, walk_eq. apply wrapB_run. clear cb s.
    generalize 0%nat. induction IH as [|[h c] r Hc _ IHr]; intros i cb s.
    - reflexivity.
    - cbn [trav_kids]. rewrite walk_kids_cons, run_until_app. unfold bindB at 1.
      rewrite (wrapB_run h [i] _ (map (shift i) (walk E c))).
      + destruct (run cb (wrap h [i] (map (shift i) (walk E c))) s) as [s1 [|]]; [reflexivity|]. apply IHr.
      + intros cb' s'. unfold shiftB. rewrite run_until_shift. apply Hc.
  Qed.
End Break.

(** The recording visitor that breaks at its k-th callback sees exactly the first k events. *)
Lemma run_break_at k : forall tr s,
  (length s < k)%nat -> (k <= length s + length tr)%nat ->
  run_until (list event) (break_at k) tr s = (s ++ firstn (k - length s) tr, true).
Proof.
  induction tr as [|e r IH]; intros s H1 H2; cbn [length] in H2; [lia|].
  cbn [run_until]. unfold break_at at 1.
  destruct (Nat.eqb (length s + 1) k) eqn:Ek.
  - apply Nat.eqb_eq in Ek. replace (k - length s)%nat with 1%nat by lia. reflexivity.
  - apply Nat.eqb_neq in Ek. rewrite IH; rewrite ?app_length; cbn [length]; try lia.
    replace (k - length s)%nat with (Datatypes.S (k - (length s + 1)))%nat by lia.
    cbn [firstn]. rewrite <- app_assoc. reflexivity.
Qed.

Lemma run_no_break k : forall tr s,
  (k <= length s \/ length s + length tr < k)%nat ->
  run_until (list event) (break_at k) tr s = (s ++ tr, false).
Proof.
  induction tr as [|e r IH]; intros s H; cbn [run_until]; [rewrite app_nil_r; reflexivity|].
  unfold break_at at 1. destruct (Nat.eqb (length s + 1) k) eqn:Ek.
  - apply Nat.eqb_eq in Ek. cbn [length] in H. lia.
  - rewrite IH; [rewrite <- app_assoc; reflexivity|]. rewrite app_length. cbn [length] in *. lia.
Qed.

(** C16 break_prefix, as the property states it: returning Break from the k-th callback
    stops the walk after exactly the first k callbacks of the full trace. *)
Theorem break_prefix E v k :
  (1 <= k <= length (walk E v))%nat ->
  walkB (list event) E v (break_at k) [] = (firstn k (walk E v), true).
Proof.
  intro H. rewrite walkB_run_until, run_break_at; cbn [length]; try lia.
  rewrite Nat.sub_0_r. reflexivity.
Qed.

Theorem no_break_full E v :
  walkB (list event) E v (break_at 0) [] = (walk E v, false).
Proof. rewrite walkB_run_until, run_no_break; [reflexivity|]. left. cbn. lia. Qed.

(* ------------------------------------------------------------------ the mutating walk *)

Lemma combine_fst_snd {A B} (l : list (A * B)) : combine (map fst l) (map snd l) = l.
Proof. induction l as [|[a b] r IH]; cbn; [reflexivity|]. rewrite IH. reflexivity. Qed.

Lemma set_children_id v : set_children v (children v) = v.
Proof. destruct v; cbn; try reflexivity; rewrite combine_fst_snd; reflexivity. Qed.

Lemma fold_max_ge {A} (f : A -> nat) (l : list A) x :
  In x l -> (f x <= fold_right (fun y a => Nat.max (f y) a) 0 l)%nat.
Proof.
  induction l as [|y r IH]; [intros []|]. cbn [fold_right]. intros [H|H].
  - subst. apply Nat.le_max_l.
  - etransitivity; [apply IH, H|apply Nat.le_max_r].
Qed.

Lemma child_depth v c : In c (children v) -> (sv_depth c < sv_depth v)%nat.
Proof.
  destruct v; cbn [children sv_depth]; try (intros []; fail).
  - intros [H|[]]. subst. lia.
  - intro H. apply (fold_max_ge sv_depth) in H. lia.
  - intro H. apply (fold_max_ge sv_depth) in H. lia.
  - intro H. apply in_map_iff in H as ([k x] & Hx & Hin). cbn in Hx. subst x.
    apply (fold_max_ge (fun kv : str * sval => match kv with (_, x) => sv_depth x end)) in Hin. cbn in Hin. lia.
  - intro H. apply in_map_iff in H as ([k x] & Hx & Hin). cbn in Hx. subst x.
    apply (fold_max_ge (fun kv : str * sval => match kv with (_, x) => sv_depth x end)) in Hin. cbn in Hin. lia.
Qed.

Section Mut.
  Variable S : Type.
  Variable E : env.
  Notation run := (run_until S).

  Lemma nr_eta (cb : visitor_mut S) e n s :
    no_rewrite S cb -> cb e n s = (n, snd (fst (cb e n s)), snd (cb e n s)).
  Proof.
    intro H. specialize (H e n s). destruct (cb e n s) as [[a b] c]. cbn in *. subst. reflexivity.
  Qed.

  Lemma forget_at (cb : visitor_mut S) v e n s :
    sub v (e_path e) = Some n -> forget S cb v e s = (snd (fst (cb e n s)), snd (cb e n s)).
  Proof. unfold forget. intros ->. destruct (cb e n s) as [[a b] c]. reflexivity. Qed.

  Ltac cb_step cb v Hnr n s Hs :=
    match goal with |- context [cb ?e n s] =>
      rewrite (nr_eta cb e n s Hnr); rewrite (forget_at cb v e n s Hs); destruct (snd (cb e n s))
    end.

  Lemma no_rewrite_shift (cb : visitor_mut S) i : no_rewrite S cb -> no_rewrite S (fun e => cb (shift i e)).
  Proof. intros H e v s. apply H. Qed.

  Lemma forget_shift (cb : visitor_mut S) v i hc c :
    nth_error (kids E v) i = Some (hc, c) ->
    forall e s, forget S cb v (shift i e) s = forget S (fun e => cb (shift i e)) c e s.
  Proof.
    intros Hn e s. unfold forget. destruct e as [[ph h] p]. cbn [shift e_path e_phase e_hook fst snd].
    rewrite (sub_cons E v i p c hc Hn). reflexivity.
  Qed.

  Let P (v : sval) : Prop :=
    forall (cb : visitor_mut S) fuel s, no_rewrite S cb -> (sv_depth v < fuel)%nat ->
      walk_mut S fuel E cb v s =
      let (s', b) := run (forget S cb v) (walk E v) s in Some (v, s', b).

  Lemma mut_kids_noop v (cb : visitor_mut S) f :
    no_rewrite S cb ->
    forall l i s,
      (forall j hc c, nth_error l j = Some (hc, c) -> nth_error (kids E v) (i + j) = Some (hc, c)) ->
      Forall (fun hc => P (snd hc)) l ->
      (forall hc c, In (hc, c) l -> (sv_depth c < f)%nat) ->
      mut_kids S (walk_mut S f E) cb i l s =
      let (s', b) := run (forget S cb v) (walk_kids E i l) s in Some (map snd l, s', b).
  Proof.
    intros Hnr. induction l as [|[h c] r IH]; intros i s Hpos HP Hd.
    - reflexivity.
    - inversion HP as [|? ? Pc HPr]; subst. cbn [snd] in Pc.
      assert (nth_error (kids E v) i = Some (h, c)) as Hi.
      { rewrite <- (Nat.add_0_r i). apply Hpos. reflexivity. }
      assert (sub v [i] = Some c) as Hsub by (rewrite (sub_cons E v i [] c h Hi); reflexivity).
      assert (forall s0, walk_mut S f E (fun e => cb (shift i e)) c s0 =
                         let (s', b) := run (forget S cb v) (map (shift i) (walk E c)) s0 in Some (c, s', b)) as Hrec.
      { intro s0. rewrite (Pc (fun e => cb (shift i e)) f s0 (no_rewrite_shift cb i Hnr)).
        - rewrite run_until_shift. rewrite (run_until_ext S _ _ (walk E c) (forget_shift cb v i h c Hi)). reflexivity.
        - apply (Hd h c). left; reflexivity. }
      assert (forall s0, mut_kids S (walk_mut S f E) cb (Datatypes.S i) r s0 =
                         let (s', b) := run (forget S cb v) (walk_kids E (Datatypes.S i) r) s0 in Some (map snd r, s', b)) as Hrest.
      { intro s0. apply IH; [|exact HPr|].
        - intros j hc c' Hn. replace (Datatypes.S i + j)%nat with (i + Datatypes.S j)%nat by lia. apply Hpos. exact Hn.
        - intros hc c' Hin. apply (Hd hc c'). right; exact Hin. }
      cbn [mut_kids map snd]. rewrite walk_kids_cons, run_until_app.
      destruct h as [h|].
      + rewrite wrap_some. cbn [hookM run_until].
        cb_step cb v Hnr c s Hsub; [reflexivity|].
        rewrite Hrec, run_until_app.
        match goal with |- context [run (forget S cb v) (map (shift i) (walk E c)) ?s0] =>
          destruct (run (forget S cb v) (map (shift i) (walk E c)) s0) as [s2 [|]]; [reflexivity|] end.
        cbn [run_until].
        cb_step cb v Hnr c s2 Hsub; [reflexivity|].
        rewrite Hrest.
        match goal with |- context [run (forget S cb v) (walk_kids E (Datatypes.S i) r) ?s0] =>
          destruct (run (forget S cb v) (walk_kids E (Datatypes.S i) r) s0) as [s4 b4] end.
        reflexivity.
      + rewrite wrap_none. cbn [hookM]. rewrite Hrec.
        destruct (run (forget S cb v) (map (shift i) (walk E c)) s) as [s2 [|]]; [reflexivity|].
        rewrite Hrest.
        destruct (run (forget S cb v) (walk_kids E (Datatypes.S i) r) s2) as [s4 b4]. reflexivity.
  Qed.

  Lemma walk_mut_noop_all : forall v, P v.
  Proof.
    apply (sval_kids_ind E). intros v IH cb fuel s Hnr Hd.
    destruct fuel as [|f]; [lia|]. cbn [walk_mut].
    assert (forall s0, mut_kids S (walk_mut S f E) cb 0 (kids E v) s0 =
                       let (s', b) := run (forget S cb v) (walk_kids E 0 (kids E v)) s0 in
                       Some (map snd (kids E v), s', b)) as Hk.
    { intro s0. apply (mut_kids_noop v cb f Hnr); [intros j hc c Hn; exact Hn|exact IH|].
      intros hc c Hin. assert (In c (children v)) as Hc.
      { rewrite <- (children_kids E v). apply in_map_iff. exists (hc, c). auto. }
      apply child_depth in Hc. lia. }
    rewrite walk_eq.
    destruct (type_hook E v) as [h|] eqn:Eh.
    - rewrite wrap_some. cbn [hookM run_until].
      cb_step cb v Hnr v s (eq_refl (Some v)); [reflexivity|].
      rewrite Eh, Hk, run_until_app.
      match goal with |- context [run (forget S cb v) (walk_kids E 0 (kids E v)) ?s0] =>
        destruct (run (forget S cb v) (walk_kids E 0 (kids E v)) s0) as [s2 [|]] end.
      + rewrite children_kids, set_children_id. reflexivity.
      + rewrite children_kids, set_children_id. cbn [hookM run_until].
        cb_step cb v Hnr v s2 (eq_refl (Some v)); reflexivity.
    - rewrite wrap_none. cbn [hookM]. rewrite Eh, Hk.
      destruct (run (forget S cb v) (walk_kids E 0 (kids E v)) s) as [s2 [|]];
        rewrite children_kids, set_children_id; reflexivity.
  Qed.

  (** C16 mut_same_trace + noop_identity: a mutating walk whose callbacks change nothing
      returns the tree unchanged and makes exactly the callbacks of the read-only walk (same
      state, same Break behaviour), for every fuel above the depth of the tree. *)
  Theorem walk_mut_noop v (cb : visitor_mut S) fuel s :
    no_rewrite S cb -> (sv_depth v < fuel)%nat ->
    walk_mut S fuel E cb v s =
    let (s', b) := walkB S E v (forget S cb v) s in Some (v, s', b).
  Proof. intros Hnr Hd. rewrite walkB_run_until. apply walk_mut_noop_all; assumption. Qed.
End Mut.

(* ------------------------------------------------------------------ every event is about a node *)

Lemma walk_paths_valid E : forall v e, In e (walk E v) -> exists n, sub v (e_path e) = Some n.
Proof.
  apply (sval_kids_ind E (fun v => forall e, In e (walk E v) -> exists n, sub v (e_path e) = Some n)).
  intros v IH e. rewrite walk_eq.
  assert (forall l i,
            (forall j hc c, nth_error l j = Some (hc, c) -> nth_error (kids E v) (i + j) = Some (hc, c)) ->
            Forall (fun hc => forall e, In e (walk E (snd hc)) -> exists n, sub (snd hc) (e_path e) = Some n) l ->
            In e (walk_kids E i l) -> exists n, sub v (e_path e) = Some n) as Hk.
  { induction l as [|[h c] r IHr]; intros i Hpos HF Hin; [destruct Hin|].
    inversion HF as [|? ? Hc HFr]; subst. cbn [snd] in Hc.
    assert (nth_error (kids E v) i = Some (h, c)) as Hi by (rewrite <- (Nat.add_0_r i); apply Hpos; reflexivity).
    rewrite walk_kids_cons in Hin. apply in_app_iff in Hin as [Hin|Hin].
    - assert (In e (map (shift i) (walk E c)) \/ e_path e = [i]) as [Hs|Hp].
      { destruct h as [h|]; [|left; exact Hin]. rewrite wrap_some in Hin.
        destruct Hin as [He|Hin]; [right; subst; reflexivity|].
        apply in_app_iff in Hin as [Hin|[He|[]]]; [left; exact Hin|right; subst; reflexivity]. }
      + apply in_map_iff in Hs as (e' & He & Hin'). subst e. destruct (Hc e' Hin') as [n Hn].
        exists n. destruct e' as [[ph hh] p]. cbn [shift e_path e_phase e_hook fst snd] in *.
        rewrite (sub_cons E v i p c h Hi). exact Hn.
      + exists c. rewrite Hp. rewrite (sub_cons E v i [] c h Hi). reflexivity.
    - apply (IHr (Datatypes.S i)); [|exact HFr|exact Hin].
      intros j hc c' Hn. replace (Datatypes.S i + j)%nat with (i + Datatypes.S j)%nat by lia. apply Hpos. exact Hn. }
  intro Hin.
  assert (In e (walk_kids E 0 (kids E v)) \/ e_path e = []) as [Hs|Hp].
  { destruct (type_hook E v) as [h|]; [|left; exact Hin]. rewrite wrap_some in Hin.
    destruct Hin as [He|Hin]; [right; subst; reflexivity|].
    apply in_app_iff in Hin as [Hin|[He|[]]]; [left; exact Hin|right; subst; reflexivity]. }
  - apply (Hk (kids E v) 0%nat); [intros j hc c Hn; exact Hn|exact IH|exact Hs].
  - exists v. rewrite Hp. reflexivity.
Qed.

Lemma run_until_ext_in S (cb1 cb2 : visitor S) tr :
  (forall e, In e tr -> forall s, cb1 e s = cb2 e s) -> forall s, run_until S cb1 tr s = run_until S cb2 tr s.
Proof.
  induction tr as [|e r IH]; intros H s; cbn [run_until]; [reflexivity|].
  rewrite (H e (or_introl eq_refl)). destruct (cb2 e s) as [s1 [|]]; [reflexivity|].
  apply IH. intros e' Hin. apply H. right; exact Hin.
Qed.

(** With recording visitors: the mutating walk that changes nothing makes the same sequence
    of callbacks as the read-only walk, completes, and returns an equal tree. *)
Theorem mut_same_trace E v :
  walk_mut (list event) (Datatypes.S (sv_depth v)) E (break_at_mut 0) v [] = Some (v, walk E v, false).
Proof.
  rewrite walk_mut_noop; [|intros e n s; reflexivity|lia].
  rewrite walkB_run_until.
  rewrite (run_until_ext_in _ (forget (list event) (break_at_mut 0) v) (fun e s => (s ++ [e], false))).
  - assert (forall tr s, run_until (list event) (fun e s0 => (s0 ++ [e], false)) tr s = (s ++ tr, false)) as H.
    { induction tr as [|e r IH]; intro s; cbn [run_until]; [rewrite app_nil_r; reflexivity|].
      rewrite IH, <- app_assoc. reflexivity. }
    rewrite H. reflexivity.
  - intros e Hin s. destruct (walk_paths_valid E v e Hin) as [n Hn].
    rewrite (forget_at _ _ v e n s Hn). unfold break_at_mut. cbn. f_equal.
    destruct (length s); reflexivity.
Qed.

(* ------------------------------------------------------------------ coverage under wf_visit *)

Definition sval_tname (v : sval) : option str :=
  match v with VStruct tn _ _ | VEnum tn _ _ _ => Some tn | _ => None end.

(** Every node of one of the four kinds is entered with its hook. *)
Theorem node_entered E v p n tn h :
  node_hook_ok E (tn, h) = true -> sub v p = Some n -> sval_tname n = Some tn ->
  In (h, p) (pres (walk E v)).
Proof.
  intros Hok Hs Ht. apply walk_pre_spec. left. exists n. split; [exact Hs|].
  unfold node_hook_ok in Hok. cbn [fst snd] in Hok.
  destruct (lookup_name E tn) as [d|] eqn:El; [|discriminate].
  destruct (d_visit d) as [h'|] eqn:Ev; [|discriminate]. apply str_eqb_eq in Hok. subst h'.
  destruct n; cbn in Ht; try discriminate; inversion Ht; subst; cbn [type_hook]; rewrite El; exact Ev.
Qed.

Lemma kids_from_nth fl sh k c : forall args i0 j,
  nth_error args j = Some (k, c) ->
  nth_error (kids_from fl sh i0 args) j = Some (arg_hook fl sh (i0 + j) k, c).
Proof.
  induction args as [|[k0 c0] r IH]; intros i0 j Hn; [destruct j; discriminate|].
  destruct j as [|j]; cbn [kids_from nth_error] in *.
  - inversion Hn; subst. rewrite Nat.add_0_r. reflexivity.
  - rewrite (IH (Datatypes.S i0) j Hn). replace (Datatypes.S i0 + j)%nat with (i0 + Datatypes.S j)%nat by lia. reflexivity.
Qed.

(** A table name sitting in a position of the relation spec is entered as a relation. *)
Theorem relation_entered E v q par i k c tn vn args :
  position_ok E (tn, vn, k) = true -> sub v q = Some par ->
  (par = VStruct tn SNamed args /\ vn = None \/ exists vn', par = VEnum tn vn' SNamed args /\ vn = Some vn') ->
  nth_error args i = Some (k, c) ->
  In (relation_hook, q ++ [i]) (pres (walk E v)).
Proof.
  intros Hok Hs Hpar Hn. apply walk_pre_spec. right. exists q, i, par, c.
  split; [reflexivity|]. split; [exact Hs|].
  unfold position_ok, position_hook in Hok.
  destruct (find_field (decl_fields E tn vn) k) as [f|] eqn:Ef; [|discriminate].
  destruct (f_visit f) as [h|] eqn:Ev; [|discriminate]. apply str_eqb_eq in Hok. subst h.
  destruct Hpar as [[Hp Hv]|(vn' & Hp & Hv)]; subst par vn; cbn [kids];
    rewrite (kids_from_nth _ SNamed k c args 0 i Hn); unfold arg_hook; rewrite Ef, Ev; reflexivity.
Qed.

Section Wf.
  Variables (E : env) (roots : list str) (required : list position) (mo : list (str * str)).
  Hypothesis Hwf : wf_visit E roots required mo = true.

  Lemma wf_parts :
    forallb (node_hook_ok E) node_hooks = true /\ forallb (position_ok E) required = true /\
    hooks_disjoint E = true.
  Proof.
    unfold wf_visit in Hwf. repeat (apply andb_true_iff in Hwf as [Hwf ?]). auto.
  Qed.

  Theorem wf_node_entered v p n tn h :
    In (tn, h) node_hooks -> sub v p = Some n -> sval_tname n = Some tn -> In (h, p) (pres (walk E v)).
  Proof.
    intros Hin. destruct wf_parts as (Hn & _ & _). rewrite forallb_forall in Hn.
    apply node_entered. apply Hn. exact Hin.
  Qed.

  Theorem wf_relation_entered v q par i k c tn vn args :
    In (tn, vn, k) required -> sub v q = Some par ->
    (par = VStruct tn SNamed args /\ vn = None \/ exists vn', par = VEnum tn vn' SNamed args /\ vn = Some vn') ->
    nth_error args i = Some (k, c) ->
    In (relation_hook, q ++ [i]) (pres (walk E v)).
  Proof.
    intros Hin. destruct wf_parts as (_ & Hp & _). rewrite forallb_forall in Hp.
    apply relation_entered. apply Hp. exact Hin.
  Qed.

  Theorem wf_pre_nodup v : NoDup (pres (walk E v)).
  Proof. destruct wf_parts as (_ & _ & Hd). apply walk_pre_nodup. exact Hd. Qed.
End Wf.

(** Boolean non-membership, for witnesses decided by evaluation. *)
Lemma not_in_pres_b (x : str * path) (l : list (str * path)) :
  existsb (fun y => str_eqb (fst y) (fst x) && path_eqb (snd y) (snd x)) l = false -> ~ In x l.
Proof.
  intros H Hin. assert (existsb (fun y => str_eqb (fst y) (fst x) && path_eqb (snd y) (snd x)) l = true) as Ht.
  { apply existsb_exists. exists x. split; [exact Hin|]. rewrite str_eqb_refl, path_eqb_refl. reflexivity. }
  congruence.
Qed.
