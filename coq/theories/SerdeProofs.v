(** Proofs about the serde model (C17): the round-trip theorem for every environment that
    passes the boolean checker [wf_serde], injectivity of [ser] on well-typed values, and
    soundness of the boolean type checker. *)
From SqlV Require Import Base Univ Serde.
From Coq Require Import ZArith Arith.

(* ------------------------------------------------------------------ "for all sufficient fuel" *)

Definition ev (P : nat -> Prop) : Prop := exists f0, forall f, (f0 <= f)%nat -> P f.

Lemma ev_const (A : Prop) : A -> ev (fun _ => A).
Proof. intro H. exists O. auto. Qed.

Lemma ev_and P Q : ev P -> ev Q -> ev (fun f => P f /\ Q f).
Proof.
  intros [a Ha] [b Hb]. exists (Nat.max a b). intros f Hf. split; [apply Ha|apply Hb]; lia.
Qed.

Lemma ev_mono (P Q : nat -> Prop) : (forall f, P f -> Q f) -> ev P -> ev Q.
Proof. intros H [a Ha]. exists a. intros f Hf. apply H, Ha, Hf. Qed.

Lemma ev_S (P Q : nat -> Prop) : (forall f, P f -> Q (S f)) -> ev P -> ev Q.
Proof.
  intros H [a Ha]. exists (S a). intros f Hf. destruct f as [|f]; [lia|]. apply H, Ha. lia.
Qed.

(* ------------------------------------------------------------------ small facts *)

Lemma mem_In n l : In n l -> mem n l = true.
Proof.
  intro H. unfold mem. apply existsb_exists. exists n. split; [exact H|apply str_eqb_refl].
Qed.

Lemma find_variant_In vs vn var : find_variant vs vn = Some var -> In var vs.
Proof.
  induction vs as [|a r IH]; cbn [find_variant]; [discriminate|].
  destruct (str_eqb (v_name a) vn); intro H.
  - inversion H; subst. left; reflexivity.
  - right. apply IH, H.
Qed.

Lemma lookup_forall (P : decl -> bool) (E0 : env) n d :
  forallb (fun kd => P (snd kd)) E0 = true -> lookup E0 n = Some d -> P d = true.
Proof.
  induction E0 as [|[k d0] r IH]; cbn [lookup forallb]; [discriminate|].
  intros H L. apply andb_true_iff in H as [H1 H2].
  destruct (str_eqb k n).
  - inversion L; subst. exact H1.
  - apply IH; assumption.
Qed.

Lemma de_opt_nonnull f E t j :
  j <> JNull -> de (S f) E (TOpt t) j = option_map VSome (de f E t j).
Proof. intro H. destruct j; try reflexivity. contradiction. Qed.

Lemma de_fields_tuple rec fl l :
  length fl <> 1%nat ->
  de_fields rec (FTuple fl) (JArr l) =
  zip_opt (fun f x => option_map (fun v => ([], v)) (rec (f_ty f) x)) fl l.
Proof. destruct fl as [|a [|b r]]; cbn; intros H; try reflexivity. contradiction. Qed.

Lemma shape_of_tuple fl : length fl <> 1%nat -> shape_of (FTuple fl) = STuple.
Proof. destruct fl as [|a [|b r]]; cbn; intros H; try reflexivity. contradiction. Qed.

Lemma assoc_ser_kv args k v :
  nodup_names (map fst args) = true -> In (k, v) args ->
  assoc (map ser_kv args) k = Some (ser v).
Proof.
  induction args as [|[k0 v0] r IH]; cbn [map fst nodup_names assoc ser_kv In]; [intros _ []|].
  intros H Hin. apply andb_true_iff in H as [H1 H2].
  destruct Hin as [Heq|Hin].
  - inversion Heq; subst. rewrite str_eqb_refl. reflexivity.
  - destruct (str_eqb k0 k) eqn:Ek.
    + apply str_eqb_eq in Ek. subst k0.
      assert (mem k (map fst r) = true) as Hm.
      { apply mem_In. change k with (fst (k, v)). apply in_map. exact Hin. }
      rewrite Hm in H1. discriminate.
    + apply IH; assumption.
Qed.

(* ------------------------------------------------------------------ never_null *)

Lemma nn_sound E : forall fuel t v,
  nn fuel E t = true -> has_type E t v -> ser v <> JNull.
Proof.
  induction fuel as [|f IH]; intros t v Hn Ht; [discriminate|].
  destruct t as [p|t'|t'|t'|ts|n|n]; cbn [nn] in Hn.
  - destruct p; try discriminate; inversion Ht; subst; cbn [ser]; discriminate.
  - discriminate.
  - inversion Ht; subst. cbn [ser]. discriminate.
  - inversion Ht; subst. eapply IH; eassumption.
  - inversion Ht; subst. cbn [ser]. discriminate.
  - inversion Ht; subst.
    + (* struct *)
      match goal with
      | Hl : lookup E n = Some _, Hb : d_body _ = BStruct _, Hf : has_fields _ _ _ _ |- _ =>
          rewrite Hl in Hn; rewrite Hb in Hn; rename Hf into Hfs
      end.
      destruct fs as [|fl|fl].
      * discriminate.
      * destruct fl as [|fd [|fd2 r]].
        -- inversion Hfs; subst. cbn. discriminate.
        -- inversion Hfs; subst.
           ++ cbn. eapply IH; eassumption.
           ++ match goal with Hlen : length [fd] <> 1%nat |- _ => cbn in Hlen; contradiction end.
        -- inversion Hfs; subst. cbn. discriminate.
      * inversion Hfs; subst. cbn. discriminate.
    + (* enum *)
      cbn [ser]. destruct sh; discriminate.
  - discriminate.
Qed.

(* ------------------------------------------------------------------ round trip *)

Section RoundTrip.
  Variable E : env.
  Hypothesis Hwf : wf_serde E = true.

  Lemma lookup_decl_ok n d : lookup E n = Some d -> decl_ok E d = true.
  Proof. apply (lookup_forall (decl_ok E)). exact Hwf. Qed.

  Lemma decl_body_ok d : decl_ok E d = true -> body_ok E (d_body d) = true.
  Proof. unfold decl_ok. intro H. apply andb_true_iff in H as [_ H]. exact H. Qed.

  Let P_type (t : ty) (v : sval) : Prop :=
    ty_ok E t = true -> ev (fun f => de f E t (ser v) = Some v).
  Let P_all (t : ty) (vs : list sval) : Prop :=
    ty_ok E t = true -> ev (fun f => map_opt (de f E t) (map ser vs) = Some vs).
  Let P_types (ts : list ty) (vs : list sval) : Prop :=
    forallb (ty_ok E) ts = true -> ev (fun f => zip_opt (de f E) ts (map ser vs) = Some vs).
  Let P_fields (fs : fields) (sh : shape) (args : list (str * sval)) : Prop :=
    fields_ok E fs = true ->
    sh = shape_of fs /\ (fs = FUnit -> args = []) /\
    ev (fun f => de_fields (de f E) fs (ser_body sh (map ser_kv args)) = Some args).
  Let P_args (b : bool) (fs : list field) (args : list (str * sval)) : Prop :=
    forallb (field_ok E) fs = true ->
    (b = false ->
       ev (fun f => zip_opt (fun fd x => option_map (fun v => ([], v)) (de f E (f_ty fd) x))
                            fs (map snd (map ser_kv args)) = Some args)) /\
    (b = true ->
       map fst args = map f_name fs /\
       forall kvs, (forall k v, In (k, v) args -> assoc kvs k = Some (ser v)) ->
         ev (fun f => map_opt (fun fd => option_map (fun v => (f_name fd, v))
                                            (de_named_field (de f E) kvs fd)) fs = Some args)).

  Lemma roundtrip_mutual :
    (forall t v, has_type E t v -> P_type t v) /\
    (forall t vs, has_type_all E t vs -> P_all t vs) /\
    (forall ts vs, has_types E ts vs -> P_types ts vs) /\
    (forall fs sh args, has_fields E fs sh args -> P_fields fs sh args) /\
    (forall b fs args, has_args E b fs args -> P_args b fs args).
  Proof.
    apply has_type_mutind; subst P_type P_all P_types P_fields P_args; cbv beta.
    - (* bool *) intros b _. exists 1%nat. intros [|f] Hf; [lia|]. reflexivity.
    - (* uint *) intros bits z Hr _. exists 1%nat. intros [|f] Hf; [lia|]. cbn. rewrite Hr. reflexivity.
    - (* sint *) intros bits z Hr _. exists 1%nat. intros [|f] Hf; [lia|]. cbn. rewrite Hr. reflexivity.
    - (* char *) intros c _. exists 1%nat. intros [|f] Hf; [lia|]. reflexivity.
    - (* str *) intros s _. exists 1%nat. intros [|f] Hf; [lia|]. reflexivity.
    - (* unit *) intros _. exists 1%nat. intros [|f] Hf; [lia|]. reflexivity.
    - (* none *) intros t _. exists 1%nat. intros [|f] Hf; [lia|]. reflexivity.
    - (* some *)
      intros t v Ht IH Hok. cbn [ty_ok] in Hok. apply andb_true_iff in Hok as [Hnn Hok].
      assert (ser v <> JNull) as Hne by (eapply nn_sound; eassumption).
      eapply ev_S; [|apply IH, Hok]. intros f Hf. cbn [ser].
      rewrite de_opt_nonnull by exact Hne. rewrite Hf. reflexivity.
    - (* vec *)
      intros t vs _ IH Hok. cbn [ty_ok] in Hok.
      eapply ev_S; [|apply IH, Hok]. intros f Hf. cbn [ser de]. rewrite Hf. reflexivity.
    - (* box *)
      intros t v _ IH Hok. cbn [ty_ok] in Hok.
      eapply ev_S; [|apply IH, Hok]. intros f Hf. cbn [de]. exact Hf.
    - (* tuple *)
      intros ts vs _ IH Hok. cbn [ty_ok] in Hok.
      eapply ev_S; [|apply IH, Hok]. intros f Hf. cbn [ser de]. rewrite Hf. reflexivity.
    - (* struct *)
      intros n d fs sh args Hl Hb _ IH _.
      pose proof (decl_body_ok d (lookup_decl_ok n d Hl)) as Hbo. rewrite Hb in Hbo. cbn [body_ok] in Hbo.
      destruct (IH Hbo) as (Hsh & _ & Hev).
      eapply ev_S; [|exact Hev]. intros f Hf. cbn [ser de]. rewrite Hl, Hb.
      change (fun kv : str * sval => match kv with (k, x) => (k, ser x) end) with ser_kv.
      rewrite Hf. cbn [option_map]. rewrite Hsh. reflexivity.
    - (* enum *)
      intros n d vs var sh args Hl Hb Hfv _ IH _.
      pose proof (decl_body_ok d (lookup_decl_ok n d Hl)) as Hbo. rewrite Hb in Hbo. cbn [body_ok] in Hbo.
      apply andb_true_iff in Hbo as [Hvs _].
      pose proof (find_variant_In _ _ _ Hfv) as Hin.
      rewrite forallb_forall in Hvs. specialize (Hvs var Hin). unfold variant_ok in Hvs.
      apply andb_true_iff in Hvs as [_ Hfo].
      destruct (IH Hfo) as (Hsh & Hunit & Hev).
      destruct (v_fields var) as [|fl|fl] eqn:Efs.
      + (* unit variant *)
        cbn [shape_of] in Hsh. subst sh. rewrite (Hunit eq_refl).
        exists 1%nat. intros [|f] Hf; [lia|]. cbn [ser de]. rewrite Hl, Hb, Hfv, Efs. reflexivity.
      + eapply ev_S; [|exact Hev]. intros f Hf. cbn [ser].
        change (fun kv : str * sval => match kv with (k, x) => (k, ser x) end) with ser_kv.
        assert (sh <> SUnit) as Hns.
        { rewrite Hsh. destruct fl as [|a [|b r]]; cbn; discriminate. }
        assert (forall X Y : json, match sh with SUnit => X | _ => Y end = Y) as Hm
          by (intros; destruct sh; try reflexivity; contradiction).
        rewrite Hm. cbn [de]. rewrite Hl, Hb, Hfv, Efs. cbn [is_unit_fields].
        rewrite Hf. cbn [option_map]. rewrite Hsh. reflexivity.
      + eapply ev_S; [|exact Hev]. intros f Hf. cbn [ser].
        change (fun kv : str * sval => match kv with (k, x) => (k, ser x) end) with ser_kv.
        cbn [shape_of] in Hsh. subst sh. cbn [de]. rewrite Hl, Hb, Hfv, Efs. cbn [is_unit_fields].
        rewrite Hf. reflexivity.
    - (* all nil *) intros t _. exists O; intros ? _; reflexivity.
    - (* all cons *)
      intros t v vs _ IH1 _ IH2 Hok.
      eapply ev_mono; [|apply ev_and; [apply IH1, Hok|apply IH2, Hok]].
      intros f [H1 H2]. cbn [map map_opt]. rewrite H1, H2. reflexivity.
    - (* types nil *) intros _. exists O; intros ? _; reflexivity.
    - (* types cons *)
      intros t ts v vs _ IH1 _ IH2 Hok. cbn [forallb] in Hok. apply andb_true_iff in Hok as [Ho1 Ho2].
      eapply ev_mono; [|apply ev_and; [apply IH1, Ho1|apply IH2, Ho2]].
      intros f [H1 H2]. cbn [map zip_opt]. rewrite H1, H2. reflexivity.
    - (* fields unit *)
      intros _. split; [reflexivity|]. split; [reflexivity|]. exists O; intros ? _; reflexivity.
    - (* newtype *)
      intros fd v _ IH Hok. cbn [fields_ok forallb] in Hok.
      apply andb_true_iff in Hok as [Hok _]. unfold field_ok in Hok. apply andb_true_iff in Hok as [_ Hok].
      split; [reflexivity|]. split; [discriminate|].
      eapply ev_mono; [|apply IH, Hok]. intros f Hf. cbn. rewrite Hf. reflexivity.
    - (* tuple *)
      intros fl args Hlen _ IH Hok. cbn [fields_ok] in Hok.
      destruct (IH Hok) as [Hev _].
      split; [symmetry; apply shape_of_tuple, Hlen|]. split; [discriminate|].
      eapply ev_mono; [|apply Hev; reflexivity]. intros f Hf. cbn [ser_body].
      rewrite de_fields_tuple by exact Hlen. exact Hf.
    - (* named *)
      intros fl args _ IH Hok. cbn [fields_ok] in Hok. apply andb_true_iff in Hok as [Hok Hnd].
      destruct (IH Hok) as [_ Hnamed]. destruct (Hnamed eq_refl) as [Hnames Hev].
      split; [reflexivity|]. split; [discriminate|].
      cbn [ser_body de_fields]. apply Hev.
      intros k v Hin. apply assoc_ser_kv; [|exact Hin]. rewrite Hnames. exact Hnd.
    - (* args nil *)
      intros b _. split; intros _.
      + exists O; intros ? _; reflexivity.
      + split; [reflexivity|]. intros kvs _. exists O; intros ? _; reflexivity.
    - (* args cons *)
      intros b fd fs v args _ IH1 _ IH2 Hok. cbn [forallb] in Hok. apply andb_true_iff in Hok as [Ho1 Ho2].
      unfold field_ok in Ho1. apply andb_true_iff in Ho1 as [_ Ho1].
      destruct (IH2 Ho2) as [IHf IHt].
      split; intros Hb; subst b.
      + eapply ev_mono; [|apply ev_and; [apply IH1, Ho1|apply IHf; reflexivity]].
        intros f [H1 H2]. cbn [map snd ser_kv zip_opt]. rewrite H1. cbn [option_map]. rewrite H2. reflexivity.
      + destruct (IHt eq_refl) as [Hnames Hev]. split.
        * cbn [map fst]. rewrite Hnames. reflexivity.
        * intros kvs Hk.
          eapply ev_mono; [|apply ev_and; [apply IH1, Ho1|apply (Hev kvs)]].
          -- intros f [H1 H2]. cbn [map_opt]. unfold de_named_field at 1.
             rewrite (Hk (f_name fd) v) by (left; reflexivity).
             rewrite H1. cbn [option_map]. rewrite H2. reflexivity.
          -- intros k v0 Hin. apply Hk. right. exact Hin.
  Qed.

  (** C17, the round trip: deserialising the serialisation of any well-typed value at its
      type gives the value back, for every sufficient fuel. *)
  Theorem roundtrip : forall t v,
    ty_ok E t = true -> has_type E t v ->
    exists f0, forall f, (f0 <= f)%nat -> de f E t (ser v) = Some v.
  Proof.
    intros t v Hok Ht. destruct roundtrip_mutual as [H _]. exact (H t v Ht Hok).
  Qed.

  (** Two well-typed values of the same type with the same document are equal
      (no information is lost by [ser]). *)
  Theorem ser_injective : forall t v1 v2,
    ty_ok E t = true -> has_type E t v1 -> has_type E t v2 -> ser v1 = ser v2 -> v1 = v2.
  Proof.
    intros t v1 v2 Hok H1 H2 Heq.
    destruct (roundtrip t v1 Hok H1) as [a Ha]. destruct (roundtrip t v2 Hok H2) as [b Hb].
    pose proof (Ha (Nat.max a b) (Nat.le_max_l a b)) as E1.
    pose proof (Hb (Nat.max a b) (Nat.le_max_r a b)) as E2.
    rewrite Heq in E1. rewrite E1 in E2. inversion E2. reflexivity.
  Qed.
End RoundTrip.

(** Equal trees serialise to equal documents: [ser] is a function of the value alone. *)
Theorem ser_functional : forall v1 v2 : sval, v1 = v2 -> ser v1 = ser v2.
Proof. intros v1 v2 H. rewrite H. reflexivity. Qed.

(* ------------------------------------------------------------------ the checker is sound *)

Lemma zip_all_args E rec named fs args :
  (forall t v, rec t v = true -> has_type E t v) ->
  check_args rec named fs args = true -> has_args E named fs args.
Proof.
  intros Hrec. unfold check_args. revert args.
  induction fs as [|f r IH]; intros [|[k v] args]; cbn [zip_all]; intro H; try discriminate.
  - constructor.
  - apply andb_true_iff in H as [H1 H2]. apply andb_true_iff in H1 as [Hk Hv].
    cbn [fst snd] in Hk, Hv. apply str_eqb_eq in Hk. subst k.
    constructor; [apply Hrec, Hv|apply IH, H2].
Qed.

Lemma check_fields_sound E rec fs sh args :
  (forall t v, rec t v = true -> has_type E t v) ->
  check_fields rec fs sh args = true -> has_fields E fs sh args.
Proof.
  intros Hrec H. destruct fs as [|fl|fl], sh; cbn [check_fields] in H; try discriminate.
  - destruct args; [constructor|discriminate].
  - destruct fl as [|f [|g r]]; discriminate.
  - destruct fl as [|f [|g r]]; try discriminate.
    apply (zip_all_args E rec false [f] args Hrec) in H.
    inversion H; subst.
    match goal with Hr : has_args _ _ [] _ |- _ => inversion Hr; subst end.
    constructor. assumption.
  - destruct fl as [|f [|g r]].
    + apply andb_true_iff in H as [_ H]. constructor; [cbn; discriminate|].
      eapply zip_all_args; eassumption.
    + cbn in H. discriminate.
    + apply andb_true_iff in H as [_ H]. constructor; [cbn; discriminate|].
      eapply zip_all_args; eassumption.
  - destruct fl as [|f [|g r]]; discriminate.
  - constructor. eapply zip_all_args; eassumption.
Qed.

Theorem check_type_sound E : forall fuel t v, check_type fuel E t v = true -> has_type E t v.
Proof.
  induction fuel as [|f IH]; intros t v H; [discriminate|].
  destruct t as [p|t'|t'|t'|ts|n|n]; cbn [check_type] in H.
  - destruct p; destruct v; try discriminate; constructor; assumption.
  - destruct v; try discriminate; constructor. apply IH, H.
  - destruct v; try discriminate. constructor.
    induction vs as [|x r IHr]; [constructor|].
    cbn [forallb] in H. apply andb_true_iff in H as [H1 H2].
    constructor; [apply IH, H1|apply IHr, H2].
  - constructor. apply IH. destruct v; exact H.
  - destruct v; try discriminate. constructor.
    revert vs H. induction ts as [|t r IHr]; intros [|x xs] H; cbn [zip_all] in H; try discriminate.
    + constructor.
    + apply andb_true_iff in H as [H1 H2]. constructor; [apply IH, H1|apply IHr, H2].
  - destruct v; try discriminate.
    + destruct (lookup E n) as [d|] eqn:El; [|discriminate].
      apply andb_true_iff in H as [Hn H]. apply str_eqb_eq in Hn. subst tn.
      destruct (d_body d) as [fs|vs] eqn:Eb; [|discriminate].
      eapply HT_struct; try eassumption.
      eapply check_fields_sound; [|exact H]. exact (IH).
    + destruct (lookup E n) as [d|] eqn:El; [|discriminate].
      apply andb_true_iff in H as [Hn H]. apply str_eqb_eq in Hn. subst tn.
      destruct (d_body d) as [fs|vs] eqn:Eb; [discriminate|].
      destruct (find_variant vs vn) as [var|] eqn:Ev; [|discriminate].
      assert (v_name var = vn) as Hvn.
      { clear -Ev. induction vs as [|a r IHr]; cbn [find_variant] in Ev; [discriminate|].
        destruct (str_eqb (v_name a) vn) eqn:Ea.
        - inversion Ev; subst. apply str_eqb_eq, Ea.
        - apply IHr, Ev. }
      subst vn. eapply HT_enum; try eassumption.
      eapply check_fields_sound; [|exact H]. exact IH.
  - destruct v; discriminate.
Qed.
