(** Token-stream level theorems of the lexer model: totality (fuel adequacy, no panic),
    tiling, true positions, strict monotonicity, suffix re-lexing, error positions. *)
Require Import SqlV.Base SqlV.Lexer SqlV.LexerProofs.
From Coq Require Import ZArith ZifyBool ZifyN ZifyNat Arith.
Local Open Scope N_scope.

Section Tiling.
  Variable d : dialect.
  Variable u : uni.
  Variable unesc : bool.

  Notation next := (next_token d u unesc).
  Notation tok_from := (tokenize_from d u unesc).

  Lemma firstn_consumed (c r : str) : firstn (consumed_len (c ++ r) r) (c ++ r) = c.
  Proof. unfold consumed_len. rewrite app_length.
    replace (length c + length r - length r)%nat with (length c + 0)%nat by lia.
    rewrite firstn_app_2. cbn. apply app_nil_r. Qed.

  (** [Tiles p l ts cs]: from position [p], input [l] splits into the non-empty chunks [cs],
      chunk i being exactly what [next_token] consumes for token i, located at the position
      of its first character. *)
  Inductive Tiles : loc -> str -> list (tok * loc) -> list str -> Prop :=
  | Tiles_nil p : Tiles p [] [] []
  | Tiles_cons p l t r c ts cs :
      next l = Ok (Some (t, r)) -> l = c ++ r -> c <> [] ->
      Tiles (advance p c) r ts cs -> Tiles p l ((t, p) :: ts) (c :: cs).

  (** Soundness of the executable tokenizer w.r.t. [Tiles]. *)
  Theorem tokenize_from_tiles : forall fuel p l ts,
    tok_from fuel p l = LexOk ts -> exists cs, Tiles p l ts cs.
  Proof.
    induction fuel as [|f IH]; intros p l ts; cbn [tokenize_from]; [discriminate|].
    pose proof (next_token_spec d u unesc l) as Hs.
    destruct (next l) as [[[t r]|]|e a|w] eqn:E; try discriminate.
    - cbn in Hs. destruct Hs as (c & Hc & ->). rewrite firstn_consumed.
      destruct (tok_from f (advance p c) r) as [ts'|e a b|w] eqn:E2; try discriminate.
      intros [= <-]. destruct (IH _ _ _ E2) as (cs & Hcs).
      exists (c :: cs). eapply Tiles_cons; eauto.
    - cbn in Hs. subst l. intros [= <-]. exists []. constructor.
  Qed.

  (** Completeness and fuel adequacy: any fuel above the input length gives the same answer. *)
  Theorem tiles_tokenize : forall p l ts cs, Tiles p l ts cs ->
    forall fuel, (length l < fuel)%nat -> tok_from fuel p l = LexOk ts.
  Proof.
    induction 1 as [p|p l t r c ts cs Hn Hl Hc HT IH]; intros fuel Hf.
    - destruct fuel; [lia|]. reflexivity.
    - destruct fuel as [|f]; [lia|]. cbn [tokenize_from]. rewrite Hn. subst l.
      rewrite firstn_consumed. rewrite IH; [reflexivity|].
      rewrite app_length in Hf. destruct c; [congruence|cbn [length] in Hf; lia].
  Qed.

  (** No out-of-fuel, and the only possible panic is an unmatched delimited-identifier opener. *)
  Theorem tokenize_from_panic : forall fuel p l w, (length l < fuel)%nat ->
    tok_from fuel p l = LexPanic w ->
    w = 1 /\ exists ch, d_delim_start d ch = true /\ matching_end_quote ch = None.
  Proof.
    induction fuel as [|f IH]; intros p l w Hf; [lia|]. cbn [tokenize_from].
    pose proof (next_token_spec d u unesc l) as Hs.
    destruct (next l) as [[[t r]|]|e a|w'] eqn:E; try discriminate.
    - cbn in Hs. pose proof (SSuffix_length _ _ Hs) as Hl.
      destruct (tok_from f _ r) as [ts'|e a b|w'] eqn:E2; try discriminate.
      intros [= <-]. eapply IH; [|exact E2]. lia.
    - cbn in Hs. destruct Hs as (-> & ch & r & _ & H1 & H2). intros [= <-]. split; eauto.
  Qed.

  Definition delims_ok : Prop := forall ch, d_delim_start d ch = true -> matching_end_quote ch <> None.

  Theorem tokenize_total s : delims_ok ->
    (exists ts, tokenize d u unesc s = LexOk ts) \/
    (exists e a ts, tokenize d u unesc s = LexErr e a ts).
  Proof.
    intro Hd. unfold tokenize. destruct (tok_from (S (length s)) (1, 1) s) as [ts|e a b|w] eqn:E; eauto.
    exfalso. apply tokenize_from_panic in E; [|lia]. destruct E as (_ & ch & H1 & H2). eapply Hd; eauto.
  Qed.

  (** ** Consequences of tiling *)
  Lemma Tiles_concat p l ts cs : Tiles p l ts cs -> concat cs = l.
  Proof. induction 1; cbn [concat]; congruence. Qed.
  Lemma Tiles_nonempty p l ts cs : Tiles p l ts cs -> Forall (fun c => c <> []) cs.
  Proof. induction 1; constructor; auto. Qed.
  Lemma Tiles_length p l ts cs : Tiles p l ts cs -> length ts = length cs.
  Proof. induction 1; cbn [length]; congruence. Qed.

  Lemma advance_app p a b : advance (advance p a) b = advance p (a ++ b).
  Proof. unfold advance. rewrite fold_left_app. reflexivity. Qed.

  (** every token's location is the position of its first character *)
  Theorem Tiles_locs p l ts cs : Tiles p l ts cs ->
    forall i t q, nth_error ts i = Some (t, q) -> q = advance p (concat (firstn i cs)).
  Proof.
    induction 1 as [p|p l t r c ts cs Hn Hl Hc HT IH]; intros i t' q Hi.
    - destruct i; discriminate.
    - destruct i as [|i]; cbn [nth_error firstn concat] in *.
      + inversion Hi; subst. reflexivity.
      + rewrite <- advance_app. eapply IH; eauto.
  Qed.

  (** tokens do not depend on the start position; locations are transported *)
  Theorem Tiles_reloc p p' l ts cs : Tiles p l ts cs ->
    exists ts', Tiles p' l ts' cs /\ map fst ts' = map fst ts.
  Proof.
    intro H. revert p'. induction H as [p|p l t r c ts cs Hn Hl Hc HT IH]; intro p'.
    - exists []. split; constructor.
    - destruct (IH (advance p' c)) as (ts' & H1 & H2).
      exists ((t, p') :: ts'). split; [eapply Tiles_cons; eauto|]. cbn [map fst]. congruence.
  Qed.

  (** suffixes starting at a token boundary tile with the remaining tokens *)
  Theorem Tiles_suffix p l ts cs : Tiles p l ts cs ->
    forall i, Tiles (advance p (concat (firstn i cs))) (concat (skipn i cs)) (skipn i ts) (skipn i cs).
  Proof.
    induction 1 as [p|p l t r c ts cs Hn Hl Hc HT IH]; intros i.
    - destruct i; cbn; constructor.
    - destruct i as [|i]; cbn [firstn skipn concat].
      + cbn [advance fold_left]. subst l. pose proof (Tiles_concat _ _ _ _ HT) as Hr.
        rewrite Hr. eapply Tiles_cons; eauto.
      + rewrite <- advance_app. apply IH.
  Qed.

  (** ** Positions: [advance] from (1,1) is the declarative line/column of a prefix *)
  Fixpoint count_lf (s : str) : N :=
    match s with [] => 0 | c :: r => (if c =? cLF then 1 else 0) + count_lf r end.
  (** characters after the last LF, counted from the end *)
  Fixpoint after_last_lf (s : str) : N :=
    match s with
    | [] => 0
    | c :: r => if existsb (fun x => x =? cLF) r then after_last_lf r
                else if c =? cLF then N.of_nat (length r) else N.of_nat (length r) + 1
    end.
  Definition pos_of (pre : str) : loc := (1 + count_lf pre, 1 + after_last_lf pre).

  Lemma advance_line : forall s ln col, fst (advance (ln, col) s) = ln + count_lf s.
  Proof.
    induction s as [|c s IH]; intros ln col; cbn [advance fold_left count_lf]; [cbn; lia|].
    unfold advance in IH. cbn [advance1]. destruct (c =? cLF); rewrite IH; lia.
  Qed.
  Lemma advance_col_nolf : forall s ln col, existsb (fun x => x =? cLF) s = false ->
    snd (advance (ln, col) s) = col + N.of_nat (length s).
  Proof.
    induction s as [|c s IH]; intros ln col H; cbn [advance fold_left length]; [cbn; lia|].
    cbn [existsb] in H. apply orb_false_iff in H as [H1 H2].
    unfold advance in IH. cbn [advance1]. rewrite H1. rewrite IH by exact H2. lia.
  Qed.
  Lemma advance_col : forall s ln col, existsb (fun x => x =? cLF) s = true ->
    snd (advance (ln, col) s) = 1 + after_last_lf s.
  Proof.
    induction s as [|c s IH]; intros ln col H; [discriminate|].
    cbn [advance fold_left after_last_lf advance1]. unfold advance in IH.
    destruct (existsb (fun x => x =? cLF) s) eqn:Es.
    - destruct (c =? cLF); apply IH; reflexivity.
    - cbn [existsb] in H. rewrite Es, orb_false_r in H. rewrite H.
      pose proof (advance_col_nolf s (ln + 1) 1 Es) as Hc. unfold advance in Hc. rewrite Hc. lia.
  Qed.
  Theorem advance_pos_of pre : advance (1, 1) pre = pos_of pre.
  Proof.
    unfold pos_of. destruct (advance (1, 1) pre) as [ln col] eqn:E.
    pose proof (advance_line pre 1 1) as Hl. rewrite E in Hl. cbn [fst] in Hl.
    f_equal; [exact Hl|].
    destruct (existsb (fun x => x =? cLF) pre) eqn:Ex.
    - pose proof (advance_col pre 1 1 Ex) as Hc. rewrite E in Hc. exact Hc.
    - pose proof (advance_col_nolf pre 1 1 Ex) as Hc. rewrite E in Hc. cbn [snd] in Hc. rewrite Hc.
      f_equal. clear -Ex. induction pre as [|c s IH]; [reflexivity|].
      cbn [existsb] in Ex. apply orb_false_iff in Ex as [H1 H2]. cbn [after_last_lf length].
      rewrite H2, H1. lia.
  Qed.

  (** ** Strict monotonicity of positions *)
  Definition loc_lt (a b : loc) : Prop := fst a < fst b \/ (fst a = fst b /\ snd a < snd b).
  Definition loc_le (a b : loc) : Prop := a = b \/ loc_lt a b.
  Lemma loc_lt_trans a b c : loc_lt a b -> loc_lt b c -> loc_lt a c.
  Proof. unfold loc_lt. destruct a, b, c; cbn [fst snd]. lia. Qed.
  Lemma advance1_lt p c : loc_lt p (advance1 p c).
  Proof. destruct p as [ln col]. unfold advance1, loc_lt. destruct (c =? cLF); cbn [fst snd]; lia. Qed.
  Lemma advance_cons p c s : advance p (c :: s) = advance (advance1 p c) s.
  Proof. reflexivity. Qed.
  Lemma advance_le p s : loc_le p (advance p s).
  Proof. revert p. induction s as [|c s IH]; intro p; [left; reflexivity|].
    rewrite advance_cons. right. destruct (IH (advance1 p c)) as [E|H].
    - rewrite <- E. apply advance1_lt.
    - eapply loc_lt_trans; [apply advance1_lt|exact H]. Qed.
  Lemma advance_lt p s : s <> [] -> loc_lt p (advance p s).
  Proof. destruct s as [|c s]; [congruence|]. intros _. rewrite advance_cons.
    destruct (advance_le (advance1 p c) s) as [E|H]; [rewrite <- E; apply advance1_lt|].
    eapply loc_lt_trans; [apply advance1_lt|exact H]. Qed.

  Theorem Tiles_mono p l ts cs : Tiles p l ts cs ->
    forall i j t q t' q', (i < j)%nat -> nth_error ts i = Some (t, q) -> nth_error ts j = Some (t', q') ->
    loc_lt q q'.
  Proof.
    induction 1 as [p|p l t r c ts cs Hn Hl Hc HT IH]; intros i j t1 q1 t2 q2 Hij Hi Hj.
    - destruct i; discriminate.
    - destruct j as [|j]; [lia|]. destruct i as [|i]; cbn [nth_error] in *.
      + inversion Hi; subst. pose proof (Tiles_locs _ _ _ _ HT _ _ _ Hj) as ->.
        rewrite advance_app. apply advance_lt. destruct c; [congruence|discriminate].
      + eapply IH; [|exact Hi|exact Hj]. lia.
  Qed.

  (** ** Error positions are prefix positions *)
  Theorem tokenize_from_err : forall fuel p l e a ts,
    tok_from fuel p l = LexErr e a ts -> exists pre post, l = pre ++ post /\ a = advance p pre.
  Proof.
    induction fuel as [|f IH]; intros p l e a ts; cbn [tokenize_from]; [discriminate|].
    pose proof (next_token_spec d u unesc l) as Hs.
    destruct (next l) as [[[t r]|]|e' a'|w] eqn:E; try discriminate.
    - cbn in Hs. destruct Hs as (c & Hc & ->). rewrite firstn_consumed.
      destruct (tok_from f (advance p c) r) as [ts'|e2 a2 b|w] eqn:E2; try discriminate.
      intros [= <- <- <-]. destruct (IH _ _ _ _ _ E2) as (pre & post & -> & ->).
      exists (c ++ pre), post. rewrite advance_app, app_assoc. split; reflexivity.
    - cbn in Hs. destruct Hs as (c & ->). intros [= <- <- <-]. rewrite firstn_consumed.
      exists c, a'. split; reflexivity.
  Qed.

  Lemma Tiles_head p l t q rest cs : Tiles p l ((t, q) :: rest) cs ->
    exists c r cs', cs = c :: cs' /\ l = c ++ r /\ next l = Ok (Some (t, r)) /\ Tiles (advance p c) r rest cs'.
  Proof. intro H. inversion H as [|p0 l0 t0 r c ts0 cs0 Hn Hl Hc HT]. subst.
    exists c, r, cs0. repeat split; auto. Qed.
  Lemma nth_error_skipn (A : Type) (ts : list A) i x : nth_error ts i = Some x -> exists rest, skipn i ts = x :: rest.
  Proof. revert ts. induction i as [|i IH]; intros [|y ts] H; try discriminate.
    - inversion H; subst. eexists; reflexivity.
    - cbn [skipn]. apply IH. exact H. Qed.
  Lemma skipn_S_tl (A : Type) (cs : list A) i : skipn (S i) cs = tl (skipn i cs).
  Proof. revert cs. induction i as [|i IH]; intros [|x cs]; try reflexivity.
    change (skipn (S (S i)) (x :: cs)) with (skipn (S i) cs).
    change (skipn (S i) (x :: cs)) with (skipn i cs). apply IH. Qed.

  (** ** The C09 statements, assembled *)
  Theorem lex_tiles s ts : tokenize d u unesc s = LexOk ts ->
    exists cs,
      concat cs = s /\ length cs = length ts /\ Forall (fun c => c <> []) cs /\
      (forall i t q, nth_error ts i = Some (t, q) ->
         q = pos_of (concat (firstn i cs)) /\
         next (concat (skipn i cs)) = Ok (Some (t, concat (skipn (S i) cs)))).
  Proof.
    unfold tokenize. intro H. destruct (tokenize_from_tiles _ _ _ _ H) as (cs & HT).
    exists cs. repeat split.
    - eapply Tiles_concat; eauto.
    - symmetry. eapply Tiles_length; eauto.
    - eapply Tiles_nonempty; eauto.
    - rewrite <- advance_pos_of. eapply Tiles_locs; eauto.
    - pose proof (Tiles_suffix _ _ _ _ HT i) as Hs.
      destruct (nth_error_skipn _ ts i (t, q) H0) as (rest & Hsk). rewrite Hsk in Hs.
      destruct (Tiles_head _ _ _ _ _ _ Hs) as (c & r & cs' & Hcs & Hl & Hn & HT').
      rewrite Hn. rewrite (skipn_S_tl _ cs i), Hcs. cbn [tl]. rewrite (Tiles_concat _ _ _ _ HT'). reflexivity.
  Qed.

  Theorem lex_mono s ts : tokenize d u unesc s = LexOk ts ->
    forall i j t q t' q', (i < j)%nat -> nth_error ts i = Some (t, q) -> nth_error ts j = Some (t', q') ->
    loc_lt q q'.
  Proof. unfold tokenize. intro H. destruct (tokenize_from_tiles _ _ _ _ H) as (cs & HT).
    eapply Tiles_mono; eauto. Qed.

  Theorem lex_suffix s ts : tokenize d u unesc s = LexOk ts ->
    exists cs, concat cs = s /\ forall i,
      exists ts', tokenize d u unesc (concat (skipn i cs)) = LexOk ts' /\
                  map fst ts' = skipn i (map fst ts) /\
                  (forall j t q, nth_error ts' j = Some (t, q) -> q = pos_of (concat (firstn j (skipn i cs)))).
  Proof.
    unfold tokenize. intro H. destruct (tokenize_from_tiles _ _ _ _ H) as (cs & HT).
    exists cs. split; [eapply Tiles_concat; eauto|]. intro i.
    pose proof (Tiles_suffix _ _ _ _ HT i) as Hs.
    destruct (Tiles_reloc _ (1, 1) _ _ _ Hs) as (ts' & HT' & Hm).
    exists ts'. repeat split.
    - eapply tiles_tokenize; eauto.
    - rewrite Hm. clear. revert ts. induction i as [|i IH]; intros [|x ts]; cbn [skipn map]; auto.
    - intros j t q Hj. rewrite <- advance_pos_of. eapply Tiles_locs; eauto.
  Qed.

  Theorem lex_err_position s e a ts : tokenize d u unesc s = LexErr e a ts ->
    exists pre post, s = pre ++ post /\ a = pos_of pre.
  Proof. unfold tokenize. intro H. destruct (tokenize_from_err _ _ _ _ _ _ H) as (pre & post & -> & ->).
    exists pre, post. split; [reflexivity|apply advance_pos_of]. Qed.
End Tiling.

(** Decidable check that a dialect's delimited-identifier openers all have a closing quote
    (otherwise [Word::matching_end_quote] panics). *)
Definition ascii_codes : list N := map N.of_nat (seq 0 128).
Definition delim_mask_ok (mask : N) : bool :=
  forallb (fun c => implb (N.testbit mask c)
                      (match matching_end_quote c with Some _ => true | None => false end)) ascii_codes.
Lemma in_set_delims mask rs : rs = [] -> delim_mask_ok mask = true ->
  forall ch, in_set mask rs ch = true -> matching_end_quote ch <> None.
Proof.
  intros -> Hm ch. unfold in_set. destruct (N.ltb_spec ch 128) as [Hlt|Hge]; [|discriminate].
  intro Hb. unfold delim_mask_ok in Hm. rewrite forallb_forall in Hm.
  assert (Hin : In ch ascii_codes).
  { unfold ascii_codes. apply in_map_iff. exists (N.to_nat ch). split; [apply N2Nat.id|].
    apply in_seq. lia. }
  specialize (Hm ch Hin). rewrite Hb in Hm. cbn [implb] in Hm.
  destruct (matching_end_quote ch); [discriminate|discriminate].
Qed.
