(** C01 — the DML core: well-formedness of INSERT / UPDATE / DELETE trees, the token-level round trip
    [dml_roundtrip], and the evaluator of one correspondence case. *)
From SqlV Require Import Base PrecSpec Pratt PrattProofs SetOps PrinterCore PrinterCoreProofs QueryCore
  QueryCoreProofs DmlCore.
From Coq Require Import ZifyBool ZifyN ZifyNat.

(** * Well-formed statements (decidable) *)

(** no DML keyword, neither as a token nor as a name: the embedded queries, tables, expressions and
    the names of a statement are spelled with the words of the query core *)
Definition nk (t : qtok) : bool := negb (is_dkw t) && negb (is_dplain t).
Definition nodkw (l : list qtok) : bool := forallb nk l.

(** the keyword [k] may follow a tree that ends with the optional alias [o] *)
Definition follows_ok (d : mdialect) (o : option bool) (k : dkw) : bool :=
  match o with
  | Some c => mem (kw k) (if c then kw_col d else kw_tab d)
  | None => true
  end.

Definition head_is (t : qtok) (l : list qtok) : bool :=
  match l with h :: _ => qtok_eqb h t | [] => false end.

(** a name the DML parsers read with [parse_identifier] *)
Definition mname_ok (w : qtok) : bool := is_word w && nk w.

(** with trailing commas on, a later element of a list the DML parsers own does not start with a
    reserved word *)
Definition later_okm (d : mdialect) (w : qtok) : bool :=
  negb (trailing (qd d) && mem w (res_col (qd d) ++ kw_col d)).

Definition names_wf (d : mdialect) (l : list qtok) : bool :=
  forallb mname_ok l && forallb (later_okm d) (tl l).

Definition target_wf (d : mdialect) (t : target) : bool :=
  match t with
  | TCol c => mname_ok c
  | TTuple cs => cols_wf (qd d) cs && nodkw cs
  end.
Definition target_head (t : target) : qtok :=
  match t with TCol c => c | TTuple _ => QE TLParen end.
Definition assign_wf (d : mdialect) (a : assignment) : bool :=
  match a with Assign t v => target_wf d t && xwf (qd d) v && nodkw (xtoks v) end.
Definition assign_head (a : assignment) : qtok := match a with Assign t _ => target_head t end.

Definition ret_wf (d : mdialect) (r : option (list item)) : bool :=
  match r with
  | Some l => match l with [] => false | _ => true end && forallb (item_wf (qd d)) l &&
              nodkw (sepc (map item_toks l))
  | None => true
  end.
Definition sel_wf (d : mdialect) (x : option xexpr) : bool :=
  match x with Some e => xwf (qd d) e && nodkw (xtoks e) | None => true end.
Definition twjm_wf (d : mdialect) (t : twj) : bool := twj_wf (qd d) t && nodkw (twj_toks t).
Definition twjs_wf (d : mdialect) (l : list twj) : bool :=
  match l with [] => false | _ => true end && forallb (twjm_wf d) l && later_names_ok (qd d) l.
Definition last_twj_open (l : list twj) : option bool := twjs_opn l [].

(** a join without constraint at the very end: a USING that follows is read as its constraint *)
Definition join_bare (j : join) : bool := match j with Join (JOp _ JNone) _ => true | _ => false end.
Definition twj_bare (t : twj) : bool :=
  match t with Twj _ js => match rev js with j :: _ => join_bare j | [] => false end end.
Definition last_twj_bare (l : list twj) : bool :=
  match rev l with t :: _ => twj_bare t | [] => false end.

Definition is_none {A} (x : option A) : bool := match x with None => true | Some _ => false end.

Definition mwf (d : mdialect) (s : stmt) : bool :=
  match s with
  | SInsert into table cols source ret =>
      mname_ok table && negb (qtok_eqb table (QK KTable)) &&
      ccols_wf (qd d) cols && nodkw cols &&
      match source with
      | None => match cols with [] => true | _ => false end
      | Some q =>
          qwf (qd d) q && nodkw (qtoks q) &&
          (* [INSERT INTO t (SELECT ..)]: the parenthesis is read as the column list *)
          negb ((match cols with [] => true | _ => false end || ins_after_cols d) && head_is (QE TLParen) (qtoks q)) &&
          (is_none ret || follows_ok d (query_open q) DReturning)
      end && ret_wf d ret
  | SUpdate table assigns from sel ret =>
      twjm_wf d table && follows_ok d (twj_opn table []) DSet &&
      match assigns with [] => false | _ => true end && forallb (assign_wf d) assigns &&
      forallb (fun a => later_okm d (assign_head a)) (tl assigns) &&
      match from with
      | Some t => upd_from d && twjm_wf d t &&
                  (negb (is_none sel) || is_none ret || follows_ok d (twj_opn t []) DReturning)
      | None => true
      end && sel_wf d sel && ret_wf d ret
  | SDelete tables fk from usg sel ret ob lim =>
      match tables with
      | [] => fk || (del_nofrom d && negb (head_is (QE (TKw KFrom)) (sepc (map twj_toks from))))
      | t :: _ => fk && negb (del_nofrom d) && names_wf d tables && negb (qtok_eqb t (QE (TKw KFrom)))
      end &&
      twjs_wf d from &&
      match usg with
      | Some l => twjs_wf d l && negb (last_twj_bare from) &&
                  (negb (is_none sel) || is_none ret || follows_ok d (last_twj_open l) DReturning)
      | None => negb (is_none sel) || is_none ret || follows_ok d (last_twj_open from) DReturning
      end && sel_wf d sel && ret_wf d ret &&
      forallb (oelem_wf (qd d)) ob && nodkw (sepc (map oelem_toks ob)) && sel_wf d lim
  end.

(** * The syntactic fragment test on the printed tokens: [qfrag], and no comma directly in front of
    a DML keyword *)
Fixpoint comma_kw (ts : list qtok) : bool :=
  match ts with
  | [] => false
  | t :: r =>
      match r with
      | k :: _ => (is_comma_tok t && is_dkw k) || comma_kw r
      | [] => false
      end
  end.
Definition mfrag (d : mdialect) (ts : list qtok) : bool := qfrag (qd d) ts && negb (comma_kw ts).

(** * Nesting level *)
Definition omax {A} (f : A -> nat) (x : option A) : nat := match x with Some a => f a | None => O end.
Definition ilevels (r : option (list item)) : nat := omax (fun l => maxl (map ilevel l)) r.
Definition alevel (a : assignment) : nat := match a with Assign _ v => xlevel v end.
Definition mlevel (s : stmt) : nat :=
  match s with
  | SInsert _ _ _ source ret => Nat.max (omax qlevel source) (ilevels ret)
  | SUpdate table assigns from sel ret =>
      Nat.max (S (twjlevel table)) (Nat.max (maxl (map alevel assigns))
        (Nat.max (omax (fun t => S (twjlevel t)) from) (Nat.max (omax xlevel sel) (ilevels ret))))
  | SDelete _ _ from usg sel ret ob lim =>
      Nat.max (S (maxl (map twjlevel from))) (Nat.max (omax (fun l => S (maxl (map twjlevel l))) usg)
        (Nat.max (omax xlevel sel) (Nat.max (ilevels ret) (Nat.max (maxl (map oelevel ob)) (omax xlevel lim)))))
  end.

(** * Side conditions on the generated record *)
Definition mdialect_ok (d : mdialect) : bool :=
  dialect_ok (qd d) && forallb is_dkw (kw_col d) && forallb is_dkw (kw_tab d).

(** * Evaluation of one correspondence case (adds to [mcase_core]): 16 = the implementation accepted
    the input but its tree (in canonical spelling) is not well formed apart from the conservative
    tests; 32 = [mwf] / [mfrag] / [ender] fail (counted: the theorem says nothing then) *)
Definition stmt_frag_free (d : mdialect) (s : stmt) : bool :=
  match s with
  | SInsert _ _ _ source ret =>
      match source with Some q => qwfg false (qd d) q | None => true end &&
      match ret with Some l => forallb (item_wfg false (qd d)) l | None => true end
  | SUpdate table assigns from sel ret =>
      twj_wfg false (qd d) table && forallb (fun a => match a with Assign _ v => xwfg false (qd d) v end) assigns &&
      match from with Some t => twj_wfg false (qd d) t | None => true end &&
      match sel with Some x => xwfg false (qd d) x | None => true end &&
      match ret with Some l => forallb (item_wfg false (qd d)) l | None => true end
  | SDelete _ _ from usg sel ret ob lim =>
      forallb (twj_wfg false (qd d)) from &&
      match usg with Some l => forallb (twj_wfg false (qd d)) l | None => true end &&
      match sel with Some x => xwfg false (qd d) x | None => true end &&
      match ret with Some l => forallb (item_wfg false (qd d)) l | None => true end &&
      forallb (oelem_wfg false (qd d)) ob &&
      match lim with Some x => xwfg false (qd d) x | None => true end
  end.

Definition mcase_full (d : mdialect) (ts : list qtok) (i : mires) : N :=
  let c := mcase_core d ts i in
  if c =? 8 then 8 else
  match i with
  | MIOk s n _ =>
      c + (if stmt_frag_free d (mnorm s) then 0 else 16) +
      (if mwf d (mnorm s) && mfrag d (mtoks (mnorm s) ++ lastn n ts) && ender (lastn n ts) then 0 else 32)
  | _ => c
  end.

(** * Basic facts about the keyword tokens *)
Lemma nk_parts t : nk t = true -> is_dkw t = false /\ is_dplain t = false.
Proof. unfold nk. intro H. apply andb_true_iff in H. destruct H as [H1 H2]. apply negb_true_iff in H1, H2. auto. Qed.

Lemma plain_nk t : is_dkw t = false -> plain t = t.
Proof. destruct t as [[[] n| | | | | | | | | | | | |]| | |]; try reflexivity. unfold plain. intros ->. reflexivity. Qed.
Lemma unplain_nk t : is_dplain t = false -> unplain t = t.
Proof. destruct t as [[[] n| | | | | | | | | | | | |]| | |]; try reflexivity. unfold unplain. intros ->. reflexivity. Qed.

Lemma map_plain_nodkw l : nodkw l = true -> map plain l = l.
Proof.
  induction l as [|t r IH]; [reflexivity|]. cbn [nodkw forallb map]. intro H. apply andb_true_iff in H.
  destruct H as [Ht Hr]. rewrite IH by exact Hr. rewrite plain_nk; [reflexivity|apply nk_parts; exact Ht].
Qed.

Lemma is_dkw_kw k : is_dkw (kw k) = true.
Proof. destruct k; reflexivity. Qed.
Lemma is_dplain_kw k : is_dplain (kw k) = false.
Proof. destruct k; reflexivity. Qed.
Lemma is_word_kw k : is_word (kw k) = true.
Proof. destruct k; reflexivity. Qed.
Lemma qtok_eqb_refl t : qtok_eqb t t = true.
Proof.
  destruct t as [t|k| |]; try reflexivity; cbn [qtok_eqb].
  - apply tok_eqb_eq. reflexivity.
  - destruct k; reflexivity.
Qed.
Lemma qtok_eqb_eq a b : qtok_eqb a b = true -> a = b.
Proof.
  destruct a as [t|k| |], b as [t'|k'| |]; cbn [qtok_eqb]; intro H; try discriminate; try reflexivity.
  - apply tok_eqb_eq in H. congruence.
  - f_equal. apply internal_qkw_dec_bl. exact H.
Qed.
Lemma qtok_eqb_neq a b : a <> b -> qtok_eqb a b = false.
Proof. intro H. destruct (qtok_eqb a b) eqn:E; [|reflexivity]. apply qtok_eqb_eq in E. contradiction. Qed.

(** a token that is not a DML keyword is not equal to one *)
Lemma nodkw_neq_kw t k : is_dkw t = false -> qtok_eqb t (kw k) = false.
Proof. intro H. apply qtok_eqb_neq. intro E. subst t. rewrite is_dkw_kw in H. discriminate. Qed.

(** * [cut] *)
Definition nd (t : qtok) : bool := negb (is_dkw t).

Lemma nodkw_nd l : nodkw l = true -> forallb nd l = true.
Proof.
  unfold nodkw. rewrite !forallb_forall. intros H t Hin. specialize (H t Hin). unfold nd.
  apply nk_parts in H. destruct H as [H _]. rewrite H. reflexivity.
Qed.

Lemma cut_app a b : forallb nd a = true -> cut (a ++ b) = (a ++ fst (cut b), snd (cut b)).
Proof.
  induction a as [|t r IH]; cbn [app forallb]; intro H.
  - destruct (cut b); reflexivity.
  - apply andb_true_iff in H. destruct H as [Ht Hr]. unfold nd in Ht. apply negb_true_iff in Ht.
    cbn [cut]. rewrite Ht, (IH Hr). reflexivity.
Qed.

Lemma cut_split ts : ts = fst (cut ts) ++ snd (cut ts).
Proof.
  induction ts as [|t r IH]; [reflexivity|]. cbn [cut]. destruct (is_dkw t); [reflexivity|].
  destruct (cut r) as [a b]. cbn [fst snd app] in *. rewrite <- IH. reflexivity.
Qed.

(** the next token, if it is a DML keyword *)
Definition knext (post : list qtok) : option qtok :=
  match post with k :: _ => if is_dkw k then Some k else None | [] => None end.

Lemma cut_cases post :
  (fst (cut post) = [] /\ snd (cut post) = post /\ (post = [] \/ exists k, knext post = Some k)) \/
  (exists h r r0, post = h :: r /\ fst (cut post) = h :: r0 /\ knext post = None).
Proof.
  destruct post as [|h r]; [left; cbn; auto|]. cbn [cut knext]. destruct (is_dkw h) eqn:E.
  - left. cbn. repeat split; eauto.
  - right. destruct (cut r) as [a b]. exists h, r, a. auto.
Qed.

(** predicates that look at the head only *)
Definition hd_only {B} (f : list qtok -> B) : Prop := forall h r r', f (h :: r) = f (h :: r').

Lemma hd_hrank : hd_only hrank.
Proof. intros h r r'. destruct h as [[]|[]| |]; try reflexivity; try (destruct k; reflexivity). Qed.
Lemma hd_estop : hd_only estop.
Proof. intros h r r'. destruct h as [[]|[]| |]; try reflexivity. Qed.
Lemma hd_ender : hd_only ender.
Proof. intros h r r'. destruct h as [[]|[]| |]; try reflexivity. Qed.
Lemma hd_is_comma : hd_only is_comma.
Proof. intros h r r'. destruct h as [[]|[]| |]; try reflexivity. Qed.

(** the follower the parsers of the query core see: the end of their input if a DML keyword follows *)
Lemma cut_hrank n post : (knext post <> None \/ (n <= hrank post)%nat) -> (n <= 9)%nat -> (n <= hrank (fst (cut post)))%nat.
Proof.
  intros H Hn. destruct (cut_cases post) as [(E & _ & _)|(h & r & r0 & Ep & Ec & Ek)].
  - rewrite E. exact Hn.
  - rewrite Ec. rewrite (hd_hrank h r0 r). rewrite <- Ep. destruct H as [H|H]; [congruence|exact H].
Qed.
Lemma cut_estop post : (knext post <> None \/ estop post = true) -> estop (fst (cut post)) = true.
Proof.
  intros H. destruct (cut_cases post) as [(E & _ & _)|(h & r & r0 & Ep & Ec & Ek)].
  - rewrite E. reflexivity.
  - rewrite Ec. rewrite (hd_estop h r0 r). rewrite <- Ep. destruct H as [H|H]; [congruence|exact H].
Qed.
Lemma cut_ender post : (knext post <> None \/ ender post = true) -> ender (fst (cut post)) = true.
Proof.
  intros H. destruct (cut_cases post) as [(E & _ & _)|(h & r & r0 & Ep & Ec & Ek)].
  - rewrite E. reflexivity.
  - rewrite Ec. rewrite (hd_ender h r0 r). rewrite <- Ep. destruct H as [H|H]; [congruence|exact H].
Qed.

(** the fragment test is closed under prefixes *)
Lemma comma_rparen_prefix a b : comma_rparen (a ++ b) = false -> comma_rparen a = false.
Proof.
  induction a as [|t r IH]; [reflexivity|]. cbn [app]. intro H.
  pose proof (comma_rparen_cons _ _ H) as Hr. specialize (IH Hr).
  cbn [comma_rparen] in *. destruct t as [x| | |]; auto. destruct x; auto.
  destruct r as [|[y| | |] r']; auto. destruct y; auto.
Qed.
Lemma star_ok_prefix d a b : star_ok d (a ++ b) = true -> star_ok d a = true.
Proof.
  induction a as [|t r IH]; [reflexivity|]. cbn [app star_ok]. intro H. apply andb_true_iff in H. destruct H as [H1 H2].
  rewrite (IH H2), andb_true_r. destruct r as [|y r']; [destruct t as [[]| | |]; reflexivity|exact H1].
Qed.
Lemma qfrag_prefix d a b : qfrag d (a ++ b) = true -> qfrag d a = true.
Proof.
  unfold qfrag. intro H. apply andb_true_iff in H. destruct H as [H1 H2].
  rewrite (star_ok_prefix _ _ _ H2), andb_true_r.
  destruct (trailing d || proj_trailing d); [|reflexivity]. cbn [andb negb] in *.
  apply negb_true_iff in H1. rewrite (comma_rparen_prefix _ _ H1). reflexivity.
Qed.

(** the part of [post] the parsers of the query core see *)
Lemma qfrag_cut d a post : qfrag d (a ++ post) = true -> qfrag d (a ++ fst (cut post)) = true.
Proof.
  intro H. rewrite (cut_split post), app_assoc in H. eapply qfrag_prefix. exact H.
Qed.

(** * [site]: a parser of the query core in front of the next DML keyword *)
Lemma last_is_app_cons p a t : last_is p (a ++ [t]) = p t.
Proof. unfold last_is. rewrite rev_app_distr. reflexivity. Qed.

Section SiteRT.
  Context {A : Type}.
  Variable d : mdialect.
  Variable p p' : list qtok -> res (A * list qtok).
  Variable opn : A -> list qtok -> option bool.

  Lemma site_rt toks x post g :
    forallb nd toks = true ->
    p (toks ++ fst (cut post)) = Ok (x, fst (cut post)) ->
    (forall k, knext post = Some k ->
       last_is is_comma_tok toks = false /\
       forall c, opn x toks = Some c -> mem k (if c then kw_col d else kw_tab d) = true) ->
    (0 < g)%nat ->
    site d p' opn g p (toks ++ post) = Ok (x, post).
  Proof.
    intros Hn Hp Hk Hg. destruct g as [|g]; [lia|]. cbn [site]. rewrite (cut_app _ _ Hn).
    destruct (cut_cases post) as [(E & Es & Hc)|(h & r & r0 & Ep & Ec & Ek)].
    - rewrite E, Es in *. rewrite app_nil_r in *. destruct post as [|k post'].
      + rewrite Hp. reflexivity.
      + destruct Hc as [Hc|(k' & Hc)]; [discriminate|]. rewrite Hp.
        destruct (Hk _ Hc) as [Hl Ho]. rewrite Hl.
        cbn [knext] in Hc. destruct (is_dkw k); [|discriminate]. injection Hc as <-.
        destruct (opn x toks) as [c|] eqn:Eo; [|reflexivity]. rewrite (Ho c eq_refl). reflexivity.
    - rewrite Ec in *. pose proof (cut_split post) as Hs. rewrite Ec in Hs.
      destruct (snd (cut post)) as [|k post'] eqn:Es.
      + rewrite Hp. rewrite app_nil_r in Hs. rewrite <- Hs. reflexivity.
      + rewrite Hp. rewrite <- Hs. reflexivity.
  Qed.
End SiteRT.

(** * Commas in front of keywords *)
Lemma comma_kw_cons t r : comma_kw (t :: r) = false -> comma_kw r = false.
Proof.
  destruct r as [|k r']; [reflexivity|]. cbn [comma_kw]. intro H. apply orb_false_iff in H. destruct H as [_ H]. exact H.
Qed.
Lemma comma_kw_app a b : comma_kw (a ++ b) = false -> comma_kw b = false.
Proof. induction a as [|t r IH]; [auto|]. cbn [app]. intro H. apply IH. eapply comma_kw_cons. exact H. Qed.

Lemma last_is_cons p t l : l <> [] -> last_is p (t :: l) = last_is p l.
Proof.
  intro H. unfold last_is. cbn [rev]. destruct (rev l) as [|x r] eqn:E; [|reflexivity].
  apply (f_equal (@rev qtok)) in E. rewrite rev_involutive in E. cbn in E. congruence.
Qed.

Lemma comma_kw_last toks k r : comma_kw (toks ++ k :: r) = false -> is_dkw k = true -> last_is is_comma_tok toks = false.
Proof.
  intros H Hk. induction toks as [|t l IH]; [reflexivity|]. destruct l as [|t2 l'].
  - cbn [app comma_kw] in H. apply orb_false_iff in H. destruct H as [H _]. rewrite Hk, andb_true_r in H. exact H.
  - rewrite last_is_cons by discriminate. apply IH. cbn [app comma_kw] in H. cbn [app].
    apply orb_false_iff in H. destruct H as [_ H]. exact H.
Qed.

(** what follows a clause: a DML keyword, or a token of rank at least [n] *)
Definition kr (n : nat) (post : list qtok) : Prop := knext post <> None \/ (n <= hrank post)%nat.

Lemma kr_le n m post : (m <= n)%nat -> kr n post -> kr m post.
Proof. intros H [K|K]; [left; exact K|right; lia]. Qed.

Lemma kr_estop n post : (1 <= n)%nat -> kr n post -> knext post <> None \/ estop post = true.
Proof. intros Hn [K|K]; [left; exact K|right; apply hrank_estop; lia]. Qed.

Lemma ender_knext rest : ender rest = true -> knext rest = None.
Proof. destruct rest as [|[[]| | |] r]; cbn [ender knext]; intro H; try discriminate H; reflexivity. Qed.

Lemma ender_kr rest : ender rest = true -> kr 9 rest.
Proof. intro H. right. rewrite (ender_hrank _ H). apply le_n. Qed.

(** an optional keyword that is not there *)
Lemma opt_tok_miss k ts : head_is k ts = false -> opt_tok k ts = (false, ts).
Proof. destruct ts as [|t r]; [reflexivity|]. cbn [head_is opt_tok]. intros ->. reflexivity. Qed.

Lemma head_is_kr k n post : kr n post -> is_dkw k = false -> (hrank [k] < n)%nat -> head_is k post = false.
Proof.
  intros Hp Hk Hn. destruct post as [|h r]; [reflexivity|]. cbn [head_is].
  destruct (qtok_eqb h k) eqn:E; [|reflexivity]. apply qtok_eqb_eq in E. subst h.
  destruct Hp as [Hp|Hp].
  - cbn [knext] in Hp. rewrite Hk in Hp. congruence.
  - rewrite (hd_hrank k r []) in Hp. lia.
Qed.

Lemma head_is_kw_none k post : knext post = None -> head_is (kw k) post = false.
Proof.
  destruct post as [|h r]; [reflexivity|]. cbn [knext head_is]. destruct (is_dkw h) eqn:E; [discriminate|].
  intros _. apply nodkw_neq_kw. exact E.
Qed.

Section Sites.
  Variable d : mdialect.
  Hypothesis Hd : mdialect_ok d = true.
  Variable fuel : nat.
  Notation q := (qd d).
  Notation rq := (parse_query q fuel).
  Notation rb := (parse_body q fuel).
  Notation rt := (parse_twj q fuel).

  Lemma Hq' : dialect_ok q = true.
  Proof. unfold mdialect_ok in Hd. apply andb_true_iff in Hd. destruct Hd as [H _]. apply andb_true_iff in H. tauto. Qed.
  Lemma kw_col_dkw k : mem k (kw_col d) = true -> is_dkw k = true.
  Proof.
    unfold mdialect_ok in Hd. apply andb_true_iff in Hd. destruct Hd as [H _]. apply andb_true_iff in H. destruct H as [_ H].
    rewrite forallb_forall in H. unfold mem. rewrite existsb_exists. intros (x & Hin & He). apply qtok_eqb_eq in He. subst x. auto.
  Qed.

  Lemma Hq : forall x post, qwf q x = true -> (qlevel x <= fuel)%nat -> ender post = true ->
    qfrag q (qtoks x ++ post) = true -> rq (qtoks x ++ post) = Ok (x, post).
  Proof. exact (proj1 (parse_lvl_rt q Hq' fuel)). Qed.

  Lemma site_use {A} (p p' : list qtok -> res (A * list qtok)) opn toks x post :
    nodkw toks = true ->
    p (toks ++ fst (cut post)) = Ok (x, fst (cut post)) ->
    comma_kw (toks ++ post) = false ->
    (forall k (c : bool), knext post = Some k -> opn x toks = Some c -> mem k (if c then kw_col d else kw_tab d) = true) ->
    site d p' opn (fuel_of (toks ++ post)) p (toks ++ post) = Ok (x, post).
  Proof.
    intros Hn Hp Hc Ho. apply site_rt; [apply nodkw_nd; exact Hn|exact Hp| |unfold fuel_of; lia].
    intros k Hk. split; [|intros c Hc'; eapply Ho; eauto].
    destruct post as [|k' r]; [discriminate|]. cbn [knext] in Hk. destruct (is_dkw k') eqn:E; [|discriminate].
    eapply comma_kw_last; eauto.
  Qed.

  Lemma site_query_rt x post :
    qwf q x = true -> nodkw (qtoks x) = true -> (qlevel x <= fuel)%nat ->
    qfrag q (qtoks x ++ post) = true -> comma_kw (qtoks x ++ post) = false ->
    (knext post <> None \/ ender post = true) ->
    (forall k (c : bool), knext post = Some k -> query_open x = Some c -> mem k (if c then kw_col d else kw_tab d) = true) ->
    site_query d fuel (qtoks x ++ post) = Ok (x, post).
  Proof.
    intros Hw Hn Hl Hf Hc Hp Ho. unfold site_query, pquery. apply site_use; auto.
    - apply Hq; auto; [apply cut_ender; exact Hp|apply qfrag_cut; exact Hf].
    - intros k c Hk Hq0. unfold query_opn in Hq0. destruct (last_is is_all_tok (qtoks x)); [discriminate|]. eauto.
  Qed.

  Lemma site_twj_rt t post :
    twj_wf q t = true -> nodkw (twj_toks t) = true -> (S (twjlevel t) <= fuel)%nat ->
    qfrag q (twj_toks t ++ post) = true -> comma_kw (twj_toks t ++ post) = false -> kr 2 post ->
    (forall k, knext post = Some k -> twj_open t = true -> mem k (kw_tab d) = true) ->
    site_twj d fuel (twj_toks t ++ post) = Ok (t, post).
  Proof.
    intros Hw Hn Hl Hf Hc Hp Ho. unfold site_twj, ptwj. apply site_use; auto.
    - apply (twj_roundtrip q Hq'); auto; [apply qfrag_cut; exact Hf|right; apply cut_hrank; [exact Hp|lia]].
    - intros k c Hk Hq0. unfold twj_opn, opt_site in Hq0. destruct (twj_open t) eqn:E; [|discriminate].
      injection Hq0 as <-. auto.
  Qed.

  Lemma pexp_rt x post :
    xwf q x = true -> (xlevel x <= fuel)%nat -> qfrag q (xtoks x ++ post) = true -> estop post = true ->
    pexp d fuel (xtoks x ++ post) = Ok (x, post).
  Proof. intros. unfold pexp, pquery. apply (pex_rt q Hq' fuel rq rb rt Hq); auto. Qed.

  Lemma site_expr_rt x post :
    xwf q x = true -> nodkw (xtoks x) = true -> (xlevel x <= fuel)%nat ->
    qfrag q (xtoks x ++ post) = true -> comma_kw (xtoks x ++ post) = false ->
    (knext post <> None \/ estop post = true) ->
    site_expr d fuel (xtoks x ++ post) = Ok (x, post).
  Proof.
    intros Hw Hn Hl Hf Hc Hp. unfold site_expr. apply site_use; auto.
    - apply pexp_rt; auto; [apply qfrag_cut; exact Hf|apply cut_estop; exact Hp].
    - intros k c _ Hq0. discriminate Hq0.
  Qed.

  (** [parse_comma_separated(parse_select_item)] under [options.trailing_commas] *)
  Lemma notrail_item_all i r : item_wf q i = true -> notrail (trail_all q) (item_toks i ++ r).
  Proof.
    intro Hw. destruct i as [|x|x w]; cbn [item_toks item_wf item_wfg] in *.
    - unfold notrail. destruct (trail_all q) as [res|] eqn:T; [|exact I]. rewrite (trail_all_col _ _ T).
      apply (comma_end_safe q Hq'). auto.
    - apply (notrail_x q Hq' fuel rq rb rt Hq); [exact Hw|apply trail_all_col].
    - apply andb_true_iff in Hw. destruct Hw as [He _]. rewrite <- app_assoc.
      apply (notrail_x q Hq' fuel rq rb rt Hq); [exact He|apply trail_all_col].
  Qed.

  Lemma items_all_rt items post g :
    items <> [] -> forallb (item_wf q) items = true -> Forall (fun i => (ilevel i <= fuel)%nat) items ->
    qfrag q (sepc (map item_toks items) ++ post) = true -> (1 <= hrank post)%nat -> (length items <= g)%nat ->
    comma_list (parse_item q rq) (trail_all q) g (sepc (map item_toks items) ++ post) = Ok (items, post).
  Proof.
    intros Hne Hw Hlv Hf Hr Hg. apply comma_list_rt; auto.
    - eapply (elems_ok_build q _ _ _ (fun i => item_wf q i && Nat.leb (ilevel i) fuel) (fol 1)).
      + intro r. left. reflexivity.
      + intros x post' Hx Hqf Hp. apply andb_true_iff in Hx. destruct Hx as [Hx1 Hx2]. apply PeanoNat.Nat.leb_le in Hx2.
        apply (item_rt q Hq' fuel rq rb rt Hq); auto.
      + rewrite forallb_forall in *. intros x Hin. rewrite (Hw x Hin). rewrite Forall_forall in Hlv.
        apply PeanoNat.Nat.leb_le. auto.
      + rewrite forallb_forall in Hw. apply Forall_forall. intros x Hin r. apply notrail_item_all. apply Hw.
        destruct items; [contradiction|right; exact Hin].
      + exact Hf.
      + right; exact Hr.
    - destruct post as [|[[]| | |] r]; try reflexivity. cbn [hrank] in Hr. lia.
  Qed.

  Lemma site_items_rt items post :
    items <> [] -> forallb (item_wf q) items = true -> nodkw (sepc (map item_toks items)) = true ->
    Forall (fun i => (ilevel i <= fuel)%nat) items ->
    qfrag q (sepc (map item_toks items) ++ post) = true -> comma_kw (sepc (map item_toks items) ++ post) = false ->
    knext post = None -> (1 <= hrank post)%nat ->
    site_items d fuel (sepc (map item_toks items) ++ post) = Ok (items, post).
  Proof.
    intros Hne Hw Hn Hl Hf Hc Hk Hp. unfold site_items, pquery. apply site_use; auto.
    - apply items_all_rt; auto; [apply qfrag_cut; exact Hf|apply cut_hrank; [right; exact Hp|lia]|].
      unfold fuel_of. pose proof (fuel_commas item_toks items (fst (cut post))). lia.
    - intros k c Hk'. congruence.
  Qed.

  Lemma site_orders_rt l post :
    l <> [] -> forallb (oelem_wf q) l = true -> nodkw (sepc (map oelem_toks l)) = true ->
    Forall (fun o => (oelevel o <= fuel)%nat) l ->
    qfrag q (sepc (map oelem_toks l) ++ post) = true -> comma_kw (sepc (map oelem_toks l) ++ post) = false ->
    kr 7 post ->
    site_orders d fuel (sepc (map oelem_toks l) ++ post) = Ok (l, post).
  Proof.
    intros Hne Hw Hn Hl Hf Hc Hp. unfold site_orders, pquery. apply site_use; auto.
    - apply (orders_rt q Hq' fuel rq rb rt Hq); auto; [apply qfrag_cut; exact Hf|apply cut_hrank; [exact Hp|lia]|].
      unfold fuel_of. pose proof (fuel_commas oelem_toks l (fst (cut post))). lia.
    - intros k c _ Hq0. discriminate Hq0.
  Qed.

  (** ** WHERE and RETURNING *)
  Definition sel_level (x : option xexpr) : nat := omax xlevel x.

  Lemma parse_where_rt sel post :
    sel_wf d sel = true -> (sel_level sel <= fuel)%nat ->
    qfrag q (clause_toks (QK KWhere) (otoks sel) ++ post) = true ->
    comma_kw (clause_toks (QK KWhere) (otoks sel) ++ post) = false -> kr 3 post ->
    parse_where d fuel (clause_toks (QK KWhere) (otoks sel) ++ post) = Ok (sel, post).
  Proof.
    intros Hw Hl Hf Hc Hp. unfold parse_where. destruct sel as [e|]; cbn [clause_toks otoks option_map app sel_wf sel_level omax] in *.
    - cbn [opt_tok qtok_eqb qkw_beq]. apply andb_true_iff in Hw. destruct Hw as [Hw Hn].
      rewrite site_expr_rt; [reflexivity|exact Hw|exact Hn|exact Hl|eapply qfrag_cons; exact Hf|
                             eapply comma_kw_cons; exact Hc|eapply (kr_estop 3); [lia|exact Hp]].
    - rewrite opt_tok_miss; [reflexivity|]. apply (head_is_kr _ 3); [exact Hp|reflexivity|cbn; lia].
  Qed.

  Lemma parse_returning_rt ret post :
    ret_wf d ret = true -> (ilevels ret <= fuel)%nat ->
    qfrag q (ret_toks ret ++ post) = true -> comma_kw (ret_toks ret ++ post) = false ->
    knext post = None -> (1 <= hrank post)%nat ->
    parse_returning d fuel (ret_toks ret ++ post) = Ok (ret, post).
  Proof.
    intros Hw Hl Hf Hc Hk Hp. unfold parse_returning. destruct ret as [l|]; cbn [ret_toks app ret_wf ilevels omax] in *.
    - cbn [opt_tok]. rewrite qtok_eqb_refl.
      apply andb_true_iff in Hw. destruct Hw as [Hw Hn]. apply andb_true_iff in Hw. destruct Hw as [Hne Hw].
      rewrite site_items_rt; [reflexivity|destruct l; [discriminate|discriminate]|exact Hw|exact Hn|
                              apply maxl_map_le; exact Hl|eapply qfrag_cons; exact Hf|eapply comma_kw_cons; exact Hc|exact Hk|exact Hp].
    - rewrite opt_tok_miss; [reflexivity|]. apply head_is_kw_none. exact Hk.
  Qed.
End Sites.

(** * Heads of printed pieces *)
Definition qstart_tok (h : qtok) : bool :=
  match h with QK KWith | QK KSelect | QE TLParen | QK KValues | QK KTable => true | _ => false end.

Lemma qtoks_head x X : exists h r, qtoks x ++ X = h :: r /\ qstart_tok h = true.
Proof.
  destruct x as [w b ob lim off]. rewrite qtoks_query. destruct w as [[rc ctes]|].
  - cbn [wtoks with_toks app]. eexists; eexists; split; [reflexivity|reflexivity].
  - cbn [wtoks app]. destruct (btoks_head b) as (h & r & E & H). rewrite E. cbn [app].
    eexists; eexists; split; [reflexivity|]. destruct H as [->|[->|[->| ->]]]; reflexivity.
Qed.

Lemma ender_head_is k rest : ender rest = true -> qtok_eqb (QE TRParen) k = false -> qtok_eqb QSemi k = false -> head_is k rest = false.
Proof.
  destruct rest as [|[[]| | |] r]; cbn [ender head_is]; intros H H1 H2; try discriminate H; auto.
Qed.

Lemma word_not_rparen {B} (X Y : B) w :
  is_word w = true -> match w with QE TRParen => X | _ => Y end = Y.
Proof. destruct w as [[]| | |]; try reflexivity. discriminate. Qed.

Lemma parse_name_rt w r : mname_ok w = true -> parse_name (w :: r) = Ok (w, r).
Proof.
  unfold mname_ok. intro H. apply andb_true_iff in H. destruct H as [Hw Hn]. unfold parse_name, parse_ident.
  rewrite Hw. cbn [bind]. rewrite plain_nk; [reflexivity|apply nk_parts; exact Hn].
Qed.

Lemma mname_neq_kw w k : mname_ok w = true -> qtok_eqb w (kw k) = false.
Proof.
  unfold mname_ok. intro H. apply andb_true_iff in H. destruct H as [_ Hn]. apply nodkw_neq_kw. apply nk_parts. exact Hn.
Qed.


(** what may follow an expression the DML parsers read: a DML keyword or a stop token *)
Definition efol (post : list qtok) : Prop := knext post <> None \/ estop post = true.

Lemma kr_not_comma n post : (1 <= n)%nat -> kr n post -> is_comma post = false.
Proof.
  intros Hn [K|K].
  - destruct post as [|h r]; [reflexivity|]. cbn [knext] in K. destruct h as [[]| | |]; try reflexivity. cbn in K. congruence.
  - destruct post as [|[[]| | |] r]; try reflexivity. cbn [hrank] in K. lia.
Qed.

Lemma ret_kr ret rest : ender rest = true -> kr 9 (ret_toks ret ++ rest).
Proof.
  intro He. destruct ret; cbn [ret_toks app].
  - left. cbn [knext]. rewrite is_dkw_kw. discriminate.
  - apply ender_kr. exact He.
Qed.

Lemma where_kr sel post : kr 3 post -> kr 2 (clause_toks (QK KWhere) (otoks sel) ++ post).
Proof.
  intro H. destruct sel; cbn [clause_toks otoks option_map app].
  - right. cbn [hrank]. lia.
  - eapply kr_le; [|exact H]. lia.
Qed.

Lemma knext_where sel post k : knext (clause_toks (QK KWhere) (otoks sel) ++ post) = Some k -> sel = None /\ knext post = Some k.
Proof. destruct sel; cbn [clause_toks otoks option_map app knext]; intro H; [discriminate|auto]. Qed.

Lemma knext_ret ret rest k : ender rest = true -> knext (ret_toks ret ++ rest) = Some k -> ret <> None /\ k = kw DReturning.
Proof.
  intros He. destruct ret; cbn [ret_toks app knext].
  - rewrite is_dkw_kw. intro H. injection H as <-. split; [discriminate|reflexivity].
  - rewrite (ender_knext _ He). discriminate.
Qed.


(** * Lists of names the DML parsers read themselves *)
Section Names.
  Variable d : mdialect.
  Hypothesis Hd : mdialect_ok d = true.
  Notation q := (qd d).

  Lemma names_elems l : forall post,
    forallb mname_ok l = true -> forallb (later_okm d) (tl l) = true ->
    elems_ok parse_name (trail_m d) (fun c => [c]) l post.
  Proof.
    induction l as [|c r IH]; [intros; exact I|]. intros post Hw Hl. cbn [forallb tl] in *.
    apply andb_true_iff in Hw. destruct Hw as [Hc Hw]. cbn [elems_ok]. split; [|split].
    - cbn [app]. apply parse_name_rt. exact Hc.
    - intro Hne. destruct r as [|c2 r']; [congruence|]. rewrite sepc_follow. cbn [app].
      cbn [forallb] in Hl, Hw. apply andb_true_iff in Hl. destruct Hl as [Hl _]. apply andb_true_iff in Hw. destruct Hw as [Hw _].
      unfold notrail, trail_m, later_okm in *. destruct (trailing q); [|exact I]. cbn [andb] in Hl. apply negb_true_iff in Hl.
      rewrite comma_end_word; [exact Hl|]. unfold mname_ok in Hw. apply andb_true_iff in Hw. tauto.
    - apply IH; [exact Hw|]. destruct r as [|c2 r']; [reflexivity|]. cbn [tl forallb] in *. apply andb_true_iff in Hl. tauto.
  Qed.

  Lemma mem_app w a b : mem w (a ++ b) = mem w a || mem w b.
  Proof. unfold mem. apply existsb_app. Qed.

  (** a word of the query core that does not end a list there does not end one here *)
  Lemma later_ok_okm w : nk w = true -> later_ok q w = true -> later_okm d w = true.
  Proof.
    unfold later_ok, later_okm. intros Hn H. destruct (trailing q); [|reflexivity]. cbn [andb] in *.
    apply negb_true_iff in H. rewrite mem_app, H. cbn [orb]. apply negb_true_iff.
    destruct (mem w (kw_col d)) eqn:E; [|reflexivity]. apply (kw_col_dkw d Hd) in E. apply nk_parts in Hn. destruct Hn as [Hn _]. congruence.
  Qed.

  Lemma cols_names_wf cols : cols_wf q cols = true -> nodkw cols = true ->
    forallb mname_ok cols = true /\ forallb (later_okm d) (tl cols) = true.
  Proof.
    unfold cols_wf. destruct cols as [|c r]; [discriminate|]. intros H Hn. apply andb_true_iff in H. destruct H as [Hw Hl].
    unfold nodkw in Hn. split.
    - rewrite forallb_forall in *. intros w Hin. unfold mname_ok. rewrite (Hw w Hin), (Hn w Hin). reflexivity.
    - cbn [tl]. cbn [forallb] in Hn. apply andb_true_iff in Hn. destruct Hn as [_ Hn].
      rewrite forallb_forall in *. intros w Hin. apply later_ok_okm; auto.
  Qed.

  Lemma names_paren_rt cols post :
    cols_wf q cols = true -> nodkw cols = true ->
    parse_names_paren d (sepc (map (fun c => [c]) cols) ++ QE TRParen :: post) = Ok (cols, post).
  Proof.
    intros Hw Hn. destruct (cols_names_wf cols Hw Hn) as [H1 H2]. unfold parse_names_paren.
    rewrite comma_list_rt; [reflexivity|destruct cols; [discriminate Hw|discriminate]|apply names_elems; assumption|reflexivity|].
    unfold fuel_of. pose proof (fuel_commas (fun c : qtok => [c]) cols (QE TRParen :: post)) as Hfc. clear - Hfc. lia.
  Qed.
End Names.

Section Statements.
  Variable d : mdialect.
  Hypothesis Hd : mdialect_ok d = true.
  Variable fuel : nat.
  Notation q := (qd d).

  Lemma mtoks_insert into table cols source ret rest :
    mtoks_raw (SInsert into table cols source ret) ++ rest =
    kw DInsert :: into_toks into ++ table :: ccols_toks cols ++ source_toks cols source ++ ret_toks ret ++ rest.
  Proof. unfold mtoks_raw. cbn [app]. rewrite <- !app_assoc. cbn [app]. rewrite <- !app_assoc. reflexivity. Qed.

  (** ** INSERT *)
  Lemma insert_rt into table cols source ret rest :
    mwf d (SInsert into table cols source ret) = true ->
    mfrag d (mtoks_raw (SInsert into table cols source ret) ++ rest) = true -> ender rest = true ->
    (mlevel (SInsert into table cols source ret) <= fuel)%nat ->
    parse_dml_core d fuel (mtoks_raw (SInsert into table cols source ret) ++ rest)
    = Ok (SInsert into table cols source ret, rest).
  Proof.
    intros Hw Hf He Hl. rewrite mtoks_insert in *.
    unfold mfrag in Hf. apply andb_true_iff in Hf. destruct Hf as [Hf Hc]. apply negb_true_iff in Hc.
    unfold mwf in Hw. apply andb_true_iff in Hw. destruct Hw as [Hw Hret]. apply andb_true_iff in Hw. destruct Hw as [Hw Hsrc].
    apply andb_true_iff in Hw. destruct Hw as [Hw Hcn]. apply andb_true_iff in Hw. destruct Hw as [Hw Hcw].
    apply andb_true_iff in Hw. destruct Hw as [Hname Htb].
    apply negb_true_iff in Htb.
    unfold mlevel in Hl.
    assert (Hl1 : (omax qlevel source <= fuel)%nat) by (clear - Hl; lia).
    assert (Hl2 : (ilevels ret <= fuel)%nat) by (clear - Hl; lia). clear Hl.
    set (R := ret_toks ret ++ rest) in *.
    set (S0 := source_toks cols source) in *.
    assert (HfS : qfrag q (S0 ++ R) = true).
    { pose proof Hf as H. apply qfrag_cons in H. apply qfrag_app in H. apply qfrag_cons in H. apply qfrag_app in H. exact H. }
    assert (HcS : comma_kw (S0 ++ R) = false).
    { pose proof Hc as H. apply comma_kw_cons in H. apply comma_kw_app in H. apply comma_kw_cons in H. apply comma_kw_app in H. exact H. }
    assert (HfR : qfrag q R = true) by (eapply qfrag_app; exact HfS).
    assert (HcR : comma_kw R = false) by (eapply comma_kw_app; exact HcS).
    clear Hf Hc.
    unfold parse_dml_core, parse_dml_step. rewrite qtok_eqb_refl.
    assert (HR : knext R <> None \/ ender R = true).
    { unfold R. destruct ret; [left; cbn [ret_toks app knext]; rewrite is_dkw_kw; discriminate|right; exact He]. }
    assert (HRas : forall k, qtok_eqb (QE TRParen) k = false -> qtok_eqb QSemi k = false -> is_dkw k = false ->
                             head_is k R = false).
    { intros k H1 H2 H3. unfold R. destruct ret; cbn [ret_toks app].
      - cbn [head_is]. apply qtok_eqb_neq. intro E. subst k. rewrite is_dkw_kw in H3. discriminate.
      - apply ender_head_is; assumption. }
    (* the tail after the source *)
    assert (Htail : forall cs src,
      (if ins_row_alias d && fst (opt_tok (QK KAs) R) then OutOfFragment
       else if fst (opt_tok (QK KOn) R) then Err
       else bind (parse_returning d fuel R) (fun '(ret0, r7) => Ok (SInsert into table cs src ret0, r7)))
      = Ok (SInsert into table cs src ret, rest)).
    { intros cs src. rewrite (opt_tok_miss (QK KAs)) by (apply HRas; reflexivity).
      rewrite (opt_tok_miss (QK KOn)) by (apply HRas; reflexivity). cbn [fst]. rewrite andb_false_r.
      unfold R. rewrite parse_returning_rt; [reflexivity|exact Hd|exact Hret|exact Hl2|exact HfR|exact HcR|apply ender_knext; exact He|
                                            rewrite (ender_hrank _ He); repeat constructor]. }
    unfold parse_insert_core.
    assert (Hinto : opt_tok (kw DInto) (into_toks into ++ table :: ccols_toks cols ++ S0 ++ R)
                    = (into, table :: ccols_toks cols ++ S0 ++ R)).
    { destruct into; cbn [into_toks app].
      - cbn [opt_tok]. rewrite qtok_eqb_refl. reflexivity.
      - apply opt_tok_miss. cbn [head_is]. apply mname_neq_kw. exact Hname. }
    rewrite Hinto. cbv beta iota.
    rewrite (opt_tok_miss (QK KTable)) by (cbn [head_is]; exact Htb). cbn [fst].
    rewrite parse_name_rt by exact Hname. cbn [bind].
    destruct source as [x|].
    - (* a query *)
      apply andb_true_iff in Hsrc. destruct Hsrc as [Hsrc Hfo]. apply andb_true_iff in Hsrc. destruct Hsrc as [Hsrc Hlp].
      apply andb_true_iff in Hsrc. destruct Hsrc as [Hqw Hqn]. apply negb_true_iff in Hlp.
      unfold S0 in *. cbn [source_toks] in *.
      destruct (qtoks_head x R) as (h & r & Eh & Hh).
      assert (Hsite : site_query d fuel (qtoks x ++ R) = Ok (x, R)).
      { apply site_query_rt; auto.
        - intros k c Hk Ho. unfold R in Hk. destruct ret as [l|]; cbn [ret_toks app knext] in Hk.
          + rewrite is_dkw_kw in Hk. injection Hk as <-. cbn [is_none orb] in Hfo. unfold follows_ok in Hfo.
            rewrite Ho in Hfo. exact Hfo.
          + rewrite (ender_knext _ He) in Hk. discriminate. }
      assert (Hnotkw : forall k, qtok_eqb h (kw k) = false).
      { intro k. destruct h as [[]|[]| |]; try discriminate Hh; reflexivity. }
      assert (Hsd : starts_dml (h :: r) = false) by (cbn [starts_dml]; rewrite !Hnotkw; reflexivity).
      assert (Hlph : (match cols with [] => true | _ => false end || ins_after_cols d) = true ->
                     qtok_eqb h (QE TLParen) = false).
      { intro Hx. rewrite Hx in Hlp. cbn [andb] in Hlp.
        destruct (qtoks_head x []) as (h' & r' & Eh' & _). rewrite app_nil_r in Eh'. rewrite Eh' in Eh, Hlp.
        cbn [app] in Eh. injection Eh as <- _. exact Hlp. }
      destruct cols as [|c0 cs].
      + (* no column list *)
        cbn [ccols_toks app] in *. specialize (Hlph eq_refl). rewrite Eh in *.
        rewrite (opt_tok_miss (QK KAs)) by (cbn [head_is]; destruct h as [[]|[]| |]; try discriminate Hh; reflexivity).
        cbn [fst]. rewrite andb_false_r.
        assert (H2 : opt_tok2 (kw DDefault) (QK KValues) (h :: r) = (false, h :: r)).
        { cbn [opt_tok2]. destruct r; [reflexivity|]. rewrite Hnotkw. reflexivity. }
        rewrite H2. cbv beta iota.
        assert (Hm : match h :: r with
                     | QE TLParen :: r' =>
                         match r' with
                         | QE TRParen :: r'' => if ins_empty_cols d then Ok ([], r'') else parse_names_paren d r'
                         | _ => parse_names_paren d r'
                         end
                     | _ => Ok ([], h :: r)
                     end = Ok ([], h :: r)).
        { destruct h as [[]|[]| |]; try discriminate Hh; try reflexivity. discriminate Hlph. }
        rewrite Hm. cbn [bind].
        rewrite (opt_tok_miss (QE TLParen)) by (cbn [head_is]; exact Hlph). cbn [fst]. rewrite andb_false_r.
        rewrite Hsd. rewrite Hsite. cbn [bind]. apply Htail.
      + (* a column list *)
        cbn [ccols_toks cols_toks app] in *. rewrite <- !app_assoc. cbn [app].
        cbn [opt_tok qtok_eqb tok_eqb fst]. rewrite andb_false_r.
        assert (H2 : forall Z, opt_tok2 (kw DDefault) (QK KValues) (QE TLParen :: Z) = (false, QE TLParen :: Z)).
        { intro Z. cbn [opt_tok2]. destruct Z; reflexivity. }
        rewrite H2. cbv beta iota.
        assert (Hc0 : is_word c0 = true).
        { unfold ccols_wf, cols_wf in Hcw. apply andb_true_iff in Hcw. destruct Hcw as [Hcw _].
          cbn [forallb] in Hcw. apply andb_true_iff in Hcw. tauto. }
        rewrite (sepc_follow (fun c => [c]) c0 cs). cbn [app].
        rewrite (word_not_rparen _ _ c0 Hc0).
        change (c0 :: follow (fun c => [c]) cs (QE TRParen :: qtoks x ++ R))
          with ([c0] ++ follow (fun c => [c]) cs (QE TRParen :: qtoks x ++ R)).
        rewrite <- (sepc_follow (fun c => [c]) c0 cs).
        rewrite (names_paren_rt d Hd); [|exact Hcw|exact Hcn]. cbn [bind].
        rewrite Eh in *.
        assert (Hlp' : ins_after_cols d && fst (opt_tok (QE TLParen) (h :: r)) = false).
        { destruct (ins_after_cols d); [|reflexivity]. cbn [andb].
          rewrite opt_tok_miss; [reflexivity|]. cbn [head_is]. apply Hlph. reflexivity. }
        rewrite Hlp'. rewrite Hsd. rewrite Hsite. cbn [bind]. apply Htail.
    - (* DEFAULT VALUES *)
      destruct cols as [|c0 cs]; [|discriminate Hsrc]. unfold S0 in *. cbn [ccols_toks source_toks app] in *.
      rewrite (opt_tok_miss (QK KAs)) by (cbn [head_is]; apply qtok_eqb_neq; discriminate).
      cbn [fst]. rewrite andb_false_r.
      assert (H2 : opt_tok2 (kw DDefault) (QK KValues) (kw DDefault :: QK KValues :: R) = (true, R)).
      { cbn [opt_tok2]. rewrite qtok_eqb_refl. reflexivity. }
      rewrite H2. cbv beta iota. cbn [bind]. apply Htail.
  Qed.
  Lemma word_not_lparen {B} (X Y : B) w : is_word w = true -> match w with QE TLParen => X | _ => Y end = Y.
  Proof. destruct w as [[]| | |]; try reflexivity. discriminate. Qed.

  Lemma parse_assignment_rt a post :
    assign_wf d a = true -> (alevel a <= fuel)%nat ->
    qfrag q (assign_toks a ++ post) = true -> comma_kw (assign_toks a ++ post) = false -> efol post ->
    parse_assignment d fuel (assign_toks a ++ post) = Ok (a, post).
  Proof.
    destruct a as [t v]. unfold assign_wf, alevel, assign_toks. intros Hw Hl Hf Hc Hp.
    apply andb_true_iff in Hw. destruct Hw as [Hw Hvn]. apply andb_true_iff in Hw. destruct Hw as [Htw Hvw].
    rewrite <- app_assoc in *. cbn [app] in *. unfold parse_assignment.
    assert (Ht : parse_target d (target_toks t ++ QE (TOp K_Eq) :: xtoks v ++ post) = Ok (t, QE (TOp K_Eq) :: xtoks v ++ post)).
    { destruct t as [c|cs]; cbn [target_toks target_wf] in *.
      - cbn [app]. unfold parse_target. 
        assert (Hcw : is_word c = true) by (unfold mname_ok in Htw; apply andb_true_iff in Htw; tauto).
        rewrite (word_not_lparen _ _ c Hcw). rewrite parse_name_rt by exact Htw. reflexivity.
      - apply andb_true_iff in Htw. destruct Htw as [Hcw Hcn]. unfold cols_toks. cbn [app]. rewrite <- app_assoc. cbn [app].
        unfold parse_target. rewrite (names_paren_rt d Hd) by assumption. reflexivity. }
    rewrite Ht. cbn [bind]. rewrite qtok_eqb_refl.
    assert (Hf2 : qfrag q (xtoks v ++ post) = true) by (apply qfrag_app in Hf; eapply qfrag_cons; exact Hf).
    assert (Hc2 : comma_kw (xtoks v ++ post) = false) by (apply comma_kw_app in Hc; eapply comma_kw_cons; exact Hc).
    rewrite site_expr_rt; auto.
  Qed.

  (** the first token of an assignment does not end a list after a trailing comma *)
  Lemma notrail_assign a r : assign_wf d a = true -> later_okm d (assign_head a) = true ->
    notrail (trail_m d) (assign_toks a ++ r).
  Proof.
    destruct a as [t v]. unfold assign_wf, assign_toks, assign_head, notrail, trail_m, later_okm. intros Hw Hl.
    destruct (trailing q) eqn:T; [|exact I]. cbn [andb] in Hl. apply negb_true_iff in Hl.
    apply andb_true_iff in Hw. destruct Hw as [Hw _]. apply andb_true_iff in Hw. destruct Hw as [Htw _].
    rewrite <- app_assoc. destruct t as [c|cs]; cbn [target_toks target_head target_wf app] in *.
    - rewrite comma_end_word; [exact Hl|]. unfold mname_ok in Htw. apply andb_true_iff in Htw. tauto.
    - unfold cols_toks. cbn [app comma_end]. exact Hl.
  Qed.

  Lemma assigns_elems l : forall post,
    forallb (assign_wf d) l = true -> forallb (fun a => later_okm d (assign_head a)) (tl l) = true ->
    Forall (fun a => (alevel a <= fuel)%nat) l ->
    qfrag q (sepc (map assign_toks l) ++ post) = true -> comma_kw (sepc (map assign_toks l) ++ post) = false ->
    efol post ->
    elems_ok (parse_assignment d fuel) (trail_m d) assign_toks l post.
  Proof.
    induction l as [|x suf IH]; intros post Hw Hlt Hlv Hf Hc Hp; [exact I|].
    cbn [forallb] in Hw. apply andb_true_iff in Hw. destruct Hw as [Hx Hw]. cbn [tl] in Hlt.
    inversion Hlv as [|? ? Hl1 Hl2]; subst.
    rewrite sepc_follow in Hf, Hc. cbn [elems_ok]. split; [|split].
    - apply parse_assignment_rt; auto. destruct suf; [exact Hp|right; reflexivity].
    - intro Hne. destruct suf as [|y suf']; [congruence|]. rewrite sepc_follow.
      cbn [forallb] in Hlt, Hw. apply andb_true_iff in Hlt. apply andb_true_iff in Hw.
      apply notrail_assign; tauto.
    - destruct suf as [|y suf']; [exact I|]. apply IH; auto.
      + cbn [forallb] in Hlt. apply andb_true_iff in Hlt. destruct Hlt as [_ Hlt]. destruct suf'; [reflexivity|exact Hlt].
      + cbn [follow] in Hf. apply qfrag_app in Hf. eapply qfrag_cons. exact Hf.
      + cbn [follow] in Hc. apply comma_kw_app in Hc. eapply comma_kw_cons. exact Hc.
  Qed.

  Lemma mtoks_update table assigns from sel ret rest :
    mtoks_raw (SUpdate table assigns from sel ret) ++ rest =
    kw DUpdate :: twj_toks table ++ set_toks assigns ++ ofrom_toks from ++ clause_toks (QK KWhere) (otoks sel) ++
    ret_toks ret ++ rest.
  Proof. unfold mtoks_raw. cbn [app]. rewrite <- !app_assoc. reflexivity. Qed.

  (** ** UPDATE *)
  Lemma update_rt table assigns from sel ret rest :
    mwf d (SUpdate table assigns from sel ret) = true ->
    mfrag d (mtoks_raw (SUpdate table assigns from sel ret) ++ rest) = true -> ender rest = true ->
    (mlevel (SUpdate table assigns from sel ret) <= fuel)%nat ->
    parse_dml_core d fuel (mtoks_raw (SUpdate table assigns from sel ret) ++ rest)
    = Ok (SUpdate table assigns from sel ret, rest).
  Proof.
    intros Hw Hf He Hl. rewrite mtoks_update in *.
    unfold mfrag in Hf. apply andb_true_iff in Hf. destruct Hf as [Hf Hc]. apply negb_true_iff in Hc.
    unfold mwf in Hw. apply andb_true_iff in Hw. destruct Hw as [Hw Hret]. apply andb_true_iff in Hw. destruct Hw as [Hw Hsel].
    apply andb_true_iff in Hw. destruct Hw as [Hw Hfrom]. apply andb_true_iff in Hw. destruct Hw as [Hw Hlater].
    apply andb_true_iff in Hw. destruct Hw as [Hw Hasw]. apply andb_true_iff in Hw. destruct Hw as [Hw Hne].
    apply andb_true_iff in Hw. destruct Hw as [Htw Hset]. unfold twjm_wf in Htw. apply andb_true_iff in Htw. destruct Htw as [Htw Htn].
    unfold mlevel in Hl.
    assert (Hl1 : (S (twjlevel table) <= fuel)%nat) by (clear - Hl; lia).
    assert (Hl2 : (maxl (map alevel assigns) <= fuel)%nat) by (clear - Hl; lia).
    assert (Hl3 : (omax (fun t => S (twjlevel t)) from <= fuel)%nat) by (clear - Hl; lia).
    assert (Hl4 : (omax xlevel sel <= fuel)%nat) by (clear - Hl; lia).
    assert (Hl5 : (ilevels ret <= fuel)%nat) by (clear - Hl; lia). clear Hl.
    set (R := ret_toks ret ++ rest) in *.
    set (W := clause_toks (QK KWhere) (otoks sel) ++ R) in *.
    set (F := ofrom_toks from ++ W) in *.
    set (S0 := set_toks assigns ++ F) in *.
    assert (Hf0 : qfrag q (twj_toks table ++ S0) = true) by (eapply qfrag_cons; exact Hf).
    assert (Hc0 : comma_kw (twj_toks table ++ S0) = false) by (eapply comma_kw_cons; exact Hc).
    assert (HfS : qfrag q S0 = true) by (eapply qfrag_app; exact Hf0).
    assert (HcS : comma_kw S0 = false) by (eapply comma_kw_app; exact Hc0).
    assert (HfF : qfrag q F = true) by (eapply qfrag_app; exact HfS).
    assert (HcF : comma_kw F = false) by (eapply comma_kw_app; exact HcS).
    assert (HfW : qfrag q W = true) by (eapply qfrag_app; exact HfF).
    assert (HcW : comma_kw W = false) by (eapply comma_kw_app; exact HcF).
    assert (HfR : qfrag q R = true) by (eapply qfrag_app; exact HfW).
    assert (HcR : comma_kw R = false) by (eapply comma_kw_app; exact HcW).
    clear Hf Hc.
    assert (KR : kr 9 R) by (apply ret_kr; exact He).
    assert (KW : kr 2 W) by (apply where_kr; eapply kr_le; [|exact KR]; repeat constructor).
    unfold parse_dml_core, parse_dml_step.
    assert (E1 : qtok_eqb (kw DUpdate) (kw DInsert) = false) by reflexivity. rewrite E1. rewrite qtok_eqb_refl.
    unfold parse_update_core.
    destruct assigns as [|a0 as'] eqn:Ea; [discriminate Hne|]. rewrite <- Ea in *.
    assert (ES : S0 = kw DSet :: sepc (map assign_toks assigns) ++ F).
    { unfold S0. rewrite Ea. cbn [set_toks app]. reflexivity. }
    rewrite site_twj_rt; [|exact Hd|exact Htw|exact Htn|exact Hl1|exact Hf0|exact Hc0| |].
    2: { left. rewrite ES. cbn [knext]. rewrite is_dkw_kw. discriminate. }
    2: { intros k Hk Ho. rewrite ES in Hk. cbn [knext] in Hk. rewrite is_dkw_kw in Hk. injection Hk as <-.
         unfold follows_ok, twj_opn, opt_site in Hset. rewrite Ho in Hset. exact Hset. }
    cbn [bind]. rewrite ES. cbn [opt_tok]. rewrite qtok_eqb_refl. cbv beta iota. cbn [negb].
    rewrite ES in HfS, HcS.
    assert (EFol : efol F).
    { unfold F. destruct from as [t|]; cbn [ofrom_toks app]; [right; reflexivity|]. eapply (kr_estop 2); [repeat constructor|exact KW]. }
    rewrite comma_list_rt.
    2: { rewrite Ea. discriminate. }
    2: { apply assigns_elems; [exact Hasw|exact Hlater|apply maxl_map_le; exact Hl2|eapply qfrag_cons; exact HfS|
                               eapply comma_kw_cons; exact HcS|exact EFol]. }
    2: { unfold F. destruct from; cbn [ofrom_toks app]; [reflexivity|]. eapply (kr_not_comma 2); [repeat constructor|exact KW]. }
    2: { unfold fuel_of. pose proof (fuel_commas assign_toks assigns F) as Hfc. clear - Hfc. lia. }
    cbn [bind].
    destruct from as [t|].
    - (* FROM t *)
      apply andb_true_iff in Hfrom. destruct Hfrom as [Hfrom Hfo]. apply andb_true_iff in Hfrom. destruct Hfrom as [Huf Htw2].
      unfold twjm_wf in Htw2. apply andb_true_iff in Htw2. destruct Htw2 as [Htw2 Htn2].
      unfold F. cbn [ofrom_toks app opt_tok qtok_eqb tok_eqb kwd_beq]. cbv beta iota. rewrite Huf. cbn [andb].
      unfold F in HfF, HcF. cbn [ofrom_toks app] in HfF, HcF.
      rewrite site_twj_rt; [|exact Hd|exact Htw2|exact Htn2|exact Hl3|eapply qfrag_cons; exact HfF|eapply comma_kw_cons; exact HcF|exact KW|].
      2: { intros k Hk Ho. unfold W in Hk. apply knext_where in Hk. destruct Hk as [-> Hk].
           apply (knext_ret _ _ _ He) in Hk. destruct Hk as [Hr ->].
           cbn [is_none negb orb] in Hfo. destruct ret; [|congruence]. cbn [is_none orb] in Hfo.
           unfold follows_ok, twj_opn, opt_site in Hfo. rewrite Ho in Hfo. exact Hfo. }
      cbn [bind]. unfold W. rewrite parse_where_rt; [|exact Hd|exact Hsel|exact Hl4|exact HfW|exact HcW|eapply kr_le; [|exact KR]; repeat constructor].
      cbn [bind]. unfold R. rewrite parse_returning_rt; [reflexivity|exact Hd|exact Hret|exact Hl5|exact HfR|exact HcR|
        apply ender_knext; exact He|rewrite (ender_hrank _ He); repeat constructor].
    - (* no FROM *)
      unfold F. cbn [ofrom_toks app]. rewrite (opt_tok_miss (QE (TKw KFrom))).
      2: { apply (head_is_kr _ 2); [exact KW|reflexivity|cbn; repeat constructor]. }
      cbv beta iota. cbn [andb bind].
      unfold W. rewrite parse_where_rt; [|exact Hd|exact Hsel|exact Hl4|exact HfW|exact HcW|eapply kr_le; [|exact KR]; repeat constructor].
      cbn [bind]. unfold R. rewrite parse_returning_rt; [reflexivity|exact Hd|exact Hret|exact Hl5|exact HfR|exact HcR|
        apply ender_knext; exact He|rewrite (ender_hrank _ He); repeat constructor].
  Qed.
End Statements.

(** * A table with joins in front of the USING clause of DELETE.
    [QueryCoreProofs.twj_roundtrip] covers the followers of a FROM element of a query; USING is not one
    of them (it would be read as the constraint of a join that has none). *)
Definition is_using (post : list qtok) : bool := head_is (QK KUsing) post.

Section Using.
  Variable q : qdialect.
  Hypothesis Hq' : dialect_ok q = true.
  Variable f : nat.
  Notation L := (parse_lvl q f).
  Notation rq := (pq L).
  Notation rb := (pb L).
  Notation rt := (pt L).

  Lemma LHq : forall x post, qwf q x = true -> (qlevel x <= f)%nat -> ender post = true ->
    qfrag q (qtoks x ++ post) = true -> rq (qtoks x ++ post) = Ok (x, post).
  Proof. exact (proj1 (parse_lvl_rt q Hq' f)). Qed.
  Lemma LHb : forall b p post, bwf q b = true -> (blevel b <= f)%nat -> blspine_gtb p b = true -> headpow post <= p ->
    brspine_geb (headpow post) b = true -> (5 <= hrank post)%nat -> qfrag q (btoks b ++ post) = true ->
    rb p (btoks b ++ post) = Ok (b, post).
  Proof. exact (proj1 (proj2 (parse_lvl_rt q Hq' f))). Qed.
  Lemma LHt : forall t post, twj_wf q t = true -> (S (twjlevel t) <= f)%nat -> qfrag q (twj_toks t ++ post) = true ->
    fol 2 post -> rt (twj_toks t ++ post) = Ok (t, post).
  Proof. exact (proj1 (proj2 (proj2 (parse_lvl_rt q Hq' f)))). Qed.
  Lemma LHn : forall r post, tref_wf q r = true -> first_ok r = true -> (S (tlevel r) <= f)%nat ->
    (bare_derived r = true -> jstart post = true) -> qfrag q (tref_toks r ++ post) = true ->
    notq (rq (tref_toks r ++ post)).
  Proof. exact (proj2 (proj2 (proj2 (parse_lvl_rt q Hq' f)))). Qed.

  Lemma using_jhead post : is_using post = true -> jhead post = true.
  Proof. destruct post as [|[|[]| |] r]; cbn [is_using head_is qtok_eqb qkw_beq]; intro H; try discriminate H; reflexivity. Qed.
  Lemma using_estop post : is_using post = true -> estop post = true.
  Proof. destruct post as [|[|[]| |] r]; cbn [is_using head_is qtok_eqb qkw_beq]; intro H; try discriminate H; reflexivity. Qed.

  Lemma join_loop_using g post : is_using post = true -> join_loop q rq rt (S g) post = Ok ([], post).
  Proof. destruct post as [|[|[]| |] r]; cbn [is_using head_is qtok_eqb qkw_beq]; intro H; try discriminate H; reflexivity. Qed.

  (** the last join, in front of USING: it has a constraint (or is CROSS / NATURAL) *)
  Lemma join_rt_using o r post g :
    jop_wf q o = true -> (joplevel o <= f)%nat -> tref_wf q r = true -> (tlevel r <= f)%nat ->
    is_using post = true -> join_bare (Join o r) = false ->
    qfrag q (join_toks (Join o r) ++ post) = true ->
    join_loop q rq rt (S g) (join_toks (Join o r) ++ post) =
    bind (join_loop q rq rt g post) (fun '(js, r4) => Ok (Join o r :: js, r4)).
  Proof.
    intros Hw Hol Hrw Hl Hp Hb Hf. cbn [join_toks] in *. rewrite <- !app_assoc in *.
    pose proof (using_jhead _ Hp) as Hj.
    destruct o as [|k c].
    - cbn [jop_pre jop_suf app] in *. cbn [join_loop].
      rewrite (tref_rt q Hq' f rq rb rt LHq LHt LHn); [|exact Hrw|exact Hl| |right; exact Hj].
      + reflexivity.
      + do 2 apply qfrag_cons in Hf. exact Hf.
    - assert (Hpre : jop_pre (JOp k c) = (match c with JNatural => [QK KNatural] | _ => [] end) ++ jkind_toks k)
        by (destruct c; reflexivity).
      rewrite Hpre in *. rewrite <- !app_assoc in *. cbn [jop_suf jop_wf jop_wfg joplevel] in *.
      assert (Htf : tfol (jcons_toks c ++ post)).
      { destruct c; cbn [jcons_toks app]; right; try reflexivity; exact Hj. }
      assert (Hf2 : qfrag q (tref_toks r ++ jcons_toks c ++ post) = true).
      { apply qfrag_app in Hf. apply qfrag_app in Hf. exact Hf. }
      assert (Hf3 : qfrag q (jcons_toks c ++ post) = true) by (apply qfrag_app in Hf2; exact Hf2).
      assert (Hc : parse_jcons q rq (match c with JNatural => true | _ => false end) (jcons_toks c ++ post) = Ok (c, post)).
      { destruct c as [x|cols| |]; cbn [jcons_toks jcons_wf jcons_wfg jclevel app] in *.
        - cbn [parse_jcons].
          rewrite (pex_rt q Hq' f rq rb rt LHq); [reflexivity|exact Hw|exact Hol|eapply qfrag_cons; exact Hf3|apply using_estop; exact Hp].
        - cbn [parse_jcons]. unfold cols_toks. cbn [app]. rewrite <- app_assoc. cbn [app].
          rewrite (cols_rt q rt) by exact Hw. reflexivity.
        - reflexivity.
        - discriminate Hb. }
      destruct c as [e|cols| |]; destruct k;
        cbn [app jkind_toks join_loop opt_tok qtok_eqb qkw_beq parse_jkind expect_join bind];
        (rewrite (tref_rt q Hq' f rq rb rt LHq LHt LHn) by assumption); cbn [bind]; rewrite Hc; reflexivity.
  Qed.

  Lemma joins_rt_using js : forall post g,
    forallb (join_wf q) js = true -> Forall (fun j => (jlevel j <= f)%nat) js ->
    qfrag q (concat (map join_toks js) ++ post) = true -> is_using post = true ->
    match rev js with j :: _ => join_bare j = false | [] => True end -> (S (length js) < g)%nat ->
    join_loop q rq rt g (concat (map join_toks js) ++ post) = Ok (js, post).
  Proof.
    induction js as [|[o r] js IH]; intros post g Hw Hl Hf Hp Hb Hg.
    - destruct g as [|g]; [lia|]. apply join_loop_using. exact Hp.
    - destruct g as [|g]; [lia|]. cbn [map concat] in *. rewrite <- app_assoc in *.
      cbn [forallb] in Hw. apply andb_true_iff in Hw. destruct Hw as [Hw Hws].
      assert (Hw' : jop_wf q o && tref_wf q r = true) by exact Hw.
      apply andb_true_iff in Hw'. destruct Hw' as [How Hrw]. inversion Hl as [|? ? Hl1 Hl2]; subst. cbn [jlevel] in Hl1.
      destruct js as [|j2 js'].
      + cbn [map concat app] in *. destruct g as [|g]; [cbn [length] in Hg; lia|].
        cbn [rev app] in Hb.
        rewrite join_rt_using; [|exact How|lia|exact Hrw|lia|exact Hp|exact Hb|exact Hf].
        rewrite join_loop_using by exact Hp. reflexivity.
      + rewrite (join_rt q Hq' f rq rb rt LHq LHb LHt LHn); [|exact How|lia|exact Hrw|lia| |exact Hf].
        * rewrite IH; [reflexivity|exact Hws|exact Hl2|eapply qfrag_app; exact Hf|exact Hp| |cbn [length] in *; lia].
          cbn [rev] in Hb |- *. destruct (rev js' ++ [j2]) as [|j0 l0]; [exact I|exact Hb].
        * right. apply jstart_joins. discriminate.
  Qed.

  Lemma twj_step_using t post :
    twj_wf q t = true -> (twjlevel t <= f)%nat -> qfrag q (twj_toks t ++ post) = true ->
    is_using post = true -> twj_bare t = false ->
    twj_step q rq rt (twj_toks t ++ post) = Ok (t, post).
  Proof.
    destruct t as [r js]. cbn [twjlevel twj_toks twj_bare]. intros Hw Hl Hf Hp Hb.
    assert (Hw' : tref_wf q r && forallb (join_wf q) js = true) by exact Hw.
    apply andb_true_iff in Hw'. destruct Hw' as [Hrw Hjw]. rewrite <- app_assoc in *. unfold twj_step.
    assert (Hl1 : (tlevel r <= f)%nat) by (clear - Hl; lia).
    assert (Hl2 : (maxl (map jlevel js) <= f)%nat) by (clear - Hl; lia).
    rewrite (tref_rt q Hq' f rq rb rt LHq LHt LHn); [|exact Hrw|exact Hl1|exact Hf|].
    - cbn [bind]. rewrite joins_rt_using; [reflexivity|exact Hjw| |eapply qfrag_app; exact Hf|exact Hp| |].
      + apply maxl_map_le. exact Hl2.
      + destruct (rev js); [exact I|exact Hb].
      + destruct post as [|p0 pr]; [discriminate Hp|]. pose proof (joins_length js []) as Hjl. rewrite app_nil_r in Hjl.
        rewrite app_length. cbn [length]. clear - Hjl. lia.
    - destruct js as [|j js']; [right; cbn [map concat app]; apply using_jhead; exact Hp|].
      right. apply jstart_jhead, jstart_joins. discriminate.
  Qed.
End Using.

Theorem twj_roundtrip_using q (Hq' : dialect_ok q = true) t post fuel :
  twj_wf q t = true -> qfrag q (twj_toks t ++ post) = true -> is_using post = true -> twj_bare t = false ->
  (S (twjlevel t) <= fuel)%nat ->
  parse_twj q fuel (twj_toks t ++ post) = Ok (t, post).
Proof.
  intros Hw Hf Hp Hb Hl. destruct fuel as [|f]; [lia|]. unfold parse_twj. cbn [parse_lvl pt].
  apply twj_step_using; auto. lia.
Qed.

(** * Lists of tables in front of a clause of DELETE *)
Fixpoint lastx {A} (l : list A) : option A :=
  match l with [] => None | [x] => Some x | _ :: r => lastx r end.

Lemma lastx_rev {A} (l : list A) : lastx l = match rev l with t :: _ => Some t | [] => None end.
Proof.
  induction l as [|a l IH]; [reflexivity|]. destruct l as [|y l']; [reflexivity|].
  change (lastx (a :: y :: l')) with (lastx (y :: l')). rewrite IH. cbn [rev].
  destruct (rev l' ++ [y]) as [|t r] eqn:E; [destruct (rev l'); discriminate E|reflexivity].
Qed.

Lemma nk_comma : nk (QE TComma) = true.
Proof. reflexivity. Qed.

Lemma nodkw_app a b : nodkw (a ++ b) = nodkw a && nodkw b.
Proof. unfold nodkw. apply forallb_app. Qed.

Lemma nodkw_sepc {A} (toks : A -> list qtok) l : forallb (fun x => nodkw (toks x)) l = true -> nodkw (sepc (map toks l)) = true.
Proof.
  induction l as [|x r IH]; [reflexivity|]. cbn [forallb]. intro H. apply andb_true_iff in H. destruct H as [Hx Hr].
  destruct r as [|y r']; [exact Hx|]. cbn [map]. rewrite sepc_cons. rewrite nodkw_app. rewrite Hx. cbn [andb nodkw forallb].
  rewrite nk_comma. cbn [andb]. apply IH. exact Hr.
Qed.

Lemma twj_toks_nonempty t : twj_toks t <> [].
Proof. destruct t as [[n a|x a|x a] js]; cbn [twj_toks tref_toks app]; discriminate. Qed.

Lemma head_is_app k a b : a <> [] -> head_is k (a ++ b) = head_is k a.
Proof. destruct a; [congruence|reflexivity]. Qed.

Lemma sepc_nonempty (x : list qtok) l : x <> [] -> sepc (x :: l) <> [].
Proof. destruct x; [congruence|]. destruct l; discriminate. Qed.

Lemma levels_S (l : list twj) fuel : (S (maxl (map twjlevel l)) <= fuel)%nat -> Forall (fun t => (S (twjlevel t) <= fuel)%nat) l.
Proof.
  intro H. destruct fuel as [|f]; [lia|]. apply le_S_n in H. apply maxl_map_le in H.
  eapply Forall_impl; [|exact H]. intros t Ht. cbv beta in Ht. lia.
Qed.

Lemma opt_tok2_miss_rank ts : (7 <= hrank ts)%nat -> opt_tok2 (QK KOrder) (QK KBy) ts = (false, ts).
Proof. intro H. head_cases ts; cbn [hrank] in H; try lia; try reflexivity; destruct ts; reflexivity. Qed.

Section Delete.
  Variable d : mdialect.
  Hypothesis Hd : mdialect_ok d = true.
  Variable fuel : nat.
  Notation q := (qd d).
  Notation Hq0 := (Hq' d Hd).

  (** what may follow the last table of a list: a comma or the end of the clause, or USING if the
      table's last join has a constraint *)
  Definition ufol (t : twj) (post : list qtok) : Prop :=
    fol 2 post \/ (is_using post = true /\ twj_bare t = false).

  Lemma ptwj_rt t post :
    twj_wf q t = true -> (S (twjlevel t) <= fuel)%nat -> qfrag q (twj_toks t ++ post) = true -> ufol t post ->
    parse_twj q fuel (twj_toks t ++ post) = Ok (t, post).
  Proof.
    intros Hw Hl Hf [Hp|[Hp Hb]].
    - apply (twj_roundtrip q Hq0); auto.
    - apply (twj_roundtrip_using q Hq0); auto.
  Qed.

  Lemma twjs_elems l : forall post,
    forallb (twj_wf q) l = true -> forallb (twj_head_ok q) (tl l) = true ->
    Forall (fun t => (S (twjlevel t) <= fuel)%nat) l ->
    qfrag q (sepc (map twj_toks l) ++ post) = true ->
    (forall t, lastx l = Some t -> ufol t post) ->
    elems_ok (parse_twj q fuel) (trail_all q) twj_toks l post.
  Proof.
    induction l as [|x suf IH]; intros post Hw Hlt Hlv Hf Hp; [exact I|].
    cbn [forallb] in Hw. apply andb_true_iff in Hw. destruct Hw as [Hx Hw]. cbn [tl] in Hlt.
    inversion Hlv as [|? ? Hl1 Hl2]; subst.
    rewrite sepc_follow in Hf. cbn [elems_ok]. split; [|split].
    - apply ptwj_rt; auto. destruct suf; [apply Hp; reflexivity|left; left; reflexivity].
    - intro Hne. destruct suf as [|y suf']; [congruence|]. rewrite sepc_follow.
      cbn [forallb] in Hlt, Hw. apply andb_true_iff in Hlt. apply andb_true_iff in Hw.
      apply (notrail_twj q Hq0); tauto.
    - destruct suf as [|y suf']; [exact I|]. apply IH; auto.
      + cbn [forallb] in Hlt. apply andb_true_iff in Hlt. destruct Hlt as [_ Hlt]. destruct suf'; [reflexivity|exact Hlt].
      + cbn [follow] in Hf. apply qfrag_app in Hf. eapply qfrag_cons. exact Hf.
  Qed.

  Definition ufols (l : list twj) (post : list qtok) : Prop :=
    kr 2 post \/ (is_using post = true /\ last_twj_bare l = false).

  Lemma last_bare_lastx l t : lastx l = Some t -> last_twj_bare l = twj_bare t.
  Proof. rewrite lastx_rev. unfold last_twj_bare. destruct (rev l); intro H; [discriminate|]. injection H as ->. reflexivity. Qed.
  Lemma last_open_lastx l t : lastx l = Some t -> last_twj_open l = opt_site (twj_open t) false.
  Proof. rewrite lastx_rev. unfold last_twj_open, twjs_opn. destruct (rev l); intro H; [discriminate|]. injection H as ->. reflexivity. Qed.

  Lemma site_twjs_rt l post :
    twjs_wf d l = true -> Forall (fun t => (S (twjlevel t) <= fuel)%nat) l ->
    qfrag q (sepc (map twj_toks l) ++ post) = true -> comma_kw (sepc (map twj_toks l) ++ post) = false ->
    ufols l post ->
    (forall k, knext post = Some k -> follows_ok d (last_twj_open l) DReturning = true /\ k = kw DReturning) ->
    site_twjs d fuel (sepc (map twj_toks l) ++ post) = Ok (l, post).
  Proof.
    intros Hw Hlv Hf Hc Hp Ho. unfold twjs_wf in Hw. apply andb_true_iff in Hw. destruct Hw as [Hw Hln].
    apply andb_true_iff in Hw. destruct Hw as [Hne Hw].
    assert (Hw1 : forallb (twj_wf q) l = true).
    { rewrite forallb_forall in *. intros t Hin. specialize (Hw t Hin). unfold twjm_wf in Hw. apply andb_true_iff in Hw. tauto. }
    assert (Hn : nodkw (sepc (map twj_toks l)) = true).
    { apply nodkw_sepc. rewrite forallb_forall in *. intros t Hin. specialize (Hw t Hin). unfold twjm_wf in Hw. apply andb_true_iff in Hw. tauto. }
    unfold site_twjs, ptwj. apply site_use; auto.
    - (* the parser of the query core on what it sees *)
      destruct (cut_cases post) as [(E & Es & Hcs)|(h & r & r0 & Ep & Ec & Ek)].
      + rewrite E. apply comma_list_rt; [destruct l; [discriminate Hne|discriminate]| |reflexivity|
                                         unfold fuel_of; pose proof (fuel_commas twj_toks l []) as Hfc; clear - Hfc; lia].
        apply twjs_elems; auto.
        * destruct l; [reflexivity|exact Hln].
        * rewrite <- E. apply qfrag_cut. exact Hf.
        * intros t _. left. right. cbn [hrank]. repeat constructor.
      + rewrite Ec. 
        assert (Hpu : forall t, lastx l = Some t -> ufol t (h :: r0)).
        { intros t Hl. destruct Hp as [Hp|[Hp Hb]].
          - left. right. rewrite (hd_hrank h r0 r), <- Ep. destruct Hp as [Hp|Hp]; [congruence|exact Hp].
          - right. split; [|rewrite <- (last_bare_lastx l t Hl); exact Hb].
            rewrite Ep in Hp. unfold is_using in *. cbn [head_is] in *. exact Hp. }
        apply comma_list_rt; [destruct l; [discriminate Hne|discriminate]| | |
                              unfold fuel_of; pose proof (fuel_commas twj_toks l (h :: r0)) as Hfc; clear - Hfc; lia].
        * apply twjs_elems; auto.
          -- destruct l; [reflexivity|exact Hln].
          -- rewrite <- Ec. apply qfrag_cut. exact Hf.
        * rewrite (hd_is_comma h r0 r), <- Ep. destruct Hp as [Hp|[Hp _]].
          -- eapply (kr_not_comma 2%nat); [repeat constructor|exact Hp].
          -- destruct post as [|[|[]| |] ?]; try discriminate Hp; reflexivity.
    - intros k c Hk Hoc. destruct (Ho k Hk) as [Hfo ->]. unfold follows_ok, last_twj_open, twjs_opn in *.
      destruct (rev l) as [|t ?]; [discriminate|]. rewrite Hoc in Hfo. exact Hfo.
  Qed.

  Lemma mtoks_delete tables fk from usg sel ret ob lim rest :
    mtoks_raw (SDelete tables fk from usg sel ret ob lim) ++ rest =
    kw DDelete :: tables_toks tables ++ fromkw_toks fk ++ sepc (map twj_toks from) ++ using_toks usg ++
    clause_toks (QK KWhere) (otoks sel) ++ ret_toks ret ++ order_toks (map oelem_toks ob) ++
    clause_toks (QK KLimit) (otoks lim) ++ rest.
  Proof. unfold mtoks_raw. cbn [app]. rewrite <- !app_assoc. reflexivity. Qed.

  Lemma knext_qk k r : knext (QK k :: r) = None.
  Proof. reflexivity. Qed.

  (** ** DELETE: after the optional table names and FROM *)
  Lemma delete_body_rt tables fk from usg sel ret ob lim rest :
    let TL := clause_toks (QK KLimit) (otoks lim) ++ rest in
    let TO := order_toks (map oelem_toks ob) ++ TL in
    let TR := ret_toks ret ++ TO in
    let TW := clause_toks (QK KWhere) (otoks sel) ++ TR in
    let TU := using_toks usg ++ TW in
    twjs_wf d from = true ->
    match usg with
    | Some l => twjs_wf d l && negb (last_twj_bare from) &&
                (negb (is_none sel) || is_none ret || follows_ok d (last_twj_open l) DReturning)
    | None => negb (is_none sel) || is_none ret || follows_ok d (last_twj_open from) DReturning
    end = true ->
    sel_wf d sel = true -> ret_wf d ret = true -> forallb (oelem_wf q) ob = true ->
    nodkw (sepc (map oelem_toks ob)) = true -> sel_wf d lim = true ->
    qfrag q (sepc (map twj_toks from) ++ TU) = true -> comma_kw (sepc (map twj_toks from) ++ TU) = false ->
    ender rest = true ->
    (S (maxl (map twjlevel from)) <= fuel)%nat -> (omax (fun l => S (maxl (map twjlevel l))) usg <= fuel)%nat ->
    (omax xlevel sel <= fuel)%nat -> (ilevels ret <= fuel)%nat -> (maxl (map oelevel ob) <= fuel)%nat ->
    (omax xlevel lim <= fuel)%nat ->
    parse_delete_body d fuel tables fk (sepc (map twj_toks from) ++ TU)
    = Ok (SDelete tables fk from usg sel ret ob lim, rest).
  Proof.
    intros TL TO TR TW TU Hfw Husg Hsel Hret Hob Hobn Hlim Hf Hc He L1 L2 L3 L4 L5 L6.
    assert (HfU : qfrag q TU = true) by (eapply qfrag_app; exact Hf).
    assert (HcU : comma_kw TU = false) by (eapply comma_kw_app; exact Hc).
    assert (HfW : qfrag q TW = true) by (eapply qfrag_app; exact HfU).
    assert (HcW : comma_kw TW = false) by (eapply comma_kw_app; exact HcU).
    assert (HfR : qfrag q TR = true) by (eapply qfrag_app; exact HfW).
    assert (HcR : comma_kw TR = false) by (eapply comma_kw_app; exact HcW).
    assert (HfO : qfrag q TO = true) by (eapply qfrag_app; exact HfR).
    assert (HcO : comma_kw TO = false) by (eapply comma_kw_app; exact HcR).
    assert (HfL : qfrag q TL = true) by (eapply qfrag_app; exact HfO).
    assert (HcL : comma_kw TL = false) by (eapply comma_kw_app; exact HcO).
    assert (Hr9 : hrank rest = 9%nat) by (apply ender_hrank; exact He).
    assert (KL : knext TL = None /\ (7 <= hrank TL)%nat).
    { unfold TL. destruct lim; cbn [clause_toks otoks option_map app].
      - split; [reflexivity|cbn [hrank]; repeat constructor].
      - split; [apply ender_knext; exact He|rewrite Hr9; repeat constructor]. }
    assert (KO : knext TO = None /\ (6 <= hrank TO)%nat).
    { unfold TO. destruct ob; cbn [map order_toks app].
      - destruct KL as [K1 K2]. split; [exact K1|]. eapply PeanoNat.Nat.le_trans; [|exact K2]. repeat constructor.
      - split; [reflexivity|cbn [hrank]; repeat constructor]. }
    assert (KR : kr 6 TR).
    { unfold TR. destruct ret; cbn [ret_toks app].
      - left. cbn [knext]. rewrite is_dkw_kw. discriminate.
      - right. apply KO. }
    assert (KRk : forall k, knext TR = Some k -> ret <> None /\ k = kw DReturning).
    { intro k. unfold TR. destruct ret; cbn [ret_toks app knext].
      - rewrite is_dkw_kw. intro H. injection H as <-. split; [discriminate|reflexivity].
      - rewrite (proj1 KO). discriminate. }
    assert (KW : kr 2 TW) by (apply where_kr; eapply kr_le; [|exact KR]; repeat constructor).
    assert (KWk : forall k, knext TW = Some k -> sel = None /\ ret <> None /\ k = kw DReturning).
    { intros k Hk. apply knext_where in Hk. destruct Hk as [-> Hk]. split; [reflexivity|]. apply KRk. exact Hk. }
    assert (HTUk : forall k, knext TU = Some k -> usg = None /\ sel = None /\ ret <> None /\ k = kw DReturning).
    { intros k Hk. unfold TU in Hk. destruct usg; cbn [using_toks app] in Hk; [discriminate Hk|]. split; [reflexivity|]. apply KWk. exact Hk. }
    unfold parse_delete_body.
    (* FROM list *)
    rewrite site_twjs_rt; [|exact Hfw|apply levels_S; exact L1|exact Hf|exact Hc| |].
    2: { unfold TU. destruct usg as [l|]; cbn [using_toks app].
         - right. split; [reflexivity|]. apply andb_true_iff in Husg. destruct Husg as [Husg _].
           apply andb_true_iff in Husg. destruct Husg as [_ Hb]. apply negb_true_iff in Hb. exact Hb.
         - left. exact KW. }
    2: { intros k Hk. destruct (HTUk k Hk) as (-> & -> & Hr & ->). split; [|reflexivity].
         destruct ret; [|congruence]. exact Husg. }
    cbn [bind].
    assert (Hus : (let '(u, r6) := opt_tok (QK KUsing) TU in
                   bind (if u then bind (site_twjs d fuel r6) (fun '(l, r7) => Ok (Some l, r7)) else Ok (None, TU))
                        (fun x => Ok x)) = Ok (usg, TW)).
    { unfold TU. destruct usg as [l|]; cbn [using_toks app].
      - cbn [opt_tok qtok_eqb qkw_beq]. apply andb_true_iff in Husg. destruct Husg as [Husg Hfo].
        apply andb_true_iff in Husg. destruct Husg as [Hlw _].
        unfold TU in HfU, HcU. cbn [using_toks app] in HfU, HcU.
        rewrite site_twjs_rt; [reflexivity|exact Hlw|apply levels_S; exact L2|eapply qfrag_cons; exact HfU|
                               eapply comma_kw_cons; exact HcU|left; exact KW|].
        intros k Hk. destruct (KWk k Hk) as (-> & Hr & ->). split; [|reflexivity]. destruct ret; [|congruence]. exact Hfo.
      - rewrite opt_tok_miss; [reflexivity|]. apply (head_is_kr _ 2); [exact KW|reflexivity|cbn; repeat constructor]. }
    destruct (opt_tok (QK KUsing) TU) as [u r6].
    destruct (if u then bind (site_twjs d fuel r6) (fun '(l, r7) => Ok (Some l, r7)) else Ok (None, TU)) as [[usg0 r8]| | |];
      cbn [bind] in Hus; try discriminate Hus. injection Hus as -> ->. cbn [bind].
    unfold TW. rewrite parse_where_rt; [|exact Hd|exact Hsel|exact L3|exact HfW|exact HcW|eapply kr_le; [|exact KR]; repeat constructor].
    cbn [bind]. unfold TR. rewrite parse_returning_rt; [|exact Hd|exact Hret|exact L4|exact HfR|exact HcR|apply KO|
      eapply PeanoNat.Nat.le_trans; [|apply KO]; repeat constructor].
    cbn [bind].
    assert (Hor : (let '(o, r11) := opt_tok2 (QK KOrder) (QK KBy) TO in
                   if o then site_orders d fuel r11 else Ok ([], TO)) = Ok (ob, TL)).
    { unfold TO. destruct ob as [|e0 r0].
      - cbn [map order_toks app]. rewrite opt_tok2_miss_rank by apply KL. reflexivity.
      - change (order_toks (map oelem_toks (e0 :: r0)) ++ TL)
          with (QK KOrder :: QK KBy :: sepc (map oelem_toks (e0 :: r0)) ++ TL) in *.
        change (opt_tok2 (QK KOrder) (QK KBy) (QK KOrder :: QK KBy :: sepc (map oelem_toks (e0 :: r0)) ++ TL))
          with (true, sepc (map oelem_toks (e0 :: r0)) ++ TL).
        unfold TO in HfO, HcO.
        change (order_toks (map oelem_toks (e0 :: r0)) ++ TL)
          with (QK KOrder :: QK KBy :: sepc (map oelem_toks (e0 :: r0)) ++ TL) in HfO, HcO.
        apply site_orders_rt; [exact Hd|discriminate|exact Hob|exact Hobn|apply maxl_map_le; exact L5|
                               do 2 apply qfrag_cons in HfO; exact HfO|do 2 apply comma_kw_cons in HcO; exact HcO|right; apply KL]. }
    destruct (opt_tok2 (QK KOrder) (QK KBy) TO) as [o r11]. rewrite Hor. cbn [bind].
    unfold TL. destruct lim as [e|]; cbn [clause_toks otoks option_map app].
    - cbn [opt_tok qtok_eqb qkw_beq]. cbn [sel_wf] in Hlim. apply andb_true_iff in Hlim. destruct Hlim as [Hew Hen].
      rewrite (opt_all_x q Hq0 fuel (parse_query q fuel) (parse_body q fuel) (parse_twj q fuel) (Hq d Hd fuel)) by exact Hew.
      unfold TL in HfL, HcL. cbn [clause_toks otoks option_map app] in HfL, HcL.
      rewrite site_expr_rt; [reflexivity|exact Hd|exact Hew|exact Hen|exact L6|eapply qfrag_cons; exact HfL|
                             eapply comma_kw_cons; exact HcL|right; apply hrank_estop; rewrite Hr9; repeat constructor].
    - rewrite opt_tok_miss; [reflexivity|]. apply (head_is_kr _ 8); [right; rewrite Hr9; repeat constructor|reflexivity|cbn; repeat constructor].
  Qed.

  Lemma delete_rt tables fk from usg sel ret ob lim rest :
    mwf d (SDelete tables fk from usg sel ret ob lim) = true ->
    mfrag d (mtoks_raw (SDelete tables fk from usg sel ret ob lim) ++ rest) = true -> ender rest = true ->
    (mlevel (SDelete tables fk from usg sel ret ob lim) <= fuel)%nat ->
    parse_dml_core d fuel (mtoks_raw (SDelete tables fk from usg sel ret ob lim) ++ rest)
    = Ok (SDelete tables fk from usg sel ret ob lim, rest).
  Proof.
    intros Hw Hf He Hl. rewrite mtoks_delete in *.
    unfold mfrag in Hf. apply andb_true_iff in Hf. destruct Hf as [Hf Hc]. apply negb_true_iff in Hc.
    unfold mwf in Hw. apply andb_true_iff in Hw. destruct Hw as [Hw Hlim]. apply andb_true_iff in Hw. destruct Hw as [Hw Hobn].
    apply andb_true_iff in Hw. destruct Hw as [Hw Hob]. apply andb_true_iff in Hw. destruct Hw as [Hw Hret].
    apply andb_true_iff in Hw. destruct Hw as [Hw Hsel]. apply andb_true_iff in Hw. destruct Hw as [Hw Husg].
    apply andb_true_iff in Hw. destruct Hw as [Hhead Hfw].
    unfold mlevel in Hl.
    assert (L1 : (S (maxl (map twjlevel from)) <= fuel)%nat) by (clear - Hl; lia).
    assert (L2 : (omax (fun l => S (maxl (map twjlevel l))) usg <= fuel)%nat) by (clear - Hl; lia).
    assert (L3 : (omax xlevel sel <= fuel)%nat) by (clear - Hl; lia).
    assert (L4 : (ilevels ret <= fuel)%nat) by (clear - Hl; lia).
    assert (L5 : (maxl (map oelevel ob) <= fuel)%nat) by (clear - Hl; lia).
    assert (L6 : (omax xlevel lim <= fuel)%nat) by (clear - Hl; lia). clear Hl.
    set (TU := using_toks usg ++ clause_toks (QK KWhere) (otoks sel) ++ ret_toks ret ++
               order_toks (map oelem_toks ob) ++ clause_toks (QK KLimit) (otoks lim) ++ rest) in *.
    set (TF := sepc (map twj_toks from) ++ TU) in *.
    assert (HfF : qfrag q TF = true).
    { apply qfrag_cons in Hf. apply qfrag_app in Hf. apply qfrag_app in Hf. exact Hf. }
    assert (HcF : comma_kw TF = false).
    { apply comma_kw_cons in Hc. apply comma_kw_app in Hc. apply comma_kw_app in Hc. exact Hc. }
    assert (Hbody : forall tb fkw, tb = tables -> fkw = fk ->
              parse_delete_body d fuel tb fkw TF = Ok (SDelete tables fk from usg sel ret ob lim, rest)).
    { intros tb fkw -> ->. unfold TF, TU. apply delete_body_rt; auto. }
    unfold parse_dml_core, parse_dml_step.
    assert (E1 : qtok_eqb (kw DDelete) (kw DInsert) = false) by reflexivity.
    assert (E2 : qtok_eqb (kw DDelete) (kw DUpdate) = false) by reflexivity.
    rewrite E1, E2, qtok_eqb_refl. unfold parse_delete_core.
    destruct tables as [|t ts].
    - cbn [tables_toks app]. destruct fk; cbn [fromkw_toks app].
      + cbn [opt_tok qtok_eqb tok_eqb kwd_beq]. cbv beta iota. cbn [bind]. apply Hbody; reflexivity.
      + cbn [orb] in Hhead. apply andb_true_iff in Hhead. destruct Hhead as [Hnf Hh]. apply negb_true_iff in Hh.
        rewrite opt_tok_miss.
        2: { unfold TF. rewrite head_is_app; [exact Hh|]. unfold twjs_wf in Hfw. destruct from as [|t0 fr]; [discriminate Hfw|].
             cbn [map]. apply sepc_nonempty. apply twj_toks_nonempty. }
        cbv beta iota. rewrite Hnf. cbn [bind]. apply Hbody; reflexivity.
    - apply andb_true_iff in Hhead. destruct Hhead as [Hhead Htf]. apply andb_true_iff in Hhead. destruct Hhead as [Hhead Hnw].
      apply andb_true_iff in Hhead. destruct Hhead as [Hfk Hnf]. apply negb_true_iff in Htf, Hnf. subst fk.
      cbn [tables_toks fromkw_toks]. unfold names_toks. cbn [app].
      unfold names_wf in Hnw. apply andb_true_iff in Hnw. destruct Hnw as [Hn1 Hn2].
      set (X := sepc (map (fun c => [c]) (t :: ts)) ++ QE (TKw KFrom) :: TF).
      assert (EX : X = t :: follow (fun c => [c]) ts (QE (TKw KFrom) :: TF)).
      { unfold X. rewrite sepc_follow. reflexivity. }
      rewrite (opt_tok_miss (QE (TKw KFrom)) X) by (rewrite EX; cbn [head_is]; exact Htf).
      cbv beta iota. rewrite Hnf. unfold X at 2.
      rewrite comma_list_rt; [|discriminate|apply (names_elems d); assumption|reflexivity|
                              unfold fuel_of; pose proof (fuel_commas (fun c : qtok => [c]) (t :: ts) (QE (TKw KFrom) :: TF)) as Hfc;
                              fold X in Hfc; clear - Hfc; lia].
      cbn [bind opt_tok qtok_eqb tok_eqb kwd_beq]. cbv beta iota. cbn [bind]. apply Hbody; reflexivity.
  Qed.
End Delete.

(** * The printed tokens of a well-formed statement have no name spelled by a DML keyword *)
Definition np (t : qtok) : bool := negb (is_dplain t).

Lemma map_unplain_np l : forallb np l = true -> map unplain l = l.
Proof.
  induction l as [|t r IH]; [reflexivity|]. cbn [forallb map]. intro H. apply andb_true_iff in H. destruct H as [Ht Hr].
  rewrite IH by exact Hr. rewrite unplain_nk; [reflexivity|]. unfold np in Ht. apply negb_true_iff in Ht. exact Ht.
Qed.

Lemma np_nodkw l : nodkw l = true -> forallb np l = true.
Proof.
  unfold nodkw. rewrite !forallb_forall. intros H t Hin. specialize (H t Hin). apply nk_parts in H. unfold np.
  destruct H as [_ H]. rewrite H. reflexivity.
Qed.
Lemma np_kw k : np (kw k) = true.
Proof. destruct k; reflexivity. Qed.
Lemma np_mname w : mname_ok w = true -> np w = true.
Proof. unfold mname_ok, np. intro H. apply andb_true_iff in H. destruct H as [_ H]. apply nk_parts in H. destruct H as [_ H]. rewrite H. reflexivity. Qed.

Lemma np_sepc {A} (toks : A -> list qtok) l : forallb (fun x => forallb np (toks x)) l = true -> forallb np (sepc (map toks l)) = true.
Proof.
  induction l as [|x r IH]; [reflexivity|]. cbn [forallb]. intro H. apply andb_true_iff in H. destruct H as [Hx Hr].
  destruct r as [|y r']; [exact Hx|]. cbn [map]. rewrite sepc_cons, forallb_app, Hx. cbn [andb forallb].
  apply IH. exact Hr.
Qed.

Lemma np_cols cs : forallb np cs = true -> forallb np (cols_toks cs) = true.
Proof.
  intro H. unfold cols_toks. cbn [forallb]. rewrite forallb_app. cbn [forallb andb]. rewrite andb_true_r.
  apply np_sepc. rewrite forallb_forall in *. intros c Hin. cbn [forallb]. rewrite (H c Hin). reflexivity.
Qed.

Section NoPlain.
  Variable d : mdialect.

  Lemma np_ret r : ret_wf d r = true -> forallb np (ret_toks r) = true.
  Proof.
    destruct r as [l|]; [|reflexivity]. cbn [ret_wf ret_toks forallb]. intro H. apply andb_true_iff in H. destruct H as [_ H].
    rewrite np_kw. apply np_nodkw. exact H.
  Qed.
  Lemma np_sel k x : np k = true -> sel_wf d x = true -> forallb np (clause_toks k (otoks x)) = true.
  Proof.
    destruct x as [e|]; [|reflexivity]. cbn [sel_wf clause_toks otoks option_map forallb]. intros Hk H. apply andb_true_iff in H.
    destruct H as [_ H]. rewrite Hk. apply np_nodkw. exact H.
  Qed.
  Lemma np_twj t : twjm_wf d t = true -> forallb np (twj_toks t) = true.
  Proof. unfold twjm_wf. intro H. apply andb_true_iff in H. destruct H as [_ H]. apply np_nodkw. exact H. Qed.
  Lemma np_twjs l : twjs_wf d l = true -> forallb np (sepc (map twj_toks l)) = true.
  Proof.
    unfold twjs_wf. intro H. apply andb_true_iff in H. destruct H as [H _]. apply andb_true_iff in H. destruct H as [_ H].
    apply np_sepc. rewrite forallb_forall in *. intros t Hin. apply np_twj. auto.
  Qed.
  Lemma np_assign a : assign_wf d a = true -> forallb np (assign_toks a) = true.
  Proof.
    destruct a as [t v]. unfold assign_wf, assign_toks. intro H. apply andb_true_iff in H. destruct H as [H Hv].
    apply andb_true_iff in H. destruct H as [Ht _]. rewrite forallb_app. cbn [forallb]. rewrite (np_nodkw _ Hv).
    assert (E : np (QE (TOp K_Eq)) = true) by reflexivity. rewrite E, !andb_true_r.
    destruct t as [c|cs]; cbn [target_toks target_wf forallb] in *.
    - rewrite (np_mname _ Ht). reflexivity.
    - apply andb_true_iff in Ht. destruct Ht as [_ Ht]. apply np_cols. apply np_nodkw. exact Ht.
  Qed.

  Lemma mtoks_np s : mwf d s = true -> forallb np (mtoks_raw s) = true.
  Proof.
    destruct s as [into table cols source ret|table assigns from sel ret|tables fk from usg sel ret ob lim]; intro Hw.
    - unfold mwf in Hw. apply andb_true_iff in Hw. destruct Hw as [Hw Hret]. apply andb_true_iff in Hw. destruct Hw as [Hw Hsrc].
      apply andb_true_iff in Hw. destruct Hw as [Hw Hcn]. apply andb_true_iff in Hw. destruct Hw as [Hw Hcw].
      apply andb_true_iff in Hw. destruct Hw as [Hname Htb].
      unfold mtoks_raw. cbn [forallb]. rewrite np_kw. cbn [andb]. rewrite forallb_app. cbn [forallb].
      rewrite (np_mname _ Hname). rewrite !forallb_app. rewrite (np_ret _ Hret), andb_true_r. cbn [andb].
      apply andb_true_iff. split; [destruct into; reflexivity|]. apply andb_true_iff. split.
      + destruct cols; [reflexivity|]. cbn [ccols_toks]. apply np_cols. apply np_nodkw. exact Hcn.
      + destruct source as [x|]; cbn [source_toks].
        * apply andb_true_iff in Hsrc. destruct Hsrc as [Hsrc _]. apply andb_true_iff in Hsrc. destruct Hsrc as [Hsrc _].
          apply andb_true_iff in Hsrc. destruct Hsrc as [_ Hn]. apply np_nodkw. exact Hn.
        * destruct cols; reflexivity.
    - unfold mwf in Hw. apply andb_true_iff in Hw. destruct Hw as [Hw Hret]. apply andb_true_iff in Hw. destruct Hw as [Hw Hsel].
      apply andb_true_iff in Hw. destruct Hw as [Hw Hfrom]. apply andb_true_iff in Hw. destruct Hw as [Hw _].
      apply andb_true_iff in Hw. destruct Hw as [Hw Hasw]. apply andb_true_iff in Hw. destruct Hw as [Hw _].
      apply andb_true_iff in Hw. destruct Hw as [Htw _].
      unfold mtoks_raw. cbn [forallb]. rewrite np_kw. cbn [andb]. rewrite !forallb_app.
      rewrite (np_twj _ Htw), (np_ret _ Hret), (np_sel (QK KWhere) _ eq_refl Hsel). cbn [andb]. rewrite !andb_true_r.
      apply andb_true_iff. split.
      + destruct assigns as [|a0 ar]; [reflexivity|]. unfold set_toks. cbn [forallb]. rewrite np_kw. cbn [andb].
        apply np_sepc. rewrite forallb_forall in *. intros a Hin. apply np_assign. auto.
      + destruct from as [t|]; [|reflexivity]. cbn [ofrom_toks forallb]. cbn [np is_dplain negb andb].
        apply andb_true_iff in Hfrom. destruct Hfrom as [Hfrom _]. apply andb_true_iff in Hfrom. destruct Hfrom as [_ Ht].
        apply np_twj. exact Ht.
    - unfold mwf in Hw. apply andb_true_iff in Hw. destruct Hw as [Hw Hlim]. apply andb_true_iff in Hw. destruct Hw as [Hw Hobn].
      apply andb_true_iff in Hw. destruct Hw as [Hw Hob]. apply andb_true_iff in Hw. destruct Hw as [Hw Hret].
      apply andb_true_iff in Hw. destruct Hw as [Hw Hsel]. apply andb_true_iff in Hw. destruct Hw as [Hw Husg].
      apply andb_true_iff in Hw. destruct Hw as [Hhead Hfw].
      unfold mtoks_raw. cbn [forallb]. rewrite np_kw. cbn [andb]. rewrite !forallb_app.
      rewrite (np_twjs _ Hfw), (np_ret _ Hret), (np_sel (QK KWhere) _ eq_refl Hsel), (np_sel (QK KLimit) _ eq_refl Hlim). cbn [andb]. rewrite !andb_true_r.
      repeat (apply andb_true_iff; split).
      + destruct tables as [|t ts]; [reflexivity|]. unfold tables_toks, names_toks.
        apply andb_true_iff in Hhead. destruct Hhead as [Hhead _]. apply andb_true_iff in Hhead. destruct Hhead as [_ Hn].
        unfold names_wf in Hn. apply andb_true_iff in Hn. destruct Hn as [Hn _].
        apply np_sepc. rewrite forallb_forall in *. intros c Hin. cbn [forallb]. rewrite (np_mname _ (Hn c Hin)). reflexivity.
      + destruct fk; reflexivity.
      + destruct usg as [l|]; [|reflexivity]. cbn [using_toks forallb]. cbn [np is_dplain negb andb].
        apply andb_true_iff in Husg. destruct Husg as [Husg _]. apply andb_true_iff in Husg. destruct Husg as [Hl _].
        apply np_twjs. exact Hl.
      + destruct ob as [|o0 or]; [reflexivity|]. unfold order_toks. cbn [map forallb]. cbn [np is_dplain negb andb].
        apply np_nodkw. exact Hobn.
  Qed.

  Lemma mtoks_raw_eq s : mwf d s = true -> mtoks s = mtoks_raw s.
  Proof. intro H. unfold mtoks. apply map_unplain_np. apply mtoks_np. exact H. Qed.
End NoPlain.

(** * The round trip of the DML core: for every well-formed INSERT / UPDATE / DELETE tree [s] whose
    printed tokens pass the syntactic fragment test, whatever follows (end of input, [)] or [;]):
    parsing the printed tokens gives [s] back and leaves the rest, for every fuel from the nesting level
    of the embedded queries up. *)
Theorem dml_roundtrip d (Hd : mdialect_ok d = true) s rest fuel :
  mwf d s = true -> mfrag d (mtoks s ++ rest) = true -> ender rest = true -> (mlevel s <= fuel)%nat ->
  parse_dml_core d fuel (mtoks s ++ rest) = Ok (s, rest).
Proof.
  intros Hw Hf He Hl. rewrite (mtoks_raw_eq d s Hw) in *.
  destruct s as [into table cols source ret|table assigns from sel ret|tables fk from usg sel ret ob lim].
  - apply insert_rt; assumption.
  - apply update_rt; assumption.
  - apply delete_rt; assumption.
Qed.

(** printing is injective on well-formed statements *)
Theorem mtoks_injective d (Hd : mdialect_ok d = true) s1 s2 :
  mwf d s1 = true -> mwf d s2 = true -> mfrag d (mtoks s1) = true -> mtoks s1 = mtoks s2 -> s1 = s2.
Proof.
  intros H1 H2 Hf E. set (m := Nat.max (mlevel s1) (mlevel s2)).
  assert (R1 : parse_dml_core d m (mtoks s1 ++ []) = Ok (s1, [])).
  { apply dml_roundtrip; auto; [rewrite app_nil_r; exact Hf|subst m; lia]. }
  assert (R2 : parse_dml_core d m (mtoks s2 ++ []) = Ok (s2, [])).
  { apply dml_roundtrip; auto; [rewrite app_nil_r, <- E; exact Hf|subst m; lia]. }
  rewrite <- E in R2. rewrite R1 in R2. inversion R2. reflexivity.
Qed.
