(** Model of the visitor machinery (property C16): derive/src/lib.rs ([Visit], [VisitMut]) and
    the container / leaf impls of src/ast/visitor.rs, over the universe of Univ.v.

    The generated [visit] of a type with [visit(with = h)] calls [pre_h(self)], then visits the
    fields in declaration order (for an enum: the fields of the matched variant), then calls
    [post_h(self)]; a field carrying [visit(with = h)] is wrapped in [pre_h(field)] /
    [post_h(field)]; [Option], [Vec], [Box] recurse into their payload; the [visit_noop!]
    primitives do nothing.  Every callback result goes through [?], so [Break] ends the walk.

    Rust dispatches on the static type; on a dumped value the same information is carried by
    the type / variant / field names recorded in the value, so the traversal is defined by
    structural recursion on [sval], looking declarations up by name.
    Nodes are identified by paths (child indices from the root).  Proofs: VisitProofs.v. *)
From SqlV Require Import Base Univ.

Inductive phase := Pre | Post.

Definition event : Type := phase * str * path.
Definition e_phase (e : event) : phase := fst (fst e).
Definition e_hook (e : event) : str := snd (fst e).
Definition e_path (e : event) : path := snd e.

Definition shift (i : nat) (e : event) : event := (e_phase e, e_hook e, i :: e_path e).

(* ------------------------------------------------------------------ hooks of a value *)

(** First declaration with the given Rust identifier (generic instances share their
    attributes, which sit on the generic declaration). *)
Fixpoint lookup_name (E : env) (tn : str) : option decl :=
  match E with
  | [] => None
  | (_, d) :: r => if str_eqb (d_name d) tn then Some d else lookup_name r tn
  end.

Definition type_hook (E : env) (v : sval) : option str :=
  match v with
  | VStruct tn _ _ | VEnum tn _ _ _ =>
      match lookup_name E tn with Some d => d_visit d | None => None end
  | _ => None
  end.

(** Declared fields of the struct [tn] / of variant [vn] of the enum [tn]. *)
Definition decl_fields (E : env) (tn : str) (vn : option str) : list field :=
  match lookup_name E tn with
  | None => []
  | Some d =>
    match d_body d, vn with
    | BStruct fs, None => fields_list fs
    | BEnum vs, Some n => match find_variant vs n with Some var => fields_list (v_fields var) | None => [] end
    | _, _ => []
    end
  end.

(** Field-level hook of the [i]-th argument (named fields are addressed by name, as in the
    generated code; unnamed ones by position). *)
Definition arg_hook (fl : list field) (sh : shape) (i : nat) (k : str) : option str :=
  match (match sh with SNamed => find_field fl k | _ => nth_error fl i end) with
  | Some f => f_visit f
  | None => None
  end.

Fixpoint kids_from (fl : list field) (sh : shape) (i : nat) (args : list (str * sval))
  : list (option str * sval) :=
  match args with
  | [] => []
  | (k, c) :: r => (arg_hook fl sh i k, c) :: kids_from fl sh (S i) r
  end.

(** Children of a node with the hook of the field they sit in. *)
Definition kids (E : env) (v : sval) : list (option str * sval) :=
  match v with
  | VSome c => [(None, c)]
  | VSeq vs | VTuple vs => map (fun c => (None, c)) vs
  | VStruct tn sh args => kids_from (decl_fields E tn None) sh 0 args
  | VEnum tn vn sh args => kids_from (decl_fields E tn (Some vn)) sh 0 args
  | _ => []
  end.

(* ------------------------------------------------------------------ the generic traversal *)

Section Trav.
  Variable E : env.
  Variable R : Type.
  Variable unitR : R.
  Variable seqR : R -> R -> R.
  Variable emitR : event -> R.
  Variable shiftR : nat -> R -> R.

  Definition wrapR (h : option str) (p : path) (mid : R) : R :=
    match h with
    | Some h => seqR (emitR (Pre, h, p)) (seqR mid (emitR (Post, h, p)))
    | None => mid
    end.

  Fixpoint trav (v : sval) : R :=
    wrapR (type_hook E v) []
      (match v with
       | VSome c => seqR (shiftR 0 (trav c)) unitR
       | VSeq vs | VTuple vs =>
           (fix go (i : nat) (l : list sval) : R :=
              match l with
              | [] => unitR
              | c :: r => seqR (shiftR i (trav c)) (go (S i) r)
              end) 0%nat vs
       | VStruct tn sh args =>
           (fix go (i : nat) (l : list (str * sval)) : R :=
              match l with
              | [] => unitR
              | (k, c) :: r =>
                  seqR (wrapR (arg_hook (decl_fields E tn None) sh i k) [i] (shiftR i (trav c))) (go (S i) r)
              end) 0%nat args
       | VEnum tn vn sh args =>
           (fix go (i : nat) (l : list (str * sval)) : R :=
              match l with
              | [] => unitR
              | (k, c) :: r =>
                  seqR (wrapR (arg_hook (decl_fields E tn (Some vn)) sh i k) [i] (shiftR i (trav c))) (go (S i) r)
              end) 0%nat args
       | _ => unitR
       end).

  Fixpoint trav_kids (i : nat) (l : list (option str * sval)) : R :=
    match l with
    | [] => unitR
    | (h, c) :: r => seqR (wrapR h [i] (shiftR i (trav c))) (trav_kids (S i) r)
    end.
End Trav.

(** The full trace of a walk. *)
Definition walk (E : env) : sval -> list event :=
  trav E (list event) [] (@app event) (fun e => [e]) (fun i => map (shift i)).

Definition wrap := wrapR (list event) (@app event) (fun e => [e]).
Definition walk_kids (E : env) := trav_kids E (list event) [] (@app event) (fun e => [e]) (fun i => map (shift i)).

(* ------------------------------------------------------------------ visitors and Break *)

Section Visitor.
  Variable S : Type.

  (** A visitor: state transformer per callback; [true] = [ControlFlow::Break]. *)
  Definition visitor := event -> S -> S * bool.

  (** Feeding a trace to a visitor until it breaks. *)
  Fixpoint run_until (cb : visitor) (tr : list event) (s : S) : S * bool :=
    match tr with
    | [] => (s, false)
    | e :: r => let (s', b) := cb e s in if b then (s', true) else run_until cb r s'
    end.

  Definition actB := visitor -> S -> S * bool.
  Definition retB : actB := fun _ s => (s, false).
  Definition bindB (m k : actB) : actB :=
    fun cb s => let (s', b) := m cb s in if b then (s', true) else k cb s'.
  Definition emitB (e : event) : actB := fun cb s => cb e s.
  Definition shiftB (i : nat) (m : actB) : actB := fun cb => m (fun e => cb (shift i e)).

  (** The walk as the generated code performs it: callbacks are invoked one by one and the
      first [Break] returns immediately ([?] after every call). *)
  Definition walkB (E : env) (v : sval) : actB := trav E actB retB bindB emitB shiftB v.
End Visitor.

(* ------------------------------------------------------------------ the mutating walk *)

Definition set_children (v : sval) (cs : list sval) : sval :=
  match v with
  | VSome _ => match cs with [c] => VSome c | _ => v end
  | VSeq _ => VSeq cs
  | VTuple _ => VTuple cs
  | VStruct tn sh args => VStruct tn sh (combine (map fst args) cs)
  | VEnum tn vn sh args => VEnum tn vn sh (combine (map fst args) cs)
  | _ => v
  end.

Section VisitorMut.
  Variable S : Type.

  (** A mutating visitor receives the node and may replace it. *)
  Definition visitor_mut := event -> sval -> S -> sval * S * bool.

  Definition hookM (cb : visitor_mut) (ph : phase) (h : option str) (p : path) (v : sval) (s : S)
    : sval * S * bool :=
    match h with Some h => cb (ph, h, p) v s | None => (v, s, false) end.

  (** The loop over the fields of a node ([rec] = the recursive call on a child, already
      specialised to the remaining fuel).  On Break the remaining children stay as they are. *)
  Fixpoint mut_kids (rec : visitor_mut -> sval -> S -> option (sval * S * bool)) (cb : visitor_mut)
           (i : nat) (l : list (option str * sval)) (s : S) : option (list sval * S * bool) :=
    match l with
    | [] => Some ([], s, false)
    | (h, c) :: r =>
      match hookM cb Pre h [i] c s with
      | (c1, s1, true) => Some (c1 :: map snd r, s1, true)
      | (c1, s1, false) =>
        match rec (fun e => cb (shift i e)) c1 s1 with
        | None => None
        | Some (c2, s2, true) => Some (c2 :: map snd r, s2, true)
        | Some (c2, s2, false) =>
          match hookM cb Post h [i] c2 s2 with
          | (c3, s3, true) => Some (c3 :: map snd r, s3, true)
          | (c3, s3, false) =>
            match mut_kids rec cb (Datatypes.S i) r s3 with
            | None => None
            | Some (cs, s4, b) => Some (c3 :: cs, s4, b)
            end
          end
        end
      end
    end.

  (** [VisitMut::visit]: pre-callback on the node (which may rewrite it), then the children of
      the node *as it is now*, then the post-callback.  Fuel bounds the depth, because a
      callback may install an arbitrary subtree.  Returns the tree, the state and whether the
      walk was broken off. *)
  Fixpoint walk_mut (fuel : nat) (E : env) (cb : visitor_mut) (v : sval) (s : S)
    : option (sval * S * bool) :=
    match fuel with
    | O => None
    | Datatypes.S f =>
      match hookM cb Pre (type_hook E v) [] v s with
      | (v1, s1, true) => Some (v1, s1, true)
      | (v1, s1, false) =>
        match mut_kids (walk_mut f E) cb O (kids E v1) s1 with
        | None => None
        | Some (cs, s2, true) => Some (set_children v1 cs, s2, true)
        | Some (cs, s2, false) => Some (hookM cb Post (type_hook E v1) [] (set_children v1 cs) s2)
        end
      end
    end.

  (** A mutating visitor that changes nothing. *)
  Definition no_rewrite (cb : visitor_mut) : Prop := forall e v s, fst (fst (cb e v s)) = v.

  (** The read-only visitor a mutating one induces on a fixed tree [v]. *)
  Definition forget (cb : visitor_mut) (v : sval) : visitor S :=
    fun e s => match sub v (e_path e) with
               | Some n => let '(_, s', b) := cb e n s in (s', b)
               | None => (s, false)
               end.
End VisitorMut.

(* ------------------------------------------------------------------ balance *)

Fixpoint path_eqb (a b : path) : bool :=
  match a, b with
  | [], [] => true
  | x :: a', y :: b' => Nat.eqb x y && path_eqb a' b'
  | _, _ => false
  end.

(** Stack automaton: a [Pre] pushes (hook, node), a [Post] must close the innermost open one. *)
Fixpoint run_stack (st : list (str * path)) (tr : list event) : option (list (str * path)) :=
  match tr with
  | [] => Some st
  | (Pre, h, p) :: r => run_stack ((h, p) :: st) r
  | (Post, h, p) :: r =>
      match st with
      | (h', p') :: st' => if str_eqb h' h && path_eqb p' p then run_stack st' r else None
      | [] => None
      end
  end.

Definition balanced (tr : list event) : Prop := run_stack [] tr = Some [].

(* ------------------------------------------------------------------ specification of "entered" *)

Definition pres (tr : list event) : list (str * path) :=
  flat_map (fun e => match e with (Pre, h, p) => [(h, p)] | _ => [] end) tr.

(** [hooked_at E v p h]: by the declarations, the node at path [p] of [v] is to be entered
    with hook [h] — because its type carries the hook, or because the field it sits in does.
    Defined through [sub] only (independent of the traversal). *)
Definition hooked_at (E : env) (v : sval) (p : path) (h : str) : Prop :=
  (exists n, sub v p = Some n /\ type_hook E n = Some h) \/
  (exists q i par c, p = q ++ [i] /\ sub v q = Some par /\ nth_error (kids E par) i = Some (Some h, c)).

(** Document order on paths. *)
Fixpoint lex_lt (a b : path) : Prop :=
  match a, b with
  | [], [] => False
  | [], _ :: _ => True
  | _ :: _, [] => False
  | x :: a', y :: b' => (x < y)%nat \/ (x = y /\ lex_lt a' b')
  end.

Definition field_hooks (E : env) : list str :=
  flat_map (fun kd => flat_map (fun f => match f_visit f with Some h => [h] | None => [] end)
                               (body_fields (d_body (snd kd)))) E.
Definition type_hooks (E : env) : list str :=
  flat_map (fun kd => match d_visit (snd kd) with Some h => [h] | None => [] end) E.

(** Order of [Pre] events: document order of the nodes; on one node the field-level hook
    comes before the type-level one. *)
Definition pre_lt (E : env) (a b : str * path) : Prop :=
  lex_lt (snd a) (snd b) \/
  (snd a = snd b /\ In (fst a) (field_hooks E) /\ In (fst b) (type_hooks E)).

(* ------------------------------------------------------------------ well-formedness *)

Definition visit_traits : list str := [s2l "Visit"; s2l "VisitMut"].

Fixpoint ty_visitable (t : ty) : bool :=
  match t with
  | TPrim PUnit => false            (* no impl for () *)
  | TPrim _ => true
  | TOpt t' | TVec t' | TBox t' => ty_visitable t'
  | TTuple _ => false               (* no impl for tuples in visitor.rs *)
  | TNamed _ => true
  | TOpaque _ => false
  end.

(** Every declaration derives both traits, has no manual impl, and all its field types are
    covered by the container / leaf impls. *)
Definition decl_visit_ok (d : decl) : bool :=
  d_vis d && d_vismut d &&
  negb (existsb (fun m => mem m visit_traits) (d_manual d)) &&
  forallb (fun f => ty_visitable (f_ty f)) (body_fields (d_body d)).

Definition hooks_disjoint (E : env) : bool :=
  forallb (fun h => negb (mem h (type_hooks E))) (field_hooks E).

(** The four node kinds of the property with the hook their type must carry. *)
Definition node_hooks : list (str * str) :=
  [(s2l "Expr", s2l "visit_expr"); (s2l "Statement", s2l "visit_statement");
   (s2l "Query", s2l "visit_query"); (s2l "TableFactor", s2l "visit_table_factor")].

Definition node_hook_ok (E : env) (th : str * str) : bool :=
  match lookup_name E (fst th) with
  | Some d => match d_visit d with Some h => str_eqb h (snd th) | None => false end
  | None => false
  end.

(** A table-name position: type, variant (for enums), field name. *)
Definition position : Type := str * option str * str.

Definition position_hook (E : env) (pos : position) : option str :=
  match pos with
  | (tn, vn, k) => match find_field (decl_fields E tn vn) k with Some f => f_visit f | None => None end
  end.

Definition relation_hook : str := s2l "visit_relation".

Definition position_ok (E : env) (pos : position) : bool :=
  match position_hook E pos with Some h => str_eqb h relation_hook | None => false end.

(** Manual impls outside the environment: exactly the three containers for both traits; leaf
    no-ops only for primitives. *)
Definition containers : list str := [s2l "Option<T>"; s2l "Vec<T>"; s2l "Box<T>"].
Definition leaf_prims : list str :=
  [s2l "u8"; s2l "u16"; s2l "u32"; s2l "u64"; s2l "i8"; s2l "i16"; s2l "i32"; s2l "i64";
   s2l "char"; s2l "bool"; s2l "String"].

Definition manual_other_ok (mo : list (str * str)) : bool :=
  forallb (fun ts => mem (fst ts) visit_traits && (mem (snd ts) containers || mem (snd ts) leaf_prims)) mo &&
  forallb (fun c => forallb (fun t => existsb (fun ts => str_eqb (fst ts) t && str_eqb (snd ts) c) mo) visit_traits)
          (containers ++ leaf_prims).

Definition wf_visit (E : env) (roots : list str) (required : list position) (mo : list (str * str)) : bool :=
  closed_env E roots &&
  forallb (fun kd => decl_visit_ok (snd kd)) E &&
  forallb (node_hook_ok E) node_hooks &&
  forallb (position_ok E) required &&
  hooks_disjoint E &&
  manual_other_ok mo.

(** Fields whose type mentions [ObjectName] directly (through Option / Vec / Box). *)
Fixpoint names_object (t : ty) : bool :=
  match t with
  | TNamed n => str_eqb n (s2l "ObjectName")
  | TOpt t' | TVec t' | TBox t' => names_object t'
  | _ => false
  end.

Definition object_fields (E : env) (tn : str) (vn : option str) : list position :=
  map (fun f => (tn, vn, f_name f)) (filter (fun f => names_object (f_ty f)) (decl_fields E tn vn)).

(** Is [p] the path of an element of the [tables] field of a [Delete] node of [v]?
    (the position of the known finding of C16) *)
Fixpoint in_delete_tables (v : sval) (p : path) : bool :=
  match p with
  | [] => false
  | i :: r =>
      (match r, v with
       | [j], VStruct tn _ args =>
           str_eqb tn (s2l "Delete") &&
           match nth_error args i with
           | Some (k, VSeq l) => str_eqb k (s2l "tables") && Nat.ltb j (length l)
           | _ => false
           end
       | _, _ => false
       end) ||
      match nth_error (children v) i with Some c => in_delete_tables c r | None => false end
  end.

(** Diagnostics for the check driver. *)
Definition bad_visit_decls (E : env) : list str :=
  map fst (filter (fun kd => negb (decl_visit_ok (snd kd))) E).

(* ------------------------------------------------------------------ correspondence helpers *)

Definition phase_eqb (a b : phase) : bool :=
  match a, b with Pre, Pre | Post, Post => true | _, _ => false end.

(** A trace as the recording visitor of the harness sees it: phase, hook, fingerprint of the
    node passed to the callback. *)
Definition observed (v : sval) (tr : list event) : list (phase * str * N) :=
  map (fun e => (e_phase e, e_hook e, match sub v (e_path e) with Some n => sv_hash n | None => 0 end)) tr.

Fixpoint obs_eqb (a b : list (phase * str * N)) : bool :=
  match a, b with
  | [], [] => true
  | (p1, h1, x1) :: r1, (p2, h2, x2) :: r2 =>
      phase_eqb p1 p2 && str_eqb h1 h2 && N.eqb x1 x2 && obs_eqb r1 r2
  | _, _ => false
  end.

(** The recording visitor that returns Break from its [k]-th callback (k = 0: never):
    state = callbacks seen so far. *)
Definition break_at (k : nat) : visitor (list event) :=
  fun e s => (s ++ [e], Nat.eqb (length s + 1) k).

Definition break_at_mut (k : nat) : visitor_mut (list event) :=
  fun e v s => (v, s ++ [e], Nat.eqb (length s + 1) k).

(** One correspondence case of C16: value, full implementation trace, and for some [k] the
    number of callbacks the implementation made when Break was returned at the k-th.
    Result code: 0 agreement; 1 full trace differs from [walk]; 2 [walkB] with Break at k
    differs; 3 [walk_mut] with a non-rewriting visitor: tree or trace differs. *)
Fixpoint events_eqb (a b : list event) : bool :=
  match a, b with
  | [], [] => true
  | (p1, h1, q1) :: r1, (p2, h2, q2) :: r2 =>
      phase_eqb p1 p2 && str_eqb h1 h2 && path_eqb q1 q2 && events_eqb r1 r2
  | _, _ => false
  end.

(** The harness's recording visitor implements the callbacks of these five hooks; callbacks of
    any other hook a future tree may add fall through to the trait's default no-ops. *)
Definition rec_hooks : list str :=
  [s2l "visit_expr"; s2l "visit_query"; s2l "visit_table_factor"; s2l "visit_statement"; s2l "visit_relation"].
Definition recorded (e : event) : bool := mem (e_hook e) rec_hooks.
Definition break_at_rec (k : nat) : visitor (list event) :=
  fun e s => if recorded e then (s ++ [e], Nat.eqb (length s + 1) k) else (s, false).
Definition break_at_mut_rec (k : nat) : visitor_mut (list event) :=
  fun e v s => if recorded e then (v, s ++ [e], Nat.eqb (length s + 1) k) else (v, s, false).

Definition c16_code (E : env) (c : sval * list (phase * str * N) * list (nat * nat)) : N :=
  match c with
  | (v, tr, ks) =>
    let w := filter recorded (walk E v) in
    if negb (obs_eqb (observed v w) tr) then 1
    else if negb (forallb (fun kn =>
              let '(s, b) := walkB (list event) E v (break_at_rec (fst kn)) [] in
              Nat.eqb (length s) (snd kn) && b && events_eqb s (firstn (snd kn) w)) ks) then 2
    else match walk_mut (list event) (Datatypes.S (sv_depth v)) E (break_at_mut_rec 0) v [] with
         | Some (v', s, b) => if sval_eqb v v' && negb b && events_eqb s w then 0 else 3
         | None => 3
         end
  end.
