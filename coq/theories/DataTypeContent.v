(** C05 / C18 — the data type parser keeps every content token of what it consumes.
    [parse_dt_content]: for EVERY type [t] the model parser ([DataTypeRT.parse_dt], any dialect, any fuel of
    the helper) returns on a token list [ts] with rest [r]:  [ts = pre ++ r] and the content tokens of [pre]
    are those of the printed type [glue (print_dt T t)], in order.  [kp] (which tokens are content) is ANY
    predicate that rejects everything that is not literal-like (word, quoted word, number, string) and the
    words the type grammar reads or prints as keywords ([type_kws T], any capitalisation); the generated tables
    have to pass the decidable test [content_tables_ok] (every regular alternative of the parser builds a
    constructor whose Display row prints the parameters that alternative reads).
    What carries content: lengths / precisions / scales / array sizes ([TNum n]: the token carries the parsed
    number, so [VARCHAR(007)] and [VARCHAR(7)] are the same token here: known finding
    parse_literal_uint:normalised is on the implementation side), ENUM / SET values, the DateTime64 time zone,
    field and column names of STRUCT / UNION / Tuple / Nested, the name and the modifiers of a custom type.
    Custom type modifiers: the model keeps the modifier TOKEN (a string modifier stays [TStr s]) and identifies
    ['x'] and [x] only in [mod_eqb]; [custom_modifier_content_refuted] shows that the content is therefore not
    invariant under [dt_eqb] (known finding datatype:custom-modifier-quotes); [str_mods] is the decidable class.
    The statement is false without the keyword condition ([type_content_kw_refuted]: [int] prints as [INT]).
    Proof: one lemma per parser function ([took]: "consumed a prefix with the content of these tokens"), the
    mutual recursion of the helper and the four field-list loops by induction on the fuel. *)
Require Import SqlV.Base SqlV.DataTypeRT SqlV.DataTypeRTProofs.
From Coq Require Import Arith.

(** * Keywords of the type grammar *)
Definition hand_kws : list str :=
  [s2l "ENUM"; s2l "SET"; s2l "DATETIME64"; s2l "FIXEDSTRING"; s2l "ARRAY"; s2l "NULLABLE"; s2l "LOWCARDINALITY";
   s2l "MAP"; s2l "STRUCT"; s2l "UNION"; s2l "TUPLE"; s2l "NESTED"].

(** every word a regular Display row prints (with the [TZ] spelling of the time families) *)
Definition print_words (T : tables) : list str :=
  flat_map (fun r => p_words r ++ match p_fam r with FTime => glue_tz (p_words r) | _ => [] end) (t_print T).

(** upper-case spellings of all words the type parser matches as keywords or the type printer prints *)
Definition type_kws (T : tables) : list str :=
  family_kws ++ hand_kws ++ map r_kw (t_parse T) ++ all_alt_kws T ++ map ascii_upper (print_words T).

(** * Side condition on the generated tables: the constructor a regular alternative builds is printed by a
    Display row of the family that prints the parameters the alternative read *)
Definition fam_is (T : tables) (c : str) (p : family -> bool) : bool :=
  match find_prow (t_print T) c with Some r => p (p_fam r) | None => false end.
Definition is_optlen (f : family) : bool := match f with FOptLen _ => true | _ => false end.
Definition is_charlen (f : family) : bool := match f with FCharLen => true | _ => false end.
Definition is_exact (f : family) : bool := match f with FExact => true | _ => false end.
Definition is_time (f : family) : bool := match f with FTime => true | _ => false end.

Definition alt_ok (T : tables) (a : palt) : bool :=
  match a_fam a with
  | PNullary | PStrList => true
  | POptLen => fam_is T (a_ctor a) is_optlen
  | POptLenU uc => fam_is T (a_ctor a) is_optlen && fam_is T uc is_optlen
  | PCharLen => fam_is T (a_ctor a) is_charlen
  | PExact => fam_is T (a_ctor a) is_exact
  | PTime | PTimeTz => fam_is T (a_ctor a) is_time
  end.

Definition content_tables_ok (T : tables) : bool :=
  forallb (fun r => match r_kind r with RAlts alts => forallb (alt_ok T) alts | RIrregular _ => true end) (t_parse T).

Definition is_litb (x : tok) : bool :=
  match x with TWord _ | TQWord _ _ | TNum _ | TStr _ => true | _ => false end.

(** the printers of the field lists, by name *)
Section Fields.
  Variable T : tables.
  Fixpoint go_o (l : list (option ident * dt)) : list tok :=
    match l with
    | [] => []
    | [(n, t)] => match n with Some i => [p_ident i] | None => [] end ++ print_dt T t
    | (n, t) :: r => match n with Some i => [p_ident i] | None => [] end ++ print_dt T t ++ TComma :: go_o r
    end.
  Fixpoint go_n (l : list (ident * dt)) : list tok :=
    match l with
    | [] => []
    | [(n, t)] => p_ident n :: print_dt T t
    | (n, t) :: r => p_ident n :: print_dt T t ++ TComma :: go_n r
    end.

  Lemma print_struct fs b :
    print_dt T (DStruct fs b) =
      match fs, b with
      | [], _ => [W "STRUCT"]
      | _, BParen => W "STRUCT" :: TLParen :: go_o fs ++ [TRParen]
      | _, BAngle => W "STRUCT" :: TLt :: go_o fs ++ [TGt]
      end.
  Proof. reflexivity. Qed.
  Lemma print_union fs : print_dt T (DUnion fs) = W "UNION" :: TLParen :: go_n fs ++ [TRParen].
  Proof. reflexivity. Qed.
  Lemma print_tuple fs : print_dt T (DTuple fs) = W "Tuple" :: TLParen :: go_o fs ++ [TRParen].
  Proof. reflexivity. Qed.
  Lemma print_nested fs : print_dt T (DNested fs) = W "Nested" :: TLParen :: go_n fs ++ [TRParen].
  Proof. reflexivity. Qed.
End Fields.

Lemma mem_str_app x a b : mem_str x (a ++ b) = mem_str x a || mem_str x b.
Proof. induction a as [|y a IH]; cbn [app mem_str]; [reflexivity|]. rewrite IH, orb_assoc. reflexivity. Qed.

Lemma find_parow_In l d kw r : find_parow l d kw = Some r -> In r l /\ r_kw r = kw.
Proof.
  induction l as [|x l IH]; cbn [find_parow]; [discriminate|].
  destruct (str_eqb (r_kw x) kw && gate_ok d (r_gate x)) eqn:E.
  - intro H; inversion H; subst. apply andb_true_iff in E. destruct E as [E _]. apply str_eqb_eq in E.
    split; [left; reflexivity|exact E].
  - intro H. destruct (IH H). split; [right|]; assumption.
Qed.

Lemma uint_inv ts n r : uint ts = Some (n, r) -> ts = TNum n :: r.
Proof.
  destruct ts as [|x ts']; [discriminate|]. destruct x; try discriminate. cbn [uint].
  destruct (n0 <=? u64_max); [|discriminate]. intro H; inversion H; reflexivity.
Qed.

Lemma to_ident_p t i : to_ident t = Some i -> p_ident i = t.
Proof. destruct t; try discriminate; intro H; inversion H; reflexivity. Qed.

Section Content.
  Variable T : tables.
  Variable d : str.
  Variable kp : tok -> bool.
  Hypothesis Hlit : forall x, kp x = true -> is_litb x = true.
  Hypothesis Hk : forall w, mem_str (ascii_upper w) (type_kws T) = true -> kp (TWord w) = false.
  Hypothesis Htab : content_tables_ok T = true.
  Notation F := (filter kp).

  (** ** Which tokens are dropped *)
  Lemma kp_nolit x : is_litb x = false -> kp x = false.
  Proof. intro H. destruct (kp x) eqn:E; [|reflexivity]. apply Hlit in E. congruence. Qed.

  Lemma kw_in w : In (ascii_upper w) (type_kws T) -> kp (TWord w) = false.
  Proof. intro H. apply Hk. apply mem_str_In. exact H. Qed.
  Lemma kw_fam w : mem_str (ascii_upper w) family_kws = true -> kp (TWord w) = false.
  Proof. intro H. apply Hk. unfold type_kws. rewrite mem_str_app, H. reflexivity. Qed.
  Lemma kw_hand w : mem_str (ascii_upper w) hand_kws = true -> kp (TWord w) = false.
  Proof. intro H. apply Hk. unfold type_kws. rewrite !mem_str_app, H, orb_true_r. reflexivity. Qed.
  Lemma kw_row w r : In r (t_parse T) -> r_kw r = ascii_upper w -> kp (TWord w) = false.
  Proof.
    intros Hin E. apply kw_in. unfold type_kws. rewrite !in_app_iff. right. right. left.
    rewrite <- E. apply in_map. exact Hin.
  Qed.
  Lemma kw_alt w : In (ascii_upper w) (all_alt_kws T) -> kp (TWord w) = false.
  Proof. intro H. apply kw_in. unfold type_kws. rewrite !in_app_iff. tauto. Qed.
  Lemma kw_print w : In w (print_words T) -> kp (TWord w) = false.
  Proof. intro H. apply kw_in. unfold type_kws. rewrite !in_app_iff. do 4 right. apply in_map. exact H. Qed.

  Lemma is_kw_fam k t : is_kw k t = true -> mem_str k family_kws = true -> kp t = false.
  Proof.
    destruct t; try discriminate. cbn [is_kw]. intros H Hm. apply str_eqb_eq in H. apply kw_fam. rewrite H. exact Hm.
  Qed.
  Lemma is_kw_alt k t : is_kw k t = true -> In k (all_alt_kws T) -> kp t = false.
  Proof.
    destruct t; try discriminate. cbn [is_kw]. intros H Hm. apply str_eqb_eq in H. apply kw_alt. rewrite H. exact Hm.
  Qed.

  (** ** Filtering *)
  Lemma F_app a b : F (a ++ b) = F a ++ F b.
  Proof. apply filter_app. Qed.
  Lemma F_drop x l : kp x = false -> F (x :: l) = F l.
  Proof. intro H. cbn [filter]. rewrite H. reflexivity. Qed.
  Lemma F_cons x l : F (x :: l) = F [x] ++ F l.
  Proof. cbn [filter]. destruct (kp x); reflexivity. Qed.
  Lemma F1_drop x : kp x = false -> F [x] = [].
  Proof. intro H. cbn [filter]. rewrite H. reflexivity. Qed.

  Ltac kpf :=
    first [ assumption | apply kp_nolit; reflexivity | apply kw_fam; reflexivity | apply kw_hand; reflexivity ].

  Ltac Fstep :=
    match goal with
    | |- context [filter kp (?a ++ ?b)] => rewrite (filter_app kp a b)
    | |- context [filter kp (?x :: ?l)] => rewrite (F_drop x l) by kpf
    | |- context [filter kp (?x :: ?l)] => lazymatch l with [] => fail | _ => rewrite (F_cons x l) end
    end.
  Ltac Fs := repeat Fstep; change (filter kp []) with (@nil tok); rewrite ?app_nil_r, <- ?app_assoc; cbn [app].

  Lemma F_words ws : (forall w, In w ws -> kp (TWord w) = false) -> F (words ws) = [].
  Proof.
    induction ws as [|w ws IH]; intro H; [reflexivity|]. cbn [words map]. rewrite F_drop by (apply H; left; reflexivity).
    apply IH. intros w' Hin. apply H. right. exact Hin.
  Qed.

  Lemma F_row_words r : In r (t_print T) -> F (words (p_words r)) = [].
  Proof.
    intro Hin. apply F_words. intros w Hw. apply kw_print. unfold print_words. apply in_flat_map.
    exists r. split; [exact Hin|]. apply in_or_app. left. exact Hw.
  Qed.
  Lemma F_row_words_tz r : In r (t_print T) -> p_fam r = FTime -> F (words (glue_tz (p_words r))) = [].
  Proof.
    intros Hin Hf. apply F_words. intros w Hw. apply kw_print. unfold print_words. apply in_flat_map.
    exists r. split; [exact Hin|]. apply in_or_app. right. rewrite Hf. exact Hw.
  Qed.

  Lemma F_glue l : F (glue l) = F l.
  Proof.
    enough (H : F (glue l) = F l /\ forall x, F (glue (x :: l)) = F (x :: l)) by apply H.
    induction l as [|y l IH].
    - split; [reflexivity|]. intro x. destruct x; reflexivity.
    - destruct IH as [IH1 IH2]. split; [apply IH2|]. intro x.
      assert (Hn : x <> TGt \/ y <> TGt -> F (glue (x :: y :: l)) = F (x :: y :: l)).
      { intro Hne. replace (glue (x :: y :: l)) with (x :: glue (y :: l)).
        - rewrite (F_cons x (glue (y :: l))), (F_cons x (y :: l)), IH2. reflexivity.
        - destruct x; try reflexivity. destruct y; try reflexivity. destruct Hne as [Hne|Hne]; congruence. }
      destruct x; try (apply Hn; left; discriminate). destruct y; try (apply Hn; right; discriminate).
      cbn [glue]. Fs. exact IH1.
  Qed.

  (** ** "consumed a prefix whose content is that of [out]" *)
  Definition took (ts r out : list tok) : Prop := exists pre, ts = pre ++ r /\ F pre = F out.

  Lemma took_refl ts out : F out = [] -> took ts ts out.
  Proof. intro H. exists []. split; [reflexivity|]. rewrite H. reflexivity. Qed.
  Lemma took_step x y ts r out : F [x] = F [y] -> took ts r out -> took (x :: ts) r (y :: out).
  Proof.
    intros E (pre & -> & H). exists (x :: pre). split; [reflexivity|].
    rewrite (F_cons x pre), (F_cons y out), E, H. reflexivity.
  Qed.
  Lemma took_skip x ts r out : kp x = false -> took ts r out -> took (x :: ts) r out.
  Proof. intros E (pre & -> & H). exists (x :: pre). split; [reflexivity|]. rewrite F_drop by exact E. exact H. Qed.
  Lemma took_trans ts r1 r2 o1 o2 : took ts r1 o1 -> took r1 r2 o2 -> took ts r2 (o1 ++ o2).
  Proof.
    intros (p1 & -> & H1) (p2 & -> & H2). exists (p1 ++ p2). split; [apply app_assoc|].
    rewrite !F_app, H1, H2. reflexivity.
  Qed.
  Lemma took_F ts r o o' : F o = F o' -> took ts r o -> took ts r o'.
  Proof. intros E (pre & -> & H). exists pre. split; [reflexivity|]. rewrite H. exact E. Qed.
  Lemma took_app ts o : took (o ++ ts) ts o.
  Proof. exists o. split; reflexivity. Qed.

  Ltac F1 := first [ reflexivity | rewrite !F1_drop by kpf; reflexivity ].
  (** aligned consumption: the consumed tokens and the printed ones correspond one to one *)
  Ltac steps := repeat (apply took_step; [F1|]).

  (** ** Lengths, precisions, scales, time zones *)
  Lemma q_optparen_inv ts n r : q_optparen ts = Some (n, r) -> ts = p_optparen n ++ r.
  Proof.
    unfold q_optparen. destruct ts as [|x ts']; [intro H; inversion H; reflexivity|].
    destruct x; try (intro H; inversion H; reflexivity).
    destruct (uint ts') as [[m r1]|] eqn:E; [|discriminate].
    destruct r1 as [|y r1']; [discriminate|]. destruct y; try discriminate.
    intro H; inversion H; subst. apply uint_inv in E. subst. reflexivity.
  Qed.

  Lemma q_exact_inv ts e r : q_exact ts = Some (e, r) -> ts = p_exact e ++ r.
  Proof.
    unfold q_exact. destruct ts as [|x ts']; [intro H; inversion H; reflexivity|].
    destruct x; try (intro H; inversion H; reflexivity).
    destruct (uint ts') as [[p r1]|] eqn:E; [|discriminate]. apply uint_inv in E. subst ts'.
    destruct r1 as [|y r1']; [discriminate|]. destruct y; try discriminate.
    - intro H; inversion H; subst. reflexivity.
    - destruct (uint r1') as [[s r2]|] eqn:E2; [|discriminate]. apply uint_inv in E2. subst r1'.
      destruct r2 as [|z r2']; [discriminate|]. destruct z; try discriminate.
      intro H; inversion H; subst. reflexivity.
  Qed.

  Lemma q_charlen_took ts l r : q_charlen ts = Some (l, r) -> took ts r (p_charlen l).
  Proof.
    unfold q_charlen. destruct ts as [|x ts']; [intro H; inversion H; apply took_refl; reflexivity|].
    destruct x; try (intro H; inversion H; apply took_refl; reflexivity).
    destruct ts' as [|t r1]; [discriminate|].
    destruct (is_kw (s2l "MAX") t) eqn:Em.
    - destruct r1 as [|y r2]; [discriminate|]. destruct y; try discriminate.
      intro H; inversion H; subst. pose proof (is_kw_fam _ _ Em eq_refl) as Ht.
      cbn [p_charlen]. steps. apply took_refl. reflexivity.
    - destruct (uint (t :: r1)) as [[n r2]|] eqn:E; [|discriminate]. apply uint_inv in E. inversion E; subst t r1.
      destruct r2 as [|u r2]; [discriminate|].
      destruct (is_kw (s2l "CHARACTERS") u) eqn:E1.
      { destruct r2 as [|y r3]; [discriminate|]. destruct y; try discriminate.
        intro H; inversion H; subst. pose proof (is_kw_fam _ _ E1 eq_refl) as Ht.
        cbn [p_charlen]. steps. apply took_refl. reflexivity. }
      destruct (is_kw (s2l "OCTETS") u) eqn:E2.
      { destruct r2 as [|y r3]; [discriminate|]. destruct y; try discriminate.
        intro H; inversion H; subst. pose proof (is_kw_fam _ _ E2 eq_refl) as Ht.
        cbn [p_charlen]. steps. apply took_refl. reflexivity. }
      destruct u; try discriminate. intro H; inversion H; subst.
      cbn [p_charlen]. steps. apply took_refl. reflexivity.
  Qed.

  Lemma take_kws_took ks : forall ts r,
    take_kws ks ts = Some r -> (forall k, In k ks -> In k (all_alt_kws T) \/ mem_str k family_kws = true) -> took ts r [].
  Proof.
    induction ks as [|k ks IH]; intros ts r H Hin; cbn [take_kws] in H.
    - inversion H; subst. apply took_refl. reflexivity.
    - destruct ts as [|t ts']; [discriminate|]. destruct (is_kw k t) eqn:E; [|discriminate].
      apply took_skip.
      + destruct (Hin k (or_introl eq_refl)) as [Ha|Hf]; [eapply is_kw_alt|eapply is_kw_fam]; eassumption.
      + apply IH; [exact H|]. intros k' Hk'. apply Hin. right. exact Hk'.
  Qed.

  Lemma q_tz_took ts z r : q_tz ts = Some (z, r) -> took ts r [].
  Proof.
    unfold q_tz. destruct ts as [|t ts']; [intro H; inversion H; apply took_refl; reflexivity|].
    assert (Htz : forall k, In k [s2l "TIME"; s2l "ZONE"] -> In k (all_alt_kws T) \/ mem_str k family_kws = true).
    { intros k [<-|[<-|[]]]; right; reflexivity. }
    destruct (is_kw (s2l "WITH") t) eqn:E1.
    { destruct (take_kws [s2l "TIME"; s2l "ZONE"] ts') as [r'|] eqn:Et; [|discriminate].
      intro H; inversion H; subst. apply took_skip; [eapply is_kw_fam; [exact E1|reflexivity]|].
      eapply take_kws_took; eassumption. }
    destruct (is_kw (s2l "WITHOUT") t) eqn:E2.
    { destruct (take_kws [s2l "TIME"; s2l "ZONE"] ts') as [r'|] eqn:Et; [|discriminate].
      intro H; inversion H; subst. apply took_skip; [eapply is_kw_fam; [exact E2|reflexivity]|].
      eapply take_kws_took; eassumption. }
    intro H; inversion H; subst. apply took_refl. reflexivity.
  Qed.

  Lemma F_sep_comma {A} (f : A -> list tok) x l : F (sep_comma f (x :: l)) = F (f x ++ sep_comma f l).
  Proof. destruct l as [|y l]; cbn [sep_comma]; [rewrite app_nil_r; reflexivity|]. Fs. reflexivity. Qed.

  Lemma q_strlist_loop_took f : forall ts l r,
    q_strlist_loop f ts = Some (l, r) -> took ts r (sep_comma (fun s => [TStr s]) l).
  Proof.
    induction f as [|f IH]; intros ts l r H; cbn [q_strlist_loop] in H; [discriminate|].
    destruct ts as [|x ts']; [discriminate|]. destruct x; try discriminate.
    destruct ts' as [|y ts'']; [discriminate|]. destruct y; try discriminate.
    - inversion H; subst. cbn [sep_comma]. apply took_step; [reflexivity|]. apply took_skip; [kpf|].
      apply took_refl. reflexivity.
    - destruct (q_strlist_loop f ts'') as [[l' r']|] eqn:E; [|discriminate]. inversion H; subst.
      eapply took_F; [symmetry; apply F_sep_comma|]. cbn [app]. apply took_step; [reflexivity|]. apply took_skip; [kpf|].
      apply IH. exact E.
  Qed.

  Lemma q_mods_loop_took f : forall ts l r,
    q_mods_loop f ts = Some (l, r) -> took ts r (sep_comma (fun m => [m]) l).
  Proof.
    induction f as [|f IH]; intros ts l r H; cbn [q_mods_loop] in H; [discriminate|].
    destruct ts as [|x ts']; [discriminate|].
    destruct x; try discriminate;
      try (destruct (q_mods_loop f ts') as [[l' r']|] eqn:E; [|discriminate]; inversion H; subst;
           eapply took_F; [symmetry; apply F_sep_comma|]; cbn [app]; apply took_step; [reflexivity|]; apply IH; exact E).
    - inversion H; subst. apply took_skip; [kpf|]. apply took_refl. reflexivity.
    - apply took_skip; [kpf|]. apply IH. exact H.
  Qed.

  Lemma F_p_name i l : F (p_name (i :: l)) = F (p_ident i :: p_name l).
  Proof. destruct l as [|j l]; cbn [p_name]; [reflexivity|]. Fs. reflexivity. Qed.

  Lemma q_name_took f : forall ts l r, q_name f ts = Some (l, r) -> took ts r (p_name l).
  Proof.
    induction f as [|f IH]; intros ts l r H; cbn [q_name] in H; [discriminate|].
    destruct ts as [|t ts']; [discriminate|]. destruct (to_ident t) as [i|] eqn:Ei; [|discriminate].
    apply to_ident_p in Ei. subst t.
    assert (Hone : took (p_ident i :: ts') ts' (p_name [i])).
    { cbn [p_name]. apply took_step; [reflexivity|]. apply took_refl. reflexivity. }
    destruct ts' as [|y ts'']; [inversion H; subst; exact Hone|].
    destruct y; try (inversion H; subst; exact Hone).
    destruct (q_name f ts'') as [[l' r']|] eqn:E; [|discriminate]. inversion H; subst.
    eapply took_F; [symmetry; apply F_p_name|]. apply took_step; [reflexivity|].
    apply took_skip; [kpf|]. apply IH. exact E.
  Qed.

  Lemma F_custom nm m : F (print_dt T (DCustom nm m)) = F (p_name nm ++ sep_comma (fun x => [x]) m).
  Proof. cbn [print_dt]. destruct m as [|x m]; [Fs; reflexivity|]. Fs. reflexivity. Qed.

  Lemma q_custom_took ts t tr r : q_custom ts = POk t tr r -> took ts r (print_dt T t).
  Proof.
    unfold q_custom. destruct (q_name (S (length ts)) ts) as [[nm r0]|] eqn:En; [|discriminate].
    apply q_name_took in En.
    assert (Hnone : took ts r0 (print_dt T (DCustom nm []))).
    { eapply took_F; [|exact En]. rewrite F_custom. cbn [sep_comma]. rewrite app_nil_r. reflexivity. }
    destruct r0 as [|x r1]; [intro H; inversion H; subst; exact Hnone|].
    destruct x; try (intro H; inversion H; subst; exact Hnone).
    destruct (q_mods_loop (S (length r1)) r1) as [[m r']|] eqn:Em; [|discriminate].
    intro H; inversion H; subst. apply q_mods_loop_took in Em.
    eapply took_F; [symmetry; apply F_custom|]. eapply took_trans; [exact En|]. apply took_skip; [kpf|]. exact Em.
  Qed.

  (** ** The table-driven families *)
  Lemma bad_tok_F : F [bad_tok] = [].
  Proof. apply F1_drop. apply kp_nolit. reflexivity. Qed.

  Lemma F_nullary c : F (print_dt T (DNullary c)) = [].
  Proof.
    cbn [print_dt]. destruct (find_prow (t_print T) c) as [[c' f ws]|] eqn:E; [|apply bad_tok_F].
    destruct f; try apply bad_tok_F. apply find_prow_spec in E. destruct E as [Hin _].
    exact (F_row_words _ Hin).
  Qed.

  Lemma F_optlen c n : fam_is T c is_optlen = true -> F (print_dt T (DOptLen c n)) = F (p_optparen n).
  Proof.
    unfold fam_is. cbn [print_dt]. destruct (find_prow (t_print T) c) as [[c' f ws]|] eqn:E; [|discriminate].
    cbn [p_fam]. destruct f; try discriminate. intros _. apply find_prow_spec in E. destruct E as [Hin _].
    pose proof (F_row_words _ Hin) as H1. cbn [p_words] in H1.
    rewrite !F_app, H1. destruct unsigned; Fs; reflexivity.
  Qed.

  Lemma F_charlen c l : fam_is T c is_charlen = true -> F (print_dt T (DCharLen c l)) = F (p_charlen l).
  Proof.
    unfold fam_is. cbn [print_dt]. destruct (find_prow (t_print T) c) as [[c' f ws]|] eqn:E; [|discriminate].
    cbn [p_fam]. destruct f; try discriminate. intros _. apply find_prow_spec in E. destruct E as [Hin _].
    pose proof (F_row_words _ Hin) as H1. cbn [p_words] in H1. rewrite !F_app, H1. reflexivity.
  Qed.

  Lemma F_exact c e : fam_is T c is_exact = true -> F (print_dt T (DExact c e)) = F (p_exact e).
  Proof.
    unfold fam_is. cbn [print_dt]. destruct (find_prow (t_print T) c) as [[c' f ws]|] eqn:E; [|discriminate].
    cbn [p_fam]. destruct f; try discriminate. intros _. apply find_prow_spec in E. destruct E as [Hin _].
    pose proof (F_row_words _ Hin) as H1. cbn [p_words] in H1. rewrite !F_app, H1. reflexivity.
  Qed.

  Lemma F_time c p z : fam_is T c is_time = true -> F (print_dt T (DTime c p z)) = F (p_optparen p).
  Proof.
    unfold fam_is. cbn [print_dt]. destruct (find_prow (t_print T) c) as [[c' f ws]|] eqn:E; [|discriminate].
    cbn [p_fam]. destruct f; try discriminate. intros _. apply find_prow_spec in E. destruct E as [Hin _].
    pose proof (F_row_words _ Hin) as H1. pose proof (F_row_words_tz _ Hin eq_refl) as H2. cbn [p_words] in H1, H2.
    destruct z; cbn [p_time]; rewrite !F_app, ?H1, ?H2; Fs; reflexivity.
  Qed.

  Lemma F_strlist c l : F (print_dt T (DStrList c l)) = F (sep_comma (fun s => [TStr s]) l).
  Proof.
    cbn [print_dt]. rewrite F_app.
    assert (H0 : F (if str_eqb c (s2l "Enum") then [W "ENUM"] else if str_eqb c (s2l "Set") then [W "SET"] else [bad_tok]) = []).
    { destruct (str_eqb c (s2l "Enum")); [apply F1_drop; kpf|]. destruct (str_eqb c (s2l "Set")); [apply F1_drop; kpf|apply bad_tok_F]. }
    rewrite H0. Fs. reflexivity.
  Qed.

  Lemma run_leaf_took a ts t tr r : run_leaf a ts = POk t tr r -> alt_ok T a = true -> took ts r (print_dt T t).
  Proof.
    unfold run_leaf, alt_ok. destruct (a_fam a) as [| |uc| | | | |].
    - intros H _. inversion H; subst. apply took_refl. apply F_nullary.
    - destruct (q_optparen ts) as [[n r0]|] eqn:E; [|discriminate]. intros H Ha. inversion H; subst.
      apply q_optparen_inv in E. subst ts. eapply took_F; [symmetry; apply F_optlen; exact Ha|]. apply took_app.
    - destruct (q_optparen ts) as [[n r0]|] eqn:E; [|discriminate]. intros H Ha.
      apply andb_true_iff in Ha. destruct Ha as [Ha1 Ha2]. apply q_optparen_inv in E. subst ts.
      assert (Hplain : took (p_optparen n ++ r0) r0 (print_dt T (DOptLen (a_ctor a) n))).
      { eapply took_F; [symmetry; apply F_optlen; exact Ha1|]. apply took_app. }
      destruct r0 as [|t0 r1]; [inversion H; subst; exact Hplain|].
      destruct (is_kw (s2l "UNSIGNED") t0) eqn:Eu; [|inversion H; subst; exact Hplain].
      inversion H; subst. eapply took_F; [symmetry; apply F_optlen; exact Ha2|].
      rewrite <- (app_nil_r (p_optparen n)) at 2. eapply took_trans; [apply took_app|].
      apply took_skip; [eapply is_kw_fam; [exact Eu|reflexivity]|]. apply took_refl. reflexivity.
    - destruct (q_charlen ts) as [[l r0]|] eqn:E; [|discriminate]. intros H Ha. inversion H; subst.
      eapply took_F; [symmetry; apply F_charlen; exact Ha|]. apply q_charlen_took. exact E.
    - destruct (q_exact ts) as [[e r0]|] eqn:E; [|discriminate]. intros H Ha. inversion H; subst.
      apply q_exact_inv in E. subst ts. eapply took_F; [symmetry; apply F_exact; exact Ha|]. apply took_app.
    - destruct (q_optparen ts) as [[p r0]|] eqn:E; [|discriminate].
      destruct (q_tz r0) as [[z r1]|] eqn:Ez; [|discriminate]. intros H Ha. inversion H; subst.
      apply q_optparen_inv in E. subst ts. eapply took_F; [symmetry; apply F_time; exact Ha|].
      rewrite <- (app_nil_r (p_optparen p)) at 2. eapply took_trans; [apply took_app|]. eapply q_tz_took. exact Ez.
    - destruct (q_optparen ts) as [[p r0]|] eqn:E; [|discriminate]. intros H Ha. inversion H; subst.
      apply q_optparen_inv in E. subst ts. eapply took_F; [symmetry; apply F_time; exact Ha|]. apply took_app.
    - unfold q_strlist. destruct ts as [|x ts']; [discriminate|]. destruct x; try discriminate.
      destruct (q_strlist_loop (S (length ts')) ts') as [[l r0]|] eqn:E; [|discriminate]. intros H _. inversion H; subst.
      eapply took_F; [symmetry; apply F_strlist|]. apply took_skip; [kpf|]. eapply q_strlist_loop_took. exact E.
  Qed.

  Lemma run_alts_took alts : forall ts t tr r,
    run_alts alts ts = POk t tr r -> forallb (alt_ok T) alts = true ->
    (forall k, In k (flat_map a_kws alts) -> In k (all_alt_kws T)) -> took ts r (print_dt T t).
  Proof.
    induction alts as [|a alts IH]; intros ts t tr r H Hok Hin; cbn [run_alts] in H; [discriminate|].
    cbn [forallb] in Hok. apply andb_true_iff in Hok. destruct Hok as [Ha Hok]. cbn [flat_map] in Hin.
    destruct (take_kws (a_kws a) ts) as [ts'|] eqn:Et.
    - rewrite <- (app_nil_l (print_dt T t)). eapply took_trans; [|eapply run_leaf_took; eassumption].
      eapply take_kws_took; [exact Et|]. intros k Hk0. left. apply Hin. apply in_or_app. left. exact Hk0.
    - eapply IH; [exact H|exact Hok|]. intros k Hk0. apply Hin. apply in_or_app. right. exact Hk0.
  Qed.

  (** ** Closing brackets, the suffix loop *)
  Lemma took_snoc ts x r o : kp x = false -> took ts (x :: r) o -> took ts r o.
  Proof.
    intros Hx H. rewrite <- (app_nil_r o). eapply took_trans; [exact H|]. apply took_skip; [exact Hx|].
    apply took_refl. reflexivity.
  Qed.

  Ltac tk :=
    repeat first
      [ assumption
      | apply took_refl; Fs; reflexivity
      | apply took_step; [F1|]
      | eapply took_trans; [eassumption|] ].

  Lemma close_angle_took trc r2 tr' r3 : q_close_angle trc r2 = Some (tr', r3) -> took r2 r3 [TGt].
  Proof.
    unfold q_close_angle. destruct trc; [intro H; inversion H; subst; tk|].
    destruct r2 as [|y r2']; [discriminate|]. destruct y; try discriminate; intro H; inversion H; subst; tk.
  Qed.

  Lemma q_square_took f : forall t ts t' r ts0,
    q_square d f t ts = Some (t', r) -> took ts0 ts (print_dt T t) -> took ts0 r (print_dt T t').
  Proof.
    induction f as [|f IH]; intros t ts t' r ts0 H H0; cbn [q_square] in H; [discriminate|].
    destruct ts as [|x ts']; [inversion H; subst; exact H0|].
    destruct x; try (inversion H; subst; exact H0).
    assert (Hgo : forall sz r1,
              match r1 with TRBracket :: r2 => q_square d f (DArraySquare t sz) r2 | _ => None end = Some (t', r) ->
              took ts' r1 (match sz with None => [] | Some n => [TNum n] end) -> took ts0 r (print_dt T t')).
    { intros sz r1 H1 Hsz. destruct r1 as [|y r2]; [discriminate|]. destruct y; try discriminate.
      eapply IH; [exact H1|]. cbn [print_dt]. tk. }
    destruct (mem_str d square_size_dialects).
    - destruct (uint ts') as [[n r']|] eqn:E.
      + apply uint_inv in E. subst ts'. apply (Hgo (Some n) r' H). tk.
      + apply (Hgo None ts' H). tk.
    - apply (Hgo None ts' H). tk.
  Qed.

  Lemma wrap_square_took p ts t' tr' r' :
    wrap_square d p = POk t' tr' r' ->
    (forall t tr r, p = POk t tr r -> took ts r (print_dt T t)) -> took ts r' (print_dt T t').
  Proof.
    unfold wrap_square. destruct p as [t tr r|]; [|discriminate]. intros H Hp. specialize (Hp _ _ _ eq_refl).
    destruct tr; [inversion H; subst; exact Hp|].
    destruct (q_square d (S (length r)) t r) as [[t2 r2]|] eqn:E; [|discriminate]. inversion H; subst.
    eapply q_square_took; eassumption.
  Qed.

  (** ** Field lists *)
  Definition oname_toks (n : option ident) : list tok := match n with Some i => [p_ident i] | None => [] end.

  Lemma F_go_o n t l : F (go_o T ((n, t) :: l)) = F ((oname_toks n ++ print_dt T t) ++ go_o T l).
  Proof.
    destruct l as [|p l]; [cbn [go_o]; rewrite app_nil_r; reflexivity|].
    change (go_o T ((n, t) :: p :: l)) with (oname_toks n ++ print_dt T t ++ TComma :: go_o T (p :: l)).
    Fs. reflexivity.
  Qed.
  Lemma F_go_n n t l : F (go_n T ((n, t) :: l)) = F ((p_ident n :: print_dt T t) ++ go_n T l).
  Proof.
    destruct l as [|p l]; [cbn [go_n]; rewrite app_nil_r; reflexivity|].
    change (go_n T ((n, t) :: p :: l)) with (p_ident n :: print_dt T t ++ TComma :: go_n T (p :: l)).
    Fs. reflexivity.
  Qed.
  Lemma F_go_o_map fs : F (go_o T (map (fun nt : ident * dt => (Some (fst nt), snd nt)) fs)) = F (go_n T fs).
  Proof.
    induction fs as [|[n t] fs IH]; [reflexivity|]. cbn [map fst snd]. rewrite F_go_o, F_go_n, !F_app, IH.
    cbn [oname_toks app]. Fs. reflexivity.
  Qed.

  Lemma F_struct fs b : F (print_dt T (DStruct fs b)) = F (go_o T fs).
  Proof. rewrite print_struct. destruct fs as [|p fs]; [apply F1_drop; kpf|]. destruct b; Fs; reflexivity. Qed.
  Lemma F_union fs : F (print_dt T (DUnion fs)) = F (go_n T fs).
  Proof. rewrite print_union. Fs. reflexivity. Qed.
  Lemma F_tuple fs : F (print_dt T (DTuple fs)) = F (go_o T fs).
  Proof. rewrite print_tuple. Fs. reflexivity. Qed.
  Lemma F_nested fs : F (print_dt T (DNested fs)) = F (go_n T fs).
  Proof. rewrite print_nested. Fs. reflexivity. Qed.

  (** the optional field name of [parse_struct_field_def] / the ClickHouse tuple *)
  Definition fname (ts : list tok) : option ident * list tok :=
    match ts with
    | a :: ((b :: _) as r) => if is_word a && is_word b then (to_ident a, r) else (None, ts)
    | _ => (None, ts)
    end.
  Lemma fname_took ts nm ts1 : fname ts = (nm, ts1) -> took ts ts1 (oname_toks nm).
  Proof.
    unfold fname. destruct ts as [|a [|b r]]; try (intro H; inversion H; subst; cbn [oname_toks]; solve [tk]).
    destruct (is_word a && is_word b) eqn:Eab; [|intro H; inversion H; subst; cbn [oname_toks]; solve [tk]].
    intro H; inversion H; subst. destruct (to_ident a) as [i|] eqn:Ei.
    - apply to_ident_p in Ei. subst a. cbn [oname_toks]. tk.
    - apply andb_true_iff in Eab. destruct Eab as [Ea _]. destruct a; discriminate.
  Qed.

  Lemma row_alts_ok row alts :
    In row (t_parse T) -> r_kind row = RAlts alts ->
    forallb (alt_ok T) alts = true /\ forall k, In k (flat_map a_kws alts) -> In k (all_alt_kws T).
  Proof.
    intros Hin Hk0. split.
    - unfold content_tables_ok in Htab. rewrite forallb_forall in Htab. specialize (Htab row Hin). rewrite Hk0 in Htab. exact Htab.
    - intros k Hi. unfold all_alt_kws. apply in_flat_map. exists row. split; [exact Hin|]. rewrite Hk0. exact Hi.
  Qed.

  (** ** The helper and the field-list loops, by induction on the fuel *)
  Definition Pm (f : nat) := forall ts t tr r, parse_main T d f ts = POk t tr r -> took ts r (print_dt T t).
  Definition Ph (f : nat) := forall ts t tr r, wrap_square d (parse_main T d f ts) = POk t tr r -> took ts r (print_dt T t).
  Definition Pn (f : nat) := forall ts fs r, named_fields T d f ts = Some (fs, r) -> took ts r (go_n T fs).
  Definition Pa (f : nat) := forall ts fs tr r, angle_fields T d f ts = Some (fs, tr, r) -> took ts r (go_o T fs).
  Definition Pt (f : nat) := forall ts fs r, tuple_fields T d f ts = Some (fs, r) -> took ts r (go_o T fs).
  Definition Pc (f : nat) := forall ts fs r, nested_cols T d f ts = Some (fs, r) -> took ts r (go_n T fs).

  Lemma Pm_Ph f : Pm f -> Ph f.
  Proof.
    intros Hm ts t tr r H. eapply wrap_square_took; [exact H|]. intros t0 tr0 r0 E. eapply Hm. exact E.
  Qed.

  (** unfolding equations of the mutual fixpoint (by conversion) *)
  Lemma named_fields_S f ts :
    named_fields T d (S f) ts =
      match ts with
      | t :: r =>
          match to_ident t with
          | Some i =>
              match wrap_square d (parse_main T d f r) with
              | POk ty false (TComma :: r1) =>
                  match named_fields T d f r1 with
                  | Some (l, r2) => Some ((i, ty) :: l, r2)
                  | None => None end
              | POk ty false r1 => Some ([(i, ty)], r1)
              | _ => None end
          | None => None end
      | [] => None end.
  Proof. reflexivity. Qed.

  Lemma nested_cols_S f ts :
    nested_cols T d (S f) ts =
      match ts with
      | t :: r =>
          match to_ident t with
          | Some i =>
              match wrap_square d (parse_main T d f r) with
              | POk ty false (TComma :: r1) =>
                  match nested_cols T d f r1 with
                  | Some (l, r2) => Some ((i, ty) :: l, r2)
                  | None => None end
              | POk ty false ((TRParen :: _) as r1) => Some ([(i, ty)], r1)
              | _ => None end
          | None => None end
      | [] => None end.
  Proof. reflexivity. Qed.

  Lemma angle_fields_S f ts :
    angle_fields T d (S f) ts =
      let '(nm, ts1) := fname ts in
      match wrap_square d (parse_main T d f ts1) with
      | POk ty true r1 => Some ([(nm, ty)], true, r1)
      | POk ty false (TComma :: r1) =>
          match angle_fields T d f r1 with
          | Some (l, tr', r2) => Some ((nm, ty) :: l, tr', r2)
          | None => None end
      | POk ty false r1 => Some ([(nm, ty)], false, r1)
      | PErr => None end.
  Proof. reflexivity. Qed.

  Lemma tuple_fields_S f ts :
    tuple_fields T d (S f) ts =
      let '(nm, ts1) := fname ts in
      match wrap_square d (parse_main T d f ts1) with
      | POk ty _ (TComma :: r1) =>
          match tuple_fields T d f r1 with
          | Some (l, r2) => Some ((nm, ty) :: l, r2)
          | None => None end
      | POk ty _ r1 => Some ([(nm, ty)], r1)
      | PErr => None end.
  Proof. reflexivity. Qed.

  Definition topf (f : nat) (ts : list tok) : pres :=
    match wrap_square d (parse_main T d f ts) with
    | POk t false r => POk t false r
    | _ => PErr end.
  Definition subf (f : nat) (mk : dt -> dt) (ts : list tok) : pres :=
    match ts with
    | TLParen :: r =>
        match topf f r with
        | POk t _ (TRParen :: r') => POk (mk t) false r'
        | _ => PErr end
    | _ => PErr end.

  (** the hand-modelled arms of the keyword match *)
  Definition irregular (f : nat) (tag : str) (r : list tok) : pres :=
    if str_eqb tag (s2l "DATETIME64#0") then
      match r with
      | TLParen :: r1 =>
          match uint r1 with
          | Some (p, TComma :: TStr z :: TRParen :: r2) => POk (DDatetime64 p (Some z)) false r2
          | Some (p, TRParen :: r2) => POk (DDatetime64 p None) false r2
          | _ => PErr end
      | _ => PErr end
    else if str_eqb tag (s2l "FIXEDSTRING#0") then
      match r with
      | TLParen :: r1 =>
          match uint r1 with
          | Some (n, TRParen :: r2) => POk (DFixedString n) false r2
          | _ => PErr end
      | _ => PErr end
    else if str_eqb tag (s2l "ARRAY#0") then
      if str_eqb d (s2l "snowflake") then POk DArrayNone false r
      else if str_eqb d (s2l "clickhouse") then subf f DArrayParen r
      else
        match r with
        | TLt :: r1 =>
            match wrap_square d (parse_main T d f r1) with
            | POk t tr r2 =>
                match q_close_angle tr r2 with
                | Some (tr', r3) => POk (DArrayAngle t) tr' r3
                | None => PErr end
            | PErr => PErr end
        | _ => PErr end
    else if str_eqb tag (s2l "NULLABLE#0") then subf f DNullable r
    else if str_eqb tag (s2l "LOWCARDINALITY#0") then subf f DLowCard r
    else if str_eqb tag (s2l "MAP#0") then
      match r with
      | TLParen :: r1 =>
          match topf f r1 with
          | POk k _ (TComma :: r2) =>
              match topf f r2 with
              | POk v _ (TRParen :: r3) => POk (DMap k v) false r3
              | _ => PErr end
          | _ => PErr end
      | _ => PErr end
    else if str_eqb tag (s2l "STRUCT#0") then
      match r with
      | TLParen :: r1 =>
          match named_fields T d f r1 with
          | Some (fs, TRParen :: r2) => POk (DStruct (map (fun nt => (Some (fst nt), snd nt)) fs) BParen) false r2
          | _ => PErr end
      | _ => PErr end
    else if str_eqb tag (s2l "STRUCT#1") then
      match r with
      | TLt :: r1 =>
          match angle_fields T d f r1 with
          | Some (fs, tr, r2) =>
              match q_close_angle tr r2 with
              | Some (tr', r3) => POk (DStruct fs BAngle) tr' r3
              | None => PErr end
          | None => PErr end
      | _ => POk (DStruct [] BAngle) false r end
    else if str_eqb tag (s2l "UNION#0") then
      match r with
      | TLParen :: r1 =>
          match named_fields T d f r1 with
          | Some (fs, TRParen :: r2) => POk (DUnion fs) false r2
          | _ => PErr end
      | _ => PErr end
    else if str_eqb tag (s2l "TUPLE#0") then
      match r with
      | TLParen :: r1 =>
          match tuple_fields T d f r1 with
          | Some (fs, TRParen :: r2) => POk (DTuple fs) false r2
          | _ => PErr end
      | _ => PErr end
    else if str_eqb tag (s2l "NESTED#0") then
      match r with
      | TLParen :: r1 =>
          match nested_cols T d f r1 with
          | Some (fs, TRParen :: r2) => POk (DNested fs) false r2
          | _ => PErr end
      | _ => PErr end
    else PErr.

  Lemma parse_main_S f ts :
    parse_main T d (S f) ts =
      match ts with
      | TWord w :: r =>
          match find_parow (t_parse T) d (ascii_upper w) with
          | Some {| r_kind := RAlts alts |} => run_alts alts r
          | Some {| r_kind := RIrregular tag |} => irregular f tag r
          | None => q_custom ts
          end
      | TQWord _ _ :: _ => q_custom ts
      | _ => PErr
      end.
  Proof. reflexivity. Qed.

  Lemma named_step f : Ph f -> Pn f -> Pn (S f).
  Proof.
    intros IHh IHn ts fs r H. rewrite named_fields_S in H.
    destruct ts as [|t0 ts']; [discriminate|]. destruct (to_ident t0) as [i|] eqn:Ei; [|discriminate].
    apply to_ident_p in Ei. subst t0.
    destruct (wrap_square d (parse_main T d f ts')) as [ty [|] r1|] eqn:Ew; try discriminate. apply IHh in Ew.
    assert (Hone : took (p_ident i :: ts') r1 (go_n T [(i, ty)])) by (cbn [go_n]; solve [tk]).
    destruct r1 as [|y r1']; [inversion H; subst; exact Hone|].
    destruct y; try (inversion H; subst; exact Hone).
    destruct (named_fields T d f r1') as [[l r2]|] eqn:En; [|discriminate]. inversion H; subst. apply IHn in En.
    eapply took_F; [symmetry; apply F_go_n|]. cbn [app]. apply took_step; [reflexivity|].
    eapply took_trans; [exact Ew|]. apply took_skip; [kpf|exact En].
  Qed.

  Lemma nested_step f : Ph f -> Pc f -> Pc (S f).
  Proof.
    intros IHh IHc ts fs r H. rewrite nested_cols_S in H.
    destruct ts as [|t0 ts']; [discriminate|]. destruct (to_ident t0) as [i|] eqn:Ei; [|discriminate].
    apply to_ident_p in Ei. subst t0.
    destruct (wrap_square d (parse_main T d f ts')) as [ty [|] r1|] eqn:Ew; try discriminate. apply IHh in Ew.
    assert (Hone : took (p_ident i :: ts') r1 (go_n T [(i, ty)])) by (cbn [go_n]; solve [tk]).
    destruct r1 as [|y r1']; [discriminate|].
    destruct y; try discriminate; [inversion H; subst; exact Hone|].
    destruct (nested_cols T d f r1') as [[l r2]|] eqn:En; [|discriminate]. inversion H; subst. apply IHc in En.
    eapply took_F; [symmetry; apply F_go_n|]. cbn [app]. apply took_step; [reflexivity|].
    eapply took_trans; [exact Ew|]. apply took_skip; [kpf|exact En].
  Qed.

  Lemma angle_step f : Ph f -> Pa f -> Pa (S f).
  Proof.
    intros IHh IHa ts fs tr r H. rewrite angle_fields_S in H.
    destruct (fname ts) as [nm ts1] eqn:En. apply fname_took in En.
    destruct (wrap_square d (parse_main T d f ts1)) as [ty trc r1|] eqn:Ew; [|discriminate]. apply IHh in Ew.
    assert (Hone : took ts r1 (go_o T [(nm, ty)])) by (cbn [go_o]; fold (oname_toks nm); solve [tk]).
    destruct trc; [inversion H; subst; exact Hone|].
    destruct r1 as [|y r1']; [inversion H; subst; exact Hone|].
    destruct y; try (inversion H; subst; exact Hone).
    destruct (angle_fields T d f r1') as [[[l tr'] r2]|] eqn:Ea; [|discriminate]. inversion H; subst. apply IHa in Ea.
    eapply took_F; [symmetry; apply F_go_o|]. eapply took_trans; [eapply took_trans; eassumption|].
    apply took_skip; [kpf|exact Ea].
  Qed.

  Lemma tuple_step f : Ph f -> Pt f -> Pt (S f).
  Proof.
    intros IHh IHt ts fs r H. rewrite tuple_fields_S in H.
    destruct (fname ts) as [nm ts1] eqn:En. apply fname_took in En.
    destruct (wrap_square d (parse_main T d f ts1)) as [ty trc r1|] eqn:Ew; [|discriminate]. apply IHh in Ew.
    assert (Hone : took ts r1 (go_o T [(nm, ty)])) by (cbn [go_o]; fold (oname_toks nm); solve [tk]).
    destruct r1 as [|y r1']; [inversion H; subst; exact Hone|].
    destruct y; try (inversion H; subst; exact Hone).
    destruct (tuple_fields T d f r1') as [[l r2]|] eqn:Ea; [|discriminate]. inversion H; subst. apply IHt in Ea.
    eapply took_F; [symmetry; apply F_go_o|]. eapply took_trans; [eapply took_trans; eassumption|].
    apply took_skip; [kpf|exact Ea].
  Qed.

  Lemma topf_took f ts t tr r : Ph f -> topf f ts = POk t tr r -> took ts r (print_dt T t).
  Proof.
    intros IHh H. unfold topf in H.
    destruct (wrap_square d (parse_main T d f ts)) as [u [|] r0|] eqn:E; try discriminate.
    inversion H; subst. apply IHh in E. exact E.
  Qed.

  Ltac hd H r r' :=
    let y := fresh "y" in
    destruct r as [|y r']; [discriminate H|]; destruct y; try discriminate H.

  Lemma subf_took f mk ts t tr r : Ph f -> subf f mk ts = POk t tr r ->
    exists u, t = mk u /\ took ts r (TLParen :: print_dt T u ++ [TRParen]).
  Proof.
    intros IHh H. unfold subf in H. hd H ts ts1.
    destruct (topf f ts1) as [u b r2|] eqn:E; [|discriminate]. apply (topf_took _ _ _ _ _ IHh) in E.
    hd H r2 r3. inversion H; subst. exists u. split; [reflexivity|]. solve [tk].
  Qed.

  Lemma irregular_took f tag w r t tr r' :
    Ph f -> Pn f -> Pa f -> Pt f -> Pc f -> kp (TWord w) = false ->
    irregular f tag r = POk t tr r' -> took (TWord w :: r) r' (print_dt T t).
  Proof.
    intros IHh IHn IHa IHt IHc Hw H. unfold irregular in H.
    destruct (str_eqb tag (s2l "DATETIME64#0")).
    { hd H r ra. destruct (uint ra) as [[p r2]|] eqn:E; [|discriminate]. apply uint_inv in E. subst ra.
      destruct r2 as [|y r3]; [discriminate|]. destruct y; try discriminate.
      - inversion H; subst. cbn [print_dt app]. solve [tk].
      - hd H r3 r4. hd H r4 r5. inversion H; subst. cbn [print_dt app]. solve [tk]. }
    destruct (str_eqb tag (s2l "FIXEDSTRING#0")).
    { hd H r ra. destruct (uint ra) as [[n r2]|] eqn:E; [|discriminate]. apply uint_inv in E. subst ra.
      hd H r2 r3. inversion H; subst. cbn [print_dt]. solve [tk]. }
    destruct (str_eqb tag (s2l "ARRAY#0")).
    { destruct (str_eqb d (s2l "snowflake")).
      { inversion H; subst. cbn [print_dt]. solve [tk]. }
      destruct (str_eqb d (s2l "clickhouse")).
      { apply (subf_took _ _ _ _ _ _ IHh) in H. destruct H as (u & -> & H). cbn [print_dt]. solve [tk]. }
      hd H r ra. destruct (wrap_square d (parse_main T d f ra)) as [u trc r2|] eqn:Ew; [|discriminate]. apply IHh in Ew.
      destruct (q_close_angle trc r2) as [[tr' r3]|] eqn:Ec; [|discriminate]. inversion H; subst.
      apply close_angle_took in Ec. cbn [print_dt]. solve [tk]. }
    destruct (str_eqb tag (s2l "NULLABLE#0")).
    { apply (subf_took _ _ _ _ _ _ IHh) in H. destruct H as (u & -> & H). cbn [print_dt]. solve [tk]. }
    destruct (str_eqb tag (s2l "LOWCARDINALITY#0")).
    { apply (subf_took _ _ _ _ _ _ IHh) in H. destruct H as (u & -> & H). cbn [print_dt]. solve [tk]. }
    destruct (str_eqb tag (s2l "MAP#0")).
    { hd H r ra. destruct (topf f ra) as [k bk r2|] eqn:Ek; [|discriminate]. apply (topf_took _ _ _ _ _ IHh) in Ek.
      hd H r2 rb. destruct (topf f rb) as [v bv r3|] eqn:Ev; [|discriminate]. apply (topf_took _ _ _ _ _ IHh) in Ev.
      hd H r3 rc. inversion H; subst. cbn [print_dt]. solve [tk]. }
    destruct (str_eqb tag (s2l "STRUCT#0")).
    { hd H r ra. destruct (named_fields T d f ra) as [[fs r2]|] eqn:En; [|discriminate]. hd H r2 rb.
      inversion H; subst. apply IHn in En.
      apply took_F with (o := go_n T fs); [rewrite F_struct, F_go_o_map; reflexivity|].
      apply took_skip; [exact Hw|]. apply took_skip; [kpf|]. eapply took_snoc; [|exact En]. kpf. }
    destruct (str_eqb tag (s2l "STRUCT#1")).
    { assert (Hempty : took (TWord w :: r) r (print_dt T (DStruct [] BAngle))) by (cbn [print_dt]; solve [tk]).
      destruct r as [|y r1]; [inversion H; subst; exact Hempty|].
      destruct y; try (inversion H; subst; exact Hempty). clear Hempty.
      destruct (angle_fields T d f r1) as [[[fs trc] r2]|] eqn:Ea; [|discriminate].
      destruct (q_close_angle trc r2) as [[tr' r3]|] eqn:Ec; [|discriminate]. inversion H; subst.
      apply IHa in Ea. apply close_angle_took in Ec.
      apply took_F with (o := go_o T fs ++ [TGt]); [rewrite F_struct; Fs; reflexivity|].
      apply took_skip; [exact Hw|]. apply took_skip; [kpf|]. eapply took_trans; eassumption. }
    destruct (str_eqb tag (s2l "UNION#0")).
    { hd H r ra. destruct (named_fields T d f ra) as [[fs r2]|] eqn:En; [|discriminate]. hd H r2 rb.
      inversion H; subst. apply IHn in En.
      apply took_F with (o := go_n T fs); [rewrite F_union; reflexivity|].
      apply took_skip; [exact Hw|]. apply took_skip; [kpf|]. eapply took_snoc; [|exact En]. kpf. }
    destruct (str_eqb tag (s2l "TUPLE#0")).
    { hd H r ra. destruct (tuple_fields T d f ra) as [[fs r2]|] eqn:En; [|discriminate]. hd H r2 rb.
      inversion H; subst. apply IHt in En.
      apply took_F with (o := go_o T fs); [rewrite F_tuple; reflexivity|].
      apply took_skip; [exact Hw|]. apply took_skip; [kpf|]. eapply took_snoc; [|exact En]. kpf. }
    destruct (str_eqb tag (s2l "NESTED#0")).
    { hd H r ra. destruct (nested_cols T d f ra) as [[fs r2]|] eqn:En; [|discriminate]. hd H r2 rb.
      inversion H; subst. apply IHc in En.
      apply took_F with (o := go_n T fs); [rewrite F_nested; reflexivity|].
      apply took_skip; [exact Hw|]. apply took_skip; [kpf|]. eapply took_snoc; [|exact En]. kpf. }
    discriminate H.
  Qed.

  Lemma main_step f : Ph f -> Pn f -> Pa f -> Pt f -> Pc f -> Pm (S f).
  Proof.
    intros IHh IHn IHa IHt IHc ts t tr r H. rewrite parse_main_S in H.
    destruct ts as [|x ts']; [discriminate|]. destruct x; try discriminate.
    - destruct (find_parow (t_parse T) d (ascii_upper w)) as [[kw g [alts|tag]]|] eqn:Ef.
      + apply find_parow_In in Ef. destruct Ef as [Hin Hkw]. cbn [r_kw] in Hkw.
        destruct (row_alts_ok _ alts Hin eq_refl) as [Hok Hall].
        apply took_skip; [eapply kw_row; [exact Hin|exact Hkw]|]. eapply run_alts_took; eassumption.
      + apply find_parow_In in Ef. destruct Ef as [Hin Hkw]. cbn [r_kw] in Hkw.
        eapply irregular_took; try eassumption. eapply kw_row; [exact Hin|exact Hkw].
      + eapply q_custom_took; exact H.
    - eapply q_custom_took; exact H.
  Qed.

  Lemma all_inv f : Pm f /\ Pn f /\ Pa f /\ Pt f /\ Pc f.
  Proof.
    induction f as [|f (IHm & IHn & IHa & IHt & IHc)].
    - split; [|split; [|split; [|split]]]; intros ts; intros; discriminate.
    - pose proof (Pm_Ph f IHm) as IHh. split; [|split; [|split; [|split]]].
      + apply main_step; assumption.
      + apply named_step; assumption.
      + apply angle_step; assumption.
      + apply tuple_step; assumption.
      + apply nested_step; assumption.
  Qed.

  (** ** The theorem, on the pre-glue printed form *)
  Theorem parse_helper_took f ts t tr r : parse_helper T d f ts = POk t tr r -> took ts r (print_dt T t).
  Proof. unfold parse_helper. apply Pm_Ph. apply all_inv. Qed.

  Theorem parse_dt_took ts t tr r : parse_dt T d ts = POk t tr r -> took ts r (print_dt T t).
  Proof.
    unfold parse_dt. destruct (parse_helper T d (S (length ts)) ts) as [t0 [|] r0|] eqn:E; try discriminate.
    intro H; inversion H; subst. eapply parse_helper_took. exact E.
  Qed.

  Theorem parse_dt_content_k ts t tr r :
    parse_dt T d ts = POk t tr r -> exists pre, ts = pre ++ r /\ F pre = F (glue (print_dt T t)).
  Proof. intro H. destruct (parse_dt_took _ _ _ _ H) as (pre & E & HF). exists pre. rewrite F_glue. auto. Qed.
End Content.

(** * The theorem: whatever type the model parser returns, the consumed prefix of the input has the content
    of the printed type *)
Theorem parse_dt_content (T : tables) (d : str) (kp : tok -> bool) :
  (forall x, kp x = true -> is_litb x = true) ->
  (forall w, mem_str (ascii_upper w) (type_kws T) = true -> kp (TWord w) = false) ->
  content_tables_ok T = true ->
  forall ts t tr r, parse_dt T d ts = POk t tr r ->
    exists pre, ts = pre ++ r /\ filter kp pre = filter kp (glue (print_dt T t)).
Proof. intros Hlit Hk Htab ts t tr r. exact (parse_dt_content_k T d kp Hlit Hk Htab ts t tr r). Qed.

(** * What the conditions exclude *)
Definition T_int : tables :=
  {| t_print := [ {| p_ctor := s2l "Int"; p_fam := FOptLen false; p_words := [s2l "INT"] |} ];
     t_parse := [ {| r_kw := s2l "INT"; r_gate := None;
                     r_kind := RAlts [ {| a_kws := []; a_ctor := s2l "Int"; a_fam := POptLen |} ] |} ] |}.

(** a content predicate that keeps type keywords: [int] comes back as [INT] *)
Example type_content_kw_refuted :
  content_tables_ok T_int = true /\
  parse_dt T_int (s2l "generic") [TWord (s2l "int")] = POk (DOptLen (s2l "Int") None) false [] /\
  filter is_litb [TWord (s2l "int")] = [TWord (s2l "int")] /\
  filter is_litb (glue (print_dt T_int (DOptLen (s2l "Int") None))) = [TWord (s2l "INT")].
Proof. repeat split; vm_compute; reflexivity. Qed.

(** a constructor whose Display row is of another family: the parameter the parser read is not printed *)
Definition T_bad : tables :=
  {| t_print := [ {| p_ctor := s2l "Int"; p_fam := FNullary; p_words := [s2l "INT"] |} ];
     t_parse := t_parse T_int |}.
Example type_content_tables_refuted :
  content_tables_ok T_bad = false /\
  parse_dt T_bad (s2l "generic") [TWord (s2l "INT"); TLParen; TNum 7; TRParen] = POk (DOptLen (s2l "Int") (Some 7)) false [] /\
  filter is_litb (glue (print_dt T_bad (DOptLen (s2l "Int") (Some 7)))) = [].
Proof. repeat split; vm_compute; reflexivity. Qed.

(** custom type modifiers: the model parser keeps the modifier token, and [dt_eqb] identifies the string ['x']
    with the word [x] (the implementation stores the bare text: known finding datatype:custom-modifier-quotes),
    so the content of a type is not invariant under [dt_eqb]: FOO('x') and FOO(x) *)
Definition T_none : tables := {| t_print := []; t_parse := [] |}.
Example custom_modifier_content_refuted :
  let foo := TWord (s2l "FOO") in
  exists t1 t2,
    parse_dt T_none (s2l "generic") [foo; TLParen; TStr (s2l "x"); TRParen] = POk t1 false [] /\
    parse_dt T_none (s2l "generic") [foo; TLParen; TWord (s2l "x"); TRParen] = POk t2 false [] /\
    dt_eqb t1 t2 = true /\
    filter is_litb (glue (print_dt T_none t1)) = [foo; TStr (s2l "x")] /\
    filter is_litb (glue (print_dt T_none t2)) = [foo; TWord (s2l "x")].
Proof.
  eexists; eexists. split; [vm_compute; reflexivity|]. split; [vm_compute; reflexivity|].
  repeat split; vm_compute; reflexivity.
Qed.
