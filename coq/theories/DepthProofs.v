(** C03 — theorems about the depth discipline (model: Depth.v).  Everything here is generic:
    all graphs, all limits, all stacks, all traces.  No axioms. *)
From SqlV Require Import Base Depth.
From Coq Require Import ZifyBool ZifyN ZifyNat.

(** * Bounded-edge bookkeeping *)
Lemma bedgeb_cons a b k B u v :
  bedgeb ((a, b, k) :: B) u v = is_bedge a b u v || bedgeb B u v.
Proof. reflexivity. Qed.

Lemma seg_b_nil g v r : seg_b_from [] g v r = 0.
Proof.
  revert v; induction r as [|u r IH]; intro v; cbn [seg_b_from]; [reflexivity|].
  destruct (guardedb g v); [reflexivity|]. rewrite IH. reflexivity.
Qed.

Lemma seg_b_cons g a b k B : forall r v,
  seg_b_from ((a, b, k) :: B) g v r <= seg_count_from g a b v r + seg_b_from B g v r.
Proof.
  induction r as [|u r IH]; intro v; cbn [seg_b_from seg_count_from]; [lia|].
  destruct (guardedb g v); [lia|]. specialize (IH u). rewrite bedgeb_cons.
  destruct (is_bedge a b u v), (bedgeb B u v); cbn [orb]; lia.
Qed.

Lemma seg_b_le_sum g B : forall v r,
  (forall a b k, In (a, b, k) B -> seg_count_from g a b v r <= k) ->
  seg_b_from B g v r <= bsum B.
Proof.
  induction B as [|[[a b] k] B IH]; intros v r H.
  - rewrite seg_b_nil. cbn [bsum]. lia.
  - pose proof (seg_b_cons g a b k B r v) as H1.
    pose proof (H a b k (or_introl eq_refl)) as H2.
    assert (H3 : seg_b_from B g v r <= bsum B) by (apply IH; intros; apply H; right; assumption).
    cbn [bsum snd]. lia.
Qed.

(** * The rank certificate bounds every stack *)
Section Cert.
  Variable g : graph.
  Variable rk : N -> N.
  Variable R : N.
  Hypothesis rk_le : forall v, rk v <= R.
  Hypothesis cert : check_cert g rk = true.

  Lemma cert_edge u v :
    edgeb g u v = true -> guardedb g v = false -> boundedb g u v = false -> rk v < rk u.
  Proof.
    intros He Hg Hb. unfold edgeb in He. apply existsb_exists in He as [e [Hin He]].
    apply andb_true_iff in He as [H1 H2]. apply N.eqb_eq in H1. apply N.eqb_eq in H2. subst u v.
    unfold check_cert in cert. rewrite forallb_forall in cert. specialize (cert e Hin).
    rewrite Hg, Hb in cert. cbn [orb] in cert. apply N.ltb_lt in cert. exact cert.
  Qed.

  Let K := bsum (g_bounded g).

  Lemma potential : forall r v,
    stack_path_from g v r = true -> bounded_ok_from g v r ->
    N.of_nat (length (v :: r)) + rk v
      <= (K + 1) * (R + 1) * gcount g (v :: r) + (seg_b_from (g_bounded g) g v r + 1) * (R + 1)
    /\ seg_b_from (g_bounded g) g v r <= K.
  Proof.
    induction r as [|u r IH]; intros v Hp Hb.
    - cbn [length seg_b_from]. pose proof (rk_le v). split; [|lia].
      change (N.of_nat 1) with 1. nia.
    - destruct Hb as [Hb1 Hb2]. cbn [stack_path_from] in Hp.
      apply andb_true_iff in Hp as [He Hp].
      destruct (IH u Hp Hb2) as [IH1 IH2].
      pose proof (seg_b_le_sum g (g_bounded g) v (u :: r) Hb1) as Hk. fold K in Hk.
      pose proof (rk_le v) as Hv.
      change (length (v :: u :: r)) with (S (length (u :: r))). rewrite Nat2N.inj_succ.
      cbn [gcount] in *. cbn [seg_b_from] in *.
      set (len := N.of_nat (length (u :: r))) in *.
      set (G' := (if guardedb g u then 1 else 0) + gcount g r) in *.
      set (b' := seg_b_from (g_bounded g) g u r) in *.
      assert (Hm : (b' + 1) * (R + 1) <= (K + 1) * (R + 1)) by (apply N.mul_le_mono_r; lia).
      destruct (guardedb g v) eqn:Hg.
      + split; [|lia]. nia.
      + fold (boundedb g u v) in *. destruct (boundedb g u v) eqn:Hbe.
        * split; [|lia]. nia.
        * pose proof (cert_edge u v He Hg Hbe). split; [|lia]. nia.
  Qed.

  (** [rank_cert_sound]: every path of the graph that holds at most [L] units of depth and
      respects the bounded edges has at most (L+1)(K+1)(R+1) frames. *)
  Theorem rank_cert_sound : forall L s,
    stack_path g s = true -> bounded_ok g s -> gcount g s <= L ->
    N.of_nat (length s) <= (L + 1) * (K + 1) * (R + 1).
  Proof.
    intros L [|v r] Hp Hb HL.
    - cbn [length]. change (N.of_nat 0) with 0. lia.
    - destruct (potential r v Hp Hb) as [H1 H2].
      set (len := N.of_nat (length (v :: r))) in *.
      set (G := gcount g (v :: r)) in *.
      set (b := seg_b_from (g_bounded g) g v r) in *.
      assert (Hm : (b + 1) * (R + 1) <= (K + 1) * (R + 1)) by (apply N.mul_le_mono_r; lia).
      assert (Hg : (K + 1) * (R + 1) * G <= (K + 1) * (R + 1) * L) by (apply N.mul_le_mono_l; exact HL).
      nia.
  Qed.
End Cert.

Theorem rank_cert_sound_tbl g t R :
  check_cert g (rk_of t R) = true ->
  forall L s, stack_path g s = true -> bounded_ok g s -> gcount g s <= L ->
  N.of_nat (length s) <= (L + 1) * (bsum (g_bounded g) + 1) * (R + 1).
Proof.
  intros Hc. apply (rank_cert_sound g (rk_of t R) R); [|exact Hc].
  intro v. unfold rk_of. apply N.le_min_r.
Qed.

(** * Listed exceptions: nodes treated as guarded; stacks that avoid them are unaffected *)
Lemma memN_app x a b : memN x (a ++ b) = memN x a || memN x b.
Proof. unfold memN. apply existsb_app. Qed.

Lemma guardedb_exc g exc v : memN v exc = false -> guardedb (with_exceptions g exc) v = guardedb g v.
Proof. intro H. unfold guardedb, with_exceptions. cbn [g_guarded]. rewrite memN_app, H. reflexivity. Qed.

Lemma edgeb_exc g exc u v : edgeb (with_exceptions g exc) u v = edgeb g u v.
Proof. reflexivity. Qed.

Lemma stack_path_from_exc g exc : forall r v,
  stack_path_from (with_exceptions g exc) v r = stack_path_from g v r.
Proof. induction r as [|u r IH]; intro v; cbn [stack_path_from]; [reflexivity|]. rewrite IH. reflexivity. Qed.

Lemma gcount_exc g exc : forall s, avoids exc s = true -> gcount (with_exceptions g exc) s = gcount g s.
Proof.
  induction s as [|v s IH]; intro H; cbn [gcount]; [reflexivity|].
  cbn [avoids forallb] in H. apply andb_true_iff in H as [H1 H2]. apply negb_true_iff in H1.
  rewrite (guardedb_exc g exc v H1). unfold avoids in IH. rewrite (IH H2). reflexivity.
Qed.

Lemma seg_count_exc g exc a b : forall r v, avoids exc (v :: r) = true ->
  seg_count_from (with_exceptions g exc) a b v r = seg_count_from g a b v r.
Proof.
  induction r as [|u r IH]; intros v H; cbn [seg_count_from]; [reflexivity|].
  cbn [avoids forallb] in H. apply andb_true_iff in H as [H1 H2]. apply negb_true_iff in H1.
  rewrite (guardedb_exc g exc v H1). rewrite (IH u H2). reflexivity.
Qed.

Lemma bounded_ok_exc g exc : forall r v, avoids exc (v :: r) = true ->
  bounded_ok_from g v r -> bounded_ok_from (with_exceptions g exc) v r.
Proof.
  induction r as [|u r IH]; intros v H [Hb1 Hb2]; (split; [|]).
  - intros a b k Hin. cbn [seg_count_from]. lia.
  - exact I.
  - intros a b k Hin. rewrite (seg_count_exc g exc a b (u :: r) v H). apply Hb1. exact Hin.
  - apply IH; [|exact Hb2]. cbn [avoids forallb] in H. apply andb_true_iff in H as [_ H2]. exact H2.
Qed.

(** the certificate theorem for a graph whose listed exception nodes are treated as guarded *)
Theorem rank_cert_sound_exc g exc t R :
  check_cert (with_exceptions g exc) (rk_of t R) = true ->
  forall L s, stack_path g s = true -> bounded_ok g s -> avoids exc s = true -> gcount g s <= L ->
  N.of_nat (length s) <= (L + 1) * (bsum (g_bounded g) + 1) * (R + 1).
Proof.
  intros Hc L s Hp Hb Ha HL.
  apply (rank_cert_sound_tbl (with_exceptions g exc) t R Hc L s).
  - destruct s as [|v r]; [reflexivity|]. cbn [stack_path] in *. rewrite stack_path_from_exc. exact Hp.
  - destruct s as [|v r]; [exact I|]. cbn [bounded_ok] in *. apply bounded_ok_exc; assumption.
  - rewrite gcount_exc; assumption.
Qed.

(** * The machine: balance, release, siblings, limit error *)
Lemma step_sum g st e :
  snd (fst (step g st e)) + gcount g (fst (fst (step g st e))) = snd st + gcount g (fst st).
Proof.
  destruct st as [s rem]. destruct e as [v|]; cbn [step fst snd].
  - destruct (guardedb g v) eqn:Hg.
    + destruct (rem =? 0) eqn:Hz; cbn [fst snd gcount]; [reflexivity|].
      rewrite Hg. apply N.eqb_neq in Hz. lia.
    + cbn [fst snd gcount]. rewrite Hg. lia.
  - destruct s as [|v s']; cbn [fst snd gcount]; [reflexivity|].
    destruct (guardedb g v); lia.
Qed.

Lemma run_cons g st e r :
  run g st (e :: r) =
  (fst (run g (fst (step g st e)) r), snd (step g st e) || snd (run g (fst (step g st e)) r)).
Proof.
  cbn [run]. destruct (step g st e) as [st1 f1]. cbn [fst snd].
  destruct (run g st1 r) as [st2 f2]. reflexivity.
Qed.

Lemma run_sum g : forall evs st,
  snd (fst (run g st evs)) + gcount g (fst (fst (run g st evs))) = snd st + gcount g (fst st).
Proof.
  induction evs as [|e r IH]; intro st; [reflexivity|].
  rewrite run_cons. cbn [fst]. rewrite IH. apply step_sum.
Qed.

(** [released]: whatever happens in between (including limit errors that are caught), when the
    stack is back to where it was, the remaining depth is what it was. *)
Theorem released g s rem evs rem' f :
  run g (s, rem) evs = ((s, rem'), f) -> rem' = rem.
Proof.
  intro H. pose proof (run_sum g evs (s, rem)) as E. rewrite H in E. cbn [fst snd] in E. lia.
Qed.

Lemma run_app g : forall a b st,
  run g st (a ++ b) =
  (fst (run g (fst (run g st a)) b), snd (run g st a) || snd (run g (fst (run g st a)) b)).
Proof.
  induction a as [|e a IH]; intros b st.
  - cbn [app run fst snd orb]. destruct (run g st b); reflexivity.
  - cbn [app]. rewrite !run_cons. rewrite IH. cbn [fst snd]. rewrite orb_assoc. reflexivity.
Qed.

(** [siblings]: a construct (any trace that returns to the stack it started from) that runs
    without the limit error runs without it any number of times in a row. *)
Theorem siblings g s rem c rem' :
  run g (s, rem) c = ((s, rem'), false) ->
  forall m, run g (s, rem) (concat (repeat c m)) = ((s, rem), false).
Proof.
  intros H m. pose proof (released g s rem c rem' false H) as E. subst rem'.
  induction m as [|m IH]; [reflexivity|].
  cbn [repeat concat]. rewrite run_app, H. cbn [fst snd]. rewrite IH. reflexivity.
Qed.

(** the limit error is raised exactly when a guarded node is called with nothing left *)
Theorem limit_iff g s rem v :
  guardedb g v = true -> (snd (step g (s, rem) (Call v)) = true <-> rem = 0).
Proof.
  intro Hg. cbn [step fst snd]. rewrite Hg. destruct (rem =? 0) eqn:Hz; cbn [snd].
  - apply N.eqb_eq in Hz. tauto.
  - apply N.eqb_neq in Hz. split; [discriminate|contradiction].
Qed.

Theorem unguarded_never_limits g st v : guardedb g v = false -> snd (step g st (Call v)) = false.
Proof. intro Hg. cbn [step]. rewrite Hg. reflexivity. Qed.

(** graph-respecting traces only build paths *)
Lemma step_path g st e :
  stack_path g (fst st) = true ->
  (match e with Call v => call_ok g (fst st) v | Ret => true end) = true ->
  stack_path g (fst (fst (step g st e))) = true.
Proof.
  destruct st as [s rem]. cbn [fst]. intros Hp Hc. destruct e as [v|]; cbn [step fst snd].
  - assert (Hpush : stack_path g (v :: s) = true).
    { destruct s as [|u s']; cbn [stack_path stack_path_from call_ok] in *; [exact Hc|].
      rewrite Hc, Hp. reflexivity. }
    destruct (guardedb g v); [destruct (rem =? 0)|]; cbn [fst]; assumption.
  - destruct s as [|v [|u s']]; cbn [fst stack_path stack_path_from] in *; try reflexivity.
    apply andb_true_iff in Hp as [_ Hp]. exact Hp.
Qed.

Lemma run_path g : forall evs st,
  stack_path g (fst st) = true -> trace_ok g st evs = true ->
  stack_path g (fst (fst (run g st evs))) = true.
Proof.
  induction evs as [|e r IH]; intros st Hp Ht; [exact Hp|].
  cbn [trace_ok] in Ht. apply andb_true_iff in Ht as [Hc Ht].
  rewrite run_cons. cbn [fst]. apply IH; [|exact Ht]. apply step_path; assumption.
Qed.

(** [machine_bounded]: every state reachable from the empty stack under limit [L] by calls
    along graph edges has a stack of at most (L+1)(K+1)(R+1) frames, and holds exactly
    [L - rem] units. *)
Theorem machine_bounded g t R :
  check_cert g (rk_of t R) = true ->
  forall L evs s rem f,
  run g ([], L) evs = ((s, rem), f) -> trace_ok g ([], L) evs = true -> bounded_ok g s ->
  rem + gcount g s = L /\
  N.of_nat (length s) <= (L + 1) * (bsum (g_bounded g) + 1) * (R + 1).
Proof.
  intros Hc L evs s rem f Hr Ht Hb.
  pose proof (run_sum g evs ([], L)) as E. rewrite Hr in E. cbn [fst snd gcount] in E.
  pose proof (run_path g evs ([], L) eq_refl Ht) as Hp. rewrite Hr in Hp. cbn [fst] in Hp.
  split; [lia|]. apply (rank_cert_sound_tbl g t R Hc L s Hp Hb). lia.
Qed.

(** * Unguarded cycles pump: the refutation witness *)
Lemma path_app g : forall c' v x rest,
  chain_from g v (c' ++ [x]) = true -> stack_path_from g x rest = true ->
  stack_path_from g v (c' ++ x :: rest) = true.
Proof.
  induction c' as [|w c' IH]; intros v x rest Hc Hp; cbn [app chain_from stack_path_from] in *.
  - apply andb_true_iff in Hc as [Hc _]. rewrite Hc, Hp. reflexivity.
  - apply andb_true_iff in Hc as [Hc1 Hc2]. rewrite Hc1. cbn [andb]. apply IH; assumption.
Qed.

Lemma gcount_unguarded_app g : forall c s,
  forallb (fun y => negb (guardedb g y)) c = true -> gcount g (c ++ s) = gcount g s.
Proof.
  induction c as [|v c IH]; intros s H; cbn [app gcount]; [reflexivity|].
  cbn [forallb] in H. apply andb_true_iff in H as [H1 H2]. apply negb_true_iff in H1.
  rewrite H1, (IH s H2). lia.
Qed.

Theorem pump_sound g base c :
  check_pump g (base, c) = true ->
  forall j, stack_path g (pump c j base) = true /\ gcount g (pump c j base) = gcount g base /\
            (j <= length (pump c j base))%nat.
Proof.
  unfold check_pump. destruct base as [|x rest]; [discriminate|]. destruct c as [|v c']; [discriminate|].
  intro H. apply andb_true_iff in H as [H Hu]. apply andb_true_iff in H as [H Hc].
  apply andb_true_iff in H as [Hp Hv]. apply N.eqb_eq in Hv. subst v.
  assert (Hhead : forall j, exists rest', pump (x :: c') j (x :: rest) = x :: rest' /\
                                          stack_path_from g x rest' = true).
  { induction j as [|j [rest' [E P]]]; cbn [pump].
    - exists rest. split; [reflexivity|exact Hp].
    - rewrite E. cbn [app]. exists (c' ++ x :: rest'). split; [reflexivity|]. apply path_app; assumption. }
  intro j. split; [|split].
  - destruct (Hhead j) as [rest' [E P]]. rewrite E. exact P.
  - induction j as [|j IH]; cbn [pump]; [reflexivity|]. rewrite gcount_unguarded_app; assumption.
  - induction j as [|j IH]; cbn [pump]; [lia|]. rewrite app_length. cbn [length]. lia.
Qed.

(** * The set-operation loop nests at most twice *)
Lemma qrem_depth : forall fuel prec ops,
  (prec < 10 -> snd (qrem fuel prec ops) <= 2) /\
  (10 <= prec < 20 -> snd (qrem fuel prec ops) <= 1) /\
  (20 <= prec -> snd (qrem fuel prec ops) = 0).
Proof.
  induction fuel as [|f IH]; intros prec ops; cbn [qrem].
  - cbn [snd]. repeat split; intros; lia.
  - destruct ops as [|o rest]; [cbn [snd]; repeat split; intros; lia|].
    assert (Hnp : setop_prec o = 10 \/ setop_prec o = 20)
      by (unfold setop_prec; destruct (o <? 2); [left|right]; reflexivity).
    destruct (prec <? setop_prec o) eqn:Hlt.
    + apply N.ltb_lt in Hlt.
      pose proof (IH (setop_prec o) rest) as H1.
      destruct (qrem f (setop_prec o) rest) as [ops1 d1]. cbn [snd] in H1.
      pose proof (IH prec ops1) as H2.
      destruct (qrem f prec ops1) as [ops2 d2]. cbn [snd] in *.
      destruct H1 as [H1a [H1b H1c]]. destruct H2 as [H2a [H2b H2c]].
      repeat split; intros; destruct Hnp as [E|E]; rewrite E in *; lia.
    + cbn [snd]. repeat split; intros; lia.
Qed.

Theorem setops_depth_le2 ops : setops_depth ops <= 2.
Proof. unfold setops_depth. apply qrem_depth. lia. Qed.

(** * The counter model of the correspondence *)
Lemma chain_run g : forall k s rem, guardedb g 1 = true ->
  snd (run g (s, rem) (chain_events (repeat 1 k))) = (rem <? N.of_nat k).
Proof.
  induction k as [|k IH]; intros s rem Hg.
  - cbn [repeat chain_events run snd]. symmetry. apply N.ltb_ge. lia.
  - cbn [repeat chain_events]. rewrite run_cons. cbn [step fst snd]. rewrite Hg.
    destruct (rem =? 0) eqn:Hz; cbn [fst snd].
    + apply N.eqb_eq in Hz. subst. symmetry. apply N.ltb_lt. lia.
    + apply N.eqb_neq in Hz. rewrite IH by exact Hg. cbn [orb].
      destruct (rem - 1 <? N.of_nat k) eqn:E; symmetry.
      * apply N.ltb_lt in E. apply N.ltb_lt. lia.
      * apply N.ltb_ge in E. apply N.ltb_ge. lia.
Qed.

Theorem chain_outcome_spec a b n L : chain_outcome a b n L = (L <? a * n + b).
Proof.
  unfold chain_outcome. rewrite chain_run by reflexivity. rewrite N2Nat.id. reflexivity.
Qed.

Theorem pump_all g ws :
  forallb (check_pump g) ws = true ->
  forall w, In w ws -> forall j,
    stack_path g (pump (snd w) j (fst w)) = true /\
    gcount g (pump (snd w) j (fst w)) = gcount g (fst w) /\
    (j <= length (pump (snd w) j (fst w)))%nat.
Proof.
  intros H [base c] Hin. cbn [fst snd]. apply pump_sound.
  rewrite forallb_forall in H. exact (H _ Hin).
Qed.
