(** C20: with un-escaping off the scanners return the exact source text between the
    delimiters, the heuristic printer is the identity on such bodies, and the two modes
    consume the same characters (same token boundaries). *)
Require Import SqlV.Base SqlV.Lexer SqlV.LexerProofs SqlV.Escape.
From Coq Require Import ZArith ZifyBool ZifyN ZifyNat Arith.
Local Open Scope N_scope.

(** Bodies the raw scanners can return for quote [q] (with / without backslash handling). *)
Inductive RawBody (q : N) (bs : bool) : str -> Prop :=
| RB_nil : RawBody q bs []
| RB_char c s : (c =? q) = false -> ((c =? cBSL) && bs) = false -> RawBody q bs s -> RawBody q bs (c :: s)
| RB_pair s : RawBody q bs s -> RawBody q bs (q :: q :: s)
| RB_bsl x s : bs = true -> RawBody q bs s -> RawBody q bs (cBSL :: x :: s).

Section Raw.
  Variable q : N.
  Hypothesis q_not_bsl : (q =? cBSL) = false.

  (** *** (1) raw scanners return the source text verbatim *)
  Theorem qs_raw_verbatim bs : forall l ncq s r,
    qs_loop false q false bs ncq l = Some (s, r) -> l = s ++ q :: r /\ RawBody q bs s.
  Proof.
    induction l as [l IH] using len_ind. intros ncq s r H. destruct l as [|ch l]; [discriminate|].
    cbn [qs_loop] in H. destruct (ch =? q) eqn:Ech; cbn [andb] in H.
    - apply N.eqb_eq in Ech. subst ch.
      destruct l as [|c2 r2]; [inversion H; subst; split; [reflexivity|constructor]|].
      destruct (c2 =? q) eqn:E2.
      + apply N.eqb_eq in E2. subst c2.
        destruct (qs_loop false q false bs ncq r2) as [[s' r']|] eqn:E; [|discriminate].
        inversion H; subst. destruct (IH r2 ltac:(cbn [length]; lia) _ _ _ E) as (Hl & HR). rewrite Hl.
        split; [reflexivity|]. apply RB_pair. exact HR.
      + inversion H; subst. split; [reflexivity|constructor].
    - destruct ((ch =? cBSL) && bs) eqn:Eb.
      + destruct l as [|nx r2]; [discriminate|].
        destruct (qs_loop false q false bs 0 r2) as [[s' r']|] eqn:E; [|discriminate].
        inversion H; subst. destruct (IH r2 ltac:(cbn [length]; lia) _ _ _ E) as (Hl & HR). rewrite Hl.
        apply andb_true_iff in Eb as [Eb1 Eb2]. apply N.eqb_eq in Eb1. subst ch.
        split; [reflexivity|]. apply RB_bsl; auto.
      + destruct (qs_loop false q false bs _ l) as [[s' r']|] eqn:E; [|discriminate].
        inversion H; subst. destruct (IH l ltac:(cbn [length]; lia) _ _ _ E) as (Hl & HR). rewrite Hl.
        split; [reflexivity|]. apply RB_char; auto.
  Qed.

  Theorem ident_raw_verbatim : forall l s r,
    quoted_ident false q l = Some (s, r) -> l = s ++ q :: r /\ RawBody q false s.
  Proof.
    induction l as [l IH] using len_ind. intros s r H. destruct l as [|ch l]; [discriminate|].
    cbn [quoted_ident] in H. destruct (ch =? q) eqn:Ech.
    - apply N.eqb_eq in Ech. subst ch.
      destruct l as [|c2 r2]; [inversion H; subst; split; [reflexivity|constructor]|].
      destruct (c2 =? q) eqn:E2.
      + apply N.eqb_eq in E2. subst c2.
        destruct (quoted_ident false q r2) as [[s' r']|] eqn:E; [|discriminate].
        inversion H; subst. destruct (IH r2 ltac:(cbn [length]; lia) _ _ E) as (Hl & HR). rewrite Hl.
        split; [reflexivity|]. apply RB_pair. exact HR.
      + inversion H; subst. split; [reflexivity|constructor].
    - destruct (quoted_ident false q l) as [[s' r']|] eqn:E; [|discriminate].
      inversion H; subst. destruct (IH l ltac:(cbn [length]; lia) _ _ E) as (Hl & HR). rewrite Hl.
      split; [reflexivity|]. apply RB_char; auto. apply andb_false_r.
  Qed.

  (** *** (2) the heuristic printer is the identity on raw bodies, whatever came before *)
  Lemma eq_loop_cons prev ch r : eq_loop q prev (ch :: r) =
    if ch =? q then
      if prev =? cBSL then ch :: eq_loop q prev r
      else match r with
           | c2 :: r2 => if c2 =? q then ch :: ch :: eq_loop q ch r2 else ch :: ch :: eq_loop q ch r
           | [] => [ch; ch]
           end
    else ch :: eq_loop q ch r.
  Proof. reflexivity. Qed.

  Theorem raw_print_id bs s : RawBody q bs s -> forall prev, eq_loop q prev s = s.
  Proof.
    induction 1 as [|c s Hc Hb HR IH|s HR IH|x s Hbs HR IH]; intro prev.
    - reflexivity.
    - rewrite eq_loop_cons, Hc, IH. reflexivity.
    - rewrite eq_loop_cons, N.eqb_refl. destruct (prev =? cBSL) eqn:E.
      + f_equal. rewrite eq_loop_cons, N.eqb_refl, E. f_equal. apply IH.
      + cbv beta iota. rewrite ?N.eqb_refl. f_equal. f_equal. apply IH.
    - rewrite eq_loop_cons. rewrite N.eqb_sym, q_not_bsl. f_equal.
      rewrite eq_loop_cons. destruct (x =? q) eqn:Ex.
      + rewrite N.eqb_refl. f_equal. apply IH.
      + f_equal. apply IH.
  Qed.
End Raw.

(** *** (3) both modes consume the same characters *)
Lemma qs_loop_same_rest q many bs : forall l ncq,
  match qs_loop true q many bs ncq l, qs_loop false q many bs ncq l with
  | Some (_, r), Some (_, r') => r = r'
  | None, None => True
  | _, _ => False
  end.
Proof.
  induction l as [l IH] using len_ind. intros ncq. destruct l as [|ch l]; [exact I|].
  cbn [qs_loop].
  destruct ((ch =? q) && (if many then ncq + 1 =? 3 else true)).
  { destruct many; [reflexivity|]. destruct l as [|c2 r2]; [reflexivity|].
    destruct (c2 =? q); [|reflexivity].
    specialize (IH r2 ltac:(cbn [length]; lia) ncq).
    destruct (qs_loop true q false bs ncq r2) as [[s1 r1]|], (qs_loop false q false bs ncq r2) as [[s2 r2']|]; auto. }
  destruct ((ch =? cBSL) && bs).
  { destruct l as [|nx r2]; [exact I|].
    specialize (IH r2 ltac:(cbn [length]; lia) 0).
    destruct (qs_loop true q many bs 0 r2) as [[s1 r1]|], (qs_loop false q many bs 0 r2) as [[s2 r2']|]; auto. }
  specialize (IH l ltac:(cbn [length]; lia) (if ch =? q then ncq + 1 else 0)).
  destruct (qs_loop true q many bs _ l) as [[s1 r1]|], (qs_loop false q many bs _ l) as [[s2 r2']|]; auto.
Qed.

Lemma quoted_ident_same_rest qe : forall l,
  match quoted_ident true qe l, quoted_ident false qe l with
  | Some (_, r), Some (_, r') => r = r'
  | None, None => True
  | _, _ => False
  end.
Proof.
  induction l as [l IH] using len_ind. destruct l as [|ch l]; [exact I|].
  cbn [quoted_ident]. destruct (ch =? qe).
  - destruct l as [|c2 r2]; [reflexivity|]. destruct (c2 =? qe); [|reflexivity].
    specialize (IH r2 ltac:(cbn [length]; lia)).
    destruct (quoted_ident true qe r2) as [[s1 r1]|], (quoted_ident false qe r2) as [[s2 r2']|]; auto.
  - specialize (IH l ltac:(cbn [length]; lia)).
    destruct (quoted_ident true qe l) as [[s1 r1]|], (quoted_ident false qe l) as [[s2 r2']|]; auto.
Qed.

(** token shape: everything but the payload of quote-delimited literals / quoted words *)
Definition same_shape (a b : tok) : Prop :=
  match a, b with
  | TStr k _, TStr k' _ => k = k'
  | TWord _ (Some q), TWord _ (Some q') => q = q'
  | _, _ => a = b
  end.
Definition same_shape_res (x y : res (option (tok * str))) : Prop :=
  match x, y with
  | Ok None, Ok None => True
  | Ok (Some (t, r)), Ok (Some (t', r')) => same_shape t t' /\ r = r'
  | Err e a, Err e' a' => e = e' /\ a = a'
  | Panic w, Panic w' => w = w'
  | _, _ => False
  end.

Lemma same_shape_refl t : same_shape t t.
Proof. destruct t as [v [q|]| | | | | | | |]; cbn; auto. Qed.
Lemma same_shape_res_refl x : same_shape_res x x.
Proof. destruct x as [[[t r]|]|e a|w]; cbn; auto using same_shape_refl. Qed.

Section Shape.
  Variable d : dialect.
  Variable u : uni.

  Lemma single_quoted_shape q bs l k :
    same_shape_res (lift (single_quoted true q bs l) (fun '(s, r') => ret (TStr k s) r'))
                   (lift (single_quoted false q bs l) (fun '(s, r') => ret (TStr k s) r')).
  Proof.
    unfold single_quoted. destruct l as [|c l]; [cbn; auto|]. destruct (c =? q); [|cbn; auto].
    pose proof (qs_loop_same_rest q false bs l 0) as H.
    destruct (qs_loop true q false bs 0 l) as [[s1 r1]|], (qs_loop false q false bs 0 l) as [[s2 r2]|];
      cbn; try contradiction; auto.
  Qed.

  Lemma single_or_triple_shape q bs k1 k3 l :
    same_shape_res (lift (single_or_triple true q bs k1 k3 l) (fun x => retp x))
                   (lift (single_or_triple false q bs k1 k3 l) (fun x => retp x)).
  Proof.
    unfold single_or_triple. destruct l as [|c1 r1]; [cbn; auto|]. destruct (c1 =? q); [|cbn; auto].
    assert (Hone : forall x,
      same_shape_res
        (lift (match qs_loop true q false bs 0 x with Some (s, r') => Ok (TStr k1 s, r') | None => Err EUnterminatedString x end) (fun y => retp y))
        (lift (match qs_loop false q false bs 0 x with Some (s, r') => Ok (TStr k1 s, r') | None => Err EUnterminatedString x end) (fun y => retp y))).
    { intro x. pose proof (qs_loop_same_rest q false bs x 0) as H.
      destruct (qs_loop true q false bs 0 x) as [[s1 r1']|], (qs_loop false q false bs 0 x) as [[s2 r2]|];
        cbn; try contradiction; auto. }
    destruct r1 as [|c2 r2]; [apply Hone|]. destruct (c2 =? q); [|apply Hone].
    destruct r2 as [|c3 r3]; [cbn; auto|]. destruct (c3 =? q); [|cbn; auto].
    pose proof (qs_loop_same_rest q true bs r3 0) as H.
    destruct (qs_loop true q true bs 0 r3) as [[s1 r1']|], (qs_loop false q true bs 0 r3) as [[s2 r2]|];
      cbn; try contradiction; auto.
  Qed.

  (** The dispatcher in the two modes: same outcome up to literal payloads. *)
  Theorem next_token_shape l : same_shape_res (next_token d u true l) (next_token d u false l).
  Proof.
    destruct l as [|ch r]; [exact I|]. unfold next_token.
    repeat match goal with
    | |- same_shape_res (if ?b then _ else _) (if ?b then _ else _) => destruct b
    end;
    try apply same_shape_res_refl;
    try apply single_quoted_shape; try apply single_or_triple_shape.
    (* delimited identifier *)
    destruct (matching_end_quote ch) as [qe|]; [|exact eq_refl].
    pose proof (quoted_ident_same_rest qe r) as H.
    destruct (quoted_ident true qe r) as [[s1 r1]|], (quoted_ident false qe r) as [[s2 r2]|];
      cbn; try contradiction; auto.
  Qed.
End Shape.

Definition plain_dialect_raw : dialect :=
  {| d_ident_start := fun c => ((97 <=? c) && (c <=? 122)) || ((65 <=? c) && (c <=? 90));
     d_ident_part := fun c => ((97 <=? c) && (c <=? 122)) || ((65 <=? c) && (c <=? 90)) || is_digit c;
     d_delim_start := fun c => c =? cDQ; d_custom_op := fun _ => false; d_piq := PiqAlways;
     d_backslash := false; d_unicode_lit := true; d_triple := false; d_numeric_prefix := false;
     d_bq_or_generic := false; d_snowflake := false; d_duck_or_generic := false; d_sf_or_bq := false; d_pg := false |}.
Definition plain_uni_raw : uni :=
  {| u_whitespace := fun c => (c =? cSP) || (c =? cTAB) || (c =? cLF) || (c =? cCR);
     u_numeric := is_digit; u_alphanumeric := fun c => d_ident_part plain_dialect_raw c |}.

(** *** Refutation: escaped and unicode string literals have no raw branch *)
Lemma escaped_ignores_raw_mode : exists d u s p,
  tokenize d u false s = LexOk [(TStr KEscaped p, (1, 1))] /\ s <> 69 :: cSQ :: p ++ [cSQ].
Proof.
  exists plain_dialect_raw, plain_uni_raw, (s2l "E'a" ++ [cBSL] ++ s2l "x41'"), (s2l "aA").
  split; [vm_compute; reflexivity|discriminate].
Qed.

(** *** (3') token streams in the two modes have the same shape and the same positions *)
Section StreamShape.
  Variable d : dialect.
  Variable u : uni.

  Inductive same_shape_list : list (tok * loc) -> list (tok * loc) -> Prop :=
  | ssl_nil : same_shape_list [] []
  | ssl_cons t t' p a b : same_shape t t' -> same_shape_list a b -> same_shape_list ((t, p) :: a) ((t', p) :: b).

  Definition same_shape_out (x y : lexout) : Prop :=
    match x, y with
    | LexOk a, LexOk b => same_shape_list a b
    | LexErr e p a, LexErr e' p' b => e = e' /\ p = p' /\ same_shape_list a b
    | LexPanic w, LexPanic w' => w = w'
    | _, _ => False
    end.

  Theorem tokenize_from_shape : forall fuel p l,
    same_shape_out (tokenize_from d u true fuel p l) (tokenize_from d u false fuel p l).
  Proof.
    induction fuel as [|f IH]; intros p l; cbn [tokenize_from]; [reflexivity|].
    pose proof (next_token_shape d u l) as H.
    destruct (next_token d u true l) as [[[t r]|]|e a|w], (next_token d u false l) as [[[t' r']|]|e' a'|w'];
      cbn in H; try contradiction.
    - destruct H as [Hs <-]. specialize (IH (advance p (firstn (consumed_len l r) l)) r).
      destruct (tokenize_from d u true f _ r) as [ts|e a b|w], (tokenize_from d u false f _ r) as [ts'|e' a' b'|w'];
        cbn in IH |- *; try contradiction.
      + constructor; auto.
      + destruct IH as (-> & -> & IH). repeat split; auto. constructor; auto.
      + exact IH.
    - constructor.
    - destruct H as [-> ->]. repeat split. constructor.
    - exact H.
  Qed.

  Theorem tokenize_shape s : same_shape_out (tokenize d u true s) (tokenize d u false s).
  Proof. apply tokenize_from_shape. Qed.

  (** *** (1') token level: a plain '...' literal lexed raw spells its own body *)
  Theorem single_raw_body l s r :
    d_triple d = false ->
    next_token d u false (cSQ :: l) = Ok (Some (TStr KSingle s, r)) ->
    l = s ++ cSQ :: r /\ RawBody cSQ (d_backslash d) s /\ escape_quoted cSQ s = s.
  Proof.
    intros Ht.
    change (next_token d u false (cSQ :: l))
      with (if d_triple d then
              lift (single_or_triple false cSQ (d_backslash d) KSingle KTripleSingle (cSQ :: l)) (fun x => retp x)
            else lift (single_quoted false cSQ (d_backslash d) (cSQ :: l)) (fun '(s, r') => ret (TStr KSingle s) r')).
    rewrite Ht. unfold single_quoted. rewrite N.eqb_refl.
    destruct (qs_loop false cSQ false (d_backslash d) 0 l) as [[s' r']|] eqn:E; [|discriminate].
    cbn. intros [= <- <-]. destruct (qs_raw_verbatim cSQ eq_refl (d_backslash d) l 0 s' r' E) as (Hl & HR).
    repeat split; auto. unfold escape_quoted. eapply (raw_print_id cSQ eq_refl); eauto.
  Qed.
End StreamShape.
