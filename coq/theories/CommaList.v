(** CommaList.v — C13 at the level of the interface: the shared comma-list combinators, generic
    in the element parser.

    An element parser [f] is described by what it does on its own text: [Elem f d ts a] says
    that wherever the tokens [ts] stand, followed by a list delimiter (a comma or a terminator
    of [is_parse_comma_separated_end]), [f] returns [a] and stops exactly behind [ts] — it is
    blind to what follows the delimiter and does not itself swallow a trailing comma.  From
    that, for every number of elements and every whitespace layout:
      - [comma_sep_plain]     the list text parses to the element values, option on or off;
      - [comma_sep_trailing]  with the option on, the text with one trailing comma parses to
                              the same values and stops before the terminator;
      - [tc_add], [tc_off_on] the two clauses of the property, as corollaries. *)
Require Import SqlV.Base SqlV.Machine SqlV.MachineProofs SqlV.LimitMono.
From Coq Require Import Arith.

Definition all_ws (l : list twl) : Prop := forallb is_ws l = true.
Definition first_tok (l : list twl) : token := tok (peek_from l 0).

Lemma all_ws_cons t l : all_ws (t :: l) -> is_ws t = true /\ all_ws l.
Proof. unfold all_ws. cbn. intro H. apply andb_true_iff in H. exact H. Qed.

Lemma peek_from_ws l r n : all_ws l -> peek_from (l ++ r) n = peek_from r n.
Proof.
  induction l as [|t l IH]; intro H; cbn [app peek_from]; [reflexivity|].
  apply all_ws_cons in H as [Ht Hl]. rewrite Ht. auto.
Qed.
Lemma next_from_ws l r i : all_ws l -> next_from (l ++ r) i = next_from r (i + length l).
Proof.
  revert i. induction l as [|t l IH]; intros i H; cbn [app next_from length].
  - rewrite Nat.add_0_r. reflexivity.
  - apply all_ws_cons in H as [Ht Hl]. rewrite Ht. rewrite IH by assumption. f_equal. lia.
Qed.
Lemma skipn_exact {X} (pre l : list X) : skipn (length pre) (pre ++ l) = l.
Proof. induction pre; cbn; auto. Qed.
Lemma first_tok_ws l r : all_ws l -> first_tok (l ++ r) = first_tok r.
Proof. intro H. unfold first_tok. rewrite peek_from_ws by assumption. reflexivity. Qed.

Lemma set_idx_idem i j s : set_idx i (set_idx j s) = set_idx i s.
Proof. reflexivity. Qed.

(** Primitives at a known position of a known text. *)
Lemma peek_at d s pre0 l :
  toks s = pre0 ++ l -> peek_token d (set_idx (length pre0) s) = (Ok (peek_from l 0), set_idx (length pre0) s).
Proof. intro Ht. unfold peek_token, peek_nth_token. cbn [toks idx set_idx]. rewrite Ht, skipn_exact. reflexivity. Qed.
Lemma next_at d s pre0 l :
  toks s = pre0 ++ l ->
  next_token d (set_idx (length pre0) s) = (Ok (fst (next_from l (length pre0))), set_idx (snd (next_from l (length pre0))) s).
Proof.
  intro Ht. unfold next_token. cbn [toks idx set_idx]. rewrite Ht, skipn_exact.
  destruct (next_from l (length pre0)). reflexivity.
Qed.
Lemma consume_at e d s pre0 ws c rest0 :
  toks s = pre0 ++ ws ++ c :: rest0 -> all_ws ws -> is_ws c = false ->
  consume_token e d (set_idx (length pre0) s) =
    if token_eqb (tok c) e then (Ok true, set_idx (length pre0 + length ws + 1) s)
    else (Ok false, set_idx (length pre0) s).
Proof.
  intros Ht Hws Hc. unfold consume_token, bind. rewrite (peek_at d s pre0 _ Ht).
  rewrite peek_from_ws by assumption. cbn [peek_from]. rewrite Hc.
  destruct (token_eqb (tok c) e); [|reflexivity].
  rewrite (next_at d s pre0 _ Ht). rewrite next_from_ws by assumption. cbn [next_from]. rewrite Hc.
  cbn [fst snd]. unfold ret.
  replace (S (length pre0 + length ws)) with (length pre0 + length ws + 1)%nat by lia. reflexivity.
Qed.

(** The comma test of [is_parse_comma_separated_end], at a position where a separator
    (whitespace then a comma) stands: *)
Lemma is_end_comma d s pre0 ws c rest0 :
  toks s = pre0 ++ ws ++ c :: rest0 -> all_ws ws -> tok c = TP PComma ->
  is_end d (set_idx (length pre0) s) =
    (Ok (tc s && is_term (d_reserved d) (first_tok rest0)), set_idx (length pre0 + length ws + 1) s).
Proof.
  intros Ht Hws Hc.
  assert (Hcw : is_ws c = false) by (unfold is_ws; rewrite Hc; reflexivity).
  unfold is_end, bind. rewrite (consume_at _ d s pre0 ws c rest0 Ht Hws Hcw). rewrite Hc.
  change (token_eqb (TP PComma) (TP PComma)) with true. cbv iota. cbn [negb].
  unfold get_tc. cbn [tc set_idx]. destruct (tc s); cbn [andb]; [|reflexivity].
  assert (Ht' : toks s = (pre0 ++ ws ++ [c]) ++ rest0) by (rewrite Ht, <- !app_assoc; reflexivity).
  replace (length pre0 + length ws + 1)%nat with (length (pre0 ++ ws ++ [c])) by (rewrite !app_length; cbn; lia).
  rewrite (peek_at d s _ _ Ht'). reflexivity.
Qed.

(** ... and at a position where no comma follows: *)
Lemma is_end_nocomma d s pre0 rest0 :
  toks s = pre0 ++ rest0 -> token_eqb (first_tok rest0) (TP PComma) = false ->
  is_end d (set_idx (length pre0) s) = (Ok true, set_idx (length pre0) s).
Proof.
  intros Ht Hn. unfold is_end, consume_token, bind. rewrite (peek_at d s pre0 _ Ht).
  unfold first_tok in Hn. rewrite Hn. reflexivity.
Qed.

Lemma is_term_not_comma r t : is_term r t = true -> token_eqb t (TP PComma) = false.
Proof. destruct t; cbn; try reflexivity. destruct p; cbn; try reflexivity; discriminate. Qed.

Section Lists.
  Variable A : Type.
  Variable f : M A.
  Variable d : dial.

  Definition delim (t : token) : bool := token_eqb t (TP PComma) || is_term (d_reserved d) t.

  (** [f] parses [ts] to [a] wherever [ts] stands, provided a list delimiter follows. *)
  Definition Elem (ts : list twl) (a : A) : Prop :=
    forall pre rest s, toks s = pre ++ ts ++ rest -> delim (first_tok rest) = true ->
      f d (set_idx (length pre) s) = (Ok a, set_idx (length pre + length ts) s).

  (** [ws* ,] *)
  Record sep := { s_ws : list twl; s_comma : twl }.
  Definition sep_ok (sp : sep) : Prop := all_ws (s_ws sp) /\ tok (s_comma sp) = TP PComma.
  Definition sep_toks (sp : sep) : list twl := s_ws sp ++ [s_comma sp].

  (** The text of a list: first element, then (separator, element) pairs. *)
  Fixpoint list_text (e : list twl) (more : list (sep * list twl)) : list twl :=
    match more with
    | [] => e
    | (sp, e') :: m => e ++ sep_toks sp ++ list_text e' m
    end.

  (** With the option on, an element that begins with a terminator would end the list early:
      the documented ambiguity.  [starts_ok tcflag e]: [e] has a first proper token, and it is
      not a terminator when the option is on. *)
  Definition starts_ok (tcflag : bool) (e : list twl) : Prop :=
    exists l t r, e = l ++ t :: r /\ all_ws l /\ is_ws t = false /\
                  (tcflag = true -> is_term (d_reserved d) (tok t) = false).

  Lemma starts_ok_first tcflag e x : starts_ok tcflag e -> tcflag = true ->
    is_term (d_reserved d) (first_tok (e ++ x)) = false.
  Proof.
    intros (l & t & r & -> & Hl & Ht & Hn) Htc. rewrite <- app_assoc. rewrite first_tok_ws by assumption.
    unfold first_tok. cbn [app peek_from]. rewrite Ht. auto.
  Qed.

  Fixpoint wf_more (tcflag : bool) (more : list (sep * list twl)) (vals : list A) : Prop :=
    match more, vals with
    | [], [] => True
    | (sp, e) :: m, a :: v => sep_ok sp /\ Elem e a /\ starts_ok tcflag e /\ wf_more tcflag m v
    | _, _ => False
    end.

  (** The list text, followed by a terminator, parses to the element values; option on or off. *)
  Theorem comma_sep_plain : forall more vals e a pre rest s fuel,
    Elem e a -> wf_more (tc s) more vals ->
    toks s = pre ++ list_text e more ++ rest ->
    is_term (d_reserved d) (first_tok rest) = true ->
    (length vals < fuel)%nat ->
    comma_sep fuel f d (set_idx (length pre) s) =
      (Ok (a :: vals), set_idx (length pre + length (list_text e more)) s).
  Proof.
    induction more as [|[sp e'] m IH]; intros vals e a pre rest s fuel He Hwf Ht Hterm Hfuel.
    - destruct vals; [|contradiction]. cbn [list_text] in *.
      destruct fuel as [|n]; [cbn in Hfuel; lia|]. cbn [comma_sep]. unfold bind at 1.
      rewrite (He pre rest s Ht) by (unfold delim; rewrite Hterm; apply orb_true_r).
      unfold bind at 1.
      assert (Ht' : toks s = (pre ++ e) ++ rest) by (rewrite Ht, <- app_assoc; reflexivity).
      replace (length pre + length e)%nat with (length (pre ++ e)) by (rewrite app_length; reflexivity).
      rewrite (is_end_nocomma d s (pre ++ e) rest Ht') by (eapply is_term_not_comma; eassumption).
      reflexivity.
    - destruct vals as [|a' v]; [contradiction|]. cbn [wf_more] in Hwf.
      destruct Hwf as ([Hws Hc] & He' & Hst & Hwf). cbn [list_text] in *.
      destruct fuel as [|n]; [cbn in Hfuel; lia|]. cbn [comma_sep]. unfold bind at 1.
      unfold sep_toks in *.
      assert (Hd1 : delim (first_tok ((s_ws sp ++ [s_comma sp]) ++ list_text e' m ++ rest)) = true).
      { rewrite <- app_assoc. rewrite first_tok_ws by assumption. unfold first_tok, delim. cbn [app peek_from].
        assert (is_ws (s_comma sp) = false) as -> by (unfold is_ws; rewrite Hc; reflexivity).
        rewrite Hc. reflexivity. }
      assert (Ht1 : toks s = pre ++ e ++ ((s_ws sp ++ [s_comma sp]) ++ list_text e' m ++ rest))
        by (rewrite Ht; rewrite <- !app_assoc; reflexivity).
      rewrite (He pre _ s Ht1 Hd1). unfold bind at 1.
      assert (Ht2 : toks s = (pre ++ e) ++ s_ws sp ++ s_comma sp :: (list_text e' m ++ rest))
        by (rewrite Ht; rewrite <- !app_assoc; reflexivity).
      replace (length pre + length e)%nat with (length (pre ++ e)) by (rewrite app_length; reflexivity).
      rewrite (is_end_comma d s (pre ++ e) (s_ws sp) (s_comma sp) _ Ht2 Hws Hc).
      assert (Hnt : tc s && is_term (d_reserved d) (first_tok (list_text e' m ++ rest)) = false).
      { destruct (tc s) eqn:Etc; [|reflexivity]. cbn [andb].
        destruct m as [|[sp2 e2] m2]; cbn [list_text].
        - apply starts_ok_first with (tcflag := true); auto.
        - rewrite <- app_assoc. apply starts_ok_first with (tcflag := true); auto. }
      rewrite Hnt. unfold bind at 1.
      assert (Ht3 : toks s = (pre ++ e ++ s_ws sp ++ [s_comma sp]) ++ list_text e' m ++ rest)
        by (rewrite Ht; rewrite <- !app_assoc; reflexivity).
      replace (length (pre ++ e) + length (s_ws sp) + 1)%nat with (length (pre ++ e ++ s_ws sp ++ [s_comma sp]))
        by (rewrite !app_length; cbn; lia).
      rewrite (IH v e' a' _ rest s n He' Hwf Ht3 Hterm) by (cbn in Hfuel; lia).
      unfold ret. f_equal. f_equal. rewrite !app_length. cbn [length]. lia.
  Qed.

  (** With the option on, the same text with ONE trailing comma before the terminator parses
      to the same values, and the cursor stops before the terminator. *)
  Theorem comma_sep_trailing : forall more vals e a pre sp rest s fuel,
    Elem e a -> wf_more true more vals -> sep_ok sp -> tc s = true ->
    toks s = pre ++ list_text e more ++ sep_toks sp ++ rest ->
    is_term (d_reserved d) (first_tok rest) = true ->
    (length vals < fuel)%nat ->
    comma_sep fuel f d (set_idx (length pre) s) =
      (Ok (a :: vals), set_idx (length pre + length (list_text e more) + length (sep_toks sp)) s).
  Proof.
    induction more as [|[sp' e'] m IH]; intros vals e a pre sp rest s fuel He Hwf [Hws Hc] Htc Ht Hterm Hfuel.
    - destruct vals; [|contradiction]. cbn [list_text] in *. unfold sep_toks in *.
      destruct fuel as [|n]; [cbn in Hfuel; lia|]. cbn [comma_sep]. unfold bind at 1.
      assert (Hd1 : delim (first_tok ((s_ws sp ++ [s_comma sp]) ++ rest)) = true).
      { rewrite <- app_assoc. rewrite first_tok_ws by assumption. unfold first_tok, delim. cbn [app peek_from].
        assert (is_ws (s_comma sp) = false) as -> by (unfold is_ws; rewrite Hc; reflexivity).
        rewrite Hc. reflexivity. }
      rewrite (He pre _ s Ht Hd1). unfold bind at 1.
      assert (Ht2 : toks s = (pre ++ e) ++ s_ws sp ++ s_comma sp :: rest)
        by (rewrite Ht; rewrite <- !app_assoc; reflexivity).
      replace (length pre + length e)%nat with (length (pre ++ e)) by (rewrite app_length; reflexivity).
      rewrite (is_end_comma d s (pre ++ e) (s_ws sp) (s_comma sp) _ Ht2 Hws Hc).
      rewrite Htc, Hterm. cbn [andb]. unfold ret. f_equal. f_equal. rewrite !app_length. cbn [length]. lia.
    - destruct vals as [|a' v]; [contradiction|]. cbn [wf_more] in Hwf.
      destruct Hwf as ([Hws' Hc'] & He' & Hst & Hwf). cbn [list_text] in *.
      destruct fuel as [|n]; [cbn in Hfuel; lia|]. cbn [comma_sep]. unfold bind at 1.
      unfold sep_toks in *.
      assert (Hd1 : delim (first_tok ((s_ws sp' ++ [s_comma sp']) ++ (list_text e' m ++ (s_ws sp ++ [s_comma sp]) ++ rest))) = true).
      { rewrite <- app_assoc. rewrite first_tok_ws by assumption. unfold first_tok, delim. cbn [app peek_from].
        assert (is_ws (s_comma sp') = false) as -> by (unfold is_ws; rewrite Hc'; reflexivity).
        rewrite Hc'. reflexivity. }
      assert (Ht1 : toks s = pre ++ e ++ ((s_ws sp' ++ [s_comma sp']) ++ (list_text e' m ++ (s_ws sp ++ [s_comma sp]) ++ rest)))
        by (rewrite Ht; rewrite <- !app_assoc; reflexivity).
      rewrite (He pre _ s Ht1 Hd1). unfold bind at 1.
      assert (Ht2 : toks s = (pre ++ e) ++ s_ws sp' ++ s_comma sp' :: (list_text e' m ++ (s_ws sp ++ [s_comma sp]) ++ rest))
        by (rewrite Ht; rewrite <- !app_assoc; reflexivity).
      replace (length pre + length e)%nat with (length (pre ++ e)) by (rewrite app_length; reflexivity).
      rewrite (is_end_comma d s (pre ++ e) (s_ws sp') (s_comma sp') _ Ht2 Hws' Hc').
      assert (Hnt : tc s && is_term (d_reserved d) (first_tok (list_text e' m ++ (s_ws sp ++ [s_comma sp]) ++ rest)) = false).
      { rewrite Htc. cbn [andb].
        destruct m as [|[sp2 e2] m2]; cbn [list_text].
        - apply starts_ok_first with (tcflag := true); auto.
        - rewrite <- app_assoc. apply starts_ok_first with (tcflag := true); auto. }
      rewrite Hnt. unfold bind at 1.
      assert (Ht3 : toks s = (pre ++ e ++ s_ws sp' ++ [s_comma sp']) ++ list_text e' m ++ (s_ws sp ++ [s_comma sp]) ++ rest)
        by (rewrite Ht; rewrite <- !app_assoc; reflexivity).
      replace (length (pre ++ e) + length (s_ws sp') + 1)%nat with (length (pre ++ e ++ s_ws sp' ++ [s_comma sp']))
        by (rewrite !app_length; cbn; lia).
      rewrite (IH v e' a' _ sp rest s n He' Hwf (conj Hws Hc) Htc Ht3 Hterm) by (cbn in Hfuel; lia).
      unfold ret. f_equal. f_equal. rewrite !app_length. cbn [length]. lia.
  Qed.

  (** [wf_more] is antitone in the flag: what is well-formed with the option on is with it off. *)
  Lemma wf_more_off more : forall vals, wf_more true more vals -> wf_more false more vals.
  Proof.
    induction more as [|[sp e] m IH]; intros [|a v]; cbn; auto.
    intros (H1 & H2 & (l & t & r & E & Hl & Ht & _) & H4).
    split; [exact H1|split; [exact H2|split; [|apply IH; exact H4]]].
    exists l, t, r. split; [exact E|split; [exact Hl|split; [exact Ht|discriminate]]].
  Qed.
End Lists.

(** * The two clauses of C13 for the shared combinator *)

(** Adding one trailing comma (option on) before a terminator: same values, and the cursor
    stands before the same terminator in both texts. *)
Theorem tc_add A (f : M A) d more vals e a pre sp rest s s' fuel :
  Elem A f d e a -> wf_more A f d true more vals -> sep_ok sp ->
  tc s = true -> tc s' = true ->
  toks s = pre ++ list_text e more ++ rest ->
  toks s' = pre ++ list_text e more ++ sep_toks sp ++ rest ->
  is_term (d_reserved d) (first_tok rest) = true ->
  (length vals < fuel)%nat ->
  exists t t',
    comma_sep fuel f d (set_idx (length pre) s) = (Ok (a :: vals), t) /\
    comma_sep fuel f d (set_idx (length pre) s') = (Ok (a :: vals), t') /\
    skipn (idx t) (toks t) = rest /\ skipn (idx t') (toks t') = rest.
Proof.
  intros He Hwf Hsp Htc Htc' Ht Ht' Hterm Hfuel.
  exists (set_idx (length pre + length (list_text e more)) s),
         (set_idx (length pre + length (list_text e more) + length (sep_toks sp)) s').
  split; [|split; [|split]].
  - apply comma_sep_plain with (rest := rest); auto. rewrite Htc. exact Hwf.
  - apply comma_sep_trailing with (rest := rest); auto.
  - cbn [idx toks set_idx]. rewrite Ht. rewrite app_assoc. rewrite <- app_length. apply skipn_exact.
  - cbn [idx toks set_idx]. rewrite Ht'.
    replace (pre ++ list_text e more ++ sep_toks sp ++ rest) with ((pre ++ list_text e more ++ sep_toks sp) ++ rest)
      by (rewrite <- !app_assoc; reflexivity).
    replace (length pre + length (list_text e more) + length (sep_toks sp))%nat
      with (length (pre ++ list_text e more ++ sep_toks sp)) by (rewrite !app_length; lia).
    apply skipn_exact.
Qed.

(** Switching the option on does not change the parse of a list text without trailing comma
    in which no element begins with a terminator (the documented ambiguity is the excluded case). *)
Theorem tc_off_on A (f : M A) d more vals e a pre rest s fuel :
  Elem A f d e a -> wf_more A f d true more vals ->
  toks s = pre ++ list_text e more ++ rest ->
  is_term (d_reserved d) (first_tok rest) = true ->
  (length vals < fuel)%nat ->
  fst (comma_sep fuel f d (set_idx (length pre) (set_tc false s))) = Ok (a :: vals) /\
  fst (comma_sep fuel f d (set_idx (length pre) (set_tc true s))) = Ok (a :: vals) /\
  idx (snd (comma_sep fuel f d (set_idx (length pre) (set_tc false s)))) =
  idx (snd (comma_sep fuel f d (set_idx (length pre) (set_tc true s)))).
Proof.
  intros He Hwf Ht Hterm Hfuel.
  rewrite (comma_sep_plain A f d more vals e a pre rest (set_tc false s) fuel); auto.
  rewrite (comma_sep_plain A f d more vals e a pre rest (set_tc true s) fuel); auto.
  cbn [tc set_tc]. apply wf_more_off. exact Hwf.
Qed.

(** The ambiguity is real: with the option on, an element that begins with a terminator ends
    the list (so the option cannot be "pure syntax" there). *)
Definition kw_from : twl := {| tok := TWord (s2l "from") None (s2l "FROM"); line := 1; col := 4 |}.
Example tc_ambiguity :
  let d := (mk_dial false false [s2l "FROM"]) in
  let ts := [ {| tok := TWord (s2l "a") None no_keyword; line := 1; col := 1 |};
              {| tok := TP PComma; line := 1; col := 2 |}; kw_from ] in
  fst (comma_sep 5 word_elem d (init_state ts false 50)) <> fst (comma_sep 5 word_elem d (init_state ts true 50)).
Proof. vm_compute. discriminate. Qed.

(** [parse_comma_separated0]: the empty list, and the lone trailing comma when the option is on. *)
Theorem comma0_empty A (f : M A) d fuel s pre l t rest :
  toks s = pre ++ l ++ t :: rest -> all_ws l -> is_ws t = false ->
  comma_sep0 fuel f (tok t) d (set_idx (length pre) s) = (Ok [], set_idx (length pre) s).
Proof.
  intros Ht Hl Hw. unfold comma_sep0, peek_token, peek_nth_token, bind.
  cbn [toks idx set_idx]. rewrite Ht, skipn_exact. rewrite peek_from_ws by assumption.
  cbn [peek_from]. rewrite Hw.
  assert (token_eqb (tok t) (tok t) = true) as ->.
  { destruct (tok t); cbn; rewrite ?N.eqb_refl, ?str_eqb_refl; cbn; auto.
    - destruct q; cbn; rewrite ?N.eqb_refl; auto.
    - destruct long; auto.
    - unfold punct_eqb. apply N.eqb_refl. }
  reflexivity.
Qed.

(** [parse_projection] restores the option, whatever the outcome of the item parser. *)
Theorem projection_restores_flag okm oke A (item : M A) fuel d s :
  Iface okm oke A item -> fst (projection fuel item d s) <> Panic ->
  tc (snd (projection fuel item d s)) = tc s /\ depth (snd (projection fuel item d s)) = depth s /\
  pst (snd (projection fuel item d s)) = pst s /\ toks (snd (projection fuel item d s)) = toks s.
Proof.
  intros Hi Hn. destruct (iface_frame okm oke _ _ (I_projection okm oke A fuel item Hi) d s Hn) as (a & b & c & e).
  auto.
Qed.

(** Inside [parse_projection] the end-of-list test runs with the option enabled exactly when the
    parser option or the dialect's projection flag is on, and every ITEM runs with the option as
    it was at entry (so the lists of a subquery nested in an item do not inherit the
    projection-only trailing comma). *)
Theorem projection_flag A (item : M A) fuel d s :
  projection fuel item d s =
  let '(o, s') := comma_sep fuel (with_tc_to (tc s) item) d (set_tc (tc s || d_proj_tc d) s) in
  match o with Panic => (o, s') | _ => (o, set_tc (tc s) s') end.
Proof. reflexivity. Qed.

(** ... the item sees the flag of the caller, and the flag of the list is back after it *)
Theorem projection_item_flag A (item : M A) v d s :
  with_tc_to v item d s =
  let '(o, s') := item d (set_tc v s) in
  match o with Panic => (o, s') | _ => (o, set_tc (tc s) s') end.
Proof. reflexivity. Qed.
