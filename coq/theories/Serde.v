(** Model of serde-derive + serde_json on the universe of Univ.v (property C17).

    [ser : sval -> json] is what serde_json's value serializer builds from the serializer
    calls recorded in an [sval]; [de fuel E t j] is what the derived [Deserialize] impl of
    type [t] accepts from a JSON value.  Conventions (serde 1.0 / serde_json 1.0):
    named struct -> object; newtype struct -> inner; tuple struct / tuple -> array; unit -> null;
    externally tagged enums (unit variant -> string, other variants -> single-key object);
    Option -> null | inner; Vec -> array; Box transparent; String/char -> string;
    integers -> number; bool.  Object members are looked up by key (first match), unknown
    keys are ignored, a missing member of an Option-typed field reads as None.
    Proofs are in SerdeProofs.v. *)
From SqlV Require Import Base Univ.
From Coq Require Import ZArith.

Inductive json :=
| JNull
| JBool (b : bool)
| JNum (z : Z)
| JStr (s : str)
| JArr (l : list json)
| JObj (l : list (str * json)).

(* ------------------------------------------------------------------ serialisation *)

Definition ser_body (sh : shape) (kvs : list (str * json)) : json :=
  match sh with
  | SUnit => JNull
  | SNewtype => match kvs with [(_, j)] => j | _ => JNull end
  | STuple => JArr (map snd kvs)
  | SNamed => JObj kvs
  end.

Fixpoint ser (v : sval) : json :=
  match v with
  | VBool b => JBool b
  | VNum z => JNum z
  | VChar c => JStr [c]
  | VStr s => JStr s
  | VUnit => JNull
  | VNone => JNull
  | VSome v' => ser v'
  | VSeq vs => JArr (map ser vs)
  | VTuple vs => JArr (map ser vs)
  | VStruct _ sh args =>
      ser_body sh (map (fun kv => match kv with (k, x) => (k, ser x) end) args)
  | VEnum _ vn sh args =>
      match sh with
      | SUnit => JStr vn
      | _ => JObj [(vn, ser_body sh (map (fun kv => match kv with (k, x) => (k, ser x) end) args))]
      end
  | VOpaque _ => JNull
  end.

Definition ser_kv (kv : str * sval) : str * json := match kv with (k, x) => (k, ser x) end.

(* ------------------------------------------------------------------ deserialisation *)

Fixpoint assoc {A} (l : list (str * A)) (k : str) : option A :=
  match l with
  | [] => None
  | (k', x) :: r => if str_eqb k' k then Some x else assoc r k
  end.

Fixpoint map_opt {A B} (f : A -> option B) (l : list A) : option (list B) :=
  match l with
  | [] => Some []
  | a :: r => match f a, map_opt f r with Some b, Some bs => Some (b :: bs) | _, _ => None end
  end.

Fixpoint zip_opt {A B C} (f : A -> B -> option C) (l1 : list A) (l2 : list B) : option (list C) :=
  match l1, l2 with
  | [], [] => Some []
  | a :: r1, b :: r2 =>
      match f a b, zip_opt f r1 r2 with Some c, Some cs => Some (c :: cs) | _, _ => None end
  | _, _ => None
  end.

(** Through [Box], is the type an [Option]?  (serde: a missing member is an error except
    for [Option], whose [Deserialize] impl goes through [deserialize_option].) *)
Fixpoint is_opt (t : ty) : bool :=
  match t with TOpt _ => true | TBox t' => is_opt t' | _ => false end.

Definition de_named_field (rec : ty -> json -> option sval) (kvs : list (str * json)) (f : field)
  : option sval :=
  match assoc kvs (f_name f) with
  | Some j => rec (f_ty f) j
  | None => if is_opt (f_ty f) then Some VNone else None
  end.

Definition de_fields (rec : ty -> json -> option sval) (fs : fields) (j : json)
  : option (list (str * sval)) :=
  match fs with
  | FUnit => match j with JNull => Some [] | _ => None end
  | FTuple [f] => option_map (fun v => [([], v)]) (rec (f_ty f) j)
  | FTuple fl =>
      match j with
      | JArr l => zip_opt (fun f x => option_map (fun v => ([], v)) (rec (f_ty f) x)) fl l
      | _ => None
      end
  | FNamed fl =>
      match j with
      | JObj kvs => map_opt (fun f => option_map (fun v => (f_name f, v)) (de_named_field rec kvs f)) fl
      | _ => None
      end
  end.

Definition is_unit_fields (fs : fields) : bool := match fs with FUnit => true | _ => false end.

Fixpoint de (fuel : nat) (E : env) (t : ty) (j : json) : option sval :=
  match fuel with
  | O => None
  | S f =>
    match t with
    | TPrim PBool => match j with JBool b => Some (VBool b) | _ => None end
    | TPrim (PUInt b) => match j with JNum z => if in_urange b z then Some (VNum z) else None | _ => None end
    | TPrim (PSInt b) => match j with JNum z => if in_srange b z then Some (VNum z) else None | _ => None end
    | TPrim PChar => match j with JStr [c] => Some (VChar c) | _ => None end
    | TPrim PStr => match j with JStr s => Some (VStr s) | _ => None end
    | TPrim PUnit => match j with JNull => Some VUnit | _ => None end
    | TOpt t' => match j with JNull => Some VNone | _ => option_map VSome (de f E t' j) end
    | TVec t' => match j with JArr l => option_map VSeq (map_opt (de f E t') l) | _ => None end
    | TBox t' => de f E t' j
    | TTuple ts => match j with JArr l => option_map VTuple (zip_opt (de f E) ts l) | _ => None end
    | TNamed n =>
        match lookup E n with
        | None => None
        | Some d =>
          match d_body d with
          | BStruct fs =>
              option_map (fun args => VStruct (d_name d) (shape_of fs) args) (de_fields (de f E) fs j)
          | BEnum vs =>
              match j with
              | JStr vn =>
                  match find_variant vs vn with
                  | Some var => if is_unit_fields (v_fields var)
                                then Some (VEnum (d_name d) vn SUnit []) else None
                  | None => None
                  end
              | JObj [(vn, j')] =>
                  match find_variant vs vn with
                  | Some var =>
                      if is_unit_fields (v_fields var) then None
                      else option_map (fun args => VEnum (d_name d) vn (shape_of (v_fields var)) args)
                                      (de_fields (de f E) (v_fields var) j')
                  | None => None
                  end
              | _ => None
              end
          end
        end
    | TOpaque _ => None
    end
  end.

(* ------------------------------------------------------------------ well-formedness *)

(** [nn fuel E t = true]: no value of type [t] serialises to [null] (fuel bounds the chain of
    newtype structs / boxes; exhausted = [false], i.e. conservative). *)
Fixpoint nn (fuel : nat) (E : env) (t : ty) : bool :=
  match fuel with
  | O => false
  | S f =>
    match t with
    | TPrim PUnit => false
    | TPrim _ => true
    | TOpt _ => false
    | TVec _ | TTuple _ => true
    | TBox t' => nn f E t'
    | TNamed n =>
        match lookup E n with
        | None => false
        | Some d =>
          match d_body d with
          | BStruct FUnit => false
          | BStruct (FTuple [fd]) => nn f E (f_ty fd)
          | BStruct _ => true
          | BEnum _ => true
          end
        end
    | TOpaque _ => false
    end
  end.

Definition never_null (E : env) (t : ty) : bool := nn (16 + length E) E t.

Fixpoint ty_ok (E : env) (t : ty) : bool :=
  match t with
  | TPrim (PUInt b) | TPrim (PSInt b) => (b <=? 64) && (1 <=? b)
  | TPrim _ => true
  | TOpt t' => never_null E t' && ty_ok E t'
  | TVec t' | TBox t' => ty_ok E t'
  | TTuple ts => forallb (ty_ok E) ts
  | TNamed n => match lookup E n with Some _ => true | None => false end
  | TOpaque _ => false
  end.

Definition no_attrs (l : list str) : bool := match l with [] => true | _ => false end.

Definition field_ok (E : env) (f : field) : bool := no_attrs (f_serde f) && ty_ok E (f_ty f).

Definition fields_ok (E : env) (fs : fields) : bool :=
  match fs with
  | FUnit => true
  | FTuple l => forallb (field_ok E) l
  | FNamed l => forallb (field_ok E) l && nodup_names (map f_name l)
  end.

Definition variant_ok (E : env) (v : variant) : bool := no_attrs (v_serde v) && fields_ok E (v_fields v).

Definition body_ok (E : env) (b : body) : bool :=
  match b with
  | BStruct fs => fields_ok E fs
  | BEnum vs => forallb (variant_ok E) vs && nodup_names (map v_name vs)
  end.

Definition serde_traits : list str := [s2l "Serialize"; s2l "Deserialize"].

Definition decl_ok (E : env) (d : decl) : bool :=
  d_ser d && d_de d && no_attrs (d_serde d) &&
  negb (existsb (fun m => mem m serde_traits) (d_manual d)) &&
  body_ok E (d_body d).

(** The boolean side condition of C17, evaluated on the regenerated environment. *)
Definition wf_serde (E : env) : bool := forallb (fun kd => decl_ok E (snd kd)) E.

(* ------------------------------------------------------------------ correspondence helpers *)

(** Equality of JSON documents up to the order of object members (serde_json's [Value]
    keeps objects sorted by key; the model emits declaration order). *)
Fixpoint json_sim (a b : json) : bool :=
  match a, b with
  | JNull, JNull => true
  | JBool x, JBool y => Bool.eqb x y
  | JNum x, JNum y => Z.eqb x y
  | JStr x, JStr y => str_eqb x y
  | JArr l1, JArr l2 =>
      (fix go (l1 l2 : list json) : bool :=
         match l1, l2 with
         | [], [] => true
         | x :: r1, y :: r2 => json_sim x y && go r1 r2
         | _, _ => false
         end) l1 l2
  | JObj l1, JObj l2 =>
      Nat.eqb (length l1) (length l2) &&
      (fix go (l1 : list (str * json)) : bool :=
         match l1 with
         | [] => true
         | (k, x) :: r => match assoc l2 k with Some y => json_sim x y | None => false end && go r
         end) l1
  | _, _ => false
  end.

Fixpoint json_depth (j : json) : nat :=
  match j with
  | JArr l => S (fold_right (fun x a => Nat.max (json_depth x) a) O l)
  | JObj l => S (fold_right (fun kv a => Nat.max (match kv with (_, x) => json_depth x end) a) O l)
  | _ => 1%nat
  end.

(** Fuel used when the model is *run* (the theorems quantify over all sufficient fuels):
    every step of [de] consumes one level of the document or unfolds one type constructor /
    declaration, so a generous multiple of the document depth plus the number of declarations. *)
Definition de_fuel (E : env) (j : json) : nat := (8 * json_depth j + length E + 64)%nat.
Definition de_top (E : env) (t : ty) (j : json) : option sval := de (de_fuel E j) E t j.

Definition opt_sval_eqb (a b : option sval) : bool :=
  match a, b with
  | Some x, Some y => sval_eqb x y
  | None, None => true
  | _, _ => false
  end.

(** One correspondence case of C17: a dumped value [v] (our serializer), the document [j]
    serde_json produced for it, and what [from_value] did on the null-dropped document.
    Result code: 0 agreement; 1 the dump is not well-typed in the environment; 2 [ser v]
    differs from the document; 3 [de] of the document differs from the dump; 4 [de] of the
    null-dropped document differs from what the implementation returned. *)
Inductive dropnull :=
| DN_none                          (* the document has no null member *)
| DN_same (j : json)               (* from_value gave the same value back *)
| DN_err (j : json)                (* from_value failed *)
| DN_other (j : json) (v : sval).  (* from_value gave another value *)

Definition chk_fuel (v : sval) : nat := (4 * sv_depth v + 64)%nat.

Definition case_code (E : env) (t : ty) (c : sval * json * dropnull) : N :=
  match c with
  | (v, j, dn) =>
    if negb (check_type (chk_fuel v) E t v) then 1
    else if negb (json_sim (ser v) j) then 2
    else if negb (opt_sval_eqb (de_top E t j) (Some v)) then 3
    else match dn with
         | DN_none => 0
         | DN_same jd => if opt_sval_eqb (de_top E t jd) (Some v) then 0 else 4
         | DN_err jd => if opt_sval_eqb (de_top E t jd) None then 0 else 4
         | DN_other jd v' => if opt_sval_eqb (de_top E t jd) (Some v') then 0 else 4
         end
  end.

Definition case_ok (E : env) (t : ty) (c : sval * json * dropnull) : bool := N.eqb (case_code E t c) 0.

(** Diagnostics for the check driver: names of the declarations that fail [decl_ok]. *)
Definition bad_decls (E : env) : list str :=
  map fst (filter (fun kd => negb (decl_ok E (snd kd))) E).
