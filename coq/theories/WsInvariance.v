(** WsInvariance.v — whitespace tokens are invisible to every program that uses only the
    whitespace-skipping part of the interface (serves C07).

    [Rws ts ts']: the two runs work over token vectors [ts], [ts'] whose NON-whitespace
    subsequences are equal up to locations; their cursors are related by "same number of
    non-whitespace tokens before the cursor", virtual EOFs past the end counted ([cnt]); parser
    state, option and depth are equal.
    [ws_invariance]: every pair of programs built alike from the interface without the *_no_skip
    primitives ([IfaceR]) gives, from related states, results related by the value relation
    (tokens equal up to location) and errors equal up to the position text;
    [ws_invariance_prog]: in particular every program of the closure language. *)
Require Import SqlV.Base SqlV.Machine SqlV.MachineRel SqlV.Provenance.
From Coq Require Import Arith.

Lemma nonws_app a b : nonws (a ++ b) = nonws a ++ nonws b.
Proof. apply filter_app. Qed.

Definition cnt (l : list twl) (i : nat) : nat := (length (nonws (firstn i l)) + (i - length l))%nat.

Lemma cnt_inside l i : (i <= length l)%nat -> cnt l i = length (nonws (firstn i l)).
Proof. intro H. unfold cnt. replace (i - length l)%nat with 0%nat by lia. lia. Qed.
Lemma cnt_outside l i : (length l <= i)%nat -> cnt l i = (length (nonws l) + (i - length l))%nat.
Proof. intro H. unfold cnt. rewrite firstn_all2 by exact H. reflexivity. Qed.

(** What remains after the cursor, in terms of [cnt]. *)
Lemma rem_cnt l i : nonws (skipn i l) = skipn (cnt l i) (nonws l).
Proof.
  destruct (Nat.le_gt_cases i (length l)) as [H|H].
  - rewrite cnt_inside by exact H.
    assert (E : nonws l = nonws (firstn i l) ++ nonws (skipn i l)) by (rewrite <- nonws_app, firstn_skipn; reflexivity).
    rewrite E at 1. clear. generalize (nonws (firstn i l)) as a. intro a. induction a; cbn; auto.
  - rewrite cnt_outside by lia. rewrite skipn_all2 by lia. rewrite skipn_all2; [reflexivity|lia].
Qed.

Lemma firstn_snoc {X} (l : list X) j t : nth_error l j = Some t -> firstn (S j) l = firstn j l ++ [t].
Proof.
  revert j. induction l as [|x l IH]; intros [|j] H; cbn in *; try discriminate.
  - injection H as ->. reflexivity.
  - rewrite (IH j H). reflexivity.
Qed.

(** [next_token] always advances [cnt] by one. *)
Lemma next_from_cnt : forall l pre,
  cnt (pre ++ l) (snd (next_from l (length pre))) = S (cnt (pre ++ l) (length pre)).
Proof.
  induction l as [|t l IH]; intro pre; cbn [next_from snd].
  - rewrite app_nil_r. rewrite !cnt_outside by lia. lia.
  - destruct (is_ws t) eqn:W.
    + specialize (IH (pre ++ [t])). rewrite <- app_assoc in IH. cbn [app] in IH.
      rewrite app_length in IH. cbn [length] in IH. rewrite Nat.add_1_r in IH. rewrite IH. f_equal.
      rewrite !cnt_inside by (rewrite app_length; cbn [length]; lia).
      replace (S (length pre)) with (length (pre ++ [t])) by (rewrite app_length; cbn; lia).
      replace (pre ++ t :: l) with ((pre ++ [t]) ++ l) by (rewrite <- app_assoc; reflexivity).
      rewrite firstn_app, Nat.sub_diag, firstn_all. cbn [firstn]. rewrite app_nil_r.
      rewrite <- app_assoc. cbn [app]. rewrite firstn_app, Nat.sub_diag, firstn_all. cbn [firstn]. rewrite app_nil_r.
      rewrite nonws_app. cbn [nonws filter]. rewrite W. cbn [negb]. rewrite app_nil_r. reflexivity.
    + cbn [snd]. rewrite !cnt_inside by (rewrite app_length; cbn [length]; lia).
      replace (S (length pre)) with (length (pre ++ [t])) by (rewrite app_length; cbn; lia).
      replace (pre ++ t :: l) with ((pre ++ [t]) ++ l) by (rewrite <- app_assoc; reflexivity).
      rewrite firstn_app, Nat.sub_diag, firstn_all. cbn [firstn]. rewrite app_nil_r.
      rewrite <- app_assoc. cbn [app]. rewrite firstn_app, Nat.sub_diag, firstn_all. cbn [firstn]. rewrite app_nil_r.
      rewrite nonws_app. cbn [nonws filter]. rewrite W. cbn [negb]. rewrite app_length. cbn [length]. lia.
Qed.
Lemma next_cnt l i : cnt l (snd (next_from (skipn i l) i)) = S (cnt l i).
Proof.
  destruct (Nat.le_gt_cases i (length l)) as [H|H].
  - pose proof (next_from_cnt (skipn i l) (firstn i l)) as E.
    rewrite firstn_skipn in E. rewrite firstn_length_le in E by exact H. exact E.
  - rewrite skipn_all2 by lia. cbn [next_from snd]. rewrite !cnt_outside by lia. lia.
Qed.

(** [prev_token]: panics exactly when no non-whitespace token (real or virtual) lies before the
    cursor; otherwise [cnt] goes down by one. *)
Lemma prev_cnt l : forall i,
  (cnt l i = 0%nat -> prev_idx l i = None) /\
  ((0 < cnt l i)%nat -> exists j, prev_idx l i = Some j /\ S (cnt l j) = cnt l i).
Proof.
  induction i as [|j IH]; cbn [prev_idx].
  - split; [reflexivity|]. unfold cnt. cbn. lia.
  - destruct (nth_error l j) as [t|] eqn:E.
    + assert (Hj : (j < length l)%nat) by (apply nth_error_Some; congruence).
      assert (Hc : cnt l (S j) = (cnt l j + (if is_ws t then 0 else 1))%nat).
      { rewrite !cnt_inside by lia. rewrite (firstn_snoc l j t E), nonws_app, app_length.
        cbn [nonws filter]. destruct (is_ws t); cbn; lia. }
      destruct (is_ws t).
      * rewrite Hc, Nat.add_0_r. exact IH.
      * split; [lia|]. intros _. exists j. split; [reflexivity|lia].
    + assert (Hj : (length l <= j)%nat) by (apply nth_error_None; exact E).
      split; [rewrite cnt_outside by lia; lia|]. intros _. exists j. split; [reflexivity|].
      rewrite !cnt_outside by lia. lia.
Qed.

Lemma Forall2_skipn {X} (R : X -> X -> Prop) n : forall l l', Forall2 R l l' -> Forall2 R (skipn n l) (skipn n l').
Proof. induction n; intros l l' H; [exact H|]. destruct H; cbn; [constructor|auto]. Qed.
Lemma Forall2_nth {X} (R : X -> X -> Prop) d d' : R d d' -> forall l l' n, Forall2 R l l' -> R (nth n l d) (nth n l' d').
Proof. intros Hd l l' n H. revert n. induction H; intros [|n]; cbn; auto. Qed.

(** The remaining non-whitespace tokens after [next_token] are the tail of those before. *)
Lemma next_from_lt : forall l i, (i < snd (next_from l i))%nat.
Proof. induction l as [|x l IH]; intro i; cbn [next_from snd]; [lia|]. destruct (is_ws x); [|cbn; lia]. specialize (IH (S i)). lia. Qed.
Lemma next_from_rest : forall l i, nonws (skipn (snd (next_from l i) - i) l) = tl (nonws l).
Proof.
  induction l as [|t l IH]; intro i; cbn [next_from].
  - cbn [snd]. replace (S i - i)%nat with 1%nat by lia. reflexivity.
  - destruct (is_ws t) eqn:W.
    + pose proof (next_from_lt l (S i)) as Hlt.
      replace (snd (next_from l (S i)) - i)%nat with (S (snd (next_from l (S i)) - S i)) by lia.
      cbn [skipn]. rewrite IH. cbn [nonws filter]. rewrite W. reflexivity.
    + cbn [snd]. replace (S i - i)%nat with 1%nat by lia. cbn [skipn nonws filter]. rewrite W. reflexivity.
Qed.
Lemma skipn_add {X} (l : list X) a b : skipn (a + b) l = skipn b (skipn a l).
Proof. revert l. induction a; intro l; cbn; [reflexivity|]. destruct l; [destruct b; reflexivity|apply IHa]. Qed.
Lemma remaining_next d s : remaining (snd (next_token d s)) = tl (remaining s).
Proof.
  unfold next_token, remaining. pose proof (next_from_lt (skipn (idx s) (toks s)) (idx s)) as Hlt.
  pose proof (next_from_rest (skipn (idx s) (toks s)) (idx s)) as Hr.
  destruct (next_from (skipn (idx s) (toks s)) (idx s)) as [t j]. cbn [snd toks idx set_idx] in *.
  replace j with (idx s + (j - idx s))%nat by lia. rewrite skipn_add. exact Hr.
Qed.

(** The loop bound of [skip_semis] does not matter once it exceeds what remains. *)
Lemma skip_semis_stable : forall n m d s,
  (length (remaining s) < n)%nat -> (length (remaining s) < m)%nat -> skip_semis n d s = skip_semis m d s.
Proof.
  induction n as [|n IH]; intros m d s Hn Hm; [lia|]. destruct m as [|m]; [lia|]. cbn [skip_semis].
  unfold bind, consume_token, bind.
  destruct (peek_provenance 0 d s) as (t & Ep & Et & _ & _). unfold peek_token. rewrite Ep.
  destruct (token_eqb (tok t) (TP PSemi)) eqn:E; [|reflexivity].
  assert (Hne : remaining s <> []).
  { intro R. rewrite R in Et. cbn in Et. subst t. cbn in E. discriminate. }
  pose proof (remaining_next d s) as Hr.
  destruct (next_token d s) as [o s1] eqn:En. cbn [snd] in Hr.
  assert (Ho : exists x, o = Ok x).
  { unfold next_token in En. destruct (next_from _ _). injection En as <- _. eauto. }
  destruct Ho as [x ->]. cbn.
  destruct (remaining s) as [|x0 r] eqn:R; [congruence|]. cbn [tl length] in *.
  apply IH; rewrite Hr; lia.
Qed.

Lemma nonws_length_le l : (length (nonws l) <= length l)%nat.
Proof. induction l as [|t l IH]; cbn [nonws filter length]; [lia|]. fold (nonws l). destruct (is_ws t); cbn [negb length]; lia. Qed.
Lemma remaining_length s : (length (remaining s) <= length (toks s))%nat.
Proof.
  unfold remaining. etransitivity; [apply nonws_length_le|]. rewrite skipn_length. lia.
Qed.

Section Ws.
  Variables ts ts' : list twl.
  Hypothesis Hts : Forall2 tok_sim (nonws ts) (nonws ts').

  Definition Rws (s s' : mstate) : Prop :=
    toks s = ts /\ toks s' = ts' /\ cnt ts (idx s) = cnt ts' (idx s') /\
    pst s = pst s' /\ tc s = tc s' /\ depth s = depth s'.
  Definition Ridx (i i' : nat) : Prop := cnt ts i = cnt ts' i'.
  Definition Rdeq (d d' : dial) : Prop := d = d'.

  Notation RelW := (Rel Rdeq Rws err_sim).

  Lemma ws_peek n : RelW tok_sim (peek_nth_token n) (peek_nth_token n).
  Proof.
    intros d d' s s' _ (Ht & Ht' & Hc & Hr). unfold peek_nth_token. cbn [fst snd].
    split; [|repeat split; tauto]. cbn. rewrite !peek_from_nonws, !rem_cnt, Ht, Ht', Hc.
    apply Forall2_nth; [reflexivity|]. apply Forall2_skipn. exact Hts.
  Qed.
  Lemma ws_next : RelW tok_sim next_token next_token.
  Proof.
    intros d d' s s' _ (Ht & Ht' & Hc & Hp & Htc & Hd). unfold next_token.
    pose proof (next_from_nonws (skipn (idx s) (toks s)) (idx s)) as E1.
    pose proof (next_from_nonws (skipn (idx s') (toks s')) (idx s')) as E2.
    pose proof (next_cnt (toks s) (idx s)) as C1. pose proof (next_cnt (toks s') (idx s')) as C2.
    destruct (next_from (skipn (idx s) (toks s)) (idx s)) as [t j].
    destruct (next_from (skipn (idx s') (toks s')) (idx s')) as [t' j']. cbn [fst snd] in *.
    split.
    - cbn. rewrite E1, E2, !rem_cnt, Ht, Ht', Hc. apply Forall2_nth; [reflexivity|]. apply Forall2_skipn. exact Hts.
    - rewrite Ht in C1. rewrite Ht' in C2. unfold Rws. cbn [toks idx pst tc depth set_idx].
      split; [exact Ht|]. split; [exact Ht'|]. split; [rewrite C1, C2, Hc; reflexivity|]. auto.
  Qed.
  Lemma ws_prev : RelW eq prev_token prev_token.
  Proof.
    intros d d' s s' _ (Ht & Ht' & Hc & Hp & Htc & Hd). unfold prev_token. rewrite Ht, Ht'.
    destruct (prev_cnt ts (idx s)) as [Z1 P1]. destruct (prev_cnt ts' (idx s')) as [Z2 P2].
    destruct (Nat.eq_0_gt_0_cases (cnt ts (idx s))) as [H0|H0].
    - rewrite (Z1 H0), (Z2 (eq_trans (eq_sym Hc) H0)). cbn [fst snd Ro]. split; [exact I|].
      unfold Rws. cbn [toks idx pst tc depth set_idx]. split; [exact Ht|]. split; [exact Ht'|].
      split; [unfold cnt; cbn [firstn nonws filter length]; lia|]. auto.
    - destruct (P1 H0) as (j & -> & Ej). assert (H0' : (0 < cnt ts' (idx s'))%nat) by lia.
      destruct (P2 H0') as (j' & -> & Ej'). cbn [fst snd Ro]. split; [reflexivity|].
      unfold Rws. cbn [toks idx pst tc depth set_idx]. split; [exact Ht|]. split; [exact Ht'|].
      split; [lia|]. auto.
  Qed.

  Notation anycmp := (fun _ : token => true).
  Lemma ws_facts : Facts Rdeq Rws err_sim tok_sim Ridx anycmp.
  Proof.
    constructor.
    - intros t t' H. left. exact H.
    - intros e t t' _ H. rewrite H. reflexivity.
    - reflexivity.
    - apply ws_peek.
    - apply ws_next.
    - apply ws_prev.
    - intros d d' s s' _ H. cbn. split; [|exact H]. destruct H as (_ & _ & Hc & _). exact Hc.
    - intros i i' Hi d d' s s' _ (Ht & Ht' & Hc & Hr). cbn. split; [reflexivity|]. repeat split; cbn; tauto.
    - intros s s' t t' (_ & _ & Hc & _) (Ht & Ht' & _ & Hr). repeat split; cbn; tauto.
    - intros s s' H; apply H.
    - intros s s' H; apply H.
    - intros s s' H; apply H.
    - intros s s' b (Ht & Ht' & Hc & Hp & Htc & Hd). repeat split; cbn; auto.
    - intros s s' p (Ht & Ht' & Hc & Hp & Htc & Hd). repeat split; cbn; auto.
    - intros s s' n (Ht & Ht' & Hc & Hp & Htc & Hd). repeat split; cbn; auto.
    - intros d d' ->; reflexivity.
    - intros d d' ->; reflexivity.
    - intros d d' ->; reflexivity.
    - intros d d' n ->; reflexivity.
    - apply err_sim_refl.
    - apply err_sim_limit.
    - intros. apply expected_sim. assumption.
  Qed.

  Lemma ws_skip_all : RelW eq skip_all_semis skip_all_semis.
  Proof.
    intros d d' s s' Hd Hs. unfold skip_all_semis.
    set (N := S (Nat.max (length (toks s)) (length (toks s')))).
    pose proof (remaining_length s). pose proof (remaining_length s').
    rewrite (skip_semis_stable (S (length (toks s))) N d s) by (unfold N; lia).
    rewrite (skip_semis_stable (S (length (toks s'))) N d' s') by (unfold N; lia).
    apply (rel_skip_semis Rdeq Rws err_sim tok_sim Ridx anycmp ws_facts N); assumption.
  Qed.

  (** The theorem: pairs of programs built alike from the skipping interface are related. *)
  Theorem ws_invariance A (RA : A -> A -> Prop) (p p' : M A) :
    IfaceR tok_sim A RA p p' -> RelW RA p p'.
  Proof. apply (ifaceR_sound Rdeq Rws err_sim tok_sim Ridx anycmp ws_facts ws_skip_all). Qed.

  (** ... in particular every program of the closure language that stays away from the
      non-skipping primitives, related to itself. *)
  Theorem ws_invariance_prog rr fuel p :
    skipping_only p = true -> RelW (val_rel tok_sim) (denote rr fuel p) (denote rr fuel p).
  Proof.
    intro H. apply (denote_rel Rdeq Rws err_sim tok_sim Ridx anycmp ws_facts ws_skip_all false); try discriminate.
    - exact H.
    - apply prog_cmp_ok_all.
  Qed.
End Ws.

(** * The statement for C07, from initial states *)
Definition same_nonws (ts ts' : list twl) : Prop := Forall2 tok_sim (nonws ts) (nonws ts').

Theorem ws_invariance_init ts ts' tcf limit rr fuel p d :
  same_nonws ts ts' -> skipping_only p = true ->
  Ro err_sim (val_rel tok_sim)
     (fst (denote rr fuel p d (init_state ts tcf limit)))
     (fst (denote rr fuel p d (init_state ts' tcf limit))).
Proof.
  intros Hs Hp.
  apply (ws_invariance_prog ts ts' Hs rr fuel p Hp d d (init_state ts tcf limit) (init_state ts' tcf limit) eq_refl).
  repeat split; reflexivity.
Qed.

(** Same for the generic (HOAS) family, e.g. the statement loop over any statement parser that
    is itself built from the skipping interface. *)
Theorem ws_invariance_statements ts ts' A (RA : A -> A -> Prop) (stmt stmt' : M A) tcf limit fuel d :
  same_nonws ts ts' -> IfaceR tok_sim A RA stmt stmt' ->
  Ro err_sim (Forall2 RA)
     (fst (parse_statements fuel stmt d (init_state ts tcf limit)))
     (fst (parse_statements fuel stmt' d (init_state ts' tcf limit))).
Proof.
  intros Hs Hi.
  apply (ws_invariance ts ts' Hs _ _ _ _ (R_parse_statements tok_sim (fun _ => true) A RA fuel stmt stmt' Hi)
           d d (init_state ts tcf limit) (init_state ts' tcf limit) eq_refl).
  repeat split; reflexivity.
Qed.

(** Non-vacuity: two layouts of `a , b` (no whitespace / spaces, newline and shifted
    positions) give token-for-token related results through a comma list followed by
    expect_token, and errors that differ only in the position text. *)
Definition wtok (t : token) (l c : N) : twl := {| tok := t; line := l; col := c |}.
Example ws_example :
  let a := TWord (s2l "a") None no_keyword in
  let b := TWord (s2l "b") None no_keyword in
  let v1 := [wtok a 1 1; wtok (TP PComma) 1 2; wtok b 1 3] in
  let v2 := [wtok (TWs 0) 1 1; wtok a 1 2; wtok (TWs 1) 1 3; wtok (TP PComma) 2 1; wtok (TWs 0) 2 2; wtok (TWs 2) 2 3; wtok b 2 4; wtok (TWs 0) 2 5] in
  let p := PSeq (PCommaSep PWord) (PExpectTok (TP PRParen)) in
  let d := mk_dial false false [] in
  same_nonws v1 v2 /\
  fst (denote false 10 p d (init_state v1 false 50)) = Err (Syntax (s2l "Expected: ), found: EOF")) /\
  fst (denote false 10 (PCommaSep PWord) d (init_state v1 false 50)) = Ok (VList [VTok (wtok a 1 1); VTok (wtok b 1 3)]) /\
  fst (denote false 10 (PCommaSep PWord) d (init_state v2 false 50)) = Ok (VList [VTok (wtok a 1 2); VTok (wtok b 2 4)]) /\
  fst (denote false 10 (PSeq PNext (PExpectKw (s2l "FROM"))) d (init_state v1 false 50))
    = Err (Syntax (s2l "Expected: FROM, found: , at Line: 1, Column: 2")) /\
  fst (denote false 10 (PSeq PNext (PExpectKw (s2l "FROM"))) d (init_state v2 false 50))
    = Err (Syntax (s2l "Expected: FROM, found: , at Line: 2, Column: 1")).
Proof.
  cbv zeta. split; [|vm_compute; repeat split; reflexivity].
  unfold same_nonws. vm_compute. repeat constructor.
Qed.
