(** C01 — the DDL core: an executable token-level model of CREATE TABLE with column definitions:
      printer  [dtoks]  = the tokens [impl Display for CreateTable] (src/ast/dml.rs), [ColumnDef],
                          [ColumnOptionDef], [ColumnOption], [TableConstraint] (src/ast/ddl.rs) print for the
                          fragment (OR REPLACE / TEMPORARY / IF NOT EXISTS, dotted name, columns before
                          constraints, [CONSTRAINT n] prefixes, [REFERENCES t (c, ..)]);
      parser   [parse_create_table_core] = [Parser::parse_create] -> [parse_create_table] -> [parse_columns] ->
                          [parse_optional_table_constraint] (tried first) / [parse_column_def] ->
                          [parse_data_type] , [parse_optional_column_option] (in the order of the code),
                          [parse_object_name], [parse_parenthesized_column_list] / [parse_comma_separated],
                          [parse_constraint_characteristics] (src/parser/mod.rs).
    Data types are the C18 model (DataTypeRT.v: [print_dt] / [parse_helper] over its token alphabet and the
    tables regenerated from the source); expressions in DEFAULT / CHECK are the operator core of Pratt.v,
    parsed by [Pratt.parse_expr].  A token carries both views: [tv] for the statement / type level (words
    keep their spelling, numbers their value) and [ev] for the expression parser ([None]: a word outside the
    expression alphabet, which ends an expression).  Everything outside the fragment makes the model
    return [OutOfFragment] (never a guess).  Model only; the theorems are in DdlCoreProofs.v. *)
From SqlV Require Import Base PrecSpec Pratt PrinterCore.
Require SqlV.DataTypeRT.
Module DT := SqlV.DataTypeRT.

(** * Tokens *)
Record dtok := DTok { tv : DT.tok; ev : option tok }.

Definition D_NUM_BASE := 5000.      (* atoms [TAtom false n] with [n >= 5000] are the numerals [n - 5000] *)
Definition K_Gt := 47.  Definition K_Lt := 49.  Definition K_Shr := 62.  Definition K_Semi := 102.

Definition kwd_text (k : kwd) : str :=
  s2l (match k with
       | KNot => "NOT" | KIs => "IS" | KNull => "NULL" | KTrue => "TRUE" | KFalse => "FALSE" | KUnknown => "UNKNOWN"
       | KDistinct => "DISTINCT" | KFrom => "FROM" | KIn => "IN" | KBetween => "BETWEEN" | KLike => "LIKE"
       | KILike => "ILIKE" | KSimilar => "SIMILAR" | KTo => "TO" | KRLike => "RLIKE" | KRegexp => "REGEXP"
       | KEscape => "ESCAPE" | KAt => "AT" | KTime => "TIME" | KZone => "ZONE" | KAny => "ANY" | KAll => "ALL"
       | KSome => "SOME" | KUnnest => "UNNEST" | KDiv => "DIV" | KOperator => "OPERATOR"
       end).

(** the statement / type level view of a token of the expression alphabet *)
Definition tv_of (t : tok) : DT.tok :=
  match t with
  | TAtom false n => if n <? D_NUM_BASE then DT.TWord (ident_text n) else DT.TNum (n - D_NUM_BASE)
  | TAtom true n => DT.TStr (str_payload n)
  | TType n => DT.TWord (type_text n)
  | TOp k => if k =? K_Gt then DT.TGt else if k =? K_Lt then DT.TLt else if k =? K_Shr then DT.TShr
             else if k =? K_AND then DT.W "AND" else if k =? K_OR then DT.W "OR" else if k =? K_XOR then DT.W "XOR"
             else DT.TOther k
  | TPre k => DT.TOther k
  | TKw k => DT.TWord (kwd_text k)
  | TLParen => DT.TLParen | TRParen => DT.TRParen | TComma => DT.TComma
  | TLBracket => DT.TLBracket | TRBracket => DT.TRBracket | TColon => DT.TColon
  | TDoubleColon => DT.TOther K_DCOLON | TExcl => DT.TOther K_EXCL
  | TOther => DT.TOther 0
  end.

(** the expression parser's view of a statement-level token; canonical spellings only *)
Definition word_view (w : str) : option tok :=
  match assoc_str w kw_view with
  | Some t => Some t
  | None =>
      match w with
      | 120 :: (_ :: _) as ds =>
          match undec 0 ds with
          | Some n => if (n <? D_NUM_BASE) && str_eqb (ident_text n) w then Some (TAtom false n) else None
          | None => None
          end
      | _ => None
      end
  end.

Definition str_view (s : str) : tok :=
  match s with
  | 115 :: (_ :: _) as ds =>
      match undec 0 ds with
      | Some n => if (n <? 100000) && str_eqb (str_payload n) s then TAtom true n else TOther
      | None => TOther
      end
  | 120 :: (_ :: _) as ds =>
      match undec 0 ds with
      | Some n => if str_eqb (ident_text n) s then TAtom true (100000 + n) else TOther
      | None => TOther
      end
  | _ => TOther
  end.

Definition ev_of (x : DT.tok) : option tok :=
  match x with
  | DT.TWord w => word_view w
  | DT.TQWord _ _ => Some TOther
  | DT.TNum n => Some (TAtom false (D_NUM_BASE + n))
  | DT.TStr s => Some (str_view s)
  | DT.TLParen => Some TLParen | DT.TRParen => Some TRParen | DT.TComma => Some TComma
  | DT.TLt => Some (TOp K_Lt) | DT.TGt => Some (TOp K_Gt) | DT.TShr => Some (TOp K_Shr)
  | DT.TLBracket => Some TLBracket | DT.TRBracket => Some TRBracket
  | DT.TPeriod => Some TOther | DT.TColon => Some TColon
  | DT.TOther k =>
      if k =? K_Semi then None
      else if (43 <=? k) && (k <=? 86) then Some (TOp k)
      else if (87 <=? k) && (k <=? 90) then Some (TPre k)
      else if k =? K_DCOLON then Some TDoubleColon
      else if k =? K_EXCL then Some TExcl
      else Some TOther
  end.

(** a token given by its statement-level form / by its expression-level form *)
Definition TT (x : DT.tok) : dtok := DTok x (ev_of x).
Definition EE (t : tok) : dtok := DTok (tv_of t) (Some t).
Definition TW (s : string) : dtok := TT (DT.TWord (s2l s)).

Definition otok_eqb (a b : option tok) : bool :=
  match a, b with Some x, Some y => tok_eqb x y | None, None => true | _, _ => false end.
Definition dtok_eqb (a b : dtok) : bool := DT.tok_eqb (tv a) (tv b) && otok_eqb (ev a) (ev b).
Fixpoint dtoks_eqb (a b : list dtok) : bool :=
  match a, b with
  | [], [] => true
  | x :: a', y :: b' => dtok_eqb x y && dtoks_eqb a' b'
  | _, _ => false
  end.

(** * Keywords the statement level tests for *)
Inductive dkw :=
  WCreate | WOr | WReplace | WAlter | WLocal | WGlobal | WTransient | WTemp | WTemporary | WPersistent | WTable
| WIf | WNot | WExists | WOn | WCluster | WLike | WILike | WClone
| WConstraint | WUnique | WPrimary | WKey | WForeign | WCheck | WIndex | WFulltext | WSpatial | WUsing | WReferences
| WNull | WDefault | WCollate | WCharacter | WSet | WComment | WMaterialized | WAlias | WEphemeral
| WAutoIncrement | WAutoincrement | WAsc | WDesc | WUpdate | WDelete | WConflict | WGenerated | WOptions | WAs
| WIdentity | WDeferrable | WInitially | WEnforced
| WWithout | WPartitioned | WClustered | WRow | WStored | WLocation | WWith | WTblproperties | WEngine | WOrder
| WPartition | WStrict.

Scheme Equality for dkw.

Definition dkw_text (k : dkw) : str :=
  s2l (match k with
       | WCreate => "CREATE" | WOr => "OR" | WReplace => "REPLACE" | WAlter => "ALTER" | WLocal => "LOCAL"
       | WGlobal => "GLOBAL" | WTransient => "TRANSIENT" | WTemp => "TEMP" | WTemporary => "TEMPORARY"
       | WPersistent => "PERSISTENT" | WTable => "TABLE" | WIf => "IF" | WNot => "NOT" | WExists => "EXISTS"
       | WOn => "ON" | WCluster => "CLUSTER" | WLike => "LIKE" | WILike => "ILIKE" | WClone => "CLONE"
       | WConstraint => "CONSTRAINT" | WUnique => "UNIQUE" | WPrimary => "PRIMARY" | WKey => "KEY"
       | WForeign => "FOREIGN" | WCheck => "CHECK" | WIndex => "INDEX" | WFulltext => "FULLTEXT"
       | WSpatial => "SPATIAL" | WUsing => "USING" | WReferences => "REFERENCES" | WNull => "NULL"
       | WDefault => "DEFAULT" | WCollate => "COLLATE" | WCharacter => "CHARACTER" | WSet => "SET"
       | WComment => "COMMENT" | WMaterialized => "MATERIALIZED" | WAlias => "ALIAS" | WEphemeral => "EPHEMERAL"
       | WAutoIncrement => "AUTO_INCREMENT" | WAutoincrement => "AUTOINCREMENT" | WAsc => "ASC" | WDesc => "DESC"
       | WUpdate => "UPDATE" | WDelete => "DELETE" | WConflict => "CONFLICT" | WGenerated => "GENERATED"
       | WOptions => "OPTIONS" | WAs => "AS" | WIdentity => "IDENTITY" | WDeferrable => "DEFERRABLE"
       | WInitially => "INITIALLY" | WEnforced => "ENFORCED" | WWithout => "WITHOUT"
       | WPartitioned => "PARTITIONED" | WClustered => "CLUSTERED" | WRow => "ROW" | WStored => "STORED"
       | WLocation => "LOCATION" | WWith => "WITH" | WTblproperties => "TBLPROPERTIES" | WEngine => "ENGINE"
       | WOrder => "ORDER" | WPartition => "PARTITION" | WStrict => "STRICT"
       end).

Definition all_dkw : list dkw :=
  [ WCreate; WOr; WReplace; WAlter; WLocal; WGlobal; WTransient; WTemp; WTemporary; WPersistent; WTable;
    WIf; WNot; WExists; WOn; WCluster; WLike; WILike; WClone;
    WConstraint; WUnique; WPrimary; WKey; WForeign; WCheck; WIndex; WFulltext; WSpatial; WUsing; WReferences;
    WNull; WDefault; WCollate; WCharacter; WSet; WComment; WMaterialized; WAlias; WEphemeral;
    WAutoIncrement; WAutoincrement; WAsc; WDesc; WUpdate; WDelete; WConflict; WGenerated; WOptions; WAs;
    WIdentity; WDeferrable; WInitially; WEnforced;
    WWithout; WPartitioned; WClustered; WRow; WStored; WLocation; WWith; WTblproperties; WEngine; WOrder;
    WPartition; WStrict ].

Fixpoint find_dkw (l : list dkw) (u : str) : option dkw :=
  match l with
  | [] => None
  | k :: r => if str_eqb (dkw_text k) u then Some k else find_dkw r u
  end.

(** [Word::keyword] of an unquoted word (restricted to the keywords above) *)
Definition kwc (t : dtok) : option dkw :=
  match tv t with DT.TWord w => find_dkw all_dkw (ascii_upper w) | _ => None end.
Definition hkw (ts : list dtok) : option dkw := match ts with t :: _ => kwc t | [] => None end.
Definition is_k (k : dkw) (t : dtok) : bool :=
  match kwc t with Some k' => dkw_beq k k' | None => false end.
Definition is_kh (k : dkw) (ts : list dtok) : bool := match ts with t :: _ => is_k k t | [] => false end.

Definition kt (k : dkw) : dtok := TT (DT.TWord (dkw_text k)).
Definition P_LParen : dtok := TT DT.TLParen.
Definition P_RParen : dtok := TT DT.TRParen.
Definition P_Comma : dtok := TT DT.TComma.
Definition P_Period : dtok := TT DT.TPeriod.
Definition P_Semi : dtok := TT (DT.TOther K_Semi).

Definition is_lparen (t : dtok) : bool := match tv t with DT.TLParen => true | _ => false end.
Definition is_rparen (t : dtok) : bool := match tv t with DT.TRParen => true | _ => false end.
Definition is_comma (t : dtok) : bool := match tv t with DT.TComma => true | _ => false end.
Definition is_period (t : dtok) : bool := match tv t with DT.TPeriod => true | _ => false end.
Definition is_rbracket (t : dtok) : bool := match tv t with DT.TRBracket => true | _ => false end.
Definition is_semi (t : dtok) : bool := match tv t with DT.TOther k => k =? K_Semi | _ => false end.
Definition is_rbrace (t : dtok) : bool := match tv t with DT.TOther k => k =? 201 | _ => false end.
Definition is_minus (t : dtok) : bool := match tv t with DT.TOther k => k =? K_Minus | _ => false end.
Definition is_wordtok (t : dtok) : bool := match tv t with DT.TWord _ => true | _ => false end.
(** tokens outside both alphabets: quoted identifiers, other string kinds, placeholders .. *)
Definition is_foreign (t : dtok) : bool :=
  match tv t with DT.TOther k => k =? 0 | DT.TQWord _ _ => true | _ => false end.

(** * Trees *)
Definition word := dtok.     (* an identifier is the word token it was made from *)

Inductive copt :=
| ONotNull | ONull | ODefault (e : expr) | OPrimaryKey | OUnique | OCheck (e : expr)
| OReferences (t : list word) (cols : list word).
Record coptdef := { oname : option word; oopt : copt }.
Record column_def := { cname : word; ctype : DT.dt; coptions : list coptdef }.
Inductive tcbody :=
| TPrimaryKey (cols : list word) | TUnique (cols : list word) | TCheck (e : expr)
| TForeignKey (cols : list word) (t : list word) (rcols : list word).
Record tconstraint := { tname : option word; tbody : tcbody }.
Record create_table := {
  or_replace : bool; temporary : bool; if_not_exists : bool; tbl_name : list word;
  columns : list column_def; constraints : list tconstraint }.

(** * The dialect *)
Record ddialect := {
  dbase : dialect;          (* the expression model's dialect *)
  dname : str;              (* dialect name, as in the gates of the data type tables / [dialect_of!] *)
  dtab : DT.tables;         (* the data type tables (coq/gen/DataTypeTables.v) *)
  dtrailing : bool;         (* [options.trailing_commas] = [supports_trailing_commas] *)
  dasc_desc : bool;         (* [supports_asc_desc_in_column_definition] *)
  dres_col : list str       (* keywords::RESERVED_FOR_COLUMN_ALIAS, by name *)
}.

Definition gate (d : ddialect) (names : list string) : bool :=
  existsb (fun n => str_eqb (dname d) (s2l n)) names.

(** * Printer (token level) *)
Fixpoint dsepc (ls : list (list dtok)) : list dtok :=
  match ls with
  | [] => []
  | [x] => x
  | x :: r => x ++ P_Comma :: dsepc r
  end.

Fixpoint name_toks (l : list word) : list dtok :=
  match l with
  | [] => []
  | [w] => [w]
  | w :: r => w :: P_Period :: name_toks r
  end.

Definition cols_toks (l : list word) : list dtok := P_LParen :: dsepc (map (fun w => [w]) l) ++ [P_RParen].
Definition ee (ts : list tok) : list dtok := map EE ts.
Definition cname_toks (n : option word) : list dtok :=
  match n with Some w => [kt WConstraint; w] | None => [] end.

Definition opt_toks (o : copt) : list dtok :=
  match o with
  | ONotNull => [kt WNot; kt WNull]
  | ONull => [kt WNull]
  | ODefault e => kt WDefault :: ee (ptoks e)
  | OPrimaryKey => [kt WPrimary; kt WKey]
  | OUnique => [kt WUnique]
  | OCheck e => kt WCheck :: P_LParen :: ee (ptoks e) ++ [P_RParen]
  | OReferences n cols => kt WReferences :: name_toks n ++ match cols with [] => [] | _ => cols_toks cols end
  end.
Definition optdef_toks (o : coptdef) : list dtok := cname_toks (oname o) ++ opt_toks (oopt o).
Definition opts_toks (l : list coptdef) : list dtok := flat_map optdef_toks l.

Definition type_toks (T : DT.tables) (t : DT.dt) : list dtok := map TT (DT.glue (DT.print_dt T t)).
Definition col_toks (T : DT.tables) (c : column_def) : list dtok :=
  cname c :: type_toks T (ctype c) ++ opts_toks (coptions c).

Definition tcbody_toks (b : tcbody) : list dtok :=
  match b with
  | TPrimaryKey cols => kt WPrimary :: kt WKey :: cols_toks cols
  | TUnique cols => kt WUnique :: cols_toks cols
  | TCheck e => kt WCheck :: P_LParen :: ee (ptoks e) ++ [P_RParen]
  | TForeignKey cols n rcols =>
      kt WForeign :: kt WKey :: cols_toks cols ++ kt WReferences :: name_toks n ++ cols_toks rcols
  end.
Definition tcons_toks (c : tconstraint) : list dtok := cname_toks (tname c) ++ tcbody_toks (tbody c).

Definition elems_toks (T : DT.tables) (cols : list column_def) (cons : list tconstraint) : list dtok :=
  dsepc (map (col_toks T) cols ++ map tcons_toks cons).

Definition head_toks (c : create_table) : list dtok :=
  kt WCreate :: (if or_replace c then [kt WOr; kt WReplace] else []) ++
  (if temporary c then [kt WTemporary] else []) ++ kt WTable ::
  (if if_not_exists c then [kt WIf; kt WNot; kt WExists] else []) ++ name_toks (tbl_name c).

Definition dtoks (T : DT.tables) (c : create_table) : list dtok :=
  head_toks c ++ P_LParen :: elems_toks T (columns c) (constraints c) ++ [P_RParen].

(** * Expressions: what [Parser::parse_expr] sees of the token stream.  Its view ends with the first token
    that cannot be part of an expression here: a word outside the expression alphabet (shown as a word
    without binding power, [TType 0]) or a comma / closing bracket that is not inside brackets opened
    by the expression itself.  If the expression parser consumes that token the input is outside the
    fragment. *)
Fixpoint cutd (k : nat) (l : list dtok) : list tok :=
  match l with
  | [] => []
  | t :: r =>
      match ev t with
      | None => [TType 0]
      | Some x =>
          match x with
          | TLParen | TLBracket => x :: cutd (S k) r
          | TRParen | TRBracket => match k with O => [x] | S k' => x :: cutd k' r end
          | TComma => match k with O => [x] | S _ => x :: cutd k r end
          | _ => x :: cutd k r
          end
      end
  end.
Fixpoint termd (k : nat) (l : list dtok) : bool :=
  match l with
  | [] => false
  | t :: r =>
      match ev t with
      | None => true
      | Some x =>
          match x with
          | TLParen | TLBracket => termd (S k) r
          | TRParen | TRBracket => match k with O => true | S k' => termd k' r end
          | TComma => match k with O => true | S _ => termd k r end
          | _ => termd k r
          end
      end
  end.

Definition dexpr (d : dialect) (l : list dtok) : res (expr * list dtok) :=
  let ts := cutd 0 l in
  bind (parse_expr d ts) (fun '(e, r) =>
    if termd 0 l && Nat.eqb (length r) 0 then OutOfFragment
    else Ok (e, skipn (length ts - length r) l)).

(** * Data types: [Parser::parse_data_type] on the statement-level view *)
Definition dtype (d : ddialect) (l : list dtok) : res (DT.dt * list dtok) :=
  let v := map tv l in
  match DT.parse_dt (dtab d) (dname d) v with
  | DT.POk t _ r => Ok (t, skipn (length v - length r) l)
  | DT.PErr => Err
  end.

(** * Identifiers, names, column lists *)
(** [parse_identifier] *)
Definition pident (ts : list dtok) : res (word * list dtok) :=
  match ts with
  | t :: r =>
      match tv t with
      | DT.TWord _ => Ok (t, r)
      | DT.TQWord _ _ | DT.TStr _ => OutOfFragment          (* quoted identifier / string as identifier *)
      | _ => if is_foreign t then OutOfFragment else Err
      end
  | [] => Err
  end.

(** [parse_object_name(hy)]; [hy]: BigQuery table clause, where an unquoted hyphen continues the name *)
Fixpoint pobjname (hy : bool) (g : nat) (ts : list dtok) : res (list word * list dtok) :=
  match g with
  | O => OutOfFuel
  | S g' =>
      bind (pident ts) (fun '(w, r) =>
        match r with
        | p :: r' =>
            if hy && is_minus p then OutOfFragment
            else if is_period p then bind (pobjname hy g' r') (fun '(l, r'') => Ok (w :: l, r''))
            else Ok ([w], r)
        | [] => Ok ([w], r)
        end)
  end.

Definition reserved (d : ddialect) (t : dtok) : bool :=
  match tv t with DT.TWord w => DT.mem_str (ascii_upper w) (dres_col d) | _ => false end.

(** [is_parse_comma_separated_end], after the comma *)
Definition dcomma_end (d : ddialect) (ts : list dtok) : bool :=
  match ts with
  | [] => true
  | t :: _ => is_rparen t || is_semi t || is_rbracket t || is_rbrace t || reserved d t
  end.

(** [parse_comma_separated(parse_identifier)] *)
Fixpoint pcols (d : ddialect) (g : nat) (ts : list dtok) : res (list word * list dtok) :=
  match g with
  | O => OutOfFuel
  | S g' =>
      bind (pident ts) (fun '(w, r) =>
        match r with
        | c :: r' =>
            if is_comma c then
              if dtrailing d && dcomma_end d r' then Ok ([w], r')
              else bind (pcols d g' r') (fun '(l, r'') => Ok (w :: l, r''))
            else Ok ([w], r)
        | [] => Ok ([w], r)
        end)
  end.

Definition expect_rp {A} (r : list dtok) (k : list dtok -> res A) : res A :=
  match r with c :: r' => if is_rparen c then k r' else Err | [] => Err end.

(** [parse_parenthesized_column_list(optional, false)] *)
Definition lparen_h (ts : list dtok) : bool := match ts with t :: _ => is_lparen t | [] => false end.
Definition rparen_h (ts : list dtok) : bool := match ts with t :: _ => is_rparen t | [] => false end.

Definition pcollist (d : ddialect) (optional : bool) (g : nat) (ts : list dtok) : res (list word * list dtok) :=
  if lparen_h ts then
    bind (pcols d g (tl ts)) (fun '(l, r1) => expect_rp r1 (fun r2 => Ok (l, r2)))
  else if optional then Ok ([], ts) else Err.

(** [parse_constraint_characteristics] would take something *)
Definition cchar_ahead (ts : list dtok) : bool :=
  match ts with
  | t :: r =>
      match kwc t with
      | Some WDeferrable | Some WInitially | Some WEnforced => true
      | Some WNot => match hkw r with Some WDeferrable | Some WEnforced => true | _ => false end
      | _ => false
      end
  | [] => false
  end.

(** [ON DELETE] / [ON UPDATE] after REFERENCES *)
Definition refact_ahead (ts : list dtok) : bool :=
  match ts with
  | t :: r => is_k WOn t && match hkw r with Some WDelete | Some WUpdate => true | _ => false end
  | [] => false
  end.

(** * Column options: [parse_optional_column_option], in the order of the code *)
Definition popt (d : ddialect) (g : nat) (ts : list dtok) : res (option copt * list dtok) :=
  match ts with
  | [] => Ok (None, ts)
  | t :: r =>
      match kwc t with
      | Some WCharacter => if is_kh WSet r then OutOfFragment else Ok (None, ts)
      | Some WNot => if is_kh WNull r then Ok (Some ONotNull, tl r) else Ok (None, ts)
      | Some WComment => OutOfFragment
      | Some WNull => Ok (Some ONull, r)
      | Some WDefault => bind (dexpr (dbase d) r) (fun '(e, r') => Ok (Some (ODefault e), r'))
      | Some WMaterialized | Some WAlias | Some WEphemeral =>
          if gate d ["clickhouse"; "generic"]%string then OutOfFragment else Ok (None, ts)
      | Some WPrimary =>
          if is_kh WKey r then
            (if cchar_ahead (tl r) then OutOfFragment else Ok (Some OPrimaryKey, tl r))
          else Ok (None, ts)
      | Some WUnique => if cchar_ahead r then OutOfFragment else Ok (Some OUnique, r)
      | Some WReferences =>
          bind (pobjname false g r) (fun '(nm, r1) =>
          bind (pcollist d true g r1) (fun '(cols, r2) =>
            if refact_ahead r2 || cchar_ahead r2 then OutOfFragment
            else Ok (Some (OReferences nm cols), r2)))
      | Some WCheck =>
          if lparen_h r then
            bind (dexpr (dbase d) (tl r)) (fun '(e, r1) => expect_rp r1 (fun r2 => Ok (Some (OCheck e), r2)))
          else Err
      | Some WAutoIncrement => if gate d ["mysql"; "generic"]%string then OutOfFragment else Ok (None, ts)
      | Some WAutoincrement => if gate d ["sqlite"; "generic"]%string then OutOfFragment else Ok (None, ts)
      | Some WAsc | Some WDesc => if dasc_desc d then OutOfFragment else Ok (None, ts)
      | Some WOn =>
          match hkw r with
          | Some WUpdate => if gate d ["mysql"; "generic"]%string then OutOfFragment else Ok (None, ts)
          | Some WConflict => if gate d ["sqlite"; "generic"]%string then OutOfFragment else Ok (None, ts)
          | _ => Ok (None, ts)
          end
      | Some WGenerated => OutOfFragment
      | Some WOptions => if gate d ["bigquery"; "generic"]%string then OutOfFragment else Ok (None, ts)
      | Some WAs => if gate d ["mysql"; "sqlite"; "duckdb"; "generic"]%string then OutOfFragment else Ok (None, ts)
      | Some WIdentity => if gate d ["mssql"; "generic"]%string then OutOfFragment else Ok (None, ts)
      | _ => Ok (None, ts)
      end
  end.

(** the option loop of [parse_column_def] *)
Fixpoint popts (d : ddialect) (g : nat) (ts : list dtok) : res (list coptdef * list dtok) :=
  match g with
  | O => OutOfFuel
  | S g' =>
      if is_kh WConstraint ts then
        bind (pident (tl ts)) (fun '(n, r1) =>
        bind (popt d g' r1) (fun '(o, r2) =>
          match o with
          | Some o => bind (popts d g' r2) (fun '(l, r3) => Ok ({| oname := Some n; oopt := o |} :: l, r3))
          | None => Err
          end))
      else
        bind (popt d g' ts) (fun '(o, r2) =>
          match o with
          | Some o => bind (popts d g' r2) (fun '(l, r3) => Ok ({| oname := None; oopt := o |} :: l, r3))
          | None =>
              if is_kh WCollate ts && gate d ["mysql"; "generic"]%string then OutOfFragment else Ok ([], ts)
          end)
  end.

(** [is_column_type_sqlite_unspecified] *)
Definition sqlite_unspec (d : ddialect) (ts : list dtok) : bool :=
  gate d ["sqlite"]%string &&
  match ts with
  | t :: _ =>
      match tv t with
      | DT.TWord _ =>
          match kwc t with
          | Some WConstraint | Some WPrimary | Some WNot | Some WUnique | Some WCheck | Some WDefault
          | Some WCollate | Some WReferences | Some WGenerated | Some WAs => true
          | _ => false
          end
      | DT.TQWord _ _ => false
      | _ => true
      end
  | [] => true
  end.

(** [parse_column_def] *)
Definition pcoldef (d : ddialect) (g : nat) (ts : list dtok) : res (column_def * list dtok) :=
  bind (pident ts) (fun '(n, r) =>
  bind (if sqlite_unspec d r then Ok (DT.DUnspecified, r) else dtype d r) (fun '(ty, r1) =>
    if is_kh WCollate r1 then OutOfFragment
    else bind (popts d g r1) (fun '(os, r2) => Ok ({| cname := n; ctype := ty; coptions := os |}, r2)))).

(** * Table constraints: [parse_optional_table_constraint] *)
(** [parse_optional_indent] would take an index name *)
Definition ident_ahead (ts : list dtok) : bool :=
  match ts with
  | t :: _ => match tv t with DT.TWord _ | DT.TQWord _ _ | DT.TStr _ => true | _ => is_foreign t end
  | [] => false
  end.
(** [parse_index_options] would take something *)
Definition idxopt_ahead (ts : list dtok) : bool :=
  match hkw ts with Some WUsing | Some WComment => true | _ => false end.

Definition ptcbody (d : ddialect) (g : nat) (named : bool) (ts : list dtok) : res (option tcbody * list dtok) :=
  let fallback := if named then Err else Ok (None, ts) in
  match ts with
  | [] => fallback
  | t :: r =>
      match kwc t with
      | Some WUnique =>
          match hkw r with
          | Some WKey | Some WIndex => if gate d ["generic"; "mysql"]%string then OutOfFragment else Err
          | _ =>
              if ident_ahead r then OutOfFragment
              else bind (pcollist d false g r) (fun '(cols, r1) =>
                     if idxopt_ahead r1 || cchar_ahead r1 then OutOfFragment else Ok (Some (TUnique cols), r1))
          end
      | Some WPrimary =>
          if is_kh WKey r then
            (if ident_ahead (tl r) then OutOfFragment
             else bind (pcollist d false g (tl r)) (fun '(cols, r1) =>
                    if idxopt_ahead r1 || cchar_ahead r1 then OutOfFragment else Ok (Some (TPrimaryKey cols), r1)))
          else Err
      | Some WForeign =>
          if is_kh WKey r then
            bind (pcollist d false g (tl r)) (fun '(cols, r1) =>
              if is_kh WReferences r1 then
                bind (pobjname false g (tl r1)) (fun '(nm, r2) =>
                bind (pcollist d false g r2) (fun '(rcols, r3) =>
                  if refact_ahead r3 || cchar_ahead r3 then OutOfFragment
                  else Ok (Some (TForeignKey cols nm rcols), r3)))
              else Err)
          else Err
      | Some WCheck =>
          if lparen_h r then
            bind (dexpr (dbase d) (tl r)) (fun '(e, r1) => expect_rp r1 (fun r2 => Ok (Some (TCheck e), r2)))
          else Err
      | Some WIndex | Some WKey =>
          if gate d ["generic"; "mysql"]%string && negb named then OutOfFragment else fallback
      | Some WFulltext | Some WSpatial =>
          if gate d ["generic"; "mysql"]%string then (if named then Err else OutOfFragment) else fallback
      | _ => fallback
      end
  end.

Definition ptcons (d : ddialect) (g : nat) (ts : list dtok) : res (option tconstraint * list dtok) :=
  if is_kh WConstraint ts then
    bind (pident (tl ts)) (fun '(n, r) =>
      bind (ptcbody d g true r) (fun '(b, r1) =>
        match b with Some b => Ok (Some {| tname := Some n; tbody := b |}, r1) | None => Err end))
  else
    bind (ptcbody d g false ts) (fun '(b, r1) =>
      match b with Some b => Ok (Some {| tname := None; tbody := b |}, r1) | None => Ok (None, r1) end).

(** * [parse_columns] *)
Definition add_elem (el : column_def + tconstraint) (cc : list column_def * list tconstraint) :=
  match el with inl c => (c :: fst cc, snd cc) | inr t => (fst cc, t :: snd cc) end.

(** one element of the list: a table constraint is tried first, then a column definition *)
Definition pelem (d : ddialect) (g : nat) (ts : list dtok) : res ((column_def + tconstraint) * list dtok) :=
  bind (ptcons d g ts) (fun '(oc, r) =>
    match oc with
    | Some c => Ok (inr c, r)
    | None =>
        match ts with
        | t :: _ =>
            match tv t with
            | DT.TWord _ | DT.TQWord _ _ => bind (pcoldef d g ts) (fun '(c, r') => Ok (inl c, r'))
            | _ => if is_foreign t then OutOfFragment else Err
            end
        | [] => Err
        end
    end).

Fixpoint pelems (d : ddialect) (g : nat) (ts : list dtok)
  : res ((list column_def * list tconstraint) * list dtok) :=
  match g with
  | O => OutOfFuel
  | S g' =>
      bind (pelem d g' ts) (fun '(el, r1) =>
        let comma := match r1 with c :: _ => is_comma c | [] => false end in
        let r2 := if comma then tl r1 else r1 in
        let rparen := rparen_h r2 in
        if negb comma && negb rparen then Err
        else if rparen && (negb comma || dtrailing d) then Ok (add_elem el ([], []), tl r2)
        else bind (pelems d g' r2) (fun '(cc, r3) => Ok (add_elem el cc, r3)))
  end.

Definition pcolumns (d : ddialect) (g : nat) (ts : list dtok)
  : res ((list column_def * list tconstraint) * list dtok) :=
  if lparen_h ts then
    (if rparen_h (tl ts) then Ok (([], []), tl (tl ts)) else pelems d g (tl ts))
  else Ok (([], []), ts).

(** * [parse_create] / [parse_create_table] *)
Definition opt1 (k : dkw) (ts : list dtok) : bool * list dtok :=
  if is_kh k ts then (true, tl ts) else (false, ts).
Definition opt2 (k1 k2 : dkw) (ts : list dtok) : bool * list dtok :=
  if is_kh k1 ts && is_kh k2 (tl ts) then (true, tl (tl ts)) else (false, ts).
Definition opt3 (k1 k2 k3 : dkw) (ts : list dtok) : bool * list dtok :=
  if is_kh k1 ts && is_kh k2 (tl ts) && is_kh k3 (tl (tl ts)) then (true, tl (tl (tl ts))) else (false, ts).

(** a clause of CREATE TABLE after the column list (all outside the fragment) *)
Definition clause_ahead (ts : list dtok) : bool :=
  match hkw ts with
  | Some WComment | Some WWithout | Some WPartitioned | Some WClustered | Some WRow | Some WStored
  | Some WLocation | Some WWith | Some WTblproperties | Some WEngine | Some WAutoIncrement | Some WPrimary
  | Some WOrder | Some WPartition | Some WCluster | Some WOptions | Some WDefault | Some WCollate | Some WOn
  | Some WStrict | Some WAs => true
  | _ => false
  end.

Definition ptable (d : ddialect) (fuel : nat) (orr tmp : bool) (ts : list dtok) : res (create_table * list dtok) :=
  let '(ine, r1) := opt3 WIf WNot WExists ts in
  bind (pobjname (gate d ["bigquery"]%string) fuel r1) (fun '(nm, r2) =>
    if is_kh WOn r2 && is_kh WCluster (tl r2) then OutOfFragment
    else if is_kh WLike r2 || is_kh WILike r2 || is_kh WClone r2 then OutOfFragment
    else
      bind (pcolumns d fuel r2) (fun '(cc, r3) =>
        if clause_ahead r3 then OutOfFragment
        else Ok ({| or_replace := orr; temporary := tmp; if_not_exists := ine; tbl_name := nm;
                    columns := fst cc; constraints := snd cc |}, r3))).

(** [Parser::parse_statement] on CREATE .. TABLE: the statement up to (not including) its terminator *)
Definition parse_create_table_core (d : ddialect) (fuel : nat) (ts : list dtok) : res (create_table * list dtok) :=
  if gate d ["snowflake"]%string then OutOfFragment     (* SnowflakeDialect::parse_statement has its own CREATE TABLE parser *)
  else if is_kh WCreate ts then
    let '(orr, r1) := opt2 WOr WReplace (tl ts) in
    let '(ora, r2) := opt2 WOr WAlter r1 in
    let '(loc, r3) := opt1 WLocal r2 in
    let '(glo, r4) := opt1 WGlobal r3 in
    let '(tra, r5) := opt1 WTransient r4 in
    if loc && glo then Err
    else
      let '(tmp, r6) := if is_kh WTemp r5 || is_kh WTemporary r5 then (true, tl r5) else (false, r5) in
      let '(per, r7) := if gate d ["duckdb"]%string then opt1 WPersistent r6 else (false, r6) in
      match r7 with
      | [] => Err
      | _ :: _ =>
          if is_kh WTable r7 then
            (if ora || per then Err
             else if loc || glo || tra then OutOfFragment
             else ptable d fuel orr tmp (tl r7))
          else OutOfFragment                      (* another kind of object *)
      end
  else OutOfFragment.

(** [Parser::parse_sql] on one statement: only statement terminators may follow *)
Definition parse_ddl_top (d : ddialect) (ts : list dtok) : res create_table :=
  if existsb is_foreign ts then OutOfFragment
  else bind (parse_create_table_core d (S (length ts)) ts) (fun '(c, r) =>
         if forallb is_semi r then Ok c else Err).

(** * Boolean equality on trees *)
Fixpoint dlist_eqb {A} (f : A -> A -> bool) (l m : list A) : bool :=
  match l, m with
  | [], [] => true
  | x :: l', y :: m' => f x y && dlist_eqb f l' m'
  | _, _ => false
  end.
Definition dopt_eqb {A} (f : A -> A -> bool) (a b : option A) : bool :=
  match a, b with None, None => true | Some x, Some y => f x y | _, _ => false end.

Definition copt_eqb (a b : copt) : bool :=
  match a, b with
  | ONotNull, ONotNull | ONull, ONull | OPrimaryKey, OPrimaryKey | OUnique, OUnique => true
  | ODefault e, ODefault e' | OCheck e, OCheck e' => expr_eqb e e'
  | OReferences n c, OReferences n' c' => dlist_eqb dtok_eqb n n' && dlist_eqb dtok_eqb c c'
  | _, _ => false
  end.
Definition coptdef_eqb (a b : coptdef) : bool :=
  dopt_eqb dtok_eqb (oname a) (oname b) && copt_eqb (oopt a) (oopt b).
Definition coldef_eqb (a b : column_def) : bool :=
  dtok_eqb (cname a) (cname b) && DT.dt_eqb (ctype a) (ctype b) && dlist_eqb coptdef_eqb (coptions a) (coptions b).
Definition tcbody_eqb (a b : tcbody) : bool :=
  match a, b with
  | TPrimaryKey c, TPrimaryKey c' | TUnique c, TUnique c' => dlist_eqb dtok_eqb c c'
  | TCheck e, TCheck e' => expr_eqb e e'
  | TForeignKey c n r, TForeignKey c' n' r' =>
      dlist_eqb dtok_eqb c c' && dlist_eqb dtok_eqb n n' && dlist_eqb dtok_eqb r r'
  | _, _ => false
  end.
Definition tcons_eqb (a b : tconstraint) : bool :=
  dopt_eqb dtok_eqb (tname a) (tname b) && tcbody_eqb (tbody a) (tbody b).
Definition ct_eqb (a b : create_table) : bool :=
  Bool.eqb (or_replace a) (or_replace b) && Bool.eqb (temporary a) (temporary b) &&
  Bool.eqb (if_not_exists a) (if_not_exists b) && dlist_eqb dtok_eqb (tbl_name a) (tbl_name b) &&
  dlist_eqb coldef_eqb (columns a) (columns b) && dlist_eqb tcons_eqb (constraints a) (constraints b).

(** * Canonical spelling of the expressions inside ([PrinterCore.norm]) *)
Definition copt_norm (o : copt) : copt :=
  match o with ODefault e => ODefault (norm e) | OCheck e => OCheck (norm e) | x => x end.
Definition coldef_norm (c : column_def) : column_def :=
  {| cname := cname c; ctype := ctype c;
     coptions := map (fun o => {| oname := oname o; oopt := copt_norm (oopt o) |}) (coptions c) |}.
Definition tcons_norm (c : tconstraint) : tconstraint :=
  {| tname := tname c; tbody := match tbody c with TCheck e => TCheck (norm e) | x => x end |}.
Definition ct_norm (c : create_table) : create_table :=
  {| or_replace := or_replace c; temporary := temporary c; if_not_exists := if_not_exists c;
     tbl_name := tbl_name c; columns := map coldef_norm (columns c); constraints := map tcons_norm (constraints c) |}.

(** * Evaluation of one correspondence case inside the kernel (lib/props/c01ddl.py).
    [ts]: the crate's tokens of the input; [i]: what [Parser::parse_sql] returned (the CREATE TABLE tree,
    or an error); [pt]: the crate's tokens of the printed tree.
    Bits: 1 = model parser and implementation disagree on the input; 2 = [dtoks] of the
    implementation's tree differs from the tokens of the text Display printed; 4 = the model does not
    parse [dtoks tree] back to the (canonically spelled) tree; 8 = input outside the fragment. *)
Inductive dires := DIOk (c : create_table) (pt : list dtok) | DIErr | DIBad.

Definition dcase_core (d : ddialect) (ts : list dtok) (i : dires) : N :=
  match parse_ddl_top d ts, i with
  | OutOfFragment, _ => 8
  | _, DIBad => 8
  | Ok c, DIOk c' pt =>
      (if ct_eqb c c' then 0 else 1) +
      (if dtoks_eqb (dtoks (dtab d) c') pt then 0 else 2) +
      (match parse_ddl_top d (dtoks (dtab d) c') with
       | Ok c2 => if ct_eqb c2 (ct_norm c') then 0 else 4
       | _ => 4
       end)
  | Err, DIErr => 0
  | _, _ => 1
  end.
