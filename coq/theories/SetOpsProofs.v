(** Proofs about the set-operation Pratt loop model of [SetOps.v]. *)
From SqlV Require Import Base SetOps.

(** * Boolean equalities are correct *)

Lemma setop_eqb_eq a b : setop_eqb a b = true <-> a = b.
Proof. destruct a, b; cbn [setop_eqb]; split; intro H; try reflexivity; discriminate. Qed.

Lemma squant_eqb_eq a b : squant_eqb a b = true <-> a = b.
Proof. destruct a, b; cbn [squant_eqb]; split; intro H; try reflexivity; discriminate. Qed.

Lemma stok_eqb_eq a b : stok_eqb a b = true <-> a = b.
Proof.
  destruct a, b; cbn [stok_eqb]; split; intro H; try reflexivity; try discriminate.
  - apply N.eqb_eq in H. congruence.
  - inversion H. apply N.eqb_refl.
  - apply setop_eqb_eq in H. congruence.
  - inversion H. apply setop_eqb_eq. reflexivity.
Qed.

Lemma stoks_eqb_eq a b : stoks_eqb a b = true <-> a = b.
Proof.
  revert b; induction a as [|x a IH]; intros [|y b]; cbn [stoks_eqb]; split; intro H;
    try reflexivity; try discriminate.
  - apply andb_true_iff in H as [H1 H2]. apply stok_eqb_eq in H1. apply IH in H2. congruence.
  - inversion H; subst. apply andb_true_iff. split; [apply stok_eqb_eq | apply IH]; reflexivity.
Qed.

Lemma sexpr_eqb_eq a b : sexpr_eqb a b = true <-> a = b.
Proof.
  revert b; induction a as [n|e IH|o q l IHl r IHr]; intros [m|e'|o' q' l' r'];
    cbn [sexpr_eqb]; split; intro H; try reflexivity; try discriminate.
  - apply N.eqb_eq in H. congruence.
  - inversion H. apply N.eqb_refl.
  - apply IH in H. congruence.
  - inversion H; subst. apply IH. reflexivity.
  - apply andb_true_iff in H as [H Hr]. apply andb_true_iff in H as [H Hl].
    apply andb_true_iff in H as [Ho Hq].
    apply setop_eqb_eq in Ho. apply squant_eqb_eq in Hq. apply IHl in Hl. apply IHr in Hr.
    congruence.
  - inversion H; subst. rewrite !andb_true_iff. repeat split.
    + apply setop_eqb_eq; reflexivity.
    + apply squant_eqb_eq; reflexivity.
    + apply IHl; reflexivity.
    + apply IHr; reflexivity.
Qed.

Lemma sres_eqb_eq a b : sres_eqb a b = true <-> a = b.
Proof.
  destruct a, b; cbn [sres_eqb]; split; intro H; try reflexivity; try discriminate.
  - apply andb_true_iff in H as [H1 H2]. apply sexpr_eqb_eq in H1. apply stoks_eqb_eq in H2.
    congruence.
  - inversion H; subst. apply andb_true_iff.
    split; [apply sexpr_eqb_eq | apply stoks_eqb_eq]; reflexivity.
Qed.

(** * Yield facts *)

Lemma syield_setop_app o q l r ts :
  syield (SSetOp o q l r) ++ ts = syield l ++ SOpT o :: squant_toks q ++ syield r ++ ts.
Proof.
  cbn [syield]. rewrite <- app_assoc. cbn [app]. rewrite <- app_assoc. reflexivity.
Qed.

Lemma syield_query_app e ts :
  syield (SQuery e) ++ ts = SLP :: syield e ++ SRP :: ts.
Proof. cbn [syield app]. rewrite <- app_assoc. reflexivity. Qed.

Lemma syield_head t :
  (exists n tl, syield t = SSel n :: tl) \/ (exists tl, syield t = SLP :: tl).
Proof.
  induction t as [n|e IH|o q l IHl r IHr]; cbn [syield].
  - left. eauto.
  - right. eauto.
  - destruct IHl as [(n & tl & E)|(tl & E)]; rewrite E; cbn [app]; eauto.
Qed.

Lemma ssize_pos t : (1 <= ssize t)%nat.
Proof. destruct t; cbn [ssize]; lia. Qed.

Lemma ssize_le_yield t : (ssize t <= length (syield t))%nat.
Proof.
  induction t as [n|e IH|o q l IHl r IHr]; cbn [ssize syield length].
  - lia.
  - rewrite app_length. cbn [length]. lia.
  - rewrite app_length. cbn [length]. rewrite app_length. lia.
Qed.

Lemma parse_squant_spec ts q ts2 :
  parse_squant ts = (q, ts2) -> ts = squant_toks q ++ ts2.
Proof.
  destruct ts as [|[] r]; cbn [parse_squant]; intro H; inversion H; reflexivity.
Qed.

Lemma parse_squant_len ts q ts2 :
  parse_squant ts = (q, ts2) -> (length ts2 <= length ts)%nat.
Proof.
  intro H. apply parse_squant_spec in H. subst ts. rewrite app_length. lia.
Qed.

Lemma parse_squant_yield q r rest :
  parse_squant (squant_toks q ++ syield r ++ rest) = (q, syield r ++ rest).
Proof.
  destruct q; cbn [squant_toks app parse_squant]; try reflexivity.
  destruct (syield_head r) as [(n & tl & E)|(tl & E)]; rewrite E; reflexivity.
Qed.

(** * Parentheses are preserved one-to-one (item 6) *)

Lemma scount_lp_app a b : scount_lp (a ++ b) = (scount_lp a + scount_lp b)%nat.
Proof.
  induction a as [|x a IH]; cbn [app scount_lp]; [reflexivity|].
  destruct x; rewrite IH; reflexivity.
Qed.

Lemma scount_rp_app a b : scount_rp (a ++ b) = (scount_rp a + scount_rp b)%nat.
Proof.
  induction a as [|x a IH]; cbn [app scount_rp]; [reflexivity|].
  destruct x; rewrite IH; reflexivity.
Qed.

Lemma scount_lp_yield t : scount_lp (syield t) = squeries t.
Proof.
  induction t as [n|e IH|o q l IHl r IHr]; cbn [syield squeries scount_lp].
  - reflexivity.
  - rewrite scount_lp_app, IH. cbn [scount_lp]. lia.
  - rewrite scount_lp_app. cbn [scount_lp]. rewrite scount_lp_app, IHl, IHr.
    destruct q; reflexivity.
Qed.

Lemma scount_rp_yield t : scount_rp (syield t) = squeries t.
Proof.
  induction t as [n|e IH|o q l IHl r IHr]; cbn [syield squeries scount_rp].
  - reflexivity.
  - rewrite scount_rp_app, IH. cbn [scount_rp]. lia.
  - rewrite scount_rp_app. cbn [scount_rp]. rewrite scount_rp_app, IHl, IHr.
    destruct q; reflexivity.
Qed.

Theorem squery_preserved t ts :
  syield t = ts -> scount_lp ts = squeries t /\ scount_rp ts = squeries t.
Proof. intros <-. split; [apply scount_lp_yield | apply scount_rp_yield]. Qed.

Section Proofs.
  Variable sp : setop -> N.

  (** * Boolean specification = propositional specification *)

  Lemma slspine_gtb_iff p t : slspine_gtb sp p t = true <-> slspine_gt sp p t.
  Proof.
    induction t as [n|e IH|o q l IHl r IHr]; cbn [slspine_gtb slspine_gt];
      try (split; auto; fail).
    rewrite andb_true_iff, N.ltb_lt, IHl. reflexivity.
  Qed.

  Lemma srspine_geb_iff p t : srspine_geb sp p t = true <-> srspine_ge sp p t.
  Proof.
    induction t as [n|e IH|o q l IHl r IHr]; cbn [srspine_geb srspine_ge];
      try (split; auto; fail).
    rewrite andb_true_iff, N.leb_le, IHr. reflexivity.
  Qed.

  Lemma swfb_iff t : swfb sp t = true <-> swf sp t.
  Proof.
    induction t as [n|e IH|o q l IHl r IHr]; cbn [swfb swf].
    - split; auto.
    - exact IH.
    - rewrite !andb_true_iff, slspine_gtb_iff, srspine_geb_iff, IHl, IHr. tauto.
  Qed.

  Theorem scorrectb_iff t ts : scorrectb sp t ts = true <-> SCorrect sp t ts.
  Proof.
    unfold scorrectb, SCorrect. rewrite andb_true_iff, stoks_eqb_eq, swfb_iff. reflexivity.
  Qed.

  (** * Soundness: the loop invariant (item 1) *)

  Lemma srspine_ge_0 t : srspine_ge sp 0 t.
  Proof.
    induction t as [n|e IH|o q l IHl r IHr]; cbn [srspine_ge]; auto. split; [lia|assumption].
  Qed.

  Definition body_post (p : N) (ts : list stok) (res : sres) : Prop :=
    match res with
    | SOk t rest =>
        ts = syield t ++ rest /\ swf sp t /\ slspine_gt sp p t /\ sstop sp p rest /\
        srspine_ge sp (sheadpow sp rest) t
    | _ => True
    end.

  Lemma sloop_op rec g p e o ts1 :
    sloop sp rec (S g) p e (SOpT o :: ts1) =
    if sp o <=? p then SOk e (SOpT o :: ts1)
    else let '(q, ts2) := parse_squant ts1 in
         match rec (sp o) ts2 with
         | SOk r ts3 => sloop sp rec g p (SSetOp o q e r) ts3
         | x => x
         end.
  Proof. reflexivity. Qed.

  Lemma sloop_inv rec :
    (forall p ts, body_post p ts (rec p ts)) ->
    forall g p e ts,
      swf sp e -> slspine_gt sp p e -> srspine_ge sp (sheadpow sp ts) e ->
      body_post p (syield e ++ ts) (sloop sp rec g p e ts).
  Proof.
    intros Hrec. induction g as [|g IH]; intros p e ts W L R; [exact I|].
    destruct ts as [|[n|o| | | | |] ts1]; cbn [sloop]; try exact I;
      try (cbn [body_post sstop]; repeat split; assumption).
    destruct (N.leb_spec (sp o) p) as [Hle|Hgt].
    - cbn [body_post sstop]. repeat split; assumption.
    - destruct (parse_squant ts1) as [q ts2] eqn:Q. apply parse_squant_spec in Q.
      pose proof (Hrec (sp o) ts2) as HR.
      destruct (rec (sp o) ts2) as [r ts3| | |]; try exact I.
      cbn [body_post] in HR. destruct HR as (E & Wr & Lr & St & Rr).
      subst ts1 ts2. rewrite <- syield_setop_app.
      apply IH.
      + cbn [swf]. cbn [sheadpow] in R. repeat split; assumption.
      + cbn [slspine_gt]. split; assumption.
      + cbn [srspine_ge]. split; [|assumption].
        destruct ts3 as [|[n|o'| | | | |] ts4]; cbn [sheadpow sstop] in *; lia.
  Qed.

  Lemma parse_body_inv fuel : forall p ts, body_post p ts (parse_body sp fuel p ts).
  Proof.
    induction fuel as [|fuel IH]; intros p ts; [exact I|].
    cbn [parse_body]. destruct ts as [|[n|o| | | | |] r]; try exact I.
    - apply (sloop_inv (parse_body sp fuel) IH (S (length r)) p (SSelect n) r);
        cbn [swf slspine_gt srspine_ge]; exact I.
    - pose proof (IH 0 r) as H0.
      destruct (parse_body sp fuel 0 r) as [e rest| | |]; try exact I.
      destruct rest as [|[n|o| | | | |] r']; try exact I.
      cbn [body_post] in H0. destruct H0 as (E & W & L & St & R). subst r.
      rewrite <- syield_query_app.
      apply (sloop_inv (parse_body sp fuel) IH); cbn [swf slspine_gt srspine_ge]; auto.
  Qed.

  (** Item 1.  Whenever [parse_query_body(p)] succeeds with tree [t] and unconsumed input
      [rest]: the consumed tokens are exactly the yield of [t]; [t] is well formed; its left
      spine binds tighter than [p]; [rest] does not start with an operator tighter than [p];
      and the right spine of [t] binds at least as tight as the operator [rest] starts with. *)
  Theorem setops_invariant fuel p ts t rest :
    parse_body sp fuel p ts = SOk t rest ->
    ts = syield t ++ rest /\ swf sp t /\ slspine_gt sp p t /\ sstop sp p rest /\
    srspine_ge sp (sheadpow sp rest) t.
  Proof.
    intro H. pose proof (parse_body_inv fuel p ts) as P. rewrite H in P. exact P.
  Qed.

  (** Item 2. *)
  Theorem setops_correct ts t :
    parse_query_top sp ts = SOk t [] -> SCorrect sp t ts.
  Proof.
    unfold parse_query_top. intro H. apply setops_invariant in H.
    destruct H as (E & W & _). rewrite app_nil_r in E. split; [symmetry; exact E|exact W].
  Qed.

  (** * Consequences of [swf] (item 4, general part) *)

  Theorem setops_right_nesting_tighter o q l o' q' l' r' ts :
    SCorrect sp (SSetOp o q l (SSetOp o' q' l' r')) ts -> sp o < sp o'.
  Proof.
    intros [_ W]. cbn [swf slspine_gt] in W. tauto.
  Qed.

  Theorem setops_left_nesting_not_looser o q o' q' l' r' r ts :
    SCorrect sp (SSetOp o q (SSetOp o' q' l' r') r) ts -> sp o <= sp o'.
  Proof.
    intros [_ W]. cbn [swf srspine_ge] in W. tauto.
  Qed.

  (** Operators of equal power never nest to the right: they associate to the left. *)
  Theorem setops_equal_power_left_assoc o q l o' q' l' r' ts :
    sp o = sp o' -> ~ SCorrect sp (SSetOp o q l (SSetOp o' q' l' r')) ts.
  Proof.
    intros E H. apply setops_right_nesting_tighter in H. lia.
  Qed.

  (** * Adequacy: the fuel of [parse_query_top] is never exhausted (item 7) *)

  Definition fuel_ok (rec : N -> list stok -> sres) (n : nat) : Prop :=
    forall p ts, (length ts < n)%nat ->
      rec p ts <> SOutOfFuel /\
      forall t r, rec p ts = SOk t r -> (length r <= length ts)%nat.

  Lemma sloop_fuel rec n :
    fuel_ok rec n ->
    forall g p e ts, (length ts < g)%nat -> (length ts <= n)%nat ->
      sloop sp rec g p e ts <> SOutOfFuel /\
      forall t r, sloop sp rec g p e ts = SOk t r -> (length r <= length ts)%nat.
  Proof.
    intros Hrec. induction g as [|g IH]; intros p e ts Hg Hn; [lia|].
    destruct ts as [|[n0|o| | | | |] ts1]; cbn [sloop];
      try (split; [discriminate | intros t r E; try discriminate; inversion E; subst; lia]).
    destruct (N.leb_spec (sp o) p) as [Hle|Hgt];
      [split; [discriminate | intros t r E; inversion E; subst; lia]|].
    destruct (parse_squant ts1) as [q ts2] eqn:Q. apply parse_squant_len in Q.
    cbn [length] in Hg, Hn.
    destruct (Hrec (sp o) ts2) as [NF LE]; [lia|].
    destruct (rec (sp o) ts2) as [r ts3| | |];
      try (split; [congruence | discriminate]).
    specialize (LE _ _ eq_refl).
    destruct (IH p (SSetOp o q e r) ts3) as [A B]; [lia|lia|].
    split; [exact A|]. intros t r0 E. apply B in E. cbn [length]. lia.
  Qed.

  Lemma parse_body_fuel fuel : fuel_ok (parse_body sp fuel) fuel.
  Proof.
    induction fuel as [|fuel IH]; intros p ts H; [lia|].
    cbn [parse_body].
    destruct ts as [|[n|o| | | | |] r];
      try (split; [discriminate | intros t r0 E; discriminate]);
      cbn [length] in H.
    - destruct (sloop_fuel _ fuel IH (S (length r)) p (SSelect n) r) as [A B]; [lia|lia|].
      split; [exact A|]. intros t r0 E. apply B in E. cbn [length]. lia.
    - destruct (IH 0 r) as [A B]; [lia|].
      destruct (parse_body sp fuel 0 r) as [e rest| | |];
        try (split; [congruence | discriminate]).
      specialize (B _ _ eq_refl).
      destruct rest as [|[n|o| | | | |] r'];
        try (split; [discriminate | intros t r0 E; discriminate]).
      cbn [length] in B.
      destruct (sloop_fuel _ fuel IH (S (length r')) p (SQuery e) r') as [A' B']; [lia|lia|].
      split; [exact A'|]. intros t r0 E. apply B' in E. cbn [length]. lia.
  Qed.

  Theorem setops_fuel_adequate ts : parse_query_top sp ts <> SOutOfFuel.
  Proof. unfold parse_query_top. apply parse_body_fuel. lia. Qed.

  (** The unconsumed input is a suffix no longer than the input (any sufficient fuel). *)
  Theorem parse_body_fuel_adequate fuel p ts :
    (length ts < fuel)%nat -> parse_body sp fuel p ts <> SOutOfFuel.
  Proof. intro H. apply parse_body_fuel. exact H. Qed.

  (** * Completeness and uniqueness (item 3) *)

  Section Complete.
    Hypothesis sp_pos : forall o, 0 < sp o.

    Lemma slspine_gt_0 t : slspine_gt sp 0 t.
    Proof.
      induction t as [n|e IH|o q l IHl r IHr]; cbn [slspine_gt]; auto.
    Qed.

    Definition snother (rest : list stok) : Prop :=
      match rest with
      | SOther :: _ => False
      | _ => True
      end.

    Lemma sstop_of_headpow p rest :
      sheadpow sp rest <= p -> snother rest -> sstop sp p rest.
    Proof.
      destruct rest as [|[n|o| | | | |] r]; cbn [sheadpow snother sstop]; auto.
    Qed.

    Lemma sstop_nother p rest : sstop sp p rest -> snother rest.
    Proof.
      destruct rest as [|[n|o| | | | |] r]; cbn [snother sstop]; auto.
    Qed.

    Lemma sloop_stop rec g p e rest :
      (0 < g)%nat -> sstop sp p rest -> sloop sp rec g p e rest = SOk e rest.
    Proof.
      intros Hg St. destruct g as [|g]; [lia|].
      destruct rest as [|[n|o| | | | |] r]; cbn [sloop sstop] in *; try reflexivity.
      - destruct (N.leb_spec (sp o) p); [reflexivity|lia].
      - contradiction.
    Qed.

    Lemma parse_body_LP f p r :
      parse_body sp (S f) p (SLP :: r) =
      match parse_body sp f 0 r with
      | SOk e (SRP :: r') => sloop sp (parse_body sp f) (S (length r')) p (SQuery e) r'
      | SOk _ (SOther :: _) => SOutOfFragment
      | SOk _ _ => SErr
      | x => x
      end.
    Proof. reflexivity. Qed.

    (** Parsing the yield of a well-formed tree [t] followed by [rest] is the same as
        entering the loop with accumulated expression [t] and input [rest]. *)
    Lemma parse_body_as_loop t :
      forall f p rest,
        swf sp t -> slspine_gt sp p t -> srspine_ge sp (sheadpow sp rest) t ->
        snother rest -> (ssize t <= f)%nat ->
        exists g, (length rest < g)%nat /\
          parse_body sp (S f) p (syield t ++ rest) = sloop sp (parse_body sp f) g p t rest.
    Proof.
      induction t as [n|e IH|o q l IHl r IHr]; intros f p rest W L R NO SZ.
      - exists (S (length rest)). split; [lia|reflexivity].
      - cbn [ssize] in SZ. destruct f as [|f']; [lia|]. cbn [swf] in W.
        destruct (IH f' 0 (SRP :: rest)) as (g & Hg & E);
          [exact W | apply slspine_gt_0 | apply srspine_ge_0 | exact I | lia |].
        exists (S (length rest)). split; [lia|].
        rewrite syield_query_app, parse_body_LP, E.
        rewrite sloop_stop; [reflexivity | lia | exact I].
      - cbn [ssize] in SZ. cbn [swf] in W. cbn [slspine_gt] in L. cbn [srspine_ge] in R.
        destruct W as (Wr1 & Wl1 & Wl & Wr). destruct L as (Lp & Ll). destruct R as (Rp & Rr).
        pose proof (ssize_pos l) as Pl. pose proof (ssize_pos r) as Pr.
        destruct f as [|f']; [lia|].
        destruct (IHl (S f') p (SOpT o :: squant_toks q ++ syield r ++ rest))
          as (g & Hg & E); [exact Wl | exact Ll | exact Wl1 | exact I | lia |].
        destruct (IHr f' (sp o) rest) as (g2 & Hg2 & E2);
          [exact Wr | exact Wr1 | exact Rr | exact NO | lia |].
        cbn [length] in Hg. rewrite !app_length in Hg.
        destruct g as [|g']; [lia|].
        exists g'. split; [lia|].
        rewrite syield_setop_app, E, sloop_op.
        destruct (N.leb_spec (sp o) p) as [Hle|Hgt]; [lia|].
        rewrite parse_squant_yield. cbv beta iota.
        rewrite E2, sloop_stop; [reflexivity | lia |].
        apply sstop_of_headpow; assumption.
    Qed.

    (** Completeness of [parse_query_body(p)]. *)
    Theorem parse_body_complete t f p rest :
      swf sp t -> slspine_gt sp p t -> sstop sp p rest ->
      srspine_ge sp (sheadpow sp rest) t -> (ssize t <= f)%nat ->
      parse_body sp (S f) p (syield t ++ rest) = SOk t rest.
    Proof.
      intros W L St R SZ.
      destruct (parse_body_as_loop t f p rest W L R (sstop_nother _ _ St) SZ) as (g & Hg & E).
      rewrite E. apply sloop_stop; [lia|exact St].
    Qed.

    (** Every correct tree is the one the parser returns. *)
    Theorem setops_complete t ts :
      SCorrect sp t ts -> parse_query_top sp ts = SOk t [].
    Proof.
      intros [<- W]. unfold parse_query_top.
      pose proof (parse_body_complete t (length (syield t)) 0 [] W (slspine_gt_0 t) I
                    (srspine_ge_0 t) (ssize_le_yield t)) as H.
      rewrite app_nil_r in H. exact H.
    Qed.

    (** Item 3: the specification determines the tree. *)
    Theorem scorrect_unique t t' ts :
      SCorrect sp t ts -> SCorrect sp t' ts -> t = t'.
    Proof.
      intros H H'. apply setops_complete in H. apply setops_complete in H'.
      rewrite H in H'. inversion H'. reflexivity.
    Qed.

    (** The parser decides the specification. *)
    Theorem setops_correct_iff t ts :
      parse_query_top sp ts = SOk t [] <-> SCorrect sp t ts.
    Proof. split; [apply setops_correct | apply setops_complete]. Qed.
  End Complete.
End Proofs.

(** * The pinned table *)

Lemma sp_pinned_pos o : 0 < sp_pinned o.
Proof. destruct o; cbn [sp_pinned]; lia. Qed.

(** Item 4, concrete: UNION/EXCEPT associate to the left; INTERSECT binds tighter. *)
Theorem setops_left_assoc :
  parse_query_top sp_pinned [SSel 1; SOpT Union; SSel 2; SOpT Except; SSel 3] =
  SOk (SSetOp Except QNone (SSetOp Union QNone (SSelect 1) (SSelect 2)) (SSelect 3)) [].
Proof. vm_compute. reflexivity. Qed.

Theorem setops_intersect_example :
  parse_query_top sp_pinned
    [SSel 1; SOpT Union; SAll; SSel 2; SOpT Intersect; SSel 3; SOpT Except; SDistinct; SSel 4] =
  SOk (SSetOp Except QDistinct
         (SSetOp Union QAll (SSelect 1) (SSetOp Intersect QNone (SSelect 2) (SSelect 3)))
         (SSelect 4)) [].
Proof. vm_compute. reflexivity. Qed.

Theorem setops_paren_example :
  parse_query_top sp_pinned
    [SSel 1; SOpT Intersect; SLP; SSel 2; SOpT Union; SSel 3; SRP] =
  SOk (SSetOp Intersect QNone (SSelect 1)
         (SQuery (SSetOp Union QNone (SSelect 2) (SSelect 3)))) [].
Proof. vm_compute. reflexivity. Qed.

(** Item 4, general, for the pinned table: in a correct tree the right operand of any
    set operation is never a UNION/EXCEPT node, and is an INTERSECT node only under
    UNION/EXCEPT. *)
Theorem setops_left_assoc_pinned o q l o' q' l' r' ts :
  SCorrect sp_pinned (SSetOp o q l (SSetOp o' q' l' r')) ts ->
  o' = Intersect /\ o <> Intersect.
Proof.
  intro H. apply setops_right_nesting_tighter in H.
  destruct o, o'; cbn [sp_pinned] in H; try lia; split; congruence.
Qed.

(** Item 5. *)
Lemma swf_pinned_intersect_children q l r :
  swf sp_pinned (SSetOp Intersect q l r) ->
  s_is_union_except l = false /\ s_is_setop r = false.
Proof.
  cbn [swf]. intros (Hr & Hl & _ & _). split.
  - destruct l as [n|e|[] q' a b]; cbn [s_is_union_except]; try reflexivity;
      cbn [srspine_ge sp_pinned] in Hl; lia.
  - destruct r as [n|e|o' q' a b]; cbn [s_is_setop]; try reflexivity.
    cbn [slspine_gt] in Hr. destruct o'; cbn [sp_pinned] in Hr; lia.
Qed.

Lemma s_is_setop_union_except t : s_is_setop t = false -> s_is_union_except t = false.
Proof. destruct t as [n|e|[] q a b]; cbn; congruence. Qed.

Lemma swf_pinned_intersect_tight t : swf sp_pinned t -> s_intersect_tight t.
Proof.
  induction t as [n|e IH|o q l IHl r IHr]; cbn [s_intersect_tight].
  - auto.
  - exact IH.
  - intro W. pose proof W as W'. cbn [swf] in W'. destruct W' as (_ & _ & Wl & Wr).
    split; [|split; auto].
    intros ->. apply swf_pinned_intersect_children in W. destruct W as [A B].
    split; [exact A | apply s_is_setop_union_except; exact B].
Qed.

Theorem setops_intersect_tighter t ts :
  SCorrect sp_pinned t ts -> s_intersect_tight t.
Proof. intros [_ W]. apply swf_pinned_intersect_tight. exact W. Qed.

(** ... and therefore of every tree the parser returns. *)
Corollary setops_parse_intersect_tighter ts t :
  parse_query_top sp_pinned ts = SOk t [] -> s_intersect_tight t.
Proof. intro H. apply setops_correct in H. eapply setops_intersect_tighter; eauto. Qed.

Corollary setops_parse_parens_preserved sp ts t :
  parse_query_top sp ts = SOk t [] ->
  scount_lp ts = squeries t /\ scount_rp ts = squeries t.
Proof. intro H. apply setops_correct in H. destruct H as [E _]. apply squery_preserved; exact E. Qed.
