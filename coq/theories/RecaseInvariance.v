(** RecaseInvariance.v — the parser-level clause of C08 at the level of the interface:
    changing the letter case of keyword occurrences cannot change what a program of the
    interface computes, except inside values that carry the recased token itself.

    [tok_recase]: same location, and the tokens are equal or are two spellings, equal up to
    ASCII case, of the same UNQUOTED KEYWORD word (same keyword field, not NoKeyword).  Words
    that are not keywords (identifiers) and quoted words must be equal: spelling preserved.
    [Rrc]: token vectors related pointwise by [tok_recase], same cursor and parser state.

    What observes the spelling of a word, and is therefore NOT recase-invariant:
      - [token_eqb] against an unquoted keyword word, i.e. [consume_token e], [consume_tokens],
        [expect_token e], the end token of [comma_sep0] (and [peek_two_are]) when [e] is such a
        word ([Token]'s derived [==] compares [Word.value]) — see [recase_unsafe_example];
      - [show_token] (in [expected]'s message): the found-token TEXT of an error follows the
        input's spelling; errors are therefore related by [err_recase] (equal up to one
        case-insensitively equal segment), not equal.
    Everything else looks at a word only through its keyword field ([is_kw], [kw_of]:
    parse_keyword(s), parse_one_of_keywords, expect_keyword(s), the terminator test of the comma
    lists, the statement loop's END test) or stores the token as a value.
    [cmp_safe e]: [e] is not an unquoted keyword word.  [IfaceRC tok_recase cmp_safe]: pairs of
    programs built alike whose token comparisons are all [cmp_safe]; [recase_safe p]: the same
    for the closure language. *)
Require Import SqlV.Base SqlV.Machine SqlV.MachineRel.
From Coq Require Import Arith.

Definition tok_recase (t t' : twl) : Prop :=
  token_recase (tok t) (tok t') /\ line t = line t' /\ col t = col t'.
Definition recased (ts ts' : list twl) : Prop := Forall2 tok_recase ts ts'.

(** messages equal up to one segment that is equal ignoring ASCII case (the found-token text) *)
Definition msg_recase (m m' : str) : Prop :=
  exists pre v v' post, m = pre ++ v ++ post /\ m' = pre ++ v' ++ post /\ ascii_ci_eq v v'.
Definition err_recase (e e' : err) : Prop :=
  match e, e' with
  | Syntax m, Syntax m' => msg_recase m m'
  | Lex m, Lex m' => m = m'
  | Limit, Limit => True
  | _, _ => False
  end.

Lemma msg_recase_refl m : msg_recase m m.
Proof. exists m, [], [], []. cbn. rewrite app_nil_r. repeat split. Qed.
Lemma err_recase_refl e : err_recase e e.
Proof. destruct e; cbn; auto. apply msg_recase_refl. Qed.
Lemma err_recase_limit e e' : err_recase e e' -> (e = Limit <-> e' = Limit).
Proof. destruct e, e'; cbn; intro H; try contradiction; split; intro; congruence. Qed.

Lemma tok_recase_refl t : tok_recase t t.
Proof. repeat split. apply token_recase_refl. Qed.
Lemma rc_is_ws t t' : tok_recase t t' -> is_ws t = is_ws t'.
Proof. intros (H & _). unfold is_ws. apply recase_is_ws. exact H. Qed.

(** Identifiers, quoted words and every non-word token are untouched by the relation. *)
Theorem recase_identifier_exact t t' : tok_recase t t' -> kw_word (tok t) = false -> t = t'.
Proof.
  intros ([E|(v & v' & k & E1 & E2 & Hk & _)] & Hl & Hc) Hn.
  - destruct t, t'. cbn in *. subst. reflexivity.
  - rewrite E1 in Hn. unfold kw_word in Hn. rewrite Hk in Hn. discriminate.
Qed.

Lemma expected_recase what t t' :
  tok_recase t t' -> err_recase (Syntax (expected_msg what t)) (Syntax (expected_msg what t')).
Proof.
  intros ([E|(v & v' & k & E1 & E2 & _ & Hv)] & Hl & Hc); cbn; unfold expected_msg; rewrite <- Hl, <- Hc.
  - rewrite E. apply msg_recase_refl.
  - rewrite E1, E2. cbn [show_token].
    exists (s2l "Expected: " ++ what ++ s2l ", found: "), v, v', (show_loc (line t) (col t)).
    rewrite <- !app_assoc. repeat split. exact Hv.
Qed.

(** * The state relation and the facts about the cursor *)
Definition Rrc (s s' : mstate) : Prop :=
  recased (toks s) (toks s') /\ idx s = idx s' /\ pst s = pst s' /\ tc s = tc s' /\ depth s = depth s'.
Definition Rdeq (d d' : dial) : Prop := d = d'.
Notation RelC := (Rel Rdeq Rrc err_recase).

Lemma rc_skipn n : forall l l', recased l l' -> recased (skipn n l) (skipn n l').
Proof. induction n; intros l l' H; [exact H|]. destruct H; cbn; [constructor|apply IHn; assumption]. Qed.
Lemma rc_peek_from l l' : recased l l' -> forall n, tok_recase (peek_from l n) (peek_from l' n).
Proof.
  induction 1 as [|t t' l l' Ht Hl IH]; intro n; cbn [peek_from]; [apply tok_recase_refl|].
  rewrite (rc_is_ws t t' Ht). destruct (is_ws t'); [apply IH|]. destruct n; [exact Ht|apply IH].
Qed.
Lemma rc_next_from l l' : recased l l' -> forall i,
  tok_recase (fst (next_from l i)) (fst (next_from l' i)) /\ snd (next_from l i) = snd (next_from l' i).
Proof.
  induction 1 as [|t t' l l' Ht Hl IH]; intro i; cbn [next_from]; [split; [apply tok_recase_refl|reflexivity]|].
  rewrite (rc_is_ws t t' Ht). destruct (is_ws t'); [apply IH|]. split; [exact Ht|reflexivity].
Qed.
Lemma rc_nth_error l l' : recased l l' -> forall j, opt_rel tok_recase (nth_error l j) (nth_error l' j).
Proof. induction 1; intros [|j]; cbn; auto. Qed.
Lemma rc_prev_idx l l' : recased l l' -> forall i, prev_idx l i = prev_idx l' i.
Proof.
  intros H i. induction i as [|j IH]; cbn [prev_idx]; [reflexivity|].
  pose proof (rc_nth_error l l' H j) as Hn. destruct (nth_error l j), (nth_error l' j); cbn in Hn; try contradiction; auto.
  rewrite (rc_is_ws _ _ Hn). destruct (is_ws _); auto.
Qed.
Lemma rc_nth l l' : recased l l' -> forall j, tok_recase (nth j l eof_twl) (nth j l' eof_twl).
Proof. induction 1; intros [|j]; cbn; auto; apply tok_recase_refl. Qed.
Lemma rc_length l l' : recased l l' -> length l = length l'.
Proof. induction 1; cbn; auto. Qed.
Lemma rc_existsb_cmp e l l' : cmp_safe e = true -> recased l l' ->
  existsb (fun t => token_eqb (tok t) e) l = existsb (fun t => token_eqb (tok t) e) l'.
Proof.
  intros He. induction 1 as [|t t' l l' Ht Hl IH]; cbn; [reflexivity|].
  rewrite (recase_cmp e _ _ He (proj1 Ht)), IH. reflexivity.
Qed.

Lemma rc_facts : Facts Rdeq Rrc err_recase tok_recase eq cmp_safe.
Proof.
  constructor.
  - intros t t' H. apply H.
  - intros e t t' He H. apply recase_cmp; [exact He|apply H].
  - reflexivity.
  - intros n d d' s s' _ (Ht & Hi & Hr). unfold peek_nth_token. cbn [fst snd]. split; [|repeat split; tauto].
    cbn. rewrite <- Hi. apply rc_peek_from. apply rc_skipn. exact Ht.
  - intros d d' s s' _ (Ht & Hi & Hp & Htc & Hd). unfold next_token. rewrite <- Hi.
    destruct (rc_next_from _ _ (rc_skipn (idx s) _ _ Ht) (idx s)) as [H1 H2].
    destruct (next_from (skipn (idx s) (toks s)) (idx s)) as [t j],
             (next_from (skipn (idx s) (toks s')) (idx s)) as [t' j']. cbn [fst snd] in *. subst j'.
    split; [exact H1|]. repeat split; cbn; auto.
  - intros d d' s s' _ (Ht & Hi & Hp & Htc & Hd). unfold prev_token. rewrite <- Hi, <- (rc_prev_idx _ _ Ht).
    destruct (prev_idx (toks s) (idx s)); cbn; (split; [auto|repeat split; cbn; auto]).
  - intros d d' s s' _ H. cbn. split; [apply H|exact H].
  - intros i i' <- d d' s s' _ (Ht & Hi & Hp & Htc & Hd). cbn. split; [reflexivity|repeat split; cbn; auto].
  - intros s s' t t' (_ & Hi & _) (Ht & _ & Hp & Htc & Hd). repeat split; cbn; auto.
  - intros s s' H; apply H.
  - intros s s' H; apply H.
  - intros s s' H; apply H.
  - intros s s' b (Ht & Hi & Hp & Htc & Hd). repeat split; cbn; auto.
  - intros s s' p (Ht & Hi & Hp & Htc & Hd). repeat split; cbn; auto.
  - intros s s' n (Ht & Hi & Hp & Htc & Hd). repeat split; cbn; auto.
  - intros d d' ->; reflexivity.
  - intros d d' ->; reflexivity.
  - intros d d' ->; reflexivity.
  - intros d d' n ->; reflexivity.
  - apply err_recase_refl.
  - apply err_recase_limit.
  - intros. apply expected_recase. assumption.
Qed.

Lemma rc_skip_all : RelC eq skip_all_semis skip_all_semis.
Proof.
  intros d d' s s' Hd Hs. unfold skip_all_semis.
  assert (E : length (toks s) = length (toks s')) by (destruct Hs as (Ht & _); apply rc_length; exact Ht).
  rewrite <- E. apply (rel_skip_semis Rdeq Rrc err_recase tok_recase eq cmp_safe rc_facts); assumption.
Qed.
Lemma rc_next_ns : RelC (opt_rel tok_recase) next_token_no_skip next_token_no_skip.
Proof.
  intros d d' s s' _ (Ht & Hi & Hp & Htc & Hd). unfold next_token_no_skip. cbn [fst snd]. rewrite <- Hi. split.
  - cbn. apply rc_nth_error. exact Ht.
  - repeat split; cbn; auto.
Qed.
Lemma rc_peek_ns n : RelC tok_recase (peek_nth_token_no_skip n) (peek_nth_token_no_skip n).
Proof.
  intros d d' s s' _ (Ht & Hi & Hr). unfold peek_nth_token_no_skip. cbn [fst snd]. rewrite <- Hi. split.
  - cbn. apply rc_nth. exact Ht.
  - repeat split; tauto.
Qed.
Lemma rc_lookahead A (RA : A -> A -> Prop) p p' q q' :
  RelC RA p p' -> RelC RA q q' ->
  RelC RA (lookahead (existsb (fun t => token_eqb (tok t) (TP PLParen))) p q)
          (lookahead (existsb (fun t => token_eqb (tok t) (TP PLParen))) p' q').
Proof.
  intros Hp Hq d d' s s' Hd Hs. unfold lookahead. destruct Hs as (Ht & Hi & Hr).
  rewrite <- Hi. rewrite (rc_existsb_cmp (TP PLParen) _ _ eq_refl (rc_skipn (idx s) _ _ Ht)).
  assert (Hs : Rrc s s') by (repeat split; tauto).
  destruct (existsb _ _); [apply Hp|apply Hq]; assumption.
Qed.

(** * The theorems *)

(** Every pair of programs built alike from the interface, whose comparisons of the cursor
    token are all against tokens other than unquoted keyword words, maps recased inputs to
    related outputs: values equal up to the recased tokens they carry, errors equal up to the
    found-token text, same cursor and parser state. *)
Theorem recase_invariance A (RA : A -> A -> Prop) (p p' : M A) :
  IfaceRC tok_recase cmp_safe A RA p p' -> RelC RA p p'.
Proof. apply (ifaceR_sound Rdeq Rrc err_recase tok_recase eq cmp_safe rc_facts rc_skip_all). Qed.

(** The closure language: all token arguments of consume / expect_token / comma_sep0 are
    [cmp_safe].  (Raw primitives and the statement-loop probe are allowed.) *)
Definition recase_safe (p : prog) : bool := prog_cmp_ok cmp_safe p.

Theorem recase_invariance_prog rr fuel p :
  recase_safe p = true -> RelC (val_rel tok_recase) (denote rr fuel p) (denote rr fuel p).
Proof.
  intro H. apply (denote_rel Rdeq Rrc err_recase tok_recase eq cmp_safe rc_facts rc_skip_all true).
  - intros _. apply rc_next_ns.
  - intros _. apply rc_peek_ns.
  - intros _. apply rc_lookahead.
  - reflexivity.
  - exact H.
Qed.

(** From initial states: the statement in the form used by C08. *)
Theorem recase_invariance_init ts ts' tcf limit rr fuel p d :
  recased ts ts' -> recase_safe p = true ->
  Ro err_recase (val_rel tok_recase)
     (fst (denote rr fuel p d (init_state ts tcf limit)))
     (fst (denote rr fuel p d (init_state ts' tcf limit))).
Proof.
  intros Hs Hp.
  apply (recase_invariance_prog rr fuel p Hp d d (init_state ts tcf limit) (init_state ts' tcf limit) eq_refl).
  repeat split; cbn; auto.
Qed.

(** The statement loop over any statement parser built from the recase-safe interface. *)
Theorem recase_invariance_statements ts ts' A (RA : A -> A -> Prop) (stmt stmt' : M A) tcf limit fuel d :
  recased ts ts' -> IfaceRC tok_recase cmp_safe A RA stmt stmt' ->
  Ro err_recase (Forall2 RA)
     (fst (parse_statements fuel stmt d (init_state ts tcf limit)))
     (fst (parse_statements fuel stmt' d (init_state ts' tcf limit))).
Proof.
  intros Hs Hi.
  apply (recase_invariance _ _ _ _ (R_parse_statements tok_recase cmp_safe A RA fuel stmt stmt' Hi)
           d d (init_state ts tcf limit) (init_state ts' tcf limit) eq_refl).
  repeat split; cbn; auto.
Qed.

(** A value that carries no keyword token is literally the same in both runs: in a tree, only
    leaves that ARE a recased keyword occurrence can differ (a keyword used in an identifier
    position keeps the spelling of the text). *)
Fixpoint no_kw_token (v : val) : bool :=
  match v with
  | VTok t => negb (kw_word (tok t))
  | VOpt (Some x) => no_kw_token x
  | VList l => forallb no_kw_token l
  | _ => true
  end.
Theorem recase_value_exact : forall v v', val_rel tok_recase v v' -> no_kw_token v = true -> v = v'.
Proof.
  fix IH 3. intros v v' H. destruct H; cbn [no_kw_token]; intro Hn; try reflexivity.
  - f_equal. apply recase_identifier_exact; [assumption|]. apply negb_true_iff. exact Hn.
  - f_equal. f_equal. apply IH; assumption.
  - f_equal. revert l l' H Hn. fix IHl 3. intros l l' H Hn. destruct H; [reflexivity|].
    cbn [forallb] in Hn. apply andb_true_iff in Hn as [H1 H2].
    f_equal; [apply IH; assumption|apply IHl; assumption].
Qed.

(** * Non-vacuity *)
Definition rtok (t : token) (c : N) : twl := {| tok := t; line := 1; col := c |}.
Definition kwd (spelling : string) (k : string) : token := TWord (s2l spelling) None (s2l k).
Definition ident (v : string) : token := TWord (s2l v) None no_keyword.

(** `select a , B from t` in two capitalisations of the keywords. *)
Definition text1 : list twl :=
  [rtok (kwd "select" "SELECT") 1; rtok (TWs 0) 7; rtok (ident "a") 8; rtok (TP PComma) 9; rtok (ident "B") 11;
   rtok (TWs 0) 12; rtok (kwd "from" "FROM") 13; rtok (TWs 0) 17; rtok (ident "t") 18].
Definition text2 : list twl :=
  [rtok (kwd "SeLeCt" "SELECT") 1; rtok (TWs 0) 7; rtok (ident "a") 8; rtok (TP PComma) 9; rtok (ident "B") 11;
   rtok (TWs 0) 12; rtok (kwd "FROM" "FROM") 13; rtok (TWs 0) 17; rtok (ident "t") 18].
(** SELECT <comma list of words> FROM <word>, returning the table word *)
Definition select_prog : prog :=
  PSeq (PExpectKw (s2l "SELECT")) (PSeq (PCommaSep PWord) (PSeq (PExpectKw (s2l "FROM")) PWord)).

Example recase_example :
  let d := mk_dial false false [s2l "FROM"] in
  recased text1 text2 /\ recase_safe select_prog = true /\
  (* accepted alike, same value (an identifier: spelling kept) *)
  fst (denote false 10 select_prog d (init_state text1 false 50)) = Ok (VTok (rtok (ident "t") 18)) /\
  fst (denote false 10 select_prog d (init_state text2 false 50)) = Ok (VTok (rtok (ident "t") 18)) /\
  (* the projection list: identifiers exact, B stays B *)
  fst (denote false 10 (PSeq PNext (PCommaSep PWord)) d (init_state text2 false 50))
    = Ok (VList [VTok (rtok (ident "a") 8); VTok (rtok (ident "B") 11)]) /\
  (* a keyword stored as a value keeps the spelling of ITS text; an error names the found token as spelled *)
  fst (denote false 10 PNext d (init_state text1 false 50)) = Ok (VTok (rtok (kwd "select" "SELECT") 1)) /\
  fst (denote false 10 PNext d (init_state text2 false 50)) = Ok (VTok (rtok (kwd "SeLeCt" "SELECT") 1)) /\
  fst (denote false 10 (PExpectKw (s2l "WITH")) d (init_state text1 false 50)) = Err (Syntax (s2l "Expected: WITH, found: select at Line: 1, Column: 1")) /\
  fst (denote false 10 (PExpectKw (s2l "WITH")) d (init_state text2 false 50)) = Err (Syntax (s2l "Expected: WITH, found: SeLeCt at Line: 1, Column: 1")).
Proof.
  cbv zeta. split.
  - unfold recased, text1, text2.
    repeat (constructor; [first [apply tok_recase_refl
      | (split; [right; eexists _, _, _; split; [reflexivity|split; [reflexivity|split; [vm_compute; reflexivity|vm_compute; reflexivity]]]|split; reflexivity])]|]).
    constructor.
  - vm_compute. repeat split; reflexivity.
Qed.

(** The restriction is necessary: comparing the cursor token with a keyword word observes the
    spelling ([Token]'s [==] compares [Word.value]). *)
Example recase_unsafe_example :
  let d := mk_dial false false [] in
  let p := PConsume (kwd "select" "SELECT") in
  recase_safe p = false /\
  fst (denote false 10 p d (init_state text1 false 50)) = Ok (VBool true) /\
  fst (denote false 10 p d (init_state text2 false 50)) = Ok (VBool false).
Proof. vm_compute. repeat split; reflexivity. Qed.
