(** Comment openers directly after a token (property C07, lexer level).

    LexerGaps.v replaces layout gaps that start with a blank.  Here: gaps that start with a
    comment opener character [o] ('-' of "--", '/' of "/*" or "//", '#') directly after the last
    token of the prefix.  Every scanner of the model, run on [l ++ o :: X1] instead of [l], gives
    the same result with [o :: X1] appended to the remaining input, provided [o] is _inert_ for
    the dialect (not an identifier part, not a custom-operator character, not numeric,
    alphanumeric or whitespace) -- the dispatcher does so too unless the LAST CHARACTER of [l]
    is one of  - / | # @ %  (the characters after which the dispatcher, at the end of the input,
    compares the next character with '-', '/' or tests it for an identifier start):
    [next_token_adj].  Stream level: [steps_adj], [tokenize_layout_gap_adj]. *)
Require Import SqlV.Base SqlV.Lexer SqlV.LexerProofs SqlV.LexerTiling SqlV.LexerLookahead SqlV.LexerGaps.
From Coq Require Import ZArith ZifyBool ZifyN ZifyNat Arith.
Local Open Scope N_scope.

(** the last character of the prefix after which an opener may fuse *)
Definition fuse_lastb (k : N) : bool :=
  (k =? cMINUS) || (k =? cSLASH) || (k =? cPIPE) || (k =? cHASH) || (k =? cAT) || (k =? cPCT).

(** the characters after which the dispatcher calls [start_binop] (which then consumes
    custom-operator characters, if the dialect has any) *)
Definition starterb (k : N) : bool :=
  (k =? cMINUS) || (k =? cSLASH) || (k =? cPIPE) || (k =? cHASH) || (k =? cAT) || (k =? cPCT) ||
  (k =? cGT) || (k =? cEQ) || (k =? cLT) || (k =? cAMP) || (k =? cTILDE) || (k =? cSTAR).

(** [o] is inert for the dialect (custom operators apart) *)
Definition opener_inertb (d : dialect) (u : uni) (o : N) : bool :=
  negb (d_ident_part d o) && negb (u_numeric u o) &&
  negb (u_alphanumeric u o) && negb (u_whitespace u o).

(** the last character [k] of the prefix does not fuse with the opener [o]: it is none of
    - / | # @ %, and, when [o] is a custom-operator character of the dialect (PostgreSQL), [k]
    is neither an operator starter nor a custom-operator character *)
Definition adj_lastb (d : dialect) (o k : N) : bool :=
  negb (fuse_lastb k) &&
  (negb (d_custom_op d o) || (negb (starterb k) && negb (d_custom_op d k))).

(** the tail: "--", or '/' or '#' followed by anything *)
Definition opener_tailb (X : str) : bool :=
  match X with
  | o :: X1 => ((o =? cMINUS) && peek_is X1 cMINUS) || (o =? cSLASH) || (o =? cHASH)
  | [] => false
  end.

Lemma tw_ext_ne p Y : forall l a c2, take_while p l = (a, c2) -> c2 <> [] ->
  take_while p (l ++ Y) = (a, c2 ++ Y).
Proof.
  induction l as [|x l IH]; intros a c2; cbn [app take_while].
  - intros [= <- <-] H. congruence.
  - destruct (p x).
    + destruct (take_while p l) as [a1 r1] eqn:E. intros [= <- <-] H.
      rewrite (IH _ _ eq_refl H). reflexivity.
    + intros [= <- <-] _. reflexivity.
Qed.

Section Adj.
  Variable d : dialect.
  Variable u : uni.
  Variable unesc : bool.
  Variable o : N.
  Variable X1 : str.
  Notation X := (o :: X1).
  Notation next := (next_token d u unesc).

  Hypothesis Ho : o = cMINUS \/ o = cSLASH \/ o = cHASH.
  Hypothesis Hmm : o = cMINUS -> peek_is X1 cMINUS = true.
  Hypothesis Hip : d_ident_part d o = false.
  Hypothesis Hnum : u_numeric u o = false.
  Hypothesis Haln : u_alphanumeric u o = false.
  Hypothesis Hws : u_whitespace u o = false.

  Lemma o_neq k : (cMINUS =? k) = false -> (cSLASH =? k) = false -> (cHASH =? k) = false -> (o =? k) = false.
  Proof. destruct Ho as [-> | [-> | ->]]; auto. Qed.
  Lemma o_digit : is_digit o = false.
  Proof. destruct Ho as [-> | [-> | ->]]; reflexivity. Qed.
  Lemma o_hexdigit : is_hexdigit o = false.
  Proof. destruct Ho as [-> | [-> | ->]]; reflexivity. Qed.
  Lemma o_octal : is_octal o = false.
  Proof. destruct Ho as [-> | [-> | ->]]; reflexivity. Qed.
  Lemma o_digit_or_dot : is_digit_or_dot o = false.
  Proof. destruct Ho as [-> | [-> | ->]]; reflexivity. Qed.
  Lemma o_alnum_us : (fun ch => u_alphanumeric u ch || (ch =? cUS)) o = false.
  Proof. cbv beta. rewrite Haln. destruct Ho as [-> | [-> | ->]]; reflexivity. Qed.

  (** [E2 x y]: [x] the result on [l], [y] on [l ++ X] *)
  Definition E2 {A} (x y : A * str) : Prop := forall a c2, x = (a, c2) -> y = (a, c2 ++ X).
  Definition E2o {A} (x y : option (A * str)) : Prop :=
    forall a c2, x = Some (a, c2) -> y = Some (a, c2 ++ X).
  Definition E2r {A} (x y : res (A * str)) : Prop :=
    forall a c2, x = Ok (a, c2) -> y = Ok (a, c2 ++ X).

  Lemma tw_e2 p l : p o = false -> E2 (take_while p l) (take_while p (l ++ X)).
  Proof.
    intro Hp. induction l as [|x l IH]; intros a c2; cbn [app take_while].
    - intros [= <- <-]. rewrite Hp. reflexivity.
    - destruct (p x).
      + destruct (take_while p l) as [a1 r1] eqn:E. intros [= <- <-].
        rewrite (IH _ _ eq_refl). reflexivity.
      + intros [= <- <-]. reflexivity.
  Qed.

  Lemma tokenize_word_e2 f l : E2 (tokenize_word d f l) (tokenize_word d f (l ++ X)).
  Proof.
    unfold tokenize_word. intros a c2.
    destruct (take_while (d_ident_part d) l) as [w r0] eqn:E.
    rewrite (tw_e2 _ l Hip _ _ E). intros [= <- <-]. reflexivity.
  Qed.

  Lemma ident_e2 chs x l :
    E2 (ident_or_keyword d chs (x :: l)) (ident_or_keyword d chs (x :: l ++ X)).
  Proof.
    unfold ident_or_keyword. cbn [tl]. intros a c2.
    destruct (tokenize_word d chs l) as [w r0] eqn:E.
    rewrite (tokenize_word_e2 chs l _ _ E).
    destruct (forallb is_digit_or_dot w).
    - destruct (take_while is_digit_or_dot w) as [s s'].
      destruct (take_while is_digit_or_dot r0) as [s2 r2] eqn:E2.
      rewrite (tw_e2 _ r0 o_digit_or_dot _ _ E2). intros [= <- <-]. reflexivity.
    - intros [= <- <-]. reflexivity.
  Qed.

  (** operators: either [o] is no custom-operator character, or the scan stops inside [l] *)
  Definition op_ok (l : str) : Prop :=
    d_custom_op d o = false \/ (l <> [] /\ d_custom_op d (last l 0) = false).

  Lemma tw_last_stop p : forall l a c2, take_while p l = (a, c2) -> l <> [] -> p (last l 0) = false -> c2 <> [].
  Proof.
    induction l as [|x l IH]; intros a c2; [congruence|]. cbn [take_while]. intros H _ Hl.
    destruct (p x) eqn:Ex; [|injection H as <- <-; discriminate].
    destruct (take_while p l) as [a1 r1] eqn:E. injection H as <- <-.
    destruct l as [|y l']; [cbn [last] in Hl; congruence|].
    apply (IH _ _ eq_refl); [discriminate|exact Hl].
  Qed.

  Lemma start_binop_e2 p f l : op_ok l -> E2 (start_binop d p f l) (start_binop d p f (l ++ X)).
  Proof.
    unfold start_binop. intros Hop a c2.
    destruct (take_while (d_custom_op d) l) as [ops r0] eqn:E.
    assert (E' : take_while (d_custom_op d) (l ++ X) = (ops, r0 ++ X)).
    { destruct Hop as [Hco | [Hne Hl]].
      - exact (tw_e2 _ l Hco _ _ E).
      - apply tw_ext_ne; [exact E|]. exact (tw_last_stop _ _ _ _ E Hne Hl). }
    rewrite E'. destruct ops; intros [= <- <-]; reflexivity.
  Qed.

  (** numbers *)
  Lemma num_period_e2 s0 l : E2 (num_period s0 l) (num_period s0 (l ++ X)).
  Proof.
    intros a c2. destruct l as [|x l]; cbn [app]; unfold num_period.
    - rewrite (o_neq cDOT) by reflexivity. intros [= <- <-]. reflexivity.
    - destruct (x =? cDOT); intros [= <- <-]; reflexivity.
  Qed.

  Lemma num_exponent_e2 s2 l a c2 sw : num_exponent s2 l = (a, c2, sw) ->
    num_exponent s2 (l ++ X) = (a, c2 ++ X, sw).
  Proof.
    destruct l as [|e l]; cbn [app]; unfold num_exponent.
    - rewrite (o_neq 101), (o_neq 69) by reflexivity. intros [= <- <- <-]. reflexivity.
    - destruct ((e =? 101) || (e =? 69)); [|intros [= <- <- <-]; reflexivity].
      destruct l as [|sg l]; cbn [app].
      + (* "e" at the end: the sign of [X], if any, is not followed by a digit *)
        unfold num_sign at 1. intros [= <- <- <-].
        unfold num_sign. rewrite (o_neq cPLUS) by reflexivity. cbn [orb].
        destruct (o =? cMINUS) eqn:Em.
        * apply N.eqb_eq in Em. specialize (Hmm Em). destruct X1 as [|x2 X2]; [reflexivity|].
          cbn [peek_is] in Hmm. apply N.eqb_eq in Hmm. subst x2. reflexivity.
        * rewrite o_digit. reflexivity.
      + unfold num_sign. destruct ((sg =? cPLUS) || (sg =? cMINUS)).
        * destruct l as [|dg l]; cbn [app].
          -- rewrite o_digit. intros [= <- <- <-]. reflexivity.
          -- destruct (is_digit dg); [|intros [= <- <- <-]; reflexivity].
             destruct (take_while is_digit (dg :: l)) as [ds rc] eqn:Ed.
             pose proof (tw_e2 _ (dg :: l) o_digit _ _ Ed) as Ed'. cbn [app] in Ed'. rewrite Ed'.
             intros [= <- <- <-]. reflexivity.
        * destruct (is_digit sg); [|intros [= <- <- <-]; reflexivity].
          destruct (take_while is_digit (sg :: l)) as [ds rc] eqn:Ed.
          pose proof (tw_e2 _ (sg :: l) o_digit _ _ Ed) as Ed'. cbn [app] in Ed'. rewrite Ed'.
          intros [= <- <- <-]. reflexivity.
  Qed.

  Lemma num_tail_e2 s3 sw l : E2 (num_tail d s3 l sw) (num_tail d s3 (l ++ X) sw).
  Proof.
    intros a c2. unfold num_tail.
    assert (Hn : forall a c2,
      (match l with
       | ch :: r4 => if ch =? 76 then (TNumber s3 true, r4) else (TNumber s3 false, l)
       | [] => (TNumber s3 false, l) end) = (a, c2) ->
      (match l ++ X with
       | ch :: r4 => if ch =? 76 then (TNumber s3 true, r4) else (TNumber s3 false, l ++ X)
       | [] => (TNumber s3 false, l ++ X) end) = (a, c2 ++ X)).
    { clear a c2. intros a c2. destruct l as [|x l']; cbn [app].
      - rewrite (o_neq 76) by reflexivity. intros [= <- <-]. reflexivity.
      - destruct (x =? 76); intros [= <- <-]; reflexivity. }
    destruct (d_numeric_prefix d && negb sw); [|apply Hn].
    destruct (take_while (d_ident_part d) l) as [w r4] eqn:E.
    rewrite (tw_e2 _ l Hip _ _ E).
    destruct w; [apply Hn|]. intros [= <- <-]. reflexivity.
  Qed.

  Lemma number_e2 l : E2 (number d l) (number d (l ++ X)).
  Proof.
    intros a c2. unfold number.
    destruct (take_while is_digit l) as [s0 r0] eqn:E0.
    rewrite (tw_e2 _ l o_digit _ _ E0).
    assert (Hh : match num_hex_prefix s0 r0 with
                 | Some rx => num_hex_prefix s0 (r0 ++ X) = Some (rx ++ X)
                 | None => num_hex_prefix s0 (r0 ++ X) = None end).
    { unfold num_hex_prefix. destruct (str_eqb s0 [48]); [|reflexivity].
      destruct r0 as [|x r0]; cbn [app].
      - rewrite (o_neq 120) by reflexivity. reflexivity.
      - destruct (x =? 120); reflexivity. }
    destruct (num_hex_prefix s0 r0) as [rx|].
    { rewrite Hh. destruct (take_while is_hexdigit rx) as [h r'] eqn:Eh.
      rewrite (tw_e2 _ rx o_hexdigit _ _ Eh). intros [= <- <-]. reflexivity. }
    rewrite Hh.
    destruct (num_period s0 r0) as [s1 r1] eqn:E1. rewrite (num_period_e2 s0 r0 _ _ E1).
    destruct (take_while is_digit r1) as [s2d r2] eqn:E2. rewrite (tw_e2 _ r1 o_digit _ _ E2).
    cbv zeta. destruct (str_eqb (s1 ++ s2d) [cDOT]).
    { intros [= <- <-]. reflexivity. }
    destruct (num_exponent (s1 ++ s2d) r2) as [[s3 r3] sw] eqn:E3.
    rewrite (num_exponent_e2 _ r2 _ _ _ E3). apply num_tail_e2.
  Qed.

  (** quoted strings *)
  Lemma qs_e2 q many bs : (o =? q) = false -> forall l ncq,
    E2o (qs_loop unesc q many bs ncq l) (qs_loop unesc q many bs ncq (l ++ X)).
  Proof.
    intros Hq l. induction l as [l IH] using len_ind. intros ncq s c2.
    destruct l as [|ch l]; [discriminate|]. cbn [app qs_loop].
    destruct ((ch =? q) && (if many then ncq + 1 =? 3 else true)).
    { destruct many.
      - intros [= <- <-]. reflexivity.
      - destruct l as [|x l]; cbn [app].
        + rewrite Hq. intros [= <- <-]. reflexivity.
        + destruct (x =? q).
          * destruct (qs_loop unesc q false bs ncq l) as [[s' r']|] eqn:E; [|discriminate].
            intros [= <- <-]. rewrite (IH l ltac:(cbn [length]; lia) _ _ _ E). reflexivity.
          * intros [= <- <-]. reflexivity. }
    destruct ((ch =? cBSL) && bs).
    { destruct l as [|nx l]; cbn [app]; [discriminate|].
      destruct (qs_loop unesc q many bs 0 l) as [[s' r']|] eqn:E; [|discriminate].
      intros [= <- <-]. rewrite (IH l ltac:(cbn [length]; lia) _ _ _ E). reflexivity. }
    destruct (qs_loop unesc q many bs _ l) as [[s' r']|] eqn:E; [|discriminate].
    intros [= <- <-]. rewrite (IH l ltac:(cbn [length]; lia) _ _ _ E). reflexivity.
  Qed.

  Lemma single_quoted_e2 q bs l : (o =? q) = false ->
    E2r (single_quoted unesc q bs l) (single_quoted unesc q bs (l ++ X)).
  Proof.
    intros Hq s c2. destruct l as [|x l]; cbn [app]; [discriminate|].
    unfold single_quoted. destruct (x =? q); [|discriminate].
    destruct (qs_loop unesc q false bs 0 l) as [[s' r']|] eqn:E; [|discriminate].
    intros [= <- <-]. rewrite (qs_e2 q false bs Hq l _ _ _ E). reflexivity.
  Qed.

  Lemma single_or_triple_e2 q bs k1 k3 l : (o =? q) = false ->
    E2r (single_or_triple unesc q bs k1 k3 l) (single_or_triple unesc q bs k1 k3 (l ++ X)).
  Proof.
    intros Hq t c2. destruct l as [|x1 l]; cbn [app]; [discriminate|].
    unfold single_or_triple. destruct (x1 =? q); [|discriminate].
    destruct l as [|x2 l]; cbn [app].
    { cbn [qs_loop]. discriminate. }
    destruct (x2 =? q).
    - destruct l as [|x3 l]; cbn [app].
      + rewrite Hq. intros [= <- <-]. reflexivity.
      + destruct (x3 =? q).
        * destruct (qs_loop unesc q true bs 0 l) as [[s' r']|] eqn:E; [|discriminate].
          intros [= <- <-]. rewrite (qs_e2 q true bs Hq l _ _ _ E). reflexivity.
        * intros [= <- <-]. reflexivity.
    - destruct (qs_loop unesc q false bs 0 (x2 :: l)) as [[s' r']|] eqn:E; [|discriminate].
      intros [= <- <-]. pose proof (qs_e2 q false bs Hq (x2 :: l) _ _ _ E) as E'. cbn [app] in E'.
      rewrite E'. reflexivity.
  Qed.

  Lemma quoted_ident_e2 qe : (o =? qe) = false -> forall l,
    E2o (quoted_ident unesc qe l) (quoted_ident unesc qe (l ++ X)).
  Proof.
    intros Hq l. induction l as [l IH] using len_ind. intros s c2.
    destruct l as [|ch l]; [discriminate|]. cbn [app quoted_ident]. destruct (ch =? qe).
    - destruct l as [|x l]; cbn [app].
      + rewrite Hq. intros [= <- <-]. reflexivity.
      + destruct (x =? qe).
        * destruct (quoted_ident unesc qe l) as [[s' r']|] eqn:E; [|discriminate].
          intros [= <- <-]. rewrite (IH l ltac:(cbn [length]; lia) _ _ E). reflexivity.
        * intros [= <- <-]. reflexivity.
    - destruct (quoted_ident unesc qe l) as [[s' r']|] eqn:E; [|discriminate].
      intros [= <- <-]. rewrite (IH l ltac:(cbn [length]; lia) _ _ E). reflexivity.
  Qed.

  (** E'..' *)
  Lemma take_exact_e2 k : forall l, E2o (take_exact k l) (take_exact k (l ++ X)).
  Proof.
    induction k as [|k IH]; intros l a c2; cbn [take_exact].
    - intros [= <- <-]. reflexivity.
    - destruct l as [|x l]; cbn [app]; [discriminate|].
      destruct (take_exact k l) as [[a' b']|] eqn:E; [|discriminate].
      intros [= <- <-]. rewrite (IH l _ _ E). reflexivity.
  Qed.

  Lemma take_upto_e2 k p : p o = false -> forall l, E2 (take_upto k p l) (take_upto k p (l ++ X)).
  Proof.
    intros Hp. induction k as [|k IH]; intros l a c2.
    - cbn [take_upto]. intros [= <- <-]. reflexivity.
    - destruct l as [|x l]; cbn [app take_upto].
      + rewrite Hp. intros [= <- <-]. reflexivity.
      + destruct (p x).
        * destruct (take_upto k p l) as [a1 r1] eqn:E. rewrite (IH l _ _ E).
          intros [= <- <-]. reflexivity.
        * intros [= <- <-]. reflexivity.
  Qed.

  Lemma unescape_unicode_e2 k l : E2o (unescape_unicode k l) (unescape_unicode k (l ++ X)).
  Proof.
    intros n c2. unfold unescape_unicode.
    destruct (take_exact k l) as [[s r]|] eqn:E; [|discriminate].
    rewrite (take_exact_e2 k l _ _ E).
    destruct (from_str_radix 16 is_hexdigit s) as [v|]; [|discriminate].
    destruct (valid_scalar v); [|discriminate]. intros [= <- <-]. reflexivity.
  Qed.

  Lemma esc_one_e2 l : E2o (esc_one l) (esc_one (l ++ X)).
  Proof.
    intros n c2. destruct l as [|x l]; cbn [app]; [discriminate|].
    unfold esc_one.
    repeat match goal with |- (if ?b then _ else _) = _ -> _ => destruct b end;
      try (intros [= <- <-]; reflexivity).
    - apply unescape_unicode_e2.
    - apply unescape_unicode_e2.
    - destruct (take_upto 2 is_hexdigit l) as [s r'] eqn:E.
      rewrite (take_upto_e2 2 _ o_hexdigit l _ _ E).
      destruct s as [|s0 s].
      + intros [= <- <-]. reflexivity.
      + destruct (byte_to_char 16 is_hexdigit (s0 :: s)); [|discriminate].
        intros [= <- <-]. reflexivity.
    - destruct (take_upto 2 is_octal l) as [s r'] eqn:E.
      rewrite (take_upto_e2 2 _ o_octal l _ _ E).
      destruct (byte_to_char 8 is_octal (x :: s)); [|discriminate].
      intros [= <- <-]. reflexivity.
  Qed.

  Lemma esc_loop_e2 : forall f l f' s c2,
    esc_loop f l = Some (s, c2) -> (length (l ++ X) < f')%nat ->
    esc_loop f' (l ++ X) = Some (s, c2 ++ X).
  Proof.
    induction f as [|f IH]; intros l f' s c2; [discriminate|].
    intros H Hf. destruct f' as [|f']; [lia|]. revert H.
    destruct l as [|x l]; cbn [app]; [discriminate|].
    cbn [esc_loop]. cbn [app length] in Hf. destruct (x =? cSQ).
    { destruct l as [|y l]; cbn [app].
      - rewrite (o_neq cSQ) by reflexivity. intros [= <- <-]. reflexivity.
      - destruct (y =? cSQ).
        + destruct (esc_loop f l) as [[s' r']|] eqn:E; [|discriminate].
          intros [= <- <-]. rewrite (IH l f' _ _ E); [reflexivity|cbn [app length] in Hf; lia].
        + intros [= <- <-]. reflexivity. }
    destruct (negb (x =? cBSL)).
    { destruct (esc_loop f l) as [[s' r']|] eqn:E; [|discriminate].
      intros [= <- <-]. rewrite (IH l f' _ _ E); [reflexivity|lia]. }
    destruct (esc_one l) as [[n r1]|] eqn:E1; [|discriminate].
    rewrite (esc_one_e2 l _ _ E1).
    destruct (n =? 0); [discriminate|].
    destruct (esc_loop f r1) as [[s' r']|] eqn:E; [|discriminate].
    intros [= <- <-].
    pose proof (SSuffix_length _ _ (esc_one_suffix _ _ _ E1)) as S1.
    rewrite (IH r1 f' _ _ E); [reflexivity|]. rewrite app_length in *. lia.
  Qed.

  (** U&'..' *)
  Lemma hex_digits_e2 k : forall acc l, E2r (hex_digits k acc l) (hex_digits k acc (l ++ X)).
  Proof.
    induction k as [|k IH]; intros acc l n c2; cbn [hex_digits].
    - destruct (valid_scalar acc); [|discriminate]. intros [= <- <-]. reflexivity.
    - destruct l as [|x l]; cbn [app]; [discriminate|].
      destruct (is_hexdigit x); [|discriminate]. apply IH.
  Qed.

  Lemma uni_loop_e2 : forall f l f' s c2,
    uni_loop f l = Ok (s, c2) -> (length (l ++ X) < f')%nat ->
    uni_loop f' (l ++ X) = Ok (s, c2 ++ X).
  Proof.
    induction f as [|f IH]; intros l f' s c2; [discriminate|].
    intros H Hf. destruct f' as [|f']; [lia|]. revert H.
    assert (Hrec : forall cc x s c2, (length (cc ++ X) < f')%nat ->
              ucons f x cc = Ok (s, c2) -> ucons f' x (cc ++ X) = Ok (s, c2 ++ X)).
    { intros cc x s0 c0 Hl. unfold ucons.
      destruct (uni_loop f cc) as [[s' r']|e a|w] eqn:E; try discriminate.
      intros [= <- <-]. rewrite (IH cc f' _ _ E Hl). reflexivity. }
    assert (Hstep : forall k cc s c2, (length (cc ++ X) < f')%nat ->
              ustep f (hex_digits k 0 cc) = Ok (s, c2) ->
              ustep f' (hex_digits k 0 (cc ++ X)) = Ok (s, c2 ++ X)).
    { intros k cc s0 c0 Hl. unfold ustep.
      destruct (hex_digits k 0 cc) as [[n r1]|e a|w] eqn:Eh; try discriminate.
      rewrite (hex_digits_e2 k 0 cc _ _ Eh).
      destruct (uni_loop f r1) as [[s' r']|e a|w] eqn:Eu; try discriminate.
      intros [= <- <-]. pose proof (Suffix_length _ _ (hex_digits_suffix _ _ _ _ _ Eh)) as S1.
      rewrite (IH r1 f' _ _ Eu); [reflexivity|]. rewrite app_length in *. lia. }
    destruct l as [|x l]; cbn [app]; [discriminate|].
    rewrite !uni_loop_S. cbn [app length] in Hf. destruct (x =? cSQ).
    { destruct l as [|y l]; cbn [app].
      - rewrite (o_neq cSQ) by reflexivity. intros [= <- <-]. reflexivity.
      - destruct (y =? cSQ).
        + apply Hrec. cbn [app length] in Hf. lia.
        + intros [= <- <-]. reflexivity. }
    destruct (x =? cBSL).
    { destruct l as [|y l]; cbn [app].
      - cbn. discriminate.
      - cbn [app length] in Hf. destruct (y =? cBSL); [apply Hrec; lia|].
        destruct (y =? cPLUS); [apply Hstep; lia|]. apply (Hstep 4%nat (y :: l)). cbn [app length]. lia. }
    apply Hrec. lia.
  Qed.

  (** dollar-quoted strings *)
  Lemma dq_loop_e2 : forall l prev, E2o (dq_loop prev l) (dq_loop prev (l ++ X)).
  Proof.
    induction l as [|ch l IH]; intros prev s c2; cbn [app]; [discriminate|].
    cbn [dq_loop].
    assert (Hrec : forall x,
      match dq_loop (Some ch) l with Some (s, r') => Some (x ++ s, r') | None => None end
        = Some (s, c2) ->
      match dq_loop (Some ch) (l ++ X) with Some (s, r') => Some (x ++ s, r') | None => None end
        = Some (s, c2 ++ X)).
    { intro x. destruct (dq_loop (Some ch) l) as [[s' r']|] eqn:E; [|discriminate].
      intros [= <- <-]. rewrite (IH _ _ _ E). reflexivity. }
    destruct prev as [p|].
    + destruct (p =? cDOLLAR).
      * destruct (ch =? cDOLLAR).
        -- intros [= <- <-]. reflexivity.
        -- apply (Hrec [cDOLLAR; ch]).
      * destruct (negb (ch =? cDOLLAR)); [apply (Hrec [ch])|apply IH].
    + destruct (negb (ch =? cDOLLAR)); [apply (Hrec [ch])|apply IH].
  Qed.

  Lemma match_tag_e2 : forall tag l,
    match match_tag tag l with
    | TagEq r => match_tag tag (l ++ X) = TagEq (r ++ X)
    | TagNe ms r => match_tag tag (l ++ X) = TagNe ms (r ++ X)
    | TagEof => True
    end.
  Proof.
    induction tag as [|t tag IH]; intros l.
    - cbn [match_tag]. reflexivity.
    - destruct l as [|x l]; cbn [app match_tag]; [exact I|].
      destruct (x =? t); [|reflexivity].
      specialize (IH l). destruct (match_tag tag l) as [r2|ms r2|]; [| |exact I]; rewrite IH; reflexivity.
  Qed.

  Lemma tagged_loop_e2 tag : forall f l f' s c2,
    tagged_loop f tag l = Ok (s, c2) -> (length (l ++ X) < f')%nat ->
    tagged_loop f' tag (l ++ X) = Ok (s, c2 ++ X).
  Proof.
    induction f as [|f IH]; intros l f' s c2; [discriminate|].
    intros H Hf. destruct f' as [|f']; [lia|]. revert H. cbn [tagged_loop].
    destruct (take_while (fun ch => negb (ch =? cDOLLAR)) l) as [pre r] eqn:Et.
    destruct r as [|dl r1]; [discriminate|].
    rewrite (tw_ext_ne _ X l _ _ Et) by discriminate. cbn [app].
    pose proof (Suffix_length _ _ (take_while_suffix _ _ _ _ Et)) as Hl1. cbn [length] in Hl1.
    assert (Hcont : forall ms cc s c2, (length cc <= length r1)%nat ->
       match tagged_loop f tag cc with
       | Ok (s, r') => Ok (pre ++ cDOLLAR :: ms ++ s, r') | Err e a => Err e a | Panic w => Panic w end
         = Ok (s, c2) ->
       match tagged_loop f' tag (cc ++ X) with
       | Ok (s, r') => Ok (pre ++ cDOLLAR :: ms ++ s, r') | Err e a => Err e a | Panic w => Panic w end
         = Ok (s, c2 ++ X)).
    { intros ms cc s0 c0 Hl. destruct (tagged_loop f tag cc) as [[s' r']|e a|w] eqn:E; try discriminate.
      intros [= <- <-]. rewrite (IH cc f' _ _ E); [reflexivity|].
      rewrite !app_length in *. cbn [length] in *. lia. }
    pose proof (match_tag_e2 tag r1) as Hm. pose proof (match_tag_suffix tag r1) as Hs.
    destruct (match_tag tag r1) as [r2|ms r2|] eqn:Em; [| |discriminate].
    - rewrite Hm. apply Suffix_length in Hs.
      destruct r2 as [|y r3]; cbn [app].
      + (* the tag ended the input: the old run failed *)
        intro H. exfalso. revert H. destruct f as [|f0]; [discriminate|]. cbn [tagged_loop take_while]. discriminate.
      + destruct (y =? cDOLLAR).
        * intros [= <- <-]. reflexivity.
        * apply (Hcont tag (y :: r3)). exact Hs.
    - rewrite Hm. apply Hcont. apply SSuffix_length in Hs. lia.
  Qed.

  Lemma dollar_value_e2 x l : E2r (dollar_value u (x :: l)) (dollar_value u (x :: l ++ X)).
  Proof.
    intros t c2. unfold dollar_value. cbn [tl]. destruct l as [|y l]; cbn [app].
    { rewrite (o_neq cDOLLAR) by reflexivity.
      cbn [take_while]. rewrite o_alnum_us. rewrite (o_neq cDOLLAR) by reflexivity.
      intros [= <- <-]. reflexivity. }
    destruct (y =? cDOLLAR).
    - destruct (dq_loop None l) as [[s r]|] eqn:E; [|discriminate].
      intros [= <- <-]. rewrite (dq_loop_e2 l None _ _ E). reflexivity.
    - destruct (take_while _ (y :: l)) as [value l3] eqn:E.
      pose proof (tw_e2 _ (y :: l) o_alnum_us _ _ E) as E'. cbn [app] in E'. rewrite E'.
      destruct l3 as [|z l3]; cbn [app].
      + rewrite (o_neq cDOLLAR) by reflexivity. intros [= <- <-]. reflexivity.
      + destruct (z =? cDOLLAR).
        * destruct (tagged_loop (S (length l3)) value l3) as [[s r]|e a|w] eqn:Et; try discriminate.
          intros [= <- <-].
          rewrite (tagged_loop_e2 value _ l3 (S (length (l3 ++ X))) _ _ Et) by lia. reflexivity.
        * intros [= <- <-]. reflexivity.
  Qed.

  (** * The dispatcher *)
  Definition LA2 (x y : res (option (tok * str))) : Prop :=
    forall t c2, x = Ok (Some (t, c2)) -> (c2 = [] -> closed_ws t = true) ->
      y = Ok (Some (t, c2 ++ X)).

  Lemma LA2_ret t l l' : l' = l ++ X -> LA2 (ret t l) (ret t l').
  Proof. intros -> t0 c2. unfold ret. intros [= <- <-] _. reflexivity. Qed.
  Lemma LA2_retp (x y : tok * str) : E2 x y -> LA2 (retp x) (retp y).
  Proof. destruct x as [t r]. intros H t0 c2 [= <- <-] _. unfold retp. rewrite (H _ _ eq_refl). reflexivity. Qed.

  Lemma LA2_word ch l l' : l' = l ++ X -> LA2 (word_from d ch l) (word_from d ch l').
  Proof. intros -> t0 c2. unfold word_from.
    destruct (tokenize_word d [ch] l) as [w r] eqn:E. rewrite (tokenize_word_e2 [ch] l _ _ E).
    unfold ret. intros [= <- <-] _. reflexivity. Qed.

  Lemma LA2_sot q bs k1 k3 l l' : l' = l ++ X -> (o =? q) = false ->
    LA2 (lift (single_or_triple unesc q bs k1 k3 l) (fun x => retp x))
        (lift (single_or_triple unesc q bs k1 k3 l') (fun x => retp x)).
  Proof. intros -> Hq t0 c2. unfold lift, retp.
    destruct (single_or_triple unesc q bs k1 k3 l) as [[t r]|e a|w] eqn:E; try discriminate.
    intros [= <- <-] _. rewrite (single_or_triple_e2 q bs k1 k3 l Hq _ _ E). reflexivity. Qed.

  Lemma LA2_sq q bs k l l' : l' = l ++ X -> (o =? q) = false ->
    LA2 (lift (single_quoted unesc q bs l) (fun '(s, r') => ret (TStr k s) r'))
        (lift (single_quoted unesc q bs l') (fun '(s, r') => ret (TStr k s) r')).
  Proof. intros -> Hq t0 c2. unfold lift, ret.
    destruct (single_quoted unesc q bs l) as [[t r]|e a|w] eqn:E; try discriminate.
    intros [= <- <-] _. rewrite (single_quoted_e2 q bs l Hq _ _ E). reflexivity. Qed.

  Lemma LA2_esc f f' a a' l l' : l' = l ++ X -> (length l' < f')%nat ->
    LA2 (match esc_loop f l with
         | Some (s, r') => ret (TStr KEscaped s) r' | None => Err EUnterminatedEncoded a end)
        (match esc_loop f' l' with
         | Some (s, r') => ret (TStr KEscaped s) r' | None => Err EUnterminatedEncoded a' end).
  Proof. intros -> Hf t0 c2. unfold ret.
    destruct (esc_loop f l) as [[s r]|] eqn:E; try discriminate.
    intros [= <- <-] _. rewrite (esc_loop_e2 f l f' _ _ E Hf). reflexivity. Qed.

  Lemma LA2_uni f f' l l' : l' = l ++ X -> (length l' < f')%nat ->
    LA2 (lift (uni_loop f l) (fun '(s, r') => ret (TStr KUnicode s) r'))
        (lift (uni_loop f' l') (fun '(s, r') => ret (TStr KUnicode s) r')).
  Proof. intros -> Hf t0 c2. unfold lift, ret.
    destruct (uni_loop f l) as [[s r]|e a|w] eqn:E; try discriminate.
    intros [= <- <-] _. rewrite (uni_loop_e2 f l f' _ _ E Hf). reflexivity. Qed.

  Lemma meq_o ch qe : matching_end_quote ch = Some qe -> (o =? qe) = false.
  Proof. unfold matching_end_quote.
    repeat match goal with |- (if ?b then _ else _) = _ -> _ => destruct b end;
      try discriminate; intros [= <-]; apply o_neq; reflexivity. Qed.

  Lemma LA2_delim ch a a' l l' : l' = l ++ X ->
    LA2 (match matching_end_quote ch with
         | Some qe => match quoted_ident unesc qe l with
                      | Some (s, r') => ret (TWord s (Some ch)) r'
                      | None => Err (EExpectedClose qe) a end
         | None => Panic 1 end)
        (match matching_end_quote ch with
         | Some qe => match quoted_ident unesc qe l' with
                      | Some (s, r') => ret (TWord s (Some ch)) r'
                      | None => Err (EExpectedClose qe) a' end
         | None => Panic 1 end).
  Proof. intros -> t0 c2. unfold ret.
    destruct (matching_end_quote ch) as [qe|] eqn:Eq; [|discriminate].
    destruct (quoted_ident unesc qe l) as [[s r]|] eqn:E; try discriminate.
    intros [= <- <-] _. rewrite (quoted_ident_e2 qe (meq_o _ _ Eq) l _ _ E). reflexivity. Qed.

  Lemma LA2_number l l' : l' = l ++ X -> LA2 (retp (number d l)) (retp (number d l')).
  Proof. intros ->. apply LA2_retp, number_e2. Qed.
  Lemma LA2_binop p f l l' : l' = l ++ X -> op_ok l ->
    LA2 (retp (start_binop d p f l)) (retp (start_binop d p f l')).
  Proof. intros -> Hop. apply LA2_retp, start_binop_e2, Hop. Qed.
  Lemma LA2_consume p f x l l' : l' = l ++ X -> op_ok l ->
    LA2 (retp (consume_for_binop d p f (x :: l))) (retp (consume_for_binop d p f (x :: l'))).
  Proof. intros -> Hop. apply LA2_retp. unfold consume_for_binop. cbn [tl]. apply start_binop_e2, Hop. Qed.
  Lemma LA2_ident chs x l l' : l' = l ++ X ->
    LA2 (retp (ident_or_keyword d chs (x :: l))) (retp (ident_or_keyword d chs (x :: l'))).
  Proof. intros ->. apply LA2_retp, ident_e2. Qed.

  Lemma LA2_line p l l' : l' = l ++ X -> LA2 (line_comment_tok p l) (line_comment_tok p l').
  Proof. intros -> t0 c2. unfold line_comment_tok, lift, ret.
    destruct (line_comment l) as [[cm r]|e a|w] eqn:E; try discriminate.
    intros [= <- <-] Hcl. cbn [closed_ws] in Hcl.
    rewrite (line_comment_ext X _ _ _ E Hcl). reflexivity. Qed.

  Lemma LA2_ml l l' : l' = l ++ X ->
    LA2 (lift (multiline_comment l) (fun x => retp x)) (lift (multiline_comment l') (fun x => retp x)).
  Proof. intros -> t0 c2. unfold multiline_comment, lift, retp.
    destruct (ml_loop cSP 1 l) as [[s r]|] eqn:E; [|discriminate].
    intros [= <- <-] _. rewrite (ml_loop_ext X _ _ _ _ _ E). reflexivity. Qed.

  Lemma LA2_dollar x l l' : l' = l ++ X ->
    LA2 (lift (dollar_value u (x :: l)) (fun y => retp y)) (lift (dollar_value u (x :: l')) (fun y => retp y)).
  Proof. intros -> t0 c2. unfold lift, retp.
    destruct (dollar_value u (x :: l)) as [[t r]|e a|w] eqn:E; try discriminate.
    intros [= <- <-] _. rewrite (dollar_value_e2 x l _ _ E). reflexivity. Qed.

  Lemma LA2_qm l l' : l' = l ++ X ->
    LA2 (let '(s, r') := take_while (u_numeric u) l in ret (TPlaceholder (cQM :: s)) r')
        (let '(s, r') := take_while (u_numeric u) l' in ret (TPlaceholder (cQM :: s)) r').
  Proof. intros -> t0 c2.
    destruct (take_while (u_numeric u) l) as [s r] eqn:E. rewrite (tw_e2 _ l Hnum _ _ E).
    unfold ret. intros [= <- <-] _. reflexivity. Qed.

  (** [Hco : d_custom_op d o = false] or [Hck : d_custom_op d (last .. 0) = false] in the context *)
  Ltac solve_op :=
    first [ left; assumption | right; split; [discriminate|assumption] ].
  Ltac leaf2 :=
    first
      [ apply LA2_ret; reflexivity
      | apply LA2_word; reflexivity
      | apply LA2_sq; [reflexivity|apply o_neq; reflexivity]
      | apply LA2_sot; [reflexivity|apply o_neq; reflexivity]
      | apply LA2_esc; [reflexivity|cbn [length]; unfold lt; repeat first [apply le_n | apply le_S]]
      | apply LA2_uni; [reflexivity|cbn [length]; unfold lt; repeat first [apply le_n | apply le_S]]
      | apply LA2_delim; reflexivity
      | apply LA2_number; reflexivity
      | apply LA2_binop; [reflexivity|solve_op]
      | apply LA2_consume; [reflexivity|solve_op]
      | apply LA2_ident; reflexivity
      | apply LA2_line; reflexivity
      | apply LA2_ml; reflexivity
      | apply LA2_dollar; reflexivity
      | apply LA2_qm; reflexivity ].
  Ltac go2 :=
    first
      [ solve [leaf2]
      | match goal with |- LA2 ?x _ =>
          match x with context [if ?b then _ else _] => destruct b eqn:?; go2 end end ].

  (** the constants the dispatcher compares a peeked character with, other than '-' and '/' *)
  Ltac opeeks :=
    rewrite ?(o_neq cLF), ?(o_neq cSQ), ?(o_neq cDQ), ?(o_neq cAMP), ?(o_neq cGT), ?(o_neq cSTAR),
            ?(o_neq cPIPE), ?(o_neq cEQ), ?(o_neq cBANG), ?(o_neq cTILDE), ?(o_neq cLT), ?(o_neq cAT),
            ?(o_neq cCOLON), ?(o_neq cQM) by reflexivity.

  Lemma fuse_last_split k : fuse_lastb k = false ->
    (k =? cMINUS) = false /\ (k =? cSLASH) = false /\ (k =? cPIPE) = false /\
    (k =? cHASH) = false /\ (k =? cAT) = false /\ (k =? cPCT) = false.
  Proof. unfold fuse_lastb. intro H. repeat (apply orb_false_iff in H; destruct H as [H ?]). auto 10. Qed.
  Lemma starter_split k : starterb k = false ->
    ((k =? cMINUS) = false /\ (k =? cSLASH) = false /\ (k =? cPIPE) = false /\
     (k =? cHASH) = false /\ (k =? cAT) = false /\ (k =? cPCT) = false) /\
    ((k =? cGT) = false /\ (k =? cEQ) = false /\ (k =? cLT) = false /\
     (k =? cAMP) = false /\ (k =? cTILDE) = false /\ (k =? cSTAR) = false).
  Proof. unfold starterb. intro H. repeat (apply orb_false_iff in H; destruct H as [H ?]). auto 20. Qed.

  Ltac prep Hp :=
    unfold next_token; cbn [peek_is tl]; rewrite <- ?Hp.
  Ltac fin := opeeks; rewrite ?andb_false_r; cbn [andb orb negb]; go2.

  Theorem next_token_adj ch c :
    adj_lastb d o (last (ch :: c) 0) = true ->
    d_delim_start d ch && proper_inside_quotes d u (ch :: c)
      = d_delim_start d ch && proper_inside_quotes d u (ch :: c ++ X) ->
    LA2 (next (ch :: c)) (next (ch :: c ++ X)).
  Proof.
    unfold adj_lastb. intros [Hnf Hop]%andb_true_iff Hp. apply negb_true_iff in Hnf.
    apply orb_true_iff in Hop. destruct Hop as [Hco%negb_true_iff | [Hst%negb_true_iff Hck%negb_true_iff]%andb_true_iff].
    - (* [o] is not a custom-operator character *)
      destruct c as [|x [|y [|z c]]]; cbn [app] in *.
      + cbn [last] in Hnf. destruct (fuse_last_split _ Hnf) as (H1 & H2 & H3 & H4 & H5 & H6).
        prep Hp; rewrite ?H1, ?H2, ?H3, ?H4, ?H5, ?H6, ?andb_false_l; fin.
      + cbn [last] in Hnf. destruct (fuse_last_split _ Hnf) as (H1 & H2 & H3 & H4 & H5 & H6).
        prep Hp; rewrite ?H1, ?H2, ?H3, ?H4, ?H5, ?H6, ?andb_false_l; fin.
      + cbn [last] in Hnf. destruct (fuse_last_split _ Hnf) as (H1 & H2 & H3 & H4 & H5 & H6).
        prep Hp; rewrite ?H1, ?H2, ?H3, ?H4, ?H5, ?H6, ?andb_false_l; fin.
      + clear Hnf. prep Hp; go2.
    - (* the last character is neither an operator starter nor a custom-operator character *)
      clear Hnf. destruct c as [|x [|y [|z c]]]; cbn [app] in *.
      + cbn [last] in Hst, Hck.
        destruct (starter_split _ Hst) as ((H1 & H2 & H3 & H4 & H5 & H6) & (H7 & H8 & H9 & H10 & H11 & H12)).
        prep Hp; rewrite ?H1, ?H2, ?H3, ?H4, ?H5, ?H6, ?H7, ?H8, ?H9, ?H10, ?H11, ?H12, ?andb_false_l; fin.
      + cbn [last] in Hst, Hck.
        destruct (starter_split _ Hst) as ((H1 & H2 & H3 & H4 & H5 & H6) & (H7 & H8 & H9 & H10 & H11 & H12)).
        prep Hp; rewrite ?H1, ?H2, ?H3, ?H4, ?H5, ?H6, ?H7, ?H8, ?H9, ?H10, ?H11, ?H12, ?andb_false_l; fin.
      + cbn [last] in Hst, Hck.
        destruct (starter_split _ Hst) as ((H1 & H2 & H3 & H4 & H5 & H6) & (H7 & H8 & H9 & H10 & H11 & H12)).
        prep Hp; rewrite ?H1, ?H2, ?H3, ?H4, ?H5, ?H6, ?H7, ?H8, ?H9, ?H10, ?H11, ?H12, ?andb_false_l; fin.
      + clear Hst. change (d_custom_op d (last (z :: c) 0) = false) in Hck. prep Hp; go2.
  Qed.
End Adj.

(** * Token streams *)
Lemma last_app_ne {A} (l1 l2 : list A) dflt : l2 <> [] -> last (l1 ++ l2) dflt = last l2 dflt.
Proof.
  intro H. induction l1 as [|x l1 IH]; [reflexivity|]. cbn [app].
  destruct (l1 ++ l2) as [|y r] eqn:E.
  - apply app_eq_nil in E as [_ E]. congruence.
  - cbn [last]. exact IH.
Qed.

Lemma opener_tailb_app g rest : opener_tailb g = true -> opener_tailb (g ++ rest) = true /\ hd 0 (g ++ rest) = hd 0 g.
Proof.
  destruct g as [|o g1]; [discriminate|]. cbn [app opener_tailb hd]. intro H. split; [|reflexivity].
  destruct (o =? cMINUS) eqn:Em; [|exact H]. apply N.eqb_eq in Em. subst o. cbn [andb] in *.
  destruct g1 as [|x g2]; [cbn in H; discriminate H|]. exact H.
Qed.

Section AdjStream.
  Variable d : dialect.
  Variable u : uni.
  Variable unesc : bool.
  Notation next := (next_token d u unesc).
  Notation Steps := (Steps d u unesc).
  Notation Run := (Run d u unesc).

  (** the tail [X] starts with a comment opener that does not fuse with a prefix ending in [k] *)
  Definition adj_tailb (k : N) (X : str) : bool :=
    opener_tailb X && opener_inertb d u (hd 0 X) && adj_lastb d (hd 0 X) k.

  (** the prefix [a], lexed in front of such a tail, gives the same tokens and stops at the tail *)
  Lemma steps_adj X : forall ts a,
    adj_tailb (last a 0) X = true -> probe_freeb d u a = true -> ~ ends_with_line ts ->
    Steps a ts [] -> Steps (a ++ X) ts X.
  Proof.
    induction ts as [|t ts IH]; intros a HX Hpf Hl HS.
    - inversion HS as [l0 E0 E1 E2|]; subst. constructor.
    - inversion HS as [|l0 t0 r ts0 e0 Hn HS1]; subst.
      destruct a as [|ch c]; [cbn in Hn; discriminate|].
      pose proof HX as HX0. unfold adj_tailb in HX0.
      apply andb_true_iff in HX0 as [HX0 Hadj]. apply andb_true_iff in HX0 as [Hot Hin].
      destruct X as [|o X1]; [discriminate Hot|]. cbn [hd] in *.
      assert (Ho : o = cMINUS \/ o = cSLASH \/ o = cHASH).
      { cbn [opener_tailb] in Hot. apply orb_true_iff in Hot as [Hot|Hot];
          [apply orb_true_iff in Hot as [Hot|Hot]|].
        - apply andb_true_iff in Hot as [Hot _]. apply N.eqb_eq in Hot. auto.
        - apply N.eqb_eq in Hot. auto.
        - apply N.eqb_eq in Hot. auto. }
      assert (Hmm : o = cMINUS -> peek_is X1 cMINUS = true).
      { intros ->. cbn [opener_tailb] in Hot. apply orb_true_iff in Hot as [Hot|Hot];
          [apply orb_true_iff in Hot as [Hot|Hot]|]; try discriminate Hot.
        apply andb_true_iff in Hot as [_ Hot]. exact Hot. }
      unfold opener_inertb in Hin.
      apply andb_true_iff in Hin as [Hin Hws]. apply andb_true_iff in Hin as [Hin Haln].
      apply andb_true_iff in Hin as [Hip Hnum]. apply negb_true_iff in Hip, Hnum, Haln, Hws.
      pose proof (probe_eq d u ch c [] (o :: X1) (probe_freeb_head d u _ Hpf)) as Hq. rewrite app_nil_r in Hq.
      pose proof (next_token_spec d u unesc (ch :: c)) as Hs. rewrite Hn in Hs. cbn in Hs.
      destruct Hs as (c1 & Hc1 & Ec1).
      assert (Hlast : r = [] -> ts = []).
      { intros ->. inversion HS1 as [l0 E0 E1 E2|l0 t0 r0 ts0 e0 Hn0 HS0]; subst; [reflexivity|].
        cbn in Hn0. discriminate. }
      assert (Hn' : next ((ch :: c) ++ o :: X1) = Ok (Some (t, r ++ o :: X1))).
      { cbn [app]. apply (next_token_adj d u unesc o X1 Ho Hmm Hip Hnum Haln Hws ch c Hadj Hq t r Hn).
        intros Er. rewrite (Hlast Er) in Hl. destruct t as [| | | | |[]| | |]; try reflexivity.
        exfalso. apply Hl. exists [], prefix, comment. reflexivity. }
      econstructor; [exact Hn'|].
      destruct r as [|y r']; [rewrite (Hlast eq_refl); constructor|].
      apply IH.
      + rewrite Ec1 in HX. rewrite last_app_ne in HX by discriminate. exact HX.
      + rewrite Ec1 in Hpf. exact (probe_freeb_app d u c1 _ Hpf).
      + intros (ts0 & p & cm & E). apply Hl. exists (t :: ts0), p, cm. rewrite E. reflexivity.
      + exact HS1.
  Qed.

  Hypothesis HN : blank_neutral d u.

  (** a gap is _adjacent-safe_ after [a]: it starts with a blank, or with an opener that does not
      fuse with the last character of [a] *)
  Definition adj_okb (a g : str) : bool := starts_blankb g || adj_tailb (last a 0) g.

  Lemma adj_tailb_app k g rest : adj_tailb k g = true -> adj_tailb k (g ++ rest) = true.
  Proof.
    unfold adj_tailb. intros [[H1 H2]%andb_true_iff H3]%andb_true_iff.
    destruct (opener_tailb_app g rest H1) as [H1' ->]. rewrite H1', H2, H3. reflexivity.
  Qed.

  Lemma prefix_then_gap_adj a g rest tsa :
    adj_okb a g = true -> layout_gap0 d u unesc g -> probe_freeb d u a = true ->
    ~ ends_with_line tsa -> Run a tsa ->
    exists tsa' g1, Steps (a ++ g ++ rest) tsa' (g1 ++ rest) /\ nows tsa' = nows tsa /\
                    layout_gap0 d u unesc g1.
  Proof.
    intros Hok Hg Hpf Hl Ha. unfold adj_okb in Hok. apply orb_true_iff in Hok as [Hsb|Hadj].
    - apply starts_blankb_spec in Hsb. exact (prefix_then_gap d u unesc HN a g rest tsa Hsb Hg Hpf Hl Ha).
    - exists tsa, g. split; [|split; [reflexivity|exact Hg]].
      apply steps_adj; auto. apply adj_tailb_app. exact Hadj.
  Qed.

  Theorem layout_gap_tokens_adj a g rest tsa tsr :
    adj_okb a g = true -> layout_gap0 d u unesc g -> probe_freeb d u a = true -> ~ ends_with_line tsa ->
    Run a tsa -> Run rest tsr ->
    exists ts, Run (a ++ g ++ rest) ts /\ nows ts = nows tsa ++ nows tsr.
  Proof.
    intros Hok Hg Hpf Hl Ha Hr.
    destruct (prefix_then_gap_adj a g rest tsa Hok Hg Hpf Hl Ha) as (tsa' & g1 & HS & Hn & Hg1).
    destruct (gap_prefix_bwd d u unesc g1 rest tsr Hg1 Hr) as (ts4 & H4 & Hn4).
    exists (tsa' ++ ts4). split; [exact (Steps_app _ _ _ _ _ _ _ _ HS H4)|].
    rewrite !nows_app. congruence.
  Qed.

  Theorem layout_gap_tokens_inv_adj a g rest tsa ts :
    adj_okb a g = true -> layout_gap0 d u unesc g -> probe_freeb d u a = true -> ~ ends_with_line tsa ->
    Run a tsa -> Run (a ++ g ++ rest) ts ->
    exists tsr, Run rest tsr /\ nows ts = nows tsa ++ nows tsr.
  Proof.
    intros Hok Hg Hpf Hl Ha HR.
    destruct (prefix_then_gap_adj a g rest tsa Hok Hg Hpf Hl Ha) as (tsa' & g1 & HS & Hn & Hg1).
    destruct (Steps_split _ _ _ _ _ _ HS _ HR) as (ts2 & -> & H2).
    destruct (gap_prefix_fwd d u unesc g1 rest ts2 Hg1 H2) as (tsr & Hr & Hnr).
    exists tsr. split; [exact Hr|]. rewrite nows_app. congruence.
  Qed.

  (** the gap theorem with comment openers directly after the prefix *)
  Theorem tokenize_layout_gap_adj a g g' rest tsa ts :
    adj_okb a g = true -> adj_okb a g' = true ->
    layout_gap d u unesc g -> layout_gap d u unesc g' ->
    probe_freeb d u a = true ->
    tokenize d u unesc a = LexOk tsa -> ~ ends_with_line (map fst tsa) ->
    tokenize d u unesc (a ++ g ++ rest) = LexOk ts ->
    exists ts', tokenize d u unesc (a ++ g' ++ rest) = LexOk ts' /\
                nows (map fst ts') = nows (map fst ts).
  Proof.
    intros Hok Hok' [_ Hg] [_ Hg'] Hpf Ha Hl Htk. apply tokenize_Run in Ha, Htk.
    destruct (layout_gap_tokens_inv_adj a g rest _ _ Hok Hg Hpf Hl Ha Htk) as (tsr & Hr & En).
    destruct (layout_gap_tokens_adj a g' rest _ tsr Hok' Hg' Hpf Hl Ha Hr) as (ts1 & HR & En').
    destruct (Run_tokenize _ _ _ _ _ HR) as (ts' & Ht & Hm). exists ts'. split; [exact Ht|]. congruence.
  Qed.

  (** every gap of a text, comment openers directly after the segments allowed *)
  Definition seg_rel_adj (s s' : str * str) : Prop :=
    fst s' = fst s /\ seg_ok d u unesc (fst s) /\
    (adj_okb (fst s) (snd s) = true /\ layout_gap0 d u unesc (snd s)) /\
    (adj_okb (fst s) (snd s') = true /\ layout_gap0 d u unesc (snd s')).

  Theorem weave_gap_invariance_adj segs segs' fin :
    Forall2 seg_rel_adj segs segs' -> forall ts, Run (weave segs fin) ts ->
    exists ts', Run (weave segs' fin) ts' /\ nows ts' = nows ts.
  Proof.
    induction 1 as [|[a g] [a' g'] s s' Hrel _ IH]; intros ts HR.
    - exists ts. auto.
    - destruct Hrel as (Ea & (Hpf & tsa & Ha & Hl) & (Hok & Hg) & (Hok' & Hg')).
      cbn [fst snd] in *. subst a'. cbn [weave fst snd] in *.
      destruct (layout_gap_tokens_inv_adj a g _ tsa ts Hok Hg Hpf Hl Ha HR) as (tsr & Hr & En).
      destruct (IH _ Hr) as (tsr' & Hr' & En').
      destruct (layout_gap_tokens_adj a g' _ tsa tsr' Hok' Hg' Hpf Hl Ha Hr') as (ts' & HR' & En2).
      exists ts'. split; [exact HR'|]. congruence.
  Qed.

  Theorem tokenize_weave_gaps_adj segs segs' fin ts :
    Forall2 seg_rel_adj segs segs' -> tokenize d u unesc (weave segs fin) = LexOk ts ->
    exists ts', tokenize d u unesc (weave segs' fin) = LexOk ts' /\
                nows (map fst ts') = nows (map fst ts).
  Proof.
    intros Hrel Htk. apply tokenize_Run in Htk.
    destruct (weave_gap_invariance_adj segs segs' fin Hrel _ Htk) as (ts1 & HR & Hn).
    destruct (Run_tokenize _ _ _ _ _ HR) as (ts' & Ht & Hm). exists ts'. split; [exact Ht|]. congruence.
  Qed.
End AdjStream.

Print Assumptions next_token_adj.
Print Assumptions steps_adj.
Print Assumptions tokenize_layout_gap_adj.
Print Assumptions tokenize_weave_gaps_adj.
