(** Instances of LexerGaps.v on the generated dialect tables, and the refuted adjacency classes
    (a gap that starts with a comment opener directly after the last token of the prefix). *)
Require Import SqlV.Base SqlV.Lexer SqlV.LexerLookahead SqlV.LexerLookaheadInst SqlV.LexerGaps SqlV.LexerGapsAdj.
Require Import SqlVGen.DialectTables.
Local Open Scope N_scope.

Lemma dialect_blank_neutral d : In d all_dialects -> blank_neutral d std_uni.
Proof.
  intro Hd. apply blank_neutralb_spec.
  pose proof all_dialects_blank_neutral as H. rewrite forallb_forall in H. apply H. exact Hd.
Qed.
Lemma always_probe_free d a : piq_always d = true -> probe_freeb d std_uni a = true.
Proof. intro Hp. apply probe_freeb_always. unfold piq_always in Hp. destruct (d_piq d); [reflexivity|discriminate]. Qed.

(** * Comment openers of each generated dialect, read off the model *)
Definition LFs : str := [cLF].
(** [o] followed by "c*/", LF: does the model produce a comment token? *)
Definition opens_comment (d : dialect) (o : str) : bool :=
  match next_token d std_uni true (o ++ s2l "c*/" ++ LFs) with
  | Ok (Some (TWs (WLine _ _), _)) | Ok (Some (TWs (WBlock _), _)) => true
  | _ => false
  end.
(** columns: "--", "/*", "//", "#" ;
    rows: generic ansi bigquery clickhouse databricks duckdb hive mssql mysql postgresql redshift
    snowflake sqlite *)
Example comment_openers :
  map (fun d => map (opens_comment d) [s2l "--"; s2l "/*"; s2l "//"; s2l "#"]) all_dialects =
  [ [true; true; false; false]; [true; true; false; false]; [true; true; false; true];
    [true; true; false; false]; [true; true; false; false]; [true; true; false; false];
    [true; true; false; false]; [true; true; false; false]; [true; true; false; false];
    [true; true; false; false]; [true; true; false; false]; [true; true; true; true];
    [true; true; false; false] ].
Proof. vm_compute. reflexivity. Qed.
(** the same from the dialect flags the dispatcher tests *)
Example comment_opener_flags :
  map (fun d => (d_snowflake d, d_sf_or_bq d)) all_dialects =
  map (fun d => (opens_comment d (s2l "//"), opens_comment d (s2l "#"))) all_dialects.
Proof. vm_compute. reflexivity. Qed.

(** * The gap theorems on the generated dialects (all but Redshift, as in LexerLookaheadInst.v) *)
Theorem tokenize_layout_gap_dialects d unesc a g g' rest tsa ts :
  In d all_dialects -> piq_always d = true ->
  starts_blankb g = true -> starts_blankb g' = true ->
  layout_gapb d std_uni unesc g = true -> layout_gapb d std_uni unesc g' = true ->
  tokenize d std_uni unesc a = LexOk tsa -> ~ ends_with_line (map fst tsa) ->
  tokenize d std_uni unesc (a ++ g ++ rest) = LexOk ts ->
  exists ts', tokenize d std_uni unesc (a ++ g' ++ rest) = LexOk ts' /\
              nows (map fst ts') = nows (map fst ts).
Proof.
  intros Hd Hp Hsb Hsb' Hg Hg'.
  apply tokenize_layout_gap.
  - apply dialect_blank_neutral; exact Hd.
  - apply starts_blankb_spec; exact Hsb.
  - apply starts_blankb_spec; exact Hsb'.
  - apply layout_gapb_spec; exact Hg.
  - apply layout_gapb_spec; exact Hg'.
  - apply always_probe_free; exact Hp.
Qed.

Definition lex_nows_rs (s : str) : option (list tok) :=
  match tokenize dl_redshift std_uni true s with LexOk ts => Some (nows (map fst ts)) | _ => None end.
(** the same for EVERY generated dialect (Redshift included) when the prefix contains no
    delimited-identifier opener followed by whitespace only ([probe_freeb], vacuous elsewhere) *)
Theorem tokenize_layout_gap_probe_free d unesc a g g' rest tsa ts :
  In d all_dialects -> probe_freeb d std_uni a = true ->
  starts_blankb g = true -> starts_blankb g' = true ->
  layout_gapb d std_uni unesc g = true -> layout_gapb d std_uni unesc g' = true ->
  tokenize d std_uni unesc a = LexOk tsa -> ~ ends_with_line (map fst tsa) ->
  tokenize d std_uni unesc (a ++ g ++ rest) = LexOk ts ->
  exists ts', tokenize d std_uni unesc (a ++ g' ++ rest) = LexOk ts' /\
              nows (map fst ts') = nows (map fst ts).
Proof.
  intros Hd Hp Hsb Hsb' Hg Hg'.
  apply tokenize_layout_gap.
  - apply dialect_blank_neutral; exact Hd.
  - apply starts_blankb_spec; exact Hsb.
  - apply starts_blankb_spec; exact Hsb'.
  - apply layout_gapb_spec; exact Hg.
  - apply layout_gapb_spec; exact Hg'.
  - exact Hp.
Qed.
Print Assumptions tokenize_layout_gap_probe_free.
(** not vacuous on Redshift: "SELECT /* c */ [a]" *)
Example redshift_gap_instance :
  probe_freeb dl_redshift std_uni (s2l "SELECT") = true /\
  layout_gapb dl_redshift std_uni true (s2l " /* c */ ") = true /\
  lex_nows_rs (s2l "SELECT /* c */ [a]") = lex_nows_rs (s2l "SELECT [a]").
Proof. vm_compute. repeat split; reflexivity. Qed.

(** comment gap -> one blank *)
Theorem layout_gap_to_blank_dialects d unesc a g b rest tsa ts :
  In d all_dialects -> piq_always d = true ->
  starts_blankb g = true -> layout_gapb d std_uni unesc g = true -> blank b ->
  tokenize d std_uni unesc a = LexOk tsa -> ~ ends_with_line (map fst tsa) ->
  tokenize d std_uni unesc (a ++ g ++ rest) = LexOk ts ->
  exists ts', tokenize d std_uni unesc (a ++ b :: rest) = LexOk ts' /\
              nows (map fst ts') = nows (map fst ts).
Proof.
  intros Hd Hp Hsb Hg Hb. apply layout_gap_to_blank; auto.
  - apply dialect_blank_neutral; exact Hd.
  - apply starts_blankb_spec; exact Hsb.
  - apply layout_gapb_spec; exact Hg.
  - apply always_probe_free; exact Hp.
Qed.

(** one blank -> comment gap *)
Theorem blank_to_layout_gap_dialects d unesc a g b rest tsa ts :
  In d all_dialects -> piq_always d = true ->
  starts_blankb g = true -> layout_gapb d std_uni unesc g = true -> blank b ->
  tokenize d std_uni unesc a = LexOk tsa -> ~ ends_with_line (map fst tsa) ->
  tokenize d std_uni unesc (a ++ b :: rest) = LexOk ts ->
  exists ts', tokenize d std_uni unesc (a ++ g ++ rest) = LexOk ts' /\
              nows (map fst ts') = nows (map fst ts).
Proof.
  intros Hd Hp Hsb Hg Hb. apply blank_to_layout_gap; auto.
  - apply dialect_blank_neutral; exact Hd.
  - apply starts_blankb_spec; exact Hsb.
  - apply layout_gapb_spec; exact Hg.
  - apply always_probe_free; exact Hp.
Qed.

(** every gap of a text: segments and gaps given as booleans *)
Definition seg_okb (d : dialect) (unesc : bool) (a : str) : bool :=
  match tokenize d std_uni unesc a with
  | LexOk ts => negb (ends_with_lineb (map fst ts))
  | _ => false
  end.
Definition gap_okb (d : dialect) (unesc : bool) (g : str) : bool :=
  starts_blankb g && layout_gap0b d std_uni unesc g.
(** [segs]: triples (segment, gap, replacement gap) *)
Definition seg3_okb (d : dialect) (unesc : bool) (s : str * str * str) : bool :=
  seg_okb d unesc (fst (fst s)) && gap_okb d unesc (snd (fst s)) && gap_okb d unesc (snd s).

Theorem tokenize_every_gap_dialects d unesc (segs : list (str * str * str)) fin ts :
  In d all_dialects -> piq_always d = true ->
  forallb (seg3_okb d unesc) segs = true ->
  tokenize d std_uni unesc (weave (map fst segs) fin) = LexOk ts ->
  exists ts', tokenize d std_uni unesc (weave (map (fun s => (fst (fst s), snd s)) segs) fin) = LexOk ts' /\
              nows (map fst ts') = nows (map fst ts).
Proof.
  intros Hd Hp Hall. apply tokenize_weave_gaps; [apply dialect_blank_neutral; exact Hd|].
  induction segs as [|[[a g] g'] segs IH]; cbn [map]; [constructor|].
  cbn [forallb] in Hall. apply andb_true_iff in Hall as [H3 Hall].
  constructor; [|exact (IH Hall)].
  unfold seg3_okb in H3. cbn [fst snd] in H3.
  apply andb_true_iff in H3 as [H3 Hg']. apply andb_true_iff in H3 as [Ha Hg].
  unfold seg_rel. cbn [fst snd]. split; [reflexivity|]. split; [|split].
  - split; [apply always_probe_free; exact Hp|]. unfold seg_okb in Ha.
    destruct (tokenize d std_uni unesc a) as [tsa|e x b|k] eqn:E; try discriminate.
    exists (map fst tsa). split; [apply tokenize_Run; exact E|].
    apply ends_with_lineb_spec. apply negb_true_iff in Ha. exact Ha.
  - unfold gap_okb in Hg. apply andb_true_iff in Hg as [H1 H2].
    split; [apply starts_blankb_spec; exact H1|apply layout_gap0b_spec; exact H2].
  - unfold gap_okb in Hg'. apply andb_true_iff in Hg' as [H1 H2].
    split; [apply starts_blankb_spec; exact H1|apply layout_gap0b_spec; exact H2].
Qed.

Print Assumptions tokenize_layout_gap_dialects.
Print Assumptions layout_gap_to_blank_dialects.
Print Assumptions blank_to_layout_gap_dialects.
Print Assumptions tokenize_every_gap_dialects.

(** * Sanity: the predicates on concrete layouts (generic dialect) *)
Example gap_examples :
  map (layout_gapb dl_generic std_uni true)
      [ s2l " /* c */ "; s2l " -- c" ++ LFs; s2l "/* a /* nested */ b */"; [cTAB; cCR; cLF] ++ s2l "--" ++ LFs;
        (* not gaps: *) s2l " -- open line comment"; s2l " /* open"; s2l " x "; s2l " /* a /* b */"; [] ]
  = [true; true; true; true; false; false; false; false; false].
Proof. vm_compute. reflexivity. Qed.

(** a worked instance: "SELECT /* c */ -- x⏎ 1" against "SELECT 1" *)
Example gap_instance :
  exists ts ts',
    tokenize dl_generic std_uni true (s2l "SELECT" ++ (s2l " /* c */ -- x" ++ LFs ++ s2l " ") ++ s2l "1") = LexOk ts /\
    tokenize dl_generic std_uni true (s2l "SELECT" ++ [cSP] ++ s2l "1") = LexOk ts' /\
    nows (map fst ts') = nows (map fst ts).
Proof. do 2 eexists. split; [vm_compute; reflexivity|]. split; [vm_compute; reflexivity|]. reflexivity. Qed.

(** * Refuted adjacency classes *)
(** [fuses d a g rest]: [g] is a layout gap that does NOT start with a blank, [a] lexes on its own
    and does not end in a line comment, and yet inserting a blank between [a] and [g] changes the
    non-whitespace tokens: the last token of [a] and the comment opener of [g] fuse. *)
Definition lex_nows (d : dialect) (s : str) : option (list tok) :=
  match tokenize d std_uni true s with LexOk ts => Some (nows (map fst ts)) | _ => None end.
Definition fuses (d : dialect) (a g rest : str) : Prop :=
  layout_gapb d std_uni true g = true /\ starts_blankb g = false /\
  layout_gapb d std_uni true (cSP :: g) = true /\
  (exists tsa, tokenize d std_uni true a = LexOk tsa /\ ends_with_lineb (map fst tsa) = false) /\
  exists t1 t2, lex_nows d (a ++ g ++ rest) = Some t1 /\ lex_nows d (a ++ (cSP :: g) ++ rest) = Some t2 /\
                t1 <> t2.

(** a fusing triple refutes [tokenize_layout_gap] without the hypothesis [starts_blank g] *)
Lemma fuses_refutes d a g rest : fuses d a g rest ->
  exists g' tsa ts,
    layout_gap d std_uni true g /\ layout_gap d std_uni true g' /\ starts_blank g' /\
    tokenize d std_uni true a = LexOk tsa /\ ~ ends_with_line (map fst tsa) /\
    tokenize d std_uni true (a ++ g ++ rest) = LexOk ts /\
    ~ exists ts', tokenize d std_uni true (a ++ g' ++ rest) = LexOk ts' /\
                  nows (map fst ts') = nows (map fst ts).
Proof.
  intros (Hg & _ & Hg' & (tsa & Ha & Hl) & t1 & t2 & H1 & H2 & Hne).
  unfold lex_nows in H1, H2.
  destruct (tokenize d std_uni true (a ++ g ++ rest)) as [ts|e x b|k] eqn:E1; try discriminate.
  destruct (tokenize d std_uni true (a ++ (cSP :: g) ++ rest)) as [ts2|e x b|k] eqn:E2; try discriminate.
  injection H1 as <-. injection H2 as <-.
  exists (cSP :: g), tsa, ts.
  split; [apply layout_gapb_spec; exact Hg|].
  split; [apply layout_gapb_spec; exact Hg'|].
  split; [left; reflexivity|].
  split; [exact Ha|].
  split; [apply ends_with_lineb_spec; exact Hl|].
  split; [reflexivity|].
  intros (ts' & Ht & Hn). rewrite E2 in Ht. injection Ht as <-. apply Hne. symmetry. exact Hn.
Qed.

Ltac prove_fuses :=
  unfold fuses;
  split; [vm_compute; reflexivity|];
  split; [vm_compute; reflexivity|];
  split; [vm_compute; reflexivity|];
  split; [eexists; split; vm_compute; reflexivity|];
  do 2 eexists; split; [vm_compute; reflexivity|]; split; [vm_compute; reflexivity|];
  let H := fresh in intro H; discriminate H.

(** (1) every dialect: "x-" then "-- c⏎": the minus sign becomes part of the comment "--- c" *)
Example minus_then_line_comment_fuses :
  Forall (fun d => fuses d (s2l "x-") (s2l "-- c" ++ LFs) (s2l "y")) all_dialects.
Proof. unfold all_dialects. repeat (apply Forall_cons; [prove_fuses|]). apply Forall_nil. Qed.

(** (2) every dialect: "x|" then "/* c */": "|/" is the PostgreSQL square-root operator *)
Example pipe_then_block_comment_fuses :
  Forall (fun d => fuses d (s2l "x|") (s2l "/* c */") (s2l "y")) all_dialects.
Proof. unfold all_dialects. repeat (apply Forall_cons; [prove_fuses|]). apply Forall_nil. Qed.

(** (3) PostgreSQL: an operator character absorbs the comment opener as a custom operator "</*" *)
Example pg_operator_then_block_comment_fuses :
  fuses dl_postgresql (s2l "x<") (s2l "/* c */") (s2l "y") /\
  fuses dl_postgresql (s2l "x<") (s2l "-- c" ++ LFs) (s2l "y").
Proof. split; prove_fuses. Qed.

(** (4) "#" then "-- c⏎" where "#" is an operator: "#-" is one token *)
Example sharp_then_line_comment_fuses :
  fuses dl_ansi (s2l "x #") (s2l "-- c" ++ LFs) (s2l "y").
Proof. prove_fuses. Qed.

(** (5) "@" is an identifier start (MsSql, MySQL, Generic): "@/" becomes a word *)
Example at_then_block_comment_fuses :
  fuses dl_mssql (s2l "@") (s2l "/* c */") (s2l "y") /\
  fuses dl_mysql (s2l "@") (s2l "/* c */") (s2l "y") /\
  fuses dl_generic (s2l "@") (s2l "/* c */") (s2l "y").
Proof. split; [prove_fuses|split; prove_fuses]. Qed.

(** (6) DuckDB/Generic: "x/" then "/* c */": "//" is the integer-division operator *)
Example slash_then_block_comment_fuses_duck :
  fuses dl_generic (s2l "x/") (s2l "/* c */") (s2l "y") /\
  fuses dl_duckdb (s2l "x/") (s2l "/* c */") (s2l "y").
Proof. split; prove_fuses. Qed.

(** (7) Snowflake: "x/" then "/* c */y": "//" opens a line comment that swallows the rest *)
Example slash_then_block_comment_fuses_snowflake :
  fuses dl_snowflake (s2l "x/") (s2l "/* c */") (s2l "y").
Proof. prove_fuses. Qed.

(** the same places do not fuse where the dialect lacks the operator (not a theorem about all
    prefixes: two computed instances) *)
Example slash_then_block_comment_ok_ansi :
  lex_nows dl_ansi (s2l "x/" ++ s2l "/* c */" ++ s2l "y") = lex_nows dl_ansi (s2l "x/" ++ (cSP :: s2l "/* c */") ++ s2l "y").
Proof. vm_compute. reflexivity. Qed.
Example word_then_comment_ok :
  forallb (fun d => match lex_nows d (s2l "SELECT/**/x--c" ++ LFs ++ s2l "y"), lex_nows d (s2l "SELECT x y") with
                    | Some t1, Some t2 => Nat.eqb (length t1) (length t2) | _, _ => false end) all_dialects = true.
Proof. vm_compute. reflexivity. Qed.

Print Assumptions fuses_refutes.
Print Assumptions minus_then_line_comment_fuses.
Print Assumptions pipe_then_block_comment_fuses.

(** * Comment openers directly after a token (LexerGapsAdj.v) *)
(** per dialect, for the opener characters '-', '/', '#': inert? custom-operator character? *)
Example opener_inert_table :
  map (fun d => map (opener_inertb d std_uni) [cMINUS; cSLASH; cHASH]) all_dialects =
  [ [true; true; false]; [true; true; true]; [true; true; true]; [true; true; true];
    [true; true; true]; [true; true; true]; [true; true; true]; [true; true; false];
    [true; true; true]; [true; true; true]; [true; true; false]; [true; true; true];
    [true; true; true] ].
Proof. vm_compute. reflexivity. Qed.
Example opener_custom_op_table :
  map (fun d => map (d_custom_op d) [cMINUS; cSLASH; cHASH]) all_dialects =
  [ [false; false; false]; [false; false; false]; [false; false; false]; [false; false; false];
    [false; false; false]; [false; false; false]; [false; false; false]; [false; false; false];
    [false; false; false]; [true; true; true]; [false; false; false]; [false; false; false];
    [false; false; false] ].
Proof. vm_compute. reflexivity. Qed.

Theorem tokenize_layout_gap_adj_dialects d unesc a g g' rest tsa ts :
  In d all_dialects -> piq_always d = true ->
  adj_okb d std_uni a g = true -> adj_okb d std_uni a g' = true ->
  layout_gapb d std_uni unesc g = true -> layout_gapb d std_uni unesc g' = true ->
  tokenize d std_uni unesc a = LexOk tsa -> ~ ends_with_line (map fst tsa) ->
  tokenize d std_uni unesc (a ++ g ++ rest) = LexOk ts ->
  exists ts', tokenize d std_uni unesc (a ++ g' ++ rest) = LexOk ts' /\
              nows (map fst ts') = nows (map fst ts).
Proof.
  intros Hd Hp Hok Hok' Hg Hg'.
  apply tokenize_layout_gap_adj; auto.
  - apply dialect_blank_neutral; exact Hd.
  - apply layout_gapb_spec; exact Hg.
  - apply layout_gapb_spec; exact Hg'.
  - apply always_probe_free; exact Hp.
Qed.

Definition gap_adj_okb (d : dialect) (unesc : bool) (a g : str) : bool :=
  adj_okb d std_uni a g && layout_gap0b d std_uni unesc g.
Definition seg3_adj_okb (d : dialect) (unesc : bool) (s : str * str * str) : bool :=
  seg_okb d unesc (fst (fst s)) && gap_adj_okb d unesc (fst (fst s)) (snd (fst s)) &&
  gap_adj_okb d unesc (fst (fst s)) (snd s).

Theorem tokenize_every_gap_adj_dialects d unesc (segs : list (str * str * str)) fin ts :
  In d all_dialects -> piq_always d = true ->
  forallb (seg3_adj_okb d unesc) segs = true ->
  tokenize d std_uni unesc (weave (map fst segs) fin) = LexOk ts ->
  exists ts', tokenize d std_uni unesc (weave (map (fun s => (fst (fst s), snd s)) segs) fin) = LexOk ts' /\
              nows (map fst ts') = nows (map fst ts).
Proof.
  intros Hd Hp Hall. apply tokenize_weave_gaps_adj; [apply dialect_blank_neutral; exact Hd|].
  induction segs as [|[[a g] g'] segs IH]; cbn [map]; [constructor|].
  cbn [forallb] in Hall. apply andb_true_iff in Hall as [H3 Hall].
  constructor; [|exact (IH Hall)].
  unfold seg3_adj_okb in H3. cbn [fst snd] in H3.
  apply andb_true_iff in H3 as [H3 Hg']. apply andb_true_iff in H3 as [Ha Hg].
  unfold seg_rel_adj. cbn [fst snd]. split; [reflexivity|]. split; [|split].
  - split; [apply always_probe_free; exact Hp|]. unfold seg_okb in Ha.
    destruct (tokenize d std_uni unesc a) as [tsa|e x b|k] eqn:E; try discriminate.
    exists (map fst tsa). split; [apply tokenize_Run; exact E|].
    apply ends_with_lineb_spec. apply negb_true_iff in Ha. exact Ha.
  - unfold gap_adj_okb in Hg. apply andb_true_iff in Hg as [H1 H2].
    split; [exact H1|apply layout_gap0b_spec; exact H2].
  - unfold gap_adj_okb in Hg'. apply andb_true_iff in Hg' as [H1 H2].
    split; [exact H1|apply layout_gap0b_spec; exact H2].
Qed.

Print Assumptions tokenize_layout_gap_adj_dialects.
Print Assumptions tokenize_every_gap_adj_dialects.

(** the side condition on concrete adjacencies: true where the theorem applies, false on every
    refuted class above *)
Example adj_ok_examples :
  (* words, numbers, strings, parentheses before "/*", "--" in every dialect incl. PostgreSQL *)
  forallb (fun d => forallb (fun a => adj_okb d std_uni (s2l a) (s2l "/* c */") &&
                                      adj_okb d std_uni (s2l a) (s2l "-- c" ++ LFs))
                            ["SELECT"; "1"; "1e"; "'s'"; "f(x)"; "a,"; "a ;"]%string) all_dialects = true /\
  (* an operator before the opener: fine except in PostgreSQL *)
  map (fun d => adj_okb d std_uni (s2l "x <") (s2l "/* c */")) all_dialects =
    [true; true; true; true; true; true; true; true; true; false; true; true; true] /\
  (* the refuted classes *)
  forallb (fun d => adj_okb d std_uni (s2l "x-") (s2l "-- c" ++ LFs) ||
                    adj_okb d std_uni (s2l "x|") (s2l "/* c */") ||
                    adj_okb d std_uni (s2l "x #") (s2l "-- c" ++ LFs) ||
                    adj_okb d std_uni (s2l "@") (s2l "/* c */") ||
                    adj_okb d std_uni (s2l "x/") (s2l "/* c */")) all_dialects = false.
Proof. vm_compute. repeat split; reflexivity. Qed.

(** a worked instance in PostgreSQL: "SELECT/* c */1--x⏎,2" against "SELECT 1 ,2" *)
Example adj_instance :
  forallb (seg3_adj_okb dl_postgresql true)
    [ (s2l "SELECT", s2l "/* c */", s2l " "); (s2l "1", s2l "--x" ++ LFs, s2l " ") ] = true /\
  lex_nows dl_postgresql (s2l "SELECT/* c */1--x" ++ LFs ++ s2l ",2") = lex_nows dl_postgresql (s2l "SELECT 1 ,2").
Proof. vm_compute. split; reflexivity. Qed.
