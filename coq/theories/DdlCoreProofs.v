(** C01 — the DDL core: well-formedness of CREATE TABLE trees, the token-level round trip
    [ddl_roundtrip], and the evaluator of one correspondence case. *)
From SqlV Require Import Base PrecSpec Pratt PrattProofs PrinterCore PrinterCoreProofs DdlCore.
Require SqlV.DataTypeRTProofs.
From Coq Require Import ZifyBool ZifyN ZifyNat.
Module DP := SqlV.DataTypeRTProofs.

(** * Well-formed trees (decidable) *)

(** an expression the round trip of the operator core applies to, in canonical spelling *)
Definition dewf (d : dialect) (e : expr) : bool :=
  shapeb d e && wfb (lvl d) (flags_of d) e && lspine_gtb (lvl d) (lvl d K_UNKNOWN) e && canonical e.

(** a word the statement level takes for the start of a table constraint, not of a column *)
Definition cons_start (d : ddialect) (w : dtok) : bool :=
  match kwc w with
  | Some WConstraint | Some WUnique | Some WPrimary | Some WForeign | Some WCheck => true
  | Some WIndex | Some WKey | Some WFulltext | Some WSpatial => gate d ["generic"; "mysql"]%string
  | _ => false
  end.

(** a column list that parses back: words; with trailing commas on, a comma followed by a reserved word
    ends the list, so the names after the first one are not such words *)
Definition cols_wf (d : ddialect) (l : list word) : bool :=
  forallb is_wordtok l && negb (dtrailing d && existsb (reserved d) (tl l)).
Definition cols1_wf (d : ddialect) (l : list word) : bool :=
  match l with [] => false | _ => cols_wf d l end.
Definition name_wf (l : list word) : bool :=
  match l with [] => false | _ => forallb is_wordtok l end.
Definition oword_wf (w : option word) : bool := match w with Some x => is_wordtok x | None => true end.

(** the types of the proved part of the C18 round trip ([DataTypeRTProofs.PF]) *)
Fixpoint pfb (T : DT.tables) (dn : str) (t : DT.dt) : bool :=
  DT.leaf_wf T t ||
  match t with
  | DT.DNullable u => DT.irr_at T dn (s2l "NULLABLE") (s2l "NULLABLE#0") && pfb T dn u
  | DT.DLowCard u => DT.irr_at T dn (s2l "LOWCARDINALITY") (s2l "LOWCARDINALITY#0") && pfb T dn u
  | DT.DArrayAngle u =>
      DT.irr_at T dn (s2l "ARRAY") (s2l "ARRAY#0") && negb (str_eqb dn (s2l "snowflake")) &&
      negb (str_eqb dn (s2l "clickhouse")) && pfb T dn u
  | DT.DArraySquare u n => DP.size_ok dn n && pfb T dn u
  | _ => false
  end.

(** SQLite reads a column as untyped when the token after its name is not a word or is one of these
    keywords *)
Definition sqlite_kw (t : dtok) : bool :=
  match kwc t with
  | Some WConstraint | Some WPrimary | Some WNot | Some WUnique | Some WCheck | Some WDefault
  | Some WCollate | Some WReferences | Some WGenerated | Some WAs => true
  | _ => false
  end.

Definition copt_wf (d : ddialect) (o : copt) : bool :=
  match o with
  | ODefault e | OCheck e => dewf (dbase d) e
  | OReferences n cols => name_wf n && cols_wf d cols
  | _ => true
  end.
Definition coptdef_wf (d : ddialect) (o : coptdef) : bool := oword_wf (oname o) && copt_wf d (oopt o).

Definition ctype_wf_gen (tyok : DT.dt -> bool) (d : ddialect) (c : column_def) : bool :=
  match ctype c with
  | DT.DUnspecified =>
      (* only SQLite has untyped columns; the first option then starts with one of the keywords above *)
      gate d ["sqlite"]%string &&
      match coptions c with
      | [] => true
      | o :: _ => match oname o, oopt o with None, ONull => false | _, _ => true end
      end
  | t =>
      tyok t &&
      (negb (gate d ["sqlite"]%string) ||
       match type_toks (dtab d) t with w :: _ => is_wordtok w && negb (sqlite_kw w) | [] => false end)
  end.

Definition ctype_wf (d : ddialect) := ctype_wf_gen (pfb (dtab d) (dname d)) d.

Definition coldef_wf_gen (tyok : DT.dt -> bool) (d : ddialect) (c : column_def) : bool :=
  is_wordtok (cname c) && negb (cons_start d (cname c)) && ctype_wf_gen tyok d c && forallb (coptdef_wf d) (coptions c).
Definition coldef_wf (d : ddialect) := coldef_wf_gen (pfb (dtab d) (dname d)) d.

Definition tcons_wf (d : ddialect) (c : tconstraint) : bool :=
  oword_wf (tname c) &&
  match tbody c with
  | TPrimaryKey cols | TUnique cols => cols1_wf d cols
  | TCheck e => dewf (dbase d) e
  | TForeignKey cols n rcols => cols1_wf d cols && name_wf n && cols1_wf d rcols
  end.

Definition dwf_gen (tyok : DT.dt -> bool) (d : ddialect) (c : create_table) : bool :=
  name_wf (tbl_name c) && forallb (coldef_wf_gen tyok d) (columns c) && forallb (tcons_wf d) (constraints c).
(** [dwf]: the column types are in the proved part of the C18 round trip *)
Definition dwf (d : ddialect) := dwf_gen (pfb (dtab d) (dname d)) d.
(** every column type is in the proved part of the data type round trip *)
Definition types_proved (d : ddialect) (c : create_table) : bool :=
  forallb (fun col => match ctype col with DT.DUnspecified => true | t => pfb (dtab d) (dname d) t end) (columns c).

(** * The syntactic fragment test, by position in the printed statement (decidable, conservative like
    [frag_ok]): at every expression, the expression parser's view of what is printed from there on
    passes [frag_ok]; no two adjacent [>] tokens (the lexer would have made one [>>] of them) *)
Fixpoint no_gtgt (v : list DT.tok) : bool :=
  match v with
  | DT.TGt :: ((DT.TGt :: _) as r) => false
  | _ :: r => no_gtgt r
  | [] => true
  end.

Definition efrag (d : ddialect) (e : expr) (post : list dtok) : bool :=
  frag_ok (dbase d) (yield e ++ cutd 0 post).
Definition opt_frag (d : ddialect) (o : copt) (post : list dtok) : bool :=
  match o with
  | ODefault e => efrag d e post
  | OCheck e => efrag d e (P_RParen :: post)
  | _ => true
  end.
Fixpoint opts_frag (d : ddialect) (l : list coptdef) (post : list dtok) : bool :=
  match l with
  | [] => true
  | o :: r => opt_frag d (oopt o) (opts_toks r ++ post) && opts_frag d r post
  end.
Definition elem := (column_def + tconstraint)%type.
Definition elem_toks (T : DT.tables) (el : elem) : list dtok :=
  match el with inl c => col_toks T c | inr t => tcons_toks t end.
Definition elem_frag (d : ddialect) (el : elem) (post : list dtok) : bool :=
  match el with
  | inl c => opts_frag d (coptions c) post
  | inr t => match tbody t with TCheck e => efrag d e (P_RParen :: post) | _ => true end
  end.
(** what follows an element: the rest of the list, then [post] *)
Definition efollow (T : DT.tables) (suf : list elem) (post : list dtok) : list dtok :=
  match suf with [] => post | _ => P_Comma :: dsepc (map (elem_toks T) suf) ++ post end.
Fixpoint elems_frag (d : ddialect) (els : list elem) (post : list dtok) : bool :=
  match els with
  | [] => true
  | el :: r => elem_frag d el (efollow (dtab d) r post) && elems_frag d r post
  end.
Definition elems_of (c : create_table) : list elem := map inl (columns c) ++ map inr (constraints c).

Definition dfrag (d : ddialect) (c : create_table) (rest : list dtok) : bool :=
  no_gtgt (map tv (dtoks (dtab d) c ++ rest)) && elems_frag d (elems_of c) (P_RParen :: rest).

(** what may follow the statement: the end of the input or [;] *)
Definition dender (rest : list dtok) : bool :=
  match rest with [] => true | t :: _ => is_semi t end.

(** * Side conditions on the generated dialect record (decidable; discharged by [vm_compute] on
    coq/gen/DdlTables.v, DataTypeTables.v, PrecTables.v) *)
Definition opt_start_kws : list str :=
  [s2l "NOT"; s2l "NULL"; s2l "DEFAULT"; s2l "PRIMARY"; s2l "UNIQUE"; s2l "CHECK"; s2l "REFERENCES"; s2l "CONSTRAINT"].

Definition ddialect_ok (d : ddialect) : bool :=
  (lvl (dbase d) K_UNKNOWN =? 0) && (lvl (dbase d) K_AND <=? lvl (dbase d) C_Between) &&
  DT.family_consistent (dtab d) &&
  forallb (fun k => negb (DT.mem_str k (DT.absorb_kws (dtab d)))) opt_start_kws &&
  negb (gate d ["snowflake"]%string).

(** * Evaluation of one correspondence case (adds to [dcase_core]): 16 = the implementation accepted
    the input but its tree (in canonical spelling) is not [dwf], the column types apart; 32 = the printed
    tokens fail the syntactic fragment test [dfrag]; 64 = some column type is outside the proved part
    of the data type round trip (32, 64: counted, not errors: the theorem says nothing then) *)
Definition dcase_full (d : ddialect) (ts : list dtok) (i : dires) : N :=
  let c := dcase_core d ts i in
  if c =? 8 then 8 else
  match i with
  | DIOk t _ =>
      c + (if dwf_gen (fun _ => true) d (ct_norm t) then 0 else 16) + (if dfrag d (ct_norm t) [] then 0 else 32) +
      (if types_proved d t then 0 else 64)
  | _ => c
  end.

(** * Tokens *)
Lemma find_dkw_text l u k : find_dkw l u = Some k -> dkw_text k = u.
Proof.
  induction l as [|x l IH]; cbn [find_dkw]; [discriminate|].
  destruct (str_eqb (dkw_text x) u) eqn:E; [|exact IH].
  intro H. inversion H; subst. apply str_eqb_eq. exact E.
Qed.

Lemma kwc_kt k : kwc (kt k) = Some k.
Proof. destruct k; vm_compute; reflexivity. Qed.

Lemma is_k_kt k k' : is_k k (kt k') = dkw_beq k k'.
Proof. unfold is_k. rewrite kwc_kt. reflexivity. Qed.

Lemma tv_TT x : tv (TT x) = x.
Proof. reflexivity. Qed.
Lemma ev_EE t : ev (EE t) = Some t.
Proof. reflexivity. Qed.
Lemma map_tv_TT l : map tv (map TT l) = l.
Proof. induction l as [|x l IH]; [reflexivity|]. cbn [map]. rewrite IH. reflexivity. Qed.

(** [kwc] only looks at the statement-level view *)
Lemma kwc_word t : kwc t <> None -> is_wordtok t = true.
Proof. unfold kwc, is_wordtok. destruct (tv t); congruence. Qed.

(** punctuation printed by the model *)
Lemma kwc_punct : kwc P_LParen = None /\ kwc P_RParen = None /\ kwc P_Comma = None /\ kwc P_Period = None.
Proof. repeat split; reflexivity. Qed.

(** * Expressions: the cut of a printed expression *)
Fixpoint erun (k : nat) (ts : list tok) : option nat :=
  match ts with
  | [] => Some k
  | x :: r =>
      match x with
      | TLParen | TLBracket => erun (S k) r
      | TRParen | TRBracket => match k with O => None | S k' => erun k' r end
      | TComma => match k with O => None | S _ => erun k r end
      | _ => erun k r
      end
  end.

Lemma erun_app a : forall b k,
  erun k (a ++ b) = match erun k a with Some k' => erun k' b | None => None end.
Proof.
  induction a as [|x a IH]; intros b k; [reflexivity|].
  cbn [app erun]. destruct x; try apply IH; destruct k; try reflexivity; apply IH.
Qed.

Lemma cutd_app ts : forall k k' post,
  erun k ts = Some k' -> cutd k (ee ts ++ post) = ts ++ cutd k' post.
Proof.
  induction ts as [|x ts IH]; intros k k' post H.
  - cbn in H. inversion H. reflexivity.
  - cbn [ee map app cutd ev EE]. cbn [erun] in H. fold (ee ts).
    destruct x; try (cbn [app]; f_equal; apply IH; exact H).
    + destruct k as [|k0]; [discriminate|]. cbn [app]. f_equal. apply IH. exact H.
    + destruct k as [|k0]; [discriminate|]. cbn [app]. f_equal. apply IH. exact H.
    + destruct k as [|k0]; [discriminate|]. cbn [app]. f_equal. apply IH. exact H.
Qed.

Lemma termd_app ts : forall k k' post,
  erun k ts = Some k' -> termd k (ee ts ++ post) = termd k' post.
Proof.
  induction ts as [|x ts IH]; intros k k' post H.
  - cbn in H. inversion H. reflexivity.
  - cbn [ee map app termd ev EE]. cbn [erun] in H. fold (ee ts).
    destruct x; try (apply IH; exact H).
    + destruct k as [|k0]; [discriminate|]. apply IH. exact H.
    + destruct k as [|k0]; [discriminate|]. apply IH. exact H.
    + destruct k as [|k0]; [discriminate|]. apply IH. exact H.
Qed.

Lemma erun_commas l : Forall (fun x => forall k, erun k (yield x) = Some k) l ->
  forall k, erun (S k) (commas l) = Some (S k).
Proof.
  induction 1 as [|x r Hx Hr IH]; intro k; [reflexivity|].
  destruct r as [|y r'].
  - cbn [commas]. apply Hx.
  - change (commas (x :: y :: r')) with (yield x ++ TComma :: commas (y :: r')).
    rewrite erun_app, Hx. cbn [erun]. apply IH.
Qed.

Lemma erun_yield e : forall k, erun k (yield e) = Some k.
Proof.
  induction e using expr_rect'; intro k0;
    try rewrite yield_tuple; try rewrite yield_inlist; cbn [yield].
  all: repeat (rewrite ?erun_app, ?IHe, ?IHe1, ?IHe2, ?IHe3; cbn [erun app]).
  all: try reflexivity.
  all: try (rewrite (erun_commas l H)).
  all: try (destruct ((k =? K_Plus) || (k =? K_Minus) || (k =? K_Tilde))).
  all: repeat match goal with b : bool |- _ => destruct b end.
  all: try (destruct kd); try (destruct w); try (destruct esc as [[s n]|]).
  all: cbn [not_toks like_toks any_toks app erun].
  all: repeat (rewrite ?erun_app, ?IHe, ?IHe1, ?IHe2, ?IHe3, ?(erun_commas l H); cbn [erun app]).
  all: try reflexivity.
Qed.

Lemma dewf_parts d e : dewf d e = true ->
  shape d e /\ wf (flags_of d) (lvl d) e /\ lspine_gt (lvl d) (lvl d K_UNKNOWN) e /\ canonical e = true.
Proof.
  unfold dewf. intro H. repeat (apply andb_true_iff in H; destruct H as [H ?]).
  repeat split; [apply shapeb_iff|apply wfb_iff|apply lspine_gtb_iff|]; assumption.
Qed.
Lemma dewf_ptoks d e : dewf d e = true -> ptoks e = yield e.
Proof. intro H. apply dewf_parts in H. unfold ptoks. rewrite norm_canonical; tauto. Qed.

Lemma skipn_ee a r : skipn (length a) (ee a ++ r) = r.
Proof. induction a as [|t a IH]; [reflexivity|]. exact IH. Qed.

(** what the expression parser sees after a printed expression: something without binding power *)
Definition estopd (post : list dtok) : Prop :=
  np_key (cutd 0 post) = K_UNKNOWN /\ is_escape_head (cutd 0 post) = false /\ cutd 0 post <> [].

Section Expr.
  Variable bd : dialect.
  Hypothesis U0 : lvl bd K_UNKNOWN = 0.
  Hypothesis Hand : lvl bd K_AND <= lvl bd C_Between.

  Lemma dexpr_rt e post :
    dewf bd e = true -> frag_ok bd (yield e ++ cutd 0 post) = true -> estopd post ->
    dexpr bd (ee (yield e) ++ post) = Ok (e, post).
  Proof.
    intros He Hf (Hn & Hesc & Hne). destruct (dewf_parts _ _ He) as (Hsh & Hw & Hl & _).
    unfold dexpr. rewrite (cutd_app (yield e) 0 0 post (erun_yield e 0)).
    rewrite (parse_expr_roundtrip bd U0 Hand e (cutd 0 post)); auto.
    - cbn [bind].
      assert (Hc : termd 0 (ee (yield e) ++ post) && Nat.eqb (length (cutd 0 post)) 0 = false).
      { destruct (cutd 0 post) as [|c cr]; [congruence|]. cbn [length Nat.eqb]. apply andb_false_r. }
      rewrite Hc. rewrite app_length.
      replace (length (yield e) + length (cutd 0 post) - length (cutd 0 post))%nat with (length (yield e)) by lia.
      rewrite skipn_ee. reflexivity.
    - unfold np. rewrite Hn, U0. apply rspine_ge_zero; assumption.
    - unfold np. rewrite Hn. lia.
    - intros _. exact Hesc.
  Qed.
End Expr.

(** * Data types *)
Lemma no_gtgt_app a : forall b, no_gtgt (a ++ b) = true -> no_gtgt b = true.
Proof.
  induction a as [|x a IH]; intros b H; [exact H|]. apply IH.
  cbn [app no_gtgt] in H. destruct x; try exact H.
  destruct (a ++ b) as [|y r]; [reflexivity|]. destruct y; try exact H. discriminate H.
Qed.

Lemma no_gtgt_map_app (a b : list dtok) : no_gtgt (map tv (a ++ b)) = true -> no_gtgt (map tv b) = true.
Proof. rewrite map_app. apply no_gtgt_app. Qed.

Lemma no_gtgt_glue v : no_gtgt v = true -> DT.glue v = v.
Proof.
  induction v as [|x v IH]; intro H; [reflexivity|].
  assert (Hv : no_gtgt v = true) by (apply (no_gtgt_app [x]); exact H).
  cbn [no_gtgt] in H. destruct x; cbn [DT.glue]; try (rewrite (IH Hv); reflexivity).
  destruct v as [|y r]; [reflexivity|]. destruct y; try (rewrite (IH Hv); reflexivity). discriminate H.
Qed.

Lemma glue_app_nogt n : forall a V, (length a <= n)%nat -> DP.head_not_gt V ->
  DT.glue (a ++ V) = DT.glue a ++ DT.glue V.
Proof.
  induction n as [|n IH]; intros a V Hl HV.
  - destruct a; [reflexivity|cbn in Hl; lia].
  - destruct a as [|x a]; [reflexivity|]. cbn [length] in Hl.
    destruct a as [|y a'].
    + destruct x; cbn [app DT.glue]; try reflexivity. apply DP.glue_gt_other. exact HV.
    + assert (H1 : DT.glue ((y :: a') ++ V) = DT.glue (y :: a') ++ DT.glue V)
        by (apply IH; [cbn [length] in *; lia|exact HV]).
      assert (H2 : DT.glue (a' ++ V) = DT.glue a' ++ DT.glue V)
        by (apply IH; [cbn [length] in *; lia|exact HV]).
      change ((x :: y :: a') ++ V) with (x :: ((y :: a') ++ V)).
      destruct x; try (rewrite (DP.glue_cons _ ((y :: a') ++ V)) by discriminate;
                       rewrite (DP.glue_cons _ (y :: a')) by discriminate; rewrite H1; reflexivity).
      destruct y; try (rewrite (DP.glue_gt_other ((_ :: a') ++ V)) by exact I;
                       rewrite (DP.glue_gt_other (_ :: a')) by exact I; rewrite H1; reflexivity).
      change (DT.glue (DT.TGt :: (DT.TGt :: a') ++ V)) with (DT.TShr :: DT.glue (a' ++ V)).
      change (DT.glue (DT.TGt :: DT.TGt :: a')) with (DT.TShr :: DT.glue a').
      rewrite H2. reflexivity.
Qed.

Lemma pfb_PF T dn t : pfb T dn t = true -> DP.PF T dn t.
Proof.
  induction t; cbn [pfb]; intro H; apply orb_true_iff in H; destruct H as [H|H];
    try (apply DP.PF_leaf; exact H); try discriminate H.
  all: repeat (apply andb_true_iff in H; destruct H as [H ?]).
  - apply DP.PF_angle; auto; apply negb_true_iff; assumption.
  - apply DP.PF_square; auto.
  - apply DP.PF_nullable; auto.
  - apply DP.PF_lowcard; auto.
Qed.

Lemma skipn_map_app {A B} (f : A -> B) (a : list A) (r : list B) : skipn (length a) (map f a ++ r) = r.
Proof. induction a as [|t a IH]; [reflexivity|]. exact IH. Qed.

Lemma follow_top_head T V : DT.follow_top T V = true -> DP.head_not_gt V.
Proof.
  destruct V as [|x V]; [intros; exact I|]. destruct x; intro H; try exact I.
  unfold DT.follow_top in H. apply andb_true_iff in H. destruct H as [_ H]. discriminate H.
Qed.

(** * Followers: what is printed after a type / an option inside a column definition *)
Definition cfol (post : list dtok) : Prop := exists r, post = P_Comma :: r \/ post = P_RParen :: r.

(** facts about the head of [opts_toks l ++ post] that the parser's look-aheads use *)
Record ofacts (T : DT.tables) (P : list dtok) : Prop := {
  of_estop : estopd P;
  of_lparen : lparen_h P = false;
  of_period : match P with p :: _ => is_period p = false /\ is_minus p = false | [] => True end;
  of_refact : refact_ahead P = false;
  of_cchar : cchar_ahead P = false;
  of_collate : is_kh WCollate P = false;
  of_follow : DT.follow_top T (map tv P) = true
}.

Definition ddl_follow (T : DT.tables) : Prop :=
  forallb (fun k => negb (DT.mem_str k (DT.absorb_kws T))) opt_start_kws = true.

Lemma follow_kw T (k : dkw) r :
  ddl_follow T -> In (dkw_text k) opt_start_kws -> DT.follow_top T (DT.TWord (dkw_text k) :: r) = true.
Proof.
  intros H Hin. unfold ddl_follow in H. rewrite forallb_forall in H. specialize (H _ Hin).
  apply negb_true_iff in H.
  assert (Hu : ascii_upper (dkw_text k) = dkw_text k).
  { cbn [opt_start_kws In] in Hin. repeat (destruct Hin as [Hin|Hin]; [rewrite <- Hin; reflexivity|]). destruct Hin. }
  unfold DT.follow_top, DT.follow_ok, DT.follow_main. rewrite Hu, H. reflexivity.
Qed.

Lemma ofacts_cfol T post : cfol post -> ofacts T post.
Proof. intros (r & [E|E]); subst post; constructor; try reflexivity; repeat split; try reflexivity; discriminate. Qed.

Lemma ofacts_opts T l post : ddl_follow T -> cfol post -> ofacts T (opts_toks l ++ post).
Proof.
  intros HT Hc. destruct l as [|o l']; [apply ofacts_cfol; exact Hc|].
  cbn [opts_toks flat_map]. fold (opts_toks l'). unfold optdef_toks.
  destruct o as [[n|] o]; cbn [oname oopt cname_toks app].
  - constructor; try reflexivity; [repeat split; try reflexivity; discriminate|split; reflexivity|].
    apply (follow_kw T WConstraint); [exact HT|cbn; tauto].
  - destruct o as [| |e| | |e|nm cols]; cbn [opt_toks app].
    all: constructor; try reflexivity; try (repeat split; try reflexivity; discriminate); try (split; reflexivity).
    + apply (follow_kw T WNot); [exact HT|cbn; tauto].
    + apply (follow_kw T WNull); [exact HT|cbn; tauto].
    + apply (follow_kw T WDefault); [exact HT|cbn; tauto].
    + apply (follow_kw T WPrimary); [exact HT|cbn; tauto].
    + apply (follow_kw T WUnique); [exact HT|cbn; tauto].
    + apply (follow_kw T WCheck); [exact HT|cbn; tauto].
    + apply (follow_kw T WReferences); [exact HT|cbn; tauto].
Qed.

Ltac llia :=
  unfold word in *; cbn [length] in *; rewrite ?app_length in *; cbn [length] in *;
  rewrite ?app_length in *; cbn [length] in *; lia.

(** * Identifiers, names, column lists *)
Lemma pident_rt w r : is_wordtok w = true -> pident (w :: r) = Ok (w, r).
Proof. unfold pident, is_wordtok. destruct (tv w); try discriminate; reflexivity. Qed.

Lemma name_toks_len l : (length l <= length (name_toks l))%nat.
Proof. induction l as [|w [|w' l'] IH]; cbn [name_toks length] in *; lia. Qed.

Lemma dsepc_cons (x y : list dtok) l : dsepc (x :: y :: l) = x ++ P_Comma :: dsepc (y :: l).
Proof. reflexivity. Qed.

Lemma dsepc_words_len (l : list word) : (length l <= length (dsepc (map (fun w => [w]) l)))%nat.
Proof.
  induction l as [|w l IH]; [cbn; lia|].
  destruct l as [|w' l']; [cbn; lia|].
  cbn [map] in *. rewrite dsepc_cons. cbn [app length] in *.
  apply le_n_S. eapply PeanoNat.Nat.le_trans; [exact IH|]. apply PeanoNat.Nat.le_succ_diag_r.
Qed.

Lemma pobjname_rt hy l : forall g P,
  l <> [] -> forallb is_wordtok l = true ->
  match P with p :: _ => is_period p = false /\ is_minus p = false | [] => True end ->
  (length l <= g)%nat -> pobjname hy g (name_toks l ++ P) = Ok (l, P).
Proof.
  induction l as [|w l IH]; intros g P Hne Hw HP Hg; [congruence|].
  destruct g as [|g]; [cbn in Hg; lia|].
  cbn [forallb] in Hw. apply andb_true_iff in Hw. destruct Hw as [Hw Hl].
  destruct l as [|w' l'].
  - cbn [name_toks app pobjname]. rewrite pident_rt by exact Hw. cbn [bind].
    destruct P as [|p r]; [reflexivity|]. destruct HP as [Hp Hm]. rewrite Hp, Hm, andb_false_r. reflexivity.
  - change (name_toks (w :: w' :: l') ++ P) with (w :: P_Period :: name_toks (w' :: l') ++ P).
    cbn [pobjname]. rewrite pident_rt by exact Hw. cbn [bind].
    change (is_minus P_Period) with false. change (is_period P_Period) with true. rewrite andb_false_r.
    rewrite IH; [reflexivity|discriminate|exact Hl|exact HP|cbn [length] in *; lia].
Qed.

Section Dialect.
  Variable d : ddialect.
  Hypothesis Hd : ddialect_ok d = true.
  Notation T := (dtab d).

  Lemma d_parts :
    lvl (dbase d) K_UNKNOWN = 0 /\ lvl (dbase d) K_AND <= lvl (dbase d) C_Between /\
    DT.family_consistent T = true /\ ddl_follow T /\ gate d ["snowflake"]%string = false.
  Proof.
    pose proof Hd as H. unfold ddialect_ok in H.
    repeat (apply andb_true_iff in H; destruct H as [H ?]).
    apply N.eqb_eq in H. repeat split; auto; try lia.
  Qed.
  Lemma d_U0 : lvl (dbase d) K_UNKNOWN = 0.  Proof. apply d_parts. Qed.
  Lemma d_Hand : lvl (dbase d) K_AND <= lvl (dbase d) C_Between.  Proof. apply d_parts. Qed.
  Lemma d_cons : DT.family_consistent T = true.  Proof. apply d_parts. Qed.
  Lemma d_follow : ddl_follow T.  Proof. apply d_parts. Qed.
  Lemma d_snow : gate d ["snowflake"]%string = false.  Proof. apply d_parts. Qed.

  Lemma word_not_end w r : is_wordtok w = true -> dcomma_end d (w :: r) = reserved d w.
  Proof.
    unfold dcomma_end, is_rparen, is_semi, is_rbracket, is_rbrace, is_wordtok.
    destruct (tv w); try discriminate. reflexivity.
  Qed.

  Lemma pcols_rt l : forall g P,
    l <> [] -> forallb is_wordtok l = true -> dtrailing d && existsb (reserved d) (tl l) = false ->
    (length l <= g)%nat ->
    pcols d g (dsepc (map (fun w => [w]) l) ++ P_RParen :: P) = Ok (l, P_RParen :: P).
  Proof.
    induction l as [|w l IH]; intros g P Hne Hw Hr Hg; [congruence|].
    destruct g as [|g]; [cbn in Hg; lia|].
    cbn [forallb] in Hw. apply andb_true_iff in Hw. destruct Hw as [Hw Hl].
    destruct l as [|w' l'].
    - cbn [map dsepc app pcols]. rewrite pident_rt by exact Hw. reflexivity.
    - cbn [map]. rewrite dsepc_cons. cbn [app pcols]. rewrite pident_rt by exact Hw. cbn [bind].
      change (is_comma P_Comma) with true. cbv iota.
      assert (Hw' : is_wordtok w' = true) by (cbn [forallb] in Hl; apply andb_true_iff in Hl; tauto).
      cbn [tl existsb] in Hr.
      assert (He : dtrailing d && dcomma_end d (dsepc (map (fun w0 => [w0]) (w' :: l')) ++ P_RParen :: P) = false).
      { destruct (dtrailing d); [|reflexivity]. cbn [andb] in *. apply orb_false_iff in Hr. destruct Hr as [Hr _].
        destruct l' as [|w'' l'']; [cbn [map dsepc app]|cbn [map]; rewrite dsepc_cons; cbn [app]];
          rewrite word_not_end by exact Hw'; exact Hr. }
      cbn [map] in He. rewrite He.
      change ([w'] :: map (fun w0 => [w0]) l') with (map (fun w0 : word => [w0]) (w' :: l')).
      rewrite IH; [reflexivity|discriminate|exact Hl| |cbn [length] in *; lia].
      destruct (dtrailing d); [|reflexivity]. cbn [andb] in *. apply orb_false_iff in Hr. destruct Hr as [_ Hr].
      cbn [tl]. exact Hr.
  Qed.

  Lemma pcollist_rt opt l g P :
    cols1_wf d l = true -> (length l <= g)%nat ->
    pcollist d opt g (cols_toks l ++ P) = Ok (l, P).
  Proof.
    intros Hw Hg. unfold cols1_wf in Hw. destruct l as [|w l]; [discriminate|].
    unfold cols_wf in Hw. apply andb_true_iff in Hw. destruct Hw as [Hw Hr]. apply negb_true_iff in Hr.
    unfold pcollist, cols_toks. cbn [app lparen_h tl]. change (is_lparen P_LParen) with true. cbv iota.
    rewrite <- app_assoc. cbn [app].
    rewrite pcols_rt; [|discriminate|exact Hw|exact Hr|exact Hg]. reflexivity.
  Qed.

  Lemma pcollist_none g P : lparen_h P = false -> pcollist d true g P = Ok ([], P).
  Proof. intro H. unfold pcollist. rewrite H. reflexivity. Qed.

  (** ** Data types *)
  Lemma dtype_rt t P :
    pfb T (dname d) t = true -> DT.follow_top T (map tv P) = true -> no_gtgt (map tv P) = true ->
    dtype d (type_toks T t ++ P) = Ok (t, P).
  Proof.
    intros Hp Hf Hg. unfold dtype, type_toks. rewrite map_app, map_tv_TT.
    pose proof (DP.round_trip_follow T (dname d) d_cons t (map tv P) (pfb_PF _ _ _ Hp) Hf) as H.
    rewrite (glue_app_nogt _ _ _ (le_n _) (follow_top_head _ _ Hf)) in H.
    rewrite (no_gtgt_glue _ Hg) in H.
    unfold DT.parse_dt. rewrite H.
    rewrite app_length, map_length.
    replace (length (DT.glue (DT.print_dt T t)) + length P - length P)%nat
      with (length (DT.glue (DT.print_dt T t))) by lia.
    rewrite skipn_map_app. reflexivity.
  Qed.

  (** ** Column options *)
  Lemma cfol_nokw post : cfol post -> hkw post = None /\ is_kh WConstraint post = false /\ is_kh WCollate post = false.
  Proof. intros (r & [E|E]); subst post; repeat split; reflexivity. Qed.

  Lemma popt_end g post : cfol post -> popt d g post = Ok (None, post).
  Proof. intros (r & [E|E]); subst post; reflexivity. Qed.

  Lemma expect_rp_hit {A} r (k : list dtok -> res A) : expect_rp (P_RParen :: r) k = k r.
  Proof. reflexivity. Qed.

  Lemma popt_rt o l post g :
    cfol post -> copt_wf d o = true -> opt_frag d o (opts_toks l ++ post) = true ->
    (length (opt_toks o ++ opts_toks l ++ post) <= g)%nat ->
    popt d g (opt_toks o ++ opts_toks l ++ post) = Ok (Some o, opts_toks l ++ post).
  Proof.
    intros Hc Hw Hf Hg. pose proof (ofacts_opts T l post d_follow Hc) as F.
    set (P := opts_toks l ++ post) in *.
    destruct o as [| |e| | |e|nm cols]; cbn [opt_toks app popt].
    - (* NOT NULL *) rewrite kwc_kt. reflexivity.
    - (* NULL *) rewrite kwc_kt. reflexivity.
    - (* DEFAULT e *)
      rewrite kwc_kt. cbn [copt_wf opt_frag] in *. rewrite (dewf_ptoks _ _ Hw).
      rewrite (dexpr_rt _ d_U0 d_Hand e P Hw Hf (of_estop _ _ F)). reflexivity.
    - (* PRIMARY KEY *) rewrite kwc_kt. cbn [is_kh tl]. rewrite is_k_kt. cbn [dkw_beq]. rewrite (of_cchar _ _ F). reflexivity.
    - (* UNIQUE *) rewrite kwc_kt. rewrite (of_cchar _ _ F). reflexivity.
    - (* CHECK (e) *)
      rewrite kwc_kt. cbn [copt_wf opt_frag] in *. rewrite (dewf_ptoks _ _ Hw).
      cbn [lparen_h tl]. change (is_lparen P_LParen) with true. cbv iota.
      rewrite <- app_assoc. cbn [app].
      rewrite (dexpr_rt _ d_U0 d_Hand e (P_RParen :: P) Hw Hf); [reflexivity|].
      repeat split; try reflexivity. discriminate.
    - (* REFERENCES *)
      rewrite kwc_kt. cbn [copt_wf] in Hw. apply andb_true_iff in Hw. destruct Hw as [Hn Hcw].
      unfold name_wf in Hn. cbn [opt_toks app length] in Hg. rewrite !app_length in Hg.
      pose proof (name_toks_len nm) as Hnl.
      destruct cols as [|c cols'].
      + rewrite app_nil_r.
        rewrite pobjname_rt; [|destruct nm; [discriminate|discriminate]|destruct nm; [discriminate|exact Hn]|exact (of_period _ _ F)|llia].
        cbn [bind]. rewrite pcollist_none by exact (of_lparen _ _ F). cbn [bind].
        rewrite (of_refact _ _ F), (of_cchar _ _ F). reflexivity.
      + rewrite <- app_assoc.
        rewrite pobjname_rt; [|destruct nm; [discriminate|discriminate]|destruct nm; [discriminate|exact Hn]|split; reflexivity|llia].
        cbn [bind].
        rewrite pcollist_rt; [|exact Hcw|].
        * cbn [bind]. rewrite (of_refact _ _ F), (of_cchar _ _ F). reflexivity.
        * pose proof (dsepc_words_len (c :: cols')) as Hcl. unfold cols_toks in Hg.
          cbn [app length] in Hg. rewrite !app_length in Hg. cbn [length] in *. llia.
  Qed.

  Lemma opt_toks_head o X : exists k r, opt_toks o ++ X = kt k :: r /\ k <> WConstraint.
  Proof. destruct o; cbn [opt_toks app]; eexists; eexists; (split; [reflexivity|discriminate]). Qed.

  Lemma opt_toks_pos o : (1 <= length (opt_toks o))%nat.
  Proof. destruct o; cbn [opt_toks length]; lia. Qed.

  Lemma popts_rt l : forall post g,
    cfol post -> forallb (coptdef_wf d) l = true -> opts_frag d l post = true ->
    (length (opts_toks l ++ post) < g)%nat ->
    popts d g (opts_toks l ++ post) = Ok (l, post).
  Proof.
    induction l as [|o l IH]; intros post g Hc Hw Hf Hg.
    - destruct g as [|g]; [lia|]. cbn [opts_toks flat_map app popts].
      destruct (cfol_nokw _ Hc) as (_ & H1 & H2). rewrite H1, (popt_end g _ Hc). cbn [bind]. rewrite H2. reflexivity.
    - destruct g as [|g]; [lia|].
      cbn [forallb] in Hw. apply andb_true_iff in Hw. destruct Hw as [Ho Hl].
      unfold coptdef_wf in Ho. apply andb_true_iff in Ho. destruct Ho as [Hon Hoo].
      cbn [opts_frag] in Hf. apply andb_true_iff in Hf. destruct Hf as [Hfo Hfl].
      cbn [opts_toks flat_map] in *. fold (opts_toks l) in *. unfold optdef_toks in *.
      rewrite <- !app_assoc in *.
      assert (Hrec : popts d g (opts_toks l ++ post) = Ok (l, post)).
      { apply IH; auto. rewrite !app_length in *. pose proof (opt_toks_pos (oopt o)). lia. }
      destruct o as [[n|] o]; cbn [oname oopt cname_toks app] in *.
      + (* CONSTRAINT n <option> *)
        cbn [popts is_kh]. rewrite is_k_kt. cbn [dkw_beq tl]. rewrite pident_rt by exact Hon. cbn [bind].
        rewrite popt_rt; auto; [|cbn [length] in Hg; lia].
        cbn [bind]. rewrite Hrec. reflexivity.
      + cbn [popts].
        destruct (opt_toks_head o (opts_toks l ++ post)) as (k & r & E & Hk).
        assert (Hnc : is_kh WConstraint (opt_toks o ++ opts_toks l ++ post) = false).
        { rewrite E. cbn [is_kh]. rewrite is_k_kt. destruct k; try reflexivity. congruence. }
        rewrite Hnc. rewrite popt_rt; auto; [|lia].
        cbn [bind]. rewrite Hrec. reflexivity.
  Qed.

  (** ** Column definitions *)
  Lemma opts_sqlite_head (l : list coptdef) post :
    cfol post ->
    (match l with o :: _ => (match oname o, oopt o with None, ONull => false | _, _ => true end) | [] => true end) = true ->
    exists t r, opts_toks l ++ post = t :: r /\
      (match tv t with DT.TWord _ => sqlite_kw t | DT.TQWord _ _ => false | _ => true end) = true.
  Proof.
    intros Hc H. destruct l as [|o l'].
    - destruct Hc as (r & [E|E]); subst post; eexists; eexists; (split; [reflexivity|reflexivity]).
    - cbn [opts_toks flat_map]. fold (opts_toks l'). unfold optdef_toks.
      destruct o as [[n|] o]; cbn [oname oopt cname_toks app] in *.
      + eexists; eexists; split; [reflexivity|reflexivity].
      + destruct o; try discriminate H; cbn [opt_toks app]; eexists; eexists; (split; [reflexivity|reflexivity]).
  Qed.

  Lemma pcoldef_rt c post g :
    cfol post -> coldef_wf d c = true -> opts_frag d (coptions c) post = true ->
    no_gtgt (map tv (opts_toks (coptions c) ++ post)) = true ->
    (length (col_toks T c ++ post) <= g)%nat ->
    pcoldef d g (col_toks T c ++ post) = Ok (c, post).
  Proof.
    intros Hc Hw Hf Hgt Hg. destruct c as [n ty os]. unfold coldef_wf in Hw. cbn [cname ctype coptions] in *.
    repeat (apply andb_true_iff in Hw; destruct Hw as [Hw ?]).
    rename Hw into Hn. rename H into Hos. rename H0 into Hty. rename H1 into Hcs.
    pose proof (ofacts_opts T os post d_follow Hc) as F.
    unfold col_toks, pcoldef. cbn [cname ctype coptions app]. rewrite pident_rt by exact Hn. cbn [bind].
    rewrite <- app_assoc.
    assert (Hpo : popts d g (opts_toks os ++ post) = Ok (os, post)).
    { apply popts_rt; auto. cbn [col_toks cname ctype coptions app length] in Hg. rewrite !app_length in *. lia. }
    unfold ctype_wf in Hty. cbn [ctype coptions] in Hty.
    destruct ty.
    all: try (
      apply andb_true_iff in Hty; destruct Hty as [Hp Hs];
      match goal with |- context [sqlite_unspec d (type_toks T ?t ++ ?X)] =>
        assert (Hu : sqlite_unspec d (type_toks T t ++ X) = false);
        [ unfold sqlite_unspec; destruct (gate d ["sqlite"]%string); [|reflexivity];
          cbn [negb orb andb] in Hs |- *;
          destruct (type_toks T t) as [|w tl0]; [discriminate Hs|];
          apply andb_true_iff in Hs; destruct Hs as [Hs1 Hs2]; apply negb_true_iff in Hs2;
          cbn [app]; unfold is_wordtok, sqlite_kw in *; destruct (tv w); try discriminate Hs1;
          destruct (kwc w) as [[]|]; try discriminate Hs2; reflexivity
        | rewrite Hu; rewrite (dtype_rt t X Hp (of_follow _ _ F) Hgt); cbn [bind];
          rewrite (of_collate _ _ F); rewrite Hpo; reflexivity ]
      end).
    (* the untyped column of SQLite *)
    apply andb_true_iff in Hty. destruct Hty as [Hsq Hfirst].
    change (type_toks T DT.DUnspecified) with (@nil dtok). cbn [app].
    destruct (opts_sqlite_head os post Hc Hfirst) as (t & r & E & Ht).
    assert (Hu : sqlite_unspec d (opts_toks os ++ post) = true).
    { unfold sqlite_unspec. rewrite Hsq, E. cbn [andb]. unfold sqlite_kw in Ht. exact Ht. }
    rewrite Hu. cbn [bind]. rewrite (of_collate _ _ F). rewrite Hpo. reflexivity.
  Qed.

  (** ** Table constraints *)
  Lemma cfol_ahead post : cfol post ->
    idxopt_ahead post = false /\ cchar_ahead post = false /\ refact_ahead post = false /\ lparen_h post = false.
  Proof. intros (r & [E|E]); subst post; repeat split; reflexivity. Qed.

  Lemma ptcons_col w r g :
    is_wordtok w = true -> cons_start d w = false -> ptcons d g (w :: r) = Ok (None, w :: r).
  Proof.
    intros _ H. unfold ptcons, is_kh, is_k, ptcbody, cons_start in *.
    destruct (kwc w) as [k|]; [|reflexivity].
    destruct k; try discriminate H; cbn [dkw_beq bind]; try rewrite H; reflexivity.
  Qed.

  Lemma ptcbody_rt b named post g :
    cfol post ->
    match b with
    | TPrimaryKey cols | TUnique cols => cols1_wf d cols
    | TCheck e => dewf (dbase d) e && efrag d e (P_RParen :: post)
    | TForeignKey cols n rcols => cols1_wf d cols && name_wf n && cols1_wf d rcols
    end = true ->
    (length (tcbody_toks b ++ post) <= g)%nat ->
    ptcbody d g named (tcbody_toks b ++ post) = Ok (Some b, post).
  Proof.
    intros Hc Hw Hg. destruct (cfol_ahead _ Hc) as (A1 & A2 & A3 & A4).
    destruct b as [cols|cols|e|cols nm rcols]; cbn [tcbody_toks app ptcbody] in *.
    - (* PRIMARY KEY (cols) *)
      rewrite kwc_kt. cbn [is_kh tl]. rewrite is_k_kt. cbn [dkw_beq].
      change (ident_ahead (cols_toks cols ++ post)) with false. cbv iota.
      rewrite pcollist_rt; [|exact Hw|].
      + cbn [bind]. rewrite A1, A2. reflexivity.
      + pose proof (dsepc_words_len cols). unfold cols_toks in Hg. cbn [app length] in Hg. rewrite !app_length in Hg. llia.
    - (* UNIQUE (cols) *)
      rewrite kwc_kt. change (hkw (cols_toks cols ++ post)) with (@None dkw).
      change (ident_ahead (cols_toks cols ++ post)) with false. cbv iota.
      rewrite pcollist_rt; [|exact Hw|].
      + cbn [bind]. rewrite A1, A2. reflexivity.
      + pose proof (dsepc_words_len cols). unfold cols_toks in Hg. cbn [app length] in Hg. rewrite !app_length in Hg. llia.
    - (* CHECK (e) *)
      apply andb_true_iff in Hw. destruct Hw as [He Hf]. rewrite kwc_kt. rewrite (dewf_ptoks _ _ He).
      cbn [lparen_h tl]. change (is_lparen P_LParen) with true. cbv iota.
      rewrite <- app_assoc. cbn [app].
      rewrite (dexpr_rt _ d_U0 d_Hand e (P_RParen :: post) He Hf); [reflexivity|].
      repeat split; try reflexivity. discriminate.
    - (* FOREIGN KEY (cols) REFERENCES nm (rcols) *)
      apply andb_true_iff in Hw. destruct Hw as [Hw Hr]. apply andb_true_iff in Hw. destruct Hw as [Hcw Hn].
      rewrite kwc_kt. cbn [is_kh tl]. rewrite is_k_kt. cbn [dkw_beq].
      pose proof (dsepc_words_len cols) as L1. pose proof (dsepc_words_len rcols) as L2. pose proof (name_toks_len nm) as L3.
      unfold cols_toks in Hg. cbn [app length] in Hg. rewrite !app_length in Hg. cbn [app length] in Hg. rewrite !app_length in Hg.
      rewrite <- app_assoc.
      rewrite pcollist_rt; [|exact Hcw|llia].
      cbn [bind app is_kh tl]. rewrite is_k_kt. cbn [dkw_beq].
      rewrite <- app_assoc.
      unfold name_wf in Hn.
      rewrite pobjname_rt; [|destruct nm; discriminate|destruct nm; [discriminate|exact Hn]|split; reflexivity|llia].
      cbn [bind].
      rewrite pcollist_rt; [|exact Hr|llia].
      cbn [bind]. rewrite A3, A2. reflexivity.
  Qed.

  Definition tc_cond (tc : tconstraint) (post : list dtok) : bool :=
    match tbody tc with TCheck e => efrag d e (P_RParen :: post) | _ => true end.

  Lemma ptcons_rt tc post g :
    cfol post -> tcons_wf d tc = true -> tc_cond tc post = true ->
    (length (tcons_toks tc ++ post) <= g)%nat ->
    ptcons d g (tcons_toks tc ++ post) = Ok (Some tc, post).
  Proof.
    intros Hc Hw Hf Hg. destruct tc as [nm b]. unfold tcons_wf, tc_cond in *. cbn [tname tbody] in *.
    apply andb_true_iff in Hw. destruct Hw as [Hn Hb].
    assert (Hb' : match b with
                  | TPrimaryKey cols | TUnique cols => cols1_wf d cols
                  | TCheck e => dewf (dbase d) e && efrag d e (P_RParen :: post)
                  | TForeignKey cols n rcols => cols1_wf d cols && name_wf n && cols1_wf d rcols
                  end = true).
    { destruct b; auto. rewrite Hb, Hf. reflexivity. }
    unfold tcons_toks, ptcons in *. cbn [tname tbody] in *. destruct nm as [n|]; cbn [cname_toks app oword_wf] in *.
    - cbn [is_kh tl]. rewrite is_k_kt. cbn [dkw_beq]. rewrite pident_rt by exact Hn. cbn [bind].
      rewrite ptcbody_rt; auto; llia.
    - assert (Hk : is_kh WConstraint (tcbody_toks b ++ post) = false).
      { destruct b; cbn [tcbody_toks app is_kh]; rewrite is_k_kt; reflexivity. }
      rewrite Hk. rewrite ptcbody_rt; auto; llia.
  Qed.

  (** ** The element list *)
  Definition elem_wf (el : elem) : bool :=
    match el with inl c => coldef_wf d c | inr t => tcons_wf d t end.
  Definition split_elems (els : list elem) : list column_def * list tconstraint :=
    fold_right add_elem ([], []) els.

  Lemma split_elems_of cols cons : split_elems (map inl cols ++ map inr cons) = (cols, cons).
  Proof.
    unfold split_elems. induction cols as [|c cols IH]; cbn [map app fold_right].
    - induction cons as [|t cons IH]; [reflexivity|]. cbn [map fold_right]. rewrite IH. reflexivity.
    - rewrite IH. reflexivity.
  Qed.

  Lemma elem_rt el post g :
    cfol post -> elem_wf el = true -> elem_frag d el post = true ->
    no_gtgt (map tv (elem_toks T el ++ post)) = true ->
    (length (elem_toks T el ++ post) <= g)%nat ->
    pelem d g (elem_toks T el ++ post) = Ok (el, post).
  Proof.
    intros Hc Hw Hf Hgt Hg. unfold pelem. destruct el as [c|tc]; cbn [elem_toks elem_wf elem_frag] in *.
    - pose proof Hw as Hw0. unfold coldef_wf in Hw0.
      repeat (apply andb_true_iff in Hw0; destruct Hw0 as [Hw0 ?]).
      apply negb_true_iff in H1.
      assert (Hp : pcoldef d g (col_toks T c ++ post) = Ok (c, post)).
      { apply pcoldef_rt; auto.
        unfold col_toks in Hgt. cbn [app] in Hgt. rewrite <- app_assoc in Hgt.
        apply (no_gtgt_app (map tv (cname c :: type_toks T (ctype c)))). rewrite <- map_app. exact Hgt. }
      unfold col_toks in *. cbn [app] in *. rewrite ptcons_col by assumption. cbn [bind].
      unfold is_wordtok in Hw0. destruct (tv (cname c)) eqn:E; try discriminate Hw0.
      rewrite Hp. reflexivity.
    - rewrite ptcons_rt; auto.
  Qed.

  Lemma elem_head el X : elem_wf el = true -> rparen_h (elem_toks T el ++ X) = false.
  Proof.
    destruct el as [c|tc]; cbn [elem_toks elem_wf]; intro H.
    - unfold coldef_wf in H. repeat (apply andb_true_iff in H; destruct H as [H ?]).
      unfold col_toks. cbn [app rparen_h]. unfold is_wordtok in H. unfold is_rparen. destruct (tv (cname c)); try discriminate H; reflexivity.
    - unfold tcons_toks. destruct (tname tc); cbn [cname_toks app]; [reflexivity|].
      destruct (tbody tc); reflexivity.
  Qed.

  Lemma elem_toks_pos el : elem_wf el = true -> (1 <= length (elem_toks T el))%nat.
  Proof.
    destruct el as [c|tc]; cbn [elem_toks]; intros _.
    - unfold col_toks. cbn [length]. lia.
    - unfold tcons_toks. rewrite app_length. destruct (tbody tc); cbn [tcbody_toks length]; lia.
  Qed.

  Lemma dsepc_follow (x : elem) suf post :
    dsepc (map (elem_toks T) (x :: suf)) ++ post = elem_toks T x ++ efollow T suf post.
  Proof.
    destruct suf as [|y suf]; [reflexivity|]. cbn [map]. rewrite dsepc_cons. unfold efollow.
    rewrite <- app_assoc. reflexivity.
  Qed.

  Lemma pelems_rt els : forall rest g,
    els <> [] -> forallb elem_wf els = true -> elems_frag d els (P_RParen :: rest) = true ->
    no_gtgt (map tv (dsepc (map (elem_toks T) els) ++ P_RParen :: rest)) = true ->
    (length (dsepc (map (elem_toks T) els) ++ P_RParen :: rest) < g)%nat ->
    pelems d g (dsepc (map (elem_toks T) els) ++ P_RParen :: rest) = Ok (split_elems els, rest).
  Proof.
    induction els as [|el suf IH]; intros rest g Hne Hw Hf Hgt Hg; [congruence|].
    destruct g as [|g]; [lia|].
    cbn [forallb] in Hw. apply andb_true_iff in Hw. destruct Hw as [Hel Hsuf].
    cbn [elems_frag] in Hf. apply andb_true_iff in Hf. destruct Hf as [Hfe Hfs].
    rewrite dsepc_follow in *. cbn [pelems].
    assert (Hc : cfol (efollow T suf (P_RParen :: rest))).
    { destruct suf; [exists rest; right; reflexivity|eexists; left; reflexivity]. }
    pose proof (elem_toks_pos el Hel) as Hpos.
    rewrite elem_rt; auto; [|lia]. cbn [bind].
    destruct suf as [|y suf'].
    - cbn [efollow]. change (is_comma P_RParen) with false. cbv iota.
      change (rparen_h (P_RParen :: rest)) with true. cbn [negb andb orb tl]. reflexivity.
    - cbn [efollow]. change (is_comma P_Comma) with true. cbv iota. cbn [tl].
      cbn [forallb] in Hsuf. pose proof Hsuf as Hy. apply andb_true_iff in Hy. destruct Hy as [Hy _].
      rewrite dsepc_follow. rewrite (elem_head y _ Hy). cbn [negb andb].
      rewrite <- dsepc_follow.
      rewrite IH; [reflexivity|discriminate|exact Hsuf|exact Hfs| |].
      + cbn [efollow] in Hgt. rewrite map_app in Hgt. apply no_gtgt_app in Hgt. cbn [map] in Hgt.
        apply (no_gtgt_app [tv P_Comma]). exact Hgt.
      + cbn [efollow] in Hg. rewrite app_length in Hg. cbn [length] in Hg. lia.
  Qed.

  Lemma pcolumns_rt els rest g :
    forallb elem_wf els = true -> elems_frag d els (P_RParen :: rest) = true ->
    no_gtgt (map tv (dsepc (map (elem_toks T) els) ++ P_RParen :: rest)) = true ->
    (length (dsepc (map (elem_toks T) els) ++ P_RParen :: rest) < g)%nat ->
    pcolumns d g (P_LParen :: dsepc (map (elem_toks T) els) ++ P_RParen :: rest) = Ok (split_elems els, rest).
  Proof.
    intros Hw Hf Hgt Hg. unfold pcolumns. cbn [lparen_h tl]. change (is_lparen P_LParen) with true. cbv iota.
    destruct els as [|el suf].
    - reflexivity.
    - cbn [forallb] in Hw. pose proof Hw as Hy. apply andb_true_iff in Hy. destruct Hy as [Hy _].
      rewrite dsepc_follow. rewrite (elem_head el _ Hy). rewrite <- dsepc_follow.
      apply pelems_rt; auto. discriminate.
  Qed.

  (** ** The statement *)
  Lemma is_kh_kt k k' X : is_kh k (kt k' :: X) = dkw_beq k k'.
  Proof. cbn [is_kh]. apply is_k_kt. Qed.

  Lemma name_head_if nm X : nm <> [] ->
    opt3 WIf WNot WExists (name_toks nm ++ P_LParen :: X) = (false, name_toks nm ++ P_LParen :: X).
  Proof.
    intro Hne. unfold opt3. destruct nm as [|w [|w' nm']]; [congruence| |].
    - cbn [name_toks app tl]. change (is_kh WNot (P_LParen :: X)) with false. rewrite andb_false_r. reflexivity.
    - change (name_toks (w :: w' :: nm') ++ P_LParen :: X) with (w :: P_Period :: name_toks (w' :: nm') ++ P_LParen :: X).
      cbn [tl]. change (is_kh WNot (P_Period :: name_toks (w' :: nm') ++ P_LParen :: X)) with false.
      rewrite andb_false_r. reflexivity.
  Qed.

  Lemma dender_clause rest : dender rest = true -> clause_ahead rest = false.
  Proof.
    destruct rest as [|t r]; [reflexivity|]. cbn [dender]. unfold clause_ahead, hkw, kwc, is_semi.
    destruct (tv t); try discriminate; reflexivity.
  Qed.

  Lemma ptable_rt (orr tmp ine : bool) nm els rest fuel :
    name_wf nm = true -> forallb elem_wf els = true -> elems_frag d els (P_RParen :: rest) = true ->
    no_gtgt (map tv (dsepc (map (elem_toks T) els) ++ P_RParen :: rest)) = true -> dender rest = true ->
    (length (name_toks nm ++ P_LParen :: dsepc (map (elem_toks T) els) ++ P_RParen :: rest) < fuel)%nat ->
    ptable d fuel orr tmp
      ((if ine then [kt WIf; kt WNot; kt WExists] else []) ++ name_toks nm ++
       P_LParen :: dsepc (map (elem_toks T) els) ++ P_RParen :: rest) =
    Ok ({| or_replace := orr; temporary := tmp; if_not_exists := ine; tbl_name := nm;
           columns := fst (split_elems els); constraints := snd (split_elems els) |}, rest).
  Proof.
    intros Hnm Hels Hfr Hgt He Hlen.
    assert (Hne : nm <> []) by (destruct nm; [discriminate|discriminate]).
    assert (Hnw : forallb is_wordtok nm = true) by (destruct nm; [discriminate|exact Hnm]).
    set (body := P_LParen :: dsepc (map (elem_toks T) els) ++ P_RParen :: rest) in *.
    assert (Hopt : opt3 WIf WNot WExists ((if ine then [kt WIf; kt WNot; kt WExists] else []) ++ name_toks nm ++ body)
                   = (ine, name_toks nm ++ body)).
    { destruct ine; [reflexivity|]. cbn [app]. apply name_head_if. exact Hne. }
    unfold ptable. rewrite Hopt.
    pose proof (name_toks_len nm) as Hnl.
    rewrite pobjname_rt; [|exact Hne|exact Hnw|split; reflexivity|rewrite app_length in Hlen; unfold word in *; lia].
    cbn [bind]. unfold body.
    change (is_kh WOn (P_LParen :: dsepc (map (elem_toks T) els) ++ P_RParen :: rest)) with false.
    change (is_kh WLike (P_LParen :: dsepc (map (elem_toks T) els) ++ P_RParen :: rest)) with false.
    change (is_kh WILike (P_LParen :: dsepc (map (elem_toks T) els) ++ P_RParen :: rest)) with false.
    change (is_kh WClone (P_LParen :: dsepc (map (elem_toks T) els) ++ P_RParen :: rest)) with false.
    cbn [andb orb].
    rewrite pcolumns_rt; [|exact Hels|exact Hfr|exact Hgt|].
    - cbn [bind]. rewrite (dender_clause _ He). reflexivity.
    - unfold body in Hlen. rewrite app_length in Hlen. cbn [length] in Hlen. lia.
  Qed.

  (** The round trip of the DDL core: for every well-formed CREATE TABLE tree [c] whose printed tokens pass
      the syntactic fragment test, whatever ends the statement: parsing the printed tokens gives [c] back
      and leaves the rest, for every fuel above the number of tokens. *)
  Theorem ddl_roundtrip c rest fuel :
    dwf d c = true -> dfrag d c rest = true -> dender rest = true ->
    (length (dtoks T c ++ rest) < fuel)%nat ->
    parse_create_table_core d fuel (dtoks T c ++ rest) = Ok (c, rest).
  Proof.
    intros Hw Hf He Hg. destruct c as [orr tmp ine nm cols cons].
    unfold dwf in Hw. cbn [tbl_name columns constraints] in Hw.
    apply andb_true_iff in Hw. destruct Hw as [Hw Hcons]. apply andb_true_iff in Hw. destruct Hw as [Hnm Hcols].
    unfold dfrag in Hf. apply andb_true_iff in Hf. destruct Hf as [Hgt Hfr].
    unfold elems_of in Hfr. cbn [columns constraints] in Hfr.
    set (els := map inl cols ++ map inr cons) in *.
    assert (Hels : forallb elem_wf els = true).
    { unfold els. rewrite forallb_app. apply andb_true_iff. split; rewrite forallb_forall in *.
      - intros x Hx. apply in_map_iff in Hx. destruct Hx as (c & <- & Hc). apply Hcols. exact Hc.
      - intros x Hx. apply in_map_iff in Hx. destruct Hx as (c & <- & Hc). apply Hcons. exact Hc. }
    assert (E : dtoks T {| or_replace := orr; temporary := tmp; if_not_exists := ine; tbl_name := nm;
                            columns := cols; constraints := cons |} ++ rest =
                kt WCreate :: (if orr then [kt WOr; kt WReplace] else []) ++ (if tmp then [kt WTemporary] else []) ++
                kt WTable :: (if ine then [kt WIf; kt WNot; kt WExists] else []) ++ name_toks nm ++
                P_LParen :: dsepc (map (elem_toks T) els) ++ P_RParen :: rest).
    { unfold dtoks, head_toks, elems_toks, els. cbn [or_replace temporary if_not_exists tbl_name columns constraints].
      rewrite map_app, !map_map. cbn [elem_toks]. cbn [app].
      repeat (rewrite <- app_assoc; cbn [app]). reflexivity. }
    rewrite E in *.
    set (body := P_LParen :: dsepc (map (elem_toks T) els) ++ P_RParen :: rest) in *.
    assert (Hgt' : no_gtgt (map tv (dsepc (map (elem_toks T) els) ++ P_RParen :: rest)) = true).
    { apply (no_gtgt_map_app [kt WCreate]) in Hgt. do 2 apply no_gtgt_map_app in Hgt.
      apply (no_gtgt_map_app [kt WTable]) in Hgt. do 2 apply no_gtgt_map_app in Hgt.
      unfold body in Hgt. apply (no_gtgt_map_app [P_LParen]) in Hgt. exact Hgt. }
    assert (Hlen : (length (name_toks nm ++ body) < fuel)%nat).
    { rewrite app_length. cbn [length] in Hg. rewrite !app_length in Hg. cbn [length] in Hg. rewrite !app_length in Hg. lia. }
    pose proof (ptable_rt orr tmp ine nm els rest fuel Hnm Hels Hfr Hgt' He Hlen) as Hpt.
    assert (Hsp : split_elems els = (cols, cons)) by (unfold els; apply split_elems_of).
    rewrite Hsp in Hpt. cbn [fst snd] in Hpt. fold body in Hpt.
    unfold parse_create_table_core. rewrite d_snow. rewrite is_kh_kt. cbn [dkw_beq tl].
    unfold opt2, opt1.
    destruct orr, tmp; cbn [app]; rewrite ?is_kh_kt; cbn [dkw_beq andb orb tl]; rewrite ?is_kh_kt; cbn [dkw_beq andb orb tl];
      destruct (gate d ["duckdb"]%string); rewrite ?is_kh_kt; cbn [dkw_beq andb orb tl]; exact Hpt.
  Qed.

  (** printing is injective on well-formed tables *)
  Theorem dtoks_injective c1 c2 :
    dwf d c1 = true -> dwf d c2 = true -> dfrag d c1 [] = true -> dfrag d c2 [] = true ->
    dtoks T c1 = dtoks T c2 -> c1 = c2.
  Proof.
    intros H1 H2 F1 F2 E.
    set (m := S (length (dtoks T c1 ++ []))).
    assert (R1 : parse_create_table_core d m (dtoks T c1 ++ []) = Ok (c1, [])).
    { apply ddl_roundtrip; auto; subst m; lia. }
    assert (R2 : parse_create_table_core d m (dtoks T c2 ++ []) = Ok (c2, [])).
    { apply ddl_roundtrip; auto; subst m; rewrite E; lia. }
    rewrite <- E in R2. rewrite R1 in R2. inversion R2. reflexivity.
  Qed.
End Dialect.
