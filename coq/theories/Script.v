(** Script.v — C11 at the level of the interface: the statement loop [parse_statements],
    generic in the statement parser.

    [Local stmt d ts a]: wherever the tokens [ts] stand, followed by a separator [;] or the end
    of input, [stmt] returns [a] and stops exactly behind [ts] (it consumes neither the
    separator nor anything after it, and is blind to it).  From that, for every number of
    statements and every separator layout (one or more [;] between statements, any number
    before the first and after the last, whitespace anywhere):
      - [C11_script]: the script parses to exactly the statements' values, in order;
      - [C11_needs_separator]: two statements that are not separated by [;] are rejected by the
        loop with "end of statement" (a statement cannot absorb its successor through the loop). *)
Require Import SqlV.Base SqlV.Machine SqlV.MachineProofs SqlV.LimitMono SqlV.CommaList.
From Coq Require Import Arith.

Definition stmt_end (t : token) : bool := token_eqb t (TP PSemi) || token_eqb t TEOF.

Record semi := { m_ws : list twl; m_semi : twl }.
Definition semi_ok (m : semi) : Prop := all_ws (m_ws m) /\ tok (m_semi m) = TP PSemi.
Fixpoint semis_toks (l : list semi) : list twl :=
  match l with [] => [] | m :: r => (m_ws m ++ [m_semi m]) ++ semis_toks r end.
Fixpoint all_semi_ok (l : list semi) : Prop :=
  match l with [] => True | m :: r => semi_ok m /\ all_semi_ok r end.

Lemma match_not_eof {X} (t : token) (x y : X) :
  t <> TEOF -> match t with TEOF => x | _ => y end = y.
Proof. destruct t; congruence. Qed.

(** Skipping a run of separators. *)
Lemma skip_semis_run d s : forall l pre0 rest0 n,
  all_semi_ok l -> toks s = pre0 ++ semis_toks l ++ rest0 ->
  token_eqb (first_tok rest0) (TP PSemi) = false -> (length l < n)%nat ->
  skip_semis n d (set_idx (length pre0) s) = (Ok tt, set_idx (length pre0 + length (semis_toks l)) s).
Proof.
  induction l as [|m l IH]; intros pre0 rest0 n Hok Ht Hns Hn.
  - destruct n; [cbn in Hn; lia|]. cbn [skip_semis semis_toks app] in *. unfold bind.
    unfold consume_token, bind. rewrite (peek_at d s pre0 _ Ht). unfold first_tok in Hns. rewrite Hns.
    cbn [length]. rewrite Nat.add_0_r. reflexivity.
  - destruct n; [cbn in Hn; lia|]. destruct Hok as [[Hws Hc] Hok]. cbn [skip_semis semis_toks] in *. unfold bind.
    assert (Hcw : is_ws (m_semi m) = false) by (unfold is_ws; rewrite Hc; reflexivity).
    assert (Ht1 : toks s = pre0 ++ m_ws m ++ m_semi m :: (semis_toks l ++ rest0))
      by (rewrite Ht; rewrite <- !app_assoc; reflexivity).
    rewrite (consume_at _ d s pre0 (m_ws m) (m_semi m) _ Ht1 Hws Hcw). rewrite Hc.
    change (token_eqb (TP PSemi) (TP PSemi)) with true. cbv iota.
    assert (Ht2 : toks s = (pre0 ++ m_ws m ++ [m_semi m]) ++ semis_toks l ++ rest0)
      by (rewrite Ht; rewrite <- !app_assoc; reflexivity).
    replace (length pre0 + length (m_ws m) + 1)%nat with (length (pre0 ++ m_ws m ++ [m_semi m]))
      by (rewrite !app_length; cbn [length]; lia).
    rewrite (IH _ rest0 n Hok Ht2 Hns) by (cbn in Hn; lia).
    f_equal. f_equal. rewrite !app_length. cbn [length]. lia.
Qed.

Lemma skip_all_semis_run d s l pre0 rest0 :
  all_semi_ok l -> toks s = pre0 ++ semis_toks l ++ rest0 ->
  token_eqb (first_tok rest0) (TP PSemi) = false ->
  skip_all_semis d (set_idx (length pre0) s) = (Ok tt, set_idx (length pre0 + length (semis_toks l)) s).
Proof.
  intros Hok Ht Hns. unfold skip_all_semis. cbn [toks set_idx].
  apply skip_semis_run with (rest0 := rest0); auto.
  assert (length l <= length (semis_toks l))%nat.
  { clear. induction l; cbn [semis_toks length]; [lia|]. rewrite !app_length. cbn [length]. lia. }
  rewrite Ht, !app_length. lia.
Qed.

Lemma first_tok_semis l rest0 : all_semi_ok l -> l <> [] -> first_tok (semis_toks l ++ rest0) = TP PSemi.
Proof.
  destruct l as [|m l]; [congruence|]. intros [[Hws Hc] _] _. cbn [semis_toks].
  rewrite <- !app_assoc. rewrite first_tok_ws by assumption. unfold first_tok. cbn [app peek_from].
  assert (is_ws (m_semi m) = false) as -> by (unfold is_ws; rewrite Hc; reflexivity). exact Hc.
Qed.

Section Script.
  Variable A : Type.
  Variable stmt : M A.
  Variable d : dial.

  Definition Local (ts : list twl) (a : A) : Prop :=
    forall pre rest s, toks s = pre ++ ts ++ rest -> stmt_end (first_tok rest) = true ->
      stmt d (set_idx (length pre) s) = (Ok a, set_idx (length pre + length ts) s).

  (** A statement text has a first proper token, which is neither [;] nor EOF. *)
  Definition starts_stmt (ts : list twl) : Prop :=
    exists l t r, ts = l ++ t :: r /\ all_ws l /\ is_ws t = false /\
                  token_eqb (tok t) (TP PSemi) = false /\ tok t <> TEOF.

  Lemma starts_first ts x : starts_stmt ts ->
    token_eqb (first_tok (ts ++ x)) (TP PSemi) = false /\ first_tok (ts ++ x) <> TEOF.
  Proof.
    intros (l & t & r & -> & Hl & Ht & Hs & He). rewrite <- app_assoc. rewrite first_tok_ws by assumption.
    unfold first_tok. cbn [app peek_from]. rewrite Ht. auto.
  Qed.

  (** statements after the first: one or more separators, then the statement *)
  Fixpoint script_text (first : list twl) (more : list (list semi * list twl)) : list twl :=
    match more with
    | [] => first
    | (seps, ts) :: m => first ++ semis_toks seps ++ script_text ts m
    end.
  Fixpoint wf_script (more : list (list semi * list twl)) (vals : list A) : Prop :=
    match more, vals with
    | [], [] => True
    | (seps, ts) :: m, a :: v => seps <> [] /\ all_semi_ok seps /\ Local ts a /\ starts_stmt ts /\ wf_script m v
    | _, _ => False
    end.

  Lemma script_text_first ts more x : starts_stmt ts ->
    token_eqb (first_tok (script_text ts more ++ x)) (TP PSemi) = false /\ first_tok (script_text ts more ++ x) <> TEOF.
  Proof.
    intro H. destruct more as [|[seps ts'] m]; cbn [script_text].
    - apply starts_first; assumption.
    - rewrite <- app_assoc. apply starts_first; assumption.
  Qed.

  Lemma loop_script : forall blk more vals ts a pre seps trail tail s n expecting acc,
    Local ts a -> starts_stmt ts -> wf_script more vals ->
    all_semi_ok seps -> (expecting = true -> seps <> []) -> all_semi_ok trail ->
    toks s = pre ++ semis_toks seps ++ script_text ts more ++ semis_toks trail ++ tail ->
    first_tok tail = TEOF ->
    (length vals + 1 < n)%nat ->
    fst (statements_loop blk n stmt expecting acc d (set_idx (length pre) s)) = Ok (rev acc ++ a :: vals).
  Proof.
    intro blk. induction more as [|[seps' ts'] m IH];
      intros vals ts a pre seps trail tail s n expecting acc Hloc Hst Hwf Hseps Hexp Htrail Ht Heof Hn.
    - (* last statement *)
      destruct vals; [|contradiction]. cbn [script_text] in Ht.
      destruct n as [|n]; [lia|]. cbn [statements_loop]. unfold bind at 1.
      rewrite (peek_at d s pre _ Ht). unfold bind at 1.
      destruct (starts_first ts (semis_toks trail ++ tail) Hst) as [Hns Hne].
      rewrite (skip_all_semis_run d s seps pre _ Hseps Ht Hns). unfold bind at 1.
      assert (Ht1 : toks s = (pre ++ semis_toks seps) ++ ts ++ semis_toks trail ++ tail)
        by (rewrite Ht, <- !app_assoc; reflexivity).
      replace (length pre + length (semis_toks seps))%nat with (length (pre ++ semis_toks seps)) by (rewrite app_length; reflexivity).
      rewrite (peek_at d s _ _ Ht1). fold (first_tok (ts ++ semis_toks trail ++ tail)).
      rewrite (match_not_eof _ _ _ Hne).
      assert (Hexp' : (if token_eqb (tok (peek_from (semis_toks seps ++ ts ++ semis_toks trail ++ tail) 0)) (TP PSemi) then false else expecting) = false).
      { destruct seps as [|m0 seps0].
        - destruct expecting; [exfalso; apply Hexp; reflexivity|].
          match goal with |- (if ?c then _ else _) = _ => destruct c end; reflexivity.
        - fold (first_tok (semis_toks (m0 :: seps0) ++ ts ++ semis_toks trail ++ tail)).
          rewrite first_tok_semis by (auto; discriminate). reflexivity. }
      rewrite Hexp', Bool.andb_false_r. cbn [andb]. unfold bind at 1.
      assert (Hend : stmt_end (first_tok (semis_toks trail ++ tail)) = true).
      { unfold stmt_end. destruct trail as [|m0 t0].
        - cbn [semis_toks app]. rewrite Heof. reflexivity.
        - rewrite first_tok_semis by (auto; discriminate). reflexivity. }
      rewrite (Hloc _ _ s Ht1 Hend).
      (* the final iteration *)
      destruct n as [|n]; [lia|]. cbn [statements_loop]. unfold bind at 1.
      assert (Ht2 : toks s = (pre ++ semis_toks seps ++ ts) ++ semis_toks trail ++ tail)
        by (rewrite Ht, <- !app_assoc; reflexivity).
      replace (length (pre ++ semis_toks seps) + length ts)%nat with (length (pre ++ semis_toks seps ++ ts))
        by (rewrite !app_length; lia).
      rewrite (peek_at d s _ _ Ht2). unfold bind at 1.
      assert (Hns2 : token_eqb (first_tok tail) (TP PSemi) = false) by (rewrite Heof; reflexivity).
      rewrite (skip_all_semis_run d s trail _ tail Htrail Ht2 Hns2). unfold bind at 1.
      assert (Ht3 : toks s = ((pre ++ semis_toks seps ++ ts) ++ semis_toks trail) ++ tail)
        by (rewrite Ht, <- !app_assoc; reflexivity).
      replace (length (pre ++ semis_toks seps ++ ts) + length (semis_toks trail))%nat
        with (length ((pre ++ semis_toks seps ++ ts) ++ semis_toks trail)) by (rewrite !app_length; lia).
      rewrite (peek_at d s _ _ Ht3). fold (first_tok tail). rewrite Heof.
      cbn [ret fst rev]. reflexivity.
    - destruct vals as [|a' v]; [contradiction|]. cbn [wf_script] in Hwf.
      destruct Hwf as (Hne' & Hseps' & Hloc' & Hst' & Hwf). cbn [script_text] in Ht.
      destruct n as [|n]; [lia|]. cbn [statements_loop]. unfold bind at 1.
      rewrite (peek_at d s pre _ Ht). unfold bind at 1.
      assert (Ht0 : toks s = pre ++ semis_toks seps ++ (ts ++ semis_toks seps' ++ script_text ts' m ++ semis_toks trail ++ tail))
        by (rewrite Ht, <- !app_assoc; reflexivity).
      destruct (starts_first ts (semis_toks seps' ++ script_text ts' m ++ semis_toks trail ++ tail) Hst) as [Hns Hne].
      rewrite (skip_all_semis_run d s seps pre _ Hseps Ht0 Hns). unfold bind at 1.
      assert (Ht1 : toks s = (pre ++ semis_toks seps) ++ ts ++ (semis_toks seps' ++ script_text ts' m ++ semis_toks trail ++ tail))
        by (rewrite Ht, <- !app_assoc; reflexivity).
      replace (length pre + length (semis_toks seps))%nat with (length (pre ++ semis_toks seps)) by (rewrite app_length; reflexivity).
      rewrite (peek_at d s _ _ Ht1). fold (first_tok (ts ++ semis_toks seps' ++ script_text ts' m ++ semis_toks trail ++ tail)).
      rewrite (match_not_eof _ _ _ Hne).
      assert (Hexp' : (if token_eqb (tok (peek_from (semis_toks seps ++ (ts ++ semis_toks seps' ++ script_text ts' m) ++ semis_toks trail ++ tail) 0)) (TP PSemi) then false else expecting) = false).
      { destruct seps as [|m0 seps0].
        - destruct expecting; [exfalso; apply Hexp; reflexivity|].
          match goal with |- (if ?c then _ else _) = _ => destruct c end; reflexivity.
        - fold (first_tok (semis_toks (m0 :: seps0) ++ (ts ++ semis_toks seps' ++ script_text ts' m) ++ semis_toks trail ++ tail)).
          rewrite first_tok_semis by (auto; discriminate). reflexivity. }
      rewrite Hexp', Bool.andb_false_r. cbn [andb]. unfold bind at 1.
      assert (Hend : stmt_end (first_tok (semis_toks seps' ++ script_text ts' m ++ semis_toks trail ++ tail)) = true).
      { unfold stmt_end. rewrite first_tok_semis by auto. reflexivity. }
      rewrite (Hloc _ _ s Ht1 Hend).
      assert (Ht2 : toks s = (pre ++ semis_toks seps ++ ts) ++ semis_toks seps' ++ script_text ts' m ++ semis_toks trail ++ tail)
        by (rewrite Ht, <- !app_assoc; reflexivity).
      replace (length (pre ++ semis_toks seps) + length ts)%nat with (length (pre ++ semis_toks seps ++ ts))
        by (rewrite !app_length; lia).
      rewrite (IH v ts' a' _ seps' trail tail s n true (a :: acc) Hloc' Hst' Hwf Hseps' (fun _ => Hne') Htrail Ht2 Heof)
        by (cbn [length] in Hn; lia).
      cbn [rev]. rewrite <- app_assoc. reflexivity.
  Qed.

  (** The script theorem. *)
  Theorem C11_script : forall more vals ts a lead trail tail s fuel,
    Local ts a -> starts_stmt ts -> wf_script more vals ->
    all_semi_ok lead -> all_semi_ok trail ->
    toks s = semis_toks lead ++ script_text ts more ++ semis_toks trail ++ tail ->
    first_tok tail = TEOF -> idx s = 0%nat ->
    (length vals + 1 < fuel)%nat ->
    fst (parse_statements fuel stmt d s) = Ok (a :: vals).
  Proof.
    intros more vals ts a lead trail tail s fuel Hl Hs Hwf Hlead Htrail Ht Heof Hi Hn.
    unfold parse_statements.
    replace s with (set_idx (length (@nil twl)) s) at 1 by (destruct s; cbn in *; subst; reflexivity).
    rewrite (loop_script false more vals ts a [] lead trail tail s fuel false [] Hl Hs Hwf Hlead); auto.
    discriminate.
  Qed.

  (** Negative half: after a statement, anything but [;] or EOF is "end of statement" -- END
      included: only the body of a BEGIN .. END block ([parse_statement_block]) stops there. *)
  Theorem C11_needs_separator : forall ts a rest s fuel,
    Local ts a -> starts_stmt ts ->
    toks s = ts ++ rest -> idx s = 0%nat ->
    stmt_end (first_tok rest) = false ->
    (1 < fuel)%nat ->
    (forall pre r s', toks s' = pre ++ ts ++ r -> stmt d (set_idx (length pre) s') = (Ok a, set_idx (length pre + length ts) s')) ->
    fst (parse_statements fuel stmt d s) = Err (Syntax (expected_msg (s2l "end of statement") (peek_from rest 0))).
  Proof.
    intros ts a rest s fuel Hl Hs Ht Hi Hne Hn Hany.
    unfold parse_statements. destruct fuel as [|n]; [lia|]. destruct n as [|n]; [lia|].
    replace s with (set_idx (length (@nil twl)) s) at 1 by (destruct s; cbn in *; subst; reflexivity).
    assert (Ht0 : toks s = [] ++ semis_toks [] ++ ts ++ rest) by (cbn; exact Ht).
    destruct (starts_first ts rest Hs) as [Hns Hnf].
    cbn [statements_loop]. unfold bind at 1. rewrite (peek_at d s [] _ Ht0). unfold bind at 1.
    rewrite (skip_all_semis_run d s [] [] _ I Ht0 Hns). unfold bind at 1.
    change (length (@nil twl) + length (semis_toks []))%nat with (length (@nil twl)).
    rewrite (peek_at d s [] _ Ht0). cbn [semis_toks app].
    fold (first_tok (ts ++ rest)). rewrite (match_not_eof _ _ _ Hnf).
    rewrite Hns. cbn [andb]. unfold bind at 1.
    rewrite (Hany [] rest s Ht).
    (* second iteration *)
    change (length (@nil twl) + length ts)%nat with (length ts). unfold bind at 1.
    assert (Ht1 : toks s = ts ++ rest) by exact Ht.
    rewrite (peek_at d s ts _ Ht1). unfold bind at 1.
    unfold stmt_end in Hne. apply orb_false_iff in Hne as [Hn1 Hn2].
    assert (Ht2 : toks s = ts ++ semis_toks [] ++ rest) by exact Ht.
    rewrite (skip_all_semis_run d s [] ts _ I Ht2 Hn1). unfold bind at 1.
    cbn [semis_toks length]. rewrite Nat.add_0_r. rewrite (peek_at d s ts _ Ht1).
    fold (first_tok rest). rewrite Hn1.
    assert (Hnf2 : first_tok rest <> TEOF).
    { intro E. rewrite E in Hn2. discriminate. }
    rewrite (match_not_eof _ _ _ Hnf2). cbn [andb]. reflexivity.
  Qed.
  (** The body of a BEGIN .. END block: after a statement the list ends in front of END, which
      is left for the caller ([parse_create_procedure] expects it next). *)
  Theorem block_stops_at_end : forall ts a rest s fuel,
    Local ts a -> starts_stmt ts ->
    toks s = ts ++ rest -> idx s = 0%nat ->
    is_kw (s2l "END") (peek_from rest 0) = true ->
    (1 < fuel)%nat ->
    (forall pre r s', toks s' = pre ++ ts ++ r -> stmt d (set_idx (length pre) s') = (Ok a, set_idx (length pre + length ts) s')) ->
    fst (parse_statement_block fuel stmt d s) = Ok [a].
  Proof.
    intros ts a rest s fuel Hl Hs Ht Hi Hend Hn Hany.
    assert (Hw : exists w q k, tok (peek_from rest 0) = TWord w q k).
    { unfold is_kw in Hend. destruct (tok (peek_from rest 0)); try discriminate. eauto. }
    destruct Hw as (w & q & k & Hw).
    assert (Hn1 : token_eqb (first_tok rest) (TP PSemi) = false) by (unfold first_tok; rewrite Hw; reflexivity).
    assert (Hnf2 : first_tok rest <> TEOF) by (unfold first_tok; rewrite Hw; discriminate).
    unfold parse_statement_block. destruct fuel as [|n]; [lia|]. destruct n as [|n]; [lia|].
    replace s with (set_idx (length (@nil twl)) s) at 1 by (destruct s; cbn in *; subst; reflexivity).
    assert (Ht0 : toks s = [] ++ semis_toks [] ++ ts ++ rest) by (cbn; exact Ht).
    destruct (starts_first ts rest Hs) as [Hns Hnf].
    cbn [statements_loop]. unfold bind at 1. rewrite (peek_at d s [] _ Ht0). unfold bind at 1.
    rewrite (skip_all_semis_run d s [] [] _ I Ht0 Hns). unfold bind at 1.
    change (length (@nil twl) + length (semis_toks []))%nat with (length (@nil twl)).
    rewrite (peek_at d s [] _ Ht0). cbn [semis_toks app].
    fold (first_tok (ts ++ rest)). rewrite (match_not_eof _ _ _ Hnf).
    rewrite Hns. cbn [andb]. unfold bind at 1.
    rewrite (Hany [] rest s Ht).
    change (length (@nil twl) + length ts)%nat with (length ts). unfold bind at 1.
    assert (Ht1 : toks s = ts ++ rest) by exact Ht.
    rewrite (peek_at d s ts _ Ht1). unfold bind at 1.
    assert (Ht2 : toks s = ts ++ semis_toks [] ++ rest) by exact Ht.
    rewrite (skip_all_semis_run d s [] ts _ I Ht2 Hn1). unfold bind at 1.
    cbn [semis_toks length]. rewrite Nat.add_0_r. rewrite (peek_at d s ts _ Ht1).
    fold (first_tok rest). rewrite Hn1.
    rewrite (match_not_eof _ _ _ Hnf2). rewrite Hend. cbn [andb ret fst rev app]. reflexivity.
  Qed.
End Script.

(** Non-vacuity: the COMMIT fragment used by the correspondence harness is local, and a script
    of three statements with an irregular separator layout parses to three statements. *)
Definition mk (t : token) : twl := {| tok := t; line := 1; col := 1 |}.
Example script_example :
  let d := mk_dial false false [] in
  let commit := mk (TWord (s2l "COMMIT") None (s2l "COMMIT")) in
  let semi_ := mk (TP PSemi) in
  let sp := mk (TWs 0) in
  fst (parse_statements 10 stmt_core d
         (init_state [semi_; sp; commit; sp; semi_; semi_; sp; commit; mk (TWord (s2l "AND") None (s2l "AND"));
                      mk (TWord (s2l "CHAIN") None (s2l "CHAIN")); semi_; commit; sp] false 50))
  = Ok [VBool false; VBool true; VBool false].
Proof. vm_compute. reflexivity. Qed.
