(** Model of the CREATE TABLE builder (src/ast/helpers/stmt_create_table.rs) as *routings*.

    A record (the [CreateTable] statement struct, the [CreateTableBuilder] struct) is a finite
    map from field names to values, kept as an association list in declaration order.  The
    values are an arbitrary type [V]: nothing below inspects them, so every theorem holds for
    all field contents (all options of all dialects).

    The functions under study only *construct records from records*: [build] is a struct
    literal whose fields are read from [self], [try_from] is a [match] whose CREATE TABLE arm
    destructures the statement and builds a [Self { .. }] literal, a setter is a sequence of
    assignments [self.f = e], [new] a struct literal over its parameters and constants.  The
    translator (harness/builderx) evaluates the source symbolically and emits, for every
    constructed field, the symbolic value it receives ([src]).  Everything here is executable;
    the proofs are in BuilderProofs.v. *)
Require Import SqlV.Base.
From Coq Require Import Arith.

Notation field := (list N) (only parsing).

(** Symbolic value received by a constructed field. *)
Inductive src :=
| SField (g : field)     (* moved out of field [g] of the source record *)
| SParam (i : nat)       (* the function's [i]-th parameter (not counting self) *)
| SConst (c : str)       (* closed constant expression, by its normalised source text *)
| SOpaque (t : str).     (* an expression the translator cannot interpret (clone(), unwrap_or, ..) *)

Definition routing := list (field * src).

Fixpoint assoc {A} (l : list (field * A)) (f : field) : option A :=
  match l with
  | [] => None
  | (g, a) :: r => if str_eqb g f then Some a else assoc r f
  end.

Definition keys {A} (l : list (field * A)) : list field := map fst l.

Fixpoint memb (f : field) (l : list field) : bool :=
  match l with [] => false | g :: r => str_eqb g f || memb f r end.

Fixpoint nodupb (l : list field) : bool :=
  match l with [] => true | a :: r => negb (memb a r) && nodupb r end.

(** Pattern of a [match] arm of [try_from]. *)
Inductive armpat :=
| PCt                      (* the CREATE TABLE variant, payload destructured *)
| PVariant (v : str)       (* another variant of [Statement], by name *)
| PWild                    (* [_] or a catch-all binding *)
| PUnknown.                (* not interpretable: treated as matching everything *)

(** Body of an arm. *)
Inductive armbody :=
| BOk (sigma : routing)    (* [Ok(Self { .. })] *)
| BErr (displays : bool)   (* [Err(e)], [e] free of panicking constructs; [displays]: [e] formats the statement *)
| BOther (t : str).        (* anything else: panic!, todo!, guards, early returns, .. *)

Definition arm := (armpat * armbody)%type.

Record setter := {
  st_name : str;
  st_nparams : nat;
  st_assigns : routing;        (* [self.f = e] in program order *)
  st_returns_self : bool
}.

Section Model.
  Variable V : Type.
  Definition record := list (field * V).

  Definition get (r : record) (f : field) : option V := assoc r f.

  (** Meaning of constants (only needed to *run* [new]; no theorem depends on it). *)
  Variable cval : str -> option V.

  Definition eval (r : record) (ps : list V) (e : src) : option V :=
    match e with
    | SField g => get r g
    | SParam i => nth_error ps i
    | SConst c => cval c
    | SOpaque _ => None
    end.

  (** A struct literal: the record with fields [fs] (declaration order of the struct), each
      initialised by the expression the literal gives for it.  Order of the literal's own
      fields is irrelevant, as in Rust.  [None]: a field is missing or not evaluable. *)
  Fixpoint construct (sigma : routing) (fs : list field) (r : record) (ps : list V) : option record :=
    match fs with
    | [] => Some []
    | f :: fs' =>
        match assoc sigma f with
        | None => None
        | Some e =>
            match eval r ps e, construct sigma fs' r ps with
            | Some v, Some t => Some ((f, v) :: t)
            | _, _ => None
            end
        end
    end.

  (** Statements: the CREATE TABLE variant carries a record; every other variant is named and
      carries an arbitrary payload. *)
  Variable P : Type.
  Inductive stmt :=
  | SCreateTable (r : record)
  | SOther (variant : str) (payload : P).

  Inductive result :=
  | ROk (b : record)
  | RErr                   (* an error value was returned *)
  | RPanic                 (* formatting the error message panicked *)
  | RStuck.                (* the model cannot tell (uninterpreted arm, missing field, ..) *)

  Variable stmt_fields : list field.      (* fields of struct CreateTable, declaration order *)
  Variable builder_fields : list field.   (* fields of struct CreateTableBuilder *)
  Variable sigma_build : routing.         (* statement field -> value read from the builder *)
  Variable arms : list arm.               (* the arms of try_from's match, in order *)
  (** [Display] of a statement may panic (that is property C02's ledger); the model takes its
      outcome as a parameter. *)
  Variable display_ok : stmt -> bool.

  Definition build (b : record) : option stmt :=
    match construct sigma_build stmt_fields b [] with
    | Some r => Some (SCreateTable r)
    | None => None
    end.

  Definition pat_matches (p : armpat) (s : stmt) : bool :=
    match p, s with
    | PCt, SCreateTable _ => true
    | PCt, SOther _ _ => false
    | PVariant v, SOther v' _ => str_eqb v v'
    | PVariant _, SCreateTable _ => false
    | PWild, _ => true
    | PUnknown, _ => true
    end.

  Definition run_body (p : armpat) (b : armbody) (s : stmt) : result :=
    match b with
    | BErr d => if d && negb (display_ok s) then RPanic else RErr
    | BOther _ => RStuck
    | BOk sigma =>
        match p, s with
        | PCt, SCreateTable r =>
            match construct sigma builder_fields r [] with
            | Some b => ROk b
            | None => RStuck
            end
        | _, _ => RStuck
        end
    end.

  Fixpoint run_arms (l : list arm) (s : stmt) : result :=
    match l with
    | [] => RStuck
    | (p, b) :: r => if pat_matches p s then run_body p b s else run_arms r s
    end.

  Definition try_from (s : stmt) : result := run_arms arms s.

  (** [try_from] followed by [build]: the observation named by the property. *)
  Definition round_trip (s : stmt) : option stmt :=
    match try_from s with ROk b => build b | _ => None end.

  (** The routing [try_from] uses for CREATE TABLE statements: the body of the first arm that
      matches them. *)
  Fixpoint ct_routing (l : list arm) : option routing :=
    match l with
    | [] => None
    | (PCt, BOk sigma) :: _ => Some sigma
    | (PCt, _) :: _ => None
    | (PVariant _, _) :: r => ct_routing r
    | ((PWild | PUnknown), _) :: _ => None
    end.

  (** *** The decidable side condition on the generated routings.
      For every statement field [f]: [build] reads it from some builder field [g], and
      [try_from] fills [g] from [f]; every builder field is filled from a statement field. *)
  Definition field_ok (sigma_try : routing) (f : field) : bool :=
    match assoc sigma_build f with
    | Some (SField g) =>
        match assoc sigma_try g with
        | Some (SField f') => str_eqb f' f && memb g builder_fields
        | _ => false
        end
    | _ => false
    end.

  Definition total_ok (sigma_try : routing) (g : field) : bool :=
    match assoc sigma_try g with
    | Some (SField f) => memb f stmt_fields
    | _ => false
    end.

  Definition routing_ok : bool :=
    match ct_routing arms with
    | None => false
    | Some sigma_try =>
        nodupb stmt_fields && nodupb builder_fields
        && forallb (field_ok sigma_try) stmt_fields
        && forallb (total_ok sigma_try) builder_fields
    end.

  (** The converse direction (builder -> statement -> builder). *)
  Definition field_ok_rev (sigma_try : routing) (g : field) : bool :=
    match assoc sigma_try g with
    | Some (SField f) =>
        match assoc sigma_build f with
        | Some (SField g') => str_eqb g' g && memb f stmt_fields
        | _ => false
        end
    | _ => false
    end.

  Definition build_total_ok (f : field) : bool :=
    match assoc sigma_build f with
    | Some (SField g) => memb g builder_fields
    | _ => false
    end.

  Definition routing_ok_rev : bool :=
    match ct_routing arms with
    | None => false
    | Some sigma_try =>
        nodupb stmt_fields && nodupb builder_fields
        && forallb (field_ok_rev sigma_try) builder_fields
        && forallb build_total_ok stmt_fields
    end.

  (** The view is *by name*: [build] reads every statement field from the builder field of the
      same name (so that setting [f] and building yields a statement whose [f] is the argument). *)
  Definition names_ok : bool :=
    forallb (fun f => match assoc sigma_build f with
                      | Some (SField g) => str_eqb g f && memb g builder_fields
                      | _ => false end) stmt_fields.
  Definition bad_names : list field :=
    filter (fun f => negb (match assoc sigma_build f with
                           | Some (SField g) => str_eqb g f && memb g builder_fields
                           | _ => false end)) stmt_fields.

  (** Which fields break [routing_ok], for the directed search (never used in a proof). *)
  Definition bad_stmt_fields : list field :=
    match ct_routing arms with
    | None => stmt_fields
    | Some sigma_try => filter (fun f => negb (field_ok sigma_try f)) stmt_fields
    end.
  Definition bad_builder_fields : list field :=
    match ct_routing arms with
    | None => builder_fields
    | Some sigma_try => filter (fun g => negb (total_ok sigma_try g && field_ok_rev sigma_try g)) builder_fields
    end.

  (** *** try_from on other variants.
      Every arm that can be reached by a non-CREATE-TABLE statement returns an error value,
      and there is a catch-all arm. *)
  Fixpoint arms_total (l : list arm) : bool :=
    match l with
    | [] => false
    | (PCt, _) :: r => arms_total r
    | (PVariant _, BErr _) :: r => arms_total r
    | (PWild, BErr _) :: _ => true
    | _ => false
    end.

  Fixpoint arms_display_free (l : list arm) : bool :=
    match l with
    | [] => true
    | (PCt, _) :: r => arms_display_free r
    | (_, BErr d) :: r => negb d && arms_display_free r
    | _ => false
    end.

  (** Arms (by position) that a non-CREATE-TABLE statement can reach and that do not return an
      error value: for the directed search. *)
  Fixpoint bad_arms (i : N) (l : list arm) : list N :=
    match l with
    | [] => []
    | (PCt, _) :: r => bad_arms (N.succ i) r
    | (PVariant _, BErr _) :: r => bad_arms (N.succ i) r
    | (PWild, BErr _) :: _ => []
    | _ :: r => i :: bad_arms (N.succ i) r
    end.

  (** *** Setters. *)
  Definition update (r : record) (f : field) (v : V) : record :=
    map (fun kv => if str_eqb (fst kv) f then (fst kv, v) else kv) r.

  Fixpoint run_assigns (l : routing) (ps : list V) (b : record) : option record :=
    match l with
    | [] => Some b
    | (f, e) :: r =>
        if memb f (keys b) then
          match eval b ps e with
          | Some v => run_assigns r ps (update b f v)
          | None => None
          end
        else None
    end.

  Definition apply_setter (s : setter) (ps : list V) (b : record) : option record :=
    if st_returns_self s && Nat.eqb (length ps) (st_nparams s) then run_assigns (st_assigns s) ps b
    else None.

  (** [new]: a struct literal over parameters and constants. *)
  Definition run_new (sigma_new : routing) (ps : list V) : option record :=
    construct sigma_new builder_fields [] ps.
End Model.

Arguments SCreateTable {V P} r.
Arguments SOther {V P} variant payload.
Arguments ROk {V} b.
Arguments RErr {V}.
Arguments RPanic {V}.
Arguments RStuck {V}.

(** The field a setter writes, read off its body: a single assignment of its single parameter. *)
Definition setter_target (s : setter) : option field :=
  match st_assigns s with
  | [(f, SParam 0)] => if st_returns_self s && Nat.eqb (st_nparams s) 1 then Some f else None
  | _ => None
  end.

(** ** The setter table: which field is a setter's *own* field, from names alone.
    A setter named like a builder field owns that field.  A setter whose name is not a field
    name (today: [clone_clause]) owns the unique field that no setter is named after and that
    the constructor does not take as a parameter — provided there is exactly one such setter
    and one such field. *)
Section Setters.
  Variable builder_fields : list field.
  Variable setters : list setter.
  Variable sigma_new : routing.

  Definition new_param_fields : list field :=
    map fst (filter (fun kv => match snd kv with SParam _ => true | _ => false end) sigma_new).

  Definition setter_names : list str := map st_name setters.

  Definition orphan_fields : list field :=
    filter (fun f => negb (memb f setter_names) && negb (memb f new_param_fields)) builder_fields.

  Definition orphan_setters : list str :=
    filter (fun n => negb (memb n builder_fields)) setter_names.

  Definition own_field (s : setter) : option field :=
    if memb (st_name s) builder_fields then Some (st_name s)
    else match orphan_fields, orphan_setters with
         | [f], [_] => Some f
         | _, _ => None
         end.

  Definition opt_field_eqb (a b : option field) : bool :=
    match a, b with
    | Some x, Some y => str_eqb x y
    | _, _ => false
    end.

  Definition setter_ok (s : setter) : bool :=
    opt_field_eqb (setter_target s) (own_field s)
    && match own_field s with Some f => memb f builder_fields | None => false end.

  (** every builder field can be set: by its setter or by a parameter of [new] *)
  Definition field_settable (g : field) : bool :=
    memb g new_param_fields || existsb (fun s => opt_field_eqb (own_field s) (Some g)) setters.

  Definition setters_ok : bool :=
    nodupb builder_fields && nodupb setter_names && forallb setter_ok setters
    && forallb field_settable builder_fields.

  Definition bad_setters : list str :=
    map st_name (filter (fun s => negb (setter_ok s)) setters).

  (** [new] fills every builder field with a parameter or a constant. *)
  Definition new_ok : bool :=
    forallb (fun g => match assoc sigma_new g with
                      | Some (SParam _) | Some (SConst _) => true
                      | _ => false end) builder_fields.
End Setters.
