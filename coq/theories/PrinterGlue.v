(** C01 — the printer–lexer glue theorem for the operator core.

    For every core tree [e] that satisfies the decidable well-formedness predicate [gwf d e], the
    text [pp ot e] of the printer model, lexed by the lexer model of Lexer.v and viewed as core
    tokens ([PrinterCore.lexview]), is the canonical token list of the tree:

        lexview ld u (pp ot e) = Some (ptoks e)                       ([glue])

    for an arbitrary Pratt dialect [d], lexer dialect [ld], Unicode tables [u] and operator
    spelling table [ot] satisfying the boolean side conditions [glue_side_conditions d ld u ot]
    (discharged by [vm_compute] on the generated tables in PrinterGlueInst.v).

    The side conditions are boolean checks on the tables: blanks are neutral characters
    ([LexerLookahead.blank_neutralb]); digits and upper-case letters are identifier characters and
    the characters that can follow a sub-tree's text ([follow_chars], and [(]) are not; the first
    letters of the printed words start identifiers and no delimited identifier; punctuation and
    operator characters do not open a delimited identifier; [x ' ( N] are not custom-operator
    characters; every keyword spelling, and [ot k] for every binary / prefix operator key [k] of
    the dialect, followed by a blank, lexes to the one expected token ([piece_ok]); the seven
    prefix operators are spelled [+ - ~ !! @ |/ ||/]; [@] starts no identifier where it is a prefix
    operator and [[] opens no delimited identifier where it is the subscript operator.

    The proof is compositional: [Lx s ts T] says that lexing [s ++ T] consumes exactly [s],
    yields the core tokens [ts] and leaves [T].  Pieces that are followed by a blank are handled
    by one computed check per spelling plus look-ahead insensitivity (LexerLookahead.v); the
    remaining adjacencies (words and quoted strings in front of punctuation, punctuation, [::],
    postfix [!], a prefix operator directly in front of its operand) have their own lemmas.

    No tree shape is excluded: [gwf] only asks that atoms are below [10 ^ 40] (what [dec] prints in
    full), that type names are the four the model knows, and that operator keys are keys of the
    dialect's tables.  (Before /repo commit 5371ab5 the statement was false for a prefix operator
    whose operand's text starts with an operator character without being a prefix operator itself
    -- [~ -a * b] was printed [~-a * b] -- and for the mirror image with postfix [!]; the printer
    now decides on the operand's text.) *)
From SqlV Require Import Base PrecSpec Pratt PrattProofs PrinterCore PrinterCoreProofs.
From SqlV Require Import Lexer LexerProofs LexerTiling LexerLookahead.
From Coq Require Import ZArith ZifyBool ZifyN ZifyNat Arith.
Local Open Scope N_scope.

(** names that exist on both sides: unqualified = lexer level *)
Notation ctok := PrecSpec.tok (only parsing).

(** * Evaluation of closed character tests *)
Ltac is_posnum p := lazymatch p with xH => idtac | xO ?q => is_posnum q | xI ?q => is_posnum q end.
Ltac is_Nnum n := lazymatch n with N0 => idtac | Npos ?p => is_posnum p end.
Ltac evn :=
  repeat match goal with
  | |- context [N.eqb ?a ?b] =>
      is_Nnum a; is_Nnum b; let v := eval vm_compute in (N.eqb a b) in change (N.eqb a b) with v
  | |- context [N.leb ?a ?b] =>
      is_Nnum a; is_Nnum b; let v := eval vm_compute in (N.leb a b) in change (N.leb a b) with v
  end.
Ltac unfold_chars :=
  cbv delta [cSP cTAB cLF cCR cSQ cDQ cBQ cBSL cDOLLAR cLBR cRBR cUS cDOT cSTAR cSLASH cMINUS cPLUS
             cGT cLT cEQ cBANG cTILDE cAT cHASH cPCT cPIPE cAMP cCARET cQM cCOLON].
(** symbolic evaluation of the dispatcher on an input whose first characters are literals *)
Ltac dispatch :=
  unfold next_token; unfold_chars; unfold is_digit; cbn [peek_is tl]; evn; cbn [andb orb negb].

(** * Decimal numerals: [undec] inverts [dec] below [10 ^ 40] *)
Definition atom_bound : N := 10 ^ 40.

Lemma dec_digits_spec f : forall n acc k m,
  (forall a, undec a acc = Some (a * 10 ^ k + m)) -> n < 10 ^ N.of_nat f ->
  exists k', forall a, undec a (dec_digits f n acc) = Some (a * 10 ^ k' + (n * 10 ^ k + m)).
Proof.
  induction f as [|f IH]; intros n acc k m Hacc Hn.
  - cbn [N.of_nat] in Hn. rewrite N.pow_0_r in Hn. assert (n = 0) by lia. subst n.
    exists k. intro a. cbn [dec_digits]. rewrite Hacc. f_equal.
  - rewrite Nat2N.inj_succ, N.pow_succ_r' in Hn. cbn [dec_digits].
    assert (Hdg : n mod 10 < 10) by (apply N.mod_lt; lia).
    assert (Hnd : n = 10 * (n / 10) + n mod 10) by (apply N.div_mod; lia).
    assert (Hq : n < 10 -> n mod 10 = n) by (intro; apply N.mod_small; assumption).
    assert (Hq' : n / 10 < 10 ^ N.of_nat f) by (apply N.div_lt_upper_bound; lia).
    remember (n mod 10) as dg eqn:Edg. remember (n / 10) as q eqn:Eq. clear Edg Eq.
    assert (Hacc' : forall a, undec a ((48 + dg) :: acc) = Some (a * 10 ^ (N.succ k) + (dg * 10 ^ k + m))).
    { intro a. cbn [undec].
      replace ((48 <=? 48 + dg) && (48 + dg <=? 57)) with true by lia.
      rewrite Hacc, N.pow_succ_r'. f_equal. replace (48 + dg - 48) with dg by lia.
      generalize (10 ^ k). intro P. lia. }
    destruct (N.ltb_spec n 10) as [Hlt|Hge].
    + exists (N.succ k). intro a. rewrite Hacc'. f_equal. rewrite (Hq Hlt). reflexivity.
    + destruct (IH q ((48 + dg) :: acc) (N.succ k) (dg * 10 ^ k + m) Hacc' Hq') as (k' & Hk').
      exists k'. intro a. rewrite Hk'. f_equal. rewrite N.pow_succ_r'. rewrite Hnd.
      generalize (10 ^ k). intro P. lia.
Qed.

Lemma undec_dec n : n < atom_bound -> undec 0 (dec n) = Some n.
Proof.
  intro Hn. unfold dec.
  destruct (dec_digits_spec 40 n [] 0 0) as (k' & Hk').
  - intro a. cbn [undec]. rewrite N.pow_0_r. f_equal. lia.
  - exact Hn.
  - rewrite Hk'. f_equal. rewrite N.pow_0_r. lia.
Qed.

Lemma dec_digits_all f : forall n acc, forallb is_digit acc = true -> forallb is_digit (dec_digits f n acc) = true.
Proof.
  induction f as [|f IH]; intros n acc Hacc; cbn [dec_digits]; [exact Hacc|].
  assert (Hdg : n mod 10 < 10) by (apply N.mod_lt; lia).
  assert (Hacc' : forallb is_digit ((48 + n mod 10) :: acc) = true).
  { cbn [forallb]. rewrite Hacc. unfold is_digit. lia. }
  destruct (n <? 10); [exact Hacc'|apply IH; exact Hacc'].
Qed.
Lemma dec_digits_ne f : forall n acc, acc <> [] -> dec_digits f n acc <> [].
Proof.
  induction f as [|f IH]; intros n acc Hacc; cbn [dec_digits]; [exact Hacc|].
  destruct (n <? 10); [discriminate|apply IH; discriminate].
Qed.
Lemma dec_digits_S_ne f n acc : dec_digits (S f) n acc <> [].
Proof. cbn [dec_digits]. destruct (n <? 10); [discriminate|apply dec_digits_ne; discriminate]. Qed.
Lemma dec_all n : forallb is_digit (dec n) = true.
Proof. apply dec_digits_all. reflexivity. Qed.
Lemma dec_cons n : exists c r, dec n = c :: r /\ is_digit c = true /\ forallb is_digit r = true.
Proof.
  pose proof (dec_all n) as Ha. destruct (dec n) as [|c r] eqn:E.
  - exfalso. exact (dec_digits_S_ne 39 n [] E).
  - cbn [forallb] in Ha. apply andb_true_iff in Ha. exists c, r. tauto.
Qed.

Lemma flat_map_map {A B C} (f : A -> B) (g : B -> list C) l : flat_map g (map f l) = flat_map (fun x => g (f x)) l.
Proof. induction l as [|x l IH]; cbn [map flat_map]; [reflexivity|]. rewrite IH. reflexivity. Qed.

(** * Lexer-level pieces *)
Section Pieces.
  Variable ld : dialect.
  Variable u : uni.
  Notation next := (next_token ld u true).

  (** ** [Lx s ts T]: lexing [s ++ T] consumes [s], gives the core tokens [ts], leaves [T] *)
  Definition Lx (s : str) (ts : list ctok) (T : str) : Prop :=
    exists lts, Steps ld u true (s ++ T) lts T /\ flat_map view_tok lts = ts.

  Lemma Lx_nil T : Lx [] [] T.
  Proof. exists []. split; [constructor|reflexivity]. Qed.

  Lemma Lx_app s1 s2 ts1 ts2 T : Lx s1 ts1 (s2 ++ T) -> Lx s2 ts2 T -> Lx (s1 ++ s2) (ts1 ++ ts2) T.
  Proof.
    intros (l1 & H1 & E1) (l2 & H2 & E2). exists (l1 ++ l2). split.
    - rewrite <- app_assoc. eapply Steps_app; eauto.
    - rewrite flat_map_app. congruence.
  Qed.

  Lemma Lx_one s t vt T : next (s ++ T) = Ok (Some (t, T)) -> view_tok t = vt -> Lx s vt T.
  Proof.
    intros Hn Hv. exists [t]. split.
    - econstructor; [exact Hn|constructor].
    - cbn [flat_map]. rewrite app_nil_r. exact Hv.
  Qed.

  (** segments: a printed text as a list of pieces with their tokens *)
  Definition scat (l : list (str * list ctok)) : str := concat (map fst l).
  Definition tcat (l : list (str * list ctok)) : list ctok := concat (map snd l).
  Fixpoint LxAll (l : list (str * list ctok)) (T : str) : Prop :=
    match l with
    | [] => True
    | (s, ts) :: r => Lx s ts (scat r ++ T) /\ LxAll r T
    end.
  Lemma LxAll_Lx l : forall T, LxAll l T -> Lx (scat l) (tcat l) T.
  Proof.
    induction l as [|[s ts] r IH]; intros T H; [apply Lx_nil|].
    destruct H as [H1 H2]. unfold scat, tcat. cbn [map fst snd concat]. apply Lx_app; [exact H1|].
    apply IH. exact H2.
  Qed.
  Lemma Lx_segs segs s ts T : s = scat segs -> ts = tcat segs -> LxAll segs T -> Lx s ts T.
  Proof. intros -> -> H. apply LxAll_Lx. exact H. Qed.

  (** ** The blank *)
  Lemma Lx_sp T : Lx [32] [] T.
  Proof. apply (Lx_one [32] (TWs WSpace)); reflexivity. Qed.

  (** ** Pieces followed by a blank: one computed check per spelling, then look-ahead
      insensitivity *)
  Definition piece_ok (w : str) (vt : list ctok) : bool :=
    match next (w ++ [32]) with
    | Ok (Some (t, r)) =>
        str_eqb r [32] && negb (is_ws t) && toks_eqb (view_tok t) vt && negb (probe ld u w)
    | _ => false
    end.

  Hypothesis HN : blank_neutral ld u.

  Lemma piece_blank w vt r : piece_ok w vt = true -> Lx w vt (32 :: r).
  Proof.
    unfold piece_ok. destruct (next (w ++ [32])) as [[[t r0]|]|e a|p] eqn:E; try discriminate.
    intro H. repeat (apply andb_true_iff in H; destruct H as [H ?]).
    apply str_eqb_eq in H. subst r0.
    match goal with Hx : toks_eqb _ _ = true |- _ => apply toks_eqb_eq in Hx; rename Hx into Hv end.
    match goal with Hx : negb (probe _ _ _) = true |- _ => apply negb_true_iff in Hx; rename Hx into Hp end.
    match goal with Hx : negb (is_ws _) = true |- _ => apply negb_true_iff in Hx; rename Hx into Hw end.
    apply (Lx_one w t); [|exact Hv].
    apply (lookahead_blank ld u true w 32 [] 32 r t HN Hp); try (left; reflexivity); [|exact E].
    intros w0 ->. discriminate.
  Qed.

  (** the piece together with the blank that follows it: no condition on what comes next *)
  Lemma piece_sp w vt T : piece_ok w vt = true -> Lx (w ++ [32]) vt T.
  Proof.
    intro H. rewrite <- (app_nil_r vt). apply Lx_app; [apply piece_blank; exact H|apply Lx_sp].
  Qed.

  (** ** Punctuation *)
  Lemma Lx_lparen T : d_delim_start ld 40 = false -> Lx [40] [TLParen] T.
  Proof. intro H. apply (Lx_one [40] (TFix FLParen)); [|reflexivity]. cbn [app]. dispatch. rewrite H. reflexivity. Qed.
  Lemma Lx_rparen T : d_delim_start ld 41 = false -> Lx [41] [TRParen] T.
  Proof. intro H. apply (Lx_one [41] (TFix FRParen)); [|reflexivity]. cbn [app]. dispatch. rewrite H. reflexivity. Qed.
  Lemma Lx_comma T : d_delim_start ld 44 = false -> Lx [44] [TComma] T.
  Proof. intro H. apply (Lx_one [44] (TFix FComma)); [|reflexivity]. cbn [app]. dispatch. rewrite H. reflexivity. Qed.
  Lemma Lx_lbracket T : d_delim_start ld 91 = false -> Lx [91] [TLBracket] T.
  Proof. intro H. apply (Lx_one [91] (TFix FLBracket)); [|reflexivity]. cbn [app]. dispatch. rewrite H. reflexivity. Qed.
  Lemma Lx_rbracket T : d_delim_start ld 93 = false -> Lx [93] [TRBracket] T.
  Proof. intro H. apply (Lx_one [93] (TFix FRBracket)); [|reflexivity]. cbn [app]. dispatch. rewrite H. reflexivity. Qed.
  Lemma Lx_dcolon T : d_delim_start ld 58 = false -> Lx [58; 58] [TDoubleColon] T.
  Proof. intro H. apply (Lx_one [58; 58] (TFix FDoubleColon)); [|reflexivity]. cbn [app]. dispatch. rewrite H. reflexivity. Qed.
  (** postfix [!]: what follows must not extend it to [!=], [!!], [!~] *)
  Lemma Lx_excl T : d_delim_start ld 33 = false ->
    match T with [] => True | f :: _ => f <> 61 /\ f <> 33 /\ f <> 126 end ->
    Lx [33] [TExcl] T.
  Proof.
    intros H HT. apply (Lx_one [33] (TFix FExclamationMark)); [|reflexivity]. cbn [app].
    destruct T as [|f T']; dispatch; rewrite H; [reflexivity|].
    destruct HT as (H1 & H2 & H3).
    replace (f =? 61) with false by lia. replace (f =? 33) with false by lia.
    replace (f =? 126) with false by lia. reflexivity.
  Qed.
  (** ** Single-quoted strings without quote or backslash inside *)
  Definition plainc (c : N) : bool := negb (c =? 39) && negb (c =? 92).

  Lemma qs_plain bs p : forallb plainc p = true -> forall T ncq,
    match T with [] => True | f :: _ => f <> 39 end ->
    qs_loop true 39 false bs ncq (p ++ 39 :: T) = Some (p, T).
  Proof.
    induction p as [|c p IH]; cbn [forallb app]; intros Hp T ncq HT.
    - cbn [qs_loop]. evn. cbn [andb]. destruct T as [|f T']; [reflexivity|].
      replace (f =? 39) with false by lia. reflexivity.
    - apply andb_true_iff in Hp. destruct Hp as [Hc Hp]. unfold plainc in Hc.
      cbn [qs_loop]. unfold_chars.
      replace (c =? 39) with false by lia. replace (c =? 92) with false by lia. cbn [andb].
      rewrite (IH Hp). reflexivity. exact HT.
  Qed.

  Lemma next_sq c1 p T : forallb plainc (c1 :: p) = true ->
    match T with [] => True | f :: _ => f <> 39 end ->
    next (39 :: c1 :: p ++ 39 :: T) = Ok (Some (TStr KSingle (c1 :: p), T)).
  Proof.
    intros Hp HT.
    pose proof (qs_plain (d_backslash ld) (c1 :: p) Hp T 0 HT) as Hq. cbn [app] in Hq.
    assert (E1 : c1 =? 39 = false).
    { cbn [forallb] in Hp. apply andb_true_iff in Hp. destruct Hp as [Hc _]. unfold plainc in Hc. lia. }
    dispatch. destruct (d_triple ld).
    - unfold single_or_triple, lift, retp. evn. rewrite E1, Hq. reflexivity.
    - unfold single_quoted, lift, ret. evn. rewrite Hq. reflexivity.
  Qed.

  (** ** Words: a letter from [word_heads], then identifier characters, in front of a character
      that is not an identifier character *)
  Definition wtail (T : str) : Prop :=
    match T with [] => True | f :: _ => d_ident_part ld f = false end.

  Lemma take_while_word (p : N -> bool) w T : forallb p w = true ->
    match T with [] => True | f :: _ => p f = false end -> take_while p (w ++ T) = (w, T).
  Proof.
    induction w as [|a w IH]; cbn [app forallb].
    - intros _ HT. destruct T as [|f T']; cbn [take_while]; [reflexivity|]. rewrite HT. reflexivity.
    - intros [Ha Hw]%andb_true_iff HT. cbn [take_while]. rewrite Ha, (IH Hw HT). reflexivity.
  Qed.

  (** N T F U I B D A S x *)
  Definition word_heads : list N := [78; 84; 70; 85; 73; 66; 68; 65; 83; 120].
  Definition upper_or_digit (c : N) : bool := is_digit c || ((65 <=? c) && (c <=? 90)).

  Hypothesis Hstart : forall c, In c word_heads -> d_ident_start ld c = true /\ d_delim_start ld c = false.

  Lemma next_word ch c2 cs T : In ch word_heads -> upper_or_digit c2 = true ->
    forallb (d_ident_part ld) (c2 :: cs) = true -> wtail T ->
    next (ch :: c2 :: cs ++ T) = Ok (Some (TWord (ch :: c2 :: cs) None, T)).
  Proof.
    intros Hin Hc2 Hall HT.
    assert (E1 : c2 =? 39 = false) by (unfold upper_or_digit, is_digit in Hc2; lia).
    assert (E2 : c2 =? 34 = false) by (unfold upper_or_digit, is_digit in Hc2; lia).
    assert (E3 : c2 =? 38 = false) by (unfold upper_or_digit, is_digit in Hc2; lia).
    assert (Htw : take_while (d_ident_part ld) (c2 :: cs ++ T) = (c2 :: cs, T))
      by (apply (take_while_word _ (c2 :: cs)); assumption).
    destruct (Hstart ch Hin) as [Hs Hd].
    cbn [word_heads In] in Hin.
    repeat (destruct Hin as [<-|Hin]); [..|destruct Hin].
    all: dispatch; rewrite ?E1, ?E2, ?E3, ?Hd, ?Hs; cbn [andb orb negb].
    all: repeat match goal with
         | |- context [if d_bq_or_generic ld then _ else _] => destruct (d_bq_or_generic ld)
         | |- context [if d_unicode_lit ld then _ else _] => destruct (d_unicode_lit ld)
         end; rewrite ?E1, ?E2, ?E3, ?Hd, ?Hs; cbn [andb orb negb].
    all: unfold word_from, retp, ret, ident_or_keyword, tokenize_word; cbn [tl]; rewrite Htw;
         cbn [app forallb]; unfold is_digit_or_dot, is_digit; unfold_chars; evn; cbn [andb orb negb];
         reflexivity.
  Qed.

  (** ** A prefix operator directly in front of its operand: the operand starts with [x], ['],
      [(] or [N] *)
  Definition operand_heads : list N := [120; 39; 40; 78].
  Hypothesis Hcustom : forall f, In f operand_heads -> d_custom_op ld f = false.

  Ltac heads Hf := cbn [operand_heads In] in Hf; repeat (destruct Hf as [<-|Hf]); [..|destruct Hf].

  Lemma next_plus T : d_delim_start ld 43 = false -> next (43 :: T) = Ok (Some (TFix FPlus, T)).
  Proof. intro H. dispatch. rewrite H. reflexivity. Qed.

  Lemma next_minus f T : In f operand_heads -> d_delim_start ld 45 = false ->
    next (45 :: f :: T) = Ok (Some (TFix FMinus, f :: T)).
  Proof.
    intros Hf H. pose proof (Hcustom f Hf) as Hc. heads Hf.
    all: dispatch; rewrite H; cbn [andb]; unfold retp, start_binop; cbn [take_while]; rewrite Hc; reflexivity.
  Qed.

  Lemma next_tilde f T : In f operand_heads -> d_delim_start ld 126 = false ->
    next (126 :: f :: T) = Ok (Some (TFix FTilde, f :: T)).
  Proof.
    intros Hf H. pose proof (Hcustom f Hf) as Hc. heads Hf.
    all: dispatch; rewrite H; cbn [andb]; unfold retp, start_binop; cbn [take_while]; rewrite Hc; reflexivity.
  Qed.

  Lemma next_dexcl T : d_delim_start ld 33 = false ->
    next (33 :: 33 :: T) = Ok (Some (TFix FDoubleExclamationMark, T)).
  Proof. intro H. dispatch. rewrite H. reflexivity. Qed.

  Lemma next_at f T : In f operand_heads -> d_delim_start ld 64 = false -> d_ident_start ld 64 = false ->
    next (64 :: f :: T) = Ok (Some (TFix FAtSign, f :: T)).
  Proof.
    intros Hf H Hi. heads Hf.
    all: dispatch; rewrite H, Hi; cbn [andb];
         match goal with |- context [u_whitespace u ?c] => destruct (u_whitespace u c) end; reflexivity.
  Qed.

  Lemma next_sqrt f T : In f operand_heads -> d_delim_start ld 124 = false ->
    next (124 :: 47 :: f :: T) = Ok (Some (TFix FPGSquareRoot, f :: T)).
  Proof.
    intros Hf H. pose proof (Hcustom f Hf) as Hc. heads Hf.
    all: dispatch; rewrite H; cbn [andb]; unfold retp, consume_for_binop, start_binop; cbn [tl take_while];
         rewrite Hc; reflexivity.
  Qed.

  Lemma next_cbrt f T : In f operand_heads -> d_delim_start ld 124 = false ->
    next (124 :: 124 :: 47 :: f :: T) = Ok (Some (TFix FPGCubeRoot, f :: T)).
  Proof.
    intros Hf H. pose proof (Hcustom f Hf) as Hc. heads Hf.
    all: dispatch; rewrite H; cbn [andb]; unfold retp, consume_for_binop, start_binop; cbn [tl take_while];
         rewrite Hc; reflexivity.
  Qed.
End Pieces.

(** * The core-token view of the atoms *)
Ltac is_Nlist l := lazymatch l with nil => idtac | cons ?a ?r => is_Nnum a; is_Nlist r end.
Ltac evs :=
  repeat match goal with
  | |- context [s2l ?x] => let v := eval vm_compute in (s2l x) in is_Nlist v; change (s2l x) with v
  end.

Lemma assoc_x_digit c r : is_digit c = true -> assoc_str (88 :: c :: r) kw_view = None.
Proof.
  intro Hc. unfold is_digit in Hc. unfold kw_view. cbn [assoc_str]. evs. cbn [str_eqb]. evn. cbn [andb].
  replace (79 =? c) with false by lia. reflexivity.
Qed.

Lemma upper_digits r : forallb is_digit r = true -> ascii_upper r = r.
Proof.
  induction r as [|c r IH]; cbn [forallb ascii_upper map]; [reflexivity|].
  intros [Hc Hr]%andb_true_iff. fold (ascii_upper r). rewrite (IH Hr). f_equal.
  unfold ascii_upper_c. unfold is_digit in Hc. replace ((97 <=? c) && (c <=? 122)) with false by lia. reflexivity.
Qed.

Lemma view_ident n : n < atom_bound -> view_tok (TWord (ident_text n) None) = [TAtom false n].
Proof.
  intro Hn. destruct (dec_cons n) as (c & r & E & Hc & Hr). pose proof (undec_dec n Hn) as Hu.
  unfold ident_text. rewrite E in *. cbn [view_tok]. unfold view_word.
  assert (Eu : ascii_upper (120 :: c :: r) = 88 :: c :: r).
  { change (ascii_upper (120 :: c :: r)) with (ascii_upper_c 120 :: ascii_upper (c :: r)).
    rewrite upper_digits; [reflexivity|]. cbn [forallb]. rewrite Hc, Hr. reflexivity. }
  rewrite Eu, (assoc_x_digit c r Hc), Hu. reflexivity.
Qed.

Lemma atom_bound_big : 100000 < atom_bound.
Proof. vm_compute. reflexivity. Qed.

Lemma view_str n : n < 100000 + atom_bound -> view_tok (TStr KSingle (str_payload n)) = [TAtom true n].
Proof.
  intro Hn. pose proof atom_bound_big as Hb. unfold str_payload. destruct (N.leb_spec 100000 n) as [Hge|Hlt].
  - assert (Hm : n - 100000 < atom_bound) by lia.
    destruct (dec_cons (n - 100000)) as (c & r & E & Hc & Hr). pose proof (undec_dec _ Hm) as Hu.
    unfold ident_text. rewrite E in *. cbn [view_tok]. rewrite Hu. do 2 f_equal. lia.
  - assert (Hm : n < atom_bound) by lia.
    destruct (dec_cons n) as (c & r & E & Hc & Hr). pose proof (undec_dec n Hm) as Hu.
    rewrite E in *. cbn [view_tok]. rewrite Hu. reflexivity.
Qed.

Lemma payload_plain n : exists c1 p, str_payload n = c1 :: p /\ forallb plainc (c1 :: p) = true.
Proof.
  assert (Hd : forall r, forallb is_digit r = true -> forallb plainc r = true).
  { induction r as [|c r IH]; cbn [forallb]; [reflexivity|]. intros [Hc Hr]%andb_true_iff.
    rewrite (IH Hr). unfold plainc. unfold is_digit in Hc. lia. }
  unfold str_payload, ident_text. destruct (100000 <=? n); eexists; eexists; (split; [reflexivity|]);
    cbn [forallb]; rewrite (Hd _ (dec_all _)); reflexivity.
Qed.

(** * Well-formedness of a tree for the glue statement *)
Definition pre_keys : list N := [51; 52; 66; 87; 88; 89; 90].
Definition pre_tok (k : N) : ctok :=
  if (k =? K_Plus) || (k =? K_Minus) || (k =? K_Tilde) then TOp k else TPre k.

(** a predicate on every node of a tree *)
Fixpoint all_nodes (p : expr -> bool) (e : expr) : bool :=
  p e &&
  let all := fix all (l : list expr) : bool :=
    match l with [] => true | x :: r => all_nodes p x && all r end in
  match e with
  | EAtom _ _ => true
  | ENested x | EPre _ x | ENot x | EPostfix x | EIs _ _ x | ECast x _ => all_nodes p x
  | ETuple l => all l
  | EBin _ l r | EAnyAll _ _ l r | EIsDF _ l r | EAtTz l r | EInUnnest _ l r | EDiv l r
  | ESubscript l r => all_nodes p l && all_nodes p r
  | ELike _ _ _ x pat _ => all_nodes p x && all_nodes p pat
  | EBetween _ x lo hi => all_nodes p x && all_nodes p lo && all_nodes p hi
  | EInList _ x l => all_nodes p x && all l
  end.

Lemma all_nodes_list p l :
  (fix all (l : list expr) : bool := match l with [] => true | x :: r => all_nodes p x && all r end) l = true
  <-> Forall (fun x => all_nodes p x = true) l.
Proof.
  induction l as [|x r IH]; [split; auto|]. rewrite andb_true_iff, IH.
  split; [intros [? ?]; constructor; auto|intro H; inversion H; auto].
Qed.

(** the part that does not depend on the dialect: atoms that [dec] prints in full, type names the
    model knows, operator keys in the range of the tables *)
Definition esc_ok (esc : option (bool * N)) : bool :=
  match esc with None => true | Some (_, c) => c <? atom_bound end.
Definition gnode_x (e : expr) : bool :=
  match e with
  | EAtom _ n => n <? atom_bound
  | EPre k _ => existsb (N.eqb k) pre_keys
  | EBin k _ _ | EAnyAll k _ _ _ => (40 <=? k) && (k <=? 86)
  | ECast _ t => (1 <=? t) && (t <=? 4)
  | ELike _ _ _ _ _ esc => esc_ok esc
  | _ => true
  end.
(** the part implied by [PrinterCoreProofs.node_ok d] *)
Definition pre_node (d : Pratt.dialect) (k : N) : bool := (k =? K_Plus) || (k =? K_Minus) || is_pg d.
Definition gnode_d (d : Pratt.dialect) (e : expr) : bool :=
  match e with
  | EPre k _ => pre_node d k
  | EBin k _ _ => binop d k
  | EAnyAll k q _ _ => binop d k && is_quant q
  | EIs _ w _ => is_wkw w
  | ELike kd _ any _ _ _ => negb any || match kd with LLike | LILike => true | _ => false end
  | ESubscript _ _ => subscript d
  | _ => true
  end.
Definition gnode (d : Pratt.dialect) (e : expr) : bool := gnode_d d e && gnode_x e.
Definition gwf (d : Pratt.dialect) (e : expr) : bool := all_nodes (gnode d) e.
Definition gextra (e : expr) : bool := all_nodes gnode_x e.

(** * The side conditions on the tables *)
Definition follow_chars : list N := [32; 41; 93; 33; 58; 44; 91].
Definition folb (c : N) : bool := existsb (N.eqb c) follow_chars.
Definition op_keys : list N := map N.of_nat (seq 40 47).
Definition pre_spellings : list (N * str) :=
  [(51, [43]); (52, [45]); (66, [126]); (87, [33; 33]); (88, [64]); (89, [124; 47]); (90, [124; 124; 47])].
Local Open Scope string_scope.
(** keywords that the printer always follows with a blank *)
Definition kw_pieces : list (string * list ctok) := [
  ("NOT", [TKw KNot]); ("IS", [TKw KIs]); ("DISTINCT", [TKw KDistinct]); ("FROM", [TKw KFrom]);
  ("AT", [TKw KAt]); ("TIME", [TKw KTime]); ("ZONE", [TKw KZone]); ("LIKE", [TKw KLike]);
  ("ILIKE", [TKw KILike]); ("SIMILAR", [TKw KSimilar]); ("TO", [TKw KTo]); ("RLIKE", [TKw KRLike]);
  ("REGEXP", [TKw KRegexp]); ("ANY", [TKw KAny]); ("ESCAPE", [TKw KEscape]);
  ("BETWEEN", [TKw KBetween]); ("AND", [TOp K_AND]); ("IN", [TKw KIn]); ("DIV", [TKw KDiv]) ].
(** words that may be followed by punctuation or the end of the text *)
Definition final_words : list (string * list ctok) := [
  ("NULL", [TKw KNull]); ("TRUE", [TKw KTrue]); ("FALSE", [TKw KFalse]); ("UNKNOWN", [TKw KUnknown]);
  ("INT", [TType 1]); ("TEXT", [TType 2]); ("BOOLEAN", [TType 3]); ("DATE", [TType 4]);
  ("UNNEST", [TKw KUnnest]); ("ANY", [TKw KAny]); ("ALL", [TKw KAll]); ("SOME", [TKw KSome]) ].
Local Close Scope string_scope.

Definition char_conditions (ld : dialect) (u : uni) : bool :=
  blank_neutralb ld u &&
  forallb (fun c => negb (d_ident_part ld c)) (40 :: follow_chars) &&
  forallb (d_ident_part ld) (map N.of_nat (seq 48 10 ++ seq 65 26)) &&
  forallb (fun c => d_ident_start ld c && negb (d_delim_start ld c)) word_heads &&
  forallb (fun c => negb (d_delim_start ld c)) [40; 41; 44; 58; 33; 93; 43; 45; 126; 64; 124] &&
  forallb (fun c => negb (d_custom_op ld c)) operand_heads.

Definition glue_side_conditions (d : Pratt.dialect) (ld : dialect) (u : uni) (ot : N -> str) : bool :=
  char_conditions ld u &&
  forallb (fun '(w, vt) => piece_ok ld u (s2l w) vt) kw_pieces &&
  forallb (fun k => negb (binop d k) || piece_ok ld u (ot k) [TOp (norm_key k)]) op_keys &&
  forallb (fun '(k, s) => negb (pre_node d k) || (str_eqb (ot k) s && piece_ok ld u s [pre_tok k])) pre_spellings &&
  (negb (is_pg d) || negb (d_ident_start ld 64)) &&
  (negb (subscript d) || negb (d_delim_start ld 91)).

Lemma ewb_app a b : b <> [] -> ends_with_bang (a ++ b) = ends_with_bang b.
Proof.
  intro Hb. induction a as [|x a IH]; [reflexivity|]. cbn [app].
  destruct (a ++ b) as [|y m] eqn:E.
  - exfalso. apply app_eq_nil in E. destruct E. contradiction.
  - cbn [ends_with_bang]. exact IH.
Qed.

Ltac inl := solve [repeat first [left; reflexivity | right]].
Ltac ands :=
  repeat match goal with H : _ && _ = true |- _ => apply andb_true_iff in H; destruct H end.

(** * The glue theorem *)
Section Core.
  Variable d : Pratt.dialect.
  Variable ld : dialect.
  Variable u : uni.
  Variable ot : N -> str.
  Hypothesis HS : glue_side_conditions d ld u ot = true.

  Notation LX := (Lx ld u).
  Notation G e := (all_nodes (gnode d) e = true).

  Ltac side :=
    let H := fresh "HS'" in
    pose proof HS as H; unfold glue_side_conditions, char_conditions in H;
    repeat match type of H with
           | andb _ _ = true => apply andb_true_iff in H; let H2 := fresh "HS'" in destruct H as [H H2]
           end.

  (** ** the side conditions as facts *)
  Lemma HN : blank_neutral ld u.
  Proof. side. apply blank_neutralb_spec. assumption. Qed.

  Lemma Hfollow c : In c (40 :: follow_chars) -> d_ident_part ld c = false.
  Proof.
    side. intro Hc.
    match goal with H : forallb (fun c => negb (d_ident_part ld c)) _ = true |- _ =>
      rewrite forallb_forall in H; apply negb_true_iff; apply H; exact Hc end.
  Qed.

  Lemma Hpart c : upper_or_digit c = true -> d_ident_part ld c = true.
  Proof.
    side. intro Hc.
    match goal with H : forallb (d_ident_part ld) _ = true |- _ =>
      rewrite forallb_forall in H; apply H end.
    clear - Hc. apply in_map_iff. exists (N.to_nat c). split; [apply N2Nat.id|].
    unfold upper_or_digit, is_digit in Hc. apply in_or_app.
    destruct (N.leb_spec c 57) as [Hle|Hgt]; [left|right]; apply in_seq.
    - assert (48 <= c) by lia. split; [change 48%nat with (N.to_nat 48)|change (48 + 10)%nat with (N.to_nat 58)]; lia.
    - assert (65 <= c <= 90) by lia. split; [change 65%nat with (N.to_nat 65)|change (65 + 26)%nat with (N.to_nat 91)]; lia.
  Qed.

  Lemma Hstart c : In c word_heads -> d_ident_start ld c = true /\ d_delim_start ld c = false.
  Proof.
    side. intro Hc.
    match goal with H : forallb (fun c => d_ident_start ld c && negb (d_delim_start ld c)) _ = true |- _ =>
      rewrite forallb_forall in H; specialize (H c Hc); apply andb_true_iff in H; destruct H as [H1 H2] end.
    apply negb_true_iff in H2. auto.
  Qed.

  Lemma Hdelim c : In c [40; 41; 44; 58; 33; 93; 43; 45; 126; 64; 124] -> d_delim_start ld c = false.
  Proof.
    side. intro Hc.
    match goal with H : forallb (fun c => negb (d_delim_start ld c)) _ = true |- _ =>
      rewrite forallb_forall in H; apply negb_true_iff; apply H; exact Hc end.
  Qed.

  Lemma Hcustom f : In f operand_heads -> d_custom_op ld f = false.
  Proof.
    side. intro Hc.
    match goal with H : forallb (fun c => negb (d_custom_op ld c)) _ = true |- _ =>
      rewrite forallb_forall in H; apply negb_true_iff; apply H; exact Hc end.
  Qed.

  Lemma Hat : is_pg d = true -> d_ident_start ld 64 = false.
  Proof.
    side. intro Hp.
    match goal with H : negb (is_pg d) || _ = true |- _ => rewrite Hp in H; cbn [negb orb] in H;
      apply negb_true_iff in H; exact H end.
  Qed.

  Lemma Hlbr : subscript d = true -> d_delim_start ld 91 = false.
  Proof.
    side. intro Hp.
    match goal with H : negb (subscript d) || _ = true |- _ => rewrite Hp in H; cbn [negb orb] in H;
      apply negb_true_iff in H; exact H end.
  Qed.

  (** ** pieces *)
  Lemma L_kw w vt r : In (w, vt) kw_pieces -> LX (s2l w) vt (32 :: r).
  Proof.
    side. intro Hin. apply piece_blank; [exact HN|].
    match goal with H : forallb _ kw_pieces = true |- _ =>
      rewrite forallb_forall in H; exact (H (w, vt) Hin) end.
  Qed.

  Lemma L_op k r : binop d k = true -> 40 <= k <= 86 -> LX (ot k) [TOp (norm_key k)] (32 :: r).
  Proof.
    side. intros Hb Hk. apply piece_blank; [exact HN|].
    match goal with H : forallb _ op_keys = true |- _ =>
      rewrite forallb_forall in H; assert (Hi : In k op_keys); [|specialize (H k Hi); rewrite Hb in H; exact H] end.
    clear - Hk. apply in_map_iff. exists (N.to_nat k). split; [apply N2Nat.id|apply in_seq].
    split; [change 40%nat with (N.to_nat 40)|change (40 + 47)%nat with (N.to_nat 87)]; lia.
  Qed.

  Lemma pre_spell k : pre_node d k = true -> existsb (N.eqb k) pre_keys = true ->
    exists s, In (k, s) pre_spellings /\ ot k = s /\ piece_ok ld u s [pre_tok k] = true.
  Proof.
    side. intros Hp Hk.
    match goal with H : forallb _ pre_spellings = true |- _ => rename H into Hf end.
    rewrite forallb_forall in Hf.
    assert (Hc : exists s, In (k, s) pre_spellings).
    { cbn [existsb pre_keys] in Hk.
      assert (Hk' : k = 51 \/ k = 52 \/ k = 66 \/ k = 87 \/ k = 88 \/ k = 89 \/ k = 90) by (clear - Hk; lia).
      destruct Hk' as [->|[->|[->|[->|[->|[->| ->]]]]]]; eexists; unfold pre_spellings; inl. }
    destruct Hc as (s & Hin). exists s. specialize (Hf (k, s) Hin). cbn beta iota in Hf. rewrite Hp in Hf.
    cbn [negb orb] in Hf. apply andb_true_iff in Hf. destruct Hf as [H1 H2]. apply str_eqb_eq in H1.
    rewrite H1. auto.
  Qed.

  Lemma word_piece ch c2 cs vt T : In ch word_heads -> forallb upper_or_digit (c2 :: cs) = true ->
    view_tok (TWord (ch :: c2 :: cs) None) = vt -> wtail ld T -> LX (ch :: c2 :: cs) vt T.
  Proof.
    intros Hch Hu Hv HT. apply (Lx_one ld u _ (TWord (ch :: c2 :: cs) None)); [|exact Hv].
    cbn [app]. apply next_word; try assumption.
    - exact Hstart.
    - cbn [forallb] in Hu. apply andb_true_iff in Hu. tauto.
    - clear Hv. revert Hu. generalize (c2 :: cs). intro l. induction l as [|a l IH]; [reflexivity|].
      cbn [forallb]. intros [Ha Hl]%andb_true_iff. rewrite (Hpart a Ha), (IH Hl). reflexivity.
  Qed.

  Lemma L_final w vt T : In (w, vt) final_words -> wtail ld T -> LX (s2l w) vt T.
  Proof.
    intros Hin HT. cbn [final_words In] in Hin.
    repeat (destruct Hin as [Hin|Hin]; [injection Hin as <- <-|]); [..|destruct Hin].
    all: evs; apply word_piece; [unfold word_heads; inl|reflexivity|reflexivity|exact HT].
  Qed.

  Definition ftail (T : str) : Prop := match T with [] => True | f :: _ => folb f = true end.

  Lemma ftail_wtail T : ftail T -> wtail ld T.
  Proof.
    destruct T as [|f T']; [auto|]. cbn [ftail wtail]. intro H. apply Hfollow. right.
    unfold folb in H. apply existsb_exists in H. destruct H as (x & Hx & E). apply N.eqb_eq in E. subst. exact Hx.
  Qed.
  Lemma ftail_nq T : ftail T -> match T with [] => True | f :: _ => f <> 39 end.
  Proof. destruct T as [|f T']; [auto|]. cbn [ftail]. unfold folb. cbn [existsb follow_chars]. lia. Qed.

  Lemma L_ident n T : n < atom_bound -> ftail T -> LX (ident_text n) [TAtom false n] T.
  Proof.
    intros Hn HT. apply (Lx_one ld u _ (TWord (ident_text n) None)); [|apply view_ident; exact Hn].
    destruct (dec_cons n) as (c & r & E & Hc & Hr). unfold ident_text. rewrite E. cbn [app].
    assert (Hd : forall l, forallb is_digit l = true -> forallb (d_ident_part ld) l = true).
    { induction l as [|a l IH]; [reflexivity|]. cbn [forallb]. intros [Ha Hl]%andb_true_iff.
      rewrite (IH Hl), Hpart; [reflexivity|]. unfold upper_or_digit. rewrite Ha. reflexivity. }
    apply next_word.
    - exact Hstart.
    - unfold word_heads; inl.
    - unfold upper_or_digit. rewrite Hc. reflexivity.
    - apply Hd. cbn [forallb]. rewrite Hc, Hr. reflexivity.
    - apply ftail_wtail. exact HT.
  Qed.

  Lemma L_str n T : n < 100000 + atom_bound -> ftail T -> LX (39 :: str_payload n ++ [39]) [TAtom true n] T.
  Proof.
    intros Hn HT. apply (Lx_one ld u _ (TStr KSingle (str_payload n))); [|apply view_str; exact Hn].
    destruct (payload_plain n) as (c1 & p & E & Hp). rewrite E. cbn [app]. rewrite <- app_assoc. cbn [app].
    apply next_sq; [exact Hp|apply ftail_nq; exact HT].
  Qed.

  Lemma L_lp T : LX [40] [TLParen] T.  Proof. apply Lx_lparen, Hdelim. inl. Qed.
  Lemma L_rp T : LX [41] [TRParen] T.  Proof. apply Lx_rparen, Hdelim. inl. Qed.
  Lemma L_comma T : LX [44] [TComma] T.  Proof. apply Lx_comma, Hdelim. inl. Qed.
  Lemma L_rb T : LX [93] [TRBracket] T.  Proof. apply Lx_rbracket, Hdelim. inl. Qed.
  Lemma L_dc T : LX [58; 58] [TDoubleColon] T.  Proof. apply Lx_dcolon, Hdelim. inl. Qed.
  Lemma L_lb T : subscript d = true -> LX [91] [TLBracket] T.
  Proof. intro H. apply Lx_lbracket, Hlbr, H. Qed.
  Lemma L_excl T : match T with [] => True | f :: _ => f <> 61 /\ f <> 33 /\ f <> 126 end -> LX [33] [TExcl] T.
  Proof. apply Lx_excl, Hdelim. inl. Qed.

  Lemma L_pre_blank k r : pre_node d k = true -> existsb (N.eqb k) pre_keys = true ->
    LX (ot k) [pre_tok k] (32 :: r).
  Proof.
    intros Hp Hk. destruct (pre_spell k Hp Hk) as (s & _ & -> & Hok). apply piece_blank; [exact HN|exact Hok].
  Qed.

  Lemma L_pre_direct k f T : pre_node d k = true -> existsb (N.eqb k) pre_keys = true ->
    In f operand_heads -> LX (ot k) [pre_tok k] (f :: T).
  Proof.
    intros Hp Hk Hf. destruct (pre_spell k Hp Hk) as (s & Hin & -> & _).
    cbn [pre_spellings In] in Hin.
    repeat (destruct Hin as [Hin|Hin]; [injection Hin as <- <-|]); [..|destruct Hin].
    - apply (Lx_one ld u _ (TFix FPlus)); [|reflexivity]. apply next_plus, Hdelim. inl.
    - apply (Lx_one ld u _ (TFix FMinus)); [|reflexivity]. apply next_minus; [exact Hcustom|exact Hf|apply Hdelim; inl].
    - apply (Lx_one ld u _ (TFix FTilde)); [|reflexivity]. apply next_tilde; [exact Hcustom|exact Hf|apply Hdelim; inl].
    - apply (Lx_one ld u _ (TFix FDoubleExclamationMark)); [|reflexivity]. apply next_dexcl, Hdelim. inl.
    - apply (Lx_one ld u _ (TFix FAtSign)); [|reflexivity]. apply next_at; [exact Hf|apply Hdelim; inl|].
      apply Hat. unfold pre_node in Hp. cbn in Hp. exact Hp.
    - apply (Lx_one ld u _ (TFix FPGSquareRoot)); [|reflexivity]. apply next_sqrt; [exact Hcustom|exact Hf|apply Hdelim; inl].
    - apply (Lx_one ld u _ (TFix FPGCubeRoot)); [|reflexivity]. apply next_cbrt; [exact Hcustom|exact Hf|apply Hdelim; inl].
  Qed.

  Lemma pre_head k : pre_node d k = true -> existsb (N.eqb k) pre_keys = true ->
    exists c r, ot k = c :: r /\ is_opchar c = true.
  Proof.
    intros Hp Hk. destruct (pre_spell k Hp Hk) as (s & Hin & -> & _).
    cbn [pre_spellings In] in Hin.
    repeat (destruct Hin as [Hin|Hin]; [injection Hin as <- <-|]); [..|destruct Hin];
      eexists; eexists; split; reflexivity.
  Qed.

  (** ** texts of sub-trees: never empty, and what they start with *)
  Definition headok (s : str) : Prop :=
    exists f r, s = f :: r /\ (In f operand_heads \/ is_opchar f = true).
  Lemma headok_app s t : headok s -> headok (s ++ t).
  Proof. intros (f & r & -> & H). exists f, (r ++ t). split; [reflexivity|exact H]. Qed.
  Lemma headok_ne s : headok s -> s <> [].
  Proof. intros (f & r & -> & _). discriminate. Qed.

  Definition ppcommas : list expr -> str :=
    fix commas (l : list expr) : str :=
      match l with
      | [] => []
      | [x] => pp ot x
      | x :: r => pp ot x ++ s2l ", " ++ commas r
      end.

  Lemma pp_pre k x : pp ot (EPre k x) =
    if starts_with_opchar (pp ot x) then cat [ot k; sp; pp ot x] else ot k ++ pp ot x.
  Proof. reflexivity. Qed.
  Lemma pp_postfix x : pp ot (EPostfix x) =
    if ends_with_bang (pp ot x) then pp ot x ++ s2l " !" else pp ot x ++ s2l "!".
  Proof. reflexivity. Qed.
  Lemma pp_tuple l : pp ot (ETuple l) = cat [s2l "("; ppcommas l; s2l ")"].
  Proof. reflexivity. Qed.
  Lemma pp_inlist neg x l :
    pp ot (EInList neg x l) = cat [pp ot x; sp; not_text neg; s2l "IN ("; ppcommas l; s2l ")"].
  Proof. reflexivity. Qed.

  Lemma pp_head e : G e -> headok (pp ot e).
  Proof.
    induction e; intro Hg; cbn [all_nodes] in Hg; ands.
    all: try (rewrite pp_tuple || rewrite pp_inlist || rewrite pp_pre || rewrite pp_postfix || cbn [pp]);
         cbn [cat concat].
    all: try (apply headok_app; auto; fail).
    - destruct s; eexists; eexists; (split; [reflexivity|left; unfold operand_heads; inl]).
    - eexists; eexists; (split; [reflexivity|left; unfold operand_heads; inl]).
    - eexists; eexists; (split; [reflexivity|left; unfold operand_heads; inl]).
    - match goal with H : gnode d (EPre _ _) = true |- _ => unfold gnode in H; cbn [gnode_d gnode_x] in H; ands end.
      destruct (pre_head k) as (c & r & E & Hc); try assumption.
      destruct (starts_with_opchar (pp ot e)); cbn [cat concat]; rewrite E;
        eexists; eexists; (split; [reflexivity|right; exact Hc]).
    - eexists; eexists; (split; [reflexivity|left; unfold operand_heads; inl]).
    - destruct (ends_with_bang (pp ot e)); apply headok_app; auto.
  Qed.

  Lemma pp_ne e : G e -> pp ot e <> [].
  Proof. intro H. apply headok_ne, pp_head, H. Qed.

  (** ** what may follow the text of a sub-tree *)
  Definition tail_ok (e : expr) (T : str) : Prop :=
    match T with
    | [] => True
    | f :: _ => folb f = true /\ (f = 33 -> ends_with_bang (pp ot e) = false)
    end.

  Lemma tail_c e c r : folb c = true -> c <> 33 -> tail_ok e (c :: r).
  Proof. intros H1 H2. split; [exact H1|]. intro. contradiction. Qed.
  Lemma tail_ftail e T : tail_ok e T -> ftail T.
  Proof. destruct T; cbn [tail_ok ftail]; tauto. Qed.
  Lemma tail_right e e' a T : pp ot e = a ++ pp ot e' -> G e' -> tail_ok e T -> tail_ok e' T.
  Proof.
    intros E Hg. destruct T as [|f T']; [auto|]. cbn [tail_ok]. intros [H1 H2]. split; [exact H1|].
    intro Hf. specialize (H2 Hf). rewrite E, ewb_app in H2; [exact H2|]. apply pp_ne. exact Hg.
  Qed.

  Definition P (e : expr) : Prop := G e -> forall T, tail_ok e T -> LX (pp ot e) (ptoks e) T.

  Ltac lxall := cbn [LxAll]; repeat match goal with |- _ /\ _ => split end; try exact I;
                unfold scat; cbn [map fst concat].
  Ltac tnorm := unfold sp; evs; cbn [app].
  Ltac gn := match goal with H : gnode d _ = true |- _ => unfold gnode in H; cbn [gnode_d gnode_x] in H; ands end.
  Ltac tok_eq := unfold ptoks, tcat; cbn [norm yield map snd concat app]; rewrite ?app_nil_r; reflexivity.
  Ltac blank_tail := tnorm; apply tail_c; [reflexivity|discriminate].

  (** ** closed pieces of text *)
  Lemma U_not neg T : LX (not_text neg) (not_toks neg) T.
  Proof.
    destruct neg; [|apply Lx_nil]. cbn [not_text not_toks].
    apply (Lx_segs ld u [(s2l "NOT", [TKw KNot]); ([32], [])]); [reflexivity|reflexivity|lxall].
    - tnorm. apply (L_kw "NOT"). unfold kw_pieces; inl.
    - apply Lx_sp.
  Qed.

  Lemma L_kw' w vt r : In (w, vt) (map (fun p => (s2l (fst p), snd p)) kw_pieces) -> LX w vt (32 :: r).
  Proof.
    intro H. apply in_map_iff in H. destruct H as ([w0 vt0] & E & Hin). cbn [fst snd] in E.
    injection E as <- <-. apply L_kw. exact Hin.
  Qed.
  Lemma L_final' w vt T : In (w, vt) (map (fun p => (s2l (fst p), snd p)) final_words) -> wtail ld T -> LX w vt T.
  Proof.
    intros H HT. apply in_map_iff in H. destruct H as ([w0 vt0] & E & Hin). cbn [fst snd] in E.
    injection E as <- <-. apply L_final; assumption.
  Qed.

  Ltac wt := first [ apply ftail_wtail; assumption | cbn [wtail]; apply Hfollow; unfold follow_chars; inl ].
  (** one closed piece of text *)
  Ltac piece :=
    tnorm;
    first [ apply Lx_sp | apply Lx_nil | exact (L_lp _) | exact (L_rp _) | exact (L_rb _) | exact (L_dc _)
          | exact (L_comma _) | apply U_not
          | apply L_kw'; unfold kw_pieces; cbn [map fst snd]; inl
          | apply L_final'; [unfold final_words; cbn [map fst snd]; inl|wt] ].
  Ltac ctail := tnorm; apply tail_c; [reflexivity|discriminate].
  Ltac segs L := apply (Lx_segs ld u L).

  Lemma U_is_ T : LX (s2l " IS ") [TKw KIs] T.
  Proof. segs [([32], []); (s2l "IS", [TKw KIs]); ([32], [])]; [reflexivity|reflexivity|lxall]; piece. Qed.
  Lemma U_df T : LX (s2l "DISTINCT FROM ") [TKw KDistinct; TKw KFrom] T.
  Proof.
    segs [(s2l "DISTINCT", [TKw KDistinct]); ([32], []); (s2l "FROM", [TKw KFrom]); ([32], [])];
      [reflexivity|reflexivity|lxall]; piece.
  Qed.
  Lemma U_attz T : LX (s2l " AT TIME ZONE ") [TKw KAt; TKw KTime; TKw KZone] T.
  Proof.
    segs [([32], []); (s2l "AT", [TKw KAt]); ([32], []); (s2l "TIME", [TKw KTime]); ([32], []);
          (s2l "ZONE", [TKw KZone]); ([32], [])]; [reflexivity|reflexivity|lxall]; piece.
  Qed.
  Lemma U_between T : LX (s2l "BETWEEN ") [TKw KBetween] T.
  Proof. segs [(s2l "BETWEEN", [TKw KBetween]); ([32], [])]; [reflexivity|reflexivity|lxall]; piece. Qed.
  Lemma U_and T : LX (s2l " AND ") [TOp K_AND] T.
  Proof. segs [([32], []); (s2l "AND", [TOp K_AND]); ([32], [])]; [reflexivity|reflexivity|lxall]; piece. Qed.
  Lemma U_div T : LX (s2l " DIV ") [TKw KDiv] T.
  Proof. segs [([32], []); (s2l "DIV", [TKw KDiv]); ([32], [])]; [reflexivity|reflexivity|lxall]; piece. Qed.
  Lemma U_in T : LX (s2l "IN (") [TKw KIn; TLParen] T.
  Proof. segs [(s2l "IN", [TKw KIn]); ([32], []); ([40], [TLParen])]; [reflexivity|reflexivity|lxall]; piece. Qed.
  Lemma U_inunnest T : LX (s2l "IN UNNEST(") [TKw KIn; TKw KUnnest; TLParen] T.
  Proof.
    segs [(s2l "IN", [TKw KIn]); ([32], []); (s2l "UNNEST", [TKw KUnnest]); ([40], [TLParen])];
      [reflexivity|reflexivity|lxall]; piece.
  Qed.
  Lemma U_like kd r : LX (like_text kd) (like_toks kd) (32 :: r).
  Proof.
    destruct kd; cbn [like_text like_toks]; try piece.
    segs [(s2l "SIMILAR", [TKw KSimilar]); ([32], []); (s2l "TO", [TKw KTo])]; [reflexivity|reflexivity|lxall]; piece.
  Qed.
  Lemma U_any kd (any : bool) T :
    negb any || match kd with LLike | LILike => true | _ => false end = true ->
    LX (match kd, any with (LLike | LILike), true => s2l "ANY " | _, _ => [] end) (any_toks any) T.
  Proof.
    intro H. destruct any; [|destruct kd; apply Lx_nil]. cbn [negb orb] in H. cbn [any_toks].
    destruct kd; try discriminate;
      (segs [(s2l "ANY", [TKw KAny]); ([32], [])]; [reflexivity|reflexivity|lxall]; piece).
  Qed.

  Definition wname (w : kwd) : string :=
    match w with KNull => "NULL" | KTrue => "TRUE" | KFalse => "FALSE" | _ => "UNKNOWN" end.
  Lemma is_text_eq neg w : is_wkw w = true ->
    is_text neg w = [32] ++ s2l "IS" ++ [32] ++ not_text neg ++ s2l (wname w).
  Proof. destruct neg, w; try discriminate; reflexivity. Qed.

  Lemma L_is neg w T : is_wkw w = true -> wtail ld T ->
    LX (is_text neg w) (TKw KIs :: not_toks neg ++ [TKw w]) T.
  Proof.
    intros Hw HT.
    segs [([32], []); (s2l "IS", [TKw KIs]); ([32], []); (not_text neg, not_toks neg); (s2l (wname w), [TKw w])].
    - rewrite (is_text_eq neg w Hw). unfold scat. cbn [map fst concat]. rewrite app_nil_r. reflexivity.
    - reflexivity.
    - lxall; try piece.
      apply L_final; [|rewrite app_nil_l; exact HT]. destruct w; try discriminate; unfold final_words; inl.
  Qed.

  Definition esc_text (esc : option (bool * N)) : str :=
    match esc with
    | Some (s, c) => cat [s2l " ESCAPE '"; (if s then str_payload c else ident_text c); s2l "'"]
    | None => []
    end.
  Definition esc_toks (esc : option (bool * N)) : list ctok :=
    match esc with
    | Some (true, c) => [TKw KEscape; TAtom true c]
    | Some (false, c) => [TKw KEscape; TAtom true (100000 + c)]
    | None => []
    end.
  Lemma U_esc s c T : c < atom_bound -> ftail T -> LX (esc_text (Some (s, c))) (esc_toks (Some (s, c))) T.
  Proof.
    intros Hc HT.
    assert (E : (if s then str_payload c else ident_text c) = str_payload (if s then c else 100000 + c)).
    { destruct s; [reflexivity|]. unfold str_payload. replace (100000 <=? 100000 + c) with true by lia.
      replace (100000 + c - 100000) with c by lia. reflexivity. }
    segs [([32], []); (s2l "ESCAPE", [TKw KEscape]); ([32], []);
          (39 :: str_payload (if s then c else 100000 + c) ++ [39], [TAtom true (if s then c else 100000 + c)])].
    - unfold esc_text. rewrite E. unfold scat. cbn [map fst cat concat]. evs. cbn [app].
      rewrite ?app_nil_r. reflexivity.
    - destruct s; reflexivity.
    - lxall; try piece. rewrite app_nil_l. apply L_str; [destruct s; lia|exact HT].
  Qed.

  (** ** one lemma per constructor *)
  Ltac start := intros Hg T HT; cbn [all_nodes] in Hg; ands; try gn.
  Ltac str_eq := unfold scat; cbn [pp map fst cat concat]; rewrite ?app_nil_r; reflexivity.
  (** the tail of the last, right-open operand is the tail of the whole *)
  Ltac tr e e' a :=
    apply (tail_right e e' a);
    [cbn [pp cat concat]; rewrite ?app_nil_r, <- ?app_assoc; reflexivity|assumption|assumption].

  Lemma g_atom s n : P (EAtom s n).
  Proof.
    start. apply tail_ftail in HT. assert (Hn : n < atom_bound) by lia. destruct s.
    - change (pp ot (EAtom true n)) with (39 :: str_payload n ++ [39]). apply L_str; [lia|exact HT].
    - apply L_ident; assumption.
  Qed.

  Lemma g_nested x : P x -> P (ENested x).
  Proof.
    intros IH. start.
    segs [(s2l "(", [TLParen]); (pp ot x, ptoks x); (s2l ")", [TRParen])]; [reflexivity|tok_eq|lxall].
    - piece.
    - apply IH; [assumption|ctail].
    - piece.
  Qed.

  Lemma L_commas l : Forall P l -> Forall (fun x => G x) l -> forall T,
    LX (ppcommas l) (commas (map norm l)) (41 :: T).
  Proof.
    induction l as [|x r IHl]; intros HP HG T; [apply Lx_nil|].
    inversion HP as [|? ? Px Pr]; inversion HG as [|? ? Gx Gr]; subst.
    destruct r as [|y r'].
    - cbn [ppcommas map commas]. apply Px; [exact Gx|ctail].
    - change (ppcommas (x :: y :: r')) with (pp ot x ++ s2l ", " ++ ppcommas (y :: r')).
      change (commas (map norm (x :: y :: r'))) with (yield (norm x) ++ TComma :: commas (map norm (y :: r'))).
      segs [(pp ot x, ptoks x); ([44], [TComma]); ([32], []); (ppcommas (y :: r'), commas (map norm (y :: r')))].
      + unfold scat. cbn [map fst concat]. rewrite app_nil_r. reflexivity.
      + unfold tcat, ptoks. cbn [map snd concat app]. rewrite app_nil_r. reflexivity.
      + lxall.
        * apply Px; [exact Gx|ctail].
        * piece.
        * piece.
        * cbn [app]. apply IHl; assumption.
  Qed.

  Lemma g_tuple l : Forall P l -> P (ETuple l).
  Proof.
    intros IH. start. rewrite pp_tuple.
    match goal with H : _ = true |- _ => apply all_nodes_list in H; rename H into Hl end.
    segs [(s2l "(", [TLParen]); (ppcommas l, commas (map norm l)); (s2l ")", [TRParen])]; [reflexivity|tok_eq|lxall].
    - piece.
    - tnorm. apply L_commas; assumption.
    - piece.
  Qed.

  Lemma g_pre k x : P x -> P (EPre k x).
  Proof.
    intros IH. start.
    assert (HTx : tail_ok x T).
    { apply (tail_right (EPre k x) x (if starts_with_opchar (pp ot x) then ot k ++ sp else ot k));
        [|assumption|exact HT].
      rewrite pp_pre. destruct (starts_with_opchar (pp ot x)); cbn [cat concat];
        rewrite ?app_nil_r, <- ?app_assoc; reflexivity. }
    rewrite pp_pre. destruct (starts_with_opchar (pp ot x)) eqn:Es.
    - segs [(ot k, [pre_tok k]); (sp, []); (pp ot x, ptoks x)]; [reflexivity|tok_eq|lxall].
      + tnorm. apply L_pre_blank; assumption.
      + piece.
      + apply IH; assumption.
    - destruct (pp_head x) as (f & r & E & [Hf|Hf]); [assumption| |].
      + segs [(ot k, [pre_tok k]); (pp ot x, ptoks x)]; [str_eq|tok_eq|lxall].
        * rewrite app_nil_r, E. cbn [app]. apply L_pre_direct; assumption.
        * apply IH; assumption.
      + rewrite E in Es. cbn [starts_with_opchar] in Es. congruence.
  Qed.

  Lemma g_not x : P x -> P (ENot x).
  Proof.
    intros IH. start.
    assert (HTx : tail_ok x T) by (apply (tail_right (ENot x) x (s2l "NOT ")); [reflexivity|assumption|assumption]).
    segs [(s2l "NOT", [TKw KNot]); ([32], []); (pp ot x, ptoks x)]; [str_eq|tok_eq|lxall].
    - piece.
    - piece.
    - apply IH; assumption.
  Qed.

  Lemma g_bin k l r : P l -> P r -> P (EBin k l r).
  Proof.
    intros IHl IHr. start.
    assert (HTr : tail_ok r T) by tr (EBin k l r) r (pp ot l ++ sp ++ ot k ++ sp).
    segs [(pp ot l, ptoks l); (sp, []); (ot k, [TOp (norm_key k)]); (sp, []); (pp ot r, ptoks r)];
      [reflexivity|tok_eq|lxall].
    - apply IHl; [assumption|ctail].
    - piece.
    - tnorm. apply L_op; [assumption|lia].
    - piece.
    - apply IHr; assumption.
  Qed.

  Lemma g_anyall k q l r : P l -> P r -> P (EAnyAll k q l r).
  Proof.
    intros IHl IHr. start.
    segs [(pp ot l, ptoks l); (sp, []); (ot k, [TOp (norm_key k)]); (sp, []); (quant_text q, [TKw q]);
          (s2l "(", [TLParen]); (pp ot r, ptoks r); (s2l ")", [TRParen])]; [reflexivity|tok_eq|lxall].
    - apply IHl; [assumption|ctail].
    - piece.
    - tnorm. apply L_op; [assumption|lia].
    - piece.
    - destruct q; try discriminate; unfold quant_text; piece.
    - piece.
    - apply IHr; [assumption|ctail].
    - piece.
  Qed.

  Lemma g_postfix x : P x -> P (EPostfix x).
  Proof.
    intros IH. start.
    assert (Hb : ends_with_bang (pp ot (EPostfix x)) = true).
    { rewrite pp_postfix. destruct (ends_with_bang (pp ot x)); evs; rewrite ewb_app; try discriminate; reflexivity. }
    assert (HT' : match T with [] => True | f :: _ => f <> 61 /\ f <> 33 /\ f <> 126 end).
    { destruct T as [|f T']; [exact I|]. destruct HT as [Hf1 Hf2]. rewrite Hb in Hf2.
      unfold folb in Hf1. cbn [existsb follow_chars] in Hf1.
      assert (f <> 33) by (intro E; specialize (Hf2 E); discriminate). clear Hf2 Hb. repeat split; lia. }
    rewrite pp_postfix. destruct (ends_with_bang (pp ot x)) eqn:Eb.
    - segs [(pp ot x, ptoks x); ([32], []); ([33], [TExcl])]; [reflexivity|tok_eq|lxall].
      + apply IH; [assumption|ctail].
      + piece.
      + apply L_excl. exact HT'.
    - segs [(pp ot x, ptoks x); ([33], [TExcl])]; [reflexivity|tok_eq|lxall].
      + apply IH; [assumption|]. tnorm. split; [reflexivity|]. intros _. exact Eb.
      + apply L_excl. exact HT'.
  Qed.

  Lemma g_is neg w x : P x -> P (EIs neg w x).
  Proof.
    intros IH. start.
    segs [(pp ot x, ptoks x); (is_text neg w, TKw KIs :: not_toks neg ++ [TKw w])]; [str_eq|tok_eq|lxall].
    - apply IH; [assumption|]. rewrite is_text_eq by assumption. ctail.
    - rewrite app_nil_l. apply L_is; [assumption|]. apply ftail_wtail. eapply tail_ftail; eassumption.
  Qed.

  Lemma g_isdf neg l r : P l -> P r -> P (EIsDF neg l r).
  Proof.
    intros IHl IHr. start.
    assert (HTr : tail_ok r T) by tr (EIsDF neg l r) r (pp ot l ++ s2l " IS " ++ not_text neg ++ s2l "DISTINCT FROM ").
    segs [(pp ot l, ptoks l); (s2l " IS ", [TKw KIs]); (not_text neg, not_toks neg);
          (s2l "DISTINCT FROM ", [TKw KDistinct; TKw KFrom]); (pp ot r, ptoks r)]; [reflexivity|tok_eq|lxall].
    - apply IHl; [assumption|ctail].
    - apply U_is_.
    - apply U_not.
    - apply U_df.
    - apply IHr; assumption.
  Qed.

  Lemma g_attz l r : P l -> P r -> P (EAtTz l r).
  Proof.
    intros IHl IHr. start.
    assert (HTr : tail_ok r T) by tr (EAtTz l r) r (pp ot l ++ s2l " AT TIME ZONE ").
    segs [(pp ot l, ptoks l); (s2l " AT TIME ZONE ", [TKw KAt; TKw KTime; TKw KZone]); (pp ot r, ptoks r)];
      [reflexivity|tok_eq|lxall].
    - apply IHl; [assumption|ctail].
    - apply U_attz.
    - apply IHr; assumption.
  Qed.

  Lemma g_cast x t : P x -> P (ECast x t).
  Proof.
    intros IH. start. apply tail_ftail in HT.
    segs [(pp ot x, ptoks x); (s2l "::", [TDoubleColon]); (type_text t, [TType t])]; [reflexivity|tok_eq|lxall].
    - apply IH; [assumption|ctail].
    - piece.
    - assert (Ht : t = 1 \/ t = 2 \/ t = 3 \/ t = 4) by lia. rewrite app_nil_l.
      destruct Ht as [->|[->|[->| ->]]];
        [change (type_text 1) with (s2l "INT")|change (type_text 2) with (s2l "TEXT")
        |change (type_text 3) with (s2l "BOOLEAN")|change (type_text 4) with (s2l "DATE")]; piece.
  Qed.

  Lemma g_like kd neg any x p esc : P x -> P p -> P (ELike kd neg any x p esc).
  Proof.
    intros IHx IHp. start.
    set (anyt := match kd, any with (LLike | LILike), true => s2l "ANY " | _, _ => [] end).
    assert (Epp : pp ot (ELike kd neg any x p esc) =
                  cat [pp ot x; sp; not_text neg; like_text kd; sp; anyt; pp ot p; esc_text esc]).
    { destruct esc as [[s c]|]; reflexivity. }
    assert (Etk : ptoks (ELike kd neg any x p esc) =
                  ptoks x ++ not_toks neg ++ like_toks kd ++ any_toks any ++ ptoks p ++ esc_toks esc).
    { destruct esc as [[[|] c]|]; reflexivity. }
    rewrite Epp, Etk.
    segs [(pp ot x, ptoks x); (sp, []); (not_text neg, not_toks neg); (like_text kd, like_toks kd); (sp, []);
          (anyt, any_toks any); (pp ot p, ptoks p); (esc_text esc, esc_toks esc)].
    - reflexivity.
    - unfold tcat. cbn [map snd concat app]. rewrite ?app_nil_r. reflexivity.
    - lxall.
      + apply IHx; [assumption|ctail].
      + piece.
      + apply U_not.
      + tnorm. apply U_like.
      + piece.
      + apply U_any. assumption.
      + apply IHp; [assumption|]. destruct esc as [[s c]|].
        * unfold esc_text. cbn [cat concat]. ctail.
        * cbn [esc_text app]. apply (tail_right (ELike kd neg any x p None) p
            (pp ot x ++ sp ++ not_text neg ++ like_text kd ++ sp ++ anyt)); [|assumption|assumption].
          rewrite Epp. cbn [esc_text cat concat]. rewrite ?app_nil_r, <- ?app_assoc. reflexivity.
      + rewrite app_nil_l. destruct esc as [[s c]|]; [|apply Lx_nil].
        apply U_esc; [|eapply tail_ftail; eassumption].
        match goal with H : esc_ok _ = true |- _ => cbn [esc_ok] in H; lia end.
  Qed.

  Lemma g_between neg x lo hi : P x -> P lo -> P hi -> P (EBetween neg x lo hi).
  Proof.
    intros IHx IHlo IHhi. start.
    assert (HTr : tail_ok hi T)
      by tr (EBetween neg x lo hi) hi (pp ot x ++ sp ++ not_text neg ++ s2l "BETWEEN " ++ pp ot lo ++ s2l " AND ").
    segs [(pp ot x, ptoks x); (sp, []); (not_text neg, not_toks neg); (s2l "BETWEEN ", [TKw KBetween]);
          (pp ot lo, ptoks lo); (s2l " AND ", [TOp K_AND]); (pp ot hi, ptoks hi)]; [reflexivity|tok_eq|lxall].
    - apply IHx; [assumption|ctail].
    - piece.
    - apply U_not.
    - apply U_between.
    - apply IHlo; [assumption|ctail].
    - apply U_and.
    - apply IHhi; assumption.
  Qed.

  Lemma g_inlist neg x l : P x -> Forall P l -> P (EInList neg x l).
  Proof.
    intros IHx IHl. start. rewrite pp_inlist.
    match goal with H : _ = true |- _ => apply all_nodes_list in H; rename H into Hl end.
    segs [(pp ot x, ptoks x); (sp, []); (not_text neg, not_toks neg); (s2l "IN (", [TKw KIn; TLParen]);
          (ppcommas l, commas (map norm l)); (s2l ")", [TRParen])]; [reflexivity|tok_eq|lxall].
    - apply IHx; [assumption|ctail].
    - piece.
    - apply U_not.
    - apply U_in.
    - tnorm. apply L_commas; assumption.
    - piece.
  Qed.

  Lemma g_inunnest neg x a : P x -> P a -> P (EInUnnest neg x a).
  Proof.
    intros IHx IHa. start.
    segs [(pp ot x, ptoks x); (sp, []); (not_text neg, not_toks neg);
          (s2l "IN UNNEST(", [TKw KIn; TKw KUnnest; TLParen]); (pp ot a, ptoks a); (s2l ")", [TRParen])];
      [reflexivity|tok_eq|lxall].
    - apply IHx; [assumption|ctail].
    - piece.
    - apply U_not.
    - apply U_inunnest.
    - apply IHa; [assumption|ctail].
    - piece.
  Qed.

  Lemma g_div l r : P l -> P r -> P (EDiv l r).
  Proof.
    intros IHl IHr. start.
    assert (HTr : tail_ok r T) by tr (EDiv l r) r (pp ot l ++ s2l " DIV ").
    segs [(pp ot l, ptoks l); (s2l " DIV ", [TKw KDiv]); (pp ot r, ptoks r)]; [reflexivity|tok_eq|lxall].
    - apply IHl; [assumption|ctail].
    - apply U_div.
    - apply IHr; assumption.
  Qed.

  Lemma g_subscript x i : P x -> P i -> P (ESubscript x i).
  Proof.
    intros IHx IHi. start.
    segs [(pp ot x, ptoks x); (s2l "[", [TLBracket]); (pp ot i, ptoks i); (s2l "]", [TRBracket])];
      [reflexivity|tok_eq|lxall].
    - apply IHx; [assumption|ctail].
    - tnorm. apply L_lb. assumption.
    - apply IHi; [assumption|ctail].
    - piece.
  Qed.

  Theorem glue_Lx e : P e.
  Proof.
    induction e using expr_rect'.
    - apply g_atom.
    - apply g_nested; assumption.
    - apply g_tuple; assumption.
    - apply g_pre; assumption.
    - apply g_not; assumption.
    - apply g_bin; assumption.
    - apply g_anyall; assumption.
    - apply g_postfix; assumption.
    - apply g_is; assumption.
    - apply g_isdf; assumption.
    - apply g_attz; assumption.
    - apply g_cast; assumption.
    - apply g_like; assumption.
    - apply g_between; assumption.
    - apply g_inlist; assumption.
    - apply g_inunnest; assumption.
    - apply g_div; assumption.
    - apply g_subscript; assumption.
  Qed.

  (** the glue statement *)
  Theorem glue e : gwf d e = true -> lexview ld u (pp ot e) = Some (ptoks e).
  Proof.
    intro Hg. destruct (glue_Lx e Hg [] I) as (lts & HSt & Hv). rewrite app_nil_r in HSt.
    destruct (Run_tokenize ld u true _ _ HSt) as (ts & Htk & Hm). unfold lexview. rewrite Htk.
    f_equal. rewrite <- Hv, <- Hm. symmetry. apply flat_map_map.
  Qed.
End Core.

(** * Trees the parser can produce: [shape d] gives the dialect part of [gwf d] *)
Lemma Forall_impl2 {A} (P Q R : A -> Prop) l :
  Forall (fun x => P x -> Q x -> R x) l -> Forall P l -> Forall Q l -> Forall R l.
Proof.
  induction 1 as [|x l Hx Hl IH]; intros HP HQ; [constructor|].
  inversion HP; inversion HQ; subst. constructor; auto.
Qed.

Lemma all_nodes_impl2 (p q r : expr -> bool) :
  (forall x, p x = true -> q x = true -> r x = true) ->
  forall e, all_nodes p e = true -> all_nodes q e = true -> all_nodes r e = true.
Proof.
  intros H e. induction e using expr_rect'; cbn [all_nodes]; intros Hp Hq; ands;
    repeat (apply andb_true_iff; split); auto.
  - apply all_nodes_list.
    repeat match goal with Hx : _ = true |- _ => apply all_nodes_list in Hx end.
    apply (Forall_impl2 (fun x => all_nodes p x = true) (fun x => all_nodes q x = true)
             (fun x => all_nodes r x = true)); assumption.
  - apply all_nodes_list.
    repeat match goal with Hx : _ = true |- _ => apply all_nodes_list in Hx end.
    apply (Forall_impl2 (fun x => all_nodes p x = true) (fun x => all_nodes q x = true)
             (fun x => all_nodes r x = true)); assumption.
Qed.

Lemma shapeb_all_nodes d e : shapeb d e = all_nodes (node_ok d) e.
Proof.
  assert (Hl : forall l, Forall (fun x => shapeb d x = all_nodes (node_ok d) x) l ->
    (fix all (l : list expr) : bool := match l with [] => true | x :: r => shapeb d x && all r end) l =
    (fix all (l : list expr) : bool := match l with [] => true | x :: r => all_nodes (node_ok d) x && all r end) l).
  { induction 1 as [|x l Hx _ IH]; [reflexivity|]. rewrite Hx, IH. reflexivity. }
  induction e using expr_rect'; cbn [shapeb all_nodes];
    rewrite ?IHe, ?IHe1, ?IHe2, ?IHe3, ?(Hl l) by assumption; reflexivity.
Qed.

Lemma node_ok_gnode_d d e : node_ok d e = true -> gnode_d d e = true.
Proof.
  destruct e; cbn [node_ok gnode_d]; intro H; ands;
    repeat match goal with Hx : ?b = true |- context [?b] => rewrite Hx end; auto.
Qed.

Theorem shape_gwf d e : shape d e -> gextra e = true -> gwf d e = true.
Proof.
  intros Hs Hx. apply shapeb_iff in Hs. rewrite shapeb_all_nodes in Hs.
  unfold gwf, gextra in *. apply (all_nodes_impl2 (node_ok d) gnode_x (gnode d)); try assumption.
  intros x H1 H2. unfold gnode. rewrite (node_ok_gnode_d d x H1), H2. reflexivity.
Qed.

(** * Text-level round trip for the core: parse, print, lex, parse again *)
Theorem text_roundtrip d ld u ot :
  glue_side_conditions d ld u ot = true -> lvl d K_UNKNOWN = 0 ->
  forall ts e, parse_expr d ts = Pratt.Ok (e, []) -> canonical e = true -> gextra e = true ->
  exists toks, lexview ld u (pp ot e) = Some toks /\ parse_expr d toks = Pratt.Ok (e, []).
Proof.
  intros HS U0 ts e Hp Hc Hx. exists (ptoks e). split.
  - apply (glue d ld u ot HS). apply shape_gwf; [|exact Hx]. apply (parse_expr_shape d ts e [] Hp).
  - pose proof (C01_core d ts e [] U0 Hc Hp) as H. rewrite app_nil_r, (norm_canonical e Hc) in H. exact H.
Qed.

Print Assumptions glue.
Print Assumptions shape_gwf.
Print Assumptions text_roundtrip.
