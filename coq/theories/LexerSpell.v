(** Per-kind spelling of tokens (C09): the characters the dispatcher consumes for a token are
    that token's own text — verbatim for words, numbers, placeholders, custom operators and
    comments, one of the fixed spellings for punctuation/operators, a single blank for
    whitespace.  Quote-delimited literals are covered by RawMode.v / EscapeProofs.v. *)
Require Import SqlV.Base SqlV.Lexer SqlV.LexerProofs.
From Coq Require Import ZArith ZifyBool ZifyN ZifyNat Arith.
Local Open Scope N_scope.

Definition fix_spellings (f : fixtok) : list str :=
  match f with
  | FComma => [[44]] | FDoubleEq => [[61; 61]] | FEq => [[61]]
  | FNeq => [[60; 62]; [33; 61]]
  | FLt => [[60]] | FGt => [[62]] | FLtEq => [[60; 61]] | FGtEq => [[62; 61]]
  | FSpaceship => [[60; 61; 62]] | FPlus => [[43]] | FMinus => [[45]] | FMul => [[42]]
  | FDiv => [[47]] | FDuckIntDiv => [[47; 47]] | FMod => [[37]] | FStringConcat => [[124; 124]]
  | FLParen => [[40]] | FRParen => [[41]] | FPeriod => [[46]] | FColon => [[58]]
  | FDoubleColon => [[58; 58]] | FAssignment => [[58; 61]] | FSemiColon => [[59]]
  | FBackslash => [[92]] | FLBracket => [[91]] | FRBracket => [[93]] | FAmpersand => [[38]]
  | FPipe => [[124]] | FCaret => [[94]] | FLBrace => [[123]] | FRBrace => [[125]]
  | FRArrow => [[61; 62]] | FSharp => [[35]] | FTilde => [[126]] | FTildeAsterisk => [[126; 42]]
  | FExclamationMarkTilde => [[33; 126]] | FExclamationMarkTildeAsterisk => [[33; 126; 42]]
  | FDoubleTilde => [[126; 126]] | FDoubleTildeAsterisk => [[126; 126; 42]]
  | FExclamationMarkDoubleTilde => [[33; 126; 126]]
  | FExclamationMarkDoubleTildeAsterisk => [[33; 126; 126; 42]]
  | FShiftLeft => [[60; 60]] | FShiftRight => [[62; 62]] | FOverlap => [[38; 38]]
  | FExclamationMark => [[33]] | FDoubleExclamationMark => [[33; 33]] | FAtSign => [[64]]
  | FCaretAt => [[94; 64]] | FPGSquareRoot => [[124; 47]] | FPGCubeRoot => [[124; 124; 47]]
  | FArrow => [[45; 62]] | FLongArrow => [[45; 62; 62]] | FHashArrow => [[35; 62]]
  | FHashLongArrow => [[35; 62; 62]] | FAtArrow => [[64; 62]] | FArrowAt => [[60; 64]]
  | FHashMinus => [[35; 45]] | FAtQuestion => [[64; 63]] | FAtAt => [[64; 64]]
  | FQuestion => [[63]] | FQuestionAnd => [[63; 38]] | FQuestionPipe => [[63; 124]]
  end.

Definition spellb (u : uni) (t : tok) (c : str) : bool :=
  match t with
  | TWord v None => str_eqb c v
  | TNumber s long => str_eqb c (s ++ (if long then [76] else []))
  | TChar ch => str_eqb c [ch]
  | TPlaceholder s => str_eqb c s
  | TCustom s => str_eqb c s
  | TFix f => existsb (str_eqb c) (fix_spellings f)
  | TWs WSpace => match c with [ch] => (ch =? cSP) || u_whitespace u ch | _ => false end
  | TWs WTab => str_eqb c [cTAB]
  | TWs WNewline => str_eqb c [cLF] || str_eqb c [cCR] || str_eqb c [cCR; cLF]
  | TWs (WLine p cm) => str_eqb c (p ++ cm)
  | TWs (WBlock s) => str_eqb c ([cSLASH; cSTAR] ++ s ++ [cSTAR; cSLASH])
  | TWord _ (Some _) | TStr _ _ | TDollar _ _ => true
  end.

(** [Sp u l x]: the outcome [x] of the dispatcher on [l] spells what it consumed. *)
Definition Sp (u : uni) (l : str) (x : res (option (tok * str))) : Prop :=
  match x with
  | Ok (Some (t, r)) => exists c, l = c ++ r /\ spellb u t c = true
  | _ => True
  end.

Lemma take_while_all_id p w : forallb p w = true -> take_while p w = (w, []).
Proof.
  induction w as [|c w IH]; cbn [forallb take_while]; [reflexivity|].
  intro H. apply andb_true_iff in H as [H1 H2]. rewrite H1, (IH H2). reflexivity.
Qed.

Section Spell.
  Variable d : dialect.
  Variable u : uni.
  Variable unesc : bool.

  Lemma Sp_intro l t r c : l = c ++ r -> spellb u t c = true -> Sp u l (ret t r).
  Proof. intros H1 H2. exists c. auto. Qed.

  (** words *)
  Lemma Sp_word ch r : Sp u (ch :: r) (word_from d ch r).
  Proof.
    unfold word_from, tokenize_word. destruct (take_while (d_ident_part d) r) as [w r'] eqn:E.
    apply take_while_app in E. subst r. exists (ch :: w). split; [reflexivity|].
    cbn [spellb app]. apply str_eqb_refl.
  Qed.

  Lemma Sp_ident chs pre x : pre = chs ++ [] -> forall l, l = chs ++ tl x -> x <> [] ->
    Sp u l (retp (ident_or_keyword d chs x)).
  Proof.
    intros _ l -> Hx. unfold retp, ident_or_keyword, tokenize_word.
    destruct (take_while (d_ident_part d) (tl x)) as [w r] eqn:E. apply take_while_app in E.
    destruct (forallb is_digit_or_dot (chs ++ w)) eqn:Ea.
    - rewrite (take_while_all_id _ _ Ea).
      destruct (take_while is_digit_or_dot r) as [s2 r2] eqn:E2. apply take_while_app in E2.
      cbn. exists ((chs ++ w) ++ s2). split.
      + rewrite E, E2. repeat rewrite <- app_assoc. reflexivity.
      + rewrite app_nil_r. apply str_eqb_refl.
    - cbn. exists (chs ++ w). split; [rewrite E; repeat rewrite <- app_assoc; reflexivity|apply str_eqb_refl].
  Qed.

  (** custom / fixed operators *)
  Lemma Sp_binop prefix f x l :
    l = prefix ++ x -> existsb (str_eqb prefix) (fix_spellings f) = true ->
    Sp u l (retp (start_binop d prefix f x)).
  Proof.
    intros -> Hf. unfold retp, start_binop.
    destruct (take_while (d_custom_op d) x) as [ops r] eqn:E. apply take_while_app in E. subst x.
    destruct ops as [|o ops].
    - cbn. exists prefix. split; [reflexivity|exact Hf].
    - cbn. exists (prefix ++ o :: ops). split; [repeat rewrite <- app_assoc; reflexivity|apply str_eqb_refl].
  Qed.

  (** comments *)
  Lemma Sp_line prefix x l : l = prefix ++ x -> Sp u l (line_comment_tok prefix x).
  Proof.
    intros ->. unfold line_comment_tok, lift, line_comment.
    destruct (take_while (fun ch => negb (ch =? cLF)) x) as [c r] eqn:E. apply take_while_app in E. subst x.
    destruct r as [|ch r'].
    - cbn. exists (prefix ++ c). split; [rewrite !app_nil_r; reflexivity|apply str_eqb_refl].
    - destruct (ch =? cLF) eqn:El; [|exact I]. cbn. exists (prefix ++ c ++ [ch]). split.
      + rewrite <- !app_assoc. reflexivity.
      + apply str_eqb_refl.
  Qed.

  Lemma ml_loop_spell : forall l last n s r, ml_loop last n l = Some (s, r) ->
    l = s ++ cSLASH :: r /\ (exists s0, s = s0 ++ [cSTAR] \/ (s = [] /\ last = cSTAR)).
  Proof.
    induction l as [|ch l IH]; cbn [ml_loop]; intros last n s r H; [discriminate|].
    destruct ((last =? cSLASH) && (ch =? cSTAR)) eqn:E1.
    { destruct (ml_loop ch (n + 1) l) as [[s' r']|] eqn:E; [|discriminate]. inversion H; subst.
      destruct (IH _ _ _ _ E) as (Hl & s0 & [Hs|[Hs Hc]]).
      - split; [rewrite Hl; reflexivity|]. exists (ch :: s0). left. rewrite Hs. reflexivity.
      - split; [rewrite Hl; reflexivity|]. subst. exists []. left. reflexivity. }
    destruct ((last =? cSTAR) && (ch =? cSLASH)) eqn:E2.
    { apply andb_true_iff in E2 as [Ea Eb]. apply N.eqb_eq in Ea, Eb. subst.
      destruct (n - 1 =? 0).
      - inversion H; subst. split; [reflexivity|]. exists []. right. auto.
      - destruct (ml_loop cSLASH (n - 1) l) as [[s' r']|] eqn:E; [|discriminate]. inversion H; subst.
        destruct (IH _ _ _ _ E) as (Hl & s0 & [Hs|[Hs Hc]]).
        + split; [rewrite Hl; reflexivity|]. exists (cSLASH :: s0). left. rewrite Hs. reflexivity.
        + discriminate. }
    destruct (ml_loop ch n l) as [[s' r']|] eqn:E; [|discriminate]. inversion H; subst.
    destruct (IH _ _ _ _ E) as (Hl & s0 & [Hs|[Hs Hc]]).
    - split; [rewrite Hl; reflexivity|]. exists (ch :: s0). left. rewrite Hs. reflexivity.
    - split; [rewrite Hl; reflexivity|]. subst. exists []. left. reflexivity.
  Qed.

  Lemma Sp_block x l : l = [cSLASH; cSTAR] ++ x -> Sp u l (lift (multiline_comment x) (fun y => retp y)).
  Proof.
    intros ->. unfold lift, multiline_comment.
    destruct (ml_loop cSP 1 x) as [[s r]|] eqn:E; [|exact I].
    destruct (ml_loop_spell _ _ _ _ _ E) as (Hl & s0 & [Hs|[Hs Hc]]); [|discriminate].
    cbn. exists ([cSLASH; cSTAR] ++ s ++ [cSLASH]). split.
    - rewrite Hl. rewrite <- !app_assoc. reflexivity.
    - rewrite Hs, removelast_last. rewrite <- !app_assoc. apply str_eqb_refl.
  Qed.

  (** numbers *)
  Lemma num_period_app s0 r0 s1 r1 : num_period s0 r0 = (s1, r1) -> s0 ++ r0 = s1 ++ r1.
  Proof. unfold num_period. destruct r0 as [|c r]; [intros [= <- <-]; reflexivity|].
    destruct (c =? cDOT) eqn:E; intros [= <- <-]; [|reflexivity].
    apply N.eqb_eq in E. subst. rewrite <- app_assoc. reflexivity. Qed.
  Lemma num_sign_app ra sg rb : num_sign ra = (sg, rb) -> ra = sg ++ rb.
  Proof. unfold num_sign. destruct ra as [|c r]; [intros [= <- <-]; reflexivity|].
    destruct ((c =? cPLUS) || (c =? cMINUS)); intros [= <- <-]; reflexivity. Qed.
  Lemma num_exponent_app s2 r2 s3 r3 b : num_exponent s2 r2 = (s3, r3, b) -> s2 ++ r2 = s3 ++ r3.
  Proof.
    unfold num_exponent. destruct r2 as [|e ra]; [intros [= <- <- _]; reflexivity|].
    destruct ((e =? 101) || (e =? 69)); [|intros [= <- <- _]; reflexivity].
    destruct (num_sign ra) as [sign rb] eqn:Es. apply num_sign_app in Es.
    destruct rb as [|dg rb']; [intros [= <- <- _]; reflexivity|].
    destruct (is_digit dg); [|intros [= <- <- _]; reflexivity].
    destruct (take_while is_digit (dg :: rb')) as [ds rc] eqn:Ed. apply take_while_app in Ed.
    intros [= <- <- _]. rewrite Es, Ed. repeat rewrite <- app_assoc. cbn [app]. repeat rewrite <- app_assoc. reflexivity.
  Qed.
  Lemma num_tail_spell s3 r3 b t r : num_tail d s3 r3 b = (t, r) ->
    exists c, s3 ++ r3 = c ++ r /\ spellb u t c = true.
  Proof.
    unfold num_tail.
    assert (Hnum : forall t r, (match r3 with
                   | c :: r4 => if c =? 76 then (TNumber s3 true, r4) else (TNumber s3 false, r3)
                   | [] => (TNumber s3 false, r3) end) = (t, r) ->
                   exists c, s3 ++ r3 = c ++ r /\ spellb u t c = true).
    { intros t0 r0. destruct r3 as [|c r4].
      - intros [= <- <-]. exists s3. split; [reflexivity|]. cbn. rewrite app_nil_r. apply str_eqb_refl.
      - destruct (c =? 76) eqn:E; intros [= <- <-].
        + apply N.eqb_eq in E. subst. exists (s3 ++ [76]). split; [rewrite <- app_assoc; reflexivity|].
          cbn. apply str_eqb_refl.
        + exists s3. split; [reflexivity|]. cbn. rewrite app_nil_r. apply str_eqb_refl. }
    destruct (d_numeric_prefix d && negb b); [|apply Hnum].
    destruct (take_while (d_ident_part d) r3) as [w r4] eqn:E4. pose proof (take_while_app _ _ _ _ E4) as A4.
    destruct w as [|w0 w]; [apply Hnum|].
    intros [= <- <-]. exists (s3 ++ w0 :: w). split; [rewrite A4, <- app_assoc; reflexivity|].
    cbn. apply str_eqb_refl.
  Qed.

  Lemma number_spell l t r : number d l = (t, r) -> exists c, l = c ++ r /\ spellb u t c = true.
  Proof.
    unfold number. destruct (take_while is_digit l) as [s0 r0] eqn:E0. apply take_while_app in E0.
    destruct (num_hex_prefix s0 r0) as [rx|] eqn:Eh.
    { unfold num_hex_prefix in Eh. destruct (str_eqb s0 [48]) eqn:Es; [|discriminate].
      apply str_eqb_eq in Es. destruct r0 as [|c r0']; [discriminate|].
      destruct (c =? 120) eqn:Ec; [|discriminate]. apply N.eqb_eq in Ec. inversion Eh; subst.
      destruct (take_while is_hexdigit rx) as [h r'] eqn:E. apply take_while_app in E. intros [= <- <-].
      exists ([48; 120] ++ h). split; [rewrite E; reflexivity|reflexivity]. }
    destruct (num_period s0 r0) as [s1 r1] eqn:E1. apply num_period_app in E1.
    destruct (take_while is_digit r1) as [s2d r2] eqn:E2. apply take_while_app in E2. cbv zeta.
    assert (Hl : l = (s1 ++ s2d) ++ r2).
    { rewrite E0, E1, E2. rewrite <- app_assoc. reflexivity. }
    destruct (str_eqb (s1 ++ s2d) [cDOT]) eqn:Ed.
    { apply str_eqb_eq in Ed. intros [= <- <-]. exists [cDOT]. split; [rewrite Hl, Ed; reflexivity|reflexivity]. }
    destruct (num_exponent (s1 ++ s2d) r2) as [[s3 r3] b] eqn:E3. apply num_exponent_app in E3.
    intro H. destruct (num_tail_spell _ _ _ _ _ H) as (c & Hc & Hs).
    exists c. split; [|exact Hs]. rewrite Hl, E3. exact Hc.
  Qed.

  (** tokens whose spelling is handled elsewhere (quoted kinds): any split will do *)
  Lemma Sp_suffix l t r : Suffix r l -> spellb u t [] = true -> (forall c, spellb u t c = spellb u t []) ->
    Sp u l (ret t r).
  Proof. intros [c ->] H0 Hc. exists c. split; [reflexivity|]. rewrite Hc. exact H0. Qed.

  Lemma Sp_sq_lift q bs k x l : Suffix x l ->
    Sp u l (lift (single_quoted unesc q bs x) (fun '(s, r') => ret (TStr k s) r')).
  Proof. intro Hx. unfold lift. destruct (single_quoted unesc q bs x) as [[s r']|e a|w] eqn:E; try exact I.
    apply single_quoted_suffix, SSuffix_Suffix in E. apply Sp_suffix; auto.
    eapply Suffix_trans; eauto. Qed.
  Lemma Sp_sot_lift q bs k1 k3 x l : Suffix x l ->
    Sp u l (lift (single_or_triple unesc q bs k1 k3 x) (fun y => retp y)).
  Proof. intro Hx. unfold lift. destruct (single_or_triple unesc q bs k1 k3 x) as [[t r']|e a|w] eqn:E; try exact I.
    pose proof (SSuffix_Suffix _ _ (single_or_triple_suffix _ _ _ _ _ _ _ _ E)) as Hs.
    assert (Ht : exists k s, t = TStr k s).
    { revert E. unfold single_or_triple. destruct x as [|c1 r1]; [discriminate|]. destruct (c1 =? q); [|discriminate].
      destruct r1 as [|c2 r2].
      { destruct (qs_loop _ _ _ _ _ _) as [[s0 r0]|]; [|discriminate]. intros [= <- _]. eauto. }
      destruct (c2 =? q).
      - destruct r2 as [|c3 r3]; [intros [= <- _]; eauto|]. destruct (c3 =? q); [|intros [= <- _]; eauto].
        destruct (qs_loop _ _ _ _ _ _) as [[s0 r0]|]; [|discriminate]. intros [= <- _]. eauto.
      - destruct (qs_loop _ _ _ _ _ _) as [[s0 r0]|]; [|discriminate]. intros [= <- _]. eauto. }
    destruct Ht as (k & s & ->). unfold retp. apply (Sp_suffix l (TStr k s) r'); auto.
    eapply Suffix_trans; eauto. Qed.

  Lemma Sp_dollar l : l <> [] -> hd 0 l = cDOLLAR -> Sp u l (lift (dollar_value u l) (fun y => retp y)).
  Proof.
    intros Hl Hd. unfold lift. pose proof (dollar_value_spec u l) as Hs.
    destruct (dollar_value u l) as [[t r']|e a|w] eqn:E; try exact I.
    destruct l as [|ch l1]; [congruence|]. cbn [hd] in Hd. subst ch. cbn [tl] in Hs.
    revert E. unfold dollar_value. cbn [tl].
    destruct l1 as [|c l2]; [intros [= <- <-]; exists [cDOLLAR]; split; reflexivity|].
    destruct (c =? cDOLLAR).
    { destruct (dq_loop None l2) as [[s r]|]; [|discriminate]. intros [= <- <-].
      unfold retp. apply Sp_suffix; auto. apply Suffix_cons. exact Hs. }
    destruct (take_while _ (c :: l2)) as [value l3] eqn:Ev. pose proof (take_while_app _ _ _ _ Ev) as Av.
    assert (Hp : forall t0 r0, Ok (TPlaceholder (cDOLLAR :: value), l3) = Ok (t0, r0) ->
                 Sp u (cDOLLAR :: c :: l2) (retp (t0, r0))).
    { intros t0 r0 [= <- <-]. exists (cDOLLAR :: value). split; [rewrite Av; reflexivity|]. cbn. apply str_eqb_refl. }
    destruct l3 as [|c3 l4]; [apply Hp|]. destruct (c3 =? cDOLLAR); [|apply Hp].
    destruct (tagged_loop _ _ _) as [[s r]|e a|w]; try discriminate. intros [= <- <-].
    unfold retp. apply Sp_suffix; auto. apply Suffix_cons. exact Hs.
  Qed.

  Lemma Sp_uni l f x : Suffix x l -> (length x < f)%nat ->
    Sp u l (lift (uni_loop f x) (fun '(s, r') => ret (TStr KUnicode s) r')).
  Proof. intros Hx Hf. unfold lift. pose proof (uni_loop_suffix f x) as H.
    destruct (uni_loop f x) as [[s r']|e a|w]; try exact I.
    apply Sp_suffix; auto. eapply Suffix_trans; eauto. Qed.

  Lemma Sp_esc l f x : Suffix x l ->
    Sp u l (match esc_loop f x with
            | Some (s, r') => ret (TStr KEscaped s) r'
            | None => Err EUnterminatedEncoded l end).
  Proof. intro Hx. destruct (esc_loop f x) as [[s r']|] eqn:E; [|exact I].
    apply esc_loop_suffix in E. apply Sp_suffix; auto. eapply Suffix_trans; eauto. Qed.

  Lemma Sp_delim ch r :
    Sp u (ch :: r) (match matching_end_quote ch with
                    | Some qe => match quoted_ident unesc qe r with
                                 | Some (s, r') => ret (TWord s (Some ch)) r'
                                 | None => Err (EExpectedClose qe) (ch :: r) end
                    | None => Panic 1 end).
  Proof. destruct (matching_end_quote ch) as [qe|]; [|exact I].
    destruct (quoted_ident unesc qe r) as [[s r']|] eqn:E; [|exact I].
    apply quoted_ident_suffix in E. apply Sp_suffix; auto with sfx. Qed.

  Lemma Sp_number l : Sp u l (retp (number d l)).
  Proof. destruct (number d l) as [t r] eqn:E. apply number_spell in E. exact E. Qed.

  Lemma Sp_qm r : Sp u (cQM :: r) (let '(s, r') := take_while (u_numeric u) r in ret (TPlaceholder (cQM :: s)) r').
  Proof. destruct (take_while (u_numeric u) r) as [s r'] eqn:E. apply take_while_app in E. subst r.
    exists (cQM :: s). split; [reflexivity|]. cbn. apply str_eqb_refl. Qed.

  Ltac split_ifs :=
    repeat match goal with
    | |- context [if ?b then _ else _] => destruct b eqn:?
    end.
  Ltac subst_eqb :=
    repeat match goal with
    | H : (?x =? ?k) = true |- _ => apply N.eqb_eq in H; try subst x
    | H : (_ || _) = true |- _ => apply orb_true_iff in H; destruct H
    | H : (_ && _) = true |- _ => apply andb_true_iff in H; destruct H
    end.
  Ltac witness :=
    unfold ret, retp, Sp;
    match goal with
    | |- exists c, ?a :: ?x = c ++ ?x /\ _ => exists [a]
    | |- exists c, ?a :: ?b :: ?x = c ++ ?x /\ _ => exists [a; b]
    | |- exists c, ?a :: ?b :: ?c0 :: ?x = c ++ ?x /\ _ => exists [a; b; c0]
    | |- exists c, ?a :: ?b :: ?c0 :: ?e :: ?x = c ++ ?x /\ _ => exists [a; b; c0; e]
    end; split; [reflexivity|].
  Ltac spell_goal :=
    cbn [spellb fix_spellings existsb];
    first [ reflexivity
          | match goal with H : u_whitespace u ?c = true |- _ => rewrite H; apply orb_true_r end
          | apply str_eqb_refl ].

  Theorem next_token_spell l : Sp u l (next_token d u unesc l).
  Proof.
    destruct l as [|ch r]; [exact I|].
    assert (Hgen : forall rr, r = rr -> Sp u (ch :: rr) (next_token d u unesc (ch :: rr))); [|apply Hgen; reflexivity].
    intros rr _. clear r.
    destruct rr as [|c2 [|c3 [|c4 r]]]; unfold next_token; cbn [peek_is tl andb orb negb];
      split_ifs; subst_eqb;
      try solve [exfalso; match goal with H : _ = true |- _ => cbn [andb orb negb] in H; discriminate end];
      try solve [witness; spell_goal];
      try solve [apply Sp_word];
      try solve [apply Sp_sq_lift; auto 6 with sfx];
      try solve [apply Sp_sot_lift; auto 6 with sfx];
      try solve [apply Sp_line; reflexivity];
      try solve [apply Sp_block; reflexivity];
      try solve [apply Sp_dollar; [discriminate|reflexivity]];
      try solve [unfold consume_for_binop; cbn [tl]; apply Sp_binop; [reflexivity|reflexivity]];
      try solve [eapply Sp_ident; [reflexivity|reflexivity|discriminate]];
      try solve [apply Sp_uni; [auto 6 with sfx|cbn [length]; lia]];
      try solve [apply Sp_esc; auto 6 with sfx];
      try solve [apply Sp_delim];
      try solve [apply Sp_number];
      try solve [apply Sp_qm].
  Qed.
End Spell.

(** Stream level: every token of a successful run spells exactly the chunk of input between
    its position and the next token's position. *)
Require Import SqlV.LexerTiling.
Theorem lex_spell d u unesc s ts : tokenize d u unesc s = LexOk ts ->
  exists cs, concat cs = s /\ length cs = length ts /\
    forall i t q, nth_error ts i = Some (t, q) -> spellb u t (nth i cs []) = true.
Proof.
  intro H. destruct (lex_tiles d u unesc s ts H) as (cs & Hc & Hl & Hn & Hi).
  exists cs. repeat split; auto. intros i t q Hnth.
  destruct (Hi i t q Hnth) as (_ & Hnext).
  pose proof (next_token_spell d u unesc (concat (skipn i cs))) as Hs. rewrite Hnext in Hs.
  destruct Hs as (c & Hcat & Hsp).
  assert (Hi' : (i < length cs)%nat).
  { rewrite Hl. apply nth_error_Some. congruence. }
  assert (Hsk : skipn i cs = nth i cs [] :: skipn (S i) cs).
  { clear -Hi'. revert i Hi'. induction cs as [|x cs IH]; intros i Hi; [cbn in Hi; lia|].
    destruct i as [|i]; [reflexivity|]. cbn [skipn nth]. apply IH. cbn [length] in Hi. lia. }
  rewrite Hsk in Hcat. cbn [concat] in Hcat. apply app_inv_tail in Hcat. rewrite Hcat. exact Hsp.
Qed.
