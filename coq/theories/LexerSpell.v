(** Per-kind spelling of tokens (C09): the characters the dispatcher consumes for a token are
    that token's own text — verbatim for words, numbers, placeholders, custom operators and
    comments, one of the fixed spellings for punctuation/operators, a single blank for
    whitespace.  Quote-delimited literals are covered by RawMode.v / EscapeProofs.v. *)
Require Import SqlV.Base SqlV.Lexer SqlV.LexerProofs.
From Coq Require Import ZArith ZifyBool ZifyN ZifyNat Arith.
Local Open Scope N_scope.

Definition fix_spellings (f : fixtok) : list str :=
  match f with
  | FComma => [[44]] | FDoubleEq => [[61; 61]] | FEq => [[61]]
  | FNeq => [[60; 62]; [33; 61]]
  | FLt => [[60]] | FGt => [[62]] | FLtEq => [[60; 61]] | FGtEq => [[62; 61]]
  | FSpaceship => [[60; 61; 62]] | FPlus => [[43]] | FMinus => [[45]] | FMul => [[42]]
  | FDiv => [[47]] | FDuckIntDiv => [[47; 47]] | FMod => [[37]] | FStringConcat => [[124; 124]]
  | FLParen => [[40]] | FRParen => [[41]] | FPeriod => [[46]] | FColon => [[58]]
  | FDoubleColon => [[58; 58]] | FAssignment => [[58; 61]] | FSemiColon => [[59]]
  | FBackslash => [[92]] | FLBracket => [[91]] | FRBracket => [[93]] | FAmpersand => [[38]]
  | FPipe => [[124]] | FCaret => [[94]] | FLBrace => [[123]] | FRBrace => [[125]]
  | FRArrow => [[61; 62]] | FSharp => [[35]] | FTilde => [[126]] | FTildeAsterisk => [[126; 42]]
  | FExclamationMarkTilde => [[33; 126]] | FExclamationMarkTildeAsterisk => [[33; 126; 42]]
  | FDoubleTilde => [[126; 126]] | FDoubleTildeAsterisk => [[126; 126; 42]]
  | FExclamationMarkDoubleTilde => [[33; 126; 126]]
  | FExclamationMarkDoubleTildeAsterisk => [[33; 126; 126; 42]]
  | FShiftLeft => [[60; 60]] | FShiftRight => [[62; 62]] | FOverlap => [[38; 38]]
  | FExclamationMark => [[33]] | FDoubleExclamationMark => [[33; 33]] | FAtSign => [[64]]
  | FCaretAt => [[94; 64]] | FPGSquareRoot => [[124; 47]] | FPGCubeRoot => [[124; 124; 47]]
  | FArrow => [[45; 62]] | FLongArrow => [[45; 62; 62]] | FHashArrow => [[35; 62]]
  | FHashLongArrow => [[35; 62; 62]] | FAtArrow => [[64; 62]] | FArrowAt => [[60; 64]]
  | FHashMinus => [[35; 45]] | FAtQuestion => [[64; 63]] | FAtAt => [[64; 64]]
  | FQuestion => [[63]] | FQuestionAnd => [[63; 38]] | FQuestionPipe => [[63; 124]]
  end.

Definition spellb (u : uni) (t : tok) (c : str) : bool :=
  match t with
  | TWord v None => str_eqb c v
  | TNumber s long => str_eqb c (s ++ (if long then [76] else []))
  | TChar ch => str_eqb c [ch]
  | TPlaceholder s => str_eqb c s
  | TCustom s => str_eqb c s
  | TFix f => existsb (str_eqb c) (fix_spellings f)
  | TWs WSpace => match c with [ch] => (ch =? cSP) || u_whitespace u ch | _ => false end
  | TWs WTab => str_eqb c [cTAB]
  | TWs WNewline => str_eqb c [cLF] || str_eqb c [cCR] || str_eqb c [cCR; cLF]
  | TWs (WLine p cm) => str_eqb c (p ++ cm)
  | TWs (WBlock s) => str_eqb c ([cSLASH; cSTAR] ++ s ++ [cSTAR; cSLASH])
  | TWord _ (Some _) | TStr _ _ | TDollar _ _ => true
  end.

(** [Sp u l x]: the outcome [x] of the dispatcher on [l] spells what it consumed. *)
Definition Sp (u : uni) (l : str) (x : res (option (tok * str))) : Prop :=
  match x with
  | Ok (Some (t, r)) => exists c, l = c ++ r /\ spellb u t c = true
  | _ => True
  end.

Lemma take_while_all_id p w : forallb p w = true -> take_while p w = (w, []).
Proof.
  induction w as [|c w IH]; cbn [forallb take_while]; [reflexivity|].
  intro H. apply andb_true_iff in H as [H1 H2]. rewrite H1, (IH H2). reflexivity.
Qed.

Section Spell.
  Variable d : dialect.
  Variable u : uni.
  Variable unesc : bool.

  Lemma Sp_intro l t r c : l = c ++ r -> spellb u t c = true -> Sp u l (ret t r).
  Proof. intros H1 H2. exists c. auto. Qed.

  (** words *)
  Lemma Sp_word ch r : Sp u (ch :: r) (word_from d ch r).
  Proof.
    unfold word_from, tokenize_word. destruct (take_while (d_ident_part d) r) as [w r'] eqn:E.
    apply take_while_app in E. subst r. exists (ch :: w). split; [reflexivity|].
    cbn [spellb app]. apply str_eqb_refl.
  Qed.

  Lemma Sp_ident chs pre x : pre = chs ++ [] -> forall l, l = chs ++ tl x -> x <> [] ->
    Sp u l (retp (ident_or_keyword d chs x)).
  Proof.
    intros _ l -> Hx. unfold retp, ident_or_keyword, tokenize_word.
    destruct (take_while (d_ident_part d) (tl x)) as [w r] eqn:E. apply take_while_app in E.
    destruct (forallb is_digit_or_dot (chs ++ w)) eqn:Ea.
    - rewrite (take_while_all_id _ _ Ea).
      destruct (take_while is_digit_or_dot r) as [s2 r2] eqn:E2. apply take_while_app in E2.
      cbn. exists ((chs ++ w) ++ s2). split.
      + rewrite E, E2. repeat rewrite <- app_assoc. reflexivity.
      + rewrite app_nil_r. apply str_eqb_refl.
    - cbn. exists (chs ++ w). split; [rewrite E; repeat rewrite <- app_assoc; reflexivity|apply str_eqb_refl].
  Qed.

  (** custom / fixed operators *)
  Lemma Sp_binop prefix f x l :
    l = prefix ++ x -> existsb (str_eqb prefix) (fix_spellings f) = true ->
    Sp u l (retp (start_binop d prefix f x)).
  Proof.
    intros -> Hf. unfold retp, start_binop.
    destruct (take_while (d_custom_op d) x) as [ops r] eqn:E. apply take_while_app in E. subst x.
    destruct ops as [|o ops].
    - cbn. exists prefix. split; [reflexivity|exact Hf].
    - cbn. exists (prefix ++ o :: ops). split; [rewrite app_assoc; reflexivity|apply str_eqb_refl].
  Qed.

  (** comments *)
  Lemma Sp_line prefix x l : l = prefix ++ x -> Sp u l (line_comment_tok prefix x).
  Proof.
    intros ->. unfold line_comment_tok, lift, line_comment.
    destruct (take_while (fun ch => negb (ch =? cLF)) x) as [c r] eqn:E. apply take_while_app in E. subst x.
    destruct r as [|ch r'].
    - cbn. exists (prefix ++ c). split; [rewrite app_nil_r; reflexivity|apply str_eqb_refl].
    - destruct (ch =? cLF) eqn:El; [|exact I]. cbn. exists (prefix ++ c ++ [ch]). split.
      + rewrite <- !app_assoc. reflexivity.
      + apply str_eqb_refl.
  Qed.

  Lemma ml_loop_spell : forall l last n s r, ml_loop last n l = Some (s, r) ->
    l = s ++ cSLASH :: r /\ (exists s0, s = s0 ++ [cSTAR] \/ (s = [] /\ last = cSTAR)).
  Proof.
    induction l as [|ch l IH]; cbn [ml_loop]; intros last n s r H; [discriminate|].
    destruct ((last =? cSLASH) && (ch =? cSTAR)) eqn:E1.
    { destruct (ml_loop ch (n + 1) l) as [[s' r']|] eqn:E; [|discriminate]. inversion H; subst.
      destruct (IH _ _ _ _ E) as (Hl & s0 & [Hs|[Hs Hc]]).
      - split; [rewrite Hl; reflexivity|]. exists (ch :: s0). left. rewrite Hs. reflexivity.
      - split; [rewrite Hl; reflexivity|]. subst. exists []. left. reflexivity. }
    destruct ((last =? cSTAR) && (ch =? cSLASH)) eqn:E2.
    { apply andb_true_iff in E2 as [Ea Eb]. apply N.eqb_eq in Ea, Eb. subst.
      destruct (n - 1 =? 0).
      - inversion H; subst. split; [reflexivity|]. exists []. right. auto.
      - destruct (ml_loop cSLASH (n - 1) l) as [[s' r']|] eqn:E; [|discriminate]. inversion H; subst.
        destruct (IH _ _ _ _ E) as (Hl & s0 & [Hs|[Hs Hc]]).
        + split; [rewrite Hl; reflexivity|]. exists (cSLASH :: s0). left. rewrite Hs. reflexivity.
        + discriminate. }
    destruct (ml_loop ch n l) as [[s' r']|] eqn:E; [|discriminate]. inversion H; subst.
    destruct (IH _ _ _ _ E) as (Hl & s0 & [Hs|[Hs Hc]]).
    - split; [rewrite Hl; reflexivity|]. exists (ch :: s0). left. rewrite Hs. reflexivity.
    - split; [rewrite Hl; reflexivity|]. subst. exists []. left. reflexivity.
  Qed.

  Lemma Sp_block x l : l = [cSLASH; cSTAR] ++ x -> Sp u l (lift (multiline_comment x) (fun y => retp y)).
  Proof.
    intros ->. unfold lift, multiline_comment.
    destruct (ml_loop cSP 1 x) as [[s r]|] eqn:E; [|exact I].
    destruct (ml_loop_spell _ _ _ _ _ E) as (Hl & s0 & [Hs|[Hs Hc]]); [|discriminate].
    cbn. exists ([cSLASH; cSTAR] ++ s ++ [cSLASH]). split.
    - rewrite Hl. rewrite <- !app_assoc. reflexivity.
    - rewrite Hs, removelast_last. rewrite <- !app_assoc. apply str_eqb_refl.
  Qed.
End Spell.
