(** C01 / C05 — proofs on the operator core: the classical Pratt round trip
    [token_roundtrip] (parsing the tokens of any tree that satisfies the invariant gives the tree
    back), uniqueness of the C04 specification, [C01_core], [C05_core]. *)
From SqlV Require Import Base PrecSpec Pratt PrattProofs PrinterCore.
From Coq Require Import ZifyBool ZifyN ZifyNat.

(** * Which trees the parser can produce: [Img] *)
Fixpoint height (e : expr) : nat :=
  let hl := fix hl (l : list expr) : nat :=
    match l with [] => O | x :: r => Nat.max (height x) (hl r) end in
  S match e with
    | EAtom _ _ => O
    | ENested x | EPre _ x | ENot x | EPostfix x | EIs _ _ x | ECast x _ => height x
    | ETuple l => hl l
    | EBin _ l r | EAnyAll _ _ l r | EIsDF _ l r | EAtTz l r | EInUnnest _ l r | EDiv l r
    | ESubscript l r => Nat.max (height l) (height r)
    | ELike _ _ _ x p _ => Nat.max (height x) (height p)
    | EBetween _ x lo hi => Nat.max (height x) (Nat.max (height lo) (height hi))
    | EInList _ x l => Nat.max (height x) (hl l)
    end.

Definition is_wkw (w : kwd) : bool :=
  match w with KNull | KTrue | KFalse | KUnknown => true | _ => false end.

(** an operand whose right spine ends in a LIKE-family node without ESCAPE would take an ESCAPE
    clause that follows it *)
Fixpoint ropen_like (e : expr) : bool :=
  match e with
  | EPre _ r | ENot r | EBin _ _ r | EIsDF _ _ r | EAtTz _ r | EBetween _ _ _ r | EDiv _ r => ropen_like r
  | ELike (LLike | LILike | LSimilar) _ _ _ _ None => true
  | ELike (LRLike | LRegexp) _ _ _ pat None => ropen_like pat
  | _ => false
  end.
Definition is_escape_head (ts : list tok) : bool :=
  match ts with TKw KEscape :: _ => true | _ => false end.
Definition esc_safe (e : expr) (rest : list tok) : Prop :=
  ropen_like e = true -> is_escape_head rest = false.

Section Shape.
  Variable d : dialect.
  (** node-local acceptance conditions of the dialect (no precedence content) *)
  Definition node_ok (e : expr) : bool :=
    match e with
    | ETuple l => Nat.leb 2 (length l)
    | EPre k _ => (k =? K_Plus) || (k =? K_Minus) || is_pg d
    | EBin k _ _ => binop d k
    | EAnyAll k q _ _ => binop d k && cmpop d k && is_quant q
    | EIs _ w _ => is_wkw w
    | ELike kd _ any _ pat esc =>
        (negb any || match kd with LLike | LILike => true | _ => false end) &&
        (match esc with None => true | Some _ => match kd with LLike | LILike | LSimilar => true | _ => false end end) &&
        (match esc with None => true | Some _ => negb (ropen_like pat) end)
    | EInList _ _ l => match l with [] => in_empty_list d | _ => true end
    | EDiv _ _ => mysql_div d
    | ESubscript _ _ => subscript d
    | _ => true
    end.

  Fixpoint shape (e : expr) : Prop :=
    node_ok e = true /\
    let all := fix all (l : list expr) : Prop :=
      match l with [] => True | x :: r => shape x /\ all r end in
    match e with
    | EAtom _ _ => True
    | ENested x | EPre _ x | ENot x | EPostfix x | EIs _ _ x | ECast x _ => shape x
    | ETuple l => all l
    | EBin _ l r | EAnyAll _ _ l r | EIsDF _ l r | EAtTz l r | EInUnnest _ l r | EDiv l r
    | ESubscript l r => shape l /\ shape r
    | ELike _ _ _ x p _ => shape x /\ shape p
    | EBetween _ x lo hi => shape x /\ shape lo /\ shape hi
    | EInList _ x l => shape x /\ all l
    end.

  Lemma shape_all l :
    (fix all (l : list expr) : Prop := match l with [] => True | x :: r => shape x /\ all r end) l
    <-> Forall shape l.
  Proof. induction l as [|x r IH]; [split; intro; [constructor|exact I]|].
    split; intro H.
    - destruct H as [H1 H2]. constructor; [exact H1|apply IH; exact H2].
    - inversion H; subst. split; [assumption| apply IH; assumption]. Qed.

  (** no construct outside the modelled fragment at any position of a token list *)
  Definition bad_here (t : tok) (r : list tok) : bool :=
    match t, r with
    | TAtom false _, TLParen :: _ => true
    | TAtom false _, TAtom true _ :: _ => true
    | TAtom false _, TOp k :: _ => lambda d && (k =? K_Arrow)
    | TLParen, _ => lambda d && lambda_ahead r
    | TType _, TLBracket :: _ | TType _, TLParen :: _ => true
    | TOther, _ => true
    | _, _ => false
    end.
  Fixpoint frag_ok (ts : list tok) : bool :=
    match ts with [] => true | t :: r => negb (bad_here t r) && frag_ok r end.

  Lemma frag_ok_app a b : frag_ok (a ++ b) = true -> frag_ok b = true.
  Proof. induction a as [|t a IH]; cbn [app frag_ok]; [auto|]. intro H.
    apply andb_true_iff in H. destruct H. auto. Qed.
  Lemma frag_ok_cons t r : frag_ok (t :: r) = true -> bad_here t r = false /\ frag_ok r = true.
  Proof. cbn [frag_ok]. intro H. apply andb_true_iff in H. destruct H as [H1 H2].
    apply negb_true_iff in H1. auto. Qed.
  Lemma frag_ok_no_other ts : frag_ok ts = true -> existsb is_other ts = false.
  Proof. induction ts as [|t r IH]; [reflexivity|]. intro H. apply frag_ok_cons in H. destruct H as [H1 H2].
    cbn [existsb]. rewrite (IH H2). destruct t; try reflexivity. cbn in H1. discriminate. Qed.
End Shape.

Definition starts (t : tok) : bool :=
  match t with
  | TAtom _ _ | TLParen | TPre _ => true
  | TOp k => (k =? K_Plus) || (k =? K_Minus) || (k =? K_Tilde)
  | TKw KNot => true
  | _ => false
  end.

Lemma yield_starts e : exists t tl, yield e = t :: tl /\ starts t = true.
Proof.
  induction e; cbn [yield]; try (eexists; eexists; split; [reflexivity|reflexivity]).
  all: try (destruct IHe as (t & tl & E & S); rewrite E; cbn [app]; eauto; fail).
  all: try (destruct IHe1 as (t & tl & E & S); rewrite E; cbn [app]; eauto; fail).
  destruct ((k =? K_Plus) || (k =? K_Minus) || (k =? K_Tilde)) eqn:K; eexists; eexists; (split; [reflexivity|]); cbn [starts]; auto.
Qed.

Section RoundTrip.
  Variable d : dialect.
  Hypothesis U0 : lvl d K_UNKNOWN = 0.
  Hypothesis Hand : lvl d K_AND <= lvl d C_Between.
  Notation L := (lvl d).
  Notation fl := (flags_of d).

  Definition Good (f : nat) (p : N) (e : expr) (rest : list tok) : Prop :=
    exists g, (length rest < g)%nat /\
      parse_sub d (S f) p (yield e ++ rest) = loop d (parse_sub d f) g p e rest.

  Definition Pre (e : expr) : Prop :=
    forall f p rest, (height e <= f)%nat -> shape d e -> wf fl L e -> lspine_gt L p e ->
      rspine_ge fl L (np d rest) e -> esc_safe e rest -> frag_ok d (yield e ++ rest) = true -> Good f p e rest.

  Lemma good_stop f p e rest :
    Good f p e rest -> np d rest <= p -> parse_sub d (S f) p (yield e ++ rest) = Ok (e, rest).
  Proof.
    intros (g & Hg & E) Hp. rewrite E. destruct g as [|g]; [lia|]. cbn [loop].
    destruct (N.leb_spec (np d rest) p); [reflexivity|lia].
  Qed.

  Lemma sub_ok r : Pre r -> forall f p rest, (height r < f)%nat -> shape d r -> wf fl L r ->
    lspine_gt L p r -> rspine_ge fl L (np d rest) r -> np d rest <= p -> esc_safe r rest ->
    frag_ok d (yield r ++ rest) = true -> parse_sub d f p (yield r ++ rest) = Ok (r, rest).
  Proof.
    intros HP f p rest Hh Hs Hw Hl Hr Hp He Hf. destruct f as [|f']; [lia|].
    apply good_stop; [|assumption]. apply HP; auto. lia.
  Qed.

  Lemma prefix_good f p e rest :
    parse_prefix d (parse_sub d f) (yield e ++ rest) = Ok (e, rest) -> Good f p e rest.
  Proof.
    intro H. exists (S (length rest)). split; [lia|]. cbn [parse_sub]. rewrite H. reflexivity.
  Qed.

  Lemma infix_good f p l e rest' rest :
    Good f p l rest' -> p < np d rest' ->
    parse_infix d (parse_sub d f) l (np d rest') rest' = Ok (e, rest) ->
    (length rest < length rest')%nat -> yield e ++ rest = yield l ++ rest' ->
    Good f p e rest.
  Proof.
    intros (g & Hg & E) Hp Hi Hlen Hy. destruct g as [|g]; [lia|].
    exists g. split; [lia|]. rewrite Hy, E. cbn [loop].
    destruct (N.leb_spec (np d rest') p); [lia|]. rewrite Hi. reflexivity.
  Qed.

  (** a token that can start an operand is never one of the look-ahead keywords *)
  Lemma starts_not_quant t tl (A : Type) (x y : kwd -> list tok -> A) (z : A) :
    starts t = true ->
    match t :: tl with TKw w :: r1 => if is_quant w then x w r1 else z | _ => z end = z.
  Proof. destruct t; try reflexivity. destruct k; cbn; try discriminate; reflexivity. Qed.

  Ltac len := cbn [length app not_toks any_toks like_toks]; repeat (rewrite app_length; cbn [length]); lia.
  Ltac assoc := cbn [yield app]; repeat (rewrite <- app_assoc; cbn [app]); reflexivity.

  Lemma rt_bin k l r : Pre l -> Pre r -> Pre (EBin k l r).
  Proof.
    intros IHl IHr f p rest Hh Hs Hw Hl Hr Hesc Hf.
    cbn [height] in Hh. destruct Hs as [Hn [Hsl Hsr]]. cbn [node_ok] in Hn.
    cbn [wf] in Hw. destruct Hw as [[HL [HR _]] [Hwl Hwr]]. cbn [lhead rhead] in HL, HR.
    cbn [lspine_gt] in Hl. destruct Hl as [Hpk Hll]. cbn [rspine_ge] in Hr. destruct Hr as [Hrk Hrr].
    assert (Hf' : frag_ok d (yield l ++ TOp k :: yield r ++ rest) = true).
    { revert Hf. cbn [yield]. repeat (rewrite <- app_assoc; cbn [app]). auto. }
    apply (infix_good f p l _ (TOp k :: yield r ++ rest)).
    - apply IHl; auto; try lia; try (intros _; try destruct neg; reflexivity).
    - exact Hpk.
    - change (np d (TOp k :: yield r ++ rest)) with (L k). cbn [parse_infix]. rewrite Hn.
      destruct (yield_starts r) as (t & tl & E & St). rewrite E. cbn [app].
      assert (Hsub : parse_sub d f (L k) (yield r ++ rest) = Ok (r, rest)).
      { apply sub_ok; auto; try lia; try exact Hesc; try (intros _; try destruct neg; reflexivity). apply frag_ok_app in Hf'. apply frag_ok_cons in Hf'. tauto. }
      rewrite E in Hsub. cbn [app] in Hsub.
      destruct t as [| | | |kw| | | | | | | | |]; try (rewrite Hsub; reflexivity).
      destruct kw; cbn [is_quant]; try discriminate St; rewrite Hsub; reflexivity.
    - try destruct neg; len.
    - assoc.
  Qed.

  Lemma rspine_ge_zero e : rspine_ge fl L 0 e.
  Proof. induction e; cbn [rspine_ge]; auto; try (split; [lia|auto]). destruct esc; auto. split; [lia|auto]. Qed.

  (** an interior operand closed by a token without binding power *)
  Lemma sub_closed x : Pre x -> forall f p rest, (height x < f)%nat -> shape d x -> wf fl L x ->
    lspine_gt L p x -> np d rest = 0 -> esc_safe x rest -> frag_ok d (yield x ++ rest) = true ->
    parse_sub d f p (yield x ++ rest) = Ok (x, rest).
  Proof.
    intros HP f p rest Hh Hs Hw Hl Hn He Hf. apply sub_ok; auto.
    - rewrite Hn. apply rspine_ge_zero.
    - rewrite Hn. lia.
  Qed.

  Lemma rt_atom s n : Pre (EAtom s n).
  Proof.
    intros f p rest _ _ _ _ _ _ Hf. apply prefix_good. cbn [yield app] in *.
    apply frag_ok_cons in Hf. destruct Hf as [Hb _]. cbn [parse_prefix].
    destruct rest as [|t r]; [reflexivity|].
    destruct t, s; cbn [bad_here negb andb] in Hb |- *; try reflexivity; try discriminate Hb.
    all: try (rewrite Hb; reflexivity).
    all: destruct s0; cbn in Hb |- *; try reflexivity; discriminate Hb.
  Qed.

  Lemma height_pos e : (1 <= height e)%nat.
  Proof. destruct e; cbn [height]; lia. Qed.

  Lemma rt_not x : Pre x -> Pre (ENot x).
  Proof.
    intros IH f p rest Hh [_ Hs] Hw _ Hr Hesc Hf. cbn [height] in Hh.
    cbn [wf] in Hw. destruct Hw as [[_ [HR _]] Hwx]. cbn [rhead] in HR.
    cbn [rspine_ge] in Hr. destruct Hr as [Hrk Hrr].
    apply prefix_good. cbn [yield app parse_prefix] in *.
    apply frag_ok_cons in Hf. destruct Hf as [_ Hf].
    rewrite (sub_ok x IH); auto; try lia; try exact Hesc; try (intros _; try destruct neg; reflexivity).
  Qed.

  Lemma rt_pre k x : Pre x -> Pre (EPre k x).
  Proof.
    intros IH f p rest Hh [Hn Hs] Hw _ Hr Hesc Hf. cbn [height] in Hh. cbn [node_ok] in Hn.
    cbn [wf] in Hw. destruct Hw as [[_ [HR _]] Hwx]. cbn [rhead] in HR.
    cbn [rspine_ge] in Hr. destruct Hr as [Hrk Hrr].
    apply prefix_good. cbn [yield] in *. unfold pre_level_key in *.
    destruct ((k =? K_Plus) || (k =? K_Minus)) eqn:K1.
    - cbn [orb app parse_prefix] in *. rewrite K1.
      apply frag_ok_cons in Hf. destruct Hf as [_ Hf].
      rewrite (sub_ok x IH); auto; try lia; try exact Hesc; try (intros _; try destruct neg; reflexivity).
    - cbn [orb] in Hn, Hf |- *. destruct (k =? K_Tilde) eqn:K2; cbn [app parse_prefix] in *.
      + rewrite K1, K2, Hn. cbn [andb]. apply frag_ok_cons in Hf. destruct Hf as [_ Hf].
        rewrite (sub_ok x IH); auto; try lia; try exact Hesc; try (intros _; try destruct neg; reflexivity).
      + rewrite K1, K2, Hn. cbn [orb]. apply frag_ok_cons in Hf. destruct Hf as [_ Hf].
        rewrite (sub_ok x IH); auto; try lia; try exact Hesc; try (intros _; try destruct neg; reflexivity).
  Qed.

  Lemma np_rparen r : np d (TRParen :: r) = 0.  Proof. exact U0. Qed.
  Lemma np_rbracket r : np d (TRBracket :: r) = 0.  Proof. exact U0. Qed.
  Lemma np_comma r : np d (TComma :: r) = 0.  Proof. exact U0. Qed.
  Lemma np_escape r : np d (TKw KEscape :: r) = 0.  Proof. exact U0. Qed.

  Lemma rt_nested x : Pre x -> Pre (ENested x).
  Proof.
    intros IH f p rest Hh [_ Hs] Hw _ _ Hesc Hf. cbn [height] in Hh.
    cbn [wf] in Hw. destruct Hw as [[_ [_ HI]] Hwx]. cbn [interior] in HI.
    apply prefix_good. cbn [yield app] in *.
    replace ((yield x ++ [TRParen]) ++ rest) with (yield x ++ TRParen :: rest) in * by (rewrite <- app_assoc; reflexivity).
    apply frag_ok_cons in Hf. destruct Hf as [Hb Hf]. cbn [bad_here] in Hb.
    cbn [parse_prefix]. rewrite Hb. cbn [parse_list].
    rewrite (sub_closed x IH); auto; try lia; try exact Hesc; try (intros _; try destruct neg; reflexivity).
  Qed.

  Ltac frc H := apply frag_ok_cons in H; destruct H as [_ H].
  Ltac fra H := apply frag_ok_app in H.
  Ltac frc_kw H := match type of H with frag_ok _ (TKw _ :: _) = true => frc H end.

  Lemma rt_postfix x : Pre x -> Pre (EPostfix x).
  Proof.
    intros IH f p rest Hh [_ Hs] Hw Hl _ Hesc Hf. cbn [height] in Hh.
    cbn [wf] in Hw. destruct Hw as [[HL _] Hwx]. cbn [lhead] in HL.
    cbn [lspine_gt] in Hl. destruct Hl as [Hpk Hll].
    assert (Hf' : frag_ok d (yield x ++ TExcl :: rest) = true).
    { revert Hf. cbn [yield]. repeat (rewrite <- app_assoc; cbn [app]). auto. }
    apply (infix_good f p x _ (TExcl :: rest)).
    - apply IH; auto; try lia; try (intros _; try destruct neg; reflexivity).
    - exact Hpk.
    - reflexivity.
    - try destruct neg; len.
    - assoc.
  Qed.

  Lemma rt_cast x ty : Pre x -> Pre (ECast x ty).
  Proof.
    intros IH f p rest Hh [_ Hs] Hw Hl _ Hesc Hf. cbn [height] in Hh.
    cbn [wf] in Hw. destruct Hw as [[HL _] Hwx]. cbn [lhead] in HL.
    cbn [lspine_gt] in Hl. destruct Hl as [Hpk Hll].
    assert (Hf' : frag_ok d (yield x ++ TDoubleColon :: TType ty :: rest) = true).
    { revert Hf. cbn [yield]. repeat (rewrite <- app_assoc; cbn [app]). auto. }
    apply (infix_good f p x _ (TDoubleColon :: TType ty :: rest)).
    - apply IH; auto; try lia; try (intros _; try destruct neg; reflexivity).
    - exact Hpk.
    - cbn [parse_infix]. apply frag_ok_app in Hf'. apply frag_ok_cons in Hf'. destruct Hf' as [_ Hf'].
      apply frag_ok_cons in Hf'. destruct Hf' as [Hb _].
      destruct rest as [|t r]; [reflexivity|]. destruct t; cbn [bad_here] in Hb; try reflexivity; discriminate Hb.
    - try destruct neg; len.
    - assoc.
  Qed.

  Lemma rt_is neg w x : Pre x -> Pre (EIs neg w x).
  Proof.
    intros IH f p rest Hh [Hn Hs] Hw Hl _ Hesc Hf. cbn [height] in Hh. cbn [node_ok] in Hn.
    cbn [wf] in Hw. destruct Hw as [[HL _] Hwx]. cbn [lhead] in HL.
    cbn [lspine_gt] in Hl. destruct Hl as [Hpk Hll].
    assert (Hf' : frag_ok d (yield x ++ TKw KIs :: not_toks neg ++ TKw w :: rest) = true).
    { revert Hf. cbn [yield]. repeat (rewrite <- app_assoc; cbn [app]). auto. }
    apply (infix_good f p x _ (TKw KIs :: not_toks neg ++ TKw w :: rest)).
    - apply IH; auto; try lia; try (intros _; try destruct neg; reflexivity).
    - exact Hpk.
    - destruct neg, w; try discriminate Hn; reflexivity.
    - try destruct neg; len.
    - assoc.
  Qed.

  Lemma rt_isdf neg l r : Pre l -> Pre r -> Pre (EIsDF neg l r).
  Proof.
    intros IHl IHr f p rest Hh [_ [Hsl Hsr]] Hw Hl Hr Hesc Hf. cbn [height] in Hh.
    cbn [wf] in Hw. destruct Hw as [[HL [HR _]] [Hwl Hwr]]. cbn [lhead rhead flags_of isdf_ok] in HL, HR.
    cbn [lspine_gt] in Hl. destruct Hl as [Hpk Hll].
    cbn [rspine_ge flags_of isdf_ok] in Hr. destruct Hr as [Hrk Hrr].
    assert (Hf' : frag_ok d (yield l ++ TKw KIs :: not_toks neg ++ TKw KDistinct :: TKw KFrom :: yield r ++ rest) = true).
    { revert Hf. cbn [yield]. repeat (rewrite <- app_assoc; cbn [app]). auto. }
    apply (infix_good f p l _ (TKw KIs :: not_toks neg ++ TKw KDistinct :: TKw KFrom :: yield r ++ rest)).
    - apply IHl; auto; try lia; try (intros _; try destruct neg; reflexivity).
    - exact Hpk.
    - change (np d (TKw KIs :: not_toks neg ++ TKw KDistinct :: TKw KFrom :: yield r ++ rest)) with (L K_IS).
      assert (Hsub : parse_sub d f (isdf_level d (L K_IS)) (yield r ++ rest) = Ok (r, rest)).
      { rewrite isdf_level_eq. apply sub_ok; auto; try lia; try exact Hesc; try (intros _; try destruct neg; reflexivity). fra Hf'. frc Hf'. destruct neg; cbn [not_toks app] in Hf'; [frc Hf'|]; do 2 frc Hf'; exact Hf'. }
      destruct neg; cbn [parse_infix not_toks app]; rewrite Hsub; reflexivity.
    - try destruct neg; len.
    - assoc.
  Qed.

  Lemma rt_attz l r : Pre l -> Pre r -> Pre (EAtTz l r).
  Proof.
    intros IHl IHr f p rest Hh [_ [Hsl Hsr]] Hw Hl Hr Hesc Hf. cbn [height] in Hh.
    cbn [wf] in Hw. destruct Hw as [[HL [HR _]] [Hwl Hwr]]. cbn [lhead rhead] in HL, HR.
    cbn [lspine_gt] in Hl. destruct Hl as [Hpk Hll].
    cbn [rspine_ge] in Hr. destruct Hr as [Hrk Hrr].
    assert (Hf' : frag_ok d (yield l ++ TKw KAt :: TKw KTime :: TKw KZone :: yield r ++ rest) = true).
    { revert Hf. cbn [yield]. repeat (rewrite <- app_assoc; cbn [app]). auto. }
    apply (infix_good f p l _ (TKw KAt :: TKw KTime :: TKw KZone :: yield r ++ rest)).
    - apply IHl; auto; try lia; try (intros _; try destruct neg; reflexivity).
    - exact Hpk.
    - change (np d (TKw KAt :: TKw KTime :: TKw KZone :: yield r ++ rest)) with (L K_ATTZ).
      cbn [parse_infix]. rewrite (sub_ok r IHr); auto; try lia; try exact Hesc; try (intros _; try destruct neg; reflexivity). fra Hf'. do 3 frc Hf'. exact Hf'.
    - try destruct neg; len.
    - assoc.
  Qed.

  Lemma rt_div l r : Pre l -> Pre r -> Pre (EDiv l r).
  Proof.
    intros IHl IHr f p rest Hh [Hn [Hsl Hsr]] Hw Hl Hr Hesc Hf. cbn [height] in Hh. cbn [node_ok] in Hn.
    cbn [wf] in Hw. destruct Hw as [[HL [HR _]] [Hwl Hwr]]. cbn [lhead rhead flags_of div_ok] in HL, HR.
    cbn [lspine_gt] in Hl. destruct Hl as [Hpk Hll].
    cbn [rspine_ge flags_of div_ok] in Hr. destruct Hr as [Hrk Hrr].
    assert (Hf' : frag_ok d (yield l ++ TKw KDiv :: yield r ++ rest) = true).
    { revert Hf. cbn [yield]. repeat (rewrite <- app_assoc; cbn [app]). auto. }
    apply (infix_good f p l _ (TKw KDiv :: yield r ++ rest)).
    - apply IHl; auto; try lia; try (intros _; try destruct neg; reflexivity).
    - exact Hpk.
    - change (np d (TKw KDiv :: yield r ++ rest)) with (L K_DIV).
      cbn [parse_infix]. rewrite Hn, div_level_eq. rewrite (sub_ok r IHr); auto; try lia; try exact Hesc; try (intros _; try destruct neg; reflexivity). fra Hf'. frc Hf'. exact Hf'.
    - try destruct neg; len.
    - assoc.
  Qed.

  Lemma rt_subscript x i : Pre x -> Pre i -> Pre (ESubscript x i).
  Proof.
    intros IHl IHr f p rest Hh [Hn [Hsl Hsr]] Hw Hl _ Hesc Hf. cbn [height] in Hh. cbn [node_ok] in Hn.
    cbn [wf] in Hw. destruct Hw as [[HL [_ HI]] [Hwl Hwr]]. cbn [lhead interior] in HL, HI.
    cbn [lspine_gt] in Hl. destruct Hl as [Hpk Hll].
    assert (Hf' : frag_ok d (yield x ++ TLBracket :: yield i ++ TRBracket :: rest) = true).
    { revert Hf. cbn [yield]. repeat (rewrite <- app_assoc; cbn [app]). auto. }
    apply (infix_good f p x _ (TLBracket :: yield i ++ TRBracket :: rest)).
    - apply IHl; auto; try lia; try (intros _; try destruct neg; reflexivity).
    - exact Hpk.
    - cbn [parse_infix]. rewrite Hn.
      assert (Hsub : parse_sub d f (L K_UNKNOWN) (yield i ++ TRBracket :: rest) = Ok (i, TRBracket :: rest)).
      { apply sub_closed; auto; try lia; try exact Hesc; try (intros _; try destruct neg; reflexivity). fra Hf'. frc Hf'. exact Hf'. }
      destruct (yield_starts i) as (t & tl & E & St). rewrite E in *. cbn [app] in *.
      destruct t; try discriminate St; rewrite Hsub; reflexivity.
    - try destruct neg; len.
    - cbn [yield app]. repeat (rewrite <- app_assoc; cbn [app]). reflexivity.
  Qed.

  Lemma rt_inunnest neg x a : Pre x -> Pre a -> Pre (EInUnnest neg x a).
  Proof.
    intros IHl IHr f p rest Hh [_ [Hsl Hsr]] Hw Hl _ Hesc Hf. cbn [height] in Hh.
    cbn [wf] in Hw. destruct Hw as [[HL [_ HI]] [Hwl Hwr]]. cbn [lhead interior] in HL, HI.
    cbn [lspine_gt] in Hl. destruct Hl as [Hpk Hll].
    assert (Hf' : frag_ok d (yield x ++ not_toks neg ++ TKw KIn :: TKw KUnnest :: TLParen :: yield a ++ TRParen :: rest) = true).
    { revert Hf. cbn [yield]. repeat (rewrite <- app_assoc; cbn [app]). auto. }
    apply (infix_good f p x _ (not_toks neg ++ TKw KIn :: TKw KUnnest :: TLParen :: yield a ++ TRParen :: rest)).
    - apply IHl; auto; try lia; try (destruct neg; exact HL); try (intros _; destruct neg; reflexivity).
    - destruct neg; exact Hpk.
    - assert (Hsub : parse_sub d f (L K_UNKNOWN) (yield a ++ TRParen :: rest) = Ok (a, TRParen :: rest)).
      { apply sub_closed; auto; try lia; try exact Hesc; try (intros _; try destruct neg; reflexivity). fra Hf'. destruct neg; cbn [not_toks app] in Hf'; [frc Hf'|]; do 3 frc Hf'; exact Hf'. }
      destruct neg; cbn [not_toks app parse_infix parse_not_family parse_in]; rewrite Hsub; reflexivity.
    - destruct neg; len.
    - cbn [yield app]. repeat (rewrite <- app_assoc; cbn [app]). reflexivity.
  Qed.

  Lemma rt_anyall k q l r : Pre l -> Pre r -> Pre (EAnyAll k q l r).
  Proof.
    intros IHl IHr f p rest Hh [Hn [Hsl Hsr]] Hw Hl _ Hesc Hf. cbn [height] in Hh. cbn [node_ok] in Hn.
    apply andb_true_iff in Hn. destruct Hn as [Hn Hq]. apply andb_true_iff in Hn. destruct Hn as [Hb Hc].
    cbn [wf] in Hw. destruct Hw as [[HL [_ HI]] [Hwl Hwr]]. cbn [lhead interior] in HL, HI.
    cbn [lspine_gt] in Hl. destruct Hl as [Hpk Hll].
    assert (Hf' : frag_ok d (yield l ++ TOp k :: TKw q :: TLParen :: yield r ++ TRParen :: rest) = true).
    { revert Hf. cbn [yield]. repeat (rewrite <- app_assoc; cbn [app]). auto. }
    apply (infix_good f p l _ (TOp k :: TKw q :: TLParen :: yield r ++ TRParen :: rest)).
    - apply IHl; auto; try lia; try (intros _; try destruct neg; reflexivity).
    - exact Hpk.
    - change (np d (TOp k :: TKw q :: TLParen :: yield r ++ TRParen :: rest)) with (L k).
      cbn [parse_infix]. rewrite Hb, Hq.
      rewrite (sub_closed r IHr); auto; try lia; try exact Hesc; try (intros _; try destruct neg; reflexivity).
      + cbn [bind expect_rparen]. rewrite Hc. reflexivity.
      + fra Hf'. do 3 frc Hf'. exact Hf'.
    - len.
    - cbn [yield app]. repeat (rewrite <- app_assoc; cbn [app]). reflexivity.
  Qed.

  Lemma rt_between neg x lo hi : Pre x -> Pre lo -> Pre hi -> Pre (EBetween neg x lo hi).
  Proof.
    intros IHx IHlo IHhi f p rest Hh [_ [Hsx [Hslo Hshi]]] Hw Hl Hr Hesc Hf. cbn [height] in Hh.
    cbn [wf] in Hw. destruct Hw as [[HL [HR [HI1 HI2]]] [Hwx [Hwlo Hwhi]]]. cbn [lhead rhead] in HL, HR.
    cbn [lspine_gt] in Hl. destruct Hl as [Hpk Hll].
    cbn [rspine_ge] in Hr. destruct Hr as [Hrk Hrr].
    assert (Hf' : frag_ok d (yield x ++ not_toks neg ++ TKw KBetween :: yield lo ++ TOp K_AND :: yield hi ++ rest) = true).
    { revert Hf. cbn [yield]. repeat (rewrite <- app_assoc; cbn [app]). auto. }
    apply (infix_good f p x _ (not_toks neg ++ TKw KBetween :: yield lo ++ TOp K_AND :: yield hi ++ rest)).
    - apply IHx; auto; try lia; try (destruct neg; exact HL); try (intros _; destruct neg; reflexivity).
    - destruct neg; exact Hpk.
    - assert (Hlo : parse_sub d f (L C_Between) (yield lo ++ TOp K_AND :: yield hi ++ rest) = Ok (lo, TOp K_AND :: yield hi ++ rest)).
      { apply sub_ok; auto; try lia; try exact Hesc; try (intros _; try destruct neg; reflexivity). fra Hf'. destruct neg; cbn [not_toks app] in Hf'; [frc Hf'|]; frc Hf'; exact Hf'. }
      assert (Hhi : parse_sub d f (L C_Between) (yield hi ++ rest) = Ok (hi, rest)).
      { apply sub_ok; auto; try lia; try exact Hesc; try (intros _; try destruct neg; reflexivity). fra Hf'. destruct neg; cbn [not_toks app] in Hf'; [frc Hf'|]; frc Hf'; fra Hf'; frc Hf'; exact Hf'. }
      destruct neg; cbn [not_toks app parse_infix parse_not_family]; rewrite Hlo; cbn [bind];
        change (K_AND =? K_AND) with true; cbn beta iota; rewrite Hhi; reflexivity.
    - destruct neg; len.
    - cbn [yield app]. repeat (rewrite <- app_assoc; cbn [app]). reflexivity.
  Qed.

  (** comma-separated lists *)
  Lemma yield_len x : (1 <= length (yield x))%nat.
  Proof. destruct (yield_starts x) as (t & tl & E & _). rewrite E. cbn [length]. lia. Qed.

  Lemma commas_length l : (length l <= length (commas l))%nat.
  Proof.
    induction l as [|x l IH]; [cbn; lia|].
    destruct l as [|y l'].
    - cbn [commas length]. pose proof (yield_len x). lia.
    - change (commas (x :: y :: l')) with (yield x ++ TComma :: commas (y :: l')).
      rewrite app_length. cbn [length] in *. pose proof (yield_len x). lia.
  Qed.

  Lemma list_ok l : l <> [] -> Forall Pre l -> forall f g rest,
    Forall (fun x => (height x < f)%nat) l -> Forall (shape d) l -> Forall (wf fl L) l ->
    Forall (lspine_gt L (U L)) l -> (length l <= g)%nat ->
    frag_ok d (commas l ++ TRParen :: rest) = true ->
    parse_list d (parse_sub d f) g (commas l ++ TRParen :: rest) = Ok (l, TRParen :: rest).
  Proof.
    induction l as [|x l IH]; [congruence|]. intros _ HP f g rest Hh Hs Hw Hl Hg Hf.
    inversion HP; subst. inversion Hh; subst. inversion Hs; subst. inversion Hw; subst. inversion Hl; subst.
    destruct g as [|g]; [cbn in Hg; lia|]. cbn [parse_list].
    destruct l as [|y l'].
    - cbn [commas] in *. rewrite (sub_closed x); auto using np_rparen; try (intros _; reflexivity).
    - cbn [commas] in *. rewrite <- app_assoc in *. cbn [app] in *.
      rewrite (sub_closed x); auto using np_comma; try (intros _; reflexivity).
      cbn [bind]. rewrite IH; auto; try congruence.
      + cbn [length] in *. lia.
      + fra Hf. frc Hf. exact Hf.
  Qed.

  Lemma hl_forall l :
    Forall (fun x => (height x <=
      (fix hl (l : list expr) : nat := match l with [] => O | x :: r => Nat.max (height x) (hl r) end) l)%nat) l.
  Proof.
    induction l as [|x r IH]; constructor; [lia|].
    eapply Forall_impl; [|exact IH]. cbn beta. intros. lia.
  Qed.

  Lemma rt_tuple l : Forall Pre l -> Pre (ETuple l).
  Proof.
    intros IH f p rest Hh Hs Hw _ _ Hesc Hf. rewrite wf_tuple in Hw. destruct Hw as [[_ [_ HI]] Hw]. cbn [interior] in HI.
    cbn [shape] in Hs. destruct Hs as [Hn Hs]. apply shape_all in Hs. cbn [node_ok] in Hn. apply PeanoNat.Nat.leb_le in Hn.
    cbn [height] in Hh.
    apply prefix_good. rewrite yield_tuple in *. cbn [app] in *.
    replace ((commas l ++ [TRParen]) ++ rest) with (commas l ++ TRParen :: rest) in * by (rewrite <- app_assoc; reflexivity).
    apply frag_ok_cons in Hf. destruct Hf as [Hb Hf]. cbn [bad_here] in Hb.
    cbn [parse_prefix]. rewrite Hb.
    rewrite (list_ok l); auto.
    - cbn [bind expect_rparen]. destruct l as [|x [|y l']]; cbn [length] in Hn; try lia. reflexivity.
    - destruct l; [cbn in Hn; lia|congruence].
    - eapply Forall_impl; [|apply hl_forall]. cbn beta. intros. lia.
    - pose proof (commas_length l). rewrite app_length. lia.
  Qed.

  Lemma rt_inlist neg x l : Pre x -> Forall Pre l -> Pre (EInList neg x l).
  Proof.
    intros IHx IH f p rest Hh Hs Hw Hl _ Hesc Hf. rewrite wf_inlist in Hw. destruct Hw as [[HL [_ HI]] [Hwx Hw]].
    cbn [lhead interior] in HL, HI.
    cbn [shape] in Hs. destruct Hs as [Hn [Hsx Hs]]. apply shape_all in Hs. cbn [node_ok] in Hn.
    cbn [height] in Hh. cbn [lspine_gt] in Hl. destruct Hl as [Hpk Hll].
    assert (Hhl : Forall (fun a => (height a < f)%nat) l).
    { eapply Forall_impl; [|apply hl_forall]. cbn beta. intros. lia. }
    assert (Hf' : frag_ok d (yield x ++ not_toks neg ++ TKw KIn :: TLParen :: commas l ++ TRParen :: rest) = true).
    { revert Hf. rewrite yield_inlist. repeat (rewrite <- app_assoc; cbn [app]). auto. }
    apply (infix_good f p x _ (not_toks neg ++ TKw KIn :: TLParen :: commas l ++ TRParen :: rest)).
    - apply IHx; auto; try lia; try (destruct neg; exact HL); try (intros _; destruct neg; reflexivity).
    - destruct neg; exact Hpk.
    - assert (Hin : parse_in d (parse_sub d f) x neg (TLParen :: commas l ++ TRParen :: rest) = Ok (EInList neg x l, rest)).
      { cbn [parse_in]. destruct l as [|y l'].
        - cbn [commas app]. rewrite Hn. reflexivity.
        - assert (Hlist : parse_list d (parse_sub d f) (S (length (commas (y :: l') ++ TRParen :: rest))) (commas (y :: l') ++ TRParen :: rest)
                         = Ok (y :: l', TRParen :: rest)).
          { apply list_ok; auto; try congruence.
            - pose proof (commas_length (y :: l')). rewrite app_length. lia.
            - fra Hf'. destruct neg; cbn [not_toks app] in Hf'; [frc Hf'|]; do 2 frc Hf'; exact Hf'. }
          destruct (commas (y :: l') ++ TRParen :: rest) as [|t tl] eqn:E.
          + destruct (yield_starts y) as (t & tl & Ey & _). destruct l'; cbn [commas] in E; rewrite Ey in E; discriminate E.
          + assert (St : starts t = true).
            { destruct (yield_starts y) as (t' & tl' & Ey & St). destruct l'; cbn [commas] in E; rewrite Ey in E; cbn [app] in E; inversion E; subst; exact St. }
            destruct t; try discriminate St; rewrite Hlist; reflexivity. }
      destruct neg; cbn [not_toks app parse_infix parse_not_family]; exact Hin.
    - destruct neg; len.
    - rewrite yield_inlist. repeat (rewrite <- app_assoc; cbn [app]). reflexivity.
  Qed.

  Definition esc_toks (esc : option (bool * N)) : list tok :=
    match esc with Some (s, n) => [TKw KEscape; TAtom s n] | None => [] end.

  Lemma like_ok f kd x neg (allow any : bool) pat esc rest :
    (any = true -> allow = true) ->
    parse_sub d f (L C_Like) (yield pat ++ esc_toks esc ++ rest) = Ok (pat, esc_toks esc ++ rest) ->
    (esc = None -> is_escape_head rest = false) ->
    parse_like d (parse_sub d f) kd x neg allow (any_toks any ++ yield pat ++ esc_toks esc ++ rest)
    = Ok (ELike kd neg any x pat esc, rest).
  Proof.
    intros Ha Hp He. unfold parse_like.
    assert (Hsplit : (match any_toks any ++ yield pat ++ esc_toks esc ++ rest with
                      | TKw KAny :: r' => if allow then (true, r') else (false, any_toks any ++ yield pat ++ esc_toks esc ++ rest)
                      | _ => (false, any_toks any ++ yield pat ++ esc_toks esc ++ rest)
                      end) = (any, yield pat ++ esc_toks esc ++ rest)).
    { destruct any; cbn [any_toks app].
      - rewrite (Ha eq_refl). reflexivity.
      - destruct (yield_starts pat) as (t & tl & E & St). rewrite E. cbn [app].
        destruct t as [| | | |kw| | | | | | | | |]; try reflexivity. destruct kw; try discriminate St; reflexivity. }
    rewrite Hsplit. rewrite Hp. cbn [bind].
    destruct esc as [[s n]|]; cbn [esc_toks app]; [reflexivity|].
    specialize (He eq_refl). destruct rest as [|t r]; [reflexivity|].
    destruct t as [| | | |kw| | | | | | | | |]; try reflexivity. destruct kw; try reflexivity. discriminate He.
  Qed.

  Lemma rt_like kd neg any x pat esc : Pre x -> Pre pat -> Pre (ELike kd neg any x pat esc).
  Proof.
    intros IHx IHp f p rest Hh [Hn [Hsx Hsp]] Hw Hl Hr Hesc Hf. cbn [height] in Hh. cbn [node_ok] in Hn.
    apply andb_true_iff in Hn. destruct Hn as [Hn Hn3]. apply andb_true_iff in Hn. destruct Hn as [Hn1 Hn2].
    cbn [wf] in Hw. destruct Hw as [[HL [HR HI]] [Hwx Hwp]]. cbn [lhead] in HL.
    cbn [lspine_gt] in Hl. destruct Hl as [Hpk Hll].
    assert (Hpatl : lspine_gt L (L C_Like) pat).
    { destruct esc; cbn [rhead interior] in HR, HI; assumption. }
    assert (Hy : yield (ELike kd neg any x pat esc) ++ rest =
                 yield x ++ not_toks neg ++ like_toks kd ++ any_toks any ++ yield pat ++ esc_toks esc ++ rest).
    { cbn [yield]. destruct esc as [[s n]|]; cbn [esc_toks]; repeat (rewrite <- app_assoc; cbn [app]); reflexivity. }
    rewrite Hy in Hf.
    assert (Hfp : frag_ok d (yield pat ++ esc_toks esc ++ rest) = true).
    { fra Hf. destruct neg, kd, any; cbn [not_toks like_toks any_toks app] in Hf; repeat frc_kw Hf; exact Hf. }
    assert (Hp : parse_sub d f (L C_Like) (yield pat ++ esc_toks esc ++ rest) = Ok (pat, esc_toks esc ++ rest)).
    { destruct esc as [[s n]|]; cbn [esc_toks app] in *.
      - apply sub_closed; auto; try lia; try apply np_escape;
          try (intro H; apply negb_true_iff in Hn3; congruence).
      - cbn [rspine_ge] in Hr. destruct Hr as [Hrk Hrr].
        apply sub_ok; auto; try lia; try (destruct kd; first [exact Hesc | intros _; apply Hesc; reflexivity]). }
    apply (infix_good f p x _ (not_toks neg ++ like_toks kd ++ any_toks any ++ yield pat ++ esc_toks esc ++ rest)).
    - apply IHx; auto; try lia.
      + destruct kd, neg; exact HL.
      + intros _. destruct kd, neg; reflexivity.
    - destruct kd, neg; exact Hpk.
    - destruct kd; try (destruct neg; (cbn [not_toks like_toks app parse_infix parse_not_family];
        apply like_ok; [ intro E; subst any; cbn in Hn1; try discriminate Hn1; reflexivity | exact Hp
                       | intro E; subst esc; apply Hesc; reflexivity ])).
      + (* RLIKE *) destruct any; [discriminate Hn1|]. destruct esc; [discriminate Hn2|].
        cbn [esc_toks any_toks app] in *.
        destruct (yield_starts pat) as (t & tl & E & St). rewrite E in *. cbn [app] in *.
        destruct neg; cbn [not_toks like_toks app parse_infix parse_not_family]; rewrite Hp; reflexivity.
      + (* REGEXP *) destruct any; [discriminate Hn1|]. destruct esc; [discriminate Hn2|].
        cbn [esc_toks any_toks app] in *.
        destruct (yield_starts pat) as (t & tl & E & St). rewrite E in *. cbn [app] in *.
        destruct t as [| | | |kw| | | | | | | | |]; try (destruct neg; cbn [not_toks like_toks app parse_infix parse_not_family]; rewrite Hp; reflexivity).
        destruct kw; try discriminate St.
        destruct neg; cbn [not_toks like_toks app parse_infix parse_not_family]; rewrite Hp; reflexivity.
    - destruct neg, kd, any; len.
    - exact Hy.
  Qed.

  Theorem roundtrip_pre e : Pre e.
  Proof.
    induction e using expr_rect'.
    - apply rt_atom.
    - apply rt_nested; assumption.
    - apply rt_tuple; assumption.
    - apply rt_pre; assumption.
    - apply rt_not; assumption.
    - apply rt_bin; assumption.
    - apply rt_anyall; assumption.
    - apply rt_postfix; assumption.
    - apply rt_is; assumption.
    - apply rt_isdf; assumption.
    - apply rt_attz; assumption.
    - apply rt_cast; assumption.
    - apply rt_like; assumption.
    - apply rt_between; assumption.
    - apply rt_inlist; assumption.
    - apply rt_inunnest; assumption.
    - apply rt_div; assumption.
    - apply rt_subscript; assumption.
  Qed.

  (** The classical Pratt round trip: parsing the tokens of a tree that satisfies the invariant
      gives the tree back, whatever follows (as long as what follows does not bind tighter than
      the level [p] we parse at). *)
  Theorem token_roundtrip e p rest fuel :
    (height e < fuel)%nat -> shape d e -> wf fl L e -> lspine_gt L p e ->
    rspine_ge fl L (np d rest) e -> np d rest <= p -> esc_safe e rest ->
    frag_ok d (yield e ++ rest) = true ->
    parse_sub d fuel p (yield e ++ rest) = Ok (e, rest).
  Proof. intros. apply sub_ok; auto. apply roundtrip_pre. Qed.

  Lemma hl_le_commas l :
    Forall (fun x => (height x <= length (yield x))%nat) l ->
    ((fix hl (l : list expr) : nat := match l with [] => O | x :: r => Nat.max (height x) (hl r) end) l
     <= length (commas l))%nat.
  Proof.
    induction 1 as [|x r Hx Hr IH]; [cbn; lia|].
    destruct r as [|y r'].
    - cbn [commas]. lia.
    - change (commas (x :: y :: r')) with (yield x ++ TComma :: commas (y :: r')).
      rewrite app_length. cbn [length]. lia.
  Qed.

  Lemma height_le_yield e : (height e <= length (yield e))%nat.
  Proof.
    induction e using expr_rect'; try (rewrite yield_tuple); try (rewrite yield_inlist);
      cbn [height yield length]; repeat (rewrite app_length; cbn [length]);
      try match goal with |- context [if ?b then _ else _] => destruct b end;
      try match goal with H : Forall _ _ |- _ => apply hl_le_commas in H end;
      cbn [length not_toks any_toks like_toks]; try lia.
    all: try (destruct neg; cbn [length not_toks]; lia).
    all: try (destruct n; cbn [length not_toks]; lia).
    all: destruct kd; cbn [like_toks length]; lia.
  Qed.

  Theorem parse_expr_roundtrip e rest :
    shape d e -> wf fl L e -> lspine_gt L (L K_UNKNOWN) e ->
    rspine_ge fl L (np d rest) e -> np d rest <= L K_UNKNOWN -> esc_safe e rest ->
    frag_ok d (yield e ++ rest) = true ->
    parse_expr d (yield e ++ rest) = Ok (e, rest).
  Proof.
    intros. unfold parse_expr. rewrite (frag_ok_no_other d) by assumption.
    apply token_roundtrip; auto. pose proof (height_le_yield e). rewrite app_length. lia.
  Qed.

  (** Uniqueness of the specification of C04 (for trees the dialect can produce): two correct
      trees with the same yield are equal, because both are what the parser returns. *)
  Theorem correct_unique t t' ts :
    Correct_gen fl L t ts -> Correct_gen fl L t' ts -> shape d t -> shape d t' ->
    frag_ok d ts = true -> t = t'.
  Proof.
    intros (Hy & Hw & Hl) (Hy' & Hw' & Hl') Hs Hs' Hf.
    assert (H1 : parse_expr d (yield t ++ []) = Ok (t, [])).
    { apply parse_expr_roundtrip; auto.
      - change (np d []) with (L K_UNKNOWN). rewrite U0. apply rspine_ge_zero.
      - change (np d []) with (L K_UNKNOWN). lia.
      - intros _. reflexivity.
      - rewrite app_nil_r, Hy. exact Hf. }
    assert (H2 : parse_expr d (yield t' ++ []) = Ok (t', [])).
    { apply parse_expr_roundtrip; auto.
      - change (np d []) with (L K_UNKNOWN). rewrite U0. apply rspine_ge_zero.
      - change (np d []) with (L K_UNKNOWN). lia.
      - intros _. reflexivity.
      - rewrite app_nil_r, Hy'. exact Hf. }
    rewrite Hy in H1. rewrite Hy' in H2. rewrite H1 in H2. inversion H2. reflexivity.
  Qed.
End RoundTrip.

(** * Boolean version of [shape] (evaluated on the implementation's trees) *)
Fixpoint shapeb (d : dialect) (e : expr) : bool :=
  node_ok d e &&
  let all := fix all (l : list expr) : bool :=
    match l with [] => true | x :: r => shapeb d x && all r end in
  match e with
  | EAtom _ _ => true
  | ENested x | EPre _ x | ENot x | EPostfix x | EIs _ _ x | ECast x _ => shapeb d x
  | ETuple l => all l
  | EBin _ l r | EAnyAll _ _ l r | EIsDF _ l r | EAtTz l r | EInUnnest _ l r | EDiv l r
  | ESubscript l r => shapeb d l && shapeb d r
  | ELike _ _ _ x p _ => shapeb d x && shapeb d p
  | EBetween _ x lo hi => shapeb d x && shapeb d lo && shapeb d hi
  | EInList _ x l => shapeb d x && all l
  end.

Lemma shapeb_all d l :
  Forall (fun x => shapeb d x = true <-> shape d x) l ->
  ((fix all (l : list expr) : bool := match l with [] => true | x :: r => shapeb d x && all r end) l = true
   <-> (fix all (l : list expr) : Prop := match l with [] => True | x :: r => shape d x /\ all r end) l).
Proof.
  induction 1 as [|x r Hx Hr IH]; [split; auto|]. rewrite andb_true_iff, Hx, IH. tauto.
Qed.

Lemma shapeb_iff d e : shapeb d e = true <-> shape d e.
Proof.
  induction e using expr_rect'; cbn [shapeb shape]; rewrite ?andb_true_iff;
    try (rewrite shapeb_all by assumption); tauto.
Qed.

(** everything [token_roundtrip] asks of a tree and of what follows it, as one boolean *)
Definition imgb (d : dialect) (e : expr) (rest : list tok) : bool :=
  shapeb d e && wfb (lvl d) (flags_of d) e && lspine_gtb (lvl d) (lvl d K_UNKNOWN) e &&
  rspine_geb (lvl d) (flags_of d) (np d rest) e && (np d rest <=? lvl d K_UNKNOWN) &&
  negb (ropen_like e && is_escape_head rest) && frag_ok d (yield e ++ rest).

Theorem imgb_roundtrip d e rest :
  lvl d K_UNKNOWN = 0 -> lvl d K_AND <= lvl d C_Between ->
  imgb d e rest = true -> parse_expr d (yield e ++ rest) = Ok (e, rest).
Proof.
  intros U0 Hand H. unfold imgb in H. repeat (apply andb_true_iff in H; destruct H as [H ?]).
  apply parse_expr_roundtrip; auto.
  - apply shapeb_iff; assumption.
  - apply wfb_iff; assumption.
  - apply lspine_gtb_iff; assumption.
  - apply rspine_geb_iff; assumption.
  - lia.
  - intro Hr. match goal with Hx : negb _ = true |- _ => apply negb_true_iff in Hx; rewrite Hr in Hx; exact Hx end.
Qed.

(** * C01 on the core *)
(** the model tree keeps every token, so re-parsing what was consumed gives the same result *)
Theorem C01_core_tokens d ts e rest :
  lvl d K_UNKNOWN = 0 ->
  parse_expr d ts = Ok (e, rest) -> parse_expr d (yield e ++ rest) = Ok (e, rest).
Proof. intros U0 H. pose proof (pratt_invariant d U0 ts e rest H) as (Hy & _). rewrite <- Hy. exact H. Qed.

(** trees already in canonical spelling are printed token for token *)
Fixpoint canonical (e : expr) : bool :=
  let all := fix all (l : list expr) : bool :=
    match l with [] => true | x :: r => canonical x && all r end in
  match e with
  | EAtom _ _ => true
  | ENested x | EPre _ x | ENot x | EPostfix x | EIs _ _ x | ECast x _ => canonical x
  | ETuple l => all l
  | EBin k l r | EAnyAll k _ l r => negb (k =? K_DoubleEq) && canonical l && canonical r
  | EIsDF _ l r | EAtTz l r | EInUnnest _ l r | EDiv l r | ESubscript l r => canonical l && canonical r
  | ELike _ _ _ x p esc => match esc with Some (false, _) => false | _ => true end && canonical x && canonical p
  | EBetween _ x lo hi => canonical x && canonical lo && canonical hi
  | EInList _ x l => canonical x && all l
  end.

Lemma canonical_all l :
  Forall (fun x => canonical x = true -> norm x = x) l ->
  (fix all (l : list expr) : bool := match l with [] => true | x :: r => canonical x && all r end) l = true ->
  map norm l = l.
Proof.
  induction 1 as [|x r Hx Hr IH]; [reflexivity|]. intro H. apply andb_true_iff in H. destruct H as [H1 H2].
  cbn [map]. rewrite Hx, IH; auto.
Qed.

Lemma norm_canonical e : canonical e = true -> norm e = e.
Proof.
  induction e using expr_rect'; cbn [canonical norm]; intro Hc;
    repeat (apply andb_true_iff in Hc; destruct Hc as [Hc ?]);
    try (rewrite ?IHe, ?IHe1, ?IHe2, ?IHe3 by assumption; reflexivity).
  - rewrite (canonical_all l); auto.
  - apply negb_true_iff in Hc. unfold norm_key. rewrite Hc, IHe1, IHe2 by assumption. reflexivity.
  - apply negb_true_iff in Hc. unfold norm_key. rewrite Hc, IHe1, IHe2 by assumption. reflexivity.
  - rewrite IHe1, IHe2 by assumption. destruct esc as [[[|] c]|]; try reflexivity. discriminate Hc.
  - rewrite IHe, (canonical_all l); auto.
Qed.

Theorem C01_core d ts e rest :
  lvl d K_UNKNOWN = 0 -> canonical e = true ->
  parse_expr d ts = Ok (e, rest) -> parse_expr d (ptoks e ++ rest) = Ok (norm e, rest).
Proof.
  intros U0 Hc H. unfold ptoks. rewrite (norm_canonical e Hc). apply (C01_core_tokens d ts); assumption.
Qed.

Theorem print_idempotent e : canonical e = true -> ptoks (norm e) = ptoks e.
Proof. intro Hc. rewrite (norm_canonical e Hc). reflexivity. Qed.

(** * C05 on the core: every content token of the input is stored in the tree, in order *)
Lemma content_app a b : content (a ++ b) = content a ++ content b.
Proof. unfold content. apply flat_map_app. Qed.

Theorem C05_core d ts e rest :
  lvl d K_UNKNOWN = 0 ->
  parse_expr d ts = Ok (e, rest) -> content ts = content (yield e) ++ content rest.
Proof. intros U0 H. pose proof (pratt_invariant d U0 ts e rest H) as (Hy & _). rewrite Hy at 1. apply content_app. Qed.

Theorem C05_core_printed d ts e rest :
  lvl d K_UNKNOWN = 0 -> canonical e = true ->
  parse_expr d ts = Ok (e, rest) -> content ts = content (ptoks e) ++ content rest.
Proof.
  intros U0 Hc H. unfold ptoks. rewrite (norm_canonical e Hc). apply (C05_core d); assumption.
Qed.


(** * Parser outputs satisfy [shape] and [esc_safe] (half of [img_closed]) *)
Section ShapeClosed.
  Variable d : dialect.

  Definition SInv (t : expr) (rest : list tok) : Prop := shape d t /\ esc_safe t rest.
  Definition rec_sh (rec : N -> list tok -> res (expr * list tok)) : Prop :=
    forall p ts t rest, rec p ts = Ok (t, rest) -> SInv t rest.

  Ltac brk H :=
    match type of H with
    | context [if ?x then _ else _] => destruct x eqn:?; try discriminate H
    | context [match ?x with _ => _ end] => destruct x eqn:?; try discriminate H
    | context [bind (?rec ?p ?ts) _] =>
        let E := fresh "E" in
        destruct (rec p ts) as [[? ?]| | |] eqn:E; cbn [bind] in H; try discriminate H
    end.

  Variable rec : N -> list tok -> res (expr * list tok).
  Hypothesis Hrec : rec_sh rec.

  Ltac use_rec :=
    repeat match goal with
    | E : rec _ _ = Ok (_, _) |- _ => apply Hrec in E; destruct E as (? & ?)
    end.

  Lemma parse_list_sh g : forall ts l rest,
    parse_list d rec g ts = Ok (l, rest) -> Forall (shape d) l.
  Proof.
    induction g as [|g IH]; intros ts l rest H; cbn [parse_list] in H; [discriminate|].
    destruct (rec (lvl d K_UNKNOWN) ts) as [[e r]| | |] eqn:E; cbn [bind] in H; try discriminate.
    apply Hrec in E. destruct E as [Es _].
    destruct r as [|t0 r']; [inversion H; subst; repeat constructor; auto|].
    destruct t0; try (inversion H; subst; repeat constructor; auto; fail).
    destruct (parse_list d rec g r') as [[l' r'']| | |] eqn:E2; cbn [bind] in H; try discriminate.
    inversion H; subst. constructor; [auto|]. eapply IH; eauto.
  Qed.

  Lemma parse_list_len g : forall ts l rest,
    parse_list d rec g ts = Ok (l, rest) -> (1 <= length l)%nat.
  Proof.
    intros ts l rest H. apply parse_list_nonempty in H. destruct l; [congruence|cbn; lia].
  Qed.

  Ltac sh_goal :=
    unfold SInv, esc_safe; cbn [shape node_ok ropen_like is_escape_head];
    repeat match goal with
    | Hx : ?b = true |- context [?b] => rewrite Hx
    | Hx : ?b = false |- context [?b] => rewrite Hx
    end; cbn [orb andb negb];
    repeat split; auto; try discriminate; try tauto.

  Lemma parse_prefix_sh ts t rest : parse_prefix d rec ts = Ok (t, rest) -> SInv t rest.
  Proof.
    intro H. unfold parse_prefix, expect_rparen in H.
    destruct ts as [|t0 r]; [discriminate|]. destruct t0; try discriminate.
    - assert (HH : (EAtom s n, r) = (t, rest)) by (repeat brk H; congruence).
      inversion HH; subst. sh_goal.
    - repeat brk H; inversion H; subst; use_rec; sh_goal.
      apply andb_true_iff in Heqb0. tauto.
    - repeat brk H; inversion H; subst; use_rec; sh_goal. apply orb_true_r.
    - destruct k; try discriminate. repeat brk H; inversion H; subst; use_rec; sh_goal.
    - destruct (lambda d && lambda_ahead r); [discriminate|].
      destruct (parse_list d rec (S (length r)) r) as [[l r1]| | |] eqn:E; cbn [bind] in H; try discriminate.
      pose proof (parse_list_sh _ _ _ _ E) as Hs. pose proof (parse_list_len _ _ _ _ E) as Hl.
      destruct r1 as [|t1 r2]; [discriminate|]. destruct t1; try discriminate.
      destruct l as [|x [|y l']]; [cbn in Hl; lia| |]; inversion H; subst.
      + inversion Hs; subst. sh_goal.
      + unfold SInv, esc_safe. cbn [shape node_ok ropen_like]. rewrite shape_all. split; [|intro; discriminate]. split; [reflexivity|]. inversion Hs as [|? ? Hx Hr]; subst. inversion Hr; subst. auto.
  Qed.

  Lemma parse_like_sh kd e neg allow r t rest :
    shape d e -> (kd = LLike \/ kd = LILike \/ (kd = LSimilar /\ allow = false)) ->
    parse_like d rec kd e neg allow r = Ok (t, rest) -> SInv t rest.
  Proof.
    intros Se Hk H. unfold parse_like in H.
    assert (Hs : exists any r1,
      (match r with
       | TKw KAny :: r' => if allow then (true, r') else (false, r)
       | _ => (false, r)
       end) = (any, r1) /\ (any = true -> allow = true)).
    { destruct r as [|t0 r']; [exists false; eexists; split; [reflexivity|discriminate]|].
      destruct t0; try (exists false; eexists; split; [reflexivity|discriminate]).
      destruct k; try (exists false; eexists; split; [reflexivity|discriminate]).
      destruct allow; [exists true|exists false]; eexists; (split; [reflexivity|auto]). }
    destruct Hs as (any & r1 & Hs & Ha). rewrite Hs in H.
    destruct (rec (lvl d C_Like) r1) as [[pat r2]| | |] eqn:E; cbn [bind] in H; try discriminate.
    apply Hrec in E. destruct E as [Sp Ep].
    assert (Hany : negb any || match kd with LLike | LILike => true | _ => false end = true).
    { destruct any; [|reflexivity]. specialize (Ha eq_refl). destruct Hk as [?|[?|[? ?]]]; subst; try reflexivity. discriminate. }
    assert (Hkd : match kd with LLike | LILike | LSimilar => true | _ => false end = true).
    { destruct Hk as [?|[?|[? ?]]]; subst; reflexivity. }
    repeat brk H; inversion H; subst; unfold SInv, esc_safe; cbn [shape node_ok ropen_like is_escape_head].
    all: rewrite ?Hany, ?Hkd; cbn [andb].
    all: repeat split; auto; try (intro; discriminate).
    all: try (destruct kd; try discriminate Hkd; reflexivity).
    all: try (destruct (ropen_like pat) eqn:R; [apply Ep in R; cbn in R; discriminate R|reflexivity]).
    all: try (intro Hx; destruct kd; discriminate Hx).
  Qed.

  Lemma parse_in_sh e neg r t rest :
    shape d e -> parse_in d rec e neg r = Ok (t, rest) -> SInv t rest.
  Proof.
    intros Se H. unfold parse_in, expect_rparen in H.
    destruct r as [|t0 r1]; [discriminate|]. destruct t0; try discriminate.
    - destruct k; try discriminate. repeat brk H; inversion H; subst; use_rec; sh_goal.
    - assert (Hgen : forall r1, bind (parse_list d rec (S (length r1)) r1)
               (fun '(l, r2) => match r2 with TRParen :: r' => Ok (EInList neg e l, r') | _ => Err end) = Ok (t, rest) ->
             SInv t rest).
      { intros r0 H0. destruct (parse_list d rec (S (length r0)) r0) as [[l r3]| | |] eqn:E; cbn [bind] in H0; try discriminate.
        pose proof (parse_list_sh _ _ _ _ E) as Hs. pose proof (parse_list_len _ _ _ _ E) as Hl.
        destruct r3 as [|t3 r4]; [discriminate|]. destruct t3; try discriminate. inversion H0; subst.
        unfold SInv, esc_safe. cbn [shape node_ok ropen_like]. rewrite shape_all.
        split; [|intro; discriminate]. split; [destruct l; [cbn in Hl; lia|reflexivity]|]. auto. }
      destruct r1 as [|t1 r2]; [apply Hgen in H; exact H|].
      destruct t1; try (apply Hgen in H; exact H).
      destruct (in_empty_list d) eqn:Ei; [|discriminate]. inversion H; subst.
      unfold SInv, esc_safe; cbn [shape node_ok ropen_like]. rewrite Ei. repeat split; auto. intro; discriminate.
  Qed.

  Lemma parse_infix_sh e q ts t rest :
    shape d e -> parse_infix d rec e q ts = Ok (t, rest) -> SInv t rest.
  Proof.
    intros Se H. unfold parse_infix, expect_rparen in H.
    destruct ts as [|t0 r]; [discriminate|]. destruct t0; try discriminate.
    - repeat brk H; inversion H; subst; use_rec; sh_goal.
    - destruct k; try discriminate; unfold parse_not_family in H; cbn beta iota in H; repeat brk H;
      first [ eapply parse_in_sh; eassumption
            | eapply parse_like_sh; [eassumption| |eassumption]; tauto
            | inversion H; subst; use_rec; sh_goal ].
    - repeat brk H; inversion H; subst; use_rec; sh_goal.
    - repeat brk H; inversion H; subst; use_rec; sh_goal.
    - repeat brk H; inversion H; subst; use_rec; sh_goal.
  Qed.

  Lemma loop_sh g : forall p e ts t rest,
    shape d e -> esc_safe e ts -> loop d rec g p e ts = Ok (t, rest) -> SInv t rest.
  Proof.
    induction g as [|g IH]; intros p e ts t rest Se Ee H; cbn [loop] in H; [discriminate|].
    destruct (np d ts <=? p).
    - inversion H; subst. split; assumption.
    - destruct (parse_infix d rec e (np d ts) ts) as [[e' ts']| | |] eqn:E; cbn [bind] in H; try discriminate.
      apply parse_infix_sh in E; auto. destruct E as [S' E']. eapply IH; eauto.
  Qed.
End ShapeClosed.

Lemma parse_sub_sh d fuel : rec_sh d (parse_sub d fuel).
Proof.
  induction fuel as [|f IH]; intros p ts t rest H; cbn [parse_sub] in H; [discriminate|].
  destruct (parse_prefix d (parse_sub d f) ts) as [[e r]| | |] eqn:E; cbn [bind] in H; try discriminate.
  apply (parse_prefix_sh d (parse_sub d f) IH) in E. destruct E as [Se Ee].
  eapply (loop_sh d (parse_sub d f) IH); eauto.
Qed.

(** every tree the model parser returns is one the dialect can produce ([shape]) and no open LIKE on
    its right spine is followed by an ESCAPE clause: two of the hypotheses of [token_roundtrip] *)
Theorem parse_expr_shape d ts t rest :
  parse_expr d ts = Ok (t, rest) -> shape d t /\ esc_safe t rest.
Proof.
  unfold parse_expr. destruct (existsb is_other ts); [discriminate|]. apply parse_sub_sh.
Qed.

(** evaluation of one case including the image predicate: bit 32 = the implementation's tree,
    together with the unconsumed tokens, does not satisfy [imgb] although the token list passes the
    syntactic fragment test; bit 64 = the token list fails the (conservative, purely syntactic)
    fragment test [frag_ok], so [token_roundtrip] says nothing about it (counted, not an error) *)
Definition c01_full (d : dialect) (op_text : N -> str) (ld : Lexer.dialect) (u : Lexer.uni)
  (e : expr) (text : str) (ptokens rest : list tok) : N :=
  (c01_case d op_text ld u e text ptokens +
   (if frag_ok d (yield e ++ rest) then (if imgb d e rest then 0 else 32) else 64))%N.
