(** Base conventions shared by every model: characters are code points in [N],
    strings are lists of characters.  No proofs about /repo data live here. *)
From Coq Require Export String Ascii.
From Coq Require Export List NArith Bool Lia.
From Coq Require Import ZifyBool ZifyN ZifyNat.
Export ListNotations.
Open Scope N_scope.

Arguments N.add : simpl never.
Arguments N.sub : simpl never.
Arguments N.mul : simpl never.
Arguments N.eqb : simpl never.
Arguments N.ltb : simpl never.
Arguments N.leb : simpl never.
Arguments N.compare : simpl never.

Notation char := N (only parsing).
Notation str := (list N) (only parsing).

(** ASCII-only [string] literals to [str]; used by generated tables and case files. *)
Fixpoint s2l (s : string) : str :=
  match s with
  | EmptyString => []
  | String a r => N_of_ascii a :: s2l r
  end.

Fixpoint str_eqb (a b : str) : bool :=
  match a, b with
  | [], [] => true
  | x :: a', y :: b' => N.eqb x y && str_eqb a' b'
  | _, _ => false
  end.

Lemma str_eqb_eq a b : str_eqb a b = true <-> a = b.
Proof.
  revert b; induction a as [|x a IH]; intros [|y b]; cbn [str_eqb]; split; intro H;
    try reflexivity; try discriminate.
  - apply andb_true_iff in H as [H1 H2]. apply N.eqb_eq in H1. apply IH in H2. congruence.
  - inversion H; subst. rewrite N.eqb_refl. cbn. apply IH. reflexivity.
Qed.

Lemma str_eqb_refl a : str_eqb a a = true.
Proof. apply str_eqb_eq. reflexivity. Qed.

Lemma str_eqb_neq a b : str_eqb a b = false <-> a <> b.
Proof.
  split; intro H.
  - intro E. apply str_eqb_eq in E. congruence.
  - destruct (str_eqb a b) eqn:E; [|reflexivity]. apply str_eqb_eq in E. contradiction.
Qed.

(** Lexicographic comparison by code point = Rust's [Ord for str] (byte order of UTF-8
    coincides with code point order). *)
Fixpoint str_cmp (a b : str) : comparison :=
  match a, b with
  | [], [] => Eq
  | [], _ :: _ => Lt
  | _ :: _, [] => Gt
  | x :: a', y :: b' =>
      match N.compare x y with
      | Eq => str_cmp a' b'
      | c => c
      end
  end.

Lemma str_cmp_eq a b : str_cmp a b = Eq <-> a = b.
Proof.
  revert b; induction a as [|x a IH]; intros [|y b]; cbn [str_cmp]; split; intro H;
    try reflexivity; try discriminate.
  - destruct (N.compare x y) eqn:E; try discriminate.
    apply N.compare_eq_iff in E. apply IH in H. congruence.
  - inversion H; subst. rewrite N.compare_refl. apply IH. reflexivity.
Qed.

Lemma str_cmp_antisym a b : str_cmp b a = CompOpp (str_cmp a b).
Proof.
  revert b; induction a as [|x a IH]; intros [|y b]; cbn [str_cmp]; try reflexivity.
  rewrite (N.compare_antisym x y). destruct (N.compare x y); cbn; auto.
Qed.

Lemma str_cmp_lt_trans a b c : str_cmp a b = Lt -> str_cmp b c = Lt -> str_cmp a c = Lt.
Proof.
  revert b c; induction a as [|x a IH]; intros [|y b] [|z c]; cbn [str_cmp]; intros H1 H2;
    try reflexivity; try discriminate.
  destruct (N.compare x y) eqn:E1; try discriminate;
  destruct (N.compare y z) eqn:E2; try discriminate.
  - apply N.compare_eq_iff in E1; apply N.compare_eq_iff in E2; subst.
    rewrite N.compare_refl. eapply IH; eauto.
  - apply N.compare_eq_iff in E1; subst. rewrite E2. reflexivity.
  - apply N.compare_eq_iff in E2; subst. rewrite E1. reflexivity.
  - change (x < y) in E1. change (y < z) in E2.
    assert (x < z) as Hxz by lia. unfold N.lt in Hxz. rewrite Hxz. reflexivity.
Qed.

(** ASCII upper-casing: Rust's [str::to_ascii_uppercase]. *)
Definition ascii_upper_c (c : char) : char :=
  if (97 <=? c) && (c <=? 122) then c - 32 else c.
Definition ascii_upper (s : str) : str := map ascii_upper_c s.
Definition ascii_lower_c (c : char) : char :=
  if (65 <=? c) && (c <=? 90) then c + 32 else c.
Definition ascii_lower (s : str) : str := map ascii_lower_c s.

Definition is_upper_ascii_word_c (c : char) : bool :=
  ((65 <=? c) && (c <=? 90)) || ((48 <=? c) && (c <=? 57)) || (c =? 95).

Ltac leb_cases :=
  repeat match goal with
  | |- context [N.leb ?a ?b] => destruct (N.leb_spec a b)
  | |- context [N.ltb ?a ?b] => destruct (N.ltb_spec a b)
  | |- context [N.eqb ?a ?b] => destruct (N.eqb_spec a b)
  end; cbn [andb orb negb].

Lemma ascii_upper_c_idem c : ascii_upper_c (ascii_upper_c c) = ascii_upper_c c.
Proof. unfold ascii_upper_c at 2 3.
  destruct (N.leb_spec 97 c); destruct (N.leb_spec c 122); cbn [andb]; try reflexivity;
  unfold ascii_upper_c; leb_cases; try reflexivity; lia. Qed.

Lemma ascii_upper_idem s : ascii_upper (ascii_upper s) = ascii_upper s.
Proof. unfold ascii_upper. rewrite map_map. apply map_ext. apply ascii_upper_c_idem. Qed.

(** ASCII case-insensitive equality: the relation "same word in another capitalisation". *)
Definition ascii_ci_eq (a b : str) : Prop := ascii_upper a = ascii_upper b.

Lemma ascii_upper_lower_c c : ascii_upper_c (ascii_lower_c c) = ascii_upper_c c.
Proof. unfold ascii_lower_c.
  destruct (N.leb_spec 65 c); destruct (N.leb_spec c 90); cbn [andb]; try reflexivity;
  unfold ascii_upper_c; leb_cases; try reflexivity; lia. Qed.

Lemma ascii_ci_lower s : ascii_ci_eq (ascii_lower s) s.
Proof. unfold ascii_ci_eq, ascii_upper, ascii_lower. rewrite map_map. apply map_ext.
  apply ascii_upper_lower_c. Qed.
