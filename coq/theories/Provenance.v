(** Provenance.v — where the tokens returned by the cursor come from, and what an
    "Expected: …, found: …" message is made of (serves C10).

    [cursor_provenance]: every token returned by peek*/next* is an element of the token vector
    or the EOF sentinel (line 0, column 0); for the whitespace-skipping methods the sentinel is
    returned exactly when fewer non-whitespace tokens remain than were asked for, and otherwise
    the token returned is the n-th remaining non-whitespace token.
    [expected_coupled]: the message built by [expected what found] renders the text and the
    location of the SAME [found]; and the [found] of the errors raised by expect_token /
    expect_keyword is the token under the cursor (hence a real token or the sentinel). *)
Require Import SqlV.Base SqlV.Machine.
From Coq Require Import Arith.

Definition nonws (l : list twl) : list twl := filter (fun t => negb (is_ws t)) l.
Definition remaining (s : mstate) : list twl := nonws (skipn (idx s) (toks s)).

Lemma peek_from_nonws l n : peek_from l n = nth n (nonws l) eof_twl.
Proof.
  revert n. induction l as [|t l IH]; intro n; cbn [peek_from nonws filter].
  - destruct n; reflexivity.
  - destruct (is_ws t); cbn [negb]; [apply IH|]. destruct n; cbn [nth]; [reflexivity|apply IH].
Qed.

Lemma next_from_nonws l i : fst (next_from l i) = nth 0 (nonws l) eof_twl.
Proof.
  revert i. induction l as [|t l IH]; intro i; cbn [next_from nonws filter]; [reflexivity|].
  destruct (is_ws t); cbn [negb]; [apply IH|reflexivity].
Qed.

Lemma nonws_in l t : In t (nonws l) -> In t l /\ is_ws t = false.
Proof. unfold nonws. rewrite filter_In. intros [H1 H2]. split; auto. destruct (is_ws t); auto; discriminate. Qed.

Lemma in_skipn {X} (x : X) n l : In x (skipn n l) -> In x l.
Proof. revert l. induction n; intros l H; [exact H|]. destruct l; [exact H|]. right. apply IHn. exact H. Qed.

(** Whitespace-skipping look-ahead. *)
Theorem peek_provenance n d s :
  exists t, peek_nth_token n d s = (Ok t, s) /\ t = nth n (remaining s) eof_twl /\
    ((n < length (remaining s))%nat -> In t (toks s) /\ is_ws t = false) /\
    ((length (remaining s) <= n)%nat -> t = eof_twl).
Proof.
  unfold peek_nth_token, remaining. eexists. split; [reflexivity|]. rewrite peek_from_nonws.
  split; [reflexivity|]. split; intro H.
  - assert (Hin : In (nth n (nonws (skipn (idx s) (toks s))) eof_twl) (nonws (skipn (idx s) (toks s))))
      by (apply nth_In; exact H).
    apply nonws_in in Hin as [H1 H2]. split; [eapply in_skipn; eassumption|exact H2].
  - apply nth_overflow. exact H.
Qed.

(** [next_token]: same token as [peek_token], and the cursor moves forward. *)
Theorem next_provenance d s :
  exists t s', next_token d s = (Ok t, s') /\ t = nth 0 (remaining s) eof_twl /\
    toks s' = toks s /\ (idx s < idx s')%nat /\
    (remaining s <> [] -> In t (toks s) /\ is_ws t = false) /\
    (remaining s = [] -> t = eof_twl).
Proof.
  unfold next_token, remaining.
  pose proof (next_from_nonws (skipn (idx s) (toks s)) (idx s)) as Hf.
  assert (Hj : forall l i, (i < snd (next_from l i))%nat).
  { induction l as [|x l IH]; intro i; cbn [next_from snd]; [lia|]. destruct (is_ws x); [|cbn; lia].
    specialize (IH (S i)). lia. }
  specialize (Hj (skipn (idx s) (toks s)) (idx s)).
  destruct (next_from (skipn (idx s) (toks s)) (idx s)) as [t j]. cbn [fst snd] in *.
  exists t, (set_idx j s). split; [reflexivity|]. split; [exact Hf|]. split; [reflexivity|]. split; [exact Hj|].
  split; intro H.
  - destruct (nonws (skipn (idx s) (toks s))) as [|x r] eqn:E; [congruence|]. cbn [nth] in Hf. subst t.
    assert (Hin : In x (nonws (skipn (idx s) (toks s)))) by (rewrite E; left; reflexivity).
    apply nonws_in in Hin as [H1 H2]. split; [eapply in_skipn; eassumption|exact H2].
  - rewrite H in Hf. exact Hf.
Qed.

(** The no-skip variants return the vector's own element or the sentinel / None. *)
Theorem peek_no_skip_provenance n d s :
  exists t, peek_nth_token_no_skip n d s = (Ok t, s) /\
    (((idx s + n < length (toks s))%nat /\ nth_error (toks s) (idx s + n) = Some t) \/
     ((length (toks s) <= idx s + n)%nat /\ t = eof_twl)).
Proof.
  unfold peek_nth_token_no_skip. eexists. split; [reflexivity|].
  destruct (Nat.lt_ge_cases (idx s + n) (length (toks s))) as [H|H].
  - left. split; [exact H|]. apply nth_error_nth'. exact H.
  - right. split; [exact H|]. apply nth_overflow. exact H.
Qed.
Theorem next_no_skip_provenance d s :
  next_token_no_skip d s = (Ok (nth_error (toks s) (idx s)), set_idx (S (idx s)) s).
Proof. reflexivity. Qed.

(** The statement in one piece: whatever a cursor method returns is a token of the vector or
    the sentinel. *)
Theorem cursor_provenance d s :
  (forall n t s', peek_nth_token n d s = (Ok t, s') -> In t (toks s) \/ t = eof_twl) /\
  (forall t s', next_token d s = (Ok t, s') -> In t (toks s) \/ t = eof_twl) /\
  (forall n t s', peek_nth_token_no_skip n d s = (Ok t, s') -> In t (toks s) \/ t = eof_twl) /\
  (forall t s', next_token_no_skip d s = (Ok (Some t), s') -> In t (toks s)).
Proof.
  split; [|split; [|split]].
  - intros n t s' H. destruct (peek_provenance n d s) as (t0 & E & _ & Hin & Hout). rewrite E in H.
    injection H as <- _. destruct (Nat.lt_ge_cases n (length (remaining s))) as [L|L].
    + left. apply Hin. exact L.
    + right. apply Hout. exact L.
  - intros t s' H. destruct (next_provenance d s) as (t0 & s0 & E & _ & _ & _ & Hin & Hout). rewrite E in H.
    injection H as <- _. destruct (remaining s) eqn:R.
    + right. apply Hout. reflexivity.
    + left. apply Hin. discriminate.
  - intros n t s' H. destruct (peek_no_skip_provenance n d s) as (t0 & E & [[_ Hn] | [_ He]]); rewrite E in H;
      injection H as <- _.
    + left. eapply nth_error_In. exact Hn.
    + right. exact He.
  - intros t s' H. unfold next_token_no_skip in H. injection H as H _. eapply nth_error_In. exact H.
Qed.

(** The sentinel is returned iff nothing but whitespace remains (for [peek_token]/[next_token]):
    the "iff" of the statement, for vectors that do not themselves contain the sentinel value. *)
Theorem sentinel_iff_exhausted d s :
  ~ In eof_twl (toks s) ->
  (fst (peek_token d s) = Ok eof_twl <-> remaining s = []) /\
  (fst (next_token d s) = Ok eof_twl <-> remaining s = []).
Proof.
  intro Hn. split.
  - destruct (peek_provenance 0 d s) as (t & E & Ht & Hin & Hout). unfold peek_token. rewrite E. cbn [fst].
    split; intro H.
    + injection H as ->. destruct (remaining s) eqn:R; [reflexivity|]. exfalso. apply Hn. apply Hin. cbn. lia.
    + f_equal. apply Hout. rewrite H. cbn. lia.
  - destruct (next_provenance d s) as (t & s' & E & Ht & _ & _ & Hin & Hout). rewrite E. cbn [fst].
    split; intro H.
    + injection H as ->. destruct (remaining s) eqn:R; [reflexivity|]. exfalso. apply Hn. apply Hin. discriminate.
    + f_equal. apply Hout. exact H.
Qed.

(** * Error messages *)

(** The message of [expected] is assembled from the text and the location of one and the same
    token. *)
Theorem expected_coupled A what found d s :
  @expected A what found d s =
    (Err (Syntax (s2l "Expected: " ++ what ++ s2l ", found: " ++ show_token (tok found) ++
                  show_loc (line found) (col found))), s).
Proof. reflexivity. Qed.

Definition at_cursor (s : mstate) : twl := peek_from (skipn (idx s) (toks s)) 0.

Lemma at_cursor_real s : In (at_cursor s) (toks s) \/ at_cursor s = eof_twl.
Proof.
  destruct (cursor_provenance (mk_dial false false []) s) as (H & _). apply (H 0%nat _ s). reflexivity.
Qed.

(** The errors of [expect_token] / [expect_keyword] name the token under the cursor, leave the
    cursor where it was, and the token they name is a real token of the input or the sentinel. *)
Theorem expect_token_error e d s m s' :
  expect_token e d s = (Err (Syntax m), s') ->
  s' = s /\ m = expected_msg (show_token e) (at_cursor s) /\
  (In (at_cursor s) (toks s) \/ at_cursor s = eof_twl) /\ token_eqb (tok (at_cursor s)) e = false.
Proof.
  unfold expect_token, consume_token, bind, peek_token, peek_nth_token, at_cursor.
  destruct (token_eqb (tok (peek_from (skipn (idx s) (toks s)) 0)) e) eqn:E.
  - unfold next_token. destruct (next_from _ _). cbn. discriminate.
  - cbn. intro H. injection H as <- <-. repeat split; auto. apply at_cursor_real.
Qed.

Theorem expect_keyword_error k d s m s' :
  expect_keyword k d s = (Err (Syntax m), s') ->
  s' = s /\ m = expected_msg k (at_cursor s) /\
  (In (at_cursor s) (toks s) \/ at_cursor s = eof_twl) /\ is_kw k (at_cursor s) = false.
Proof.
  unfold expect_keyword, parse_keyword, bind, peek_token, peek_nth_token, at_cursor.
  destruct (is_kw k (peek_from (skipn (idx s) (toks s)) 0)) eqn:E.
  - unfold next_token. destruct (next_from _ _). cbn. discriminate.
  - cbn. intro H. injection H as <- <-. repeat split; auto. apply at_cursor_real.
Qed.

(** ... and they are the only way these two methods fail. *)
Theorem expect_token_outcomes e d s :
  (exists s', expect_token e d s = (Ok tt, s') /\ (idx s < idx s')%nat) \/
  expect_token e d s = (Err (Syntax (expected_msg (show_token e) (at_cursor s))), s).
Proof.
  unfold expect_token, consume_token, bind, peek_token, peek_nth_token, at_cursor.
  destruct (token_eqb (tok (peek_from (skipn (idx s) (toks s)) 0)) e) eqn:E.
  - left. destruct (next_provenance d s) as (t & s' & En & _ & _ & Hlt & _). rewrite En. cbn.
    exists s'. split; [reflexivity|exact Hlt].
  - right. reflexivity.
Qed.

(** Non-vacuity: a concrete failing [expect_token] on a two-token vector names the second token
    with its own line and column; past the end it names EOF without a position. *)
Example provenance_example :
  let t1 := {| tok := TWord (s2l "a") None no_keyword; line := 1; col := 1 |} in
  let t2 := {| tok := TNum (s2l "42") false; line := 3; col := 7 |} in
  let d := mk_dial false false [] in
  fst (expect_token (TP PRParen) d (set_idx 1 (init_state [t1; {| tok := TWs 0; line := 1; col := 2 |}; t2] false 50)))
    = Err (Syntax (s2l "Expected: ), found: 42 at Line: 3, Column: 7")) /\
  fst (expect_token (TP PRParen) d (set_idx 1 (init_state [t1] false 50)))
    = Err (Syntax (s2l "Expected: ), found: EOF")).
Proof. vm_compute. split; reflexivity. Qed.
