(** C01 / C05 — the DML core: what the model parser [parse_dml_core] returns.
    [dml_suffix]         : the rest is a suffix of the input, both with demoted DML keywords restored ([map unplain]:
                           [site] re-runs a parser of the query core with a keyword spelled as a name and hands that
                           spelling on); [dml_suffix_plain]: literally, when input and rest contain no demoted keyword;
    [dml_outputs_wf]     : every INSERT / UPDATE / DELETE tree it returns on an input of at most 10^6 tokens satisfies
                           [mwfg false] - all of [mwf], the hypothesis of [dml_roundtrip], except the conservative
                           fragment test [frag_ok] on its expressions - given canonical spelling ([mcanonical]), no DML
                           keyword used as a name ([mplain]: [mwf] demands it) and the conjuncts [mres], each false of
                           some parser output; [dml_outputs_res]: where RETURNING / SET are reserved and USING does not
                           end a list ([mdialect_res]: every generated dialect) [mres] is the single conjunct
                           [mres_ins] ([INSERT INTO t () (query)], MySQL); with [frag_ok] assumed: [mwf];
    [dml_content] / [dml_content_ordered] (the model-level C05): for ANY content predicate [keep] that keeps only
                           identifier / number / string tokens, the content tokens of an accepted token list are a
                           permutation of those of the printed statement followed by the rest - equal, in order, when
                           no query of the statement has both LIMIT and OFFSET (the three DML printers write their
                           clauses in the order the parsers read them); exclusion: the unquoted ESCAPE word;
    [dml_fixpoint]       : parse -> print -> parse gives the same tree and rest back (1 + [dml_roundtrip]).
    Engine: [site_inv] - what [site] returns satisfies the invariant of the query-core parser it runs (reusing
    [parse_query_inv_u0] and the per-entry-point invariants of QueryCoreInv.v under both dialects [qd d] and
    [qdx d]; the latter fails [dialect_ok], which is why QueryCoreInv states its section under [lvl .. K_UNKNOWN = 0]
    only); well-formedness under [qdx d] gives well-formedness under [qd d] ([q_mono], a mutual induction on the
    thirteen tree types); then one invariant per DML parser function as a composable step [St]. *)
From SqlV Require Import Base PrecSpec Pratt PrattProofs SetOps PrinterCore PrinterCoreProofs QueryCore QueryCoreProofs
  QueryCoreInv DmlCore DmlCoreProofs.
From Coq Require Import ZifyBool ZifyN ZifyNat Permutation.

(** * Structural facts about all trees of the query core (mutual induction on the thirteen tree types) *)
Ltac split_andb H :=
  repeat match type of H with
         | (_ && _) = true => let H' := fresh H in apply andb_true_iff in H; destruct H as [H H']; try split_andb H'
         end.
Ltac fa_rec rec :=
  match goal with
  | H : forallb _ ?l = true |- forallb _ ?l = true =>
      let x := fresh "x" in let IHl := fresh "IHl" in let Hx := fresh "Hx" in
      revert H; repeat match goal with H' : context [l] |- _ => clear H' end; induction l as [|x l IHl]; [reflexivity|]; cbn [forallb]; intro H;
      apply andb_true_iff in H; destruct H as [Hx H]; apply andb_true_iff; split; [apply rec; exact Hx|apply IHl; exact H]
  end.

Section WfMono.
  Variable s : bool.
  Variables d1 d2 : qdialect.
  Hypothesis Hbase : base d1 = base d2.
  Hypothesis Hex : exists_fn d1 = exists_fn d2.
  Hypothesis Hve : values_empty d1 = values_empty d2.
  Hypothesis Hun : unnest_table d1 = unnest_table d2.
  Hypothesis Hl : forall w, later_ok d1 w = true -> later_ok d2 w = true.

  Lemma later_all_mono l : forallb (later_ok d1) l = true -> forallb (later_ok d2) l = true.
  Proof. rewrite !forallb_forall. intros H w Hin. apply Hl. apply H. exact Hin. Qed.
  Lemma cols_wf_mono l : cols_wf d1 l = true -> cols_wf d2 l = true.
  Proof.
    unfold cols_wf. destruct l as [|c r]; [auto|]. intro H. apply andb_true_iff in H. destruct H as [H1 H2].
    rewrite H1, (later_all_mono _ H2). reflexivity.
  Qed.
  Lemma ccols_wf_mono l : ccols_wf d1 l = true -> ccols_wf d2 l = true.
  Proof. unfold ccols_wf. destruct l; [auto|apply cols_wf_mono]. Qed.
  Lemma later_names_mono l : later_names_ok d1 l = true -> later_names_ok d2 l = true.
  Proof.
    unfold later_names_ok. destruct l as [|t r]; [auto|]. rewrite !forallb_forall. intros H x Hin. specialize (H x Hin).
    destruct x as [[n a|q a|x a] js]; cbn [twj_head_ok] in *; auto.
  Qed.
  Lemma with_names_mono rc l : with_names_ok d1 rc l = true -> with_names_ok d2 rc l = true.
  Proof.
    unfold with_names_ok. destruct l as [|c r]; [auto|]. intro H. apply andb_true_iff in H. destruct H as [H1 H2].
    rewrite H1. cbn [andb]. rewrite forallb_forall in *. intros x Hin. apply Hl. apply H2. exact Hin.
  Qed.
  Lemma name_ok_mono w : name_ok d1 w = true -> name_ok d2 w = true.
  Proof. unfold name_ok. rewrite Hun. auto. Qed.

  Fixpoint b_mono (b : setexpr) : bwfg s d1 b = true -> bwfg s d2 b = true
  with vr_mono (r : vrow) : vrow_wfg s d1 r = true -> vrow_wfg s d2 r = true
  with q_mono (q : query) : qwfg s d1 q = true -> qwfg s d2 q = true
  with tr_mono (t : tref) : tref_wfg s d1 t = true -> tref_wfg s d2 t = true
  with tw_mono (t : twj) : twj_wfg s d1 t = true -> twj_wfg s d2 t = true
  with j_mono (j : join) : join_wfg s d1 j = true -> join_wfg s d2 j = true
  with jo_mono (o : jop) : jop_wfg s d1 o = true -> jop_wfg s d2 o = true
  with jc_mono (c : jcons) : jcons_wfg s d1 c = true -> jcons_wfg s d2 c = true
  with w_mono (w : withc) : with_wfg s d1 w = true -> with_wfg s d2 w = true
  with c_mono (c : cte) : cte_wfg s d1 c = true -> cte_wfg s d2 c = true
  with i_mono (i : item) : item_wfg s d1 i = true -> item_wfg s d2 i = true
  with o_mono (o : oelem) : oelem_wfg s d1 o = true -> oelem_wfg s d2 o = true
  with x_mono (x : xexpr) : xwfg s d1 x = true -> xwfg s d2 x = true.
  Proof.
    - destruct b as [ds items from wh gb hv|o qn l r|q|rows|n]; cbn [bwfg]; intro H.
      + split_andb H. repeat (apply andb_true_iff; split); try assumption.
        * fa_rec i_mono.
        * fa_rec tw_mono.
        * apply later_names_mono; assumption.
        * destruct wh; [apply x_mono; assumption|reflexivity].
        * fa_rec x_mono.
        * destruct hv; [apply x_mono; assumption|reflexivity].
      + split_andb H. repeat (apply andb_true_iff; split); try assumption; [apply b_mono|apply b_mono]; assumption.
      + apply q_mono; exact H.
      + split_andb H. apply andb_true_iff; split; [assumption|]. fa_rec vr_mono.
      + exact H.
    - destruct r as [l]; cbn [vrow_wfg]; intro H. split_andb H. apply andb_true_iff; split; [rewrite <- Hve; assumption|]. fa_rec x_mono.
    - destruct q as [w b ob lim off]; cbn [qwfg]; intro H. split_andb H. repeat (apply andb_true_iff; split).
      + destruct w; [apply w_mono; assumption|reflexivity].
      + apply b_mono; assumption.
      + fa_rec o_mono.
      + destruct lim; [apply x_mono; assumption|reflexivity].
      + destruct off; [apply x_mono; assumption|reflexivity].
    - destruct t as [n a|q a|x a]; cbn [tref_wfg]; intro H; split_andb H.
      + rewrite (name_ok_mono _ H), H0. reflexivity.
      + rewrite (q_mono _ H), H0. reflexivity.
      + rewrite (tw_mono _ H), H0, H1. reflexivity.
    - destruct t as [r js]; cbn [twj_wfg]; intro H. split_andb H. apply andb_true_iff; split; [apply tr_mono; assumption|]. fa_rec j_mono.
    - destruct j as [o r]; cbn [join_wfg]; intro H. split_andb H. apply andb_true_iff; split; [apply jo_mono|apply tr_mono]; assumption.
    - destruct o as [|k c]; cbn [jop_wfg]; intro H; [exact H|apply jc_mono; exact H].
    - destruct c as [x|cols| |]; cbn [jcons_wfg]; intro H; [apply x_mono; exact H|apply cols_wf_mono; exact H|exact H|exact H].
    - destruct w as [rc ctes]; cbn [with_wfg]; intro H. split_andb H. apply andb_true_iff; split; [apply with_names_mono; assumption|]. fa_rec c_mono.
    - destruct c as [n cols q]; cbn [cte_wfg]; intro H. split_andb H. repeat (apply andb_true_iff; split); try assumption;
        [apply ccols_wf_mono; assumption|apply q_mono; assumption].
    - destruct i as [|x|x w]; cbn [item_wfg]; intro H; [exact H|apply x_mono; exact H|].
      split_andb H. apply andb_true_iff; split; [apply x_mono; assumption|assumption].
    - destruct o as [x a]; cbn [oelem_wfg]; intro H. apply x_mono; exact H.
    - destruct x as [e subs]; cbn [xwfg]; intro H. split_andb H. rewrite <- Hbase, <- Hex, H, H2, H1. cbn [andb]. fa_rec q_mono.
  Qed.
End WfMono.

Section AllMono.
  Variables P P' : expr -> bool.
  Variables T T' : option xexpr -> option xexpr -> bool.
  Hypothesis HPm : forall e, P e = true -> P' e = true.
  Hypothesis HTm : forall l o, T l o = true -> T' l o = true.

  Fixpoint ball_mono (b : setexpr) : ball P T b = true -> ball P' T' b = true
  with vrall_mono (r : vrow) : vrall P T r = true -> vrall P' T' r = true
  with qall_mono (q : query) : qall P T q = true -> qall P' T' q = true
  with trall_mono (t : tref) : trall P T t = true -> trall P' T' t = true
  with twall_mono (t : twj) : twall P T t = true -> twall P' T' t = true
  with jall_mono (j : join) : jall P T j = true -> jall P' T' j = true
  with joall_mono (o : jop) : joall P T o = true -> joall P' T' o = true
  with jcall_mono (c : jcons) : jcall P T c = true -> jcall P' T' c = true
  with wall_mono (w : withc) : wall P T w = true -> wall P' T' w = true
  with call_mono (c : cte) : call P T c = true -> call P' T' c = true
  with iall_mono (i : item) : iall P T i = true -> iall P' T' i = true
  with oall_mono (o : oelem) : oall P T o = true -> oall P' T' o = true
  with xall_mono (x : xexpr) : xall P T x = true -> xall P' T' x = true.
  Proof.
    - destruct b as [ds items from wh gb hv|o qn l r|q|rows|n]; cbn [ball]; intro H.
      + split_andb H. repeat (apply andb_true_iff; split).
        * fa_rec iall_mono.
        * fa_rec twall_mono.
        * destruct wh; [apply xall_mono; assumption|reflexivity].
        * fa_rec xall_mono.
        * destruct hv; [apply xall_mono; assumption|reflexivity].
      + split_andb H. apply andb_true_iff; split; apply ball_mono; assumption.
      + apply qall_mono; exact H.
      + fa_rec vrall_mono.
      + exact H.
    - destruct r as [l]; cbn [vrall]; intro H. fa_rec xall_mono.
    - destruct q as [w b ob lim off]; cbn [qall]; intro H. split_andb H. repeat (apply andb_true_iff; split).
      + destruct w; [apply wall_mono; assumption|reflexivity].
      + apply ball_mono; assumption.
      + fa_rec oall_mono.
      + destruct lim; [apply xall_mono; assumption|reflexivity].
      + destruct off; [apply xall_mono; assumption|reflexivity].
      + apply HTm; assumption.
    - destruct t as [n a|q a|x a]; cbn [trall]; intro H; [exact H|apply qall_mono; exact H|apply twall_mono; exact H].
    - destruct t as [r js]; cbn [twall]; intro H. split_andb H. apply andb_true_iff; split; [apply trall_mono; assumption|]. fa_rec jall_mono.
    - destruct j as [o r]; cbn [jall]; intro H. split_andb H. apply andb_true_iff; split; [apply joall_mono|apply trall_mono]; assumption.
    - destruct o as [|k c]; cbn [joall]; intro H; [exact H|apply jcall_mono; exact H].
    - destruct c as [x|cols| |]; cbn [jcall]; intro H; [apply xall_mono; exact H|exact H|exact H|exact H].
    - destruct w as [rc ctes]; cbn [wall]; intro H. fa_rec call_mono.
    - destruct c as [n cols q]; cbn [call]; intro H. apply qall_mono; exact H.
    - destruct i as [|x|x w]; cbn [iall]; intro H; [exact H|apply xall_mono; exact H|apply xall_mono; exact H].
    - destruct o as [x a]; cbn [oall]; intro H. apply xall_mono; exact H.
    - destruct x as [e subs]; cbn [xall]; intro H. split_andb H. apply andb_true_iff; split; [apply HPm; assumption|]. fa_rec qall_mono.
  Qed.
End AllMono.

(** * Demoted keywords: the view [U] of a token list in which every demoted DML keyword is the keyword again *)
Definition U (l : list qtok) : list qtok := map unplain l.

Lemma is_dkw_atom t : is_dkw t = true -> exists n, t = QE (TAtom false n) /\ DKW_BASE <= n /\ n < DPLAIN_BASE.
Proof.
  destruct t as [[[] n| | | | | | | | | | | | |]| | |]; cbn [is_dkw]; try discriminate. intro H.
  apply andb_true_iff in H. destruct H as [H1 H2]. apply N.leb_le in H1. apply N.ltb_lt in H2. eauto.
Qed.
Lemma is_dplain_atom t : is_dplain t = true -> exists n, t = QE (TAtom false n) /\ DPLAIN_BASE <= n /\ n < NUM_BASE.
Proof.
  destruct t as [[[] n| | | | | | | | | | | | |]| | |]; cbn [is_dplain]; try discriminate. intro H.
  apply andb_true_iff in H. destruct H as [H1 H2]. apply N.leb_le in H1. apply N.ltb_lt in H2. eauto.
Qed.
Lemma dkw_not_dplain t : is_dkw t = true -> is_dplain t = false.
Proof.
  intro H. destruct (is_dkw_atom t H) as (n & -> & H1 & H2). cbn [is_dplain]. apply andb_false_iff. left.
  apply N.leb_gt. exact H2.
Qed.
Lemma plain_dkw t : is_dkw t = true -> is_dplain (plain t) = true /\ unplain (plain t) = t /\ is_dkw (plain t) = false.
Proof.
  intro H. destruct (is_dkw_atom t H) as (n & -> & H1 & H2). unfold plain. rewrite H.
  assert (Hp : is_dplain (QE (TAtom false (n + 50))) = true).
  { cbn [is_dplain]. unfold DKW_BASE, DPLAIN_BASE, NUM_BASE in *. apply andb_true_iff. split; [apply N.leb_le|apply N.ltb_lt]; lia. }
  split; [exact Hp|]. split.
  - unfold unplain. rewrite Hp. f_equal. f_equal. lia.
  - cbn [is_dkw]. apply andb_false_iff. right. apply N.ltb_ge. unfold DKW_BASE, DPLAIN_BASE in *. lia.
Qed.
Lemma unplain_dkw t : is_dkw t = true -> unplain t = t.
Proof. intro H. apply unplain_nk. apply dkw_not_dplain. exact H. Qed.
Lemma unplain_plain t : unplain (plain t) = unplain t.
Proof.
  destruct (is_dkw t) eqn:E.
  - destruct (plain_dkw t E) as (_ & -> & _). symmetry. apply unplain_dkw. exact E.
  - rewrite plain_nk by exact E. reflexivity.
Qed.
Lemma plain_not_dkw t : is_dkw (plain t) = false.
Proof. destruct (is_dkw t) eqn:E; [apply plain_dkw; exact E|rewrite plain_nk by exact E; exact E]. Qed.
Lemma qlit_unplain t : qlit (unplain t) = qlit t.
Proof.
  destruct (is_dplain t) eqn:E; [|rewrite unplain_nk by exact E; reflexivity].
  destruct (is_dplain_atom t E) as (n & -> & _). unfold unplain. rewrite E. reflexivity.
Qed.
Lemma np_plain_eq w : np (plain w) = true -> plain w = w /\ is_dkw w = false.
Proof.
  unfold np. intro H. apply negb_true_iff in H. destruct (is_dkw w) eqn:E.
  - destruct (plain_dkw w E) as (Hp & _). congruence.
  - split; [apply plain_nk; exact E|reflexivity].
Qed.

Lemma U_app a b : U (a ++ b) = U a ++ U b.
Proof. apply map_app. Qed.
Lemma U_np l : forallb np l = true -> U l = l.
Proof. apply map_unplain_np. Qed.
Lemma U_plain pre k post : U (pre ++ plain k :: post) = U (pre ++ k :: post).
Proof. rewrite !U_app. cbn [U map]. rewrite unplain_plain. reflexivity. Qed.
Lemma U_length l : length (U l) = length l.
Proof. apply map_length. Qed.

Lemma fits_len a b : (length a <= length b)%nat -> fits b -> fits a.
Proof. unfold fits. lia. Qed.
Lemma usuf_len r ts : suf (U r) (U ts) -> (length r <= length ts)%nat.
Proof. intro H. apply suf_len in H. rewrite !U_length in H. exact H. Qed.
Lemma fits_usuf r ts : suf (U r) (U ts) -> fits ts -> fits r.
Proof. intro H. apply fits_len. apply usuf_len. exact H. Qed.
Lemma suf_U r ts : suf r ts -> suf (U r) (U ts).
Proof. intros (p & ->). exists (U p). apply U_app. Qed.
Lemma suf_app_r r ts post : suf r ts -> suf (r ++ post) (ts ++ post).
Proof. intros (p & ->). exists p. rewrite app_assoc. reflexivity. Qed.

Lemma filter_nil_forallb {A} (f : A -> bool) l : filter f l = [] -> forallb (fun x => negb (f x)) l = true.
Proof.
  induction l as [|x l IH]; [reflexivity|]. cbn [filter forallb]. destruct (f x); [discriminate|]. exact IH.
Qed.
Lemma forallb_filter_nil {A} (f : A -> bool) l : forallb (fun x => negb (f x)) l = true -> filter f l = [].
Proof.
  induction l as [|x l IH]; [reflexivity|]. cbn [filter forallb]. destruct (f x); [discriminate|]. exact IH.
Qed.
Lemma is_dkw_lit t : is_dkw t = true -> qlit t = true.
Proof. intro H. destruct (is_dkw_atom t H) as (n & -> & _). reflexivity. Qed.

Lemma nodkw_nd_np l : forallb nd l = true -> forallb np l = true -> nodkw l = true.
Proof.
  unfold nodkw, nk, nd, np. rewrite !forallb_forall. intros H1 H2 t Hin. rewrite (H1 t Hin), (H2 t Hin). reflexivity.
Qed.
Lemma forallb_app_inv {A} (f : A -> bool) a b : forallb f (a ++ b) = true -> forallb f a = true /\ forallb f b = true.
Proof. rewrite forallb_app. apply andb_true_iff. Qed.

(** the tokens in front of the next DML keyword *)
Lemma cut_spec ts : exists pre post, cut ts = (pre, post) /\ ts = pre ++ post /\ forallb nd pre = true /\
  (post = [] \/ exists k post', post = k :: post' /\ is_dkw k = true).
Proof.
  induction ts as [|t r (pre & post & Ec & Es & Hn & Hp)].
  - exists [], []. repeat split. left. reflexivity.
  - cbn [cut]. destruct (is_dkw t) eqn:E.
    + exists [], (t :: r). repeat split. right. eauto.
    + rewrite Ec. exists (t :: pre), post. split; [reflexivity|]. split; [cbn [app]; congruence|]. split; [|exact Hp].
      cbn [forallb]. unfold nd at 1. rewrite E. exact Hn.
Qed.

Lemma ceq_map mode (f : qtok -> qtok) a b : ceq mode a b -> ceq mode (map f a) (map f b).
Proof. unfold ceq. destruct mode; [intros ->; reflexivity|apply Permutation_map]. Qed.
Lemma filter_map_comm (keep : qtok -> bool) l :
  map unplain (filter (fun t => keep (unplain t)) l) = filter keep (map unplain l).
Proof.
  induction l as [|t l IH]; [reflexivity|]. cbn [filter map]. destruct (keep (unplain t)); cbn [map]; rewrite IH; reflexivity.
Qed.

Definition nonnil {A} (l : list A) : bool := match l with [] => false | _ => true end.

(** * Predicates on statements *)
Definition oiall (P : expr -> bool) (T : option xexpr -> option xexpr -> bool) (r : option (list item)) : bool :=
  match r with Some l => forallb (iall P T) l | None => true end.
Definition aall (P : expr -> bool) (T : option xexpr -> option xexpr -> bool) (a : assignment) : bool :=
  match a with Assign _ v => xall P T v end.
Definition oqall (P : expr -> bool) (T : option xexpr -> option xexpr -> bool) (s : option query) : bool :=
  match s with Some x => qall P T x | None => true end.
Definition otwall (P : expr -> bool) (T : option xexpr -> option xexpr -> bool) (f : option twj) : bool :=
  match f with Some t => twall P T t | None => true end.
Definition otwsall (P : expr -> bool) (T : option xexpr -> option xexpr -> bool) (u : option (list twj)) : bool :=
  match u with Some l => forallb (twall P T) l | None => true end.
(** [P] of every expression, [T] of the LIMIT / OFFSET pair of every query of a statement *)
Definition mall (P : expr -> bool) (T : option xexpr -> option xexpr -> bool) (s : stmt) : bool :=
  match s with
  | SInsert _ _ _ src ret => oqall P T src && oiall P T ret
  | SUpdate t a f sel ret =>
      twall P T t && forallb (aall P T) a && otwall P T f && oxall P T sel && oiall P T ret
  | SDelete _ _ f u sel ret ob lim =>
      forallb (twall P T) f && otwsall P T u && oxall P T sel && oiall P T ret && forallb (oall P T) ob && oxall P T lim
  end.

(** canonical spelling of every expression *)
Definition mcanonical : stmt -> bool := mall canonical tt2.
(** the conservative fragment test of the operator core on every expression *)
Definition mfragx (d : mdialect) : stmt -> bool := mall (fun e => frag_ok (base (qd d)) (yield e)) tt2.
Definition mcanonfrag (d : mdialect) : stmt -> bool := mall (fun e => canonical e && frag_ok (base (qd d)) (yield e)) tt2.
(** an unquoted ESCAPE word somewhere *)
Definition mword_escape (s : stmt) : bool := negb (mall nwe tt2 s).
(** no unquoted ESCAPE word, and no query of the statement has both LIMIT and OFFSET *)
Definition mcontent_ordered : stmt -> bool := mall nwe one_of.
(** a DML keyword used as a name somewhere in the tree *)
Definition mplain (s : stmt) : bool := existsb is_dplain (mtoks_raw s).

(** [mwf] with ([sf = true]) or without the fragment test [frag_ok] on the expressions *)
Definition assign_wfg (sf : bool) (d : mdialect) (a : assignment) : bool :=
  match a with Assign t v => target_wf d t && xwfg sf (qd d) v && nodkw (xtoks v) end.
Definition ret_wfg (sf : bool) (d : mdialect) (r : option (list item)) : bool :=
  match r with
  | Some l => match l with [] => false | _ => true end && forallb (item_wfg sf (qd d)) l && nodkw (sepc (map item_toks l))
  | None => true
  end.
Definition sel_wfg (sf : bool) (d : mdialect) (x : option xexpr) : bool :=
  match x with Some e => xwfg sf (qd d) e && nodkw (xtoks e) | None => true end.
Definition twjm_wfg (sf : bool) (d : mdialect) (t : twj) : bool := twj_wfg sf (qd d) t && nodkw (twj_toks t).
Definition twjs_wfgm (sf : bool) (d : mdialect) (l : list twj) : bool :=
  match l with [] => false | _ => true end && forallb (twjm_wfg sf d) l && later_names_ok (qd d) l.

Definition mwfg (sf : bool) (d : mdialect) (s : stmt) : bool :=
  match s with
  | SInsert into table cols source ret =>
      mname_ok table && negb (qtok_eqb table (QK KTable)) &&
      ccols_wf (qd d) cols && nodkw cols &&
      match source with
      | None => match cols with [] => true | _ => false end
      | Some q =>
          qwfg sf (qd d) q && nodkw (qtoks q) &&
          negb ((match cols with [] => true | _ => false end || ins_after_cols d) && head_is (QE TLParen) (qtoks q)) &&
          (is_none ret || follows_ok d (query_open q) DReturning)
      end && ret_wfg sf d ret
  | SUpdate table assigns from sel ret =>
      twjm_wfg sf d table && follows_ok d (twj_opn table []) DSet &&
      match assigns with [] => false | _ => true end && forallb (assign_wfg sf d) assigns &&
      forallb (fun a => later_okm d (assign_head a)) (tl assigns) &&
      match from with
      | Some t => upd_from d && twjm_wfg sf d t &&
                  (negb (is_none sel) || is_none ret || follows_ok d (twj_opn t []) DReturning)
      | None => true
      end && sel_wfg sf d sel && ret_wfg sf d ret
  | SDelete tables fk from usg sel ret ob lim =>
      match tables with
      | [] => fk || (del_nofrom d && negb (head_is (QE (TKw KFrom)) (sepc (map twj_toks from))))
      | t :: _ => fk && negb (del_nofrom d) && names_wf d tables && negb (qtok_eqb t (QE (TKw KFrom)))
      end &&
      twjs_wfgm sf d from &&
      match usg with
      | Some l => twjs_wfgm sf d l && negb (last_twj_bare from) &&
                  (negb (is_none sel) || is_none ret || follows_ok d (last_twj_open l) DReturning)
      | None => negb (is_none sel) || is_none ret || follows_ok d (last_twj_open from) DReturning
      end && sel_wfg sf d sel && ret_wfg sf d ret &&
      forallb (oelem_wfg sf (qd d)) ob && nodkw (sepc (map oelem_toks ob)) && sel_wfg sf d lim
  end.

Lemma mwfg_true d s : mwfg true d s = mwf d s.
Proof. destruct s; reflexivity. Qed.

(** the conjuncts of [mwf] that are false for some parser outputs ([dml_output_*_refuted]):
    - [INSERT INTO t () (SELECT ..)] (MySQL: an empty column list): printed without [()], the parenthesised
      source reads as the column list;
    - a keyword that follows a tree ending in an optional alias, where the keyword is not reserved for that alias
      ([INSERT .. SELECT .. FROM t LIMIT ALL RETURNING ..]: printed without LIMIT ALL); all of these hold when
      RETURNING / SET are reserved ([mdialect_res], true of every generated dialect);
    - [DELETE FROM a JOIN b, USING c] (trailing commas): printed without the comma, USING reads as the
      constraint of the join *)
Definition mres (d : mdialect) (s : stmt) : bool :=
  match s with
  | SInsert _ _ cols source ret =>
      match source with
      | Some q => negb (ins_empty_cols d && match cols with [] => true | _ => false end && head_is (QE TLParen) (qtoks q)) &&
                  (is_none ret || follows_ok d (query_open q) DReturning)
      | None => true
      end
  | SUpdate table _ from sel ret =>
      follows_ok d (twj_opn table []) DSet &&
      match from with
      | Some t => negb (is_none sel) || is_none ret || follows_ok d (twj_opn t []) DReturning
      | None => true
      end
  | SDelete _ _ from usg sel ret _ _ =>
      match usg with
      | Some l => negb (last_twj_bare from) &&
                  (negb (is_none sel) || is_none ret || follows_ok d (last_twj_open l) DReturning)
      | None => negb (is_none sel) || is_none ret || follows_ok d (last_twj_open from) DReturning
      end
  end.

(** the conjunct about USING *)
Definition mres_using (s : stmt) : bool :=
  match s with SDelete _ _ from (Some _) _ _ _ _ => negb (last_twj_bare from) | _ => true end.
(** the conjunct about [INSERT INTO t () (query)] *)
Definition mres_ins (d : mdialect) (s : stmt) : bool :=
  match s with
  | SInsert _ _ cols (Some x) _ =>
      negb (ins_empty_cols d && match cols with [] => true | _ => false end && head_is (QE TLParen) (qtoks x))
  | _ => true
  end.

(** with trailing commas on, USING does not end a list *)
Definition using_ok (D : qdialect) : bool := negb (trailing D && mem (QK KUsing) (res_col D)).
(** RETURNING and SET are reserved where the model consults the lists, USING does not end a list: true of every
    generated dialect; what is left of [mres] then is [mres_ins] (and [mres_using], a theorem then) *)
Definition mdialect_res (d : mdialect) : bool :=
  mem (kw DReturning) (kw_col d) && mem (kw DReturning) (kw_tab d) && mem (kw DSet) (kw_tab d) && using_ok (qd d).

Lemma follows_ok_res d o : mdialect_res d = true -> follows_ok d o DReturning = true.
Proof.
  unfold mdialect_res. intro H. apply andb_true_iff in H. destruct H as [H _]. apply andb_true_iff in H. destruct H as [H _].
  apply andb_true_iff in H. destruct H as [H1 H2]. destruct o as [[|]|]; cbn [follows_ok]; auto.
Qed.
Lemma follows_set_res d t : mdialect_res d = true -> follows_ok d (twj_opn t []) DSet = true.
Proof.
  unfold mdialect_res. intro H. apply andb_true_iff in H. destruct H as [H _]. apply andb_true_iff in H. destruct H as [_ H].
  unfold twj_opn, opt_site. destruct (twj_open t); cbn [follows_ok]; auto.
Qed.
Lemma mres_res d s : mdialect_res d = true -> mres_using s = true -> mres_ins d s = true -> mres d s = true.
Proof.
  intros Hr Hu H. destruct s as [into table cols [x|] ret|table assigns [t|] sel ret|tables fk from [l|] sel ret ob lim];
    cbn [mres mres_ins mres_using] in *; rewrite ?(follows_ok_res d _ Hr), ?(follows_set_res d _ Hr), ?orb_true_r, ?andb_true_r; cbn [andb]; auto.
Qed.

(** the leftmost operand of a body is a parenthesised query *)
Fixpoint bparen (b : setexpr) : bool :=
  match b with BNested _ => true | BSetOp _ _ l _ => bparen l | _ => false end.
Lemma lead_not_paren b : lead b = true -> bparen b = false.
Proof. induction b; cbn [lead bparen]; auto; discriminate. Qed.
Lemma btoks_paren b X : head_is (QE TLParen) (btoks b ++ X) = true -> bparen b = true.
Proof.
  revert X. induction b as [ds items from wh gb hv|o qn l IHl r IHr|x|rows|n]; intro X; cbn [btoks bparen app head_is]; try discriminate; auto.
  rewrite <- app_assoc. apply IHl.
Qed.
(** * The invariants *)
Section DmlInv.
  Variable d : mdialect.
  Hypothesis Hd : mdialect_ok d = true.
  Variable keep : qtok -> bool.
  Hypothesis Hlit : forall t, keep t = true -> qlit t = true.
  Variable mode : bool.
  Variable sf : bool.
  Variable canP : expr -> bool.
  Hypothesis HP : forall e, canP e = true -> canonical e = true /\ (negb sf || frag_ok (base (qd d)) (yield e)) = true.
  Variable fuel : nat.

  Definition keep2 (t : qtok) : bool := keep (unplain t).
  Lemma keep2_lit t : keep2 t = true -> qlit t = true.
  Proof. unfold keep2. intro H. apply Hlit in H. rewrite qlit_unplain in H. exact H. Qed.
  Definition KU (l : list qtok) : list qtok := filter keep (U l).
  Lemma KU_app a b : KU (a ++ b) = KU a ++ KU b.
  Proof. unfold KU. rewrite U_app. apply filter_app. Qed.
  Lemma KU_drop t r : qlit t = false -> KU (t :: r) = KU r.
  Proof. intro H. unfold KU. cbn [U map]. apply (K_drop keep Hlit). rewrite qlit_unplain. exact H. Qed.
  Lemma KU_cons t r : KU (t :: r) = KU [t] ++ KU r.
  Proof. change (t :: r) with ([t] ++ r). apply KU_app. Qed.
  Lemma KU_keep2 l : KU l = map unplain (filter keep2 l).
  Proof. unfold KU, U, keep2. symmetry. apply filter_map_comm. Qed.
  Lemma KU_plain pre k post : KU (pre ++ plain k :: post) = KU (pre ++ k :: post).
  Proof. unfold KU. rewrite U_plain. reflexivity. Qed.

  Notation ceqm := (ceq mode).

  (** a step of a parser: from [ts] to [r], printing [tk]; [W]: what is known of the result's well-formedness
      (on inputs of at most 10^6 tokens), [C]: the condition of the content equation *)
  Definition St (ts r : list qtok) (W C : Prop) (tk : list qtok) : Prop :=
    suf (U r) (U ts) /\ (fits ts -> W) /\ (C -> ceqm (KU ts) (KU tk ++ KU r)).

  Lemma St_refl ts : St ts ts True True [].
  Proof. split; [apply suf_refl|]. split; [auto|]. intros _. apply ceq_refl. Qed.
  Lemma St_seq ts r1 r W1 C1 tk1 W2 C2 tk2 :
    St ts r1 W1 C1 tk1 -> St r1 r W2 C2 tk2 -> St ts r (W1 /\ W2) (C1 /\ C2) (tk1 ++ tk2).
  Proof.
    intros (S1 & F1 & K1) (S2 & F2 & K2). split; [eapply suf_trans; eassumption|]. split.
    - intro Hf. split; [auto|]. apply F2. eapply fits_usuf; eassumption.
    - intros [H1 H2]. rewrite KU_app. eapply ceq_chain; [apply K1; exact H1|apply K2; exact H2].
  Qed.
  Lemma St_weaken ts r W C tk (W' C' : Prop) tk' : St ts r W C tk -> (W -> W') -> (C' -> C) -> KU tk' = KU tk -> St ts r W' C' tk'.
  Proof. intros (S1 & F1 & K1) HW HC Ht. split; [exact S1|]. split; [auto|]. intro H. rewrite Ht. auto. Qed.
  (** one token read and printed *)
  Lemma St_tok t r : St (t :: r) r True True [t].
  Proof.
    split; [cbn [U map]; apply suf_cons, suf_refl|]. split; [auto|]. intros _. rewrite KU_cons. apply ceq_refl.
  Qed.
  (** a token that is read and not printed, or printed and not read, and is no content *)
  Lemma St_skip t r : qlit t = false -> St (t :: r) r True True [].
  Proof.
    intro H. split; [cbn [U map]; apply suf_cons, suf_refl|]. split; [auto|]. intros _. rewrite KU_drop by exact H. apply ceq_refl.
  Qed.
  Lemma St_U ts ts' r W C tk : U ts = U ts' -> St ts' r W C tk -> St ts r W C tk.
  Proof.
    intros E (S1 & F1 & K1). unfold St, KU. rewrite E. split; [exact S1|]. split; [|exact K1].
    intro Hf. apply F1. unfold fits in *. rewrite <- (U_length ts'), <- E, U_length. exact Hf.
  Qed.

  (** ** What a parser of the query core gives, for every content predicate and both modes *)
  Section SiteInv.
    Context {A : Type}.
    Variables wfA canA : A -> bool.
    Variable ckA : bool -> A -> bool.
    Variable toksA : A -> list qtok.
    (** a fact about the result, the input and the rest *)
    Variable Hh : A -> list qtok -> list qtok -> Prop.
    Definition at_kw (post : list qtok) : Prop := post = [] \/ exists k post', post = k :: post' /\ is_dkw k = true.
    Hypothesis Hh_ext : forall x pre r0 post, Hh x pre r0 -> at_kw post -> Hh x (pre ++ post) (r0 ++ post).
    Hypothesis Hh_plain : forall x pre k post r, is_dkw k = true -> Hh x (pre ++ plain k :: post) r -> Hh x (pre ++ k :: post) r.

    Definition Pok (p : list qtok -> res (A * list qtok)) : Prop :=
      forall kp, (forall t, kp t = true -> qlit t = true) -> forall md ts x r, p ts = Ok (x, r) ->
        Inv kp md wfA canA (ckA md) toksA ts x r /\ Hh x ts r.

    Definition SInv (ts : list qtok) (x : A) (r : list qtok) : Prop :=
      St ts r (canA x = true -> wfA x = true) (ckA mode x = true) (toksA x) /\
      (ckA false x = true -> forallb nd (toksA x) = true) /\ Hh x ts r.

    Lemma direct_inv p ts0 post x r0 : Pok p -> forallb nd ts0 = true -> at_kw post -> p ts0 = Ok (x, r0) ->
      SInv (ts0 ++ post) x (r0 ++ post).
    Proof.
      intros Hp Hn Hpost E. split; [|split].
      - destruct (Hp keep2 keep2_lit mode _ _ _ E) as ((Ss & Sw & Sk) & _). split; [apply suf_U, suf_app_r; exact Ss|]. split.
        + intro Hf. apply Sw. eapply fits_len; [|exact Hf]. rewrite app_length. lia.
        + intro Hc. apply Sk in Hc. apply (ceq_map _ unplain) in Hc. rewrite map_app, <- !KU_keep2 in Hc.
          rewrite !KU_app, app_assoc. apply ceq_app; [exact Hc|apply ceq_refl].
      - intro Hc. destruct (Hp is_dkw is_dkw_lit false _ _ _ E) as ((_ & _ & Sk) & _). apply Sk in Hc. cbn [ceq] in Hc.
        assert (E0 : filter is_dkw ts0 = []) by (apply forallb_filter_nil; exact Hn).
        rewrite E0 in Hc. apply Permutation_nil in Hc. apply app_eq_nil in Hc. destruct Hc as [Hc _].
        apply filter_nil_forallb in Hc. exact Hc.
      - apply Hh_ext; [exact (proj2 (Hp keep2 keep2_lit mode _ _ _ E))|exact Hpost].
    Qed.

    Lemma sinv_plain pre k post x r : is_dkw k = true -> SInv (pre ++ plain k :: post) x r -> SInv (pre ++ k :: post) x r.
    Proof.
      intros Hk (H1 & H2 & H3). split; [|split; [exact H2|apply Hh_plain; assumption]].
      eapply St_U; [|exact H1]. symmetry. apply U_plain.
    Qed.

    Variable p' : list qtok -> res (A * list qtok).
    Variable opn : A -> list qtok -> option bool.
    Hypothesis Hp' : Pok p'.

    Lemma site_inv : forall g p, Pok p -> forall ts x r, site d p' opn g p ts = Ok (x, r) -> SInv ts x r.
    Proof.
      induction g as [|g IH]; intros p Hp ts x r H; [discriminate H|]. cbn [site] in H.
      destruct (cut_spec ts) as (pre & post & Ec & Ets & Hnd & Hpost). rewrite Ec in H. subst ts.
      destruct Hpost as [->|(k & post' & -> & Hk)].
      - rewrite <- (app_nil_r r). apply (direct_inv p); try assumption. left. reflexivity.
      - assert (Hagain : site d p' opn g p' (pre ++ plain k :: post') = Ok (x, r) -> SInv (pre ++ k :: post') x r).
        { intro Ha. apply (IH p' Hp') in Ha. apply sinv_plain; assumption. }
        assert (Hat : at_kw (k :: post')) by (right; eauto).
        destruct (p pre) as [[x0 r0]| | |] eqn:Ep.
        + destruct r0 as [|t0 r0'].
          * pose proof (direct_inv p pre (k :: post') x0 [] Hp Hnd Hat Ep) as Hdir. cbn [app] in Hdir.
            destruct (last_is is_comma_tok pre).
            -- destruct (mem k (kw_col d)); [inversion H; subst; exact Hdir|apply Hagain; exact H].
            -- destruct (opn x0 pre) as [c|]; [|inversion H; subst; exact Hdir].
               destruct (mem k (if c then kw_col d else kw_tab d)); [inversion H; subst; exact Hdir|apply Hagain; exact H].
          * inversion H; subst. change (t0 :: r0' ++ k :: post') with ((t0 :: r0') ++ k :: post'). apply (direct_inv p); assumption.
        + apply Hagain. exact H.
        + destruct (last_is is_as_tok pre); [apply Hagain; exact H|discriminate H].
        + discriminate H.
    Qed.
  End SiteInv.

  Lemma Pok_weaken {A} (wfA' wfA canA : A -> bool) ckA toksA (Hh' Hh : A -> list qtok -> list qtok -> Prop) p :
    Pok wfA' canA ckA toksA Hh' p -> (forall x, wfA' x = true -> wfA x = true) -> (forall x ts r, Hh' x ts r -> Hh x ts r) ->
    Pok wfA canA ckA toksA Hh p.
  Proof.
    intros Hp Hw Hhh kp Hk md ts x r E. destruct (Hp kp Hk md ts x r E) as ((H1 & H2 & H3) & H4).
    split; [|auto]. split; [exact H1|]. split; [|exact H3]. intros Hf Hc. apply Hw. auto.
  Qed.

  Definition noh {A} (_ : A) (_ _ : list qtok) : Prop := True.
  Definition paren_head (x : query) (ts : list qtok) : Prop :=
    head_is (QE TLParen) (qtoks x) = true -> head_is (QE TLParen) ts = true.
  Definition paren_head3 (x : query) (ts _ : list qtok) : Prop := paren_head x ts.
  (** a USING that follows a join without constraint is read as its constraint *)
  Definition using_rest (D : qdialect) (l : list twj) (r : list qtok) : Prop :=
    using_ok D = true -> last_twj_bare l = true -> head_is (QK KUsing) r = false.
  Definition from_head (l : list twj) (ts : list qtok) : Prop :=
    head_is (QE (TKw KFrom)) (sepc (map twj_toks l)) = true -> head_is (QE (TKw KFrom)) ts = true.
  Definition twjs_facts (D : qdialect) (l : list twj) (ts r : list qtok) : Prop := from_head l ts /\ using_rest D l r.

  Lemma head_twjs_from t l : head_is (QE (TKw KFrom)) (sepc (map twj_toks (t :: l))) = true ->
    exists a js, t = Twj (TTable (QE (TKw KFrom)) a) js.
  Proof.
    assert (E : head_is (QE (TKw KFrom)) (sepc (map twj_toks (t :: l))) = head_is (QE (TKw KFrom)) (twj_toks t)).
    { destruct l as [|t2 l]; [reflexivity|]. cbn [map]. rewrite sepc_cons. apply head_is_app. apply twj_toks_nonempty. }
    rewrite E. destruct t as [[n a|q a|x a] js]; cbn [twj_toks tref_toks app head_is]; try discriminate.
    intro H. apply qtok_eqb_eq in H. subst n. eauto.
  Qed.

  (** ** The entry points of the query core the DML parsers call, under the dialect [D] ([qd d] or [qdx d]) *)
  Section QC.
    Variable D : qdialect.
    Hypothesis HU0 : lvl (base D) K_UNKNOWN = 0.
    Hypothesis HPD : forall e, canP e = true -> canonical e = true /\ (negb sf || frag_ok (base D) (yield e)) = true.
    Notation pqD := (parse_query D fuel).

    Lemma qc_query kp (Hk : forall t, kp t = true -> qlit t = true) md ts q r :
      pqD ts = Ok (q, r) -> QI D kp md sf canP ts q r.
    Proof. apply (parse_query_inv_u0 D HU0 kp Hk md sf canP HPD). Qed.

    (** a printed query starts with a parenthesis only if the input does *)
    Lemma bloop_paren recb : forall g p e ts b r, bloop recb g p e ts = Ok (b, r) -> bparen b = bparen e.
    Proof.
      induction g as [|g IH]; intros p e ts b r H; [discriminate H|]. cbn [bloop] in H.
      destruct (set_op_of ts) as [[o ts1]|]; [|inversion H; reflexivity].
      destruct (sp_pinned o <=? p); [inversion H; reflexivity|].
      destruct (parse_quant ts1) as [qn ts2]. destruct (recb (sp_pinned o) ts2) as [[r0 ts3]| | |]; cbn [bind] in H; try discriminate H.
      apply IH in H. exact H.
    Qed.

    Lemma query_paren ts x r : pqD ts = Ok (x, r) -> paren_head x ts.
    Proof.
      unfold parse_query, paren_head. destruct fuel as [|f]; [discriminate|]. cbn [parse_lvl pq].
      destruct (parse_lvl_inv D HU0 keep_none keep_none_lit false sf canP HPD f) as (IQ & _ & IT).
      set (rq := pq (parse_lvl D f)) in *. set (rb := pb (parse_lvl D f)) in *. set (rt := pt (parse_lvl D f)) in *.
      unfold query_step. intro H.
      destruct (parse_with D rq ts) as [[w ts0]| | |] eqn:Ew; cbn [bind] in H; try discriminate H.
      destruct (body_step D rq rb rt (lvl (base D) K_UNKNOWN) ts0) as [[b ts1]| | |] eqn:Eb; cbn [bind] in H; try discriminate H.
      destruct (parse_order_by D rq ts1) as [[ob ts2]| | |]; cbn [bind] in H; try discriminate H.
      destruct (limit_iter D rq (None, None) ts2) as [[st1 ts3]| | |]; cbn [bind] in H; try discriminate H.
      destruct (limit_iter D rq st1 ts3) as [[st2 ts4]| | |]; cbn [bind] in H; try discriminate H.
      destruct (limit_by D && (is_some (fst st2) && fst (opt_tok (QK KBy) ts4))); [discriminate H|].
      inversion H; subst x r. clear H. rewrite qtoks_query. intro Hh.
      assert (Hw : w = None /\ ts0 = ts).
      { unfold parse_with in Ew. destruct ts as [|[t0|k0| |] l]; try (inversion Ew; auto; fail).
        destruct k0; try (inversion Ew; auto; fail).
        destruct (opt_tok (QK KRecursive) l) as [rc r1].
        destruct (comma_list (parse_cte D rq) (trail_all D) (S (length r1)) r1) as [[ctes r2]| | |]; cbn [bind] in Ew; try discriminate Ew.
        inversion Ew; subst w ts0. cbn [wtoks with_toks app head_is qtok_eqb] in Hh. discriminate Hh. }
      destruct Hw as [-> ->]. cbn [wtoks app] in Hh. apply btoks_paren in Hh.
      unfold body_step in Eb. destruct (parse_operand D rq rt ts) as [[e r1]| | |] eqn:Eo; cbn [bind] in Eb; try discriminate Eb.
      apply bloop_paren in Eb. rewrite Eb in Hh. clear Eb.
      unfold parse_operand in Eo. destruct ts as [|[t0|k0| |] r0]; try discriminate Eo.
      - destruct t0; try discriminate Eo. reflexivity.
      - destruct k0; try discriminate Eo.
        + apply (parse_select_inv D HU0 keep_none keep_none_lit false sf canP HPD rq rt IQ IT) in Eo. destruct Eo as (_ & Hl & _).
          rewrite (lead_not_paren _ Hl) in Hh. discriminate Hh.
        + destruct (comma_list (parse_vrow D rq) (trail_all D) (S (length r0)) r0) as [[rows r']| | |]; cbn [bind] in Eo; try discriminate Eo.
          inversion Eo; subst e. discriminate Hh.
        + destruct r0 as [|w0 r']; [discriminate Eo|]. destruct (is_word w0).
          * inversion Eo; subst e. discriminate Hh.
          * destruct w0 as [[]| | |]; discriminate Eo.
    Qed.

    Lemma pok_query : Pok (qwfg sf D) (qcan canP) ckq qtoks paren_head3 pqD.
    Proof. intros kp Hk md ts x r E. split; [|exact (query_paren _ _ _ E)]. apply (qc_query kp Hk md) in E. apply E. Qed.

    Lemma qc_twj kp (Hk : forall t, kp t = true -> qlit t = true) md ts t r :
      parse_twj D fuel ts = Ok (t, r) -> TI D kp md sf canP ts t r /\ tw_head t ts.
    Proof.
      unfold parse_twj. destruct fuel as [|f]; [discriminate|]. cbn [parse_lvl pt].
      destruct (parse_lvl_inv D HU0 kp Hk md sf canP HPD f) as (IQ & _ & IT).
      apply (twj_step_inv D HU0 kp Hk md sf canP HPD); assumption.
    Qed.

    Lemma pok_twj : Pok (twj_wfg sf D) (twall canP tt2) (fun md => twall nwe (ckT md)) twj_toks noh (parse_twj D fuel).
    Proof. intros kp Hk md ts t r E. split; [|exact I]. apply (qc_twj kp Hk md) in E. apply E. Qed.

    Lemma pok_expr : Pok (xwfg sf D) (xcanon canP) ckx xtoks noh (pex D pqD).
    Proof.
      intros kp Hk md ts x r E. split; [|exact I].
      apply (pex_inv D HU0 kp Hk md sf canP HPD pqD (qc_query kp Hk md)) in E. exact E.
    Qed.

    Lemma chain_pok {A} (wfA canA : A -> bool) ckA toksA elem trail kp (Hk : forall t, kp t = true -> qlit t = true) md :
      (forall ts x r, elem ts = Ok (x, r) -> Inv kp md wfA canA (ckA md) toksA ts x r) ->
      forall g ts l r, comma_list elem trail g ts = Ok (l, r) ->
      Inv kp md (fun l => nonnil l && forallb wfA l) (forallb canA) (forallb (ckA md)) (fun l => sepc (map toksA l)) ts l r.
    Proof.
      intros He g ts l r E. apply (comma_list_chain _ _ _ He) in E. apply (chain_inv kp Hk) in E.
      destruct E as (Hne & Hs & Hw & Hc). split; [exact Hs|]. split; [|exact Hc].
      intros Hf Hcn. rewrite (Hw Hf Hcn). destruct l; [congruence|reflexivity].
    Qed.

    Lemma pok_items :
      Pok (fun l => nonnil l && forallb (item_wfg sf D) l) (forallb (iall canP tt2)) (fun md => forallb (iall nwe (ckT md)))
          (fun l => sepc (map item_toks l)) noh (fun l => comma_list (parse_item D pqD) (trail_all D) (fuel_of l) l).
    Proof.
      intros kp Hk md ts l r E. split; [|exact I].
      apply (chain_pok (item_wfg sf D) (iall canP tt2) (fun md => iall nwe (ckT md)) item_toks _ _ kp Hk md) in E; [exact E|].
      apply (parse_item_inv D HU0 kp Hk md sf canP HPD pqD (qc_query kp Hk md)).
    Qed.

    Lemma pok_orders :
      Pok (fun l => nonnil l && forallb (oelem_wfg sf D) l) (forallb (oall canP tt2)) (fun md => forallb (oall nwe (ckT md)))
          (fun l => sepc (map oelem_toks l)) noh (fun l => comma_list (parse_order_elem D pqD) (trail_all D) (fuel_of l) l).
    Proof.
      intros kp Hk md ts l r E. split; [|exact I].
      apply (chain_pok (oelem_wfg sf D) (oall canP tt2) (fun md => oall nwe (ckT md)) oelem_toks _ _ kp Hk md) in E; [exact E|].
      apply (parse_order_elem_inv D HU0 kp Hk md sf canP HPD pqD (qc_query kp Hk md)).
    Qed.

    (** a USING that follows a join without constraint is its constraint: it does not follow a list of tables that
        ends in such a join (unless, with trailing commas on, USING ends a list) *)
    Definition lastj (js : list join) : bool := match rev js with j :: _ => join_bare j | [] => false end.
    Lemma rev_cons_nonnil {B} (x : B) l : exists y l', rev (x :: l) = y :: l'.
    Proof.
      destruct (rev (x :: l)) as [|y l'] eqn:E; [|eauto]. apply (f_equal (@length B)) in E. rewrite rev_length in E. discriminate E.
    Qed.
    Lemma lastj_cons j js : lastj (j :: js) = match js with [] => join_bare j | _ => lastj js end.
    Proof.
      unfold lastj. destruct js as [|j2 js']; [reflexivity|]. cbn [rev]. destruct (rev_cons_nonnil j2 js') as (y & l' & E).
      cbn [rev] in E. rewrite E. reflexivity.
    Qed.
    Lemma last_bare_cons t l : last_twj_bare (t :: l) = match l with [] => twj_bare t | _ => last_twj_bare l end.
    Proof.
      unfold last_twj_bare. destruct l as [|t2 l']; [reflexivity|]. cbn [rev]. destruct (rev_cons_nonnil t2 l') as (y & l2 & E).
      cbn [rev] in E. rewrite E. reflexivity.
    Qed.

    Lemma parse_jcons_none recq natural r2 r3 : parse_jcons D recq natural r2 = Ok (JNone, r3) -> head_is (QK KUsing) r3 = false.
    Proof.
      unfold parse_jcons. destruct natural; [discriminate|]. destruct r2 as [|[t0|k0| |] r]; try (intro H; inversion H; reflexivity).
      destruct k0; try (intro H; inversion H; reflexivity).
      - destruct (pex D recq r) as [[e r']| | |]; cbn [bind]; discriminate.
      - destruct r as [|[[]| | |] r1]; try discriminate. destruct (parse_cols D r1) as [[cols r2']| | |]; cbn [bind]; discriminate.
    Qed.

    Lemma join_loop_using recq rect : forall g ts js r, join_loop D recq rect g ts = Ok (js, r) ->
      (js = [] -> r = ts) /\ (lastj js = true -> head_is (QK KUsing) r = false).
    Proof.
      induction g as [|g IH]; intros ts js r H; [discriminate H|].
      assert (Hgen : (let '(natural, r0) := opt_tok (QK KNatural) ts in
                      bind (parse_jkind r0) (fun o =>
                        match o with
                        | None => if natural then Err else Ok ([], ts)
                        | Some (k, r1) =>
                            bind (parse_tref D recq rect r1) (fun '(t, r2) =>
                              bind (parse_jcons D recq natural r2) (fun '(c, r3) =>
                                bind (join_loop D recq rect g r3) (fun '(js, r4) => Ok (Join (JOp k c) t :: js, r4))))
                        end)) = Ok (js, r) -> (js = [] -> r = ts) /\ (lastj js = true -> head_is (QK KUsing) r = false)).
      { clear H. destruct (opt_tok (QK KNatural) ts) as [natural r0]. intro H.
        destruct (parse_jkind r0) as [[[k r1]|]| | |]; cbn [bind] in H; try discriminate H.
        - destruct (parse_tref D recq rect r1) as [[t r2]| | |]; cbn [bind] in H; try discriminate H.
          destruct (parse_jcons D recq natural r2) as [[c r3]| | |] eqn:Ec; cbn [bind] in H; try discriminate H.
          destruct (join_loop D recq rect g r3) as [[js' r4]| | |] eqn:El; cbn [bind] in H; try discriminate H.
          inversion H; subst js r. clear H. apply IH in El. destruct El as [L1 L2]. split; [discriminate|].
          rewrite lastj_cons. destruct js' as [|j2 js'']; [|exact L2].
          rewrite (L1 eq_refl). destruct c; try discriminate. intros _. eapply parse_jcons_none. exact Ec.
        - destruct natural; [discriminate H|]. inversion H; subst. split; [reflexivity|discriminate]. }
      cbn [join_loop] in H. destruct ts as [|[?|k| |] r0]; try exact (Hgen H). destruct k; try exact (Hgen H).
      clear Hgen. destruct r0 as [|[?|[]| |] r1]; try discriminate H.
      destruct (parse_tref D recq rect r1) as [[t r2]| | |]; cbn [bind] in H; try discriminate H.
      destruct (join_loop D recq rect g r2) as [[js' r4]| | |] eqn:El; cbn [bind] in H; try discriminate H.
      inversion H; subst js r. clear H. apply IH in El. destruct El as [L1 L2]. split; [discriminate|].
      rewrite lastj_cons. destruct js' as [|j2 js'']; [discriminate|exact L2].
    Qed.

    Lemma twj_using ts t r : parse_twj D fuel ts = Ok (t, r) -> twj_bare t = true -> head_is (QK KUsing) r = false.
    Proof.
      unfold parse_twj. destruct fuel as [|f]; [discriminate|]. cbn [parse_lvl pt]. unfold twj_step.
      destruct (parse_tref D (pq (parse_lvl D f)) (pt (parse_lvl D f)) ts) as [[t0 r1]| | |]; cbn [bind]; try discriminate.
      destruct (join_loop D (pq (parse_lvl D f)) (pt (parse_lvl D f)) (S (length r1)) r1) as [[js r2]| | |] eqn:El; cbn [bind]; try discriminate.
      intro H. inversion H; subst t r2. apply join_loop_using in El. exact (proj2 El).
    Qed.

    Lemma comma_list_using (elem : list qtok -> res (twj * list qtok)) trail :
      (forall ts t r, elem ts = Ok (t, r) -> twj_bare t = true -> head_is (QK KUsing) r = false) ->
      (forall res, trail = Some res -> mem (QK KUsing) res = false) ->
      forall g ts l r, comma_list elem trail g ts = Ok (l, r) ->
      l <> [] /\ (last_twj_bare l = true -> head_is (QK KUsing) r = false).
    Proof.
      intros He Ht. induction g as [|g IH]; intros ts l r H; [discriminate H|]. cbn [comma_list] in H.
      destruct (elem ts) as [[x r0]| | |] eqn:E; cbn [bind] in H; try discriminate H. specialize (He _ _ _ E).
      assert (Hone : Ok ([x], r0) = Ok (l, r) -> l <> [] /\ (last_twj_bare l = true -> head_is (QK KUsing) r = false)).
      { intro H0. inversion H0; subst. split; [discriminate|exact He]. }
      destruct r0 as [|t r1]; [exact (Hone H)|]. destruct t as [t| | |]; try exact (Hone H). destruct t; try exact (Hone H). clear Hone.
      destruct (match trail with Some reserved => comma_end reserved r1 | None => false end) eqn:T.
      - inversion H; subst. split; [discriminate|]. intros _. destruct trail as [res|]; [|discriminate T].
        destruct r as [|h r']; [reflexivity|]. cbn [head_is]. destruct (qtok_eqb h (QK KUsing)) eqn:Eh; [|reflexivity].
        apply qtok_eqb_eq in Eh. subst h. cbn [comma_end] in T. rewrite (Ht res eq_refl) in T. discriminate T.
      - destruct (comma_list elem trail g r1) as [[l' r'']| | |] eqn:E2; cbn [bind] in H; try discriminate H.
        inversion H; subst. apply IH in E2. destruct E2 as [Hne Hl]. split; [discriminate|].
        rewrite last_bare_cons. destruct l' as [|t2 l'']; [congruence|exact Hl].
    Qed.

    Lemma pok_twjs :
      Pok (fun l => nonnil l && forallb (twj_wfg sf D) l && later_names_ok D l) (forallb (twall canP tt2))
          (fun md => forallb (twall nwe (ckT md))) (fun l => sepc (map twj_toks l)) (twjs_facts D)
          (fun l => comma_list (parse_twj D fuel) (trail_all D) (fuel_of l) l).
    Proof.
      intros kp Hk md ts l r E.
      pose proof (comma_list_chain _ _ (fun ts t r => TI D kp md sf canP ts t r /\ tw_head t ts) (qc_twj kp Hk md) _ _ _ _ E) as Hc.
      destruct (chain_inv kp Hk _ _ _ _ _ _ _ _ _ (chain_mono _ (TI D kp md sf canP) _ _ _ _ (fun _ _ _ H => proj1 H) Hc)) as (Hne & Cs & Cw & Ck).
      split; [split; [exact Cs|split; [|exact Ck]]|split].
      - intros Hf Hcn. rewrite (Cw Hf Hcn). destruct l as [|t0 fr]; [congruence|]. cbn [nonnil andb].
        unfold later_names_ok. apply chain_later in Hc. cbn [tl] in Hc. apply forallb_forall. intros t Hin. rewrite Forall_forall in Hc.
        destruct (Hc t Hin) as (ts' & r' & [_ Hh] & Hn). destruct t as [[n a|q a|x a] js]; try reflexivity.
        cbn [twj_head_ok]. cbn [tw_head tr_head] in Hh. destruct Hh as [(x & ->) Hw]. eapply ntr_later; eassumption.
      - intro Hh. destruct l as [|t0 fr]; [congruence|]. destruct (head_twjs_from _ _ Hh) as (a & js & ->).
        apply chain_first in Hc. destruct Hc as (r0 & _ & Hh0). cbn [tw_head tr_head] in Hh0. destruct Hh0 as [(x & ->) _]. reflexivity.
      - intros Hu Hb. apply (comma_list_using _ _ twj_using) in E; [apply E; exact Hb|].
        intros res Hr. unfold trail_all in Hr. unfold using_ok in Hu. destruct (trailing D); [|discriminate Hr].
        inversion Hr; subst res. cbn [andb] in Hu. apply negb_true_iff in Hu. exact Hu.
    Qed.
  End QC.

  (** ** The two dialects of the DML parsers *)
  Notation q := (qd d).
  Notation q' := (qdx d).

  Lemma HU0q : lvl (base q) K_UNKNOWN = 0.
  Proof. apply d_U0. apply Hq'. exact Hd. Qed.
  Lemma HU0q' : lvl (base q') K_UNKNOWN = 0.
  Proof. exact HU0q. Qed.
  Lemma HPq' : forall e, canP e = true -> canonical e = true /\ (negb sf || frag_ok (base q') (yield e)) = true.
  Proof. exact HP. Qed.

  (** well-formedness under [qdx d], in which more words are reserved, gives well-formedness under [qd d] *)
  Lemma later_ok_qdx w : later_ok q' w = true -> later_ok q w = true.
  Proof.
    unfold later_ok. cbn [qdx trailing res_col]. destruct (trailing q); [|reflexivity]. cbn [andb]. rewrite mem_app.
    intro H. apply negb_true_iff in H. apply orb_false_iff in H. destruct H as [H _]. rewrite H. reflexivity.
  Qed.
  Lemma qwfg_qdx x : qwfg sf q' x = true -> qwfg sf q x = true.
  Proof. apply q_mono; try reflexivity. exact later_ok_qdx. Qed.
  Lemma twj_wfg_qdx x : twj_wfg sf q' x = true -> twj_wfg sf q x = true.
  Proof. apply tw_mono; try reflexivity. exact later_ok_qdx. Qed.
  Lemma xwfg_qdx x : xwfg sf q' x = true -> xwfg sf q x = true.
  Proof. apply x_mono; try reflexivity. exact later_ok_qdx. Qed.
  Lemma item_wfg_qdx x : item_wfg sf q' x = true -> item_wfg sf q x = true.
  Proof. apply i_mono; try reflexivity. exact later_ok_qdx. Qed.
  Lemma oelem_wfg_qdx x : oelem_wfg sf q' x = true -> oelem_wfg sf q x = true.
  Proof. apply o_mono; try reflexivity. exact later_ok_qdx. Qed.
  Lemma forallb_imp {A} (f g : A -> bool) l : (forall x, f x = true -> g x = true) -> forallb f l = true -> forallb g l = true.
  Proof. intro H. rewrite !forallb_forall. auto. Qed.

  (** canonical spelling gives the condition of the content equation up to order *)
  Lemma canP_nwe e : canP e = true -> nwe e = true.
  Proof. intro H. apply HP in H. destruct H as [H _]. unfold nwe. rewrite (canonical_no_word_escape e H). reflexivity. Qed.
  Lemma tt2_ckT l o : tt2 l o = true -> ckT false l o = true.
  Proof. reflexivity. Qed.
  Lemma qcan_ck x : qcan canP x = true -> ckq false x = true.
  Proof. apply qall_mono; [exact canP_nwe|exact tt2_ckT]. Qed.
  Lemma twcan_ck x : twall canP tt2 x = true -> twall nwe (ckT false) x = true.
  Proof. apply twall_mono; [exact canP_nwe|exact tt2_ckT]. Qed.
  Lemma xcan_ck x : xcanon canP x = true -> ckx false x = true.
  Proof. apply xall_mono; [exact canP_nwe|exact tt2_ckT]. Qed.
  Lemma ican_ck x : iall canP tt2 x = true -> iall nwe (ckT false) x = true.
  Proof. apply iall_mono; [exact canP_nwe|exact tt2_ckT]. Qed.
  Lemma ocan_ck x : oall canP tt2 x = true -> oall nwe (ckT false) x = true.
  Proof. apply oall_mono; [exact canP_nwe|exact tt2_ckT]. Qed.

  Lemma noh_ext {A} (x : A) (pre r0 post : list qtok) : noh x pre r0 -> at_kw post -> noh x (pre ++ post) (r0 ++ post).
  Proof. auto. Qed.
  Lemma noh_plain {A} (x : A) (pre : list qtok) k (post r : list qtok) : is_dkw k = true -> noh x (pre ++ plain k :: post) r -> noh x (pre ++ k :: post) r.
  Proof. auto. Qed.
  Lemma from_head_ext (x : list twj) pre post : from_head x pre -> from_head x (pre ++ post).
  Proof. unfold from_head. intros H Hx. specialize (H Hx). destruct pre; [discriminate H|exact H]. Qed.
  Lemma from_head_plain (x : list twj) pre k post : is_dkw k = true -> from_head x (pre ++ plain k :: post) -> from_head x (pre ++ k :: post).
  Proof.
    unfold from_head. intros Hk H Hx. specialize (H Hx). destruct pre as [|t pre]; [|exact H]. cbn [app head_is] in H.
    apply qtok_eqb_eq in H. destruct (plain_dkw k Hk) as (Hp & _). rewrite H in Hp. discriminate Hp.
  Qed.
  Lemma twjs_facts_ext D (x : list twj) pre r0 post : twjs_facts D x pre r0 -> at_kw post -> twjs_facts D x (pre ++ post) (r0 ++ post).
  Proof.
    intros [H1 H2] Hp. split; [apply from_head_ext; exact H1|]. intros Hu Hb. specialize (H2 Hu Hb).
    destruct r0 as [|t r0']; [|exact H2]. cbn [app]. destruct Hp as [->|(k & post' & -> & Hk)]; [reflexivity|].
    cbn [head_is]. destruct (is_dkw_atom k Hk) as (n & -> & _). reflexivity.
  Qed.
  Lemma twjs_facts_plain D (x : list twj) pre k post r : is_dkw k = true -> twjs_facts D x (pre ++ plain k :: post) r -> twjs_facts D x (pre ++ k :: post) r.
  Proof. intros Hk [H1 H2]. split; [apply from_head_plain; assumption|exact H2]. Qed.
  Lemma mem_plain_using l : forallb is_dkw l = true -> mem (QK KUsing) (map plain l) = false.
  Proof.
    induction l as [|k l IH]; [reflexivity|]. cbn [forallb map]. intro H. apply andb_true_iff in H. destruct H as [Hk Hl].
    unfold mem. cbn [existsb]. fold (mem (QK KUsing) (map plain l)). rewrite (IH Hl), orb_false_r.
    destruct (plain_dkw k Hk) as (Hp & _). destruct (is_dplain_atom _ Hp) as (n & -> & _). reflexivity.
  Qed.
  Lemma using_ok_qdx : using_ok q = true -> using_ok q' = true.
  Proof.
    unfold using_ok. cbn [qdx trailing res_col]. destruct (trailing q); [|reflexivity]. cbn [andb]. rewrite mem_app.
    intro H. apply negb_true_iff in H. rewrite H. cbn [orb]. rewrite mem_plain_using; [reflexivity|].
    unfold mdialect_ok in Hd. apply andb_true_iff in Hd. destruct Hd as [H0 _]. apply andb_true_iff in H0. tauto.
  Qed.

  (** what [site] gives, as a step: the result is well-formed and spelled without DML keywords as soon as it
      is canonical and none of its names is a demoted keyword *)
  Definition Wc {A} (wfA canA : A -> bool) (toksA : A -> list qtok) (x : A) : Prop :=
    canA x = true -> forallb np (toksA x) = true -> wfA x = true /\ nodkw (toksA x) = true.

  Lemma sinv_St {A} (wfA canA : A -> bool) ckA toksA Hh ts (x : A) r :
    (forall y, canA y = true -> ckA false y = true) ->
    SInv wfA canA ckA toksA Hh ts x r -> St ts r (Wc wfA canA toksA x) (ckA mode x = true) (toksA x) /\ Hh x ts r.
  Proof.
    intros Hck ((S1 & F1 & K1) & Hn & Hh0). split; [|exact Hh0]. split; [exact S1|]. split; [|exact K1].
    intros Hf Hc Hp. split; [apply F1; assumption|]. apply nodkw_nd_np; [apply Hn, Hck; exact Hc|exact Hp].
  Qed.

  Lemma paren_head_ext (x : query) pre r0 post : paren_head3 x pre r0 -> at_kw post -> paren_head3 x (pre ++ post) (r0 ++ post).
  Proof. unfold paren_head3, paren_head. intros H _ Hx. specialize (H Hx). destruct pre; [discriminate H|exact H]. Qed.
  Lemma paren_head_plain (x : query) pre k post r : is_dkw k = true -> paren_head3 x (pre ++ plain k :: post) r -> paren_head3 x (pre ++ k :: post) r.
  Proof.
    unfold paren_head3, paren_head. intros Hk H Hx. specialize (H Hx). destruct pre as [|t pre]; [|exact H]. cbn [app head_is] in H.
    apply qtok_eqb_eq in H. destruct (plain_dkw k Hk) as (Hp & _). rewrite H in Hp. discriminate Hp.
  Qed.

  Lemma site_query_inv ts x r : site_query d fuel ts = Ok (x, r) ->
    St ts r (Wc (qwfg sf q) (qcan canP) qtoks x) (ckq mode x = true) (qtoks x) /\ paren_head x ts.
  Proof.
    intro H. apply (sinv_St _ _ ckq _ paren_head3); [exact qcan_ck|]. unfold site_query in H.
    eapply (site_inv _ _ _ _ paren_head3 paren_head_ext paren_head_plain); [| |exact H].
    - eapply Pok_weaken; [apply (pok_query q' HU0q' HPq')|exact qwfg_qdx|auto].
    - apply (pok_query q HU0q HP).
  Qed.

  Lemma site_twj_inv ts x r : site_twj d fuel ts = Ok (x, r) ->
    St ts r (Wc (twj_wfg sf q) (twall canP tt2) twj_toks x) (twall nwe (ckT mode) x = true) (twj_toks x).
  Proof.
    intro H. apply (sinv_St _ _ (fun md => twall nwe (ckT md)) _ noh); [exact twcan_ck|]. unfold site_twj in H.
    eapply (site_inv _ _ _ _ noh noh_ext noh_plain); [| |exact H].
    - eapply Pok_weaken; [apply (pok_twj q' HU0q' HPq')|exact twj_wfg_qdx|auto].
    - apply (pok_twj q HU0q HP).
  Qed.

  Lemma site_expr_inv ts x r : site_expr d fuel ts = Ok (x, r) ->
    St ts r (Wc (xwfg sf q) (xcanon canP) xtoks x) (ckx mode x = true) (xtoks x).
  Proof.
    intro H. apply (sinv_St _ _ ckx _ noh); [exact xcan_ck|]. unfold site_expr in H.
    eapply (site_inv _ _ _ _ noh noh_ext noh_plain); [| |exact H].
    - eapply Pok_weaken; [apply (pok_expr q' HU0q' HPq')|exact xwfg_qdx|auto].
    - apply (pok_expr q HU0q HP).
  Qed.

  Definition items_wfg (l : list item) : bool := nonnil l && forallb (item_wfg sf q) l.
  Lemma site_items_inv ts x r : site_items d fuel ts = Ok (x, r) ->
    St ts r (Wc items_wfg (forallb (iall canP tt2)) (fun l => sepc (map item_toks l)) x)
       (forallb (iall nwe (ckT mode)) x = true) (sepc (map item_toks x)).
  Proof.
    intro H. refine (proj1 (sinv_St items_wfg (forallb (iall canP tt2)) (fun md => forallb (iall nwe (ckT md)))
                              (fun l => sepc (map item_toks l)) noh ts x r _ _)); [intro y; apply forallb_imp; exact ican_ck|].
    unfold site_items in H. eapply (site_inv _ _ _ _ noh noh_ext noh_plain); [| |exact H].
    - eapply Pok_weaken; [apply (pok_items q' HU0q' HPq')| |auto].
      intros y Hy. unfold items_wfg. apply andb_true_iff in Hy. destruct Hy as [H1 H2]. rewrite H1. apply (forallb_imp _ _ _ item_wfg_qdx H2).
    - apply (pok_items q HU0q HP).
  Qed.

  Definition orders_wfg (l : list oelem) : bool := nonnil l && forallb (oelem_wfg sf q) l.
  Lemma site_orders_inv ts x r : site_orders d fuel ts = Ok (x, r) ->
    St ts r (Wc orders_wfg (forallb (oall canP tt2)) (fun l => sepc (map oelem_toks l)) x)
       (forallb (oall nwe (ckT mode)) x = true) (sepc (map oelem_toks x)).
  Proof.
    intro H. refine (proj1 (sinv_St orders_wfg (forallb (oall canP tt2)) (fun md => forallb (oall nwe (ckT md)))
                              (fun l => sepc (map oelem_toks l)) noh ts x r _ _)); [intro y; apply forallb_imp; exact ocan_ck|].
    unfold site_orders in H. eapply (site_inv _ _ _ _ noh noh_ext noh_plain); [| |exact H].
    - eapply Pok_weaken; [apply (pok_orders q' HU0q' HPq')| |auto].
      intros y Hy. unfold orders_wfg. apply andb_true_iff in Hy. destruct Hy as [H1 H2]. rewrite H1. apply (forallb_imp _ _ _ oelem_wfg_qdx H2).
    - apply (pok_orders q HU0q HP).
  Qed.

  Definition twjs_wfg (l : list twj) : bool := nonnil l && forallb (twj_wfg sf q) l && later_names_ok q l.
  Lemma site_twjs_inv ts x r : site_twjs d fuel ts = Ok (x, r) ->
    St ts r (Wc twjs_wfg (forallb (twall canP tt2)) (fun l => sepc (map twj_toks l)) x)
       (forallb (twall nwe (ckT mode)) x = true) (sepc (map twj_toks x)) /\ from_head x ts /\ using_rest q x r.
  Proof.
    intro H. refine (sinv_St twjs_wfg (forallb (twall canP tt2)) (fun md => forallb (twall nwe (ckT md)))
                       (fun l => sepc (map twj_toks l)) (twjs_facts q) ts x r _ _); [intro y; apply forallb_imp; exact twcan_ck|].
    unfold site_twjs in H. eapply (site_inv _ _ _ _ (twjs_facts q) (twjs_facts_ext q) (twjs_facts_plain q)); [| |exact H].
    - eapply Pok_weaken; [apply (pok_twjs q' HU0q' HPq')| |intros y ts0 r0 [F1 F2]; split; [exact F1|intros Hu Hb; apply F2; [apply using_ok_qdx; exact Hu|exact Hb]]].
      intros y Hy. unfold twjs_wfg. apply andb_true_iff in Hy. destruct Hy as [Hy H3]. apply andb_true_iff in Hy. destruct Hy as [H1 H2].
      rewrite H1, (forallb_imp _ _ _ twj_wfg_qdx H2). cbn [andb].
      revert H3. apply later_names_mono. exact later_ok_qdx.
    - apply (pok_twjs q HU0q HP).
  Qed.

  (** ** Comma-separated lists the DML parsers own *)
  Lemma KU_sepc {A} (tk : A -> list qtok) x y l :
    KU (sepc (map tk (x :: y :: l))) = KU (tk x) ++ KU (sepc (map tk (y :: l))).
  Proof. cbn [map]. rewrite sepc_cons, KU_app, KU_drop by reflexivity. reflexivity. Qed.

  Lemma chain_St {A} (W C : A -> Prop) (tk : A -> list qtok) trail ts l r :
    Chain (fun ts x r => St ts r (W x) (C x) (tk x)) trail ts l r ->
    l <> [] /\ St ts r (Forall W l) (Forall C l) (sepc (map tk l)).
  Proof.
    induction 1 as [ts x r0 r Hx Hr|ts x r' l r Hx Hn Hc (Hne & IH)].
    - split; [discriminate|]. assert (Hr' : St r0 r True True []).
      { destruct Hr as [->| ->]; [apply St_refl|apply St_skip; reflexivity]. }
      eapply St_weaken; [exact (St_seq _ _ _ _ _ _ _ _ _ Hx Hr')| | |].
      + intros [H _]. constructor; [exact H|constructor].
      + intro H. inversion H; subst. auto.
      + cbn [map sepc]. rewrite app_nil_r. reflexivity.
    - split; [discriminate|]. pose proof (St_skip (QE TComma) r' eq_refl) as Hs.
      eapply St_weaken; [exact (St_seq _ _ _ _ _ _ _ _ _ (St_seq _ _ _ _ _ _ _ _ _ Hx Hs) IH)| | |].
      + intros [[H _] H2]. constructor; assumption.
      + intro H. inversion H; subst. auto.
      + destruct l as [|y l']; [congruence|]. rewrite KU_sepc, app_nil_r, KU_app. reflexivity.
  Qed.

  Lemma np_sepc_inv {A} (tk : A -> list qtok) l : forallb np (sepc (map tk l)) = true -> Forall (fun x => forallb np (tk x) = true) l.
  Proof.
    induction l as [|x l IH]; [constructor|]. destruct l as [|y l'].
    - cbn [map sepc]. intro H. constructor; [exact H|constructor].
    - cbn [map]. rewrite sepc_cons. intro H. apply forallb_app_inv in H. destruct H as [H1 H2]. cbn [forallb] in H2.
      apply andb_true_iff in H2. destruct H2 as [_ H2]. constructor; [exact H1|apply IH; exact H2].
  Qed.

  Lemma ntr_mem res h y : ntr (Some res) (h :: y) -> mem h res = false.
  Proof.
    unfold ntr, comma_end. destruct h as [[]| | |]; auto; discriminate.
  Qed.
  Lemma ntr_okm h y : ntr (trail_m d) (h :: y) -> later_okm d h = true.
  Proof.
    unfold trail_m, later_okm. destruct (trailing q); [|reflexivity]. intro H. apply ntr_mem in H. rewrite H. reflexivity.
  Qed.

  (** *** names *)
  Definition plainword (c : qtok) : Prop := exists w, c = plain w /\ is_word w = true.
  Definition name_rel (ts : list qtok) (c : qtok) (r : list qtok) : Prop := exists w, ts = w :: r /\ is_word w = true /\ c = plain w.

  Lemma parse_name_inv ts c r : parse_name ts = Ok (c, r) -> name_rel ts c r.
  Proof.
    unfold parse_name. destruct (parse_ident ts) as [[w r0]| | |] eqn:E; cbn [bind]; try discriminate.
    intro H. inversion H; subst. apply parse_ident_inv in E. destruct E as [-> Hw]. exists w. auto.
  Qed.
  Lemma KU_plain1 w : KU [plain w] = KU [w].
  Proof. unfold KU. cbn [U map]. rewrite unplain_plain. reflexivity. Qed.
  Lemma name_St ts c r : name_rel ts c r -> St ts r True True [c].
  Proof.
    intros (w & -> & _ & ->). eapply St_weaken; [apply St_tok|auto|auto|apply KU_plain1].
  Qed.
  Lemma plainword_ok c : plainword c -> np c = true -> mname_ok c = true.
  Proof.
    intros (w & -> & Hw) Hn. destruct (np_plain_eq w Hn) as [E Hk]. rewrite E in *. unfold mname_ok, nk.
    unfold np in Hn. rewrite Hw, Hk, Hn. reflexivity.
  Qed.

  Lemma names_inv g ts l r : comma_list parse_name (trail_m d) g ts = Ok (l, r) ->
    l <> [] /\ St ts r True True (names_toks l) /\ Forall plainword l /\
    (forallb np l = true -> forallb (later_okm d) (tl l) = true) /\
    (exists w y, ts = w :: y /\ hd_error l = Some (plain w)).
  Proof.
    intro E. pose proof (comma_list_chain _ _ _ parse_name_inv _ _ _ _ E) as Hc. clear E.
    split; [|split; [|split; [|split]]].
    - inversion Hc; discriminate.
    - pose proof (chain_mono _ (fun ts c r => St ts r ((fun _ => True) c) ((fun _ => True) c) ((fun c => [c]) c)) _ _ _ _ name_St Hc) as Hc'.
      apply chain_St in Hc'. destruct Hc' as [_ Hs]. eapply St_weaken; [exact Hs|auto| |reflexivity].
      intros _. clear. induction l; constructor; auto.
    - clear - Hc. induction Hc as [ts x r0 r (w & -> & Hw & ->) Hr|ts x r' l r (w & -> & Hw & ->) Hn Hc IH].
      + constructor; [exists w; auto|constructor].
      + constructor; [exists w; auto|exact IH].
    - intro Hnp. apply chain_later in Hc. apply forallb_forall. intros c Hin. rewrite Forall_forall in Hc.
      destruct (Hc c Hin) as (ts' & r' & (w & -> & Hw & ->) & Hn).
      assert (Hc0 : np (plain w) = true). { rewrite forallb_forall in Hnp. apply Hnp. destruct l; [destruct Hin|right; exact Hin]. }
      destruct (np_plain_eq w Hc0) as [-> _]. eapply ntr_okm. exact Hn.
    - inversion Hc as [ts0 x r0 r1 (w & -> & Hw & ->) Hr|ts0 x r' l0 r1 (w & -> & Hw & ->) Hn Hc0]; subst; eauto.
  Qed.

  Lemma later_okm_ok w : later_okm d w = true -> later_ok q w = true.
  Proof.
    unfold later_okm, later_ok. destruct (trailing q); [|reflexivity]. cbn [andb]. rewrite mem_app. intro H.
    apply negb_true_iff in H. apply orb_false_iff in H. destruct H as [H _]. rewrite H. reflexivity.
  Qed.

  Lemma names_good l : l <> [] -> Forall plainword l -> forallb np l = true -> forallb (later_okm d) (tl l) = true ->
    forallb mname_ok l = true /\ cols_wf q l = true /\ nodkw l = true.
  Proof.
    intros Hne Hp Hn Hl.
    assert (Hm : forallb mname_ok l = true).
    { apply forallb_forall. intros c Hin. rewrite Forall_forall in Hp. rewrite forallb_forall in Hn. apply plainword_ok; auto. }
    split; [exact Hm|]. split.
    - unfold cols_wf. destruct l as [|c r]; [congruence|]. apply andb_true_iff. split.
      + revert Hm. apply forallb_imp. unfold mname_ok. intros x Hx. apply andb_true_iff in Hx. tauto.
      + cbn [tl] in Hl. revert Hl. apply forallb_imp. exact later_okm_ok.
    - revert Hm. unfold nodkw. apply forallb_imp. unfold mname_ok. intros x Hx. apply andb_true_iff in Hx. tauto.
  Qed.

  (** [( names )], after the opening parenthesis *)
  Lemma names_paren_inv r0 cs r : parse_names_paren d r0 = Ok (cs, r) ->
    St r0 r True True (names_toks cs ++ [QE TRParen]) /\
    (forallb np cs = true -> cols_wf q cs = true /\ nodkw cs = true).
  Proof.
    unfold parse_names_paren. destruct (comma_list parse_name (trail_m d) (fuel_of r0) r0) as [[l r1]| | |] eqn:E; cbn [bind]; try discriminate.
    destruct r1 as [|[[]| | |] r2]; try discriminate. intro H. inversion H; subst l r2. clear H.
    apply names_inv in E. destruct E as (Hne & Hs & Hp & Hl & _). split.
    - eapply St_weaken; [exact (St_seq _ _ _ _ _ _ _ _ _ Hs (St_tok (QE TRParen) r))|auto|auto|reflexivity].
    - intro Hn. destruct (names_good cs Hne Hp Hn (Hl Hn)) as (_ & H1 & H2). auto.
  Qed.

  (** *** WHERE, RETURNING *)
  Lemma opt_tok_spec k ts b r : opt_tok k ts = (b, r) -> (b = true /\ ts = k :: r) \/ (b = false /\ r = ts /\ head_is k ts = false).
  Proof.
    unfold opt_tok. destruct ts as [|t r0]; [intro H; inversion H; right; auto|]. cbn [head_is].
    destruct (qtok_eqb t k) eqn:E; intro H; inversion H; subst; [left; apply qtok_eqb_eq in E; subst; auto|right; auto].
  Qed.
  Lemma opt_tok2_spec k1 k2 ts b r : opt_tok2 k1 k2 ts = (b, r) -> (b = true /\ ts = k1 :: k2 :: r) \/ (b = false /\ r = ts).
  Proof.
    unfold opt_tok2. destruct ts as [|t1 [|t2 r0]]; try (intro H; inversion H; right; auto; fail).
    destruct (qtok_eqb t1 k1 && qtok_eqb t2 k2) eqn:E; intro H; inversion H; subst; [left|right; auto].
    apply andb_true_iff in E. destruct E as [E1 E2]. apply qtok_eqb_eq in E1, E2. subst. auto.
  Qed.

  Definition Wsel (sel : option xexpr) : Prop :=
    oxall canP tt2 sel = true -> forall k, forallb np (clause_toks k (otoks sel)) = true -> sel_wfg sf d sel = true.
  Lemma Wsel_some e : Wc (xwfg sf q) (xcanon canP) xtoks e -> Wsel (Some e).
  Proof.
    intros H Hc k Hn. cbn [clause_toks otoks option_map forallb] in Hn. apply andb_true_iff in Hn. destruct Hn as [_ Hn].
    destruct (H Hc Hn) as [H1 H2]. cbn [sel_wfg]. rewrite H1, H2. reflexivity.
  Qed.
  Lemma Wsel_none : Wsel None.
  Proof. intros _ _ _. reflexivity. Qed.

  Lemma parse_where_inv ts sel r : parse_where d fuel ts = Ok (sel, r) ->
    St ts r (Wsel sel) (oxall nwe (ckT mode) sel = true) (clause_toks (QK KWhere) (otoks sel)).
  Proof.
    unfold parse_where. destruct (opt_tok (QK KWhere) ts) as [b r0] eqn:Eo. apply opt_tok_spec in Eo.
    destruct Eo as [[-> ->]|(-> & -> & _)].
    - destruct (site_expr d fuel r0) as [[e r1]| | |] eqn:E; cbn [bind]; try discriminate. intro H. inversion H; subst sel r1. clear H.
      apply site_expr_inv in E. eapply St_weaken; [exact (St_seq _ _ _ _ _ _ _ _ _ (St_tok (QK KWhere) r0) E)| | |reflexivity].
      + intros [_ Hw]. apply Wsel_some. exact Hw.
      + intro Hc. split; [exact I|exact Hc].
    - intro H. inversion H; subst. eapply St_weaken; [apply St_refl|intros _; exact Wsel_none|auto|reflexivity].
  Qed.

  Definition Wret (ret : option (list item)) : Prop :=
    oiall canP tt2 ret = true -> forallb np (ret_toks ret) = true -> ret_wfg sf d ret = true.

  Lemma parse_returning_inv ts ret r : parse_returning d fuel ts = Ok (ret, r) ->
    St ts r (Wret ret) (oiall nwe (ckT mode) ret = true) (ret_toks ret) /\ (ret = None -> r = ts /\ head_is (kw DReturning) ts = false).
  Proof.
    unfold parse_returning. destruct (opt_tok (kw DReturning) ts) as [b r0] eqn:Eo. apply opt_tok_spec in Eo.
    destruct Eo as [[-> ->]|(-> & -> & Hh)].
    - destruct (site_items d fuel r0) as [[l r1]| | |] eqn:E; cbn [bind]; try discriminate. intro H. inversion H; subst ret r1. clear H.
      split; [|discriminate].
      apply site_items_inv in E. eapply St_weaken; [exact (St_seq _ _ _ _ _ _ _ _ _ (St_tok (kw DReturning) r0) E)| | |reflexivity].
      + intros [_ Hw] Hc Hn. cbn [ret_toks forallb] in Hn. apply andb_true_iff in Hn. destruct Hn as [_ Hn].
        destruct (Hw Hc Hn) as [H1 H2]. unfold items_wfg in H1. cbn [ret_wfg]. unfold nonnil in H1. rewrite H1, H2. reflexivity.
      + intro Hc. split; [exact I|exact Hc].
    - intro H. inversion H; subst. split; [|auto]. eapply St_weaken; [apply St_refl| |auto|reflexivity]. intros _ _ _. reflexivity.
  Qed.

  (** *** assignments *)
  Lemma parse_target_inv ts t r : parse_target d ts = Ok (t, r) ->
    St ts r (forallb np (target_toks t) = true -> target_wf d t = true) True (target_toks t) /\
    (exists h y, ts = h :: y /\ (forallb np (target_toks t) = true -> target_head t = h)).
  Proof.
    unfold parse_target.
    assert (Hn : bind (parse_name ts) (fun '(c, r) => Ok (TCol c, r)) = Ok (t, r) ->
                 St ts r (forallb np (target_toks t) = true -> target_wf d t = true) True (target_toks t) /\
                 (exists h y, ts = h :: y /\ (forallb np (target_toks t) = true -> target_head t = h))).
    { destruct (parse_name ts) as [[c r0]| | |] eqn:E; cbn [bind]; try discriminate. intro H. inversion H; subst t r0. clear H.
      apply parse_name_inv in E. pose proof (name_St _ _ _ E) as Hs. destruct E as (w & -> & Hw & ->). split.
      - eapply St_weaken; [exact Hs| |auto|reflexivity]. intros _ Hnp. cbn [target_toks forallb] in Hnp. rewrite andb_true_r in Hnp.
        cbn [target_wf]. apply plainword_ok; [exists w; auto|exact Hnp].
      - exists w, r. split; [reflexivity|]. intro Hnp. cbn [target_toks forallb] in Hnp. rewrite andb_true_r in Hnp.
        cbn [target_head]. apply np_plain_eq. exact Hnp. }
    destruct ts as [|[t0| | |] r0]; try exact Hn. destruct t0; try exact Hn. clear Hn.
    destruct (parse_names_paren d r0) as [[cs r1]| | |] eqn:E; cbn [bind]; try discriminate. intro H. inversion H; subst t r1. clear H.
    apply names_paren_inv in E. destruct E as [Hs Hg]. split.
    - eapply St_weaken; [exact (St_seq _ _ _ _ _ _ _ _ _ (St_tok (QE TLParen) r0) Hs)| |auto|reflexivity].
      intros _ Hnp. cbn [target_toks] in Hnp. unfold cols_toks in Hnp. cbn [forallb] in Hnp. apply andb_true_iff in Hnp. destruct Hnp as [_ Hnp].
      apply forallb_app_inv in Hnp. destruct Hnp as [Hnp _].
      assert (Hcs : forallb np cs = true).
      { apply np_sepc_inv in Hnp. apply forallb_forall. intros c Hin. rewrite Forall_forall in Hnp. specialize (Hnp c Hin). cbn [forallb] in Hnp.
        rewrite andb_true_r in Hnp. exact Hnp. }
      destruct (Hg Hcs) as [H1 H2]. cbn [target_wf]. rewrite H1, H2. reflexivity.
    - exists (QE TLParen), r0. split; reflexivity.
  Qed.

  Definition Wassign (a : assignment) : Prop :=
    aall canP tt2 a = true -> forallb np (assign_toks a) = true -> assign_wfg sf d a = true.
  Definition assign_rel (ts : list qtok) (a : assignment) (r : list qtok) : Prop :=
    St ts r (Wassign a) (aall nwe (ckT mode) a = true) (assign_toks a) /\
    (exists h y, ts = h :: y /\ (forallb np (assign_toks a) = true -> assign_head a = h)).

  Lemma parse_assignment_inv ts a r : parse_assignment d fuel ts = Ok (a, r) -> assign_rel ts a r.
  Proof.
    unfold parse_assignment. destruct (parse_target d ts) as [[t r0]| | |] eqn:Et; cbn [bind]; try discriminate.
    destruct r0 as [|e r1]; [discriminate|]. destruct (qtok_eqb e (QE (TOp K_Eq))) eqn:Ee; [|discriminate].
    apply qtok_eqb_eq in Ee. subst e.
    destruct (site_expr d fuel r1) as [[v r2]| | |] eqn:Ev; cbn [bind]; try discriminate. intro H. inversion H; subst a r2. clear H.
    apply parse_target_inv in Et. destruct Et as [Ts (h & y & -> & Th)]. apply site_expr_inv in Ev. split.
    - eapply St_weaken; [exact (St_seq _ _ _ _ _ _ _ _ _ (St_seq _ _ _ _ _ _ _ _ _ Ts (St_tok (QE (TOp K_Eq)) r1)) Ev)| | |].
      + intros [[Tw _] Vw] Hc Hn. cbn [aall] in Hc. cbn [assign_toks] in Hn. apply forallb_app_inv in Hn. destruct Hn as [Hn1 Hn2].
        cbn [forallb] in Hn2. apply andb_true_iff in Hn2. destruct Hn2 as [_ Hn2]. destruct (Vw Hc Hn2) as [V1 V2].
        cbn [assign_wfg]. rewrite (Tw Hn1), V1, V2. reflexivity.
      + cbn [aall]. intro Hc. split; [split; exact I|exact Hc].
      + cbn [assign_toks]. rewrite <- app_assoc. reflexivity.
    - exists h, y. split; [reflexivity|]. intro Hn. cbn [assign_toks] in Hn. apply forallb_app_inv in Hn. destruct Hn as [Hn1 _].
      cbn [assign_head]. apply Th. exact Hn1.
  Qed.

  Definition Wassigns (l : list assignment) : Prop :=
    forallb (aall canP tt2) l = true -> forallb np (sepc (map assign_toks l)) = true ->
    nonnil l = true /\ forallb (assign_wfg sf d) l = true /\ forallb (fun a => later_okm d (assign_head a)) (tl l) = true.

  Lemma assignments_inv g ts l r : comma_list (parse_assignment d fuel) (trail_m d) g ts = Ok (l, r) ->
    l <> [] /\ St ts r (Wassigns l) (forallb (aall nwe (ckT mode)) l = true) (sepc (map assign_toks l)).
  Proof.
    intro E. pose proof (comma_list_chain _ _ _ parse_assignment_inv _ _ _ _ E) as Hc. clear E.
    pose proof (chain_mono _ (fun ts a r => St ts r (Wassign a) ((fun a => aall nwe (ckT mode) a = true) a) (assign_toks a)) _ _ _ _
                  (fun _ _ _ H => proj1 H) Hc) as Hc'.
    apply chain_St in Hc'. destruct Hc' as [Hne Hs]. split; [exact Hne|]. eapply St_weaken; [exact Hs| | |reflexivity].
    - intros Hw Hcn Hn. split; [destruct l; [congruence|reflexivity]|]. apply np_sepc_inv in Hn. split.
      + apply forallb_forall. intros a Hin. rewrite Forall_forall in Hw, Hn. rewrite forallb_forall in Hcn. apply Hw; auto.
      + apply chain_later in Hc. apply forallb_forall. intros a Hin. rewrite Forall_forall in Hc, Hn.
        destruct (Hc a Hin) as (ts' & r' & [_ (h & y & -> & Hh)] & Hntr).
        rewrite Hh by (apply Hn; destruct l; [destruct Hin|right; exact Hin]). eapply ntr_okm. exact Hntr.
    - intro H. apply Forall_forall. rewrite forallb_forall in H. exact H.
  Qed.

  (** ** INSERT *)
  Definition nilb {A} (l : list A) : bool := match l with [] => true | _ => false end.

  (** the optional column list *)
  Lemma insert_cols_inv r2 cols r4 :
    match r2 with
    | QE TLParen :: r' =>
        match r' with
        | QE TRParen :: r'' => if ins_empty_cols d then Ok ([], r'') else parse_names_paren d r'
        | _ => parse_names_paren d r'
        end
    | _ => Ok ([], r2)
    end = Ok (cols, r4) ->
    St r2 r4 True True (ccols_toks cols) /\
    (forallb np cols = true -> ccols_wf q cols = true /\ nodkw cols = true) /\
    (nilb cols = true -> ins_empty_cols d = true \/ head_is (QE TLParen) r4 = false).
  Proof.
    assert (Hp : forall r', parse_names_paren d r' = Ok (cols, r4) ->
              St (QE TLParen :: r') r4 True True (ccols_toks cols) /\
              (forallb np cols = true -> ccols_wf q cols = true /\ nodkw cols = true) /\
              (nilb cols = true -> ins_empty_cols d = true \/ head_is (QE TLParen) r4 = false)).
    { intros r' E. pose proof (names_paren_inv _ _ _ E) as [Hs Hg].
      assert (Hne : cols <> []).
      { unfold parse_names_paren in E. destruct (comma_list parse_name (trail_m d) (fuel_of r') r') as [[l r1]| | |] eqn:E1; cbn [bind] in E; try discriminate E.
        destruct r1 as [|[[]| | |] ?]; try discriminate E. inversion E; subst. apply names_inv in E1. apply E1. }
      split; [|split].
      - eapply St_weaken; [exact (St_seq _ _ _ _ _ _ _ _ _ (St_tok (QE TLParen) r') Hs)|auto|auto|].
        destruct cols; [congruence|reflexivity].
      - intro Hn. destruct (Hg Hn) as [H1 H2]. split; [|exact H2]. unfold ccols_wf. destruct cols; [reflexivity|exact H1].
      - destruct cols; [congruence|discriminate]. }
    assert (Hnil : forall r0, Ok ([], r0) = Ok (cols, r4) -> (ins_empty_cols d = true \/ head_is (QE TLParen) r0 = false) ->
              forall ts0, St ts0 r0 True True [] ->
              St ts0 r4 True True (ccols_toks cols) /\
              (forallb np cols = true -> ccols_wf q cols = true /\ nodkw cols = true) /\
              (nilb cols = true -> ins_empty_cols d = true \/ head_is (QE TLParen) r4 = false)).
    { intros r0 E Hor ts0 Hs. inversion E; subst. split; [exact Hs|]. split; auto. }
    destruct r2 as [|[t0| | |] r']; try (intro E; apply (Hnil _ E); [right; reflexivity|apply St_refl]).
    destruct t0; try (intro E; apply (Hnil _ E); [right; reflexivity|apply St_refl]).
    destruct r' as [|[t1| | |] r'']; try apply Hp. destruct t1; try apply Hp.
    destruct (ins_empty_cols d) eqn:Ee; [|apply Hp].
    intro E. apply (Hnil _ E); [left; reflexivity|].
    eapply St_weaken; [exact (St_seq _ _ _ _ _ _ _ _ _ (St_skip (QE TLParen) _ eq_refl) (St_skip (QE TRParen) r'' eq_refl))|auto|auto|reflexivity].
  Qed.

  Definition Wmid (cols : list qtok) (source : option query) : Prop :=
    oqall canP tt2 source = true -> forallb np (ccols_toks cols ++ source_toks cols source) = true ->
    match source with
    | Some x => negb (ins_empty_cols d && nilb cols && head_is (QE TLParen) (qtoks x)) = true
    | None => True
    end ->
    ccols_wf q cols = true /\ nodkw cols = true /\
    match source with
    | None => nilb cols = true
    | Some x => qwfg sf q x = true /\ nodkw (qtoks x) = true /\
                negb ((nilb cols || ins_after_cols d) && head_is (QE TLParen) (qtoks x)) = true
    end.

  Lemma np_ccols cols : forallb np (ccols_toks cols) = true -> forallb np cols = true.
  Proof.
    destruct cols as [|c r]; [reflexivity|]. unfold ccols_toks, cols_toks. intro H. cbn [forallb] in H. apply andb_true_iff in H. destruct H as [_ H].
    apply forallb_app_inv in H. destruct H as [H _]. apply np_sepc_inv in H. apply forallb_forall. intros x Hin.
    rewrite Forall_forall in H. specialize (H x Hin). cbn [forallb] in H. rewrite andb_true_r in H. exact H.
  Qed.

  Lemma insert_mid_inv r2 dv r3 cols source r6 :
    opt_tok2 (kw DDefault) (QK KValues) r2 = (dv, r3) ->
    (if dv then Ok (([], None), r3)
     else bind (match r2 with
                | QE TLParen :: r' =>
                    match r' with
                    | QE TRParen :: r'' => if ins_empty_cols d then Ok ([], r'') else parse_names_paren d r'
                    | _ => parse_names_paren d r'
                    end
                | _ => Ok ([], r2)
                end) (fun '(cols, r4) =>
          if ins_after_cols d && fst (opt_tok (QE TLParen) r4) then OutOfFragment
          else if starts_dml r4 then OutOfFragment
          else bind (site_query d fuel r4) (fun '(s, r5) => Ok ((cols, Some s), r5)))) = Ok ((cols, source), r6) ->
    St r2 r6 (Wmid cols source) (oqall nwe (ckT mode) source = true) (ccols_toks cols ++ source_toks cols source).
  Proof.
    intro Eo. apply opt_tok2_spec in Eo. destruct Eo as [[-> ->]|[-> ->]].
    - intro H. inversion H; subst cols source r6. clear H. cbn [ccols_toks source_toks app].
      eapply St_weaken; [exact (St_seq _ _ _ _ _ _ _ _ _ (St_tok (kw DDefault) _) (St_tok (QK KValues) r3))| |auto|reflexivity].
      intros _ _ _ _. repeat split.
    - match goal with |- bind ?m _ = _ -> _ => destruct m as [[cols0 r4]| | |] eqn:Ec end; cbn [bind]; try discriminate.
      apply insert_cols_inv in Ec. destruct Ec as (Cs & Cw & Cn).
      destruct (ins_after_cols d && fst (opt_tok (QE TLParen) r4)) eqn:Ea; [discriminate|].
      destruct (starts_dml r4); [discriminate|].
      destruct (site_query d fuel r4) as [[x r5]| | |] eqn:Eq; cbn [bind]; try discriminate. intro H. inversion H; subst cols0 source r5. clear H.
      apply site_query_inv in Eq. destruct Eq as [Qs Qh]. cbn [source_toks].
      eapply St_weaken; [exact (St_seq _ _ _ _ _ _ _ _ _ Cs Qs)| | |reflexivity].
      + intros [_ Qw] Hc Hn Hres. cbn [oqall] in Hc. apply forallb_app_inv in Hn. destruct Hn as [Hn1 Hn2].
        destruct (Cw (np_ccols _ Hn1)) as [C1 C2]. destruct (Qw Hc Hn2) as [Q1 Q2].
        split; [exact C1|]. split; [exact C2|]. split; [exact Q1|]. split; [exact Q2|].
        apply negb_true_iff. destruct (head_is (QE TLParen) (qtoks x)) eqn:Eh; [|apply andb_false_r].
        rewrite andb_true_r. specialize (Qh Eh).
        assert (Hoa : fst (opt_tok (QE TLParen) r4) = true).
        { destruct r4 as [|t r4']; [discriminate Qh|]. cbn [head_is] in Qh. cbn [opt_tok]. rewrite Qh. reflexivity. }
        rewrite Hoa, andb_true_r in Ea. rewrite Ea, orb_false_r.
        destruct (nilb cols) eqn:En; [|reflexivity]. destruct (Cn eq_refl) as [He|He]; [|congruence].
        rewrite He in Hres. discriminate Hres.
      + cbn [oqall]. intro Hc. split; [exact I|exact Hc].
  Qed.

  Definition Wstmt (s : stmt) : Prop :=
    mall canP tt2 s = true -> forallb np (mtoks_raw s) = true -> mres d s = true -> mwfg sf d s = true.
  Definition Cstmt (s : stmt) : Prop := mall nwe (ckT mode) s = true.

  Lemma into_inv ts into r1 : opt_tok (kw DInto) ts = (into, r1) -> St ts r1 True True (into_toks into).
  Proof.
    intro E. apply opt_tok_spec in E. destruct E as [[-> ->]|(-> & -> & _)]; [apply St_tok|apply St_refl].
  Qed.

  Lemma parse_insert_inv ts s r : parse_insert_core d fuel ts = Ok (s, r) ->
    St (kw DInsert :: ts) r (Wstmt s) (Cstmt s) (mtoks_raw s).
  Proof.
    unfold parse_insert_core. destruct (opt_tok (kw DInto) ts) as [into r1] eqn:Ei.
    destruct (fst (opt_tok (QK KTable) r1)) eqn:Et; [discriminate|].
    destruct (parse_name r1) as [[name r2]| | |] eqn:En; cbn [bind]; try discriminate.
    destruct (ins_tab_alias d && fst (opt_tok (QK KAs) r2)); [discriminate|].
    destruct (opt_tok2 (kw DDefault) (QK KValues) r2) as [dv r3] eqn:Eo.
    match goal with |- bind ?m _ = _ -> _ => destruct m as [[[cols source] r6]| | |] eqn:Em end; cbn [bind]; try discriminate.
    destruct (ins_row_alias d && fst (opt_tok (QK KAs) r6)); [discriminate|].
    destruct (fst (opt_tok (QK KOn) r6)); [discriminate|].
    destruct (parse_returning d fuel r6) as [[ret r7]| | |] eqn:Er; cbn [bind]; try discriminate.
    intro H. inversion H; subst s r7. clear H.
    apply into_inv in Ei. apply parse_name_inv in En. pose proof (name_St _ _ _ En) as Ns.
    apply (insert_mid_inv _ _ _ _ _ _ Eo) in Em. apply parse_returning_inv in Er. destruct Er as [Rs Rn].
    eapply St_weaken;
      [exact (St_seq _ _ _ _ _ _ _ _ _ (St_seq _ _ _ _ _ _ _ _ _ (St_seq _ _ _ _ _ _ _ _ _ (St_seq _ _ _ _ _ _ _ _ _ (St_tok (kw DInsert) ts) Ei) Ns) Em) Rs)| | |].
    - intros [[_ Mw] Rw] Hc Hn Hres. unfold Wstmt. cbn [mall] in Hc. apply andb_true_iff in Hc. destruct Hc as [Hc1 Hc2].
      cbn [mtoks_raw forallb] in Hn. apply andb_true_iff in Hn. destruct Hn as [_ Hn]. apply forallb_app_inv in Hn. destruct Hn as [_ Hn].
      cbn [forallb] in Hn. apply andb_true_iff in Hn. destruct Hn as [Hname Hn]. rewrite app_assoc in Hn. apply forallb_app_inv in Hn.
      destruct Hn as [Hn1 Hn2]. destruct En as (w & -> & Hw & ->).
      assert (Hm : mname_ok (plain w) = true) by (apply plainword_ok; [exists w; auto|exact Hname]).
      destruct (np_plain_eq w Hname) as [Ew _]. rewrite Ew in *.
      assert (Htab : qtok_eqb w (QK KTable) = false).
      { cbn [opt_tok] in Et. destruct (qtok_eqb w (QK KTable)); [discriminate Et|reflexivity]. }
      cbn [mres] in Hres. cbn [mwfg]. rewrite Hm, Htab. cbn [negb andb].
      specialize (Rw Hc2 Hn2). rewrite Rw, andb_true_r.
      destruct source as [x|].
      + apply andb_true_iff in Hres. destruct Hres as [Hres1 Hres2].
        destruct (Mw Hc1 Hn1 Hres1) as (M1 & M2 & M3 & M4 & M5). rewrite M1, M2, M3, M4, Hres2. cbn [andb].
        unfold nilb in M5. rewrite M5. reflexivity.
      + destruct (Mw Hc1 Hn1 I) as (M1 & M2 & M3). rewrite M1, M2. unfold nilb in M3. rewrite M3. reflexivity.
    - unfold Cstmt. cbn [mall]. intro Hc. apply andb_true_iff in Hc. destruct Hc as [Hc1 Hc2]. repeat split; assumption.
    - cbn [mtoks_raw]. cbn [app]. rewrite <- !app_assoc. reflexivity.
  Qed.

  (** ** UPDATE *)
  Definition Wtwj (t : twj) : Prop := Wc (twj_wfg sf q) (twall canP tt2) twj_toks t.
  Lemma Wtwj_m t : Wtwj t -> twall canP tt2 t = true -> forallb np (twj_toks t) = true -> twjm_wfg sf d t = true.
  Proof. intros H Hc Hn. destruct (H Hc Hn) as [H1 H2]. unfold twjm_wfg. rewrite H1, H2. reflexivity. Qed.

  Definition Wofrom (from : option twj) : Prop :=
    otwall canP tt2 from = true -> forallb np (ofrom_toks from) = true ->
    match from with Some t => upd_from d = true /\ twjm_wfg sf d t = true | None => True end.

  Lemma update_from_inv r3 fr r4 from r6 :
    opt_tok (QE (TKw KFrom)) r3 = (fr, r4) ->
    (if fr && upd_from d then bind (site_twj d fuel r4) (fun '(t, r5) => Ok (Some t, r5)) else Ok (None, r4)) = Ok (from, r6) ->
    St r3 r6 (Wofrom from) (otwall nwe (ckT mode) from = true) (ofrom_toks from).
  Proof.
    intro Eo. apply opt_tok_spec in Eo. destruct Eo as [[-> ->]|(-> & -> & _)].
    - destruct (upd_from d) eqn:Eu; cbn [andb].
      + destruct (site_twj d fuel r4) as [[t r5]| | |] eqn:Et; cbn [bind]; try discriminate. intro H. inversion H; subst from r5. clear H.
        apply site_twj_inv in Et. eapply St_weaken; [exact (St_seq _ _ _ _ _ _ _ _ _ (St_tok (QE (TKw KFrom)) r4) Et)| | |reflexivity].
        * intros [_ Tw] Hc Hn. cbn [otwall] in Hc. cbn [ofrom_toks forallb] in Hn. apply andb_true_iff in Hn. destruct Hn as [_ Hn].
          split; [exact Eu|apply Wtwj_m; assumption].
        * cbn [otwall]. intro Hc. split; [exact I|exact Hc].
      + intro H. inversion H; subst from r6. clear H. eapply St_weaken; [apply (St_skip (QE (TKw KFrom)) r4 eq_refl)| |auto|reflexivity].
        intros _ _ _. exact I.
    - cbn [andb]. intro H. inversion H; subst from r6. clear H. eapply St_weaken; [apply St_refl| |auto|reflexivity]. intros _ _ _. exact I.
  Qed.

  Lemma parse_update_inv ts s r : parse_update_core d fuel ts = Ok (s, r) ->
    St (kw DUpdate :: ts) r (Wstmt s) (Cstmt s) (mtoks_raw s).
  Proof.
    unfold parse_update_core. destruct (site_twj d fuel ts) as [[table r1]| | |] eqn:Et; cbn [bind]; try discriminate.
    destruct (opt_tok (kw DSet) r1) as [st r2] eqn:Es. destruct st; cbn [negb]; [|discriminate].
    destruct (comma_list (parse_assignment d fuel) (trail_m d) (fuel_of r2) r2) as [[assigns r3]| | |] eqn:Ea; cbn [bind]; try discriminate.
    destruct (opt_tok (QE (TKw KFrom)) r3) as [fr r4] eqn:Ef.
    match goal with |- bind ?m _ = _ -> _ => destruct m as [[from r6]| | |] eqn:Em end; cbn [bind]; try discriminate.
    destruct (parse_where d fuel r6) as [[sel r7]| | |] eqn:Ew; cbn [bind]; try discriminate.
    destruct (parse_returning d fuel r7) as [[ret r8]| | |] eqn:Er; cbn [bind]; try discriminate.
    intro H. inversion H; subst s r8. clear H.
    apply site_twj_inv in Et. apply opt_tok_spec in Es. destruct Es as [[_ ->]|[Es _]]; [|discriminate Es].
    apply assignments_inv in Ea. destruct Ea as [Ane As]. apply (update_from_inv _ _ _ _ _ Ef) in Em.
    apply parse_where_inv in Ew. apply parse_returning_inv in Er. destruct Er as [Rs _].
    eapply St_weaken;
      [exact (St_seq _ _ _ _ _ _ _ _ _ (St_seq _ _ _ _ _ _ _ _ _ (St_seq _ _ _ _ _ _ _ _ _ (St_seq _ _ _ _ _ _ _ _ _
                (St_seq _ _ _ _ _ _ _ _ _ (St_seq _ _ _ _ _ _ _ _ _ (St_tok (kw DUpdate) ts) Et) (St_tok (kw DSet) r2)) As) Em) Ew) Rs)| | |].
    - intros [[[[[[_ Tw] _] Aw] Fw] Sw] Rw] Hc Hn Hres. cbn [mall] in Hc.
      apply andb_true_iff in Hc. destruct Hc as [Hc C5]. apply andb_true_iff in Hc. destruct Hc as [Hc C4].
      apply andb_true_iff in Hc. destruct Hc as [Hc C3]. apply andb_true_iff in Hc. destruct Hc as [C1 C2].
      cbn [mtoks_raw forallb] in Hn. apply andb_true_iff in Hn. destruct Hn as [_ Hn].
      apply forallb_app_inv in Hn. destruct Hn as [N1 Hn]. apply forallb_app_inv in Hn. destruct Hn as [N2 Hn].
      apply forallb_app_inv in Hn. destruct Hn as [N3 Hn]. apply forallb_app_inv in Hn. destruct Hn as [N4 N5].
      assert (N2' : forallb np (sepc (map assign_toks assigns)) = true).
      { destruct assigns; [congruence|]. cbn [set_toks forallb] in N2. apply andb_true_iff in N2. tauto. }
      cbn [mres] in Hres. apply andb_true_iff in Hres. destruct Hres as [R1 R2].
      cbn [mwfg]. rewrite (Wtwj_m _ Tw C1 N1), R1. destruct (Aw C2 N2') as (A1 & A2 & A3). unfold nonnil in A1. rewrite A1, A2, A3.
      rewrite (Sw C4 _ N4), (Rw C5 N5). cbn [andb]. rewrite andb_true_r.
      specialize (Fw C3 N3). destruct from as [t|]; [|reflexivity]. destruct Fw as [F1 F2]. rewrite F1, F2, R2. reflexivity.
    - unfold Cstmt. cbn [mall]. intro Hc.
      apply andb_true_iff in Hc. destruct Hc as [Hc C5]. apply andb_true_iff in Hc. destruct Hc as [Hc C4].
      apply andb_true_iff in Hc. destruct Hc as [Hc C3]. apply andb_true_iff in Hc. destruct Hc as [C1 C2]. repeat split; assumption.
    - cbn [mtoks_raw]. destruct assigns; [congruence|]. cbn [set_toks app]. rewrite <- !app_assoc. cbn [app]. reflexivity.
  Qed.

  (** ** DELETE *)
  Lemma nodkw_sepc_inv {A} (tk : A -> list qtok) l : nodkw (sepc (map tk l)) = true -> forallb (fun x => nodkw (tk x)) l = true.
  Proof.
    induction l as [|x l IH]; [reflexivity|]. destruct l as [|y l'].
    - cbn [map sepc forallb]. intros ->. reflexivity.
    - cbn [map]. rewrite sepc_cons, nodkw_app. intro H. apply andb_true_iff in H. destruct H as [H1 H2].
      unfold nodkw in H2. cbn [forallb] in H2. apply andb_true_iff in H2. destruct H2 as [_ H2].
      change (forallb (fun x => nodkw (tk x)) (x :: y :: l')) with (nodkw (tk x) && forallb (fun x => nodkw (tk x)) (y :: l')).
      rewrite H1. apply IH. exact H2.
  Qed.

  Definition Wtwjs (l : list twj) : Prop := Wc twjs_wfg (forallb (twall canP tt2)) (fun l => sepc (map twj_toks l)) l.
  Lemma Wtwjs_m l : Wtwjs l -> forallb (twall canP tt2) l = true -> forallb np (sepc (map twj_toks l)) = true ->
    twjs_wfgm sf d l = true.
  Proof.
    intros H Hc Hn. destruct (H Hc Hn) as [H1 H2]. unfold twjs_wfg in H1. apply andb_true_iff in H1. destruct H1 as [H1 H3].
    apply andb_true_iff in H1. destruct H1 as [H0 H1]. unfold twjs_wfgm. unfold nonnil in H0. rewrite H0, H3, andb_true_r. cbn [andb].
    apply nodkw_sepc_inv in H2. apply forallb_forall. intros t Hin. rewrite forallb_forall in H1, H2. unfold twjm_wfg.
    rewrite (H1 t Hin), (H2 t Hin). reflexivity.
  Qed.

  (** the optional table names and FROM *)
  Definition Wdhead (tables : list qtok) (fkw : bool) (r4 : list qtok) : Prop :=
    forallb np (tables_toks tables) = true ->
    match tables with
    | [] => fkw = true \/ (del_nofrom d = true /\ head_is (QE (TKw KFrom)) r4 = false)
    | t :: _ => fkw = true /\ del_nofrom d = false /\ names_wf d tables = true /\ qtok_eqb t (QE (TKw KFrom)) = false
    end.

  Lemma delete_head_inv ts fk r1 tables fkw r4 :
    opt_tok (QE (TKw KFrom)) ts = (fk, r1) ->
    (if fk then Ok (([], true), r1)
     else if del_nofrom d then Ok (([], false), ts)
     else bind (comma_list parse_name (trail_m d) (fuel_of ts) ts) (fun '(names, r2) =>
            let '(f2, r3) := opt_tok (QE (TKw KFrom)) r2 in
            if f2 then Ok ((names, true), r3) else Err)) = Ok ((tables, fkw), r4) ->
    St ts r4 (Wdhead tables fkw r4) True (tables_toks tables ++ fromkw_toks fkw).
  Proof.
    intro Eo. apply opt_tok_spec in Eo. destruct Eo as [[-> ->]|(-> & -> & Hh)].
    - intro H. inversion H; subst tables fkw r4. clear H. eapply St_weaken; [apply (St_tok (QE (TKw KFrom)) r1)| |auto|reflexivity].
      intros _ _. left. reflexivity.
    - destruct (del_nofrom d) eqn:Edn.
      + intro H. inversion H; subst tables fkw r4. clear H. eapply St_weaken; [apply St_refl| |auto|reflexivity].
        intros _ _. right. auto.
      + destruct (comma_list parse_name (trail_m d) (fuel_of ts) ts) as [[names r2]| | |] eqn:En; cbn [bind]; try discriminate.
        destruct (opt_tok (QE (TKw KFrom)) r2) as [f2 r3] eqn:E2. destruct f2; [|discriminate].
        intro H. inversion H; subst tables fkw r4. clear H. apply opt_tok_spec in E2. destruct E2 as [[_ ->]|[E2 _]]; [|discriminate E2].
        apply names_inv in En. destruct En as (Hne & Hs & Hp & Hl & (w & y & -> & Hhd)).
        eapply St_weaken; [exact (St_seq _ _ _ _ _ _ _ _ _ Hs (St_tok (QE (TKw KFrom)) r3))| |auto|].
        * intros _ Hn. destruct names as [|t l]; [congruence|]. cbn [tables_toks] in Hn.
          assert (Hn' : forallb np (t :: l) = true).
          { unfold names_toks in Hn. apply np_sepc_inv in Hn. apply forallb_forall. intros c Hin. rewrite Forall_forall in Hn.
            specialize (Hn c Hin). cbn [forallb] in Hn. rewrite andb_true_r in Hn. exact Hn. }
          destruct (names_good _ Hne Hp Hn' (Hl Hn')) as (G1 & _ & _). split; [reflexivity|]. split; [exact Edn|]. split.
          -- unfold names_wf. rewrite G1, (Hl Hn'). reflexivity.
          -- cbn [hd_error] in Hhd. inversion Hhd; subst t. cbn [forallb] in Hn'. apply andb_true_iff in Hn'. destruct Hn' as [Hw _].
             destruct (np_plain_eq w Hw) as [-> _]. exact Hh.
        * destruct names; [congruence|reflexivity].
  Qed.

  (** ORDER BY *)
  Definition Worders (ob : list oelem) : Prop :=
    forallb (oall canP tt2) ob = true -> forallb np (order_toks (map oelem_toks ob)) = true ->
    forallb (oelem_wfg sf q) ob = true /\ nodkw (sepc (map oelem_toks ob)) = true.

  Lemma delete_order_inv r10 o r11 ob r12 :
    opt_tok2 (QK KOrder) (QK KBy) r10 = (o, r11) ->
    (if o then site_orders d fuel r11 else Ok ([], r10)) = Ok (ob, r12) ->
    St r10 r12 (Worders ob) (forallb (oall nwe (ckT mode)) ob = true) (order_toks (map oelem_toks ob)).
  Proof.
    intro Eo. apply opt_tok2_spec in Eo. destruct Eo as [[-> ->]|[-> ->]].
    - intro E. apply site_orders_inv in E.
      eapply St_weaken; [exact (St_seq _ _ _ _ _ _ _ _ _ (St_seq _ _ _ _ _ _ _ _ _ (St_tok (QK KOrder) _) (St_tok (QK KBy) r11)) E)| | |].
      + intros [_ Ow] Hc Hn.
        assert (Hn' : forallb np (sepc (map oelem_toks ob)) = true).
        { destruct ob as [|o1 ob']; [reflexivity|]. cbn [map order_toks forallb] in Hn. cbn [map].
          apply andb_true_iff in Hn. destruct Hn as [_ Hn]. apply andb_true_iff in Hn. tauto. }
        destruct (Ow Hc Hn') as [O1 O2]. unfold orders_wfg in O1. apply andb_true_iff in O1. tauto.
      + intro Hc. split; [split; exact I|exact Hc].
      + destruct ob as [|o1 ob']; [cbn [map order_toks sepc app]; rewrite !KU_drop by reflexivity; reflexivity|]. cbn [map order_toks app]. reflexivity.
    - intro H. inversion H; subst ob r12. clear H. eapply St_weaken; [apply St_refl| |auto|reflexivity].
      intros _ _ _. split; reflexivity.
  Qed.

  (** LIMIT *)
  Lemma delete_limit_inv r12 l r13 lim r16 :
    opt_tok (QK KLimit) r12 = (l, r13) ->
    (if l then
       (let '(a, r14) := opt_tok (QE (TKw KAll)) r13 in
        if a then Ok (None, r14) else bind (site_expr d fuel r13) (fun '(e, r15) => Ok (Some e, r15)))
     else Ok (None, r12)) = Ok (lim, r16) ->
    St r12 r16 (Wsel lim) (oxall nwe (ckT mode) lim = true) (clause_toks (QK KLimit) (otoks lim)).
  Proof.
    intro Eo. apply opt_tok_spec in Eo. destruct Eo as [[-> ->]|(-> & -> & _)].
    - destruct (opt_tok (QE (TKw KAll)) r13) as [a r14] eqn:Ea. apply opt_tok_spec in Ea. destruct Ea as [[-> ->]|(-> & -> & _)].
      + intro H. inversion H; subst lim r16. clear H.
        eapply St_weaken; [exact (St_seq _ _ _ _ _ _ _ _ _ (St_skip (QK KLimit) _ eq_refl) (St_skip (QE (TKw KAll)) r14 eq_refl))| |auto|reflexivity].
        intros _. exact Wsel_none.
      + destruct (site_expr d fuel r13) as [[e r15]| | |] eqn:E; cbn [bind]; try discriminate. intro H. inversion H; subst lim r15. clear H.
        apply site_expr_inv in E. eapply St_weaken; [exact (St_seq _ _ _ _ _ _ _ _ _ (St_tok (QK KLimit) r13) E)| | |reflexivity].
        * intros [_ Hw]. apply Wsel_some. exact Hw.
        * intro Hc. split; [exact I|exact Hc].
    - intro H. inversion H; subst lim r16. clear H. eapply St_weaken; [apply St_refl|intros _; exact Wsel_none|auto|reflexivity].
  Qed.

  (** USING *)
  Definition Wusing (usg : option (list twj)) : Prop :=
    otwsall canP tt2 usg = true -> forallb np (using_toks usg) = true ->
    match usg with Some l => twjs_wfgm sf d l = true | None => True end.

  Lemma delete_using_inv r5 u r6 usg r8 :
    opt_tok (QK KUsing) r5 = (u, r6) ->
    (if u then bind (site_twjs d fuel r6) (fun '(l, r7) => Ok (Some l, r7)) else Ok (None, r5)) = Ok (usg, r8) ->
    St r5 r8 (Wusing usg) (otwsall nwe (ckT mode) usg = true) (using_toks usg).
  Proof.
    intro Eo. apply opt_tok_spec in Eo. destruct Eo as [[-> ->]|(-> & -> & _)].
    - destruct (site_twjs d fuel r6) as [[l r7]| | |] eqn:E; cbn [bind]; try discriminate. intro H. inversion H; subst usg r7. clear H.
      apply site_twjs_inv in E. destruct E as [E _].
      eapply St_weaken; [exact (St_seq _ _ _ _ _ _ _ _ _ (St_tok (QK KUsing) r6) E)| | |reflexivity].
      + intros [_ Hw] Hc Hn. cbn [otwsall] in Hc. cbn [using_toks forallb] in Hn. apply andb_true_iff in Hn. destruct Hn as [_ Hn].
        apply Wtwjs_m; assumption.
      + cbn [otwsall]. intro Hc. split; [exact I|exact Hc].
    - intro H. inversion H; subst usg r8. clear H. eapply St_weaken; [apply St_refl| |auto|reflexivity]. intros _ _ _. exact I.
  Qed.

  Definition Wdelete (tables : list qtok) (fkw : bool) (r4 : list qtok) (s : stmt) : Prop :=
    Wdhead tables fkw r4 -> Wstmt s.

  Lemma parse_delete_body_inv tables fkw r4 s r :
    parse_delete_body d fuel tables fkw r4 = Ok (s, r) ->
    exists from usg sel ret ob lim, s = SDelete tables fkw from usg sel ret ob lim /\
    St r4 r (forallb np (tables_toks tables) = true -> Wdhead tables fkw r4 -> Wstmt s) (Cstmt s)
       (sepc (map twj_toks from) ++ using_toks usg ++ clause_toks (QK KWhere) (otoks sel) ++ ret_toks ret ++
        order_toks (map oelem_toks ob) ++ clause_toks (QK KLimit) (otoks lim)) /\
    (using_ok q = true -> mres_using s = true).
  Proof.
    unfold parse_delete_body. destruct (site_twjs d fuel r4) as [[from r5]| | |] eqn:Ef; cbn [bind]; try discriminate.
    destruct (opt_tok (QK KUsing) r5) as [u r6] eqn:Eu.
    match goal with |- bind ?m _ = _ -> _ => destruct m as [[usg r8]| | |] eqn:Eus end; cbn [bind]; try discriminate.
    destruct (parse_where d fuel r8) as [[sel r9]| | |] eqn:Ew; cbn [bind]; try discriminate.
    destruct (parse_returning d fuel r9) as [[ret r10]| | |] eqn:Er; cbn [bind]; try discriminate.
    destruct (opt_tok2 (QK KOrder) (QK KBy) r10) as [o r11] eqn:Eo.
    match goal with |- bind ?m _ = _ -> _ => destruct m as [[ob r12]| | |] eqn:Eob end; cbn [bind]; try discriminate.
    destruct (opt_tok (QK KLimit) r12) as [l r13] eqn:El.
    match goal with |- bind ?m _ = _ -> _ => destruct m as [[lim r16]| | |] eqn:Elim end; cbn [bind]; try discriminate.
    intro H. inversion H; subst s r16. clear H. exists from, usg, sel, ret, ob, lim. split; [reflexivity|].
    apply site_twjs_inv in Ef. destruct Ef as [Fs [Fh Fu]]. split.
    2:{ intro Hu. cbn [mres_using]. destruct usg as [lu|]; [|reflexivity]. apply negb_true_iff.
        destruct (last_twj_bare from) eqn:Eb; [|reflexivity]. specialize (Fu Hu Eb).
        apply opt_tok_spec in Eu. destruct Eu as [[-> ->]|(-> & -> & _)]; [|discriminate Eus].
        cbn [head_is qtok_eqb qkw_beq] in Fu. discriminate Fu. }
    apply (delete_using_inv _ _ _ _ _ Eu) in Eus.
    apply parse_where_inv in Ew. apply parse_returning_inv in Er. destruct Er as [Rs _].
    apply (delete_order_inv _ _ _ _ _ Eo) in Eob. apply (delete_limit_inv _ _ _ _ _ El) in Elim.
    eapply St_weaken;
      [exact (St_seq _ _ _ _ _ _ _ _ _ (St_seq _ _ _ _ _ _ _ _ _ (St_seq _ _ _ _ _ _ _ _ _ (St_seq _ _ _ _ _ _ _ _ _
                (St_seq _ _ _ _ _ _ _ _ _ Fs Eus) Ew) Rs) Eob) Elim)| | |].
    - intros [[[[[Fw Uw] Sw] Rw] Ow] Lw] Hnt Hhead Hc Hn Hres. cbn [mall] in Hc.
      apply andb_true_iff in Hc. destruct Hc as [Hc C6]. apply andb_true_iff in Hc. destruct Hc as [Hc C5].
      apply andb_true_iff in Hc. destruct Hc as [Hc C4]. apply andb_true_iff in Hc. destruct Hc as [Hc C3].
      apply andb_true_iff in Hc. destruct Hc as [C1 C2].
      cbn [mtoks_raw forallb] in Hn. apply andb_true_iff in Hn. destruct Hn as [_ Hn].
      apply forallb_app_inv in Hn. destruct Hn as [_ Hn]. apply forallb_app_inv in Hn. destruct Hn as [_ Hn].
      apply forallb_app_inv in Hn. destruct Hn as [N1 Hn]. apply forallb_app_inv in Hn. destruct Hn as [N2 Hn].
      apply forallb_app_inv in Hn. destruct Hn as [N3 Hn]. apply forallb_app_inv in Hn. destruct Hn as [N4 Hn].
      apply forallb_app_inv in Hn. destruct Hn as [N5 N6].
      cbn [mres] in Hres. cbn [mwfg].
      rewrite (Wtwjs_m _ Fw C1 N1), (Sw C3 _ N3), (Rw C4 N4), (Lw C6 _ N6). destruct (Ow C5 N5) as [O1 O2]. rewrite O1, O2.
      rewrite !andb_true_r.
      assert (Hh : match tables with
                   | [] => fkw || (del_nofrom d && negb (head_is (QE (TKw KFrom)) (sepc (map twj_toks from))))
                   | t :: _ => fkw && negb (del_nofrom d) && names_wf d tables && negb (qtok_eqb t (QE (TKw KFrom)))
                   end = true).
      { specialize (Hhead Hnt). destruct tables as [|t tl].
        - destruct Hhead as [->|[H1 H2]]; [reflexivity|]. rewrite H1. cbn [andb].
          destruct (head_is (QE (TKw KFrom)) (sepc (map twj_toks from))) eqn:Eh; [|apply orb_true_r].
          specialize (Fh Eh). congruence.
        - destruct Hhead as (-> & -> & -> & ->). reflexivity. }
      rewrite Hh. cbn [andb]. specialize (Uw C2 N2). destruct usg as [lu|].
      + rewrite Uw. cbn [andb]. exact Hres.
      + exact Hres.
    - unfold Cstmt. cbn [mall]. intro Hc.
      apply andb_true_iff in Hc. destruct Hc as [Hc C6]. apply andb_true_iff in Hc. destruct Hc as [Hc C5].
      apply andb_true_iff in Hc. destruct Hc as [Hc C4]. apply andb_true_iff in Hc. destruct Hc as [Hc C3].
      apply andb_true_iff in Hc. destruct Hc as [C1 C2]. repeat split; assumption.
    - rewrite <- !app_assoc. reflexivity.
  Qed.

  Lemma parse_delete_inv ts s r : parse_delete_core d fuel ts = Ok (s, r) ->
    St (kw DDelete :: ts) r (Wstmt s) (Cstmt s) (mtoks_raw s) /\ (using_ok q = true -> mres_using s = true).
  Proof.
    unfold parse_delete_core. destruct (opt_tok (QE (TKw KFrom)) ts) as [fk r1] eqn:Eo.
    match goal with |- bind ?m _ = _ -> _ => destruct m as [[[tables fkw] r4]| | |] eqn:Eh end; cbn [bind]; try discriminate.
    intro H. apply (delete_head_inv _ _ _ _ _ _ Eo) in Eh. apply parse_delete_body_inv in H.
    destruct H as (from & usg & sel & ret & ob & lim & -> & Hb & Hu). split; [|exact Hu].
    eapply St_weaken; [exact (St_seq _ _ _ _ _ _ _ _ _ (St_seq _ _ _ _ _ _ _ _ _ (St_tok (kw DDelete) ts) Eh) Hb)| | |].
    - intros [[_ Hw] Hs] Hc Hn Hres. apply Hs; try assumption.
      cbn [mtoks_raw forallb] in Hn. apply andb_true_iff in Hn. destruct Hn as [_ Hn]. apply forallb_app_inv in Hn. tauto.
    - intro Hc. split; [split; exact I|exact Hc].
    - cbn [mtoks_raw app]. rewrite <- !app_assoc. reflexivity.
  Qed.

  (** ** The statement *)
  Theorem parse_dml_inv ts s r : parse_dml_core d fuel ts = Ok (s, r) ->
    St ts r (Wstmt s) (Cstmt s) (mtoks_raw s) /\ (using_ok q = true -> mres_using s = true).
  Proof.
    unfold parse_dml_core, parse_dml_step. destruct ts as [|t ts']; [discriminate|].
    destruct (qtok_eqb t (kw DInsert)) eqn:E1.
    { apply qtok_eqb_eq in E1; subst t. intro H. split; [apply parse_insert_inv; exact H|].
      unfold parse_insert_core in H. destruct (opt_tok (kw DInto) ts') as [into r1].
      destruct (fst (opt_tok (QK KTable) r1)); [discriminate H|].
      destruct (parse_name r1) as [[name r2]| | |]; cbn [bind] in H; try discriminate H.
      destruct (ins_tab_alias d && fst (opt_tok (QK KAs) r2)); [discriminate H|].
      destruct (opt_tok2 (kw DDefault) (QK KValues) r2) as [dv r3].
      match type of H with bind ?m _ = _ => destruct m as [[[cols source] r6]| | |] end; cbn [bind] in H; try discriminate H.
      destruct (ins_row_alias d && fst (opt_tok (QK KAs) r6)); [discriminate H|].
      destruct (fst (opt_tok (QK KOn) r6)); [discriminate H|].
      destruct (parse_returning d fuel r6) as [[ret r7]| | |]; cbn [bind] in H; try discriminate H. inversion H; subst. reflexivity. }
    destruct (qtok_eqb t (kw DUpdate)) eqn:E2.
    { apply qtok_eqb_eq in E2; subst t. intro H. split; [apply parse_update_inv; exact H|].
      unfold parse_update_core in H. destruct (site_twj d fuel ts') as [[table r1]| | |]; cbn [bind] in H; try discriminate H.
      destruct (opt_tok (kw DSet) r1) as [st r2]. destruct (negb st); [discriminate H|].
      destruct (comma_list (parse_assignment d fuel) (trail_m d) (fuel_of r2) r2) as [[assigns r3]| | |]; cbn [bind] in H; try discriminate H.
      destruct (opt_tok (QE (TKw KFrom)) r3) as [fr r4].
      match type of H with bind ?m _ = _ => destruct m as [[from r6]| | |] end; cbn [bind] in H; try discriminate H.
      destruct (parse_where d fuel r6) as [[sel r7]| | |]; cbn [bind] in H; try discriminate H.
      destruct (parse_returning d fuel r7) as [[ret r8]| | |]; cbn [bind] in H; try discriminate H. inversion H; subst. reflexivity. }
    destruct (qtok_eqb t (kw DDelete)) eqn:E3; [apply qtok_eqb_eq in E3; subst t; apply parse_delete_inv|discriminate].
  Qed.
End DmlInv.

(** * The theorems *)
Lemma mplain_np s : mplain s = false -> forallb np (mtoks_raw s) = true.
Proof.
  unfold mplain. intro H. apply forallb_forall. intros t Hin. unfold np. destruct (is_dplain t) eqn:E; [|reflexivity].
  assert (existsb is_dplain (mtoks_raw s) = true) by (apply existsb_exists; eauto). congruence.
Qed.
Lemma canon_HP d : forall e, canonical e = true -> canonical e = true /\ (negb false || frag_ok (base (qd d)) (yield e)) = true.
Proof. intros e He. split; [exact He|reflexivity]. Qed.
Lemma canonfrag_HP d : forall e, canonical e && frag_ok (base (qd d)) (yield e) = true ->
  canonical e = true /\ (negb true || frag_ok (base (qd d)) (yield e)) = true.
Proof. intros e He. apply andb_true_iff in He. destruct He as [H1 H2]. split; [exact H1|exact H2]. Qed.

(** 0. What is left of the input.  [site] hands a keyword it has demoted to a name on to the rest as the demoted
    word, so the statement is about the token lists with every demoted keyword restored ([map unplain]) *)
Theorem dml_suffix d fuel ts s rest :
  mdialect_ok d = true -> parse_dml_core d fuel ts = Ok (s, rest) -> exists pre, map unplain ts = pre ++ map unplain rest.
Proof.
  intros Hd H. apply (parse_dml_inv d Hd keep_none keep_none_lit false false canonical (canon_HP d)) in H. apply H.
Qed.

(** ... literally so when neither the input nor the rest contains a demoted keyword (word numbers [DPLAIN_BASE ..]
    are not tokens of any text) *)
Corollary dml_suffix_plain d fuel ts s rest :
  mdialect_ok d = true -> parse_dml_core d fuel ts = Ok (s, rest) ->
  forallb np ts = true -> forallb np rest = true -> exists pre, ts = pre ++ rest.
Proof.
  intros Hd H H1 H2. destruct (dml_suffix d fuel ts s rest Hd H) as (pre & E). exists pre.
  change (map unplain ts) with (U ts) in E. change (map unplain rest) with (U rest) in E. rewrite (U_np _ H1), (U_np _ H2) in E. exact E.
Qed.

(** 1. Outputs are well-formed: whatever the model parser returns for at most 10^6 tokens satisfies [mwfg false],
    i.e. [mwf] without the conservative test [frag_ok] on the expressions, provided its expressions are in canonical
    spelling, none of its names is a DML keyword ([mplain]: [mwf] asks for that) and the three conjuncts [mres] *)
Theorem dml_outputs_wf d fuel ts s rest :
  mdialect_ok d = true -> fits ts ->
  parse_dml_core d fuel ts = Ok (s, rest) ->
  mcanonical s = true -> mplain s = false -> mres d s = true -> mwfg false d s = true.
Proof.
  intros Hd Hf H Hc Hp Hr. apply (parse_dml_inv d Hd keep_none keep_none_lit false false canonical (canon_HP d)) in H.
  destruct H as [(_ & Hw & _) _]. apply (Hw Hf); [exact Hc|apply mplain_np; exact Hp|exact Hr].
Qed.

(** ... and all of [mwf], the hypothesis of [dml_roundtrip], when its expressions pass [frag_ok] *)
Theorem dml_outputs_mwf d fuel ts s rest :
  mdialect_ok d = true -> fits ts ->
  parse_dml_core d fuel ts = Ok (s, rest) ->
  mcanonfrag d s = true -> mplain s = false -> mres d s = true -> mwf d s = true.
Proof.
  intros Hd Hf H Hc Hp Hr. rewrite <- mwfg_true.
  apply (parse_dml_inv d Hd keep_none keep_none_lit false true (fun e => canonical e && frag_ok (base (qd d)) (yield e)) (canonfrag_HP d)) in H.
  destruct H as [(_ & Hw & _) _]. apply (Hw Hf); [exact Hc|apply mplain_np; exact Hp|exact Hr].
Qed.

(** 2. Token preservation (the model-level C05) *)
Section Content.
  Variable d : mdialect.
  Hypothesis Hd : mdialect_ok d = true.
  Variable keep : qtok -> bool.
  Hypothesis Hlit : forall t, keep t = true -> qlit t = true.

  Lemma KU_mtoks s : KU keep (mtoks_raw s) = filter keep (mtoks s).
  Proof. reflexivity. Qed.

  (** the content tokens of an accepted token list are, up to their order, those of the printed statement and of
      the rest (demoted keywords restored) *)
  Theorem dml_content fuel ts s rest :
    parse_dml_core d fuel ts = Ok (s, rest) -> mword_escape s = false ->
    Permutation (filter keep (map unplain ts)) (filter keep (mtoks s ++ map unplain rest)).
  Proof.
    intros H Hw. apply (parse_dml_inv d Hd keep Hlit false false canonical (canon_HP d)) in H. destruct H as [(_ & _ & Hk) _].
    rewrite filter_app. unfold mword_escape in Hw. apply negb_false_iff in Hw. exact (Hk Hw).
  Qed.

  (** ... in the same order, when no query of the statement has both LIMIT and OFFSET: the printers of the three
      statements write their clauses in the order the parsers read them *)
  Theorem dml_content_ordered fuel ts s rest :
    parse_dml_core d fuel ts = Ok (s, rest) -> mcontent_ordered s = true ->
    filter keep (map unplain ts) = filter keep (mtoks s ++ map unplain rest).
  Proof.
    intros H Hw. apply (parse_dml_inv d Hd keep Hlit true false canonical (canon_HP d)) in H. destruct H as [(_ & _ & Hk) _].
    rewrite filter_app. exact (Hk Hw).
  Qed.

  (** for inputs without word numbers of demoted keywords (every lexed text; [parse_dml_top] checks it) *)
  Corollary dml_content_plain fuel ts s rest :
    parse_dml_core d fuel ts = Ok (s, rest) -> mword_escape s = false ->
    forallb np ts = true -> forallb np rest = true ->
    Permutation (filter keep ts) (filter keep (mtoks s ++ rest)).
  Proof.
    intros H Hw H1 H2. pose proof (dml_content fuel ts s rest H Hw) as E.
    change (map unplain ts) with (U ts) in E. change (map unplain rest) with (U rest) in E. rewrite (U_np _ H1), (U_np _ H2) in E. exact E.
  Qed.
  Corollary dml_content_ordered_plain fuel ts s rest :
    parse_dml_core d fuel ts = Ok (s, rest) -> mcontent_ordered s = true ->
    forallb np ts = true -> forallb np rest = true ->
    filter keep ts = filter keep (mtoks s ++ rest).
  Proof.
    intros H Hw H1 H2. pose proof (dml_content_ordered fuel ts s rest H Hw) as E.
    change (map unplain ts) with (U ts) in E. change (map unplain rest) with (U rest) in E. rewrite (U_np _ H1), (U_np _ H2) in E. exact E.
  Qed.
End Content.

(** 3. Parse -> print -> parse is a fixpoint for accepted token lists (1 + [dml_roundtrip]).  The two syntactic
    fragment tests stay hypotheses: [frag_ok] on the expressions (in [mcanonfrag]) and [mfrag] on the printed tokens *)
Theorem dml_fixpoint d fuel ts s rest :
  mdialect_ok d = true -> fits ts ->
  parse_dml_core d fuel ts = Ok (s, rest) ->
  mcanonfrag d s = true -> mplain s = false -> mres d s = true ->
  mfrag d (mtoks s ++ rest) = true -> ender rest = true ->
  forall fuel', (mlevel s <= fuel')%nat -> parse_dml_core d fuel' (mtoks s ++ rest) = Ok (s, rest).
Proof.
  intros Hd Hf H Hc Hp Hr Hm He fuel' Hl. apply (dml_roundtrip d Hd); auto. eapply dml_outputs_mwf; eassumption.
Qed.

(** where RETURNING and SET are reserved and USING does not end a list ([mdialect_res]: every generated dialect)
    all of [mres] but the conjunct about [INSERT INTO t () (query in parentheses)] is a theorem *)
Theorem dml_outputs_res d fuel ts s rest :
  mdialect_ok d = true -> mdialect_res d = true ->
  parse_dml_core d fuel ts = Ok (s, rest) -> mres_ins d s = true -> mres d s = true.
Proof.
  intros Hd Hr H Hi. apply mres_res; [exact Hr| |exact Hi].
  apply (parse_dml_inv d Hd keep_none keep_none_lit false false canonical (canon_HP d)) in H. destruct H as [_ Hu]. apply Hu.
  unfold mdialect_res in Hr. apply andb_true_iff in Hr. tauto.
Qed.

Corollary dml_outputs_wf_res d fuel ts s rest :
  mdialect_ok d = true -> mdialect_res d = true -> fits ts ->
  parse_dml_core d fuel ts = Ok (s, rest) ->
  mcanonical s = true -> mplain s = false -> mres_ins d s = true -> mwfg false d s = true.
Proof. intros Hd Hr Hf H Hc Hp H0. eapply dml_outputs_wf; eauto. eapply dml_outputs_res; eassumption. Qed.

Corollary dml_outputs_mwf_res d fuel ts s rest :
  mdialect_ok d = true -> mdialect_res d = true -> fits ts ->
  parse_dml_core d fuel ts = Ok (s, rest) ->
  mcanonfrag d s = true -> mplain s = false -> mres_ins d s = true -> mwf d s = true.
Proof. intros Hd Hr Hf H Hc Hp H0. eapply dml_outputs_mwf; eauto. eapply dml_outputs_res; eassumption. Qed.

Corollary dml_fixpoint_res d fuel ts s rest :
  mdialect_ok d = true -> mdialect_res d = true -> fits ts ->
  parse_dml_core d fuel ts = Ok (s, rest) ->
  mcanonfrag d s = true -> mplain s = false -> mres_ins d s = true ->
  mfrag d (mtoks s ++ rest) = true -> ender rest = true ->
  forall fuel', (mlevel s <= fuel')%nat -> parse_dml_core d fuel' (mtoks s ++ rest) = Ok (s, rest).
Proof. intros Hd Hr Hf H Hc Hp H0. eapply dml_fixpoint; eauto. eapply dml_outputs_res; eassumption. Qed.

(** for a whole accepted input ([Parser::parse_statement] on a complete token list) *)
Lemma kw_places_np i ts : kw_places i ts = true -> forallb np ts = true.
Proof.
  revert i. induction ts as [|t r IH]; intros i H; [reflexivity|]. cbn [kw_places] in H. apply andb_true_iff in H. destruct H as [H1 H2].
  cbn [forallb]. rewrite (IH _ H2), andb_true_r.
  destruct (qtok_eqb t (kw DInsert) || qtok_eqb t (kw DUpdate) || qtok_eqb t (kw DDelete)) eqn:E1.
  - apply orb_true_iff in E1. destruct E1 as [E1|E1]; [apply orb_true_iff in E1; destruct E1 as [E1|E1]|]; apply qtok_eqb_eq in E1; subst t; reflexivity.
  - destruct (qtok_eqb t (kw DInto)) eqn:E2; [apply qtok_eqb_eq in E2; subst t; reflexivity|exact H1].
Qed.

Theorem dml_fixpoint_top d ts s :
  mdialect_ok d = true -> fits ts ->
  parse_dml_top d ts = Ok (s, []) ->
  mcanonfrag d s = true -> mplain s = false -> mres d s = true -> mfrag d (mtoks s) = true ->
  parse_dml_core d (mlevel s) (mtoks s ++ []) = Ok (s, []).
Proof.
  intros Hd Hf H Hc Hp Hr Hm. unfold parse_dml_top in H. destruct (existsb is_qother ts || negb (kw_places 0 ts)); [discriminate H|].
  eapply dml_fixpoint; try eassumption; [rewrite app_nil_r; exact Hm|reflexivity|apply le_n].
Qed.

(** the content of a whole accepted input is the content of the printed statement *)
Theorem dml_content_top d (Hd : mdialect_ok d = true) keep (Hlit : forall t, keep t = true -> qlit t = true) ts s :
  parse_dml_top d ts = Ok (s, []) -> mword_escape s = false -> Permutation (filter keep ts) (filter keep (mtoks s)).
Proof.
  unfold parse_dml_top. destruct (existsb is_qother ts || negb (kw_places 0 ts)) eqn:E; [discriminate|]. intros H Hw.
  apply orb_false_iff in E. destruct E as [_ E]. apply negb_false_iff in E. apply kw_places_np in E.
  pose proof (dml_content_plain d Hd keep Hlit _ ts s [] H Hw E eq_refl) as P. rewrite app_nil_r in P. exact P.
Qed.
Theorem dml_content_ordered_top d (Hd : mdialect_ok d = true) keep (Hlit : forall t, keep t = true -> qlit t = true) ts s :
  parse_dml_top d ts = Ok (s, []) -> mcontent_ordered s = true -> filter keep ts = filter keep (mtoks s).
Proof.
  unfold parse_dml_top. destruct (existsb is_qother ts || negb (kw_places 0 ts)) eqn:E; [discriminate|]. intros H Hw.
  apply orb_false_iff in E. destruct E as [_ E]. apply negb_false_iff in E. apply kw_places_np in E.
  pose proof (dml_content_ordered_plain d Hd keep Hlit _ ts s [] H Hw E eq_refl) as P. rewrite app_nil_r in P. exact P.
Qed.
