(** Proofs about the data type printer/parser model (DataTypeRT.v).
    1. [leaf_parse]: for every constructor of the table-driven families (nullary spellings, optional
       length with or without UNSIGNED, character length, exact number, time/timestamp with all four
       time-zone forms), under the decidable side condition [family_consistent] on the generated
       tables: parsing the printed tokens followed by anything in the Follow set returns the value.
    2. [nest_inv]: nesting to any depth of ARRAY<..> (with the [>>] trailing-bracket bookkeeping),
       square-bracket suffixes [..[]] / [..[n]] (also directly after a type closed by [>>]),
       Nullable(..) and LowCardinality(..) over those families: the invariant "a child that
       consumed [>>] reports it, skips its own suffix loop, and the parent skips its own [>]",
       on the *glued* token stream.
    3. corollaries: followed by a Follow token (cast, column definition), stand-alone.
    Nothing here mentions /repo data. *)
Require Import SqlV.Base SqlV.DataTypeRT.
From Coq Require Import Arith.

Lemma mem_str_In x l : mem_str x l = true <-> In x l.
Proof.
  induction l as [|y l IH]; cbn [mem_str In].
  - split; [discriminate|tauto].
  - rewrite orb_true_iff, IH, str_eqb_eq. split; intros [H|H]; auto.
Qed.

Lemma find_prow_spec l c r : find_prow l c = Some r -> In r l /\ p_ctor r = c.
Proof.
  induction l as [|x l IH]; cbn [find_prow]; [discriminate|].
  destruct (str_eqb (p_ctor x) c) eqn:E.
  - intro H; inversion H; subst. apply str_eqb_eq in E. split; [left; reflexivity|exact E].
  - intro H. destruct (IH H). split; [right|]; assumption.
Qed.

Lemma find_kw_In l kw r : find_kw l kw = Some r -> In r l /\ r_kw r = kw.
Proof.
  induction l as [|x l IH]; cbn [find_kw]; [discriminate|].
  destruct (str_eqb (r_kw x) kw) eqn:E.
  - intro H; inversion H; subst. apply str_eqb_eq in E. split; [left; reflexivity|exact E].
  - intro H. destruct (IH H). split; [right|]; assumption.
Qed.

Lemma find_kw_parow l kw r d :
  find_kw l kw = Some r -> r_gate r = None -> find_parow l d kw = Some r.
Proof.
  induction l as [|x l IH]; cbn [find_kw find_parow]; [discriminate|].
  destruct (str_eqb (r_kw x) kw) eqn:E; cbn [andb].
  - intros H Hg; inversion H; subst. rewrite Hg. reflexivity.
  - exact IH.
Qed.

Definition head_not_kw (k : str) (tl : list tok) : Prop :=
  match tl with t :: _ => is_kw k t = false | [] => True end.

Lemma take_kws_app ks ws rest tl :
  take_kws ks (words ws) = Some rest -> take_kws ks (words ws ++ tl) = Some (rest ++ tl).
Proof.
  revert ws. induction ks as [|k ks IH]; intros ws; cbn [take_kws].
  - intro H; inversion H; reflexivity.
  - destruct ws as [|w ws]; cbn [words map app]; [discriminate|].
    destruct (is_kw k (TWord w)); [apply IH|discriminate].
Qed.

Lemma take_kws_none_app ks ws tl :
  take_kws ks (words ws) = None -> (forall k, In k ks -> head_not_kw k tl) ->
  take_kws ks (words ws ++ tl) = None.
Proof.
  revert ws. induction ks as [|k ks IH]; intros ws; cbn [take_kws]; [discriminate|].
  intros H Hk. destruct ws as [|w ws]; cbn [words map app] in *.
  - destruct tl as [|t tl]; [reflexivity|].
    specialize (Hk k (or_introl eq_refl)). cbn [head_not_kw] in Hk. rewrite Hk. reflexivity.
  - destruct (is_kw k (TWord w)); [|reflexivity].
    apply IH; [exact H|]. intros k' Hin. apply Hk. right. exact Hin.
Qed.

Section Leaf.
  Variable T : tables.
  Variable d : str.

  Lemma select_run_alts alts ws a tl :
    select_alt alts ws = Some a ->
    (forall k, In k (flat_map a_kws alts) -> head_not_kw k tl) ->
    run_alts alts (words ws ++ tl) = run_leaf a tl.
  Proof.
    induction alts as [|a0 alts IH]; cbn [select_alt run_alts flat_map]; [discriminate|].
    intros H Hk. destruct (take_kws (a_kws a0) (words ws)) as [[|x xs]|] eqn:E.
    - inversion H; subst. rewrite (take_kws_app _ _ _ tl E). reflexivity.
    - discriminate.
    - rewrite (take_kws_none_app _ _ tl E).
      + apply IH; [exact H|]. intros k Hin. apply Hk. apply in_or_app. right. exact Hin.
      + intros k Hin. apply Hk. apply in_or_app. left. exact Hin.
  Qed.

  (** unfolding of the helper on a keyword whose row is regular *)
  Lemma main_alts fuel w r alts r_kw_ r_gate_ :
    find_parow (t_parse T) d (ascii_upper w) = Some {| r_kw := r_kw_; r_gate := r_gate_; r_kind := RAlts alts |} ->
    parse_main T d (S fuel) (TWord w :: r) = run_alts alts r.
  Proof. intro H. cbn [parse_main]. rewrite H. reflexivity. Qed.

  Lemma q_square_stop n t rest :
    match rest with TLBracket :: _ => False | _ => True end ->
    q_square d (S n) t rest = Some (t, rest).
  Proof. destruct rest as [|x rest]; cbn [q_square]; [reflexivity|]. destruct x; intro H; try reflexivity. contradiction. Qed.

  Lemma follow_head_kw rest k :
    follow_main T rest = true -> In k (absorb_kws T) -> head_not_kw k rest.
  Proof.
    destruct rest as [|t rest]; cbn [head_not_kw]; [trivial|].
    intros H Hin. destruct t; try reflexivity. cbn [follow_main] in H. cbn [is_kw].
    destruct (str_eqb (ascii_upper w) k) eqn:E; [|reflexivity].
    apply str_eqb_eq in E. subst k. apply mem_str_In in Hin. rewrite Hin in H. discriminate.
  Qed.

  Lemma follow_not_lparen rest : follow_main T rest = true -> match rest with TLParen :: _ => False | _ => True end.
  Proof. destruct rest as [|t rest]; [trivial|]. destruct t; trivial. discriminate. Qed.
  Lemma follow_ok_main rest : follow_ok T rest = true -> follow_main T rest = true.
  Proof. unfold follow_ok. intro H. apply andb_true_iff in H as [H _]. exact H. Qed.
  Lemma follow_not_lbracket rest : follow_ok T rest = true -> match rest with TLBracket :: _ => False | _ => True end.
  Proof.
    unfold follow_ok. intro H. apply andb_true_iff in H as [_ H].
    destruct rest as [|t rest]; [trivial|]. destruct t; trivial. discriminate.
  Qed.

  Lemma q_optparen_print n tl :
    optN_le n = true -> match tl with TLParen :: _ => False | _ => True end ->
    q_optparen (p_optparen n ++ tl) = Some (n, tl).
  Proof.
    destruct n as [n|]; cbn [optN_le p_optparen app q_optparen uint]; intros H Hl.
    - rewrite H. reflexivity.
    - destruct tl as [|x tl]; [reflexivity|]. destruct x; try reflexivity. contradiction.
  Qed.

  Lemma q_exact_print e tl :
    match e with ENone => true | EPrec p => p <=? u64_max | EPrecScale p s => (p <=? u64_max) && (s <=? u64_max) end = true ->
    match tl with TLParen :: _ => False | _ => True end ->
    q_exact (p_exact e ++ tl) = Some (e, tl).
  Proof.
    destruct e as [|p|p s]; cbn [p_exact app q_exact uint]; intros H Hl.
    - destruct tl as [|x tl]; [reflexivity|]. destruct x; try reflexivity. contradiction.
    - rewrite H. reflexivity.
    - apply andb_true_iff in H as [H1 H2]. rewrite H1. cbn [uint]. rewrite H2. reflexivity.
  Qed.

  Lemma is_kw_MAX : is_kw (s2l "MAX") (W "MAX") = true. Proof. reflexivity. Qed.
  Lemma is_kw_CHARS : is_kw (s2l "CHARACTERS") (W "CHARACTERS") = true. Proof. reflexivity. Qed.
  Lemma is_kw_CHARS_O : is_kw (s2l "CHARACTERS") (W "OCTETS") = false. Proof. reflexivity. Qed.
  Lemma is_kw_OCTETS : is_kw (s2l "OCTETS") (W "OCTETS") = true. Proof. reflexivity. Qed.

  Lemma q_charlen_print l tl :
    match l with Some (CLInt n _) => n <=? u64_max | _ => true end = true ->
    match tl with TLParen :: _ => False | _ => True end ->
    q_charlen (p_charlen l ++ tl) = Some (l, tl).
  Proof.
    destruct l as [[n [[|]|]|]|]; cbn [p_charlen app]; intros H Hl.
    - cbn [q_charlen]. change (is_kw (s2l "MAX") (TNum n)) with false. cbn iota. cbn [uint]. rewrite H.
      rewrite is_kw_CHARS. reflexivity.
    - cbn [q_charlen]. change (is_kw (s2l "MAX") (TNum n)) with false. cbn iota. cbn [uint]. rewrite H.
      rewrite is_kw_CHARS_O, is_kw_OCTETS. reflexivity.
    - cbn [q_charlen]. change (is_kw (s2l "MAX") (TNum n)) with false. cbn iota. cbn [uint]. rewrite H.
      reflexivity.
    - cbn [q_charlen]. rewrite is_kw_MAX. reflexivity.
    - destruct tl as [|x tl]; [reflexivity|]. destruct x; try reflexivity. contradiction.
  Qed.

  Hypothesis Hcons : family_consistent T = true.

  Lemma cons_rows : forall r, In r (t_print T) -> prow_ok T r = true.
  Proof.
    unfold family_consistent in Hcons. apply andb_true_iff in Hcons as [H _].
    apply andb_true_iff in H as [H _]. rewrite forallb_forall in H. exact H.
  Qed.

  Lemma cons_disjoint : forall k, In k family_kws -> ~ In k (all_alt_kws T).
  Proof.
    unfold family_consistent in Hcons. apply andb_true_iff in Hcons as [H _].
    apply andb_true_iff in H as [_ H]. unfold kws_disjoint in H. rewrite forallb_forall in H.
    intros k Hk Hin. specialize (H k Hk). apply negb_true_iff in H.
    apply mem_str_In in Hin. congruence.
  Qed.

  Lemma alt_kws_absorb row alts k :
    In row (t_parse T) -> r_kind row = RAlts alts -> In k (flat_map a_kws alts) -> In k (all_alt_kws T).
  Proof.
    intros Hin Hk Hi. unfold all_alt_kws. apply in_flat_map. exists row. split; [exact Hin|].
    rewrite Hk. exact Hi.
  Qed.

  (** what [prow_ok] gives for a Display row *)
  Lemma row_facts r :
    In r (t_print T) ->
    exists w0 ws row alts a,
      p_words r = w0 :: ws /\ find_kw (t_parse T) (ascii_upper w0) = Some row /\ r_gate row = None
      /\ r_kind row = RAlts alts /\ select_alt alts ws = Some a /\ fam_matches (p_ctor r) (p_fam r) a = true.
  Proof.
    intro Hin. pose proof (cons_rows r Hin) as H. unfold prow_ok in H.
    destruct (p_words r) as [|w0 ws]; [discriminate|].
    destruct (find_kw (t_parse T) (ascii_upper w0)) as [[kw g k]|] eqn:Ef; [|discriminate].
    destruct g; [discriminate|]. destruct k as [alts|]; [|discriminate].
    destruct (select_alt alts ws) as [a|] eqn:Es; [|discriminate].
    apply andb_true_iff in H as [H _].
    exists w0, ws, {| r_kw := kw; r_gate := None; r_kind := RAlts alts |}, alts, a.
    repeat split; auto.
  Qed.

  (** the common prefix of every table-driven family: the spelled words select the alternative *)
  Lemma leaf_dispatch r fuel tl :
    In r (t_print T) ->
    (forall k, In k (all_alt_kws T) -> head_not_kw k tl) ->
    exists a, fam_matches (p_ctor r) (p_fam r) a = true /\
      parse_main T d (S fuel) (words (p_words r) ++ tl) = run_leaf a tl.
  Proof.
    intros Hin Hk. destruct (row_facts r Hin) as (w0 & ws & row & alts & a & Hw & Hf & Hg & Hkd & Hs & Hm).
    exists a. split; [exact Hm|]. rewrite Hw. cbn [words map app].
    destruct (find_kw_In _ _ _ Hf) as [Hrow _].
    pose proof (find_kw_parow _ _ _ d Hf Hg) as Hp.
    destruct row as [kw g k]. cbn [r_gate r_kind] in *. subst g k.
    rewrite (main_alts fuel w0 _ alts kw None Hp).
    change (map TWord ws) with (words ws).
    rewrite (select_run_alts alts ws a tl Hs).
    - reflexivity.
    - intros k Hi. apply Hk. eapply alt_kws_absorb; [exact Hrow|reflexivity|exact Hi].
  Qed.

  Lemma absorb_alt k : In k (all_alt_kws T) -> In k (absorb_kws T).
  Proof. intro H. unfold absorb_kws. apply in_or_app. right. exact H. Qed.
  Lemma absorb_fam k : In k family_kws -> In k (absorb_kws T).
  Proof. intro H. unfold absorb_kws. apply in_or_app. left. exact H. Qed.

  Lemma follow_alt_kws rest : follow_main T rest = true -> forall k, In k (all_alt_kws T) -> head_not_kw k rest.
  Proof. intros H k Hk. apply follow_head_kw; [exact H|apply absorb_alt; exact Hk]. Qed.

  (** a family keyword at the head is not a continuation keyword of any row *)
  Lemma fam_kw_head (w : str) tl :
    In w family_kws -> ascii_upper w = w ->
    forall k, In k (all_alt_kws T) -> head_not_kw k (TWord w :: tl).
  Proof.
    intros Hf Hu k Hk. cbn [head_not_kw is_kw]. rewrite Hu.
    destruct (str_eqb w k) eqn:E; [|reflexivity]. apply str_eqb_eq in E. subst k.
    exfalso. exact (cons_disjoint w Hf Hk).
  Qed.

  Lemma in_fam_UNSIGNED : In (s2l "UNSIGNED") family_kws. Proof. cbn. auto. Qed.
  Lemma in_fam_WITH : In (s2l "WITH") family_kws. Proof. cbn. auto 10. Qed.
  Lemma in_fam_WITHOUT : In (s2l "WITHOUT") family_kws. Proof. cbn. auto 10. Qed.

  Lemma not_kw_follow k rest :
    follow_main T rest = true -> In k family_kws ->
    match rest with t :: _ => is_kw k t = false | [] => True end.
  Proof. intros H Hk. apply (follow_head_kw rest k H). apply absorb_fam. exact Hk. Qed.

  Lemma paren_head_not_kw n tl :
    (forall k, In k (all_alt_kws T) -> head_not_kw k tl) ->
    forall k, In k (all_alt_kws T) -> head_not_kw k (p_optparen n ++ tl).
  Proof. intros H k Hk. destruct n; cbn [p_optparen app]; [reflexivity|apply H; exact Hk]. Qed.

  Lemma q_tz_none rest : follow_main T rest = true -> q_tz rest = Some (TzNone, rest).
  Proof.
    intro H. destruct rest as [|t rest]; [reflexivity|]. cbn [q_tz].
    pose proof (not_kw_follow (s2l "WITH") _ H in_fam_WITH) as H1.
    pose proof (not_kw_follow (s2l "WITHOUT") _ H in_fam_WITHOUT) as H2.
    cbn iota in H1, H2. rewrite H1, H2. reflexivity.
  Qed.

  Lemma q_tz_with rest : q_tz (W "WITH" :: W "TIME" :: W "ZONE" :: rest) = Some (TzWith, rest).
  Proof. reflexivity. Qed.
  Lemma q_tz_without rest : q_tz (W "WITHOUT" :: W "TIME" :: W "ZONE" :: rest) = Some (TzWithout, rest).
  Proof. reflexivity. Qed.

  Theorem leaf_main t rest fuel :
    leaf_wf T t = true -> follow_main T rest = true ->
    parse_main T d (S fuel) (print_dt T t ++ rest) = POk t false rest.
  Proof.
    intros Hwf Hfol.
    pose proof (follow_not_lparen _ Hfol) as Hnl.
    destruct t; cbn [leaf_wf] in Hwf; try discriminate; cbn [print_dt].
    - (* nullary *)
      destruct (find_prow (t_print T) c) as [[c' f ws]|] eqn:Ef; [|discriminate].
      destruct f; try discriminate.
      destruct (find_prow_spec _ _ _ Ef) as [Hin Hc]. cbn [p_ctor] in Hc. subst c'.
      destruct (leaf_dispatch _ fuel rest Hin (follow_alt_kws rest Hfol)) as (a & Hm & Hp).
      cbn [p_words p_ctor p_fam] in *. rewrite Hp. unfold fam_matches in Hm. unfold run_leaf.
      destruct (a_fam a); try discriminate. apply str_eqb_eq in Hm. rewrite Hm. reflexivity.
    - (* optional length *)
      destruct (find_prow (t_print T) c) as [[c' f ws]|] eqn:Ef; [|discriminate].
      destruct f as [|u| | |]; try discriminate.
      destruct (find_prow_spec _ _ _ Ef) as [Hin Hc]. cbn [p_ctor] in Hc. subst c'.
      rewrite <- !app_assoc.
      destruct (leaf_dispatch _ fuel (p_optparen n ++ (if u then [W "UNSIGNED"] else []) ++ rest) Hin) as (a & Hm & Hp).
      { apply paren_head_not_kw. destruct u; cbn [app].
        - apply fam_kw_head; [apply in_fam_UNSIGNED|reflexivity].
        - apply follow_alt_kws; exact Hfol. }
      cbn [p_words p_ctor p_fam] in *. rewrite Hp. unfold fam_matches in Hm. unfold run_leaf.
      destruct u, (a_fam a) as [| |uc| | | | |]; try discriminate; apply str_eqb_eq in Hm.
      + (* unsigned *)
        cbn [app]. rewrite (q_optparen_print n (W "UNSIGNED" :: rest) Hwf I). cbn iota.
        change (is_kw (s2l "UNSIGNED") (W "UNSIGNED")) with true. cbn iota. subst uc. reflexivity.
      + cbn [app]. rewrite (q_optparen_print n _ Hwf Hnl). rewrite Hm. reflexivity.
      + cbn [app]. rewrite (q_optparen_print n _ Hwf Hnl). rewrite Hm.
        pose proof (not_kw_follow (s2l "UNSIGNED") _ Hfol in_fam_UNSIGNED) as Hu.
        destruct rest as [|x rest]; [reflexivity|]. cbn iota in Hu. rewrite Hu. reflexivity.
    - (* character length *)
      destruct (find_prow (t_print T) c) as [[c' f ws]|] eqn:Ef; [|discriminate].
      destruct f; try discriminate.
      destruct (find_prow_spec _ _ _ Ef) as [Hin Hc]. cbn [p_ctor] in Hc. subst c'.
      rewrite <- app_assoc.
      destruct (leaf_dispatch _ fuel (p_charlen l ++ rest) Hin) as (a & Hm & Hp).
      { intros k Hk. destruct l as [[n [[|]|]|]|]; cbn [p_charlen app]; try reflexivity.
        apply follow_alt_kws; assumption. }
      cbn [p_words p_ctor p_fam] in *. rewrite Hp. unfold fam_matches in Hm. unfold run_leaf.
      destruct (a_fam a); try discriminate. apply str_eqb_eq in Hm. rewrite Hm.
      rewrite (q_charlen_print l rest Hwf Hnl). reflexivity.
    - (* exact number *)
      destruct (find_prow (t_print T) c) as [[c' f ws]|] eqn:Ef; [|discriminate].
      destruct f; try discriminate.
      destruct (find_prow_spec _ _ _ Ef) as [Hin Hc]. cbn [p_ctor] in Hc. subst c'.
      rewrite <- app_assoc.
      destruct (leaf_dispatch _ fuel (p_exact e ++ rest) Hin) as (a & Hm & Hp).
      { intros k Hk. destruct e; cbn [p_exact app]; try reflexivity. apply follow_alt_kws; assumption. }
      cbn [p_words p_ctor p_fam] in *. rewrite Hp. unfold fam_matches in Hm. unfold run_leaf.
      destruct (a_fam a); try discriminate. apply str_eqb_eq in Hm. rewrite Hm.
      rewrite (q_exact_print e rest Hwf Hnl). reflexivity.
    - (* time *)
      destruct (find_prow (t_print T) c) as [[c' f ws]|] eqn:Ef; [|discriminate].
      destruct f; try discriminate.
      destruct (find_prow_spec _ _ _ Ef) as [Hin Hc]. cbn [p_ctor] in Hc. subst c'.
      destruct tz; cbn [p_time].
      + (* no zone *)
        rewrite <- app_assoc.
        destruct (leaf_dispatch _ fuel (p_optparen p ++ rest) Hin) as (a & Hm & Hp).
        { apply paren_head_not_kw. apply follow_alt_kws; exact Hfol. }
        cbn [p_words p_ctor p_fam] in *. rewrite Hp. unfold fam_matches in Hm. unfold run_leaf.
        destruct (a_fam a); try discriminate. apply str_eqb_eq in Hm. rewrite Hm.
        rewrite (q_optparen_print p rest Hwf Hnl). rewrite (q_tz_none rest Hfol). reflexivity.
      + rewrite <- !app_assoc.
        destruct (leaf_dispatch _ fuel (p_optparen p ++ [W "WITH"; W "TIME"; W "ZONE"] ++ rest) Hin) as (a & Hm & Hp).
        { apply paren_head_not_kw. apply fam_kw_head; [apply in_fam_WITH|reflexivity]. }
        cbn [p_words p_ctor p_fam] in *. rewrite Hp. unfold fam_matches in Hm. unfold run_leaf.
        destruct (a_fam a); try discriminate. apply str_eqb_eq in Hm. rewrite Hm.
        cbn [app]. rewrite (q_optparen_print p (W "WITH" :: W "TIME" :: W "ZONE" :: rest) Hwf I). rewrite q_tz_with. reflexivity.
      + rewrite <- !app_assoc.
        destruct (leaf_dispatch _ fuel (p_optparen p ++ [W "WITHOUT"; W "TIME"; W "ZONE"] ++ rest) Hin) as (a & Hm & Hp).
        { apply paren_head_not_kw. apply fam_kw_head; [apply in_fam_WITHOUT|reflexivity]. }
        cbn [p_words p_ctor p_fam] in *. rewrite Hp. unfold fam_matches in Hm. unfold run_leaf.
        destruct (a_fam a); try discriminate. apply str_eqb_eq in Hm. rewrite Hm.
        cbn [app]. rewrite (q_optparen_print p (W "WITHOUT" :: W "TIME" :: W "ZONE" :: rest) Hwf I). rewrite q_tz_without. reflexivity.
      + (* TZ spelling: its own keyword *)
        pose proof (cons_rows _ Hin) as Hok. unfold prow_ok in Hok. cbn [p_words p_fam p_ctor] in Hok.
        destruct ws as [|w0 ws]; [discriminate|].
        destruct (find_kw (t_parse T) (ascii_upper w0)) as [[kw g k]|]; [|discriminate].
        destruct g; [discriminate|]. destruct k as [alts|]; [|discriminate].
        apply andb_true_iff in Hok as [_ Hok].
        destruct ws; [|discriminate].
        destruct (find_kw (t_parse T) (ascii_upper (w0 ++ s2l "TZ"))) as [[kw2 g2 k2]|] eqn:Ef2; [|discriminate].
        destruct g2; [discriminate|]. destruct k2 as [alts2|]; [|discriminate].
        destruct alts2 as [|[ks2 c2 f2] tl2]; [discriminate|].
        destruct ks2; [|discriminate]. destruct f2; try discriminate. destruct tl2; [|discriminate].
        apply str_eqb_eq in Hok. subst c2.
        cbn [glue_tz words map app].
        pose proof (find_kw_parow _ _ _ d Ef2 eq_refl) as Hp2.
        rewrite (main_alts fuel _ _ _ kw2 None Hp2).
        cbn [run_alts a_kws take_kws]. unfold run_leaf. cbn [a_fam a_ctor].
        rewrite (q_optparen_print p rest Hwf Hnl). reflexivity.
  Qed.

  (** the whole helper: nothing for the suffix loop to take *)
  Theorem leaf_parse t rest fuel :
    leaf_wf T t = true -> follow_ok T rest = true ->
    parse_helper T d (S fuel) (print_dt T t ++ rest) = POk t false rest.
  Proof.
    intros Hwf Hfol. unfold parse_helper. rewrite (leaf_main t rest fuel Hwf (follow_ok_main _ Hfol)).
    cbn [wrap_square]. rewrite (q_square_stop _ _ rest (follow_not_lbracket _ Hfol)). reflexivity.
  Qed.
End Leaf.

(** ** Gluing of adjacent [>] *)
Definition not_gt (t : tok) : Prop := t <> TGt.
Definition head_not_gt (l : list tok) : Prop := match l with TGt :: _ => False | _ => True end.

Lemma glue_cons x r : x <> TGt -> glue (x :: r) = x :: glue r.
Proof. intro H. destruct x; try reflexivity. contradiction. Qed.

Lemma glue_nogt_app xs ys : Forall not_gt xs -> glue (xs ++ ys) = xs ++ glue ys.
Proof.
  induction 1 as [|x xs Hx _ IH]; [reflexivity|].
  cbn [app]. rewrite glue_cons by exact Hx. rewrite IH. reflexivity.
Qed.

Lemma glue_gt_other rest : head_not_gt rest -> glue (TGt :: rest) = TGt :: glue rest.
Proof. destruct rest as [|x rest]; [reflexivity|]. destruct x; try reflexivity. contradiction. Qed.

Lemma glue_repeat m : forall rest, head_not_gt rest -> glue (repeat TGt m ++ rest) = close m ++ glue rest.
Proof.
  induction m as [m IH] using (well_founded_induction lt_wf). intros rest H.
  destruct m as [|[|k]].
  - reflexivity.
  - cbn [repeat app close]. apply glue_gt_other. exact H.
  - cbn [repeat app close glue]. f_equal. apply IH; [lia|exact H].
Qed.

Lemma glue_head_other rest : head_not_gt rest -> match rest with [] => glue rest = [] | x :: r => exists r', glue rest = x :: r' end.
Proof. destruct rest as [|x r]; [reflexivity|]. intro H. destruct x; try (eexists; reflexivity). contradiction. Qed.

Definition no_gtb (l : list tok) : bool := forallb (fun t => negb (tok_eqb t TGt)) l.
Lemma no_gtb_Forall l : no_gtb l = true -> Forall not_gt l.
Proof.
  induction l as [|x l IH]; cbn [no_gtb forallb]; intro H; constructor.
  - apply andb_true_iff in H as [H _]. intro E; subst. discriminate.
  - apply IH. apply andb_true_iff in H as [_ H]. exact H.
Qed.
Lemma no_gtb_app a b : no_gtb (a ++ b) = no_gtb a && no_gtb b.
Proof. unfold no_gtb. apply forallb_app. Qed.
Lemma no_gtb_words ws : no_gtb (words ws) = true.
Proof. induction ws; [reflexivity|]. cbn. exact IHws. Qed.

Lemma leaf_no_gt T t : leaf_wf T t = true -> Forall not_gt (print_dt T t).
Proof.
  intro H. apply no_gtb_Forall.
  destruct t; cbn [leaf_wf] in H; try discriminate; cbn [print_dt];
    destruct (find_prow (t_print T) c) as [[c' f ws]|]; try discriminate; destruct f; try discriminate;
    rewrite ?no_gtb_app, ?no_gtb_words.
  - reflexivity.
  - destruct n, unsigned; reflexivity.
  - destruct l as [[n [[|]|]|]|]; reflexivity.
  - destruct e; reflexivity.
  - destruct tz; cbn [p_time]; rewrite ?no_gtb_app, ?no_gtb_words; destruct p; reflexivity.
Qed.

Lemma leaf_trail T t : leaf_wf T t = true -> trail t = 0%nat /\ depth t = 0%nat.
Proof. destruct t; cbn [leaf_wf]; try discriminate; auto. Qed.

(** ** Nesting: angle arrays with the [>>] bookkeeping, square-bracket suffixes,
    Nullable / LowCardinality wrappers *)
Ltac tagchain :=
  repeat match goal with
  | |- context [str_eqb (s2l ?a) (s2l ?b)] =>
      let v := eval vm_compute in (str_eqb (s2l a) (s2l b)) in
      change (str_eqb (s2l a) (s2l b)) with v
  end; cbn iota.

Section Nest.
  Variable T : tables.
  Variable d : str.
  Hypothesis Hcons : family_consistent T = true.

  Lemma irr_at_row kw tag :
    irr_at T d kw tag = true ->
    exists k g, find_parow (t_parse T) d kw = Some {| r_kw := k; r_gate := g; r_kind := RIrregular tag |}.
  Proof.
    unfold irr_at. destruct (find_parow (t_parse T) d kw) as [[k g [alts|t]]|]; try discriminate.
    intro H. apply str_eqb_eq in H. subst t. eauto.
  Qed.

  Definition top_of (r : pres) : pres := match r with POk t false r' => POk t false r' | _ => PErr end.

  Lemma main_nullable f r :
    irr_at T d (s2l "NULLABLE") (s2l "NULLABLE#0") = true ->
    parse_main T d (S f) (W "Nullable" :: TLParen :: r) =
      match top_of (parse_helper T d f r) with
      | POk t _ (TRParen :: r') => POk (DNullable t) false r'
      | _ => PErr end.
  Proof.
    intro H. destruct (irr_at_row _ _ H) as (k & g & Hf).
    cbn [parse_main W]. change (ascii_upper (s2l "Nullable")) with (s2l "NULLABLE"). rewrite Hf.
    tagchain. reflexivity.
  Qed.

  Lemma main_lowcard f r :
    irr_at T d (s2l "LOWCARDINALITY") (s2l "LOWCARDINALITY#0") = true ->
    parse_main T d (S f) (W "LowCardinality" :: TLParen :: r) =
      match top_of (parse_helper T d f r) with
      | POk t _ (TRParen :: r') => POk (DLowCard t) false r'
      | _ => PErr end.
  Proof.
    intro H. destruct (irr_at_row _ _ H) as (k & g & Hf).
    cbn [parse_main W]. change (ascii_upper (s2l "LowCardinality")) with (s2l "LOWCARDINALITY"). rewrite Hf.
    tagchain. reflexivity.
  Qed.

  Lemma main_angle f r :
    irr_at T d (s2l "ARRAY") (s2l "ARRAY#0") = true ->
    str_eqb d (s2l "snowflake") = false -> str_eqb d (s2l "clickhouse") = false ->
    parse_main T d (S f) (W "ARRAY" :: TLt :: r) =
      match parse_helper T d f r with
      | POk t tr r2 =>
          match q_close_angle tr r2 with
          | Some (tr', r3) => POk (DArrayAngle t) tr' r3
          | None => PErr end
      | PErr => PErr end.
  Proof.
    intros H Hs Hc. destruct (irr_at_row _ _ H) as (k & g & Hf).
    cbn [parse_main W]. change (ascii_upper (s2l "ARRAY")) with (s2l "ARRAY"). rewrite Hf.
    tagchain. rewrite Hs, Hc. reflexivity.
  Qed.

  (** a [[n]] suffix the dialect can parse back *)
  Definition size_ok (n : option N) : bool :=
    match n with None => true | Some k => (k <=? u64_max) && mem_str d square_size_dialects end.

  Inductive PF : dt -> Prop :=
  | PF_leaf t : leaf_wf T t = true -> PF t
  | PF_nullable u : irr_at T d (s2l "NULLABLE") (s2l "NULLABLE#0") = true -> PF u -> PF (DNullable u)
  | PF_lowcard u : irr_at T d (s2l "LOWCARDINALITY") (s2l "LOWCARDINALITY#0") = true -> PF u -> PF (DLowCard u)
  | PF_angle u : irr_at T d (s2l "ARRAY") (s2l "ARRAY#0") = true ->
                 str_eqb d (s2l "snowflake") = false -> str_eqb d (s2l "clickhouse") = false ->
                 PF u -> PF (DArrayAngle u)
  | PF_square u n : size_ok n = true -> PF u -> PF (DArraySquare u n).

  Definition flag (t : dt) (m : nat) : bool := Nat.odd (trail t) && negb (Nat.eqb m 0).

  (** suffixes [[n1]][n2]..] and the value they build *)
  Fixpoint sufx (l : list (option N)) : list tok :=
    match l with
    | [] => []
    | n :: r => TLBracket :: match n with None => [] | Some k => [TNum k] end ++ TRBracket :: sufx r
    end.
  Fixpoint wrapsq (t : dt) (l : list (option N)) : dt :=
    match l with [] => t | n :: r => wrapsq (DArraySquare t n) r end.

  Definition no_closer (rest : list tok) : Prop :=
    match rest with TGt :: _ | TShr :: _ => False | _ => True end.

  (** what may follow [m] pending closing brackets *)
  Definition cond_main (m : nat) (rest : list tok) : Prop :=
    no_closer rest /\ (m = 0%nat -> follow_main T rest = true).
  Definition cond_top (m : nat) (rest : list tok) : Prop :=
    no_closer rest /\ (m = 0%nat -> follow_ok T rest = true).

  Lemma no_closer_gt rest : no_closer rest -> head_not_gt rest.
  Proof. destruct rest as [|x r]; [trivial|]. intro H. destruct x; try exact I; contradiction. Qed.

  Lemma glue_keep_head rest : no_closer rest ->
    match rest with [] => glue rest = [] | x :: r => exists r', glue rest = x :: r' end.
  Proof. destruct rest as [|x r]; [reflexivity|]. intro H. destruct x; try (eexists; reflexivity). contradiction. Qed.

  Lemma follow_main_glue rest : no_closer rest -> follow_main T rest = true -> follow_main T (glue rest) = true.
  Proof.
    intros Hn H. pose proof (glue_keep_head rest Hn) as G. destruct rest as [|x r]; [reflexivity|].
    destruct G as [r' E]. rewrite E. destruct x; try exact H; try reflexivity.
  Qed.

  Lemma follow_main_close_glue m rest : cond_main m rest -> follow_main T (close m ++ glue rest) = true.
  Proof.
    intros [Hn Hf]. destruct m as [|[|k]]; cbn [close app]; [|reflexivity|reflexivity].
    apply follow_main_glue; [exact Hn|apply Hf; reflexivity].
  Qed.

  Lemma not_lbracket_glue rest :
    no_closer rest -> follow_ok T rest = true -> match glue rest with TLBracket :: _ => False | _ => True end.
  Proof.
    intros Hn H. pose proof (follow_not_lbracket T _ H) as Hb. pose proof (glue_keep_head rest Hn) as G.
    destruct rest as [|x r]; [exact I|]. destruct G as [r' E]. rewrite E. exact Hb.
  Qed.

  Lemma not_lbracket_close_glue m rest :
    cond_top m rest -> match close m ++ glue rest with TLBracket :: _ => False | _ => True end.
  Proof.
    intros [Hn Hf]. destruct m as [|[|k]]; cbn [close app]; [|exact I|exact I].
    apply not_lbracket_glue; [exact Hn|apply Hf; reflexivity].
  Qed.

  (** the suffix loop takes exactly the printed suffixes *)
  Lemma q_square_sufx l : forall t fuel tail,
    forallb size_ok l = true -> (length l < fuel)%nat ->
    match tail with TLBracket :: _ => False | _ => True end ->
    q_square d fuel t (sufx l ++ tail) = Some (wrapsq t l, tail).
  Proof.
    induction l as [|n l IH]; intros t fuel tail Hs Hf Ht; cbn [sufx app wrapsq].
    - destruct fuel as [|f]; [cbn in Hf; lia|]. apply q_square_stop. exact Ht.
    - destruct fuel as [|f]; [cbn in Hf; lia|]. cbn [forallb] in Hs. apply andb_true_iff in Hs as [Hn Hs].
      cbn [length] in Hf. cbn [q_square].
      destruct n as [k|]; cbn [size_ok] in Hn; cbn [app].
      + apply andb_true_iff in Hn as [Hk Hd]. rewrite Hd. cbn [uint]. rewrite Hk.
        apply IH; [exact Hs|lia|exact Ht].
      + destruct (mem_str d square_size_dialects); cbn [uint]; apply IH; try exact Hs; try lia; exact Ht.
  Qed.

  Lemma sufx_no_gt l : Forall not_gt (sufx l).
  Proof.
    induction l as [|n l IH]; cbn [sufx]; [constructor|].
    constructor; [discriminate|]. destruct n; cbn [app]; repeat (constructor; [discriminate|]); exact IH.
  Qed.

  Lemma sufx_length l : (length (sufx l) >= length l)%nat.
  Proof. induction l as [|n l IH]; cbn [sufx length]; [lia|]. rewrite app_length. cbn [length]. lia. Qed.

  (** statement for the keyword part (types that are not themselves a [..[]] suffix form) *)
  Definition main_inv (t : dt) : Prop :=
    forall fuel m rest, (depth t < fuel)%nat -> cond_main m rest ->
      parse_main T d fuel (glue (print_dt T t ++ repeat TGt m ++ rest)) =
        POk t (flag t m) (close (m - (if flag t m then 1 else 0)) ++ glue rest).

  (** statement for the whole helper, with any number of printed suffixes after the type *)
  Definition helper_inv (t : dt) : Prop :=
    forall fuel l m rest, (depth t < fuel)%nat -> forallb size_ok l = true -> cond_top m rest ->
      parse_helper T d fuel (glue (print_dt T t ++ sufx l ++ repeat TGt m ++ rest)) =
        POk (wrapsq t l) (match l with [] => flag t m | _ => false end)
            (close (m - (match l with [] => if flag t m then 1 else 0 | _ => 0 end)) ++ glue rest).

  Lemma cond_top_main m rest : cond_top m rest -> cond_main m rest.
  Proof. intros [H1 H2]. split; [exact H1|]. intro E. apply follow_ok_main. apply H2. exact E. Qed.

  Lemma helper_from_main t : main_inv t -> helper_inv t.
  Proof.
    intros HM fuel l m rest Hd Hs Hc. unfold parse_helper.
    destruct l as [|n l].
    - cbn [sufx app]. rewrite (HM fuel m rest Hd (cond_top_main _ _ Hc)). cbn [wrap_square wrapsq].
      destruct (flag t m); [reflexivity|]. rewrite Nat.sub_0_r.
      rewrite (q_square_stop d _ _ _ (not_lbracket_close_glue m rest Hc)). reflexivity.
    - pose proof (HM fuel 0%nat (sufx (n :: l) ++ repeat TGt m ++ rest) Hd) as H.
      cbn [repeat app] in H. rewrite H; clear H.
      2:{ split; [cbn [sufx app]; exact I|]. intros _. reflexivity. }
      unfold flag. rewrite Bool.andb_false_r. cbn [wrap_square close app Nat.sub].
      rewrite (glue_nogt_app _ _ (sufx_no_gt (n :: l))).
      destruct Hc as [Hn Hf].
      rewrite (glue_repeat m rest (no_closer_gt _ Hn)).
      rewrite (q_square_sufx (n :: l) t _ (close m ++ glue rest) Hs).
      + rewrite Nat.sub_0_r. reflexivity.
      + rewrite app_length. pose proof (sufx_length (n :: l)). lia.
      + apply not_lbracket_close_glue. split; assumption.
  Qed.

  Theorem nest_inv t : PF t -> helper_inv t.
  Proof.
    induction 1 as [t Hl | u Hi _ IH | u Hi _ IH | u Hi Hs Hc _ IH | u n Hn _ IH].
    - (* table-driven families *)
      apply helper_from_main. intros fuel m rest Hd [Hn Hf].
      destruct (leaf_trail T t Hl) as [Ht _]. unfold flag. rewrite Ht. cbn [Nat.odd andb]. rewrite Nat.sub_0_r.
      rewrite (glue_nogt_app _ _ (leaf_no_gt T t Hl)). rewrite (glue_repeat m rest (no_closer_gt _ Hn)).
      destruct fuel as [|f]; [lia|].
      apply (leaf_main T d Hcons); [exact Hl|apply follow_main_close_glue; split; assumption].
    - (* Nullable(u) *)
      apply helper_from_main. intros fuel m rest Hd [Hn Hf].
      destruct fuel as [|f]; [lia|]. cbn [depth] in Hd.
      unfold flag. cbn [trail Nat.odd andb]. rewrite Nat.sub_0_r.
      cbn [print_dt]. cbn [app]. rewrite <- app_assoc. cbn [app glue W].
      rewrite (main_nullable f _ Hi).
      pose proof (IH f [] 0%nat (TRParen :: repeat TGt m ++ rest)) as H. cbn [sufx repeat app] in H.
      rewrite H; [|lia|reflexivity|split; [exact I|reflexivity]].
      unfold flag. rewrite Bool.andb_false_r. cbn [wrapsq top_of close app Nat.sub glue].
      rewrite (glue_repeat m rest (no_closer_gt _ Hn)). reflexivity.
    - (* LowCardinality(u) *)
      apply helper_from_main. intros fuel m rest Hd [Hn Hf].
      destruct fuel as [|f]; [lia|]. cbn [depth] in Hd.
      unfold flag. cbn [trail Nat.odd andb]. rewrite Nat.sub_0_r.
      cbn [print_dt]. cbn [app]. rewrite <- app_assoc. cbn [app glue W].
      rewrite (main_lowcard f _ Hi).
      pose proof (IH f [] 0%nat (TRParen :: repeat TGt m ++ rest)) as H. cbn [sufx repeat app] in H.
      rewrite H; [|lia|reflexivity|split; [exact I|reflexivity]].
      unfold flag. rewrite Bool.andb_false_r. cbn [wrapsq top_of close app Nat.sub glue].
      rewrite (glue_repeat m rest (no_closer_gt _ Hn)). reflexivity.
    - (* ARRAY<u> *)
      apply helper_from_main. intros fuel m rest Hd [Hn Hf].
      destruct fuel as [|f]; [lia|]. cbn [depth] in Hd.
      cbn [print_dt]. cbn [app]. rewrite <- app_assoc. cbn [app glue W].
      rewrite (main_angle f _ Hi Hs Hc).
      pose proof (IH f [] (S m) rest) as H. cbn [sufx repeat app] in H.
      rewrite H; [|lia|reflexivity|split; [exact Hn|discriminate]].
      cbn [wrapsq]. unfold flag. cbn [trail]. rewrite Nat.odd_succ, <- Nat.negb_odd.
      destruct (Nat.odd (trail u)) eqn:Eo; cbn [negb andb Nat.eqb].
      + cbn [q_close_angle Nat.sub]. rewrite !Nat.sub_0_r. reflexivity.
      + destruct m as [|m']; cbn [Nat.eqb negb Nat.sub close app q_close_angle].
        * reflexivity.
        * rewrite Nat.sub_0_r. reflexivity.
    - (* u[n]: one more suffix for u *)
      intros fuel l m rest Hd Hs Hc. cbn [depth] in Hd.
      pose proof (IH fuel (n :: l) m rest) as H.
      cbn [print_dt]. rewrite <- app_assoc.
      replace ((TLBracket :: match n with Some n0 => [TNum n0] | None => [] end ++ [TRBracket]) ++ sufx l ++ repeat TGt m ++ rest)
        with (sufx (n :: l) ++ repeat TGt m ++ rest).
      2:{ cbn [sufx app]. destruct n; cbn [app]; reflexivity. }
      rewrite H; [|lia|cbn [forallb]; rewrite Hn, Hs; reflexivity|exact Hc].
      cbn [wrapsq]. destruct l; [|reflexivity].
      unfold flag. cbn [trail Nat.odd andb]. reflexivity.
  Qed.

  (** the fuel [parse_dt] uses is enough *)
  Lemma leaf_print_head t : leaf_wf T t = true -> exists w tl, print_dt T t = TWord w :: tl.
  Proof.
    intro H. destruct t; cbn [leaf_wf] in H; try discriminate; cbn [print_dt];
      destruct (find_prow (t_print T) c) as [[c' f ws]|] eqn:Ef; try discriminate; destruct f; try discriminate;
      destruct (find_prow_spec _ _ _ Ef) as [Hin _];
      destruct (row_facts T Hcons _ Hin) as (w0 & ws' & _ & _ & _ & Hw & _); cbn [p_words] in Hw; subst ws.
    - eexists; eexists; reflexivity.
    - eexists; eexists; reflexivity.
    - eexists; eexists; reflexivity.
    - eexists; eexists; reflexivity.
    - destruct tz; cbn [p_time words map app]; try (eexists; eexists; reflexivity).
      destruct ws'; cbn [glue_tz map app]; eexists; eexists; reflexivity.
  Qed.

  Lemma depth_lt_len t : PF t -> forall tl, (depth t < length (glue (print_dt T t ++ tl)))%nat.
  Proof.
    induction 1 as [t Hl | u Hi _ IH | u Hi _ IH | u Hi Hs Hc _ IH | u n Hn _ IH]; intro tl.
    - destruct (leaf_trail T t Hl) as [_ Hd]. rewrite Hd.
      destruct (leaf_print_head t Hl) as (w & tl' & E). rewrite E. cbn [app glue length]. lia.
    - cbn [print_dt depth]. cbn [app]. rewrite <- app_assoc. cbn [app glue W length]. specialize (IH (TRParen :: tl)). lia.
    - cbn [print_dt depth]. cbn [app]. rewrite <- app_assoc. cbn [app glue W length]. specialize (IH (TRParen :: tl)). lia.
    - cbn [print_dt depth]. cbn [app]. rewrite <- app_assoc. cbn [app glue W length]. specialize (IH (TGt :: tl)). lia.
    - cbn [print_dt depth]. rewrite <- app_assoc. apply IH.
  Qed.

  Lemma follow_top_cond rest : follow_top T rest = true -> cond_top 0 rest.
  Proof.
    unfold follow_top. intro H. apply andb_true_iff in H as [H1 H2]. split; [|intros _; exact H1].
    destruct rest as [|x r]; [exact I|]. destruct x; try exact I; discriminate.
  Qed.

  (** Printing and parsing back, followed by anything the type grammar cannot absorb. *)
  Theorem round_trip_follow t rest :
    PF t -> follow_top T rest = true ->
    parse_helper T d (S (length (glue (print_dt T t ++ rest)))) (glue (print_dt T t ++ rest)) = POk t false (glue rest).
  Proof.
    intros Hp Hf.
    pose proof (nest_inv t Hp (S (length (glue (print_dt T t ++ rest)))) [] 0%nat rest) as H.
    cbn [sufx repeat app wrapsq] in H. rewrite H; [|pose proof (depth_lt_len t Hp rest); lia|reflexivity|apply follow_top_cond; exact Hf].
    unfold flag. rewrite Bool.andb_false_r. reflexivity.
  Qed.

  (** Stand-alone: [Parser::parse_data_type] on the printed text returns the value and consumes everything. *)
  Corollary round_trip_standalone t : PF t -> parse_dt T d (glue (print_dt T t)) = POk t false [].
  Proof.
    intro Hp. pose proof (round_trip_follow t [] Hp eq_refl) as H. rewrite app_nil_r in H.
    unfold parse_dt. rewrite H. reflexivity.
  Qed.
End Nest.
