(** Proofs about the data type printer/parser model (DataTypeRT.v).
    1. [leaf_parse]: for every constructor of the table-driven families (nullary spellings, optional
       length with or without UNSIGNED, character length, exact number, time/timestamp with all four
       time-zone forms), under the decidable side condition [family_consistent] on the generated
       tables: parsing the printed tokens followed by anything in the Follow set returns the value.
    2. [nest_parse]: nesting to any depth of ARRAY<..> (with the [>>] trailing-bracket bookkeeping),
       Nullable(..) and LowCardinality(..) over those families: the invariant "a child that
       consumed [>>] reports it and the parent skips its own [>]", on the *glued* token stream.
    3. corollaries: followed by a Follow token (cast, column definition), stand-alone.
    Nothing here mentions /repo data. *)
Require Import SqlV.Base SqlV.DataTypeRT.
From Coq Require Import Arith.

Lemma mem_str_In x l : mem_str x l = true <-> In x l.
Proof.
  induction l as [|y l IH]; cbn [mem_str In].
  - split; [discriminate|tauto].
  - rewrite orb_true_iff, IH, str_eqb_eq. split; intros [H|H]; auto.
Qed.

Lemma find_prow_spec l c r : find_prow l c = Some r -> In r l /\ p_ctor r = c.
Proof.
  induction l as [|x l IH]; cbn [find_prow]; [discriminate|].
  destruct (str_eqb (p_ctor x) c) eqn:E.
  - intro H; inversion H; subst. apply str_eqb_eq in E. split; [left; reflexivity|exact E].
  - intro H. destruct (IH H). split; [right|]; assumption.
Qed.

Lemma find_kw_In l kw r : find_kw l kw = Some r -> In r l /\ r_kw r = kw.
Proof.
  induction l as [|x l IH]; cbn [find_kw]; [discriminate|].
  destruct (str_eqb (r_kw x) kw) eqn:E.
  - intro H; inversion H; subst. apply str_eqb_eq in E. split; [left; reflexivity|exact E].
  - intro H. destruct (IH H). split; [right|]; assumption.
Qed.

Lemma find_kw_parow l kw r d :
  find_kw l kw = Some r -> r_gate r = None -> find_parow l d kw = Some r.
Proof.
  induction l as [|x l IH]; cbn [find_kw find_parow]; [discriminate|].
  destruct (str_eqb (r_kw x) kw) eqn:E; cbn [andb].
  - intros H Hg; inversion H; subst. rewrite Hg. reflexivity.
  - exact IH.
Qed.

Definition head_not_kw (k : str) (tl : list tok) : Prop :=
  match tl with t :: _ => is_kw k t = false | [] => True end.

Lemma take_kws_app ks ws rest tl :
  take_kws ks (words ws) = Some rest -> take_kws ks (words ws ++ tl) = Some (rest ++ tl).
Proof.
  revert ws. induction ks as [|k ks IH]; intros ws; cbn [take_kws].
  - intro H; inversion H; reflexivity.
  - destruct ws as [|w ws]; cbn [words map app]; [discriminate|].
    destruct (is_kw k (TWord w)); [apply IH|discriminate].
Qed.

Lemma take_kws_none_app ks ws tl :
  take_kws ks (words ws) = None -> (forall k, In k ks -> head_not_kw k tl) ->
  take_kws ks (words ws ++ tl) = None.
Proof.
  revert ws. induction ks as [|k ks IH]; intros ws; cbn [take_kws]; [discriminate|].
  intros H Hk. destruct ws as [|w ws]; cbn [words map app] in *.
  - destruct tl as [|t tl]; [reflexivity|].
    specialize (Hk k (or_introl eq_refl)). cbn [head_not_kw] in Hk. rewrite Hk. reflexivity.
  - destruct (is_kw k (TWord w)); [|reflexivity].
    apply IH; [exact H|]. intros k' Hin. apply Hk. right. exact Hin.
Qed.

Section Leaf.
  Variable T : tables.
  Variable d : str.

  Lemma select_run_alts alts ws a tl :
    select_alt alts ws = Some a ->
    (forall k, In k (flat_map a_kws alts) -> head_not_kw k tl) ->
    run_alts alts (words ws ++ tl) = run_leaf a tl.
  Proof.
    induction alts as [|a0 alts IH]; cbn [select_alt run_alts flat_map]; [discriminate|].
    intros H Hk. destruct (take_kws (a_kws a0) (words ws)) as [[|x xs]|] eqn:E.
    - inversion H; subst. rewrite (take_kws_app _ _ _ tl E). reflexivity.
    - discriminate.
    - rewrite (take_kws_none_app _ _ tl E).
      + apply IH; [exact H|]. intros k Hin. apply Hk. apply in_or_app. right. exact Hin.
      + intros k Hin. apply Hk. apply in_or_app. left. exact Hin.
  Qed.

  (** unfolding of the helper on a keyword whose row is regular *)
  Lemma helper_alts fuel w r alts r_kw_ r_gate_ :
    find_parow (t_parse T) d (ascii_upper w) = Some {| r_kw := r_kw_; r_gate := r_gate_; r_kind := RAlts alts |} ->
    parse_helper T d (S fuel) (TWord w :: r) =
      match run_alts alts r with
      | POk t tr r' =>
          match q_square d (S (length r')) t r' with
          | Some (t', r'') => POk t' tr r''
          | None => PErr end
      | PErr => PErr end.
  Proof. intro H. cbn [parse_helper]. rewrite H. reflexivity. Qed.

  Lemma q_square_stop n t rest :
    match rest with TLBracket :: _ => False | _ => True end ->
    q_square d (S n) t rest = Some (t, rest).
  Proof. destruct rest as [|x rest]; cbn [q_square]; [reflexivity|]. destruct x; intro H; try reflexivity. contradiction. Qed.

  Lemma follow_head_kw rest k :
    follow_ok T rest = true -> In k (absorb_kws T) -> head_not_kw k rest.
  Proof.
    destruct rest as [|t rest]; cbn [head_not_kw]; [trivial|].
    intros H Hin. destruct t; try reflexivity. cbn [follow_ok] in H. cbn [is_kw].
    destruct (str_eqb (ascii_upper w) k) eqn:E; [|reflexivity].
    apply str_eqb_eq in E. subst k. apply mem_str_In in Hin. rewrite Hin in H. discriminate.
  Qed.

  Lemma follow_not_lparen rest : follow_ok T rest = true -> match rest with TLParen :: _ => False | _ => True end.
  Proof. destruct rest as [|t rest]; [trivial|]. destruct t; trivial. discriminate. Qed.
  Lemma follow_not_lbracket rest : follow_ok T rest = true -> match rest with TLBracket :: _ => False | _ => True end.
  Proof. destruct rest as [|t rest]; [trivial|]. destruct t; trivial. discriminate. Qed.

  Lemma q_optparen_print n tl :
    optN_le n = true -> match tl with TLParen :: _ => False | _ => True end ->
    q_optparen (p_optparen n ++ tl) = Some (n, tl).
  Proof.
    destruct n as [n|]; cbn [optN_le p_optparen app q_optparen uint]; intros H Hl.
    - rewrite H. reflexivity.
    - destruct tl as [|x tl]; [reflexivity|]. destruct x; try reflexivity. contradiction.
  Qed.

  Lemma q_exact_print e tl :
    match e with ENone => true | EPrec p => p <=? u64_max | EPrecScale p s => (p <=? u64_max) && (s <=? u64_max) end = true ->
    match tl with TLParen :: _ => False | _ => True end ->
    q_exact (p_exact e ++ tl) = Some (e, tl).
  Proof.
    destruct e as [|p|p s]; cbn [p_exact app q_exact uint]; intros H Hl.
    - destruct tl as [|x tl]; [reflexivity|]. destruct x; try reflexivity. contradiction.
    - rewrite H. reflexivity.
    - apply andb_true_iff in H as [H1 H2]. rewrite H1. cbn [uint]. rewrite H2. reflexivity.
  Qed.

  Lemma is_kw_MAX : is_kw (s2l "MAX") (W "MAX") = true. Proof. reflexivity. Qed.
  Lemma is_kw_CHARS : is_kw (s2l "CHARACTERS") (W "CHARACTERS") = true. Proof. reflexivity. Qed.
  Lemma is_kw_CHARS_O : is_kw (s2l "CHARACTERS") (W "OCTETS") = false. Proof. reflexivity. Qed.
  Lemma is_kw_OCTETS : is_kw (s2l "OCTETS") (W "OCTETS") = true. Proof. reflexivity. Qed.

  Lemma q_charlen_print l tl :
    match l with Some (CLInt n _) => n <=? u64_max | _ => true end = true ->
    match tl with TLParen :: _ => False | _ => True end ->
    q_charlen (p_charlen l ++ tl) = Some (l, tl).
  Proof.
    destruct l as [[n [[|]|]|]|]; cbn [p_charlen app]; intros H Hl.
    - cbn [q_charlen]. change (is_kw (s2l "MAX") (TNum n)) with false. cbn iota. cbn [uint]. rewrite H.
      rewrite is_kw_CHARS. reflexivity.
    - cbn [q_charlen]. change (is_kw (s2l "MAX") (TNum n)) with false. cbn iota. cbn [uint]. rewrite H.
      rewrite is_kw_CHARS_O, is_kw_OCTETS. reflexivity.
    - cbn [q_charlen]. change (is_kw (s2l "MAX") (TNum n)) with false. cbn iota. cbn [uint]. rewrite H.
      reflexivity.
    - cbn [q_charlen]. rewrite is_kw_MAX. reflexivity.
    - destruct tl as [|x tl]; [reflexivity|]. destruct x; try reflexivity. contradiction.
  Qed.

  Hypothesis Hcons : family_consistent T = true.

  Lemma cons_rows : forall r, In r (t_print T) -> prow_ok T r = true.
  Proof.
    unfold family_consistent in Hcons. apply andb_true_iff in Hcons as [H _].
    apply andb_true_iff in H as [H _]. rewrite forallb_forall in H. exact H.
  Qed.

  Lemma cons_disjoint : forall k, In k family_kws -> ~ In k (all_alt_kws T).
  Proof.
    unfold family_consistent in Hcons. apply andb_true_iff in Hcons as [H _].
    apply andb_true_iff in H as [_ H]. unfold kws_disjoint in H. rewrite forallb_forall in H.
    intros k Hk Hin. specialize (H k Hk). apply negb_true_iff in H.
    apply mem_str_In in Hin. congruence.
  Qed.

  Lemma alt_kws_absorb row alts k :
    In row (t_parse T) -> r_kind row = RAlts alts -> In k (flat_map a_kws alts) -> In k (all_alt_kws T).
  Proof.
    intros Hin Hk Hi. unfold all_alt_kws. apply in_flat_map. exists row. split; [exact Hin|].
    rewrite Hk. exact Hi.
  Qed.

  (** what [prow_ok] gives for a Display row *)
  Lemma row_facts r :
    In r (t_print T) ->
    exists w0 ws row alts a,
      p_words r = w0 :: ws /\ find_kw (t_parse T) (ascii_upper w0) = Some row /\ r_gate row = None
      /\ r_kind row = RAlts alts /\ select_alt alts ws = Some a /\ fam_matches (p_ctor r) (p_fam r) a = true.
  Proof.
    intro Hin. pose proof (cons_rows r Hin) as H. unfold prow_ok in H.
    destruct (p_words r) as [|w0 ws]; [discriminate|].
    destruct (find_kw (t_parse T) (ascii_upper w0)) as [[kw g k]|] eqn:Ef; [|discriminate].
    destruct g; [discriminate|]. destruct k as [alts|]; [|discriminate].
    destruct (select_alt alts ws) as [a|] eqn:Es; [|discriminate].
    apply andb_true_iff in H as [H _].
    exists w0, ws, {| r_kw := kw; r_gate := None; r_kind := RAlts alts |}, alts, a.
    repeat split; auto.
  Qed.

  (** the common prefix of every table-driven family: the spelled words select the alternative *)
  Lemma leaf_dispatch r fuel tl :
    In r (t_print T) ->
    (forall k, In k (all_alt_kws T) -> head_not_kw k tl) ->
    exists a, fam_matches (p_ctor r) (p_fam r) a = true /\
      parse_helper T d (S fuel) (words (p_words r) ++ tl) =
        match run_leaf a tl with
        | POk t tr r' =>
            match q_square d (S (length r')) t r' with
            | Some (t', r'') => POk t' tr r''
            | None => PErr end
        | PErr => PErr end.
  Proof.
    intros Hin Hk. destruct (row_facts r Hin) as (w0 & ws & row & alts & a & Hw & Hf & Hg & Hkd & Hs & Hm).
    exists a. split; [exact Hm|]. rewrite Hw. cbn [words map app].
    destruct (find_kw_In _ _ _ Hf) as [Hrow _].
    pose proof (find_kw_parow _ _ _ d Hf Hg) as Hp.
    destruct row as [kw g k]. cbn [r_gate r_kind] in *. subst g k.
    rewrite (helper_alts fuel w0 _ alts kw None Hp).
    change (map TWord ws) with (words ws).
    rewrite (select_run_alts alts ws a tl Hs).
    - reflexivity.
    - intros k Hi. apply Hk. eapply alt_kws_absorb; [exact Hrow|reflexivity|exact Hi].
  Qed.

  Lemma absorb_alt k : In k (all_alt_kws T) -> In k (absorb_kws T).
  Proof. intro H. unfold absorb_kws. apply in_or_app. right. exact H. Qed.
  Lemma absorb_fam k : In k family_kws -> In k (absorb_kws T).
  Proof. intro H. unfold absorb_kws. apply in_or_app. left. exact H. Qed.

  Lemma follow_alt_kws rest : follow_ok T rest = true -> forall k, In k (all_alt_kws T) -> head_not_kw k rest.
  Proof. intros H k Hk. apply follow_head_kw; [exact H|apply absorb_alt; exact Hk]. Qed.

  (** a family keyword at the head is not a continuation keyword of any row *)
  Lemma fam_kw_head (w : str) tl :
    In w family_kws -> ascii_upper w = w ->
    forall k, In k (all_alt_kws T) -> head_not_kw k (TWord w :: tl).
  Proof.
    intros Hf Hu k Hk. cbn [head_not_kw is_kw]. rewrite Hu.
    destruct (str_eqb w k) eqn:E; [|reflexivity]. apply str_eqb_eq in E. subst k.
    exfalso. exact (cons_disjoint w Hf Hk).
  Qed.

  Lemma in_fam_UNSIGNED : In (s2l "UNSIGNED") family_kws. Proof. cbn. auto. Qed.
  Lemma in_fam_WITH : In (s2l "WITH") family_kws. Proof. cbn. auto 10. Qed.
  Lemma in_fam_WITHOUT : In (s2l "WITHOUT") family_kws. Proof. cbn. auto 10. Qed.

  Lemma not_kw_follow k rest :
    follow_ok T rest = true -> In k family_kws ->
    match rest with t :: _ => is_kw k t = false | [] => True end.
  Proof. intros H Hk. apply (follow_head_kw rest k H). apply absorb_fam. exact Hk. Qed.

  Lemma paren_head_not_kw n tl :
    (forall k, In k (all_alt_kws T) -> head_not_kw k tl) ->
    forall k, In k (all_alt_kws T) -> head_not_kw k (p_optparen n ++ tl).
  Proof. intros H k Hk. destruct n; cbn [p_optparen app]; [reflexivity|apply H; exact Hk]. Qed.

  Lemma q_tz_none rest : follow_ok T rest = true -> q_tz rest = Some (TzNone, rest).
  Proof.
    intro H. destruct rest as [|t rest]; [reflexivity|]. cbn [q_tz].
    pose proof (not_kw_follow (s2l "WITH") _ H in_fam_WITH) as H1.
    pose proof (not_kw_follow (s2l "WITHOUT") _ H in_fam_WITHOUT) as H2.
    cbn iota in H1, H2. rewrite H1, H2. reflexivity.
  Qed.

  Lemma q_tz_with rest : q_tz (W "WITH" :: W "TIME" :: W "ZONE" :: rest) = Some (TzWith, rest).
  Proof. reflexivity. Qed.
  Lemma q_tz_without rest : q_tz (W "WITHOUT" :: W "TIME" :: W "ZONE" :: rest) = Some (TzWithout, rest).
  Proof. reflexivity. Qed.

  Theorem leaf_parse t rest fuel :
    leaf_wf T t = true -> follow_ok T rest = true ->
    parse_helper T d (S fuel) (print_dt T t ++ rest) = POk t false rest.
  Proof.
    intros Hwf Hfol.
    pose proof (follow_not_lparen _ Hfol) as Hnl.
    pose proof (follow_not_lbracket _ Hfol) as Hnb.
    destruct t; cbn [leaf_wf] in Hwf; try discriminate; cbn [print_dt].
    - (* nullary *)
      destruct (find_prow (t_print T) c) as [[c' f ws]|] eqn:Ef; [|discriminate].
      destruct f; try discriminate.
      destruct (find_prow_spec _ _ _ Ef) as [Hin Hc]. cbn [p_ctor] in Hc. subst c'.
      destruct (leaf_dispatch _ fuel rest Hin (follow_alt_kws rest Hfol)) as (a & Hm & Hp).
      cbn [p_words p_ctor p_fam] in *. rewrite Hp. unfold fam_matches in Hm. unfold run_leaf.
      destruct (a_fam a); try discriminate. apply str_eqb_eq in Hm. rewrite Hm.
      rewrite (q_square_stop _ _ rest Hnb). reflexivity.
    - (* optional length *)
      destruct (find_prow (t_print T) c) as [[c' f ws]|] eqn:Ef; [|discriminate].
      destruct f as [|u| | |]; try discriminate.
      destruct (find_prow_spec _ _ _ Ef) as [Hin Hc]. cbn [p_ctor] in Hc. subst c'.
      rewrite <- !app_assoc.
      destruct (leaf_dispatch _ fuel (p_optparen n ++ (if u then [W "UNSIGNED"] else []) ++ rest) Hin) as (a & Hm & Hp).
      { apply paren_head_not_kw. destruct u; cbn [app].
        - apply fam_kw_head; [apply in_fam_UNSIGNED|reflexivity].
        - apply follow_alt_kws; exact Hfol. }
      cbn [p_words p_ctor p_fam] in *. rewrite Hp. unfold fam_matches in Hm. unfold run_leaf.
      destruct u, (a_fam a) as [| |uc| | | | |]; try discriminate; apply str_eqb_eq in Hm.
      + (* unsigned *)
        cbn [app]. rewrite (q_optparen_print n (W "UNSIGNED" :: rest) Hwf I). cbn iota.
        change (is_kw (s2l "UNSIGNED") (W "UNSIGNED")) with true. cbn iota. subst uc.
        rewrite (q_square_stop _ _ rest Hnb). reflexivity.
      + cbn [app]. rewrite (q_optparen_print n _ Hwf Hnl). rewrite Hm.
        rewrite (q_square_stop _ _ rest Hnb). reflexivity.
      + cbn [app]. rewrite (q_optparen_print n _ Hwf Hnl). rewrite Hm.
        pose proof (not_kw_follow (s2l "UNSIGNED") _ Hfol in_fam_UNSIGNED) as Hu.
        destruct rest as [|x rest]; [reflexivity|]. cbn iota in Hu. rewrite Hu.
        rewrite (q_square_stop _ _ (x :: rest) Hnb). reflexivity.
    - (* character length *)
      destruct (find_prow (t_print T) c) as [[c' f ws]|] eqn:Ef; [|discriminate].
      destruct f; try discriminate.
      destruct (find_prow_spec _ _ _ Ef) as [Hin Hc]. cbn [p_ctor] in Hc. subst c'.
      rewrite <- app_assoc.
      destruct (leaf_dispatch _ fuel (p_charlen l ++ rest) Hin) as (a & Hm & Hp).
      { intros k Hk. destruct l as [[n [[|]|]|]|]; cbn [p_charlen app]; try reflexivity.
        apply follow_alt_kws; assumption. }
      cbn [p_words p_ctor p_fam] in *. rewrite Hp. unfold fam_matches in Hm. unfold run_leaf.
      destruct (a_fam a); try discriminate. apply str_eqb_eq in Hm. rewrite Hm.
      rewrite (q_charlen_print l rest Hwf Hnl). rewrite (q_square_stop _ _ rest Hnb). reflexivity.
    - (* exact number *)
      destruct (find_prow (t_print T) c) as [[c' f ws]|] eqn:Ef; [|discriminate].
      destruct f; try discriminate.
      destruct (find_prow_spec _ _ _ Ef) as [Hin Hc]. cbn [p_ctor] in Hc. subst c'.
      rewrite <- app_assoc.
      destruct (leaf_dispatch _ fuel (p_exact e ++ rest) Hin) as (a & Hm & Hp).
      { intros k Hk. destruct e; cbn [p_exact app]; try reflexivity. apply follow_alt_kws; assumption. }
      cbn [p_words p_ctor p_fam] in *. rewrite Hp. unfold fam_matches in Hm. unfold run_leaf.
      destruct (a_fam a); try discriminate. apply str_eqb_eq in Hm. rewrite Hm.
      rewrite (q_exact_print e rest Hwf Hnl). rewrite (q_square_stop _ _ rest Hnb). reflexivity.
    - (* time *)
      destruct (find_prow (t_print T) c) as [[c' f ws]|] eqn:Ef; [|discriminate].
      destruct f; try discriminate.
      destruct (find_prow_spec _ _ _ Ef) as [Hin Hc]. cbn [p_ctor] in Hc. subst c'.
      destruct tz; cbn [p_time].
      + (* no zone *)
        rewrite <- app_assoc.
        destruct (leaf_dispatch _ fuel (p_optparen p ++ rest) Hin) as (a & Hm & Hp).
        { apply paren_head_not_kw. apply follow_alt_kws; exact Hfol. }
        cbn [p_words p_ctor p_fam] in *. rewrite Hp. unfold fam_matches in Hm. unfold run_leaf.
        destruct (a_fam a); try discriminate. apply str_eqb_eq in Hm. rewrite Hm.
        rewrite (q_optparen_print p rest Hwf Hnl). rewrite (q_tz_none rest Hfol).
        rewrite (q_square_stop _ _ rest Hnb). reflexivity.
      + rewrite <- !app_assoc.
        destruct (leaf_dispatch _ fuel (p_optparen p ++ [W "WITH"; W "TIME"; W "ZONE"] ++ rest) Hin) as (a & Hm & Hp).
        { apply paren_head_not_kw. apply fam_kw_head; [apply in_fam_WITH|reflexivity]. }
        cbn [p_words p_ctor p_fam] in *. rewrite Hp. unfold fam_matches in Hm. unfold run_leaf.
        destruct (a_fam a); try discriminate. apply str_eqb_eq in Hm. rewrite Hm.
        cbn [app]. rewrite (q_optparen_print p (W "WITH" :: W "TIME" :: W "ZONE" :: rest) Hwf I). rewrite q_tz_with.
        rewrite (q_square_stop _ _ rest Hnb). reflexivity.
      + rewrite <- !app_assoc.
        destruct (leaf_dispatch _ fuel (p_optparen p ++ [W "WITHOUT"; W "TIME"; W "ZONE"] ++ rest) Hin) as (a & Hm & Hp).
        { apply paren_head_not_kw. apply fam_kw_head; [apply in_fam_WITHOUT|reflexivity]. }
        cbn [p_words p_ctor p_fam] in *. rewrite Hp. unfold fam_matches in Hm. unfold run_leaf.
        destruct (a_fam a); try discriminate. apply str_eqb_eq in Hm. rewrite Hm.
        cbn [app]. rewrite (q_optparen_print p (W "WITHOUT" :: W "TIME" :: W "ZONE" :: rest) Hwf I). rewrite q_tz_without.
        rewrite (q_square_stop _ _ rest Hnb). reflexivity.
      + (* TZ spelling: its own keyword *)
        pose proof (cons_rows _ Hin) as Hok. unfold prow_ok in Hok. cbn [p_words p_fam p_ctor] in Hok.
        destruct ws as [|w0 ws]; [discriminate|].
        destruct (find_kw (t_parse T) (ascii_upper w0)) as [[kw g k]|]; [|discriminate].
        destruct g; [discriminate|]. destruct k as [alts|]; [|discriminate].
        apply andb_true_iff in Hok as [_ Hok].
        destruct ws; [|discriminate].
        destruct (find_kw (t_parse T) (ascii_upper (w0 ++ s2l "TZ"))) as [[kw2 g2 k2]|] eqn:Ef2; [|discriminate].
        destruct g2; [discriminate|]. destruct k2 as [alts2|]; [|discriminate].
        destruct alts2 as [|[ks2 c2 f2] tl2]; [discriminate|].
        destruct ks2; [|discriminate]. destruct f2; try discriminate. destruct tl2; [|discriminate].
        apply str_eqb_eq in Hok. subst c2.
        cbn [glue_tz words map app].
        pose proof (find_kw_parow _ _ _ d Ef2 eq_refl) as Hp2.
        rewrite (helper_alts fuel _ _ _ kw2 None Hp2).
        cbn [run_alts a_kws take_kws]. unfold run_leaf. cbn [a_fam a_ctor].
        rewrite (q_optparen_print p rest Hwf Hnl).
        rewrite (q_square_stop _ _ rest Hnb). reflexivity.
  Qed.
End Leaf.

(** ** Gluing of adjacent [>] *)
Definition not_gt (t : tok) : Prop := t <> TGt.
Definition head_not_gt (l : list tok) : Prop := match l with TGt :: _ => False | _ => True end.

Lemma glue_cons x r : x <> TGt -> glue (x :: r) = x :: glue r.
Proof. intro H. destruct x; try reflexivity. contradiction. Qed.

Lemma glue_nogt_app xs ys : Forall not_gt xs -> glue (xs ++ ys) = xs ++ glue ys.
Proof.
  induction 1 as [|x xs Hx _ IH]; [reflexivity|].
  cbn [app]. rewrite glue_cons by exact Hx. rewrite IH. reflexivity.
Qed.

Lemma glue_gt_other rest : head_not_gt rest -> glue (TGt :: rest) = TGt :: glue rest.
Proof. destruct rest as [|x rest]; [reflexivity|]. destruct x; try reflexivity. contradiction. Qed.

Lemma glue_repeat m : forall rest, head_not_gt rest -> glue (repeat TGt m ++ rest) = close m ++ glue rest.
Proof.
  induction m as [m IH] using (well_founded_induction lt_wf). intros rest H.
  destruct m as [|[|k]].
  - reflexivity.
  - cbn [repeat app close]. apply glue_gt_other. exact H.
  - cbn [repeat app close glue]. f_equal. apply IH; [lia|exact H].
Qed.

Lemma glue_head_other rest : head_not_gt rest -> match rest with [] => glue rest = [] | x :: r => exists r', glue rest = x :: r' end.
Proof. destruct rest as [|x r]; [reflexivity|]. intro H. destruct x; try (eexists; reflexivity). contradiction. Qed.

Definition no_gtb (l : list tok) : bool := forallb (fun t => negb (tok_eqb t TGt)) l.
Lemma no_gtb_Forall l : no_gtb l = true -> Forall not_gt l.
Proof.
  induction l as [|x l IH]; cbn [no_gtb forallb]; intro H; constructor.
  - apply andb_true_iff in H as [H _]. intro E; subst. discriminate.
  - apply IH. apply andb_true_iff in H as [_ H]. exact H.
Qed.
Lemma no_gtb_app a b : no_gtb (a ++ b) = no_gtb a && no_gtb b.
Proof. unfold no_gtb. apply forallb_app. Qed.
Lemma no_gtb_words ws : no_gtb (words ws) = true.
Proof. induction ws; [reflexivity|]. cbn. exact IHws. Qed.

Lemma leaf_no_gt T t : leaf_wf T t = true -> Forall not_gt (print_dt T t).
Proof.
  intro H. apply no_gtb_Forall.
  destruct t; cbn [leaf_wf] in H; try discriminate; cbn [print_dt];
    destruct (find_prow (t_print T) c) as [[c' f ws]|]; try discriminate; destruct f; try discriminate;
    rewrite ?no_gtb_app, ?no_gtb_words.
  - reflexivity.
  - destruct n, unsigned; reflexivity.
  - destruct l as [[n [[|]|]|]|]; reflexivity.
  - destruct e; reflexivity.
  - destruct tz; cbn [p_time]; rewrite ?no_gtb_app, ?no_gtb_words; destruct p; reflexivity.
Qed.

Lemma leaf_trail T t : leaf_wf T t = true -> trail t = 0%nat /\ depth t = 0%nat.
Proof. destruct t; cbn [leaf_wf]; try discriminate; auto. Qed.

(** ** Nesting: angle arrays with the [>>] bookkeeping, Nullable / LowCardinality wrappers *)
Ltac tagchain :=
  repeat match goal with
  | |- context [str_eqb (s2l ?a) (s2l ?b)] =>
      let v := eval vm_compute in (str_eqb (s2l a) (s2l b)) in
      change (str_eqb (s2l a) (s2l b)) with v
  end; cbn iota.

Section Nest.
  Variable T : tables.
  Variable d : str.
  Hypothesis Hcons : family_consistent T = true.

  Lemma irr_at_row kw tag :
    irr_at T d kw tag = true ->
    exists k g, find_parow (t_parse T) d kw = Some {| r_kw := k; r_gate := g; r_kind := RIrregular tag |}.
  Proof.
    unfold irr_at. destruct (find_parow (t_parse T) d kw) as [[k g [alts|t]]|]; try discriminate.
    intro H. apply str_eqb_eq in H. subst t. eauto.
  Qed.

  Definition top_of (r : pres) : pres := match r with POk t false r' => POk t false r' | _ => PErr end.
  Definition wrap_square (r : pres) : pres :=
    match r with
    | POk t tr r' => match q_square d (S (length r')) t r' with Some (t', r'') => POk t' tr r'' | None => PErr end
    | PErr => PErr end.

  Lemma helper_nullable f r :
    irr_at T d (s2l "NULLABLE") (s2l "NULLABLE#0") = true ->
    parse_helper T d (S f) (W "Nullable" :: TLParen :: r) =
      wrap_square (match top_of (parse_helper T d f r) with
                   | POk t _ (TRParen :: r') => POk (DNullable t) false r'
                   | _ => PErr end).
  Proof.
    intro H. destruct (irr_at_row _ _ H) as (k & g & Hf).
    cbn [parse_helper W]. change (ascii_upper (s2l "Nullable")) with (s2l "NULLABLE"). rewrite Hf.
    tagchain. reflexivity.
  Qed.

  Lemma helper_lowcard f r :
    irr_at T d (s2l "LOWCARDINALITY") (s2l "LOWCARDINALITY#0") = true ->
    parse_helper T d (S f) (W "LowCardinality" :: TLParen :: r) =
      wrap_square (match top_of (parse_helper T d f r) with
                   | POk t _ (TRParen :: r') => POk (DLowCard t) false r'
                   | _ => PErr end).
  Proof.
    intro H. destruct (irr_at_row _ _ H) as (k & g & Hf).
    cbn [parse_helper W]. change (ascii_upper (s2l "LowCardinality")) with (s2l "LOWCARDINALITY"). rewrite Hf.
    tagchain. reflexivity.
  Qed.

  Lemma helper_angle f r :
    irr_at T d (s2l "ARRAY") (s2l "ARRAY#0") = true ->
    str_eqb d (s2l "snowflake") = false -> str_eqb d (s2l "clickhouse") = false ->
    parse_helper T d (S f) (W "ARRAY" :: TLt :: r) =
      wrap_square (match parse_helper T d f r with
                   | POk t tr r2 =>
                       match q_close_angle tr r2 with
                       | Some (tr', r3) => POk (DArrayAngle t) tr' r3
                       | None => PErr end
                   | PErr => PErr end).
  Proof.
    intros H Hs Hc. destruct (irr_at_row _ _ H) as (k & g & Hf).
    cbn [parse_helper W]. change (ascii_upper (s2l "ARRAY")) with (s2l "ARRAY"). rewrite Hf.
    tagchain. rewrite Hs, Hc. reflexivity.
  Qed.

  Inductive PF : dt -> Prop :=
  | PF_leaf t : leaf_wf T t = true -> PF t
  | PF_nullable u : irr_at T d (s2l "NULLABLE") (s2l "NULLABLE#0") = true -> PF u -> PF (DNullable u)
  | PF_lowcard u : irr_at T d (s2l "LOWCARDINALITY") (s2l "LOWCARDINALITY#0") = true -> PF u -> PF (DLowCard u)
  | PF_angle u : irr_at T d (s2l "ARRAY") (s2l "ARRAY#0") = true ->
                 str_eqb d (s2l "snowflake") = false -> str_eqb d (s2l "clickhouse") = false ->
                 PF u -> PF (DArrayAngle u).

  Definition flag (t : dt) (m : nat) : bool := Nat.odd (trail t) && negb (Nat.eqb m 0).

  Lemma follow_top_parts rest :
    follow_top T rest = true -> follow_ok T rest = true /\ head_not_gt rest /\ match rest with TShr :: _ => False | _ => True end.
  Proof.
    unfold follow_top. intro H. apply andb_true_iff in H as [H1 H2]. split; [exact H1|].
    destruct rest as [|x r]; [split; exact I|]. destruct x; try discriminate; split; exact I.
  Qed.

  Lemma follow_glue rest : follow_top T rest = true -> follow_ok T (glue rest) = true.
  Proof.
    intro H. destruct (follow_top_parts _ H) as (H1 & H2 & _).
    destruct rest as [|x r]; [reflexivity|]. destruct x; try exact H1; try discriminate.
  Qed.

  Lemma follow_close_glue m rest : follow_top T rest = true -> follow_ok T (close m ++ glue rest) = true.
  Proof.
    intro H. destruct m as [|[|k]]; cbn [close app]; [apply follow_glue; exact H|reflexivity|reflexivity].
  Qed.

  Lemma not_lbracket_close_glue m rest :
    follow_top T rest = true -> match close m ++ glue rest with TLBracket :: _ => False | _ => True end.
  Proof. intro H. apply (follow_not_lbracket T). apply follow_close_glue. exact H. Qed.

  Theorem nest_parse t :
    PF t -> forall fuel m rest, (depth t < fuel)%nat -> follow_top T rest = true ->
    parse_helper T d fuel (glue (print_dt T t ++ repeat TGt m ++ rest)) =
      POk t (flag t m) (close (m - (if flag t m then 1 else 0)) ++ glue rest).
  Proof.
    induction 1 as [t Hl | u Hi _ IH | u Hi _ IH | u Hi Hs Hc _ IH]; intros fuel m rest Hd Hf;
      destruct (follow_top_parts _ Hf) as (Hfo & Hng & Hns).
    - (* table-driven families *)
      destruct (leaf_trail T t Hl) as [Ht _]. unfold flag. rewrite Ht. cbn [Nat.odd andb]. rewrite Nat.sub_0_r.
      rewrite (glue_nogt_app _ _ (leaf_no_gt T t Hl)). rewrite (glue_repeat m rest Hng).
      destruct fuel as [|f]; [lia|].
      apply (leaf_parse T d Hcons); [exact Hl|apply follow_close_glue; exact Hf].
    - (* Nullable(u) *)
      destruct fuel as [|f]; [lia|]. cbn [depth] in Hd.
      unfold flag. cbn [trail Nat.odd andb]. rewrite Nat.sub_0_r.
      cbn [print_dt]. cbn [app]. rewrite <- app_assoc. cbn [app glue W].
      rewrite (helper_nullable f _ Hi).
      change (TRParen :: repeat TGt m ++ rest) with (repeat TGt 0 ++ TRParen :: repeat TGt m ++ rest).
      rewrite (IH f 0%nat (TRParen :: repeat TGt m ++ rest)); [|lia|reflexivity].
      unfold flag. rewrite Bool.andb_false_r. cbn [top_of close app Nat.sub glue].
      rewrite (glue_repeat m rest Hng). cbn [wrap_square].
      rewrite (q_square_stop d _ _ _ (not_lbracket_close_glue m rest Hf)). reflexivity.
    - (* LowCardinality(u) *)
      destruct fuel as [|f]; [lia|]. cbn [depth] in Hd.
      unfold flag. cbn [trail Nat.odd andb]. rewrite Nat.sub_0_r.
      cbn [print_dt]. cbn [app]. rewrite <- app_assoc. cbn [app glue W].
      rewrite (helper_lowcard f _ Hi).
      change (TRParen :: repeat TGt m ++ rest) with (repeat TGt 0 ++ TRParen :: repeat TGt m ++ rest).
      rewrite (IH f 0%nat (TRParen :: repeat TGt m ++ rest)); [|lia|reflexivity].
      unfold flag. rewrite Bool.andb_false_r. cbn [top_of close app Nat.sub glue].
      rewrite (glue_repeat m rest Hng). cbn [wrap_square].
      rewrite (q_square_stop d _ _ _ (not_lbracket_close_glue m rest Hf)). reflexivity.
    - (* ARRAY<u> *)
      destruct fuel as [|f]; [lia|]. cbn [depth] in Hd.
      cbn [print_dt]. cbn [app]. rewrite <- app_assoc. cbn [app glue W].
      rewrite (helper_angle f _ Hi Hs Hc).
      change (TGt :: repeat TGt m ++ rest) with (repeat TGt (S m) ++ rest).
      rewrite (IH f (S m) rest); [|lia|exact Hf].
      unfold flag. cbn [trail]. rewrite Nat.odd_succ, <- Nat.negb_odd.
      destruct (Nat.odd (trail u)) eqn:Eo; cbn [negb andb Nat.eqb].
      + (* the child consumed [>>]: our own bracket is gone *)
        cbn [q_close_angle wrap_square Nat.sub]. rewrite !Nat.sub_0_r.
        rewrite (q_square_stop d _ _ _ (not_lbracket_close_glue m rest Hf)). reflexivity.
      + destruct m as [|m']; cbn [Nat.eqb negb Nat.sub close app q_close_angle wrap_square].
        * rewrite (q_square_stop d _ _ _ (not_lbracket_close_glue 0 rest Hf)). reflexivity.
        * rewrite Nat.sub_0_r.
          rewrite (q_square_stop d _ _ _ (not_lbracket_close_glue m' rest Hf)). reflexivity.
  Qed.


  (** the fuel [parse_dt] uses is enough *)
  Lemma leaf_print_head t : leaf_wf T t = true -> exists w tl, print_dt T t = TWord w :: tl.
  Proof.
    intro H. destruct t; cbn [leaf_wf] in H; try discriminate; cbn [print_dt];
      destruct (find_prow (t_print T) c) as [[c' f ws]|] eqn:Ef; try discriminate; destruct f; try discriminate;
      destruct (find_prow_spec _ _ _ Ef) as [Hin _];
      destruct (row_facts T Hcons _ Hin) as (w0 & ws' & _ & _ & _ & Hw & _); cbn [p_words] in Hw; subst ws.
    - eexists; eexists; reflexivity.
    - eexists; eexists; reflexivity.
    - eexists; eexists; reflexivity.
    - eexists; eexists; reflexivity.
    - destruct tz; cbn [p_time words map app]; try (eexists; eexists; reflexivity).
      destruct ws'; cbn [glue_tz map app]; eexists; eexists; reflexivity.
  Qed.

  Lemma depth_lt_len t : PF t -> forall tl, (depth t < length (glue (print_dt T t ++ tl)))%nat.
  Proof.
    induction 1 as [t Hl | u Hi _ IH | u Hi _ IH | u Hi Hs Hc _ IH]; intro tl.
    - destruct (leaf_trail T t Hl) as [_ Hd]. rewrite Hd.
      destruct (leaf_print_head t Hl) as (w & tl' & E). rewrite E. cbn [app glue length]. lia.
    - cbn [print_dt depth]. cbn [app]. rewrite <- app_assoc. cbn [app glue W length]. specialize (IH (TRParen :: tl)). lia.
    - cbn [print_dt depth]. cbn [app]. rewrite <- app_assoc. cbn [app glue W length]. specialize (IH (TRParen :: tl)). lia.
    - cbn [print_dt depth]. cbn [app]. rewrite <- app_assoc. cbn [app glue W length]. specialize (IH (TGt :: tl)). lia.
  Qed.

  (** Printing and parsing back, followed by anything the type grammar cannot absorb. *)
  Theorem round_trip_follow t rest :
    PF t -> follow_top T rest = true ->
    parse_helper T d (S (length (glue (print_dt T t ++ rest)))) (glue (print_dt T t ++ rest)) = POk t false (glue rest).
  Proof.
    intros Hp Hf.
    pose proof (nest_parse t Hp (S (length (glue (print_dt T t ++ rest)))) 0%nat rest) as H.
    cbn [repeat app] in H. rewrite H; [|pose proof (depth_lt_len t Hp rest); lia|exact Hf].
    unfold flag. rewrite Bool.andb_false_r. reflexivity.
  Qed.

  (** Stand-alone: [Parser::parse_data_type] on the printed text returns the value and consumes everything. *)
  Corollary round_trip_standalone t : PF t -> parse_dt T d (glue (print_dt T t)) = POk t false [].
  Proof.
    intro Hp. pose proof (round_trip_follow t [] Hp eq_refl) as H. rewrite app_nil_r in H.
    unfold parse_dt. rewrite H. reflexivity.
  Qed.
End Nest.
